"""Line protocol plumbing: hex, s-expressions, running the harness (real crate) and the
Lean driver (model) on the same request lines, canonicalisation and diffing."""
import os, re, subprocess, sys, time, json, hashlib

VERIF = os.path.dirname(os.path.dirname(os.path.abspath(__file__)))
BUILD = os.path.join(VERIF, ".build")
HARNESS_DIR = os.path.join(VERIF, "harness")
LEAN_DIR = os.path.join(VERIF, "lean", "EE")
DRIVER = os.path.join(LEAN_DIR, ".lake", "build", "bin", "eedriver")


def harness_bin(profile="debug"):
    return os.path.join(BUILD, "harness", profile, "eeharness")


def hx(s):
    return "-" if s == "" else s.encode("utf-8").hex()


def unhx(h):
    return "" if h == "-" else bytes.fromhex(h).decode("utf-8")


# ---------- s-expressions ----------
def sexp_parse(s):
    stack = [[]]
    tok = ""
    for ch in s:
        if ch in "() ":
            if tok:
                stack[-1].append(tok)
                tok = ""
            if ch == "(":
                stack.append([])
            elif ch == ")":
                x = stack.pop()
                stack[-1].append(x)
        else:
            tok += ch
    if tok:
        stack[-1].append(tok)
    return stack[0][0] if stack[0] else None


def sexp_str(x):
    if isinstance(x, str):
        return x
    return "(" + " ".join(sexp_str(y) for y in x) + ")"


_num_re = re.compile(r"\(n ([01]) (\d+) (\d+)\)")


def _norm_num(m):
    neg, mant, scale = m.group(1), int(m.group(2)), int(m.group(3))
    while scale > 0 and mant % 10 == 0:
        mant //= 10
        scale -= 1
    if mant == 0:
        neg, scale = "0", 0
    return "(n %s %d %d)" % (neg, mant, scale)


def norm_numbers(s):
    """Values are compared numerically: strip trailing zeros, -0 = 0."""
    return _num_re.sub(_norm_num, s)


_err_re = re.compile(r"\b(ERR|PARSEERR) \w+")


def strip_err_kind(s):
    return _err_re.sub(lambda m: m.group(1), s)


# ---------- running ----------
class RunResult:
    def __init__(self, lines, aborted_at=None, deadlock_at=None, wall=0.0):
        self.lines = lines
        self.aborted_at = aborted_at
        self.wall = wall


def _run_once(cmd, text, timeout, env=None):
    t0 = time.time()
    try:
        p = subprocess.run(cmd, input=text, capture_output=True, text=True, timeout=timeout, env=env)
        return p.returncode, p.stdout, time.time() - t0, False
    except subprocess.TimeoutExpired as e:
        out = e.stdout.decode("utf-8", "replace") if isinstance(e.stdout, bytes) else (e.stdout or "")
        return -999, out, time.time() - t0, True


def run_impl(reqs, profile="debug", timeout=300, stack=None, flush=False, max_aborts=25, watchdog_ms=None):
    """Run request lines against the real crate. A process abort (stack overflow, SIGSEGV) or a
    timeout is attributed to the request being processed (found in --flush mode); the remaining
    requests continue in a new process (state is lost, which only matters for stateful streams)."""
    env = dict(os.environ)
    if stack:
        env["EE_STACK"] = str(stack)
    if watchdog_ms:
        env["EE_WATCHDOG_MS"] = str(watchdog_ms)
    out_lines = []
    todo = list(reqs)
    aborts = 0
    while todo:
        cmd = [harness_bin(profile)] + (["--flush"] if flush else [])
        rc, out, wall, timed_out = _run_once(cmd, "\n".join(todo) + "\n", timeout, env)
        lines = out.split("\n")
        if lines and lines[-1] == "":
            lines.pop()
        if rc == 0 and len(lines) == len(todo):
            out_lines.extend(lines)
            break
        if rc == 3 and lines and lines[-1].endswith("DEADLOCK"):
            # watchdog fired: the deadlocked request is the last line; the rest is skipped
            out_lines.extend(lines)
            out_lines.extend(["SKIPPED"] * (len(todo) - len(lines)))
            break
        if not flush:
            # locate the culprit with per-line flushing
            cmd = [harness_bin(profile), "--flush"]
            rc, out, wall, timed_out = _run_once(cmd, "\n".join(todo) + "\n", timeout, env)
            lines = out.split("\n")
            if lines and lines[-1] == "":
                lines.pop()
            if rc == 0 and len(lines) == len(todo):
                out_lines.extend(lines)
                break
            if rc == 3 and lines and lines[-1].endswith("DEADLOCK"):
                out_lines.extend(lines)
                out_lines.extend(["SKIPPED"] * (len(todo) - len(lines)))
                break
        k = len(lines)
        out_lines.extend(lines[:k])
        if k >= len(todo):
            break
        out_lines.append("HANG" if timed_out else "ABORT")
        todo = todo[k + 1:]
        aborts += 1
        if aborts >= max_aborts:
            out_lines.extend(["SKIPPED"] * len(todo))
            break
    return out_lines


def run_model(reqs, timeout=600):
    rc, out, wall, timed_out = _run_once([DRIVER], "\n".join(reqs) + "\n", timeout)
    lines = out.split("\n")
    if lines and lines[-1] == "":
        lines.pop()
    if rc != 0 or len(lines) != len(reqs):
        lines.extend(["DRIVERFAIL"] * (len(reqs) - len(lines)))
    return lines


def canon(line, numeric=True):
    s = strip_err_kind(line)
    if numeric:
        s = norm_numbers(s)
    if s.startswith("OK\t") and "\t" in s and s.count(":calc:") + s.count(":setter:") > 3:
        f = s.split("\t")
        f[1] = " ".join(sorted(f[1].split()))
        s = "\t".join(f)
    return s


def err_kind(line):
    m = _err_re.search(line)
    return m.group(0) if m else None


def seed_rng(seed):
    return SplitMix(seed)


class SplitMix:
    """splitmix64: every random choice of a run derives from VERIF_SEED."""
    def __init__(self, seed):
        self.s = seed & 0xFFFFFFFFFFFFFFFF

    def next(self):
        self.s = (self.s + 0x9E3779B97F4A7C15) & 0xFFFFFFFFFFFFFFFF
        z = self.s
        z = ((z ^ (z >> 30)) * 0xBF58476D1CE4E5B9) & 0xFFFFFFFFFFFFFFFF
        z = ((z ^ (z >> 27)) * 0x94D049BB133111EB) & 0xFFFFFFFFFFFFFFFF
        return z ^ (z >> 31)

    def below(self, n):
        return self.next() % n

    def choice(self, xs):
        return xs[self.below(len(xs))]

    def chance(self, num, den):
        return self.below(den) < num

    def fork(self):
        return SplitMix(self.next())
