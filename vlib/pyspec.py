"""Independent reference semantics in Python (exact rationals / big integers) used as a direct
oracle on the implementation for the built-in operators (C03, C04, C09). Values are protocol
s-expressions: ['n',neg,mant,scale] ['s',hex] ['b','0'|'1'] ['l',...] ['m',[k,v]...] ['none']."""
from fractions import Fraction
from .proto import unhx, hx

LIMIT = 1 << 96

def num_val(v):
    f = Fraction(int(v[2]), 10 ** int(v[3]))
    return -f if v[1] == "1" else f

def representable(f):
    """Is the rational f a decimal with ≤ 28 places and mantissa < 2^96? Return normalised triple or None."""
    neg = f < 0
    a = abs(f)
    for s in range(0, 29):
        m = a * (10 ** s)
        if m.denominator == 1:
            if m.numerator < LIMIT:
                return ["n", "1" if neg and m.numerator != 0 else "0", str(m.numerator), str(s)]
            return None
    return None

def overflow(f):
    return abs(f) >= LIMIT

def integral_i64(v):
    if v[0] != "n":
        return None
    f = num_val(v)
    if f.denominator != 1:
        return None
    n = f.numerator
    if -(1 << 63) <= n < (1 << 63):
        return n
    return None

def wrap64(n):
    n &= (1 << 64) - 1
    return n - (1 << 64) if n >= (1 << 63) else n

def veq(a, b):
    if a[0] != b[0]:
        return False
    k = a[0]
    if k == "n":
        return num_val(a) == num_val(b)
    if k in ("s", "b"):
        return a[1] == b[1]
    if k == "none":
        return True
    if k == "l":
        return len(a) == len(b) and all(veq(x, y) for x, y in zip(a[1:], b[1:]))
    if k == "m":
        return len(a) == len(b) and all(veq(x[0], y[0]) and veq(x[1], y[1]) for x, y in zip(a[1:], b[1:]))
    return False

ERR = "ERR"
SKIP = None  # the exact result is not representable: the library rounds; no claim

def B(x): return ["b", "1" if x else "0"]
def N(f):
    r = representable(f)
    if r is None:
        return ERR if overflow(f) else SKIP
    return r
def I(n): return ["n", "1" if n < 0 else "0", str(abs(n)), "0"]

def infix(op, a, b):
    """Expected result of the built-in `a op b` (value-level; assignment forms compute the same)."""
    if op == "=":
        return b
    if op in ("+=", "-=", "*=", "/=", "%=", "<<=", ">>=", "&=", "^=", "|="):
        op = op[:-1]
    if op in ("+", "-", "*", "/", "%"):
        if a[0] != "n" or b[0] != "n":
            return ERR
        x, y = num_val(a), num_val(b)
        if op == "+": return N(x + y)
        if op == "-": return N(x - y)
        if op == "*": return N(x * y)
        if y == 0: return ERR
        if op == "/":
            q = x / y
            r = representable(q)
            if r is not None: return r
            return ERR if overflow(q) else SKIP
        q = abs(x) // abs(y)
        r = abs(x) - q * abs(y)
        return N(-r if x < 0 else r)
    if op in ("<", "<=", ">", ">="):
        if a[0] != "n" or b[0] != "n":
            return ERR
        x, y = num_val(a), num_val(b)
        return B({"<": x < y, "<=": x <= y, ">": x > y, ">=": x >= y}[op])
    if op == "==": return B(veq(a, b))
    if op == "!=": return B(not veq(a, b))
    if op in ("&&", "||"):
        if a[0] != "b" or b[0] != "b":
            return ERR
        x, y = a[1] == "1", b[1] == "1"
        return B(x and y if op == "&&" else x or y)
    if op in ("|", "^", "&", "<<", ">>"):
        x, y = integral_i64(a), integral_i64(b)
        if x is None or y is None:
            return ERR
        if op == "|": return I(wrap64(x | y))
        if op == "^": return I(wrap64(x ^ y))
        if op == "&": return I(wrap64(x & y))
        if not (0 <= y <= 63): return ERR
        if op == "<<": return I(wrap64(x << y))
        return I(x >> y)
    if op in ("beginWith", "endWith"):
        if a[0] != "s" or b[0] != "s":
            return ERR
        x, y = unhx(a[1]), unhx(b[1])
        return B(x.startswith(y) if op == "beginWith" else x.endswith(y))
    if op == "in":
        if b[0] != "l":
            return ERR
        return B(any(veq(it, a) for it in b[1:]))
    return None

def prefix(op, a):
    if op == "-":
        if a[0] != "n": return ERR
        return N(-num_val(a))
    if op == "+":
        return a if a[0] == "n" else ERR
    if op in ("!", "not"):
        return B(a[1] != "1") if a[0] == "b" else ERR
    if op in ("AND", "OR"):
        if a[0] != "l": return ERR
        for it in a[1:]:
            if it[0] != "b": return ERR
            if op == "AND" and it[1] == "0": return B(False)
            if op == "OR" and it[1] == "1": return B(True)
        return B(op == "AND")
    return None

def postfix(op, a):
    if a[0] != "n": return ERR
    return N(num_val(a) + (1 if op == "++" else -1))

def function(name, args):
    if any(x[0] != "n" for x in args):
        # the error surfaces when the offending argument is reached; all of them are before any result
        return ERR
    vals = [num_val(x) for x in args]
    if name in ("min", "max"):
        if not vals: return ERR
        return N(min(vals) if name == "min" else max(vals))
    acc = Fraction(0 if name == "sum" else 1)
    for v in vals:
        acc = acc + v if name == "sum" else acc * v
        r = N(acc)
        if r is ERR: return ERR
        if r is SKIP: return SKIP
    return N(acc)
