"""Wild histories: one broad differential stream shared by all checks.

Every property check has generators aimed at its own property; their blind spots have always been input *classes* nobody
thought of (a name spelled like a registered function, an operator one precedence step from a built-in, a key written twice).
This stream aims at nothing in particular: long random histories that mix registrations of every kind (new names, built-in
names, word and symbolic spellings, precedences from far apart to adjacent to zero and negative, both associativities,
assignment-type operators), descriptor registrations, contexts binding values of every type and functions under arbitrary
names (also names of registered functions), and programs drawn from an untyped grammar over all of it — tokenized, parsed,
rendered, described and evaluated, on the main thread and on a second long-lived one. The executable Lean model answers the
same requests; any difference is a correspondence break for the properties that request kind belongs to.

The result is cached under .build/ keyed by everything it depends on (crate sources, harness, model, this file, seed, tier),
so the 18 checks of one run share one computation."""
import os, json, hashlib, glob
from .proto import hx, unhx, sexp_str, VERIF, BUILD, SplitMix
from .core import both, canon
from .proto import run_impl, run_model

# which properties a disagreement on a request kind concerns
KIND_PROPS = {
    "TOK": {"C01", "C05", "C10", "C11"},
    "PARSE": {"C01", "C02", "C05", "C08", "C11"},
    "EXPR": {"C12"},
    "DESCR": {"C18"},
    "EXEC": {"C03", "C04", "C06", "C07", "C08", "C09", "C15", "C16"},
    "GETVAR": {"C06", "C16"},
    "ACC": {"C17"},
    "CONV": {"C17"},
}
SECOND_THREAD_PROPS = {"C13", "C16"}


def n(m, scale=0, neg=False):
    return ["n", "1" if neg else "0", str(m), str(scale)]


VALUES = [n(0), n(1), n(2), n(3), n(7), n(10), n(25, 1), n(5, 1), n(110, 2), n(4, 0, True), n(15, 1, True), n(64), n(100), n(1, 3),
          n(9223372036854775807), n(79228162514264337593543950335), ["b", "1"], ["b", "0"], ["s", hx("a")], ["s", hx("ab")], ["s", hx("")], ["s", hx("é")],
          ["l", n(1), n(2)], ["l"], ["l", ["s", hx("a")], ["b", "1"]], ["none"]]

VAR_NAMES = ["x", "y", "z", "n1", "b1", "s1", "l1", "q"]
UNBOUND = ["nobody", "u2"]
BUILTIN_FNS = ["sum", "mul", "min", "max"]
USER_FNS = ["g", "h", "twice", "pick"]
CTX_FNS = ["f", "cf"]
BUILTIN_INFIX = ["=", "+=", "-=", "*=", "/=", "%=", "<<=", ">>=", "&=", "^=", "|=", "||", "&&", "<", "<=", ">", ">=", "==", "!=",
                 "|", "^", "&", "<<", ">>", "+", "-", "*", "/", "%", "beginWith", "endWith", "in"]
NUM_OPS = ["+", "-", "*", "%", "+", "-", "*", "+", "-", "*", "/"]
BIT_OPS = ["|", "^", "&", "<<", ">>"]
CMP_OPS = ["<", "<=", ">", ">=", "==", "!="]
# operators a history may register again (never the ones the `bi` scripts delegate to: `*`, `<`, `&&`)
REREG_INFIX = ["+", "-", "==", "in", "<<", "/"]
NEW_INFIX = ["cat", "otherwise", "<=>", "**", "=~", "~", "pw", "@@", "beside", "!!", "pct"]   # the last two are also postfix names
NEW_PREFIX = ["neg", "~~", "twicep"]
NEW_POSTFIX = ["!!", "pct", "§"]
PRECS = [2 ** 30, 2 ** 31 - 1, -2 ** 31, 1, 2, 19, 20, 21, 39, 40, 41, 99, 100, 101, 109, 110, 111, 119, 120, 121, 199, 200, 201, 1000, 1000000000, 0, -5]
INFIX_SCRIPTS = [["bi", hx("*")], ["arg", "0"], ["arg", "1"], ["const", n(42)], ["err"], ["bi", hx("<")], ["log", hx("op"), ["arg", "0"]]]
UNARY_SCRIPTS = [["arg", "0"], ["const", n(8)], ["err"], ["log", hx("un"), ["arg", "0"]]]
FN_SCRIPTS = [["const", n(9)], ["arg", "0"], ["arg", "1"], ["err"], ["log", hx("fn"), ["const", n(1)]], ["exec", hx("1 + 2 * 3")], ["parse", hx("a +")],
              ["seq", ["reg", "fn", hx("late"), "0", "calc", "left", ["const", n(5)]], ["const", n(0)]]]
DESC_KINDS = {"unary": ["-", "!", "not", "neg"], "binary": ["+", "*", "=", "in", "cat", "&&"], "postfix": ["++", "!!"], "function": ["max", "g", "f"],
              "reference": ["x", "nobody"], "ternary": None, "list": None, "map": None, "chain": None}


class World:
    """What the generator knows about the history so far (only to make programs that use what was registered)."""
    def __init__(self):
        self.infix = []      # registered non-built-in infix names
        self.prefix = []
        self.postfix = []
        self.fns = []
        self.ctx = {"m": [], "w": []}   # context ids per thread


class Gen:
    def __init__(self, rng, world):
        self.r, self.w = rng, world

    def name(self):
        r = self.r
        k = r.below(12)
        if k < 7: return r.choice(VAR_NAMES)
        if k < 8: return r.choice(UNBOUND)
        if k < 9: return r.choice(BUILTIN_FNS + USER_FNS + ["late"])     # a name spelled like a function, read as a variable
        if k < 10: return r.choice(CTX_FNS)
        return r.choice(VAR_NAMES)

    def number(self):
        return self.r.choice(["0", "1", "2", "3", "7", "10", "0.5", "1.50", "0.1", "0.2", "100", "63", "64", "65", "9223372036854775807",
                              "79228162514264337593543950335", "0.0000000000000000000000000001", "1.10", "12345678901234567890", "0.0000000000000000000000000001.", "1.0000000000000000000000000000.5"])

    def atom(self, want):
        r = self.r
        k = r.below(10)
        if want == "num":
            return self.number() if k < 5 else r.choice(["x", "y", "n1", "z"]) if k < 9 else self.name()
        if want == "bool":
            return r.choice(["true", "false", "b1", "True", "False"]) if k < 8 else self.name()
        if k < 3: return self.number()
        if k < 5: return self.name()
        if k < 6: return r.choice(["'a'", '"ab"', "''", "'é'", "'it\"s'", "s1"])
        if k < 7: return r.choice(["true", "false"])
        if k < 8: return r.choice(["[]", "[1, 2]", "l1", "[x, 'a']"])
        if k < 9: return r.choice(["{}", "{1: 2}", "{'k': x, 'k': y}", "{x: [1]}"])
        return self.name()

    def call(self, d):
        r = self.r
        f = r.choice(BUILTIN_FNS + BUILTIN_FNS + USER_FNS + CTX_FNS + ["late", "nosuch", "x"] + self.w.fns)
        args = [self.e(d - 1, r.choice(["num", "num", "any"])) for _ in range(r.below(4))]
        return "%s(%s)" % (f, ", ".join(args)) + (" " if r.chance(1, 8) else "")

    def e(self, d, want="any"):
        r = self.r
        if d <= 0:
            return self.atom(want)
        k = r.below(24)
        if k < 5:
            return self.atom(want)
        if k < 10:
            if want == "bool":
                kind = r.below(4)
                if kind == 0: return "%s %s %s" % (self.e(d - 1, "num"), r.choice(CMP_OPS), self.e(d - 1, "num"))
                if kind == 1: return "%s %s %s" % (self.e(d - 1, "bool"), r.choice(["&&", "||"]), self.e(d - 1, "bool"))
                if kind == 2: return "%s in %s" % (self.e(d - 1, "num"), self.e(d - 1, "any"))
                return "%s %s %s" % (self.e(d - 1, "any"), r.choice(["beginWith", "endWith", "==", "!="]), self.e(d - 1, "any"))
            ops = NUM_OPS + (BIT_OPS if r.chance(1, 4) else []) + (BUILTIN_INFIX if want == "any" and r.chance(1, 3) else [])
            return "%s %s %s" % (self.e(d - 1, "num" if want == "num" or r.chance(2, 3) else "any"), r.choice(ops), self.e(d - 1, "num" if r.chance(3, 4) else "any"))
        if k < 12:
            extra = self.w.infix + NEW_INFIX[:2]
            return "%s %s %s" % (self.e(d - 1, want), r.choice(extra), self.e(d - 1, want))
        if k < 13:
            return "(%s)" % self.e(d - 1, want)
        if k < 15:
            op = r.choice(["-", "!", "not", "+", "-"] + self.w.prefix)
            return "%s %s" % (op, self.e(d - 1, "bool" if op in ("!", "not") else "num"))
        if k < 16:
            return "%s %s" % (self.e(d - 1, "num"), r.choice(["++", "--", "++"] + self.w.postfix))
        if k < 18:
            return "%s ? %s : %s" % (self.e(d - 1, "bool" if r.chance(5, 6) else "any"), self.e(d - 1, want), self.e(d - 1, want))
        if k < 20:
            return self.call(d)
        if k < 21:
            return "%s not %s %s" % (self.e(d - 1, "num"), r.choice(["in", "==", "<", "beginWith"] + self.w.infix[:1]), self.e(d - 1, "any"))
        if k < 22:
            return "[%s]" % ", ".join(self.e(d - 1, "any") for _ in range(r.below(4))) + ("" if r.chance(3, 4) else " ")
        if k < 23:
            return "{%s}" % ", ".join("%s: %s" % (self.e(d - 1, "any"), self.e(d - 1, "any")) for _ in range(r.below(3)))
        return "%s(%s)" % (r.choice(["AND", "OR"]), "[%s]" % ", ".join(self.e(d - 1, "bool") for _ in range(r.below(3))))

    def stmt(self, d):
        r = self.r
        k = r.below(10)
        if k < 4:
            return self.e(d, r.choice(["num", "bool", "any"]))
        if k < 7:
            return "%s %s %s" % (r.choice(VAR_NAMES + CTX_FNS[:1] + BUILTIN_FNS[:1]), r.choice(["=", "=", "+=", "-=", "*=", "/=", "%=", "<<=", "|=", "&=", "^=", ">>="]), self.e(d, "num" if r.chance(3, 4) else "any"))
        if k < 8:
            ops = ["=", "=", "+=", "|=", "<<=", "*=", "&="]
            return "%s %s %s %s %s" % (r.choice(VAR_NAMES), r.choice(ops), r.choice(VAR_NAMES), r.choice(ops), self.e(d - 1, "num" if r.chance(2, 3) else "any"))
        if k < 9:
            return "%s = (%s)" % (r.choice(VAR_NAMES), self.stmt(d - 1)) if d > 0 else "x = 1"
        return "%s = %s" % (r.choice(["1", "f()", "[x]", "x + 1"]), self.e(d - 1, "any"))

    def program(self):
        r = self.r
        k = 1 + (r.below(4) if r.chance(1, 2) else 0)
        text = "; ".join(self.stmt(1 + r.below(3)) for _ in range(k))
        if r.chance(1, 6): text += ";"
        if r.chance(1, 12): text = self.corrupt(text)
        return text

    def corrupt(self, s):
        r = self.r
        if not s: return s
        i = r.below(len(s))
        c = r.choice(["(", ")", "[", "]", "{", "}", ",", ";", "'", '"', " ", "", "?", ":", ".", "é", "+", "not ", "1"])
        return s[:i] + c + s[i + (1 if r.chance(1, 2) else 0):]


def gen_history(rng, steps):
    w = World()
    g = Gen(rng, w)
    reqs, thread = [], []

    def add(req, second=False):
        reqs.append(("ONW\t" + req) if second else req)

    def new_ctx(second):
        side = "w" if second else "m"
        cid = side + str(rng.below(3))
        binds = []
        for nm in VAR_NAMES:
            if rng.chance(3, 5):
                binds.append([hx(nm), "v", rng.choice(VALUES)])
        for nm in CTX_FNS + (rng.choice([BUILTIN_FNS, USER_FNS, VAR_NAMES])[:1] if rng.chance(1, 3) else []):
            if rng.chance(2, 3):
                binds.append([hx(nm), "f", rng.choice(FN_SCRIPTS[:6])])
        add("CTX\t%s\t%s" % (cid, sexp_str(binds) if binds else "()"), second)
        if cid not in w.ctx[side]:
            w.ctx[side].append(cid)
        return cid

    new_ctx(False)
    new_ctx(True)
    for _ in range(steps):
        second = rng.chance(1, 5)
        side = "w" if second else "m"
        k = rng.below(100)
        if k < 5:
            new_ctx(second)
        elif k < 9:
            kind = rng.below(10)
            if kind < 4:
                name = rng.choice(REREG_INFIX + NEW_INFIX + NEW_INFIX)
                prec = rng.choice(PRECS)
                setter = rng.chance(1, 8)
                add("REG\tinfix\t%s\t%d\t%s\t%s\t%s" % (hx(name), prec, "setter" if setter else "calc", rng.choice(["left", "right"]), sexp_str(rng.choice(INFIX_SCRIPTS))))
                if name not in BUILTIN_INFIX and name not in w.infix: w.infix.append(name)
            elif kind < 6:
                name = rng.choice(["-", "!", "+"] + NEW_PREFIX)
                add("REG\tprefix\t%s\t0\tcalc\tleft\t%s" % (hx(name), sexp_str(rng.choice(UNARY_SCRIPTS))))
                if name in NEW_PREFIX and name not in w.prefix: w.prefix.append(name)
            elif kind < 7:
                name = rng.choice(["++", "--"] + NEW_POSTFIX)
                add("REG\tpostfix\t%s\t0\tcalc\tleft\t%s" % (hx(name), sexp_str(rng.choice(UNARY_SCRIPTS))))
                if name in NEW_POSTFIX and name not in w.postfix: w.postfix.append(name)
            else:
                name = rng.choice(BUILTIN_FNS + USER_FNS + USER_FNS + ["x"])
                add("REG\tfn\t%s\t0\tcalc\tleft\t%s" % (hx(name), sexp_str(rng.choice(FN_SCRIPTS))))
                if name not in w.fns: w.fns.append(name)
        elif k < 11:
            kind = rng.choice(sorted(DESC_KINDS))
            names = DESC_KINDS[kind]
            nm = rng.choice(names) if names else None
            add("DESC\t%s\t%s\t%s" % (kind, hx(nm) if nm is not None else "-", "%s%d" % (kind[:2], rng.below(3))))
        else:
            text = g.program()
            what = rng.below(21)
            if what == 20:
                if rng.chance(1, 2):
                    v = rng.choice(VALUES)
                    if v[0] == "n" and rng.chance(1, 2):
                        sc = rng.below(29)
                        v = n(rng.below(10 ** 19) * 10 ** min(sc, 9), sc, rng.chance(1, 2))
                    add("ACC\t" + sexp_str(v), second)
                else:
                    ty, bits = rng.choice([("i8", 8), ("i16", 16), ("i32", 32), ("i64", 64), ("u8", 8), ("u16", 16), ("u32", 32), ("u64", 64)])
                    lo, hi = (-(2 ** (bits - 1)), 2 ** (bits - 1) - 1) if ty[0] == "i" else (0, 2 ** bits - 1)
                    v = rng.choice([lo, hi, 0, hi // 2 + 1, lo + rng.below(hi - lo + 1)])
                    add("CONV\t%s\t%d" % (ty, v), second)
            elif what < 9 and w.ctx[side]:
                add("EXEC\t%s\t%s" % (rng.choice(w.ctx[side]), hx(text)), second)
            elif what < 10 and w.ctx[side]:
                add("GETVAR\t%s\t%s" % (rng.choice(w.ctx[side]), hx(rng.choice(VAR_NAMES + CTX_FNS))), second)
            elif what < 13:
                add("PARSE\t" + hx(text), second)
            elif what < 16:
                add("EXPR\t" + hx(text), second)
            elif what < 18:
                add("TOK\t" + hx(text), second)
            else:
                add("DESCR\t" + hx(text), second)
    return reqs


def _tree_hash(paths):
    h = hashlib.sha256()
    for p in paths:
        for f in sorted(glob.glob(p, recursive=True)):
            if os.path.isfile(f):
                h.update(f.encode())
                h.update(open(f, "rb").read())
    return h.hexdigest()


def run_wild(seed, tier):
    """(requests, implementation answers, model answers, history boundaries) — cached."""
    key = _tree_hash(["/repo/src/**", "/repo/Cargo.toml", os.path.join(VERIF, "harness/src/**"), os.path.join(VERIF, "lean/EE/EE/Model/**"),
                      os.path.join(VERIF, "lean/EE/EE/Gen/**"), os.path.join(VERIF, "lean/EE/Main.lean"), os.path.join(VERIF, "vlib/wild.py"),
                      os.path.join(VERIF, "vlib/proto.py")])
    key = hashlib.sha256(("%s|%s|%s" % (key, seed, tier)).encode()).hexdigest()[:24]
    cache = os.path.join(BUILD, "wild_%s.json" % key)
    if os.path.exists(cache):
        try:
            d = json.load(open(cache))
            return d["reqs"], d["impl"], d["model"], d["bounds"]
        except Exception:
            pass
    rng = SplitMix(seed * 7919 + 17)
    n_hist, steps = (24, 260) if tier == "quick" else (400, 400)
    reqs, impl, model, bounds = [], [], [], []
    stuck = 0
    for _ in range(n_hist):
        h = gen_history(rng.fork(), steps)
        if stuck >= 2:
            # the crate hung / died in two histories already: the verdict is in, do not wait for more time limits
            break
        # a history normally takes well under a second; a deadlock or an endless loop must not stall the check for long:
        # per-line flushing, a short limit, and no second attempt after the first request that does not return
        i = run_impl(h, timeout=60, flush=True, max_aborts=1)
        m = run_model(h, timeout=300)
        if any(a in ("HANG", "ABORT", "SKIPPED") for a in i):
            stuck += 1
        bounds.append((len(reqs), len(reqs) + len(h)))
        reqs += h
        impl += i[:len(h)] + ["MISSING"] * (len(h) - len(i))
        model += m[:len(h)] + ["DRIVERFAIL"] * (len(h) - len(m))
    for old in glob.glob(os.path.join(BUILD, "wild_*.json")):
        try: os.remove(old)
        except OSError: pass
    try:
        json.dump({"reqs": reqs, "impl": impl, "model": model, "bounds": bounds}, open(cache, "w"))
    except OSError:
        pass
    return reqs, impl, model, bounds


def tainted_mask(reqs, model, bounds):
    """A result in the decimal type's rounding zone is `unmodelled` (the model states no value): from there on the model's copy
    of that context no longer follows the crate's, so requests on that context are left out until it is created afresh."""
    mask = [False] * len(reqs)
    for lo, hi in bounds:
        tainted = set()
        registering = set()     # global functions whose script registers something (a side effect outside the context)
        lost = False            # the model stopped inside a program that may have gone on to register: registries differ
        for i in range(lo, hi):
            k, second = kind_of(reqs[i])
            f = (reqs[i][4:] if second else reqs[i]).split("\t")
            if lost:
                mask[i] = True
                continue
            if k == "REG" and f[1] == "fn":
                (registering.add if "(reg " in f[-1] else registering.discard)(unhx(f[2]))
            if k == "CTX":
                tainted.discard((second, f[1]))
            elif k in ("EXEC", "GETVAR"):
                key = (second, f[1])
                if key in tainted:
                    mask[i] = True
                elif "UNMODELLED" in model[i]:
                    tainted.add(key)
                    text = unhx(f[2]) if k == "EXEC" else ""
                    if any(nm + "(" in text.replace(" (", "(") for nm in registering):
                        lost = True
    return mask


def kind_of(req):
    second = req.startswith("ONW\t")
    k = (req[4:] if second else req).split("\t", 1)[0]
    return k, second


def relevant(pid, req):
    k, second = kind_of(req)
    props = KIND_PROPS.get(k, set())
    return pid in props or (second and pid in SECOND_THREAD_PROPS and k in KIND_PROPS)


STATEFUL = ("REG", "CTX", "DESC", "EXEC", "EXECW")


def wild_stream(c):
    """Add the part of the wild stream that concerns property c.pid to check c."""
    from .core import Stream
    reqs, impl, model, bounds = run_wild(c.seed, c.tier)
    mask = tainted_mask(reqs, model, bounds)
    idx = [i for i, r in enumerate(reqs) if relevant(c.pid, r) and not mask[i]]
    sub = Stream("wild histories (registrations, contexts, descriptors, untyped programs, two threads): requests concerning %s" % c.pid,
                 [reqs[i] for i in idx], [impl[i] for i in idx], [model[i] for i in idx])
    for j in sub.disagreements[:10]:
        i = idx[j]
        lo = next(a for a, b in bounds if a <= i < b)
        # the state-changing requests of this history before the failing one, then the failing one
        prefix = [reqs[t] for t in range(lo, i) if kind_of(reqs[t])[0] in STATEFUL]
        c.violation("model-vs-implementation", "wild history: the model and the crate answer differently",
                    {"requests": prefix + [reqs[i]], "implementation": impl[i], "model": model[i],
                     "input_text": unhx(reqs[i].split("\t")[-1]) if kind_of(reqs[i])[0] in ("TOK", "PARSE", "EXPR", "DESCR", "EXEC") else ""})
    # no request of these histories makes a handler panic, so a panic / abort / hang is the crate's own
    if c.pid in ("C01", "C04"):
        for i in idx:
            a = impl[i]
            if a in ("PANIC", "ABORT", "HANG") or a.startswith("PANIC") or "\tPANIC" in a:
                lo = next(x for x, y in bounds if x <= i < y)
                prefix = [reqs[t] for t in range(lo, i) if kind_of(reqs[t])[0] in ("REG", "CTX", "DESC")]
                c.violation("implementation-vs-property", "wild history: the crate panicked / aborted / hung",
                            {"requests": prefix[-40:] + [reqs[i]], "implementation": a[:300],
                             "input_text": unhx(reqs[i].split("\t")[-1]) if kind_of(reqs[i])[0] in ("TOK", "PARSE", "EXPR", "DESCR", "EXEC") else ""})
                break
    for i in idx:
        c.count("wild" + reqs[i] + str(i))
    c.add_stream(sub, relevant=False)
    kinds = {}
    for i in idx:
        kinds[kind_of(reqs[i])[0]] = kinds.get(kind_of(reqs[i])[0], 0) + 1
    c.extra["wild_histories"] = {"histories": len(bounds), "requests_total": len(reqs), "requests_for_this_property": len(idx), "by_kind": kinds,
                                 "ok_fraction": round(sum(1 for i in idx if "\tOK" in impl[i] or impl[i].startswith("OK")) / max(1, len(idx)), 3)}
