"""Reference recogniser for the documented grammar read leniently (C05): the `;` between
statements may be omitted or present (one trailing `;` allowed), lists and maps may have one
trailing comma, calls may not. Works on token kinds obtained from the implementation's token
stream (classification is C10's concern): set-of-end-positions backtracking with memoisation,
so it decides sentence-hood independently of both parsers' control flow."""
import functools, subprocess
from .proto import run_model, hx, unhx, run_impl

PREFIX = {"-", "+", "!", "not", "AND", "OR"}
POSTFIX = {"++", "--"}
INFIX = {"=", "+=", "-=", "*=", "/=", "%=", "<<=", ">>=", "&=", "^=", "|=", "||", "&&", "<", "<=", ">", ">=", "==", "!=",
         "|", "^", "&", "<<", ">>", "+", "-", "*", "/", "%", "beginWith", "endWith", "in"}


def recognise(toks, prefix=PREFIX, postfix=POSTFIX, infix=INFIX):
    """toks: list of (kind, text) with kinds op/delim/num/comma/bool/str/ref/func/semi."""
    n = len(toks)

    def is_op(i, s): return i < n and toks[i][0] == "op" and toks[i][1] == s
    def is_delim(i, s): return i < n and toks[i][0] == "delim" and toks[i][1] == s

    @functools.lru_cache(maxsize=None)
    def token(i):
        out = set()
        if i >= n:
            return frozenset()
        k, s = toks[i]
        if k in ("num", "bool", "str", "ref"):
            out.add(i + 1)
        elif k == "func":
            if is_delim(i + 1, "("):
                if is_delim(i + 2, ")"):
                    out.add(i + 3)
                for j in args(i + 2):
                    if is_delim(j, ")"):
                        out.add(j + 1)
        elif k == "op" and s in prefix:
            out |= primary(i + 1)
        elif k == "delim" and s == "(":
            for j in expr(i + 1):
                if is_delim(j, ")"):
                    out.add(j + 1)
        elif k == "delim" and s == "[":
            if is_delim(i + 1, "]"):
                out.add(i + 2)
            for j in args(i + 1):
                if is_delim(j, "]"):
                    out.add(j + 1)
                if j < n and toks[j][0] == "comma" and is_delim(j + 1, "]"):
                    out.add(j + 2)
        elif k == "delim" and s == "{":
            if is_delim(i + 1, "}"):
                out.add(i + 2)
            for j in entries(i + 1):
                if is_delim(j, "}"):
                    out.add(j + 1)
                if j < n and toks[j][0] == "comma" and is_delim(j + 1, "}"):
                    out.add(j + 2)
        return frozenset(out)

    @functools.lru_cache(maxsize=None)
    def primary(i):
        out = set()
        for j in token(i):
            out.add(j)
            k = j
            while k < n and toks[k][0] == "op" and toks[k][1] in postfix:
                k += 1
                out.add(k)
        return frozenset(out)

    @functools.lru_cache(maxsize=None)
    def binary(i):
        out = set()
        work = list(primary(i))
        seen = set()
        while work:
            j = work.pop()
            if j in seen:
                continue
            seen.add(j)
            out.add(j)
            k = j
            if is_op(k, "not"):
                k += 1
                if not (k < n and toks[k][0] == "op" and toks[k][1] in infix):
                    continue
            if k < n and toks[k][0] == "op" and toks[k][1] in infix:
                work.extend(primary(k + 1))
        return frozenset(out)

    @functools.lru_cache(maxsize=None)
    def expr(i):
        out = set()
        for j in binary(i):
            out.add(j)
            if is_op(j, "?"):
                for k in expr(j + 1):
                    if is_op(k, ":"):
                        out |= expr(k + 1)
        return frozenset(out)

    @functools.lru_cache(maxsize=None)
    def args(i):
        out = set()
        for j in expr(i):
            out.add(j)
            if j < n and toks[j][0] == "comma":
                out |= args(j + 1)
        return frozenset(out)

    @functools.lru_cache(maxsize=None)
    def entries(i):
        out = set()
        for j in expr(i):
            if is_op(j, ":"):
                for k in expr(j + 1):
                    out.add(k)
                    if k < n and toks[k][0] == "comma":
                        out |= entries(k + 1)
        return frozenset(out)

    @functools.lru_cache(maxsize=None)
    def program(i):
        if i == n:
            return True
        for j in expr(i):
            if program(j):
                return True
            if j < n and toks[j][0] == "semi" and program(j + 1):
                return True
        return False

    import sys
    sys.setrecursionlimit(10000)
    return program(0)


KINDS = {"0": "op", "1": "delim", "2": "num", "3": "comma", "4": "bool", "5": "str", "6": "ref", "7": "func", "8": "semi"}
_cache = {}


def tokens_of(texts):
    # the *model's* tokenizer reads the text (the documented lexical rules: EE/Model/Tokenizer.lean, proved in C10), not the
    # implementation's: an input accepted only because the implementation's tokenizer dropped or re-classified a character
    # is then not a sentence
    lines = run_model(["TOK\t" + hx(s) for s in texts], timeout=1200)
    out = []
    for l in lines:
        f = l.split("\t")
        if f[0] != "OK":
            out.append(None)
            continue
        toks = []
        for item in (f[2].split() if len(f) > 2 else []):
            k, payload = item.split(":")[0], item.split(":")[1]
            toks.append((KINDS[k], payload if k == "2" else unhx(payload)))
        out.append(toks)
    return out


def sentence(text):
    """True / False / None (could not tokenize)."""
    toks = tokens_of([text])[0]
    if toks is None:
        return None
    if len(toks) > 400:
        return None
    return recognise(tuple(toks))


def sentences(texts):
    res = []
    for toks in tokens_of(texts):
        if toks is None or len(toks) > 400:
            res.append(None)
        else:
            res.append(recognise(tuple(toks)))
    return res
