"""Check framework: build steps, proof obligations, correspondence comparison, verdicts,
replays, known findings, evidence."""
import os, sys, json, time, subprocess, re, hashlib
from .proto import *

ALLOWED_AXIOMS = {"propext", "Classical.choice", "Quot.sound"}
GUARD = "ashyanspada_expression_engine_rs_verif"


def sh(cmd, cwd=None, timeout=3600, env=None):
    p = subprocess.run(cmd, cwd=cwd, capture_output=True, text=True, timeout=timeout, env=env)
    return p.returncode, p.stdout + p.stderr


# evidence level per property = the category claimed in MANIFEST.json (single source: tools/claims.json)
def _levels():
    try:
        return {k: v["category"] for k, v in json.load(open(os.path.join(VERIF, "tools", "claims.json"))).items()}
    except Exception:
        return {}
LEVELS = _levels()


class BuildError(Exception):
    pass


def build_harness(profiles=("debug",)):
    """Rebuild the harness against /repo's current working tree (hooks on)."""
    lock_src = "/repo/Cargo.lock"
    if os.path.exists(lock_src):
        dst = os.path.join(HARNESS_DIR, "Cargo.lock")
        if not os.path.exists(dst):
            open(dst, "w").write(open(lock_src).read())
    env = dict(os.environ)
    env["CARGO_NET_OFFLINE"] = "true"
    for prof in profiles:
        cmd = ["cargo", "build", "--offline", "--quiet"] + (["--release"] if prof == "release" else [])
        rc, out = sh(cmd, cwd=HARNESS_DIR, env=env)
        if rc != 0:
            raise BuildError("harness build (%s) failed:\n%s" % (prof, out[-4000:]))


def regenerate_gen():
    """Rewrite EE/Gen/*.lean from the current source (runtime dumps + source scan)."""
    gen_dir = os.path.join(LEAN_DIR, "EE", "Gen")
    rc, out = sh([sys.executable, os.path.join(VERIF, "tools", "gen_runtime.py"), harness_bin("debug"), gen_dir])
    msgs = [out.strip()]
    if rc != 0:
        raise BuildError("gen_runtime failed:\n" + out[-3000:])
    scan = os.path.join(VERIF, "tools", "gen_source.py")
    if os.path.exists(scan):
        rc, out = sh([sys.executable, scan, "/repo", gen_dir])
        msgs.append(out.strip())
        if rc != 0:
            raise BuildError("gen_source failed:\n" + out[-3000:])
    return "; ".join(msgs)


def lake_build(targets, timeout=3600):
    rc, out = sh(["lake", "build"] + targets, cwd=LEAN_DIR, timeout=timeout)
    return rc, out


def theorems_of(module_file):
    names = []
    ns = []
    for line in open(module_file, encoding="utf-8"):
        m = re.match(r"^namespace\s+(\S+)", line)
        if m:
            ns.append(m.group(1))
        m = re.match(r"^end\s+(\S+)", line)
        if m and ns and ns[-1] == m.group(1):
            ns.pop()
        m = re.match(r"^(?:@\[[^\]]*\]\s*)?(?:private\s+|protected\s+)?theorem\s+([^\s:({\[]+)", line)
        if m:
            names.append(".".join(ns + [m.group(1)]))
    return names


FORBIDDEN = re.compile(r"\bsorry\b|\badmit\b|^axiom\s|native_decide|bv_decide|implemented_by|\bunsafe\s|maxHeartbeats\s+0")


def textual_audit(files):
    bad = []
    for f in files:
        in_block = 0
        for i, line in enumerate(open(f, encoding="utf-8"), 1):
            code = line
            # strip comments (line and simple block comments)
            if in_block:
                if "-/" in code:
                    code = code.split("-/", 1)[1]
                    in_block = 0
                else:
                    continue
            while "/-" in code:
                pre, rest = code.split("/-", 1)
                if "-/" in rest:
                    code = pre + rest.split("-/", 1)[1]
                else:
                    code = pre
                    in_block = 1
            code = code.split("--", 1)[0]
            if FORBIDDEN.search(code):
                bad.append("%s:%d: %s" % (f, i, line.strip()))
    return bad


def proof_obligations(prop_modules, extra_modules=()):
    """Build the property modules, audit them, and return
    (ok, n_obligations, n_discharged, axioms_by_theorem, log)."""
    t0 = time.time()
    targets = list(prop_modules) + list(extra_modules)
    rc, out = lake_build(targets)
    log = out[-6000:]
    files = [os.path.join(LEAN_DIR, *m.split(".")) + ".lean" for m in prop_modules]
    thms = []
    for f in files:
        if os.path.exists(f):
            thms += theorems_of(f)
    if rc != 0:
        return False, len(thms), 0, {}, log
    # textual audit over every file of the project except generated data
    all_files = []
    for root, _, fs in os.walk(os.path.join(LEAN_DIR, "EE")):
        for fn in fs:
            if fn.endswith(".lean"):
                all_files.append(os.path.join(root, fn))
    bad = textual_audit(all_files)
    if bad:
        return False, len(thms), 0, {}, "textual audit failed:\n" + "\n".join(bad)
    # axiom audit
    audit = "\n".join("import %s" % m for m in prop_modules) + "\n" + "\n".join("#print axioms %s" % t for t in thms) + "\n"
    audit_dir = os.path.join(BUILD, "audit")
    os.makedirs(audit_dir, exist_ok=True)
    af = os.path.join(audit_dir, "Audit_%s.lean" % hashlib.md5(audit.encode()).hexdigest()[:10])
    open(af, "w").write(audit)
    rc, out = sh(["lake", "env", "lean", af], cwd=LEAN_DIR)
    axioms = {}
    cur = None
    text = out.replace("\n  ", " ")
    for m in re.finditer(r"^'(.+?)' (does not depend on any axioms|depends on axioms: \[([^\]]*)\])", text, flags=re.M):
        name = m.group(1)
        axs = [a.strip() for a in (m.group(3) or "").split(",") if a.strip()]
        axioms[name] = axs
    ok = rc == 0 and len(axioms) == len(thms)
    foreign = {t: [a for a in axs if a not in ALLOWED_AXIOMS] for t, axs in axioms.items()}
    foreign = {t: a for t, a in foreign.items() if a}
    if foreign:
        return False, len(thms), len(thms) - len(foreign), axioms, "foreign axioms: %r" % foreign
    if not ok:
        return False, len(thms), len(axioms), axioms, "axiom audit failed:\n" + out[-3000:]
    # thorough tier: Lean's independent re-checker replays the compiled declarations of the property modules through the kernel
    if os.environ.get("VERIF_TIER_EFFECTIVE") == "thorough":
        for m in prop_modules:
            rc, out = sh(["lake", "env", "leanchecker", m], cwd=LEAN_DIR)
            if rc != 0:
                return False, len(thms), 0, axioms, "leanchecker rejected %s:\n%s" % (m, out[-3000:])
        log += "\nleanchecker: %s re-checked" % ", ".join(prop_modules)
    return True, len(thms), len(thms), axioms, log + "\n(%.1fs)" % (time.time() - t0)


# ---------------- comparison ----------------
class Stream:
    """One correspondence stream: requests, both answers, disagreement bookkeeping."""
    def __init__(self, name, reqs, impl, model, numeric=True):
        self.name, self.reqs, self.impl, self.model = name, reqs, impl, model
        self.disagreements = []
        self.unmodelled = 0
        self.drift = 0
        self.skipped = 0
        for i, (r, a, b) in enumerate(zip(reqs, impl, model)):
            if b.startswith("UNMODELLED") or "\tUNMODELLED" in b or b.startswith("PARSEUNMODELLED"):
                self.unmodelled += 1
                continue
            if a == "SKIPPED":
                self.skipped += 1
                continue
            ca, cb = canon(a, numeric), canon(b, numeric)
            if ca != cb:
                self.disagreements.append(i)
            elif err_kind(a) != err_kind(b):
                self.drift += 1

    def summary(self):
        return {"stream": self.name, "requests": len(self.reqs), "disagreements": len(self.disagreements),
                "unmodelled_skipped": self.unmodelled, "informational_error_kind_drift": self.drift}


def both(reqs, profile="debug", timeout=600, stack=None, flush=False):
    impl = run_impl(reqs, profile=profile, timeout=timeout, stack=stack, flush=flush)
    model = run_model(reqs)
    if len(impl) < len(reqs):
        impl += ["MISSING"] * (len(reqs) - len(impl))
    return impl, model


class Check:
    def __init__(self, pid, tier, seed):
        self.pid, self.tier, self.seed = pid, tier, seed
        self.rng = SplitMix(seed * 1000003 + int(pid[1:]))
        self.t0 = time.time()
        self.violations = []        # (kind, description, replay dict)
        self.known_hits = {}
        self.evaluations = 0
        self.distinct = set()
        self.samples = []
        self.streams = []
        self.notes = []
        self.obligations = 0
        self.discharged = 0
        self.axioms = {}
        self.proof_ok = None
        self.proof_log = ""
        self.extra = {}
        kf = os.path.join(VERIF, "known_findings.json")
        self.known = json.load(open(kf)) if os.path.exists(kf) else {"findings": [], "fixed": []}

    def quick(self):
        return self.tier == "quick"

    def count(self, key):
        self.evaluations += 1
        self.distinct.add(hashlib.md5(key.encode("utf-8", "replace")).digest()[:8])

    def sample(self, s):
        if len(self.samples) < 8:
            self.samples.append(s)

    def add_stream(self, st, relevant=True):
        self.streams.append(st.summary())
        last_ctx = ""
        for r in st.reqs:
            if r.startswith("CTX\t") or r.startswith("REG\t") or r.startswith("DESC\t"):
                last_ctx = r if r.startswith("CTX\t") else last_ctx + r
            self.count(last_ctx + r if r.startswith("EXEC") else r)
        if relevant:
            for i in st.disagreements[:50]:
                self.violation("model-vs-implementation",
                               "stream %s: implementation and model disagree" % st.name,
                               {"request": st.reqs[i], "implementation": st.impl[i], "model": st.model[i]})
        if st.reqs:
            self.sample({"stream": st.name, "request": st.reqs[0], "implementation": st.impl[0][:300], "model": st.model[0][:300]})

    def violation(self, kind, desc, replay):
        self.violations.append((kind, desc, replay))

    def known_finding(self, fid, what):
        self.known_hits[fid] = what

    def finding_listed(self, fid):
        return any(f["id"] == fid for f in self.known.get("findings", []))

    def prove(self, modules, extra=()):
        ok, n, d, axioms, log = proof_obligations(modules, extra)
        self.obligations += n
        self.discharged += d
        self.axioms.update(axioms)
        self.proof_ok = ok if self.proof_ok is None else (self.proof_ok and ok)
        self.proof_log += log
        return ok

    def finish(self, level=None, trusted=None, rule="", assumptions=None, technique_note=""):
        # every check also takes its share of the wild histories (vlib/wild.py): one broad differential stream, computed once
        # per tree and shared through a cache
        if os.environ.get("VERIF_NO_WILD") != "1":
            from .wild import wild_stream
            wild_stream(self)
            rule = (rule + "; + wild histories (random registration/context/descriptor/program histories on two threads, model vs crate)").lstrip("; ")
        wall = time.time() - self.t0
        if level is None:
            level = LEVELS.get(self.pid, "translation_validation")
        # verdict
        replay_paths = []
        os.makedirs(os.path.join(VERIF, "replays"), exist_ok=True)
        def size(v):
            r = v[2]
            return len(str(r.get("input_text") or r.get("request") or r.get("requests") or r))
        oracle_v = sorted([v for v in self.violations if v[0] == "implementation-vs-property"], key=size)
        corr_v = sorted([v for v in self.violations if v[0] == "model-vs-implementation"], key=size)
        lines = []
        exit_code = 0
        for fid, what in sorted(self.known_hits.items()):
            lines.append("KNOWN-FINDING: property=%s %s" % (self.pid, what))
        def write_replay(kind, items, extra=None):
            body = {"property": self.pid, "kind": kind, "seed": self.seed, "tier": self.tier,
                    "cases": [{"description": d, **r} for _, d, r in items[:20]]}
            if extra:
                body.update(extra)
            h = hashlib.md5(json.dumps(body, sort_keys=True).encode()).hexdigest()[:10]
            p = os.path.join(VERIF, "replays", "%s-%s.json" % (self.pid, h))
            json.dump(body, open(p, "w"), indent=1, ensure_ascii=False)
            return p
        if oracle_v:
            p = write_replay("implementation-vs-property", oracle_v)
            lines.append("VIOLATION property=%s replay=%s" % (self.pid, p))
            exit_code = 1
        elif corr_v or self.proof_ok is False:
            items = corr_v
            extra = None
            if self.proof_ok is False:
                extra = {"broken_proof_obligation": self.proof_log[-3000:]}
            p = write_replay("proof-or-correspondence-broken", items, extra)
            lines.append("VIOLATION property=%s replay=%s no-failing-input-found" % (self.pid, p))
            exit_code = 1
        cov = {
            "obligations": self.obligations, "discharged": self.discharged,
            "checker_cmd": "cd lean/EE && lake build EE.Props.%s && lake env lean <generated #print axioms file>" % self.pid,
            "trusted_base": trusted or [],
            "evaluations": self.evaluations, "distinct_nontrivial": len(self.distinct),
            "rule": rule, "samples": self.samples or [{"note": "no correspondence stream in this run"}],
            "traces_validated_against_impl": sum(s["requests"] for s in self.streams),
            "programs": max(1, self.evaluations),
            "disagreements_checked": sum(s.get("disagreements", 0) for s in self.streams),
            "streams": self.streams,
            "axioms_by_theorem": self.axioms,
            "notes": self.notes,
        }
        cov.update(self.extra)
        ev = {"property_id": self.pid, "tier": self.tier, "seed": self.seed, "level": level,
              "coverage": cov, "assumptions": assumptions or [], "wall_s": round(wall, 2),
              "violations": len(oracle_v) + len(corr_v) + (1 if self.proof_ok is False else 0)}
        os.makedirs(os.path.join(VERIF, "evidence"), exist_ok=True)
        json.dump(ev, open(os.path.join(VERIF, "evidence", "%s.json" % self.pid), "w"), indent=1, ensure_ascii=False)
        for l in lines:
            print(l)
        print("%s %s: %d obligations (%d discharged), %d requests, %d violations, %.1fs" % (
            self.pid, self.tier, self.obligations, self.discharged, self.evaluations, len(self.violations), wall))
        return exit_code
