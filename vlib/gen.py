"""Generators. ASTs are nested lists in the protocol's s-expression shape
(['bin', hex(op), l, r], ['num', neg, mant, scale], ...)."""
import re, os, itertools
from .proto import hx, unhx, sexp_str, VERIF

# ---------------- operator tables ----------------
class OpTable:
    def __init__(self, infix, prefix, postfix, fns):
        self.infix = dict(infix)      # name -> (prec, setter, right)
        self.prefix = list(prefix)
        self.postfix = list(postfix)
        self.fns = list(fns)

    def copy(self):
        return OpTable(self.infix, self.prefix, self.postfix, self.fns)

    def prec(self, op):
        return self.infix[op][0]

    def right(self, op):
        return self.infix[op][2]


def documented_table(repo="/repo"):
    """The documented table: README's BinaryExpression rows (+ `in`, documented with beginWith/endWith
    at 200), associativity by the documented rule: assignment operators right, the rest left."""
    rows = {}
    in_tbl = False
    for line in open(os.path.join(repo, "README.md"), encoding="utf-8"):
        if line.startswith("| Operator") and "Precedence" in line:
            in_tbl = True
            continue
        if in_tbl:
            if not line.startswith("|"):
                break
            cells = re.split(r"(?<!\\)\|", line.strip().strip("|"))
            if len(cells) < 2 or re.fullmatch(r"-{2,}", cells[0].strip()):
                continue
            name = cells[0].strip().replace("\\|", "|")
            try:
                rows[name] = int(cells[1].strip())
            except ValueError:
                pass
    rows.setdefault("in", 200)
    infix = {}
    for n, p in rows.items():
        setter = p == 20
        infix[n] = (p, setter, setter)
    return OpTable(infix, ["-", "+", "!", "not", "AND", "OR"], ["++", "--"], ["min", "max", "sum", "mul"])


# ---------------- AST helpers ----------------
def num(mant, scale=0):
    return ["num", "0", str(mant), str(scale)]

def ref(n): return ["ref", hx(n)]
def strlit(s): return ["str", hx(s)]
def boolean(b): return ["bool", "1" if b else "0"]
def un(op, x): return ["un", hx(op), x]
def binop(op, l, r): return ["bin", hx(op), l, r]
def post(x, op): return ["post", x, hx(op)]
def tern(c, a, b): return ["tern", c, a, b]
def call(n, args): return ["call", hx(n)] + list(args)
def lst(xs): return ["list"] + list(xs)
def mp(kvs): return ["map"] + [[k, v] for k, v in kvs]
def stmt(xs): return ["stmt"] + list(xs)

def kind(t): return t[0]
def is_not_bin(t): return t[0] == "un" and unhx(t[1]) == "not" and t[2][0] == "bin"

def dec_text(t):
    mant, scale = t[2], int(t[3])
    if scale == 0:
        return mant
    mant = mant.rjust(scale + 1, "0")
    return mant[:-scale] + "." + mant[-scale:]


# ---------------- declarative rendering (the grouping rule of the documentation) ----------------
class Renderer:
    """Renders an AST to tokens with exactly the parentheses the documented rule requires
    (style 'min'), optionally with extra redundant ones ('extra'), or everywhere ('full').
    'not'-wrapped binaries are written `x not OP y` when infix_not is chosen, else `not (x OP y)`."""
    def __init__(self, table, rng=None, style="min", infix_not=True):
        self.t, self.rng, self.style, self.infix_not = table, rng, style, infix_not

    def extra(self):
        return self.style == "full" or (self.style == "extra" and self.rng is not None and self.rng.chance(1, 4))

    def wrap(self, toks):
        return ["("] + toks + [")"]

    def maybe(self, toks):
        while self.extra() and len(toks) < 400:
            toks = self.wrap(toks)
            if self.style == "full":
                break
        return toks

    def use_infix_not(self, t):
        if not is_not_bin(t):
            return False
        if self.rng is None:
            return self.infix_not
        return self.infix_not and self.rng.chance(2, 3)

    # full expression position
    def expr(self, t):
        k = kind(t)
        if k == "tern":
            c = t[1]
            ct = self.expr(c)
            if kind(c) == "tern":
                ct = self.wrap(ct)
            else:
                ct = self.maybe(ct) if self.style != "min" and kind(c) not in ("bin",) and not is_not_bin(c) else ct
            return ct + ["?"] + self.maybe_e(t[2]) + [":"] + self.maybe_e(t[3])
        if k == "bin":
            return self.binary(False, t)
        if self.use_infix_not(t):
            return self.binary(True, t[2])
        return self.primary(t)

    def maybe_e(self, t):
        toks = self.expr(t)
        return self.maybe(toks) if self.style != "min" else toks

    def binary(self, negated, t):
        op = unhx(t[1])
        return self.operand(t[2], op, "l") + (["not"] if negated else []) + [op] + self.operand(t[3], op, "r")

    def operand(self, x, op, side):
        k = kind(x)
        inner = None
        if k == "bin":
            inner = (False, x)
        elif self.use_infix_not(x):
            inner = (True, x[2])
        if inner is not None:
            op2 = unhx(inner[1][1])
            p, p2 = self.t.prec(op), self.t.prec(op2)
            ok = p2 > p or (p2 == p and ((side == "l" and not self.t.right(op)) or (side == "r" and self.t.right(op))))
            toks = self.binary(*inner)
            if not ok:
                return self.wrap(toks)
            return self.maybe(toks) if self.style != "min" else toks
        if k == "tern":
            return self.wrap(self.expr(x))
        toks = self.primary(x)
        return toks

    # primary: token-level expression followed by any number of postfix operators
    def primary(self, t):
        if kind(t) == "post":
            x = t[1]
            if kind(x) in ("un", "bin", "tern"):
                xt = self.wrap(self.expr(x))
            elif kind(x) == "post":
                xt = self.primary(x)
                if self.style != "min":
                    xt = self.maybe(xt)
            else:
                xt = self.token(x)
            return xt + [unhx(t[2])]
        return self.token(t)

    def token(self, t):
        k = kind(t)
        if k == "num":
            toks = [dec_text(t)]
        elif k == "bool":
            toks = ["true" if t[1] == "1" else "false"]
        elif k == "str":
            s = unhx(t[1])
            q = "'" if '"' in s else '"'
            toks = [q + s + q]
        elif k == "ref":
            toks = [unhx(t[1])]
        elif k == "call":
            toks = [unhx(t[1]), "("]
            for i, a in enumerate(t[2:]):
                if i:
                    toks.append(",")
                toks += self.maybe_e(a)
            toks.append(")")
        elif k == "list":
            toks = ["["]
            for i, a in enumerate(t[1:]):
                if i:
                    toks.append(",")
                toks += self.maybe_e(a)
            toks.append("]")
        elif k == "map":
            toks = ["{"]
            for i, (a, b) in enumerate(t[1:]):
                if i:
                    toks.append(",")
                toks += self.maybe_e(a) + [":"] + self.maybe_e(b)
            toks.append("}")
        elif k == "un":
            x = t[2]
            if kind(x) in ("bin", "tern"):
                xt = self.wrap(self.expr(x))
            else:
                xt = self.primary(x)
            toks = [unhx(t[1])] + xt
        else:  # bin / tern / post in token position
            toks = self.wrap(self.expr(t))
        if self.style != "min" and k not in ("un",):
            toks = self.maybe(toks)
        return toks

    def program(self, t):
        if kind(t) == "stmt":
            out = []
            for i, s in enumerate(t[1:]):
                if i:
                    out.append(";")
                out += self.expr(s)
            return out
        return self.expr(t)


DELIMS = set("()[]{},;")

def join_tokens(toks, rng=None, tight=False):
    """Join tokens with one space; in tight mode a gap next to a delimiter/comma/semicolon may be empty.
    Never tight between a name and '(' (that would make the name a function name)."""
    out = []
    for i, t in enumerate(toks):
        if i:
            prev = toks[i - 1]
            can_tight = (prev in DELIMS or t in DELIMS)
            if t == "(" and (prev not in DELIMS) and re.match(r"^[A-Za-z_.][A-Za-z0-9_.]*$", prev) and prev not in ("not", "in", "AND", "OR", "beginWith", "endWith"):
                can_tight = True  # call syntax f(…): the generator only puts '(' after a name for calls
            if tight and can_tight and (rng is None or rng.chance(2, 3)):
                pass
            else:
                out.append(" ")
        out.append(t)
    return "".join(out)


SPECIAL = set("+-*/^%&!=?:><|")

def join_tokens_tightest(toks):
    """No blank wherever two tokens can touch without merging: next to brackets, commas and semicolons, and between a
    symbolic operator and an operand (`1+2`, `a not ==2`, `-x`). Never between two operators, next to a word operator,
    or between a name and `(` that is not a call."""
    def symbolic(t): return t != "" and all(ch in SPECIAL for ch in t)
    def operand(t): return t != "" and not symbolic(t) and t not in DELIMS and t not in ("not", "in", "AND", "OR", "beginWith", "endWith")
    out = []
    for i, t in enumerate(toks):
        if i:
            prev = toks[i - 1]
            glue = False
            if prev in DELIMS or t in DELIMS:
                glue = True
                if t == "(" and prev not in DELIMS and not symbolic(prev):
                    glue = bool(re.match(r"^[A-Za-z_.][A-Za-z0-9_.]*$", prev)) and prev not in ("not", "in", "AND", "OR", "beginWith", "endWith")
                if (prev in ("not", "in", "AND", "OR", "beginWith", "endWith") and t not in (")", "]", "}", ",", ";")) or \
                   (t in ("not", "in", "AND", "OR", "beginWith", "endWith") and prev not in ("(", "[", "{", ",", ";")):
                    glue = prev in ("(", "[", "{", ",", ";") or t in (")", "]", "}", ",", ";")
            elif symbolic(prev) and operand(t) and not t[0] in ".":
                glue = True
            elif operand(prev) and symbolic(t):
                glue = True
            if not glue:
                out.append(" ")
        out.append(t)
    return "".join(out)


# ---------------- random ASTs in the parser's range ----------------
NAMES = ["a", "b", "c", "x1", "foo.bar", "_t", "é", "v_2"]
FNAMES = ["f", "g", "max", "min", "sum", "h.i"]
STRS = ["", "a", "a b", 'q"t', "it's", "é✓", "1+2", "(", "x;y"]

class AstGen:
    def __init__(self, rng, table, max_depth=4, calc_only=False):
        self.rng, self.t, self.max_depth = rng, table, max_depth
        self.ops = sorted(table.infix.keys())
        if calc_only:
            self.ops = [o for o in self.ops if not table.infix[o][1]]

    def atom(self, d):
        r = self.rng.below(10)
        if r < 3:
            return num(self.rng.below(100), self.rng.choice([0, 0, 0, 1, 2]))
        if r < 5:
            return ref(self.rng.choice(NAMES))
        if r == 5:
            return boolean(self.rng.chance(1, 2))
        if r == 6:
            return strlit(self.rng.choice(STRS))
        if d >= self.max_depth:
            return num(self.rng.below(10))
        if r == 7:
            return call(self.rng.choice(FNAMES), [self.any(d + 1) for _ in range(self.rng.below(3))])
        if r == 8:
            return lst([self.any(d + 1) for _ in range(self.rng.below(3))])
        return mp([(self.any(d + 1), self.any(d + 1)) for _ in range(self.rng.below(3))])

    def any(self, d=0):
        if d >= self.max_depth:
            return self.atom(d)
        r = self.rng.below(16)
        if r < 7:
            return binop(self.rng.choice(self.ops), self.any(d + 1), self.any(d + 1))
        if r < 9:
            return un(self.rng.choice(self.t.prefix), self.any(d + 1))
        if r == 9:
            return post(self.any(d + 1), self.rng.choice(self.t.postfix))
        if r == 10:
            return tern(self.any(d + 1), self.any(d + 1), self.any(d + 1))
        if r == 11:
            return un("not", binop(self.rng.choice(self.ops), self.any(d + 1), self.any(d + 1)))
        return self.atom(d)

    def program(self):
        n = self.rng.choice([1, 1, 1, 2, 3, 0])
        if n == 1:
            return self.any(0)
        return stmt([self.any(1) for _ in range(n)])


def all_small_asts(table, ops3):
    """Every tree shape with ≤ 3 infix operators over distinct atoms, for each ordered operator
    triple in ops3, with each operator optionally negated: exhaustive small scope for grouping."""
    A, B, C, D = ref("a"), ref("b"), ref("c"), ref("d")
    def neg(flag, t): return un("not", t) if flag else t
    for o1 in ops3:
        for n1 in (False, True):
            yield neg(n1, binop(o1, A, B))
    for o1, o2 in itertools.product(ops3, repeat=2):
        for n1, n2 in itertools.product((False, True), repeat=2):
            yield neg(n2, binop(o2, neg(n1, binop(o1, A, B)), C))
            yield neg(n1, binop(o1, A, neg(n2, binop(o2, B, C))))


def all_three_op_asts(ops):
    """All five tree shapes with three infix operators over distinct atoms, for every ordered operator triple."""
    A, B, C, D = ref("a"), ref("b"), ref("c"), ref("d")
    for o1, o2, o3 in itertools.product(ops, repeat=3):
        yield binop(o3, binop(o2, binop(o1, A, B), C), D)
        yield binop(o3, binop(o1, A, binop(o2, B, C)), D)
        yield binop(o2, binop(o1, A, B), binop(o3, C, D))
        yield binop(o1, A, binop(o3, binop(o2, B, C), D))
        yield binop(o1, A, binop(o2, B, binop(o3, C, D)))


# operators registered at precedences *adjacent* to built-in ones (one step above/below, both associativities): the
# binding powers derived from neighbouring precedences must never collide
ADJACENT_OPS = [("cat", 111, "left"), ("rcat", 109, "right"), ("otherwise", 19, "left"), ("rset", 21, "right"), ("pw", 121, "right"),
                ("lw", 119, "left"), ("@@", 41, "left"), ("**", 39, "right"), ("lowest", 1, "left"), ("above", 201, "right")]
# same precedence as a built-in level but the other associativity: outside C02 (a level groups one way), inside C12
MIXED_OPS = [("beside", 110, "right"), ("lset", 20, "left")]
ADJACENT_NEIGHBOURS = ["+", "-", "*", "=", "+=", "||", "&&", "in", "=="]

def adjacent_table(base, mixed=False):
    """(table, prelude): the documented table extended by ADJACENT_OPS, and the REG lines that register them."""
    t = base.copy()
    pre = []
    for name, prec, assoc in ADJACENT_OPS + (MIXED_OPS if mixed else []):
        t.infix[name] = (prec, False, assoc == "right")
        pre.append("REG\tinfix\t%s\t%d\tcalc\t%s\t(arg 0)" % (hx(name), prec, assoc))
    return t, pre


# ---------------- character-level strings ----------------
CHAR_ALPHABET = [" ", "\t", "\n", "(", ")", "[", "]", "{", "}", ",", ";", "0", "7", ".", "e", "+", "-", "<", "=", "!", "&",
                 "?", ":", "\"", "'", "a", "n", "_", "é", "✓", "😀", "@", "|", "*", "t", "\x0c", "\u00a0", "\u2028", "\r",
                 # characters beyond U+00FF whose low byte is an ASCII blank, bracket, separator, digit, letter or quote (a
                 # classifier that narrows `char` to a byte would confuse them)
                 "\u2020", "\u0109", "\u010a", "\u0128", "\u0129", "\u015b", "\u015d", "\u012c", "\u013b", "\u0131", "\u0161", "\u0122", "\u012e"]

def all_strings(alphabet, maxlen):
    for n in range(0, maxlen + 1):
        for tup in itertools.product(alphabet, repeat=n):
            yield "".join(tup)

WORDS = ["TRUE", "tRuE", "FALSE", "Truex", "not", "in", "true", "False", "AND", "OR", "beginWith", "endWith", "min", "f", "a", "ab", "1", "2.5", "10", "0.10",
         "+", "-", "*", "/", "%", "<<", ">>", "<<=", "==", "!=", "<=", ">=", "&&", "||", "=", "+=", "&", "|", "^", "!", "++", "--",
         "?", ":", "(", ")", "[", "]", "{", "}", ",", ";", "'s'", "\"t\"", " ", "  ", "\t", "\r", "\n", "é", "x.y", "_", "1e5", "1..2", "'", "\"", "@", "#"]

def random_wordy(rng, maxwords=12):
    n = 1 + rng.below(maxwords)
    return "".join(rng.choice(WORDS) + rng.choice(["", " ", " ", ""]) for _ in range(n))

def mutate(rng, s):
    if not s:
        return rng.choice(WORDS)
    i = rng.below(len(s))
    r = rng.below(4)
    c = rng.choice(CHAR_ALPHABET)
    if r == 0:
        return s[:i] + s[i + 1:]
    if r == 1:
        return s[:i] + c + s[i:]
    if r == 2:
        return s[:i] + c + s[i + 1:]
    j = rng.below(len(s))
    l = list(s)
    l[i], l[j] = l[j], l[i]
    return "".join(l)


# ---------------- token-kind sequences (C05) ----------------
TOKEN_KINDS = ["1", "a", "f(", "(", ")", "[", "]", "{", "}", ",", ";", "?", ":", "not", "-", "!", "++", "+", "=", "in", "'s'", "true"]

def all_token_seqs(maxlen, kinds=TOKEN_KINDS):
    for n in range(1, maxlen + 1):
        for tup in itertools.product(kinds, repeat=n):
            yield " ".join(tup)
