"""Per-property checks. Each: proof obligations (lake build + audit), correspondence streams for
the layers the property's theorems rest on, direct oracle on the implementation, verdict."""
import os, json, subprocess, itertools
from fractions import Fraction
from .proto import *
from .core import *
from . import gen as G

TB_COMMON = [
    "Lean 4.33.0 kernel; axioms per theorem listed under axioms_by_theorem (allowed: propext, Classical.choice, Quot.sound)",
    "Lean compiler for the eedriver executable (runs the model's own definitions)",
    "tools/gen_runtime.py + verif_hooks (regenerated operator table and character classes)",
    "tools/gen_source.py (source scan: lock sites, globals, call graph, entry points, descriptor keys)",
    "eeharness + vlib (generators, canonicalisation, diff)",
    "hand-modelled control flow of tokenizer/parser/evaluator/renderers tied by correspondence only",
]


def prepare(profiles=("debug",)):
    build_harness(profiles)
    msg = regenerate_gen()
    rc, out = lake_build(["eedriver"])
    if rc != 0:
        # the model no longer builds against the regenerated facts: a broken proof obligation, handled by the check
        msg += "; eedriver build failed"
    return msg


def parse_req(s): return "PARSE\t" + hx(s)
def tok_req(s): return "TOK\t" + hx(s)
def expr_req(s): return "EXPR\t" + hx(s)
def descr_req(s): return "DESCR\t" + hx(s)


def outcome_class(line):
    for k in ("PANIC", "ABORT", "HANG", "DEADLOCK", "MISSING"):
        if line.startswith(k) or ("\t" + k) in line:
            return k
    return None


# =====================================================================================
def check_C01(c):
    c.prove(["EE.Props.C01"])
    rng = c.rng
    # G-char: exhaustive short strings over the class alphabet, random longer ones
    L = 2 if c.quick() else 3
    strings = list(G.all_strings(G.CHAR_ALPHABET, L))
    nrand = 20000 if c.quick() else 200000
    for _ in range(nrand):
        n = 1 + rng.below(24)
        strings.append("".join(rng.choice(G.CHAR_ALPHABET) for _ in range(n)))
    for _ in range(nrand // 2):
        strings.append(G.random_wordy(rng))
    # mutations of valid programs
    ag = G.AstGen(rng.fork(), G.documented_table(), max_depth=3)
    rd = G.Renderer(G.documented_table(), rng.fork(), "extra")
    for _ in range(nrand // 4):
        s = G.join_tokens(rd.program(ag.program()), rng, tight=True)
        strings.append(s)
        strings.append(G.mutate(rng, s))
    # number literals at and beyond every limit of the decimal type: 26–40 fractional digits (leading zeros, small and
    # large mantissas), 26–40 integer digits, both at once; alone and inside expressions
    extremes = []
    for fd in list(range(26, 34)) + [40, 60]:
        for body in ["0" * (fd - 1) + "1", "0" * (fd - 2) + "25", "9" * fd, "1" + "0" * (fd - 1), "0" * fd]:
            for ip in ["0", "1", "123456789", "9" * 20, "7" * 29]:
                extremes.append(ip + "." + body[:fd])
    for idg in list(range(26, 34)) + [40, 60]:
        extremes += ["9" * idg, "1" + "0" * (idg - 1), "7" * idg + ".5", "0" * idg + "1"]
    extremes = extremes + ["a = [1, 2 * %s]; a" % x for x in extremes[::7]] + ["f(%s) + %s" % (x, x) for x in extremes[::11]]
    strings = extremes + strings
    reqs = []
    for s in strings:
        reqs.append(expr_req(s))
    for s in strings[: len(strings) // 4]:
        reqs.append(descr_req(s))
        reqs.append(tok_req(s))
    impl, model = both(reqs, timeout=900)
    st = Stream("G-char/G-mut EXPR+DESCR+TOK", reqs, impl, model, numeric=False)
    c.add_stream(st)
    bad = [(r, a) for r, a in zip(reqs, impl) if outcome_class(a)]
    for r, a in bad[:20]:
        c.violation("implementation-vs-property", "parse/render did not return Ok or Err: " + a[:40],
                    {"request": r, "implementation": a, "input_text": unhx(r.split("\t")[1])})
    # execute(): outcome class on the same strings with an empty context
    ex = ["CTX\tc\t()"] + ["EXEC\tc\t" + hx(s) for s in strings[: (5000 if c.quick() else 60000)]]
    impl2, model2 = both(ex, timeout=900)
    st2 = Stream("execute() on G-char strings", ex, impl2, model2)
    c.add_stream(st2)
    for r, a in zip(ex, impl2):
        if outcome_class(a):
            c.violation("implementation-vs-property", "execute did not return Ok or Err: " + a[:40], {"request": r, "implementation": a})
    # deep stream: nesting / chain shapes around and far beyond the limit, on a 2 MiB stack, debug and release
    shapes = {
        "paren": lambda n: "(" * n + "1" + ")" * n,
        "chain": lambda n: "1+" * n + "1",
        "assign": lambda n: "a=" * n + "1",
        "neg": lambda n: "- " * n + "1",
        "tern": lambda n: "true?1:" * n + "1",
        "list": lambda n: "[" * n + "]" * n,
        "names": lambda n: "a " * n,
        "call": lambda n: "f(" * n + ")" * n,
        "map": lambda n: "{1:" * n + "1" + "}" * n,
        "mix": lambda n: "(1+" * n + "1" + ")" * n,
        "lparen": lambda n: "(" * n + "1" + "+1+1+1+1+1+1+1+1)" * n,
        "notin": lambda n: "1" + " not in [1]" * n,
        "post": lambda n: "(" * n + "1" + " ++)" * n,
        "unclosed": lambda n: "[" * n,
        "strs": lambda n: "'a' " * n,
    }
    depths = [60, 126, 127, 128, 129, 130, 1000] + ([20000] if c.quick() else [20000, 300000])
    deep = []
    for name, f in shapes.items():
        for n in depths:
            if name in ("assign", "tern", "notin", "lparen", "names") and n > 20000:
                # quadratic word-operator probe (DESIGN §9): bounded, but minutes to an hour per input — `names` renders as
                # `a;a;a;…`, a text without blanks or brackets, which the tokenizer probes to its end once per name
                continue
            deep.append(expr_req(f(n)))
            deep.append("DESCR\t" + hx(f(n)))
    deep_ex = ["CTX\tc\t()"] + ["EXEC\tc\t" + r.split("\t")[1] for r in deep[::2]]
    for prof in (("debug",) if c.quick() else ("debug", "release")):
        impl3 = run_impl(deep + deep_ex, profile=prof, timeout=900, stack=2 << 20)
        for r, a in zip(deep + deep_ex, impl3):
            c.count(prof + r[:200])
            if outcome_class(a):
                c.violation("implementation-vs-property", "deep input (%s build, 2 MiB stack): %s" % (prof, a[:20]),
                            {"request": r[:200] + ("…" if len(r) > 200 else ""), "implementation": a[:100],
                             "input_text_prefix": unhx(r.split("\t")[-1])[:80]})
    # tall trees built through *map keys* (every level: a long left chain on top of a map whose key is the level below) —
    # nesting stays small, the tree grows tall: the height limit must stop it — and undecided `&&` / `||` chains, whose
    # evaluation is linear in their length (an evaluator that visits an operand twice per level would take 2^n steps)
    def mapkey(levels, chain=120):
        t_ = "1"
        for _ in range(levels):
            t_ = "{" + t_ + "+1" * chain + ":1}"
        return t_
    tall = [mapkey(k_) for k_ in (1, 2, 3, 10, 100)] + [mapkey(60, 2), mapkey(130, 1)]
    andor = [" && ".join(["true"] * k_) for k_ in (8, 40, 64, 127)] + [" || ".join(["false"] * k_) for k_ in (40, 64, 127)] + \
            ["x = " + " && ".join(["b"] * 90) + "; x", " && ".join(["(true || false)"] * 50)]
    extra = [expr_req(t_) for t_ in tall] + ["DESCR\t" + hx(t_) for t_ in tall]
    ex_reqs = ["CTX\tc\t((62 v (b 1)))"] + ["EXEC\tc\t" + hx(t_) for t_ in tall + andor]
    for prof in (("debug",) if c.quick() else ("debug", "release")):
        impl4 = run_impl(extra + ex_reqs, profile=prof, timeout=120, stack=2 << 20, max_aborts=3)
        for r, a in zip(extra + ex_reqs, impl4):
            c.count(prof + r[:200])
            if outcome_class(a):
                c.violation("implementation-vs-property", "tall / long input (%s build, 2 MiB stack): %s" % (prof, a[:20]),
                            {"request": r[:200] + ("…" if len(r) > 200 else ""), "implementation": a[:100],
                             "input_text_prefix": unhx(r.split("\t")[-1])[:80]})
    model4 = run_model(extra[:4] + ex_reqs)
    impl4d = run_impl(extra[:4] + ex_reqs, timeout=120, stack=2 << 20, max_aborts=3)
    c.add_stream(Stream("tall map-key trees and undecided && / || chains", extra[:4] + ex_reqs, impl4d, model4, numeric=False))
    model3 = run_model(deep[: len(deep) // 2 * 2 : 4])  # model side on a subset (fuel-based, slower)
    impl3d = run_impl(deep[: len(deep) // 2 * 2 : 4], timeout=900, stack=2 << 20)
    c.add_stream(Stream("deep shapes (every 4th) EXPR/DESCR", deep[: len(deep) // 2 * 2 : 4], impl3d, model3, numeric=False))
    c.extra["deep_depths"] = depths
    c.extra["runtime_residual"] = "machine stack bytes per frame × MAX_DEPTH(128) < stack size is measured (2 MiB thread, debug+release), not proved"
    return c.finish(trusted=TB_COMMON, rule="all strings of length ≤ %d over a %d-symbol class alphabet (exhaustive) + random strings/word mixes/mutated valid programs; distinct by request text" % (L, len(G.CHAR_ALPHABET)))


# =====================================================================================
def expected_parse_line(ast):
    return "OK\t" + sexp_str(ast)


def grouping_cases(c, table, nrand, depth=4):
    """(text, expected AST) pairs: the AST is the target, the text its rendering under the documented rule."""
    rng = c.rng
    cases = []
    ops = sorted(table.infix.keys())
    rd_min = G.Renderer(table, None, "min", infix_not=True)
    rd_pre = G.Renderer(table, None, "min", infix_not=False)
    for t in G.all_small_asts(table, ops if not c.quick() else ops[::1]):
        cases.append((G.join_tokens(rd_min.program(t)), t))
    # prefix / postfix / conditional placements around every operator pair
    A, B, C_, D = G.ref("a"), G.ref("b"), G.ref("c"), G.ref("d")
    for o1 in ops:
        for t in [G.binop(o1, G.un("-", A), G.post(B, "++")), G.un("!", G.binop(o1, A, B)), G.post(G.binop(o1, A, B), "--"),
                  G.tern(G.binop(o1, A, B), C_, D), G.binop(o1, G.tern(A, B, C_), D), G.binop(o1, A, G.tern(B, C_, D)),
                  G.tern(A, G.binop(o1, B, C_), G.tern(B, C_, G.binop(o1, A, D))), G.tern(G.tern(A, B, C_), D, A),
                  G.un("-", G.post(A, "++")), G.post(G.un("-", A), "++"), G.un("not", G.un("not", G.binop(o1, A, B))),
                  # every postfix operator after an operand belongs to it, also under a prefix operator
                  G.un("-", G.post(G.post(A, "++"), "--")), G.post(G.post(A, "++"), "--"),
                  G.binop(o1, G.un("!", G.post(G.post(A, "--"), "++")), G.un("-", G.un("-", G.post(G.post(G.post(B, "++"), "++"), "--")))),
                  G.post(G.un("-", G.post(A, "++")), "--")]:
            cases.append((G.join_tokens(rd_min.program(t)), t))
            cases.append((G.join_tokens(rd_pre.program(t)), t))
    ag = G.AstGen(rng.fork(), table, max_depth=depth)
    for i in range(nrand):
        t = ag.program()
        style = ["min", "extra", "full"][i % 3]
        rd = G.Renderer(table, rng.fork(), style)
        cases.append((G.join_tokens(rd.program(t), rng, tight=(i % 2 == 0)), t))
    return cases


def run_grouping(c, table, cases, prelude=(), name="G-cst"):
    reqs = list(prelude) + [parse_req(s) for s, _ in cases]
    impl, model = both(reqs, timeout=900)
    st = Stream(name, reqs, impl, model, numeric=False)
    c.add_stream(st)
    off = len(prelude)
    nbad = 0
    for (s, t), a in zip(cases, impl[off:]):
        exp = expected_parse_line(t)
        if canon(a, False) != exp:
            if "NestingTooDeep" in a:
                continue
            nbad += 1
            if nbad <= 20:
                c.violation("implementation-vs-property", "grouping differs from the documented rule",
                            {"input_text": s, "expected_ast": sexp_str(t), "implementation": a, "prelude": list(prelude)})
    return nbad


def adjacent_cases(c, nrand, mixed=False):
    """Grouping cases over operators registered at precedences adjacent to built-in ones: (table, prelude, cases)."""
    table, pre = G.adjacent_table(G.documented_table(), mixed)
    ops = [o for o, _, _ in G.ADJACENT_OPS + (G.MIXED_OPS if mixed else [])] + G.ADJACENT_NEIGHBOURS
    rd_min = G.Renderer(table, None, "min", infix_not=True)
    cases = [(G.join_tokens(rd_min.program(t)), t) for t in G.all_small_asts(table, ops)]
    sub = ops if not c.quick() else [o for o, _, _ in G.ADJACENT_OPS[:7]] + ["+", "*", "=", "||"]
    cases += [(G.join_tokens(rd_min.program(t)), t) for t in G.all_three_op_asts(sub)]
    sub_t = table.copy()
    sub_t.infix = {o: table.infix[o] for o in ops}
    ag = G.AstGen(c.rng.fork(), sub_t, max_depth=4)
    for i in range(nrand):
        t = ag.program()
        rd = G.Renderer(table, c.rng.fork(), ["min", "extra", "full"][i % 3])
        cases.append((G.join_tokens(rd.program(t), c.rng, tight=False), t))
    return table, pre, cases


def check_C02(c):
    c.prove(["EE.Props.C02"])
    table = G.documented_table()
    cases = grouping_cases(c, table, 15000 if c.quick() else 300000)
    run_grouping(c, table, cases)
    # operators registered one precedence step away from built-in ones, both associativities
    atable, pre, acases = adjacent_cases(c, 4000 if c.quick() else 80000)
    run_grouping(c, atable, acases, prelude=pre, name="G-cst with operators registered at adjacent precedences")
    c.extra["operators_in_documented_table"] = len(table.infix)
    return c.finish(trusted=TB_COMMON, rule="every tree with ≤ 2 infix operators over all operator pairs × negation (exhaustive) + prefix/postfix/conditional placements per operator + random trees rendered with minimal/extra/full parentheses by the documented rule; expected AST known to the generator")


# =====================================================================================
def check_C10(c):
    c.prove(["EE.Props.C10"])
    rng = c.rng
    L = 2 if c.quick() else 3
    strings = list(G.all_strings(G.CHAR_ALPHABET, L))
    n = 30000 if c.quick() else 400000
    for _ in range(n):
        k = 1 + rng.below(30)
        strings.append("".join(rng.choice(G.CHAR_ALPHABET) for _ in range(k)))
    for _ in range(n):
        strings.append(G.random_wordy(rng, 14))
    reqs = [tok_req(s) for s in strings]
    impl, model = both(reqs, timeout=900)
    c.add_stream(Stream("TOK built-in operator set", reqs, impl, model, numeric=False))
    _t = G.documented_table()
    BUILTIN_OPS = set(_t.infix) | set(_t.prefix) | set(_t.postfix) | {"?", ":"}
    def oracle(reqs, impl, label, ops=BUILTIN_OPS):
        for r, a in zip(reqs, impl):
            if a.startswith("OK\tok"):
                # an operator token is a *registered* operator (seeded change C10-ascii-punctuation-starts-operator made `_`, `.`,
                # `@` … one-character operator tokens)
                f_ = a.split("\t")
                bad = [unhx(x.split(":")[1]) for x in (f_[2].split() if len(f_) > 2 and f_[2] else []) if x.split(":")[0] == "0" and unhx(x.split(":")[1]) not in ops]
                if bad:
                    c.violation("implementation-vs-property", "operator token whose text is not a registered operator (%s): %r" % (label, bad[0]),
                                {"request": r, "implementation": a, "input_text": unhx(r.split("\t")[1])})
            if a.startswith("OK\t") and not a.startswith("OK\tok"):
                c.violation("implementation-vs-property", "token spans/text do not tile the input (%s): %s" % (label, a.split("\t")[1]),
                            {"request": r, "implementation": a, "input_text": unhx(r.split("\t")[1])})
            if outcome_class(a):
                c.violation("implementation-vs-property", "tokenizer did not return: " + a[:20], {"request": r, "implementation": a})
            # classification: a function name is a name whose next token is `(`; a reference is one whose next token is not;
            # true/True/false/False are booleans, never names
            if a.startswith("OK\tok"):
                f = a.split("\t")
                items = [x.split(":") for x in f[2].split()] if len(f) > 2 and f[2] else []
                for i, it in enumerate(items):
                    nxt_open = i + 1 < len(items) and items[i + 1][0] == "1" and items[i + 1][1] == "28"
                    if (it[0] == "7" and not nxt_open) or (it[0] == "6" and nxt_open) or \
                       (it[0] in ("6", "7") and unhx(it[1]) in ("true", "True", "false", "False")):
                        c.violation("implementation-vs-property", "token misclassified (%s): function name ⇔ next token is `(`; keywords are booleans" % label,
                                    {"request": r, "implementation": a, "input_text": unhx(r.split("\t")[1])})
                        break
    oracle(reqs, impl, "built-in set")
    # extended operator set (prefix-closed): registered symbolic and word operators
    pre = ["REG\tinfix\t%s\t115\tcalc\tleft\t(arg 0)" % hx(o) for o in ["**", "~", "=~", "<=>", "hi", "inside", "<~", "<~>",
                                                                              # word operators (first character is not an operator character) that
                                                                              # contain operator characters, and one longer than any built-in
                                                                              "~=", "is-a", "nil?", "isGreaterThanOrEqualTo"]] + \
          ["REG\tinfix\t%s\t%d\tcalc\tleft\t(arg 0)" % (hx(o), p_) for o, p_ in [("otherwise", -5), ("<=|", -1), ("atzero", 0)]] + \
          ["REG\tprefix\t%s\t0\tcalc\tleft\t(arg 0)" % hx(o) for o in ["~~", "neg"]] + \
          ["REG\tpostfix\t%s\t0\tcalc\tleft\t(arg 0)" % hx(o) for o in ["!!", "percent", "§"]]
    alpha2 = G.CHAR_ALPHABET + ["~", ">", "h", "i", "s", "d", "|"]
    strings2 = []
    words2 = G.WORDS + ["**", "~", "=~", "<=>", "hi", "inside", "in", "ins", "hinside", "~~", "neg", "!!", "<~", "<~>", "=~=", "<=", "percent", "percents", "§", "5 percent",
                               # registered with a negative / zero precedence: still registered operators for the tokenizer
                               "otherwise", "<=|", "atzero", "otherwises", "~=", "is-a", "nil?", "isGreaterThanOrEqualTo", "is", "nil", "is-ab"]
    for _ in range(n // 2):
        k = 1 + rng.below(16)
        strings2.append("".join(rng.choice(alpha2) for _ in range(k)))
        strings2.append("".join(rng.choice(words2) + rng.choice(["", " ", ""]) for _ in range(1 + rng.below(10))))
    reqs2 = pre + [tok_req(s) for s in strings2]
    impl2, model2 = both(reqs2, timeout=900)
    c.add_stream(Stream("TOK extended operator set", reqs2, impl2, model2, numeric=False))
    oracle(reqs2[len(pre):], impl2[len(pre):], "extended set",
           BUILTIN_OPS | {"**", "~", "=~", "<=>", "hi", "inside", "<~", "<~>", "~=", "is-a", "nil?", "isGreaterThanOrEqualTo", "otherwise", "<=|", "atzero", "~~", "neg", "!!", "percent", "§"})
    # every operator registered above — whatever its kind and precedence — is recognised as one operator token
    ext_ops = [unhx(r.split("\t")[2]) for r in pre]
    probes2 = [tok_req("7 %s 3" % o) for o in ext_ops] + [tok_req("[x %s (y)]" % o) for o in ext_ops]
    ip2, mp2 = both(pre + probes2, timeout=300)
    c.add_stream(Stream("TOK every operator of the extended set in context", pre + probes2, ip2, mp2, numeric=False))
    for o, r, a in zip(ext_ops + ext_ops, probes2, ip2[len(pre):]):
        f = a.split("\t")
        items = [x.split(":") for x in f[2].split()] if a.startswith("OK\tok") and len(f) > 2 and f[2] else []
        if not any(it[0] == "0" and unhx(it[1]) == o for it in items):
            c.violation("implementation-vs-property", "a registered operator is not recognised as one operator token (longest match over the registered set)",
                        {"requests": [x for x in pre if hx(o) in x] + [r], "implementation": a, "input_text": unhx(r.split("\t")[1]), "operator": o})
    # use before registration: a text is tokenized first, then one of its would-be operators is registered, then the same
    # text is tokenized again — the second result must show the operator (longest match over the *current* set; prefix-closed
    # sets only, see KF-C10-gap). Fresh operator names, so nothing earlier in this process has looked them up.
    hist = []
    for op, kind_ in [("<=>", "infix"), ("contains", "infix"), ("=~", "infix"), ("~", "prefix"), ("!!", "postfix"), ("within", "infix"), ("<~", "infix"),
                      ("pct", "postfix"), ("¶", "postfix"), ("negate", "prefix"), ("-@", "infix")]:
        texts = ["7 %s 3" % op, "a%sb" % op if op[0] in "+-*/^%&!=?:><|" else "a %s (b)" % op, "[x %s y, 1]" % op]
        if op == "=~":
            hist.append("REG\tinfix\t%s\t115\tcalc\tleft\t(arg 0)" % hx("~"))   # keep the set prefix-closed: `=~` needs … `=` is built in
        if op == "<~":
            pass  # `<` is built in
        if op == "<=>":
            pass  # `<=` is built in
        for t_ in texts:
            hist.append(tok_req(t_))
        hist.append("REG\t%s\t%s\t115\tcalc\tleft\t(arg 0)" % (kind_, hx(op)))
        for t_ in texts:
            hist.append(tok_req(t_) + "\t#after:" + hx(op))
    hreqs = [h_.split("\t#after:")[0] for h_ in hist]
    himpl, hmodel = both(hreqs, timeout=300)
    c.add_stream(Stream("TOK before and after registering an operator", hreqs, himpl, hmodel, numeric=False))
    for h_, a in zip(hist, himpl):
        if "\t#after:" in h_:
            op = unhx(h_.split("\t#after:")[1])
            f = a.split("\t")
            items = [x.split(":") for x in f[2].split()] if a.startswith("OK\tok") and len(f) > 2 and f[2] else []
            if not any(it[0] == "0" and unhx(it[1]) == op for it in items):
                c.violation("implementation-vs-property", "operator registered after a first use of the text is not recognised (longest match over the current set)",
                            {"requests": hreqs[:hist.index(h_) + 1][-8:], "implementation": a, "input_text": unhx(h_.split("\t")[1]), "operator": op})
    # character probes: every scalar value (quick: all below U+3100 — every script's punctuation, all Unicode
    # white space and controls — plus every 97th above; thorough: all 1,112,064) in four scanner contexts:
    # look-ahead after a name, identifier continuation, number run, operator extension
    def cps():
        for cp in range(0, 0x110000):
            if 0xD800 <= cp <= 0xDFFF:
                continue
            if cp < 0x3100 or not c.quick() or cp % 97 == 0:
                yield cp
    probes = []
    for cp in cps():
        ch = chr(cp)
        probes += [tok_req("f" + ch + "(1)"), tok_req("ab" + ch + "cd"), tok_req("12" + ch + "34"), tok_req("<" + ch + "=")]
    implp, modelp = both(probes, timeout=1200)
    c.add_stream(Stream("character probes in scanner contexts", probes, implp, modelp, numeric=False))
    oracle(probes, implp, "character probes")
    # known finding KF-C10-gap: an operator set that is not prefix-closed (only `=~=` registered, not `=~`)
    kf = ["REG\tinfix\t%s\t115\tcalc\tleft\t(arg 0)" % hx("=~="), tok_req("1 =~= 2")]
    impl3, model3 = both(kf)
    c.add_stream(Stream("TOK gap witness", kf, impl3, model3, numeric=False))
    toks = impl3[1].split("\t")[2].split() if impl3[1].startswith("OK\t") else []
    longest = any(t.startswith("0:" + hx("=~=") + ":") for t in toks)
    if not longest:
        if c.finding_listed("KF-C10-gap"):
            c.known_finding("KF-C10-gap", "longest match fails for an operator set that is not prefix-closed: with only `=~=` registered, `1 =~= 2` lexes `=`,`~`,`=`")
        else:
            c.violation("implementation-vs-property", "longest registered operator not taken", {"requests": kf, "implementation": impl3[1]})
    return c.finish(trusted=TB_COMMON, rule="all strings ≤ %d chars over the class alphabet (exhaustive) + random mixed-width strings and word mixes, under the built-in and an extended operator set; oracle: spans tile the input, text = slice" % L)


# =====================================================================================
def check_C12(c):
    c.prove(["EE.Props.C12"])
    rng = c.rng
    table = G.documented_table()
    cases = grouping_cases(c, table, 15000 if c.quick() else 300000, depth=4)
    reqs = [expr_req(s) for s, _ in cases]
    impl, model = both(reqs, timeout=900)
    c.add_stream(Stream("EXPR on G-cst programs", reqs, impl, model, numeric=False))
    def oracle(reqs, impl):
        n_ok = 0
        for r, a in zip(reqs, impl):
            f = a.split("\t")
            if f[0] != "OK":
                continue
            n_ok += 1
            if len(f) < 5 or f[1] != f[3] or f[2] != f[4]:
                c.violation("implementation-vs-property", "expr() output does not re-parse to the same AST / is not idempotent",
                            {"request": r, "input_text": unhx(r.split("\t")[1]), "ast": f[1], "expr": unhx(f[2]) if len(f) > 2 else None,
                             "reparsed": f[3] if len(f) > 3 else None, "expr_of_reparsed": unhx(f[4]) if len(f) > 4 and f[4] != "-" else None})
        return n_ok
    n_ok = oracle(reqs, impl)
    # operators registered one precedence step away from built-in ones (binding powers of neighbours must not collide)
    atable, pre, acases = adjacent_cases(c, 4000 if c.quick() else 80000, mixed=True)
    reqsA = pre + [expr_req(s_) for s_, _ in acases]
    implA, modelA = both(reqsA, timeout=900)
    c.add_stream(Stream("EXPR with operators registered at adjacent precedences", reqsA, implA, modelA, numeric=False))
    n_ok += oracle(reqsA[len(pre):], implA[len(pre):])
    # re-registration between renderings: expr() decides by the registrations in force *now* (on either thread), not by
    # what it saw when it last rendered the operator
    hist = []
    for (p1, a1), (p2, a2) in [((115, "left"), (115, "right")), ((115, "right"), (115, "left")), ((115, "left"), (105, "left")), ((30, "left"), (130, "left"))]:
        texts = ["a minus b minus c", "(a minus b) minus c", "a minus (b minus c)", "a + b minus c * d", "(a + b) minus (c * d)", "a minus b + c", "a minus (b + c)", "not (a minus b)"]
        hist.append("REG\tinfix\t%s\t%d\tcalc\t%s\t(arg 0)" % (hx("minus"), p1, a1))
        hist += [expr_req(t_) for t_ in texts] + ["ONW\t" + expr_req(t_) for t_ in texts]
        hist.append("REG\tinfix\t%s\t%d\tcalc\t%s\t(arg 0)" % (hx("minus"), p2, a2))
        hist += [expr_req(t_) for t_ in texts] + ["ONW\t" + expr_req(t_) for t_ in texts]
    implH, modelH = both(hist, timeout=300)
    c.add_stream(Stream("EXPR before and after re-registering an operator with another precedence / associativity", hist, implH, modelH, numeric=False))
    keep = [i for i, r_ in enumerate(hist) if not r_.startswith("REG")]
    n_ok += oracle([hist[i].replace("ONW\t", "") for i in keep], [implH[i] for i in keep])
    # source texts built around string literals: both quote characters, backslashes (the language has no escapes: a
    # backslash is an ordinary character), blanks, operator characters — whatever the real parser accepts must round-trip
    def lit():
        q = rng.choice(['"', "'"])
        body = "".join(rng.choice(["a", "b", " ", "\\", "'", '"', "\\" + q, "+", "(", ",", "é", "\\\\"]) for _ in range(rng.below(7)))
        return q + body + q
    forms = ["%s", "f(%s, 1)", "[%s, %s]", "%s == %s ? 1 : 2", "x = %s", "{%s: %s}", "%s + %s", "not %s", "(%s)"]
    texts = []
    for _ in range(6000 if c.quick() else 120000):
        f_ = rng.choice(forms)
        texts.append(f_ % tuple(lit() for _ in range(f_.count("%s"))))
    reqs3 = [expr_req(s_) for s_ in texts]
    impl3, model3 = both(reqs3, timeout=900)
    c.add_stream(Stream("EXPR on string-literal source texts", reqs3, impl3, model3, numeric=False))
    n_ok += oracle(reqs3, impl3)
    # at the nesting limit: wrappers that cost 1–3 levels each around cores whose rendering used to nest deeper than the
    # source (postfix chains, `x not OP y`); whatever is accepted must still round-trip (expr() must not nest deeper)
    # (only wrappers that stay in the tree: redundant parentheses vanish from the rendering)
    wrappers = [("-(c ? %s : b)", 3), ("- %s", 1), ("f(%s)", 1), ("[%s]", 1), ("{1: %s}", 1), ("true ? %s : 0", 1), ("!(%s + 1)", 2)]
    cores = ["a", "a ++", "a ++ --", "a ++ -- ++ ++", "a not == b", "a not in [b] not == c", "a not == b ++ --", "- a ++ --", "x = y not < z", "a + b * c"]
    deep = []
    for _ in range(60 if c.quick() else 2000):
        x, depth = rng.choice(cores), 1
        while depth < 112:
            w, cost = rng.choice(wrappers)
            x, depth = w % x, depth + cost
        # … then one level at a time across the limit, so that the deepest accepted source is exactly at it
        while depth < 140:
            w, cost = rng.choice([wrappers[1], wrappers[2], wrappers[3]])
            x, depth = w % x, depth + cost
            deep.append(x)
    reqs4 = [expr_req(s_) for s_ in deep]
    impl4, model4 = both(reqs4, timeout=900)
    c.add_stream(Stream("EXPR at the nesting limit", reqs4, impl4, model4, numeric=False))
    n_deep_ok = oracle(reqs4, impl4)
    c.extra["accepted_at_nesting_limit"] = n_deep_ok
    n_ok += n_deep_ok
    # AST-direct: trees the parser can produce, built through the public enum
    ag = G.AstGen(rng.fork(), table, max_depth=5)
    asts = [ag.program() for _ in range(5000 if c.quick() else 100000)]
    reqs2 = ["EXPRAST\t" + sexp_str(t) for t in asts]
    impl2, model2 = both(reqs2, timeout=900)
    c.add_stream(Stream("EXPRAST random parser-range trees", reqs2, impl2, model2, numeric=False))
    for t, r, a in zip(asts, reqs2, impl2):
        f = a.split("\t")
        if f[0] == "OK" and f[2] != sexp_str(t) and "stmt" != t[0]:
            c.violation("implementation-vs-property", "expr() of a parser-range tree re-parses to a different tree",
                        {"request": r, "expr": unhx(f[1]), "reparsed": f[2]})
    c.extra["accepted_inputs_round_tripped"] = n_ok
    return c.finish(trusted=TB_COMMON, rule="accepted programs from G-cst (all operator pairs/nestings, prefix/postfix/conditional placements, not-forms, both quotes) and random parser-range trees; oracle: parse(expr(t)) = t and expr idempotent, on the real crate")


# =====================================================================================
def check_C11(c):
    c.prove(["EE.Props.C11"])
    rng = c.rng
    table = G.documented_table()
    ag = G.AstGen(rng.fork(), table, max_depth=3)
    WS = [" ", "\t", "\r", "\n"]
    pairs = []
    n = 1500 if c.quick() else 30000
    for i in range(n):
        t = ag.program()
        rd = G.Renderer(table, rng.fork(), "min")
        toks = rd.program(t)
        base = G.join_tokens(toks, rng, tight=True)
        pairs.append((base, base, "base"))
        # re-layouts through the token list (generator knows the boundaries)
        for _ in range(6):
            out = []
            for j, tk in enumerate(toks):
                if j:
                    gap = "".join(rng.choice(WS) for _ in range(1 + rng.below(3)))
                    out.append(gap)
                out.append(tk)
            lead = "".join(rng.choice(WS) for _ in range(rng.below(3)))
            pairs.append((base, lead + "".join(out) + lead, "respace"))
        # the tightest spelling (symbolic operators glued to their operands): the base is that text with blanks added
        pairs.append((base, G.join_tokens_tightest(toks), "tightest"))
        # extra parentheses around complete subexpressions
        for style in ("extra", "full"):
            rd2 = G.Renderer(table, rng.fork(), style)
            pairs.append((base, G.join_tokens(rd2.program(t), rng, tight=True), "parens-" + style))
    reqs = []
    for a, b, _ in pairs:
        reqs.append(parse_req(b))
    impl, model = both(reqs, timeout=900)
    c.add_stream(Stream("PARSE re-laid-out programs", reqs, impl, model, numeric=False))
    base_ast = {}
    for (a, b, kind_), r in zip(pairs, impl):
        if kind_ == "base":
            base_ast[a] = r
    for (a, b, kind_), r in zip(pairs, impl):
        if kind_ != "base" and canon(r, False) != canon(base_ast[a], False):
            if "NestingTooDeep" in r or "NestingTooDeep" in base_ast[a]:
                continue
            c.violation("implementation-vs-property", "layout change (%s) changed the parse" % kind_,
                        {"original": a, "relaid": b, "original_ast": base_ast[a], "relaid_ast": r})
    # tall trees with shallow nesting: long operator / postfix chains (tree height 100–127, parser nesting 1–2) with up to 20
    # redundant pairs of parentheses around an operand or a prefix of the chain — parentheses add nesting, never tree
    # height, so all of these stay far inside the nesting limit and must parse to the tree of the plain chain
    tall = []
    for _ in range(40 if c.quick() else 600):
        k = 100 + rng.below(27)
        op = rng.choice(["+", "-", "*", "&&", "=="]) if rng.chance(3, 4) else None
        pairs_n = 1 + rng.below(20)
        lp, rp = "(" * pairs_n, ")" * pairs_n
        if op:
            items = ["x"] * k
            plain = (" %s " % op).join(items)
            j = rng.below(k)
            wrapped_one = (" %s " % op).join(items[:j] + [lp + "x" + rp] + items[j + 1:])
            cut = 1 + rng.below(k - 1)
            wrapped_prefix = lp + (" %s " % op).join(items[:cut]) + rp + " " + op + " " + (" %s " % op).join(items[cut:])
            tall += [(plain, wrapped_one), (plain, wrapped_prefix), ("y = " + plain, "y = (" + plain + ")")]
        else:
            plain = "x" + " ++" * k
            tall += [(plain, lp + "x" + rp + " ++" * k), (plain, lp + "x" + " ++" * (k // 2) + rp + " ++" * (k - k // 2))]
    treqs = []
    for a_, b_ in tall:
        treqs += [parse_req(a_), parse_req(b_)]
    ti, tm = both(treqs, timeout=600)
    c.add_stream(Stream("PARSE tall chains with redundant parentheses", treqs, ti, tm, numeric=False))
    for k_, (a_, b_) in enumerate(tall):
        ra, rb = ti[2 * k_], ti[2 * k_ + 1]
        if not ra.startswith("OK\t") or canon(ra, False) != canon(rb, False):
            c.violation("implementation-vs-property", "redundant parentheses around an operand of a tall, shallow expression changed the parse (or the plain chain was rejected)",
                        {"original": a_[:200] + (" …" if len(a_) > 200 else ""), "relaid": b_[:300] + (" …" if len(b_) > 300 else ""), "original_ast": ra[:120], "relaid_ast": rb[:120],
                         "requests": [parse_req(b_)]})
    # a symbol registered in two roles (postfix and infix, prefix and infix): which role it plays is decided by the grammar
    # position, never by how it is spaced
    dual_pre = ["REG\tpostfix\t%s\t0\tcalc\tleft\t(arg 0)" % hx("---"), "REG\tinfix\t%s\t105\tcalc\tleft\t(arg 0)" % hx("---"),
                "REG\tprefix\t%s\t0\tcalc\tleft\t(arg 0)" % hx("+++"), "REG\tinfix\t%s\t105\tcalc\tleft\t(arg 0)" % hx("+++"),
                "REG\tpostfix\t%s\t0\tcalc\tleft\t(arg 0)" % hx("pct"), "REG\tinfix\t%s\t105\tcalc\tleft\t(arg 0)" % hx("pct")]
    dual = []
    for toks in (["a", "---", "b"], ["a", "---"], ["[", "a", "---", ",", "b", "]"], ["a", "---", "---", "b"], ["a", "+++", "b"], ["+++", "a", "+++", "b"], ["a", "+", "+++", "b"],
                 ["f", "(", "a", "---", ")", "---", "b"], ["a", "pct", "b"], ["a", "pct", ";", "b"], ["x", "=", "a", "---", "b", "---"]):
        variants = {" ".join(toks), "  ".join(toks), " \t".join(toks)}
        def sym(t_): return all(ch in "+-*/^%&!=?:><|" for ch in t_)
        def opnd(t_): return t_ in ("a", "b", "x")
        for k_ in range(len(toks) - 1):
            # a blank may be dropped only where the two tokens cannot merge: between an operand name and a symbolic operator
            if (opnd(toks[k_]) and sym(toks[k_ + 1])) or (sym(toks[k_]) and opnd(toks[k_ + 1])):
                variants.add("".join(t_ + (" " if i_ != k_ else "") for i_, t_ in enumerate(toks)).strip())
            variants.add("".join(t_ + ("\n" if i_ == k_ else " ") for i_, t_ in enumerate(toks)).strip())
        vs = sorted(variants)
        dual.append(vs)
    dreqs = list(dual_pre)
    for vs in dual:
        dreqs += [parse_req(v_) for v_ in vs]
    di, dm = both(dreqs, timeout=300)
    c.add_stream(Stream("PARSE layouts of operators registered in two roles", dreqs, di, dm, numeric=False))
    pos = len(dual_pre)
    for vs in dual:
        res = di[pos:pos + len(vs)]
        pos += len(vs)
        # word operators need their blanks; compare only layouts that tokenize to the same token texts: here all variants do
        if len(set(canon(r_, False) for r_ in res)) != 1:
            c.violation("implementation-vs-property", "the spacing around an operator registered in two roles changed the parse",
                        {"requests": dual_pre + [parse_req(v_) for v_ in vs], "layouts": vs, "implementation": res})
    # span-driven re-layout of arbitrary accepted inputs: gaps located with the token hook
    strs = [G.random_wordy(rng, 8) for _ in range(4000 if c.quick() else 60000)]
    tk = run_impl([tok_req(s) for s in strs], timeout=600)
    ps = run_impl([parse_req(s) for s in strs], timeout=600)
    relaid = []
    opwords = set(table.infix) | set(table.prefix) | set(table.postfix) | {"?", ":"}
    for s, tline, pline in zip(strs, tk, ps):
        if not (tline.startswith("OK\tok") and pline.startswith("OK\t")):
            continue
        items = [x.split(":") for x in tline.split("\t")[2].split()] if len(tline.split("\t")) > 2 else []
        # names that are operator words are outside the property
        if any(it[0] in ("6", "7") and unhx(it[1]) in opwords for it in items):
            continue
        b = s.encode("utf-8")
        out, pos = [], 0
        for it in items:
            st_, en = int(it[2]), int(it[3])
            gap = b[pos:st_].decode("utf-8")
            if gap or rng.chance(1, 2):
                newgap = "".join(rng.choice(WS) for _ in range((1 if gap else 0) + rng.below(3)))
            else:
                newgap = ""
            out.append(newgap)
            out.append(b[st_:en].decode("utf-8"))
            pos = en
        relaid.append((s, "".join(out), pline))
    r2 = [parse_req(b) for _, b, _ in relaid]
    impl2, model2 = both(r2, timeout=600) if r2 else ([], [])
    c.add_stream(Stream("PARSE span-driven re-layout of accepted inputs", r2, impl2, model2, numeric=False))
    for (a, b, pline), r in zip(relaid, impl2):
        if canon(r, False) != canon(pline, False):
            # known finding: inserting whitespace cannot matter, but an *empty→non-empty* change between a name and '(' is a
            # function-call boundary the property allows (whitespace where none existed may be added anywhere): a name directly
            # followed by '(' is a call with or without whitespace, so any difference here is a violation
            c.violation("implementation-vs-property", "whitespace change between tokens changed the parse",
                        {"original": a, "relaid": b, "original_ast": pline, "relaid_ast": r})
    # known finding KF-C11-juxtaposed: wrapping the head of a juxtaposed statement after a name makes a call
    w = [parse_req("x y"), parse_req("x (y)")]
    iw, mw = both(w)
    c.add_stream(Stream("juxtaposed-statement witness", w, iw, mw, numeric=False))
    if iw[1] != "OK\t(stmt (ref 78) (ref 79))":
        if c.finding_listed("KF-C11-juxtaposed"):
            c.known_finding("KF-C11-juxtaposed", "`x y` (two statements, `;` omitted) vs `x (y)`: wrapping `y` in parentheses yields the call x(y)")
        else:
            c.violation("implementation-vs-property", "parenthesising a statement head changed the parse", {"requests": w, "implementation": iw})
    return c.finish(trusted=TB_COMMON, rule="(program, re-laid-out program) pairs: every gap replaced by random whitespace over {space,tab,CR,LF}, extra/full parentheses around subexpressions, and span-driven re-layout of accepted random inputs; oracle: equal ASTs on the real crate")


# =====================================================================================
def check_C05(c):
    c.prove(["EE.Props.C05"])
    rng = c.rng
    K = 4 if c.quick() else 5
    seqs = list(G.all_token_seqs(K))
    if c.quick():
        # all sequences up to 3, and a seeded third of length 4
        seqs = [s for s in seqs if s.count(" ") < 3 or rng.chance(1, 3)]
    for _ in range(20000 if c.quick() else 400000):
        n = 5 + rng.below(8)
        seqs.append(" ".join(rng.choice(G.TOKEN_KINDS) for _ in range(n)))
    table = G.documented_table()
    ag = G.AstGen(rng.fork(), table, max_depth=3)
    rd = G.Renderer(table, rng.fork(), "extra")
    for _ in range(5000 if c.quick() else 50000):
        s = G.join_tokens(rd.program(ag.program()), rng, tight=True)
        seqs.append(G.mutate(rng, s))
    # token-kind confusion: a separator / bracket / operator of a valid program replaced by a *string literal* (or, for
    # word operators, nothing else changes) with the same text — "no input is accepted by treating one token as another"
    punct = {",", ":", ";", "?", "(", ")", "[", "]", "{", "}"}
    for _ in range(4000 if c.quick() else 60000):
        toks = list(rd.program(ag.program()))
        idx = [i for i, tk in enumerate(toks) if tk in punct or tk in table.infix or tk in ("++", "--", "!", "not")]
        if not idx:
            continue
        i = rng.choice(idx)
        q = rng.choice(['"', "'"])
        toks[i] = q + toks[i] + q
        seqs.append(" ".join(toks))
    for a in ["1", "a", "'s'"]:
        for sep, form in [(",", "[%s %s 2]"), (",", "f(%s %s 2)"), (":", "{%s %s 2}"), (":", "true ? %s %s 2"), ("?", "true %s 1 : 2" ), (")", "(1 %s"), ("]", "[1 %s"), ("}", "{1:2 %s")]:
            for q in ['"', "'"]:
                lit = q + sep + q
                seqs.append(form % ((a, lit) if form.count("%s") == 2 else (lit,)))
    reqs = [parse_req(s) for s in seqs]
    impl, model = both(reqs, timeout=1200)
    st = Stream("G-tok/G-mut PARSE", reqs, impl, model, numeric=False)
    c.add_stream(st)
    # direct oracle: the reference recogniser for the lenient grammar (search aid; see DESIGN §6 C05)
    from . import grammar
    accepted = [(s, a) for s, a in zip(seqs, impl) if a.startswith("OK\t")]
    acc, rej = len(accepted), len(seqs) - len(accepted)
    verdicts = grammar.sentences([s for s, _ in accepted])
    for (s, a), verdict in zip(accepted, verdicts):
        if verdict is False:
            c.violation("implementation-vs-property", "accepted input is not a sentence of the grammar (reference recogniser)",
                        {"input_text": s, "implementation": a})
    c.extra["accepted"] = acc
    c.extra["rejected"] = rej
    # corpus of the malformed inputs the property cites
    corpus = ["[1)2]", "{1,2}", "f(1]2)", "true ? 1 , 2", "* 3", ": a", "? a", "a : b", "(1", "1)", "[1 2]", "{1:2 3:4}", "f(1 2)", "1 +", "1,2", ";", "1;;2",
              "'abc", "\"abc", "1.2.3", "1e5", "a ? b", "a ? b :", "[1,,2]", "f(,)", "f(1,)", "{1}", "{1:}", "{:1}", "a not b", "a not", "not", "()", "[", "]",
              # malformed numbers whose first 28 fractional digits are fine (a decimal parser may stop looking after them)
              "0.0000000000000000000000000001.", "0.0000000000000000000000000001.5", "1.0000000000000000000000000000.", "0.0000000000000000000000000001..",
              "0.0000000000000000000000000001.2.3", "0.00000000000000000000000000012.3", "[1, 0.1234567890123456789012345678.9]", "x = 7.0000000000000000000000000000.0.0"]
    cr = [parse_req(s) for s in corpus]
    ic, mc = both(cr)
    c.add_stream(Stream("malformed corpus", cr, ic, mc, numeric=False))
    for s, a in zip(corpus, ic):
        if a.startswith("OK"):
            c.violation("implementation-vs-property", "malformed input accepted", {"input_text": s, "implementation": a})
    return c.finish(trusted=TB_COMMON, rule="all token-kind sequences of length ≤ %d over %d kinds%s + random sequences of length 5–12 + single-character corruptions of valid programs; oracle: every accepted input is a sentence per the reference recogniser" % (K, len(G.TOKEN_KINDS), " (length 4 sampled 1/3 in the quick tier)" if c.quick() else ""))


CHECKS = {"C01": check_C01, "C02": check_C02, "C05": check_C05, "C10": check_C10, "C11": check_C11, "C12": check_C12}

from . import checks2 as _c2
CHECKS.update(_c2.CHECKS2)


def replay(pid, path):
    """Re-run the requests of a replay file against the current tree and the model and print both answers."""
    body = json.load(open(path))
    prepare(("debug",))
    for case in body.get("cases", []):
        reqs = case.get("requests") or ([case["request"]] if "request" in case else [])
        if not reqs and "input_text" in case:
            reqs = [parse_req(case["input_text"])]
        reqs = [r for r in reqs if isinstance(r, str)]
        if not reqs:
            print(json.dumps(case, ensure_ascii=False)[:500])
            continue
        impl, model = both(reqs)
        for r, a, b in zip(reqs, impl, model):
            print("REQ  ", r[:300]); print(" impl", a[:300]); print(" model", b[:300])
    return 0
