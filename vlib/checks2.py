"""Checks for the evaluator family (C03 C04 C06 C07 C09 C15 C16), registries (C08 C18),
conversions (C17) and concurrency / re-entrancy (C13 C14)."""
import os, json, subprocess, itertools
from fractions import Fraction
from .proto import *
from .core import *
from . import gen as G
from . import pyspec as S
from .checks import TB_COMMON, outcome_class, parse_req, grouping_cases, run_grouping

MAXD = "79228162514264337593543950335"

def n(mant, scale=0, neg=False):
    return ["n", "1" if neg else "0", str(mant), str(scale)]
def s(x): return ["s", hx(x)]
def b(x): return ["b", "1" if x else "0"]
def l(*xs): return ["l"] + list(xs)
NONE = ["none"]

NUM_POOL = [n(0), n(1), n(2), n(3), n(5), n(7), n(10), n(5, 1), n(15, 1), n(1, 1), n(2, 1), n(3, 1), n(110, 2), n(30, 1), n(250, 2),
            n(0, 2), n(1, 28), n(63), n(64), n(65), n(100), n(1, 0, True), n(5, 0, True), n(55, 1, True), n(3, 0, True),
            n(9223372036854775807), n(9223372036854775808), n(9223372036854775808, 0, True), n(9223372036854775809, 0, True),
            n(4611686018427387904), n(int(MAXD)), n(int(MAXD), 0, True), n(int(MAXD), 28), n(7922816251426433759354395033, 0),
            n(4294967296), n(1234567890123456789012345678, 10), n(33333333333333333333, 14)]
OTHER_POOL = [b(True), b(False), s(""), s("a"), s("ab"), s("ba"), s("é"), s("aé"), l(), l(n(1)), l(n(1), n(2)), l(n(10, 1)),
              l(b(True), b(False)), l(b(True), n(1)), l(b(False), n(1)), l(s("a")), l(l(n(1))), l(NONE), ["m", [n(1), n(2)]], ["m"], NONE]
POOL = NUM_POOL + OTHER_POOL

INFIX_OPS = ["=", "+=", "-=", "*=", "/=", "%=", "<<=", ">>=", "&=", "^=", "|=", "||", "&&", "<", "<=", ">", ">=", "==", "!=",
             "|", "^", "&", "<<", ">>", "+", "-", "*", "/", "%", "beginWith", "endWith", "in"]
SETTERS = set(INFIX_OPS[:11])


def ctx_line(cid, binds):
    return "CTX\t%s\t(%s)" % (cid, " ".join("(%s %s %s)" % (hx(k), kind, sexp_str(v)) for k, kind, v in binds))


def exec_line(cid, text, w=False):
    return ("EXECW" if w else "EXEC") + "\t%s\t%s" % (cid, hx(text))


def outcome_of(line):
    """outcome field of an EXEC response → ('OK', value-sexp) | ('ERR',) | ('PANIC',) …"""
    f = line.split("\t")
    if len(f) < 2:
        return (f[0].split(" ")[0],)
    o = f[1]
    if o.startswith("OK "):
        return ("OK", sexp_parse(norm_numbers(o[3:])))
    return (o.split(" ")[0],)


def grid_requests(pairs_pool, full):
    reqs, meta = [], []
    pool = pairs_pool
    for op in INFIX_OPS:
        for a in pool:
            for bb in pool:
                if not full and a in OTHER_POOL and bb in OTHER_POOL and op not in ("==", "!=", "in", "&&", "||", "beginWith", "endWith"):
                    continue
                reqs.append(ctx_line("c", [("p", "v", a), ("q", "v", bb)]))
                text = "p %s q" % op if op not in SETTERS else "p %s q; p" % op
                reqs.append(exec_line("c", text))
                meta.append(("infix", op, a, bb))
    for op in ["-", "+", "!", "not", "AND", "OR"]:
        for a in POOL:
            reqs.append(ctx_line("c", [("p", "v", a)]))
            reqs.append(exec_line("c", "%s p" % op))
            meta.append(("prefix", op, a, None))
    for op in ["++", "--"]:
        for a in POOL:
            reqs.append(ctx_line("c", [("p", "v", a)]))
            reqs.append(exec_line("c", "p %s" % op))
            meta.append(("postfix", op, a, None))
    # two unary operators on one operand (the same one twice included): each application is type-checked
    for o1 in ["-", "+", "!", "not"]:
        for o2 in ["-", "+", "!", "not"]:
            for a in POOL:
                reqs.append(ctx_line("c", [("p", "v", a)]))
                reqs.append(exec_line("c", "%s %s p" % (o1, o2)))
                meta.append(("prefix2", (o1, o2), a, None))
    for o1 in ["-", "!"]:
        for o2 in ["++", "--"]:
            for a in POOL:
                reqs.append(ctx_line("c", [("p", "v", a)]))
                reqs.append(exec_line("c", "%s p %s %s" % (o1, o2, o2)))
                meta.append(("prepost", (o1, o2), a, None))
    small = [n(1), n(5, 1), n(3, 0, True), n(int(MAXD)), n(0), s("a"), NONE, n(2, 1)]
    for fn in ["min", "max", "sum", "mul"]:
        for k in range(0, 4):
            for args in itertools.product(small, repeat=k):
                binds = [("a%d" % i, "v", v) for i, v in enumerate(args)]
                reqs.append(ctx_line("c", binds))
                reqs.append(exec_line("c", "%s(%s)" % (fn, ",".join("a%d" % i for i in range(k)))))
                meta.append(("fn", fn, list(args), None))
    return reqs, meta


def spec_expect(m):
    kind_, op, a, bb = m
    if kind_ == "infix":
        return S.infix(op, a, bb)
    if kind_ == "prefix":
        return S.prefix(op, a)
    if kind_ == "postfix":
        return S.postfix(op, a)
    if kind_ == "prefix2":
        inner = S.prefix(op[1], a)
        return inner if inner is None or inner == S.ERR else S.prefix(op[0], inner)
    if kind_ == "prepost":
        v = S.postfix(op[1], a)
        if v is not None and v != S.ERR:
            v = S.postfix(op[1], v)
        return v if v is None or v == S.ERR else S.prefix(op[0], v)
    return S.function(op, a)


def grid_oracle(c, reqs, meta, impl, label):
    """Direct oracle: implementation vs the Python reference semantics (exact rationals / big ints)."""
    checked = skipped = 0
    for i, m in enumerate(meta):
        line = impl[2 * i + 1]
        oc = outcome_of(line)
        if oc[0] in ("PANIC", "ABORT", "HANG", "DEADLOCK", "MISSING"):
            c.violation("implementation-vs-property", "evaluation did not return Ok or Err (%s): %s" % (label, oc[0]),
                        {"requests": [reqs[2 * i], reqs[2 * i + 1]], "implementation": line, "input_text": unhx(reqs[2 * i + 1].split("\t")[2])})
            continue
        exp = spec_expect(m)
        if exp is None:
            skipped += 1
            continue
        checked += 1
        if exp == S.ERR:
            ok = oc[0] == "ERR"
        else:
            ok = oc[0] == "OK" and sexp_str(oc[1]) == norm_numbers(sexp_str(exp))
        if not ok:
            c.violation("implementation-vs-property", "built-in %s `%s` differs from the reference semantics (%s)" % (m[0], m[1], label),
                        {"requests": [reqs[2 * i], reqs[2 * i + 1]], "implementation": line,
                         "expected": "ERR" if exp == S.ERR else sexp_str(exp), "input_text": unhx(reqs[2 * i + 1].split("\t")[2])})
    return checked, skipped


def conditional_grid(c, profiles=("debug",)):
    """The condition of `c ? a : b` drawn from the whole pool: a Bool selects, anything else is a type error (never read as false)."""
    reqs, meta = [], []
    for v in POOL:
        for text in ("c ? 1 : 2", "true ? (c ? 1 : 2) : 3", "x = (c ? 1 : 2); x", "[0, c ? 1 : 2]", "(c ? 1 : 2) + 1", "c ? 1/0 : 7"):
            reqs.append(ctx_line("k", [("c", "v", v)]))
            reqs.append(exec_line("k", text))
            meta.append((v, text))
    model = run_model(reqs)
    for prof in profiles:
        impl = run_impl(reqs, profile=prof, timeout=600)
        c.add_stream(Stream("conditional with a condition of every type (%s)" % prof, reqs, impl, model))
        for i, (v, text) in enumerate(meta):
            oc = outcome_of(impl[2 * i + 1])
            if v[0] == "b":
                bad = oc[0] != ("ERR" if text == "c ? 1/0 : 7" and v[1] == "1" else "OK")
            else:
                bad = oc[0] != "ERR"
            if bad:
                c.violation("implementation-vs-property", "a conditional whose condition is not a Bool did not fail with an error (or a Bool condition did not select)" ,
                            {"requests": reqs[2 * i: 2 * i + 2], "input_text": text, "condition": sexp_str(v), "implementation": impl[2 * i + 1], "build": prof})


def check_C03(c):
    c.prove(["EE.Props.C03"])
    reqs, meta = grid_requests(POOL, not c.quick())
    impl, model = both(reqs, timeout=1200)
    c.add_stream(Stream("operand grid: every built-in operator/function × boundary pool", reqs, impl, model))
    checked, skipped = grid_oracle(c, reqs, meta, impl, "debug")
    c.extra["grid_cells"] = len(meta)
    c.extra["grid_checked_against_reference"] = checked
    c.extra["grid_inexact_no_claim"] = skipped
    conditional_grid(c)
    # list / map construction: one element / entry per written one, in order — also when keys evaluate to equal values
    mk = [("{1: 'x', 2: 'y', 3 - 2: 'z'}", "(m ((n 0 1 0) (s 78)) ((n 0 2 0) (s 79)) ((n 0 1 0) (s 7a)))"),
          ("{1: 'x', 1.0: 'y'} == {1: 'y'}", "(b 0)"), ("{p: 1, q: 2, u: 3, v: 4}", "(m ((n 0 7 0) (n 0 1 0)) ((n 0 7 0) (n 0 2 0)) ((none) (n 0 3 0)) ((none) (n 0 4 0)))"),
          ("[p, q, p]", "(l (n 0 7 0) (n 0 7 0) (n 0 7 0))"), ("{'k': 1, 'k': 1}", "(m ((s 6b) (n 0 1 0)) ((s 6b) (n 0 1 0)))"), ("{} == {}", "(b 1)"), ("{1: 2} == {1: 2, 1: 2}", "(b 0)")]
    mreq = []
    for t_, _ in mk:
        mreq += [ctx_line("c", [("p", "v", n(7)), ("q", "v", n(7))]), exec_line("c", t_)]
    mi, mm = both(mreq)
    c.add_stream(Stream("map / list construction with equal keys and elements", mreq, mi, mm))
    for k_, (t_, exp) in enumerate(mk):
        oc = outcome_of(mi[2 * k_ + 1])
        if not (oc[0] == "OK" and sexp_str(oc[1]) == exp):
            c.violation("implementation-vs-property", "a list / map does not hold exactly the written elements / entries in order", {"input_text": t_, "expected": exp, "implementation": mi[2 * k_ + 1]})
    # typed programs (AST-direct and text) against the model
    progs = typed_programs(c, 6000 if c.quick() else 120000)
    run_programs(c, progs, "typed programs")
    return c.finish(trusted=TB_COMMON + ["vlib/pyspec.py: independent reference semantics (exact rationals, big integers)",
                                         "rust_decimal 1.31 arithmetic is modelled (exact when representable), not verified"],
                    rule="every built-in infix/prefix/postfix operator × ordered pairs from a %d-value boundary pool (numbers incl. negative/fractional/extreme, booleans, strings incl. multi-byte, lists, maps, None), aggregates over argument tuples of length ≤ 3, and type-directed random programs; distinct by request" % len(POOL))


def check_C04(c):
    c.prove(["EE.Props.C04"])
    reqs, meta = grid_requests(POOL, not c.quick())
    impl, model = both(reqs, timeout=1200)
    c.add_stream(Stream("operand grid (debug build)", reqs, impl, model))
    grid_oracle(c, reqs, meta, impl, "debug")
    impl_r = run_impl(reqs, profile="release", timeout=1200)
    c.add_stream(Stream("operand grid (release build, overflow checks off)", reqs, impl_r, model))
    grid_oracle(c, reqs, meta, impl_r, "release")
    ndiff = 0
    for r, a, bb in zip(reqs, impl, impl_r):
        if canon(a) != canon(bb):
            ndiff += 1
            c.violation("implementation-vs-property", "debug and release builds disagree (a silently wrapped or masked number)",
                        {"request": r, "debug": a, "release": bb})
    # fault programs: the faults the property names, nested inside larger expressions
    faults = ["1/0", "5%0", "1/(2-2)", MAXD + "+1", MAXD + "*2", "-" + MAXD + "-1", "1<<64", "1>>64", "1<<-1", "1<<63", "1>>63", "min()", "max()",
              "a=1;a<<=64", "a=" + MAXD + ";a+=1", "a=1;a/=0", "a=1;a%=0", MAXD + "++", "(-" + MAXD + ")--", "sum(" + MAXD + ",1)", "mul(" + MAXD + ",2)",
              "1.5|1", "9223372036854775808&1", "1<<1.5", "[1,2/0]", "{1/0:2}", "f(1/0)", "true?1/0:2", "false?1/0:2", "1 in 2", "AND[1]", "OR 1",
              "'a'+1", "!1", "-true", "'a'++", "1 beginWith 'a'", "None + 1", "x + 1", "1 && true", "(1/3)*3", "0.1+0.2==0.3"]
    fr = ["CTX\tc\t()"] + [exec_line("c", f) for f in faults]
    for prof in ("debug", "release"):
        im = run_impl(fr, profile=prof)
        mo = run_model(fr)
        c.add_stream(Stream("fault corpus (%s)" % prof, fr, im, mo))
        for r, a in zip(fr, im):
            if outcome_class(a):
                c.violation("implementation-vs-property", "fault surfaced as %s (%s build)" % (outcome_class(a), prof),
                            {"request": r, "input_text": unhx(r.split("\t")[2]) if r.startswith("EXEC") else "", "implementation": a})
    conditional_grid(c, profiles=("debug", "release"))
    progs = typed_programs(c, 4000 if c.quick() else 80000, faulty=True)
    run_programs(c, progs, "fault-biased programs", profiles=("debug", "release"))
    c.extra["debug_release_differences"] = ndiff
    return c.finish(trusted=TB_COMMON + ["vlib/pyspec.py reference semantics", "rust_decimal checked_* return None exactly on overflow (sampled at the boundaries)"],
                    rule="operand grid as C03, run in debug and release builds, + fault corpus + fault-biased random programs; oracle: outcome class Ok/Err, value = checked reference arithmetic, debug = release")


# ---------------- typed programs ----------------
def typed_programs(c, count, faulty=False):
    rng = c.rng
    progs = []
    nums = ["0", "1", "2", "3", "7", "10", "0.5", "1.5", "0.1", "0.2", "1.10", "100", "63", "64"]
    if faulty:
        nums += ["0", "0", MAXD, "9223372036854775807", "9223372036854775808", "0.0000000000000000000000000001", "65", "4294967296"]
    def num_e(d):
        r = rng.below(12)
        if d <= 0 or r < 3:
            return rng.choice(nums + ["n1", "n2"])
        if r < 7:
            return "(%s %s %s)" % (num_e(d - 1), rng.choice(["+", "-", "*", "/", "%"] if not faulty else ["+", "-", "*", "/", "%", "/", "%"]), num_e(d - 1))
        if r == 7:
            return "(%s %s %s)" % (num_e(d - 1), rng.choice(["|", "&", "^", "<<", ">>"]), num_e(d - 1))
        if r == 8:
            return "%s(%s)" % (rng.choice(["min", "max", "sum", "mul"]), ",".join(num_e(d - 1) for _ in range(rng.below(4))))
        if r == 9:
            return "(%s ? %s : %s)" % (bool_e(d - 1), num_e(d - 1), num_e(d - 1))
        if r == 10:
            return "(- %s)" % num_e(d - 1)
        return "(%s %s)" % (num_e(d - 1), rng.choice(["++", "--"]))
    def bool_e(d):
        r = rng.below(10)
        if d <= 0 or r < 2:
            return rng.choice(["true", "false", "b1"])
        if r < 4:
            return "(%s %s %s)" % (num_e(d - 1), rng.choice(["<", "<=", ">", ">=", "==", "!="]), num_e(d - 1))
        if r < 6:
            return "(%s %s %s)" % (bool_e(d - 1), rng.choice(["&&", "||"]), bool_e(d - 1))
        if r == 6:
            return "(%s %s)" % (rng.choice(["!", "not"]), bool_e(d - 1))
        if r == 7:
            return "(%s [%s])" % (rng.choice(["AND", "OR"]), ",".join(bool_e(d - 1) for _ in range(rng.below(4))))
        if r == 8:
            return "(%s in [%s])" % (num_e(d - 1), ",".join(num_e(d - 1) for _ in range(rng.below(4))))
        return "('%s' %s '%s')" % (rng.choice(["", "a", "ab", "é"]), rng.choice(["beginWith", "endWith"]), rng.choice(["", "a", "b", "é"]))
    def any_e(d):
        r = rng.below(8)
        if r < 3: return num_e(d)
        if r < 5: return bool_e(d)
        if r == 5: return "[%s]" % ",".join(any_e(d - 1) for _ in range(rng.below(3))) if d > 0 else "[]"
        if r == 6: return "{%s}" % ",".join("%s:%s" % (any_e(d - 1), any_e(d - 1)) for _ in range(rng.below(3))) if d > 0 else "{}"
        return rng.choice(["'s'", "unbound", "n1", "b1"])
    def ill(d):
        # ill-typed: put a value of the wrong type somewhere
        return "(%s %s %s)" % (any_e(d - 1), rng.choice(INFIX_OPS[11:]), any_e(d - 1))
    for i in range(count):
        k = rng.below(10)
        d = 1 + rng.below(3)
        if k < 5: e = num_e(d)
        elif k < 7: e = bool_e(d)
        elif k < 8: e = any_e(d)
        else: e = ill(d)
        if rng.chance(1, 4):
            e = "v = %s; w = v; [v, w, %s]" % (e, any_e(1))
        progs.append(e)
    return progs


def run_programs(c, progs, name, profiles=("debug",)):
    binds = [("n1", "v", n(25, 1)), ("n2", "v", n(4, 0, True)), ("b1", "v", b(True))]
    reqs = []
    for p in progs:
        reqs.append(ctx_line("c", binds))
        reqs.append(exec_line("c", p))
    model = run_model(reqs)
    ok_count = 0
    for prof in profiles:
        impl = run_impl(reqs, profile=prof, timeout=1200)
        st = Stream("%s (%s)" % (name, prof), reqs, impl, model)
        # layering rule: an AST mismatch is upstream (parser); count, do not attribute here
        st2 = []
        for i in st.disagreements:
            fa, fb = impl[i].split("\t"), model[i].split("\t")
            if len(fa) > 1 and len(fb) > 1 and fa[0] != fb[0] and reqs[i].startswith("EXEC"):
                continue
            st2.append(i)
        c.extra.setdefault("upstream_divergence", 0)
        c.extra["upstream_divergence"] += len(st.disagreements) - len(st2)
        st.disagreements = st2
        c.add_stream(st)
        for r, a in zip(reqs, impl):
            if outcome_class(a):
                c.violation("implementation-vs-property", "evaluation did not return Ok or Err (%s): %s" % (prof, outcome_class(a)),
                            {"request": r, "input_text": unhx(r.split("\t")[2]) if r.startswith("EXEC") else "", "implementation": a})
            if "\tOK " in a:
                ok_count += 1
    c.extra.setdefault("programs_ok_fraction", {})[name] = round(ok_count / max(1, len(progs) * len(profiles)), 3)


# =====================================================================================
def check_C06(c):
    c.prove(["EE.Props.C06"])
    rng = c.rng
    reqs, meta = [], []
    pool = NUM_POOL[:24] + [b(True), s("a"), l(n(1)), NONE]
    compound = ["+", "-", "*", "/", "%", "<<", ">>", "&", "^", "|"]
    # x op= e  ≡  x = x op e  ≡ value of (x op e), for all compound operators and operand pairs
    for op in compound:
        for a in pool:
            for bb in pool:
                for variant, text in (("compound", "x %s= e; x" % op), ("expanded", "x = x %s e; x" % op), ("plain", "x %s e" % op), ("yield", "x %s= e" % op)):
                    reqs.append(ctx_line("c", [("x", "v", a), ("e", "v", bb)]))
                    reqs.append(exec_line("c", text))
                    meta.append((op, variant))
    impl, model = both(reqs, timeout=1200)
    c.add_stream(Stream("compound assignment × operand pairs (with final context)", reqs, impl, model))
    for i in range(0, len(meta), 4):
        o = [outcome_of(impl[2 * (i + k) + 1]) for k in range(4)]
        comp, expd, plain, yld = o
        same = (comp[0] == expd[0] == plain[0]) and (comp[0] != "OK" or sexp_str(comp[1]) == sexp_str(expd[1]) == sexp_str(plain[1]))
        none_yield = yld[0] != "OK" or sexp_str(yld[1]) == "(none)"
        ctx_same = impl[2 * i + 1].split("\t")[2:3] == impl[2 * (i + 1) + 1].split("\t")[2:3]
        if not (same and none_yield and ctx_same):
            c.violation("implementation-vs-property", "`x %s= e` does not behave as `x = x %s e`" % (meta[i][0], meta[i][0]),
                        {"requests": reqs[2 * i: 2 * i + 8], "implementation": [impl[2 * (i + k) + 1] for k in range(4)]})
    # the same assignment written twice as the two operands of one operator (or as two list items) is performed twice, in
    # order — exactly like the two statements one after the other (metamorphic, implementation only; seeded change
    # C06-equal-operands-evaluated-once executed structurally equal operands once)
    treqs, tmeta = [], []
    for op in ["=", "+=", "-=", "*=", "<<=", "|="]:
        for rhs in ["1", "1.0", "2", "x", "x + 1", "y", "(y = 5)"]:
            for wrap in ["(%s) == (%s)", "(%s) != (%s)", "[(%s), (%s)]", "(%s) == nil && (%s) == nil", "(%s) == nil ? (%s) : 0"]:
                a_ = "x %s %s" % (op, rhs)
                for text in (wrap % (a_, a_) + "; [x, y]", "%s; %s; [x, y]" % (a_, a_)):
                    treqs.append(ctx_line("c", [("x", "v", n(3)), ("y", "v", n(2))]))
                    treqs.append(exec_line("c", text))
                tmeta.append((a_, wrap))
    timpl, tmodel = both(treqs, timeout=600)
    c.add_stream(Stream("one assignment written twice as the operands of one operator ≡ written as two statements", treqs, timpl, tmodel))
    for k, (a_, wrap) in enumerate(tmeta):
        o1, o2 = timpl[4 * k + 1], timpl[4 * k + 3]
        if o1.split("\t")[1:] != o2.split("\t")[1:]:
            c.violation("implementation-vs-property", "`%s` written twice in `%s` does not leave the context two such statements leave" % (a_, wrap),
                        {"requests": treqs[4 * k: 4 * k + 4], "implementation": [o1, o2]})
    # statement sequences: program order, value of last, None cases, non-name targets, failing statement at every position
    seqs = []
    names = ["x", "y", "z"]
    exprs = ["1", "x", "y + 1", "x * 2", "'s'", "true", "[x, y]", "unbound", "x = 5", "y = x = 3", "1/0", "f", "f()", "(x)", "z"]
    for _ in range(3000 if c.quick() else 60000):
        k = rng.below(5)
        stmts = []
        for _ in range(k):
            r = rng.below(11)
            if r == 10:
                # the *same* assignment written twice as the two operands of one operator (or twice in a list): both are
                # performed, in order (seeded change C06-equal-operands-evaluated-once executed equal operands once)
                a_ = "%s %s %s" % (rng.choice(names), rng.choice(["=", "+=", "-=", "*=", "<<="]), rng.choice(["1", "1.0", "x", "x + 1", "2"]))
                b_ = a_ if rng.chance(3, 4) else a_.replace("1", "2")
                stmts.append(rng.choice(["(%s) == (%s)", "(%s) != (%s)", "[(%s), (%s)]", "(%s) + (%s)", "(%s) == nil && (%s) == nil"]) % (a_, b_))
            elif r < 5:
                stmts.append("%s %s %s" % (rng.choice(names), rng.choice(["=", "=", "+=", "-=", "*=", "|=", "<<="]), rng.choice(exprs)))
            elif r < 8:
                stmts.append(rng.choice(exprs))
            elif r == 8:
                stmts.append("%s = %s" % (rng.choice(["1", "f()", "(x)", "[x]", "x + 1", "'s'"]), rng.choice(exprs)))
            else:
                stmts.append("%s = %s = %s" % (rng.choice(names), rng.choice(names), rng.choice(exprs)))
        seqs.append("; ".join(stmts) + (";" if stmts and rng.chance(1, 4) else ""))
    sreqs = []
    for p in seqs:
        sreqs.append(ctx_line("c", [("x", "v", n(2)), ("f", "f", ["log", "66", ["const", n(7)]])]))
        sreqs.append(exec_line("c", p))
        sreqs.append("GETVAR\tc\t" + hx("x"))
        sreqs.append("GETVAR\tc\t" + hx("y"))
    impl2, model2 = both(sreqs, timeout=1200)
    c.add_stream(Stream("statement sequences with final context and follow-up reads", sreqs, impl2, model2))
    # compound assignment ≡ its expansion also when the right side itself rebinds the target or calls a function, and
    # when the target name is bound to a *function* in the supplied context (the assignment must replace that binding)
    rhs_pool = ["1", "y", "(x = 10) == nil ? 100 : 200", "f()", "(y = x)", "[x, (x = 7)]", "(x = 's')", "x = 4", "g", "g + 1", "(g = 3)"]
    ereqs, emeta = [], []
    bindings = [[("x", "v", n(2)), ("f", "f", ["const", n(7)])], [("x", "v", n(2)), ("g", "f", ["const", n(3)]), ("f", "f", ["const", n(7)])]]
    for tgt in ["x", "g", "f"]:
        for op in ["+", "-", "*", "|", "<<"]:
            for rhs in rhs_pool:
                rhs_t = rhs.replace("x", tgt) if tgt != "x" else rhs
                for bi, bnd in enumerate(bindings):
                    for variant, text in (("compound", "%s %s= (%s); [%s, y]" % (tgt, op, rhs_t, tgt)), ("expanded", "%s = %s %s (%s); [%s, y]" % (tgt, tgt, op, rhs_t, tgt))):
                        ereqs.append(ctx_line("c", bnd))
                        ereqs.append(exec_line("c", text))
                        ereqs.append("GETVAR\tc\t" + hx(tgt))
                    emeta.append((tgt, op, rhs_t, bi))
    ei, em = both(ereqs, timeout=1200)
    c.add_stream(Stream("compound ≡ expansion with side-effecting right sides and function-bound targets", ereqs, ei, em))
    for k, (tgt, op, rhs_t, bi) in enumerate(emeta):
        a_, b_ = ei[6 * k + 1:6 * k + 3], ei[6 * k + 4:6 * k + 6]
        if [x_.split("\t")[1:] for x_ in a_] != [x_.split("\t")[1:] for x_ in b_]:
            c.violation("implementation-vs-property", "`%s %s= e` does not behave as `%s = %s %s e`" % (tgt, op, tgt, tgt, op),
                        {"requests": ereqs[6 * k:6 * k + 6], "implementation": ei[6 * k:6 * k + 6]})
    # a plain assignment replaces whatever the name was bound to, a function included
    for tgt in ["g", "f"]:
        rq = [ctx_line("c", bindings[1]), exec_line("c", "%s = 10; %s + 1" % (tgt, tgt)), "GETVAR\tc\t" + hx(tgt)]
        ri, rm = both(rq)
        c.add_stream(Stream("assignment over a function binding", rq, ri, rm))
        oc = outcome_of(ri[1])
        if not (oc[0] == "OK" and sexp_str(oc[1]) == "(n 0 11 0)") or "(n 0 10 0)" not in ri[2]:
            c.violation("implementation-vs-property", "assignment to a name bound to a function did not rebind it", {"requests": rq, "implementation": ri})
    # a name that was never bound reads as None *whatever it is spelled like*: the names of the built-in functions and of a
    # function registered earlier in the process are ordinary unbound names when read without a call
    ureqs = ["REG\tfn\t%s\t0\tcalc\tleft\t%s" % (hx("regd"), sexp_str(["const", n(9)]))]
    umeta = []
    for nm in ["sum", "mul", "min", "max", "regd", "nobody"]:
        for text in ("%s" % nm, "x = 1; x = %s; x" % nm, "[%s, 1]" % nm, "%s == nil" % nm, "%s += 1; %s" % (nm, nm), "%s = 4; %s" % (nm, nm)):
            ureqs.append("CTX\tc\t()")
            ureqs.append(exec_line("c", text))
            ureqs.append("GETVAR\tc\t" + hx(nm))
            umeta.append((nm, text))
    ui, um = both(ureqs, timeout=600)
    c.add_stream(Stream("unbound names spelled like registered functions", ureqs, ui, um))
    for k, (nm, text) in enumerate(umeta):
        oc = outcome_of(ui[3 * k + 2])
        exp = {"%s" % nm: "(none)", "x = 1; x = %s; x" % nm: "(none)", "[%s, 1]" % nm: "(l (none) (n 0 1 0))", "%s == nil" % nm: "(b 1)", "%s = 4; %s" % (nm, nm): "(n 0 4 0)"}.get(text)
        if exp is None:
            bad = oc[0] == "OK"        # None += 1 fails exactly as None + 1 does
        else:
            bad = not (oc[0] == "OK" and sexp_str(oc[1]) == exp)
        if bad:
            c.violation("implementation-vs-property", "a name that was never bound does not read as None", {"input_text": text, "expected": exp or "error", "requests": ureqs[:1] + ureqs[3 * k + 1:3 * k + 4], "implementation": ui[3 * k + 2]})
    # fixed corpus with expectations stated by the property
    corpus = [("", "(none)"), ("x = 1", "(none)"), ("unbound", "(none)"), ("x = 1; x", "(n 0 1 0)"), ("x = 1; y = x + 1; x = y * 2; x", "(n 0 4 0)"),
              ("a = b = 3; [a, b]", "(l (none) (n 0 3 0))"), ("1; 2; 3", "(n 0 3 0)"), ("x = 1; x = 's'; x", "(s 73)"),
              # the `;` between statements may be omitted: every statement still runs, the value is the last one's
              ("x = 1\ny = x + 1\ny += 10;\nz = y\n[x, y, z]", "(l (n 0 1 0) (n 0 12 0) (n 0 12 0))"), ("a = 2; a *= 3 b = a; b", "(n 0 6 0)"), ("1 2 3", "(n 0 3 0)"),
              ("a = 5; a = b = 1; [a, b]", "(l (none) (n 0 1 0))"), ("x = 3; x = nothing; x", "(none)"),
              # only `true`, `True`, `false`, `False` are literals: every other spelling is an ordinary name
              ("TRUE = 5; TRUE", "(n 0 5 0)"), ("x = FALSE; x", "(none)"), ("tRuE = 1; tRuE += 2; tRuE", "(n 0 3 0)"), ("FALSE = true; [FALSE, false]", "(l (b 1) (b 0))"),
              # assignments inside an operand are made whatever the other operand is (`&&`, `||` evaluate both sides)
              ("x = 1; r = false && [x = 2] == [y]; [x, r]", "(l (n 0 2 0) (b 0))"), ("n = 10; ok = true || [n <<= 2] == [n -= 1]; n", "(n 0 39 0)")]
    cr = []
    for p, _ in corpus:
        cr.append("CTX\tc\t()")
        cr.append(exec_line("c", p))
    ic, mc = both(cr)
    c.add_stream(Stream("assignment corpus", cr, ic, mc))
    for (p, exp), i in zip(corpus, range(len(corpus))):
        oc = outcome_of(ic[2 * i + 1])
        if not (oc[0] == "OK" and sexp_str(oc[1]) == exp):
            c.violation("implementation-vs-property", "assignment semantics", {"input_text": p, "expected": exp, "implementation": ic[2 * i + 1]})
    # a failing statement keeps the bindings made so far — also those made inside the arguments of a call that then fails
    # (unknown function) and by the inner assignment of a chain (assignment operators group right to left)
    fcases = [("nosuch(x = 1)", {"x": "(n 0 1 0)"}), ("c = 10; nosuch(a += 1, b = a * 5); c = 20", {"a": "(n 0 2 0)", "b": "(n 0 10 0)", "c": "(n 0 10 0)"}),
              ("x |= y = 4", {"x": "(n 0 1 0)", "y": "(n 0 4 0)"}), ("x <<= y <<= 1", {"x": "(n 0 1 0)", "y": "(n 0 4 0)"}),
              ("x += y -= nosuch(z = 7)", {"x": "(n 0 1 0)", "y": "(n 0 2 0)", "z": "(n 0 7 0)"})]
    fq = []
    for p, exp in fcases:
        fq += [ctx_line("c", [("x", "v", n(1)), ("y", "v", n(2)), ("a", "v", n(1))]), exec_line("c", p)] + ["GETVAR\tc\t" + hx(k_) for k_ in sorted(exp)]
    fi, fm = both(fq)
    c.add_stream(Stream("failing statements: bindings made before the failure stay", fq, fi, fm))
    pos = 0
    for p, exp in fcases:
        oc = outcome_of(fi[pos + 1])
        got = {k_: fi[pos + 2 + j] for j, k_ in enumerate(sorted(exp))}
        if oc[0] != "ERR" or any(norm_numbers(exp[k_]) not in norm_numbers(got[k_]) for k_ in exp):
            c.violation("implementation-vs-property", "after a failing statement the context does not hold exactly the bindings made so far",
                        {"input_text": p, "expected_bindings": exp, "requests": fq[pos:pos + 2 + len(exp)], "implementation": fi[pos:pos + 2 + len(exp)]})
        pos += 2 + len(exp)
    for p in ["1 = 2", "f() = 1", "(x) = 1", "[x] = 1", "x + 1 = 2", "'s' = 1", "1 += 2"]:
        im = run_impl(["CTX\tc\t((%s f (const (n 0 1 0))))" % hx("f"), exec_line("c", p)])
        if p == "(x) = 1":
            continue  # parentheses return the inner node: `(x)` *is* the plain name x
        if not im[1].split("\t")[1].startswith("ERR"):
            c.violation("implementation-vs-property", "assignment to a non-name target did not fail", {"input_text": p, "implementation": im[1]})
    return c.finish(trusted=TB_COMMON, rule="all 10 compound operators × %d² operand pairs in 4 forms (compound, expanded, plain, yielded value) + random statement sequences (plain/compound/chained/non-name targets, failing statements) with final-context dumps and follow-up reads" % len(pool))


# =====================================================================================
class TraceGen:
    """Random trees whose leaves are observable context functions; knows the expected call log."""
    def __init__(self, rng):
        self.rng = rng
        self.k = 0
        self.binds = []     # (name, script)
        self.fault = None

    def leaf(self, value):
        self.k += 1
        name = "L%d" % self.k
        self.binds.append([name, value])
        return name

    def num(self, d):
        r = self.rng.below(10)
        if d <= 0 or r < 3:
            v = n(self.rng.below(9) + 1)
            nm = self.leaf(v)
            return (nm + "()" if self.rng.chance(1, 2) else nm), [(nm, [])], v
        if r < 6:
            a, la, va = self.num(d - 1)
            bb, lb, vb = self.num(d - 1)
            return "(%s + %s)" % (a, bb), la + lb, S.infix("+", va, vb)
        if r < 8:
            cnd, lc, vc = self.boolean(d - 1)
            a, la, va = self.num(d - 1)
            bb, lb, vb = self.num(d - 1)
            taken = (la, va) if vc[1] == "1" else (lb, vb)
            return "(%s ? %s : %s)" % (cnd, a, bb), lc + taken[0], taken[1]
        # call with arguments: arguments first, then the call
        args = [self.num(d - 1) for _ in range(self.rng.below(3))]
        v = n(self.rng.below(9) + 1)
        nm = self.leaf(v)
        return "%s(%s)" % (nm, ", ".join(a[0] for a in args)), sum((a[1] for a in args), []) + [(nm, [a[2] for a in args])], v

    def boolean(self, d):
        r = self.rng.below(6)
        if d <= 0 or r < 2:
            v = b(self.rng.chance(1, 2))
            nm = self.leaf(v)
            return nm + "()", [(nm, [])], v
        if r < 4:
            a, la, va = self.num(d - 1)
            bb, lb, vb = self.num(d - 1)
            return "(%s == %s)" % (a, bb), la + lb, S.infix("==", va, vb)
        a, la, va = self.boolean(d - 1)
        bb, lb, vb = self.boolean(d - 1)
        return "(%s && %s)" % (a, bb), la + lb, S.infix("&&", va, vb)

    def top(self, d):
        r = self.rng.below(6)
        if r == 0:
            items = [self.num(d - 1) for _ in range(1 + self.rng.below(3))]
            return "[%s]" % ", ".join(i[0] for i in items), sum((i[1] for i in items), []), ["l"] + [i[2] for i in items]
        if r == 1:
            items = [(self.num(d - 1), self.num(d - 1)) for _ in range(1 + self.rng.below(2))]
            return ("{%s}" % ", ".join("%s: %s" % (k[0], v[0]) for k, v in items), sum((k[1] + v[1] for k, v in items), []),
                    ["m"] + [[k[2], v[2]] for k, v in items])
        if r == 2:
            items = [self.num(d - 1) for _ in range(2 + self.rng.below(2))]
            return "; ".join(i[0] for i in items), sum((i[1] for i in items), []), items[-1][2]
        if r == 3:
            a, la, va = self.num(d - 1)
            bb, lb, vb = self.num(d - 1)
            return "t = %s; u = t + %s; u" % (a, bb), la + lb, S.infix("+", va, vb)
        return self.num(d)


def check_C07(c):
    c.prove(["EE.Props.C07"])
    rng = c.rng
    reqs, meta = [], []
    N = 1500 if c.quick() else 30000
    for _ in range(N):
        tg = TraceGen(rng)
        text, log, val = tg.top(2 + rng.below(3))
        # no fault, then a fault at every position of the expected log (if ≤ 8 calls), Err and panic
        variants = [(None, None)]
        if len(log) <= 8:
            variants += [(k, kind_) for k in range(len(log)) for kind_ in ("err", "panic")]
        for k, kind_ in variants:
            binds = []
            fault_name = log[k][0] if k is not None else None
            # a leaf may be called once only in these trees, so position k ↔ leaf name
            for nm, v in tg.binds:
                script = ["log", hx(nm), [kind_] if nm == fault_name else ["const", v]]
                binds.append((nm, "f", script))
            reqs.append(ctx_line("c", binds))
            reqs.append(exec_line("c", text))
            meta.append((text, log, val, k, kind_))
    impl, model = both(reqs, timeout=1200)
    c.add_stream(Stream("logging-leaf trees, fault at every position", reqs, impl, model))
    for i, (text, log, val, k, kind_) in enumerate(meta):
        line = impl[2 * i + 1]
        f = line.split("\t")
        if len(f) < 4:
            c.violation("implementation-vs-property", "no result", {"requests": reqs[2 * i:2 * i + 2], "implementation": line})
            continue
        exp_log = log if k is None else log[:k + 1]
        exp_log_s = "(" + " ".join("(" + " ".join([hx(nm)] + [norm_numbers(sexp_str(a)) for a in args]) + ")" for nm, args in exp_log) + ")"
        got_log = norm_numbers(f[3])
        oc = outcome_of(line)
        if k is None:
            ok = oc[0] == "OK" and sexp_str(oc[1]) == norm_numbers(sexp_str(val)) and got_log == exp_log_s
        else:
            ok = oc[0] == ("ERR" if kind_ == "err" else "PANIC") and got_log == exp_log_s
        if not ok:
            c.violation("implementation-vs-property", "evaluation order / laziness / stop-at-first-error: call log differs from the syntactic order",
                        {"input_text": text, "fault_at": k, "fault_kind": kind_, "expected_log": exp_log_s, "implementation_log": got_log,
                         "expected_value": sexp_str(val), "implementation": line[:300], "requests": reqs[2 * i:2 * i + 2]})
    # the same rule at the two places where an operand is easy to forget: the arguments of a call to a name that is bound
    # nowhere (they are evaluated, then the call fails), and the left side of an assignment (a bare name bound to a context
    # function is called, once, before the right side)
    def L(nm, *args): return (nm, list(args))
    one = n(1)
    templ = [("nowhere(A(), B(A2()))", [L("A"), L("A2"), L("B", one)], "ERR"),
             ("[A(), nowhere(B(), A2()), B2()]", [L("A"), L("B"), L("A2")], "ERR"),
             ("A = B()", [L("A"), L("B")], "OK"), ("A += B()", [L("A"), L("B")], "OK"), ("x = A; A = B(); A", [L("A"), L("A"), L("B")], "OK"),
             ("[B(), A = B2(), A2()]", [L("B"), L("A"), L("B2"), L("A2")], "OK"), ("A = (B = A2())", [L("A"), L("B"), L("A2")], "OK"),
             ("A2(A = 1, B())", [L("A"), L("B"), L("A2", ["none"], one)], "OK"), ("A <<= B()", [L("A"), L("B")], "OK"),
             ("true ? (A = B()) : A2()", [L("A"), L("B")], "OK"), ("nowhere()", [], "ERR"), ("nowhere(1/0, A())", [], "ERR"),
             # every occurrence is evaluated, also of an operand / key / element that is written twice
             ("{A(): B(), A(): B2()}", [L("A"), L("B"), L("A"), L("B2")], "OK"), ("{1: A(), 2: B(), 1: A2()}", [L("A"), L("B"), L("A2")], "OK"),
             ("{'k': A(), 'k': A()}", [L("A"), L("A")], "OK"), ("[A(), A(), A()]", [L("A"), L("A"), L("A")], "OK"), ("A() + A() * A()", [L("A"), L("A"), L("A")], "OK"),
             ("B(A(), A())", [L("A"), L("A"), L("B", one, one)], "OK"), ("x = A; y = A; [A, A]", [L("A"), L("A"), L("A"), L("A")], "OK"),
             ("true ? A() : A(); false ? A() : A()", [L("A"), L("A")], "OK"),
             # a statement without any name or call is evaluated like every other: its failure stops the program
             ("1 / 0; A(); B()", [], "ERR"), ("A(); 1 + true; B()", [L("A")], "ERR"), ("A(); [1, 1 << 64]; B()", [L("A")], "ERR"),
             ("A(); {1: 5 % 0}; B()", [L("A")], "ERR"), ("A(); true ? - 's' : 2; B()", [L("A")], "ERR"), ("A(); 1 + 2; B()", [L("A"), L("B")], "OK"),
             # operands of a right-nested chain of one operator run left to right like any others
             ("A() - (B() - A2())", [L("A"), L("B"), L("A2")], "OK"), ("A() - (B() - (A2() - B2()))", [L("A"), L("B"), L("A2"), L("B2")], "OK"),
             ("x = y = A() + (B() + A2())", [L("A"), L("B"), L("A2")], "OK"),
             # a name and its `(` may be separated by any white space: still one call, made after its argument
             ("A\n(B())", [L("B"), L("A", one)], "OK"), ("x = A\t (B(), A2())", [L("B"), L("A2"), L("A", one, one)], "OK"), ("A\r\n(\nB()\n)", [L("B"), L("A", one)], "OK"),
             # both branches are leaves: still only the selected one is evaluated (a bare name bound to a function is a call)
             ("true ? A : B", [L("A")], "OK"), ("false ? A : B", [L("B")], "OK"), ("x = (true ? A : B); x", [L("A")], "OK")]
    treqs = []
    for text, log, oc_ in templ:
        binds = [(nm, "f", ["log", hx(nm), ["const", one]]) for nm in ("A", "A2", "B", "B2")]
        treqs += [ctx_line("c", binds), exec_line("c", text)]
    ti, tm = both(treqs)
    c.add_stream(Stream("unbound callee / assignment target / repeated operand templates", treqs, ti, tm))
    for j, (text, log, oc_) in enumerate(templ):
        line = ti[2 * j + 1]
        f = line.split("\t")
        exp_log_s = "(" + " ".join("(" + " ".join([hx(nm)] + [norm_numbers(sexp_str(a)) for a in args]) + ")" for nm, args in log) + ")"
        got_log = norm_numbers(f[3]) if len(f) > 3 else "?"
        if outcome_of(line)[0] != oc_ or got_log != exp_log_s:
            c.violation("implementation-vs-property", "evaluation order: every operand once, left to right — also the arguments of a call that then fails and the left side of an assignment",
                        {"input_text": text, "expected_log": exp_log_s, "expected_outcome": oc_, "implementation": line[:300], "requests": treqs[2 * j:2 * j + 2]})
    return c.finish(trusted=TB_COMMON, rule="random trees (operands, call arguments, list elements, map entries, statements, assignments, conditionals) whose leaves are logging context functions; no fault + Err and panic injected at every call position (trees with ≤ 8 calls); oracle: call log = syntactic left-to-right order with only the selected branch, truncated at the fault")


# =====================================================================================
def check_C15(c):
    c.prove(["EE.Props.C15"])
    rng = c.rng
    reqs, meta = [], []
    N = 600 if c.quick() else 12000
    kinds = ["ctxcall", "ctxbare", "global", "prefix", "infix", "postfix", "setter"]
    for it in range(N):
        # a program with one handler of each kind; fault injected in one of them, Err or panic
        fk = kinds[it % 7]
        kind_ = "err" if (it // 7) % 2 == 0 else "panic"
        def sc(tag, faulty, ok):
            return ["log", hx(tag), [kind_] if faulty else ok]
        pre = [
            "REG\tfn\t%s\t0\tcalc\tleft\t%s" % (hx("gg"), sexp_str(sc("gg", fk == "global", ["const", n(3)]))),
            "REG\tprefix\t%s\t0\tcalc\tleft\t%s" % (hx("pp"), sexp_str(sc("pp", fk == "prefix", ["arg", "0"]))),
            "REG\tinfix\t%s\t105\tcalc\tleft\t%s" % (hx("ii"), sexp_str(sc("ii", fk == "infix", ["arg", "0"]))),
            "REG\tpostfix\t%s\t0\tcalc\tleft\t%s" % (hx("qq"), sexp_str(sc("qq", fk == "postfix", ["arg", "0"]))),
            # an assignment-type (SETTER) infix operator: its handler computes the value stored under the left name
            "REG\tinfix\t%s\t25\tsetter\tright\t%s" % (hx("ss"), sexp_str(sc("ss", fk == "setter", ["arg", "1"]))),
        ]
        binds = [("fc", "f", sc("fc", fk == "ctxcall", ["const", n(1)])), ("fb", "f", sc("fb", fk == "ctxbare", ["const", n(2)])), ("v", "v", n(9))]
        order = rng.below(3)
        prog = ["w = 1; [fc(), fb, gg(), pp 4, 5 ii 6, 7 qq]; u ss 3; w = 2", "w = 1; x = fb + fc() ; y = (pp gg()) ii (8 qq) ; u ss y ; w = 2",
                "w = 1; {fc(): fb, gg(): pp 1}; z = 2 ii 3 qq ; u ss (z ss 4) ; w = 2"][order]
        block = pre + [ctx_line("c", binds), ctx_line("d", [("v", "v", n(1))]), exec_line("c", prog),
                       "GETVAR\tc\t" + hx("v"), "GETVAR\tc\t" + hx("w"), exec_line("c", "v + 1"), exec_line("d", "v + gg()" if fk != "global" else "v + 1"),
                       exec_line("c", "fc() + fb" if fk not in ("ctxcall", "ctxbare") else "v"),
                       # … and the registries are as usable as before: other global functions and operators still answer
                       exec_line("d", "sum(1, 2) + max(3, 4) - (- 1) + 1 ++")]
        meta.append((len(reqs), len(pre), fk, kind_, prog))
        reqs += block
    impl, model = both(reqs, timeout=1200)
    c.add_stream(Stream("fault injection per handler kind with follow-ups on the same and another context", reqs, impl, model))
    for off, npre, fk, kind_, prog in meta:
        base = off + npre + 2
        faulted = impl[base]
        oc = outcome_of(faulted)
        want = "ERR" if kind_ == "err" else "PANIC"
        fol = impl[base + 1: base + 7]
        ok = oc[0] == want and fol[0] == "OK (n 0 9 0)" and fol[1] == "OK (n 0 1 0)" and all("\tOK " in x for x in fol[2:5]) and "\tOK (n 0 10 0)" in fol[5]
        # nothing after the failing handler ran: the log ends with the faulty tag
        logf = faulted.split("\t")[3] if len(faulted.split("\t")) > 3 else ""
        tag = {"ctxcall": "fc", "ctxbare": "fb", "global": "gg", "prefix": "pp", "infix": "ii", "postfix": "qq", "setter": "ss"}[fk]
        last = sexp_parse(logf)[-1][0] if logf not in ("", "()") and sexp_parse(logf) else None
        if last != hx(tag):
            ok = False
        # the context still binds both context functions afterwards (a failing function is not unbound)
        dump = fol[2].split("\t")[2] if len(fol[2].split("\t")) > 2 else ""
        if "(%s f)" % hx("fc") not in dump or "(%s f)" % hx("fb") not in dump:
            ok = False
        if not ok:
            c.violation("implementation-vs-property", "a failing/panicking %s handler was not contained (%s)" % (fk, kind_),
                        {"requests": reqs[off: base + 7], "implementation": impl[off: base + 7], "input_text": prog})
    # a failing context function that shadows a same-named global (a registered one, or a built-in): its failure is the
    # evaluation's failure — the shadowed global is not tried instead, nothing later runs
    sreqs, smeta = [], []
    for kind_ in ("err", "panic"):
        for nm, prog in [("gg", "w = 1; x = gg(4) + 1; w = 2"), ("sum", "w = 1; x = sum(1, 2); w = 2"), ("max", "w = 1; [max(1, 2), hh()]; w = 2"),
                         ("gg", "w = 1; x = hh() + gg() + hh(); w = 2")]:
            blk = ["REG\tfn\t%s\t0\tcalc\tleft\t%s" % (hx("gg"), sexp_str(["log", hx("global-gg"), ["const", n(3)]])),
                   "REG\tfn\t%s\t0\tcalc\tleft\t%s" % (hx("hh"), sexp_str(["log", hx("hh"), ["const", n(5)]])),
                   ctx_line("c", [(nm, "f", ["log", hx("shadow"), [kind_]]), ("v", "v", n(9))]), exec_line("c", prog), "GETVAR\tc\t" + hx("w"), "GETVAR\tc\t" + hx("x")]
            smeta.append((len(sreqs), kind_, nm, prog))
            sreqs += blk
    si, sm = both(sreqs, timeout=600)
    c.add_stream(Stream("failing context function shadowing a global of the same name", sreqs, si, sm))
    for off, kind_, nm, prog in smeta:
        line = si[off + 3]
        oc = outcome_of(line)
        logf = line.split("\t")[3] if len(line.split("\t")) > 3 else ""
        last = sexp_parse(logf)[-1][0] if logf not in ("", "()") and sexp_parse(logf) else None
        if not (oc[0] == ("ERR" if kind_ == "err" else "PANIC") and last == hx("shadow") and si[off + 4] == "OK (n 0 1 0)" and "(n " not in si[off + 5]):
            c.violation("implementation-vs-property", "a failing/panicking context function shadowing global `%s` was not contained (%s)" % (nm, kind_),
                        {"requests": sreqs[off: off + 6], "implementation": si[off: off + 6], "input_text": prog})
    # a handler that fails the way a real one does — with the engine's "should be a number" error — on an operand that is a
    # numeric *string*: the failure is final, the handler is not tried again on a converted operand, nothing later runs
    nreqs, nmeta = [], []
    for kind_, prog, tag in [("prefix", "w = 1; x = pp '7'; w = 2", "pp"), ("postfix", "w = 1; x = '7' qq ; w = 2", "qq"), ("infix", "w = 1; x = ['7' ii 1, hh()]; w = 2", "ii"),
                             ("infix", "w = 1; x = 1 ii ' 2.50 '; w = 2", "ii"), ("setter", "w = 1; t = 1; t ss '7'; w = 2", "ss"), ("global", "w = 1; x = gg('-1'); w = 2", "gg"),
                             ("ctxcall", "w = 1; x = fc('7') + hh(); w = 2", "fc")]:
        sc_ = ["log", hx(tag), ["errnum"]]
        blk = ["REG\tfn\t%s\t0\tcalc\tleft\t%s" % (hx("gg"), sexp_str(sc_ if tag == "gg" else ["const", n(3)])),
               "REG\tfn\t%s\t0\tcalc\tleft\t%s" % (hx("hh"), sexp_str(["log", hx("hh"), ["const", n(5)]])),
               "REG\tprefix\t%s\t0\tcalc\tleft\t%s" % (hx("pp"), sexp_str(sc_ if tag == "pp" else ["arg", "0"])),
               "REG\tinfix\t%s\t105\tcalc\tleft\t%s" % (hx("ii"), sexp_str(sc_ if tag == "ii" else ["arg", "0"])),
               "REG\tpostfix\t%s\t0\tcalc\tleft\t%s" % (hx("qq"), sexp_str(sc_ if tag == "qq" else ["arg", "0"])),
               "REG\tinfix\t%s\t25\tsetter\tright\t%s" % (hx("ss"), sexp_str(sc_ if tag == "ss" else ["arg", "1"])),
               ctx_line("c", [("fc", "f", sc_ if tag == "fc" else ["const", n(1)])]), exec_line("c", prog), "GETVAR\tc\t" + hx("w"), "GETVAR\tc\t" + hx("t")]
        nmeta.append((len(nreqs), kind_, tag, prog))
        nreqs += blk
    ni, nm = both(nreqs, timeout=600)
    c.add_stream(Stream("handlers failing with the engine's number error on numeric-string operands", nreqs, ni, nm))
    for off, kind_, tag, prog in nmeta:
        line = ni[off + 7]
        oc = outcome_of(line)
        logf = line.split("\t")[3] if len(line.split("\t")) > 3 else ""
        entries = sexp_parse(logf) if logf not in ("", "()") else []
        calls = [e_[0] for e_ in (entries or [])]
        if not (oc[0] == "ERR" and calls.count(hx(tag)) == 1 and calls[-1] == hx(tag) and ni[off + 8] == "OK (n 0 1 0)" and "(n 0 7 0)" not in ni[off + 9]):
            c.violation("implementation-vs-property", "a %s handler that failed was invoked again / the evaluation went on" % kind_,
                        {"requests": nreqs[off: off + 10], "implementation": ni[off: off + 10], "input_text": prog})
    return c.finish(trusted=TB_COMMON + ["std::sync::Mutex poisoning semantics as documented"],
                    rule="programs invoking seven handler kinds (context function by call / by bare name, global function, prefix, infix, postfix operator, assignment-type infix operator); Err and panic injected into each kind in turn; follow-ups: get_variable and a second exec on the same context, exec on another context; oracle: outcome Err/unwind, call log ends at the faulty handler, follow-ups succeed with the values of the stopped evaluation")


# =====================================================================================
def check_C14(c):
    c.prove(["EE.Props.C14"])
    rng = c.rng
    actions = [("parse", ["parse", hx("1 + g2() * [a]")]), ("exec", ["exec", hx("1 + 2 * 3")]),
               ("regfn", ["reg", "fn", hx("newf"), "0", "calc", "left", ["const", n(1)]]),
               ("regprefix", ["reg", "prefix", hx("newp"), "0", "calc", "left", ["arg", "0"]]),
               ("reginfix", ["reg", "infix", hx("newi"), "95", "calc", "left", ["arg", "0"]]),
               ("regpostfix", ["reg", "postfix", hx("newq"), "0", "calc", "left", ["arg", "0"]]),
               ("lockctx", ["lockctx"]),
               ("nested2", ["exec", hx("g2() + 1")]), ("nested3", ["exec", hx("g3()")]),
               # re-entry forty evaluations deep (r40 evaluates r39() + 1, … r0 is a constant): "at any nesting depth"
               ("nested40", ["exec", hx("r40()")])]
    kinds = ["ctxcall", "ctxbare", "global", "prefix", "infix", "postfix", "setter"]
    reqs, meta = [], []
    for kind_ in kinds:
        for aname, act in actions:
            if aname == "lockctx" and kind_ not in ("ctxcall", "ctxbare"):
                continue
            script = ["seq", act, ["const", n(5)]]
            pre = ["REG\tfn\t%s\t0\tcalc\tleft\t%s" % (hx("g2"), sexp_str(["exec", hx("1 + 1")])),
                   "REG\tfn\t%s\t0\tcalc\tleft\t%s" % (hx("g3"), sexp_str(["exec", hx("g2() * 2")]))]
            if aname == "nested40":
                pre.append("REG\tfn\t%s\t0\tcalc\tleft\t%s" % (hx("r0"), sexp_str(["const", n(0)])))
                pre += ["REG\tfn\t%s\t0\tcalc\tleft\t%s" % (hx("r%d" % k_), sexp_str(["exec", hx("r%d() + 1" % (k_ - 1))])) for k_ in range(1, 41)]
            binds = [("a", "v", n(1))]
            if kind_ in ("ctxcall", "ctxbare"):
                binds.append(("h", "f", script))
                prog = "h() + 1" if kind_ == "ctxcall" else "h + 1"
                progs = [prog, "x = " + ("h()" if kind_ == "ctxcall" else "h"), "[%s, %s]" % (("h()", "h()") if kind_ == "ctxcall" else ("h", "h"))]
                if kind_ == "ctxcall":
                    progs.append("h(h(), h(1))")
            elif kind_ == "global":
                pre.append("REG\tfn\t%s\t0\tcalc\tleft\t%s" % (hx("hh"), sexp_str(script)))
                progs = ["hh() + 1", "x = hh(a)", "[hh(), hh()]", "hh(hh(), max(hh(), 1))"]
            elif kind_ == "prefix":
                pre.append("REG\tprefix\t%s\t0\tcalc\tleft\t%s" % (hx("hp"), sexp_str(script)))
                progs = ["hp 1", "x = hp a", "[hp 1, hp 2]", "hp hp 1", "- hp + hp a"]
            elif kind_ == "infix":
                pre.append("REG\tinfix\t%s\t105\tcalc\tleft\t%s" % (hx("hi"), sexp_str(script)))
                progs = ["1 hi 2", "x = a hi 2", "1 hi 2 hi 3", "1 + 2 hi 3 * 4 hi (5 hi 6)"]
            elif kind_ == "setter":
                pre.append("REG\tinfix\t%s\t25\tsetter\tright\t%s" % (hx("hs"), sexp_str(script)))
                progs = ["a hs 2", "x = 1; x hs a; x", "a hs 2; a hs 3; a"]
            else:
                pre.append("REG\tpostfix\t%s\t0\tcalc\tleft\t%s" % (hx("hq"), sexp_str(script)))
                # chains: a handler applied to the result of another operator of its own kind (built-in or itself)
                progs = ["1 hq", "x = a hq", "[1 hq , 2 hq]", "1 hq hq", "a ++ hq", "a hq -- hq ++"]
            for p in progs:
                block = pre + [ctx_line("c", binds), exec_line("c", p, w=True)]
                meta.append((len(reqs), len(block), kind_, aname, p))
                reqs.append(block)
    # each cell in its own process (a deadlock ends the process)
    n_cells = 0
    confirmed = 0
    for (off, ln, kind_, aname, p), block in zip(meta, reqs):
        impl = run_impl(block, flush=True, timeout=60)
        if impl and "DEADLOCK" in impl[-1] and confirmed < 3:
            # the watchdog (3 s) fired: make sure it was not a slow machine — once more with a 20 s watchdog (only for the
            # first few cells: a tree that really deadlocks does so in many)
            impl = run_impl(block, flush=True, timeout=90, watchdog_ms=20000)
            if impl and "DEADLOCK" in impl[-1]:
                confirmed += 1
        model = run_model(block)
        st = Stream("re-entrancy cell %s × %s" % (kind_, aname), block, impl, model)
        n_cells += 1
        for r in block:
            c.count(r + kind_ + aname)
        if st.disagreements:
            for i in st.disagreements:
                c.violation("model-vs-implementation", "re-entrancy cell %s × %s" % (kind_, aname), {"requests": block, "implementation": impl, "model": model})
        last = impl[-1] if impl else "MISSING"
        if "DEADLOCK" in last or outcome_class(last) or not ("\tOK " in last):
            c.violation("implementation-vs-property", "handler (%s) re-entering the engine (%s): outer evaluation did not complete normally" % (kind_, aname),
                        {"requests": block, "implementation": impl, "input_text": p})
    c.streams.append({"stream": "re-entrancy matrix (one process per cell, 3 s watchdog)", "requests": sum(len(b_) for b_ in reqs), "disagreements": 0,
                      "unmodelled_skipped": 0, "informational_error_kind_drift": 0, "cells": n_cells})
    c.sample({"cell": meta[0][2:], "requests": reqs[0]})
    return c.finish(trusted=TB_COMMON, rule="6 handler kinds × 9 re-entrant actions (parse, execute, register_function/prefix/infix/postfix, locking the evaluating context's handle, nested re-entry depth 2 and 3) × 3–6 program shapes (single use, assignment, repeated use, chains of the same kind), each on a worker thread under a watchdog in its own process; oracle: completes with the normal result")


# =====================================================================================
def check_C08(c):
    c.prove(["EE.Props.C08"])
    rng = c.rng
    table = G.documented_table()
    # (1) dispatch and last-registration-wins histories
    hist = []
    def reg(kind_, name, script, prec=100, assoc="left"):
        return "REG\t%s\t%s\t%d\tcalc\t%s\t%s" % (kind_, hx(name), prec, assoc, sexp_str(script))
    const = lambda k: ["const", n(abs(k), 0, k < 0)]
    H = [
        [reg("fn", "g", const(1)), "CTX\tc\t()", exec_line("c", "g()"), reg("fn", "g", const(2)), exec_line("c", "g()"), reg("fn", "g", const(3)), reg("fn", "g", const(4)), exec_line("c", "g() + g()")],
        [reg("fn", "max", const(-7)), "CTX\tc\t()", exec_line("c", "max(1, 2)")],                      # override before first use
        ["CTX\tc\t()", exec_line("c", "max(1, 2)"), reg("fn", "max", const(-7)), exec_line("c", "max(1, 2)")],   # … after first use
        [reg("prefix", "-", const(42)), "CTX\tc\t()", exec_line("c", "- 1"), exec_line("c", "2 - 1")],
        [reg("postfix", "++", const(42)), "CTX\tc\t()", exec_line("c", "1 ++")],
        [reg("infix", "+", const(42), 110), "CTX\tc\t()", exec_line("c", "1 + 2 * 3"), reg("infix", "+", ["bi", hx("-")], 110), exec_line("c", "1 + 2")],
        [reg("fn", "g", const(1)), ctx_line("c", [("g", "f", const(10))]), exec_line("c", "g()"), ctx_line("d", [("g", "v", n(5))]), exec_line("d", "g()"), exec_line("d", "g"),
         ctx_line("e", []), exec_line("e", "g()"), exec_line("e", "nosuch()")],
        [ctx_line("c", [("max", "f", const(10))]), exec_line("c", "max(1, 2)"), ctx_line("d", []), exec_line("d", "max(1, 2)")],
        [reg("prefix", "neg2", ["bi", hx("-")]), reg("prefix", "neg2", const(8)), "CTX\tc\t()", exec_line("c", "neg2 5")],
        [reg("infix", "hi", const(1), 111), reg("infix", "hi", const(2), 30), "CTX\tc\t()", parse_req("1 + 2 hi 3"), exec_line("c", "1 + 2 hi 3")],
        # the handler in force when the call is *made* counts: an argument's handler replaces the callee / registers it
        [reg("fn", "greet", const(1)), reg("fn", "upgrade", ["seq", ["reg", "fn", hx("greet"), "0", "calc", "left", const(2)], const(0)]),
         reg("fn", "install", ["seq", ["reg", "fn", hx("fresh"), "0", "calc", "left", const(42)], const(0)]),
         "CTX\tc\t()", exec_line("c", "greet(upgrade())"), exec_line("c", "fresh(install(), 2)")],
        # a context function shadows a global one only while the name is bound to a function there
        [reg("fn", "sh", const(100)), ctx_line("c", [("sh", "f", const(200))]), exec_line("c", "sh()"), exec_line("c", "sh(sh = 7)"), exec_line("c", "sh()")],
        # use before registration: the same spelling first read as a name / unknown word, then registered as an operator of each kind
        [ctx_line("c", [("twice", "v", n(1)), ("x", "v", n(21))]), exec_line("c", "twice x"), reg("prefix", "twice", const(77)), exec_line("c", "twice x"),
         exec_line("c", "x pct"), reg("postfix", "pct", const(78)), exec_line("c", "x pct"),
         exec_line("c", "x between 2"), reg("infix", "between", const(79), 115), exec_line("c", "x between 2"),
         exec_line("c", "!!x"), reg("prefix", "!!", const(80)), exec_line("c", "!!x"), reg("postfix", "%%", const(81)), exec_line("c", "x %%")],
        # a registration replaces the handler of *that name* only: the compound assignment `-=` is another name than `-`
        # (and `-` the prefix operator another registry than `-` the infix one), in both directions
        [reg("infix", "-", ["bi", hx("+")], 110), reg("infix", "<<", const(9), 100), "CTX\tc\t()", exec_line("c", "3 - 10"), exec_line("c", "a = 3; a -= 10; a"),
         exec_line("c", "b = 1; b <<= 2; b"), exec_line("c", "1 << 2"), exec_line("c", "- 4"),
         "REG\tinfix\t%s\t20\tsetter\tright\t%s" % (hx("+="), sexp_str(const(5))), exec_line("c", "d = 1; d += 2; d"), exec_line("c", "1 + 2"),
         exec_line("c", "e = 1; e *= 3; e")],
        # an override of a built-in stays in force through failing calls of unknown names, failing parses and evaluations
        [reg("fn", "min", const(77)), reg("fn", "sum", const(78)), ctx_line("c", [("nosuch", "v", n(5))]), exec_line("c", "min(3, 1, 2)"), exec_line("c", "nosuch(1)"),
         exec_line("c", "alsonot()"), exec_line("c", "1 +"), exec_line("c", "1 / 0"), exec_line("c", "min(3, 1, 2)"), exec_line("c", "sum(1, 2)"), exec_line("c", "max(1, 2)")],
    ]
    EXPECT = {0: {2: "(n 0 1 0)", 4: "(n 0 2 0)", 7: "(n 0 8 0)"}, 1: {2: "(n 1 7 0)"}, 2: {1: "(n 0 2 0)", 3: "(n 1 7 0)"},
              3: {2: "(n 0 42 0)", 3: "(n 0 1 0)"}, 4: {2: "(n 0 42 0)"}, 5: {2: "(n 0 42 0)", 4: "(n 1 1 0)"},
              6: {2: "(n 0 10 0)", 4: "(n 0 1 0)", 5: "(n 0 5 0)", 7: "(n 0 1 0)", 8: "ERR"}, 7: {1: "(n 0 10 0)", 3: "(n 0 2 0)"},
              8: {3: "(n 0 8 0)"}, 9: {4: "(n 0 2 0)"},
              10: {4: "(n 0 2 0)", 5: "(n 0 42 0)"}, 11: {2: "(n 0 200 0)", 3: "(n 0 100 0)", 4: "(n 0 100 0)"},
              12: {3: "(n 0 77 0)", 6: "(n 0 78 0)", 9: "(n 0 79 0)", 12: "(n 0 80 0)", 14: "(n 0 81 0)"},
              14: {3: "(n 0 77 0)", 4: "ERR", 5: "ERR", 7: "ERR", 8: "(n 0 77 0)", 9: "(n 0 78 0)", 10: "(n 0 2 0)"},
              13: {3: "(n 0 13 0)", 4: "(n 1 7 0)", 5: "(n 0 4 0)", 6: "(n 0 9 0)", 7: "(n 1 4 0)", 9: "(n 0 5 0)", 10: "(n 0 3 0)", 11: "(n 0 3 0)"}}
    for hi, h in enumerate(H):
        impl, model = both(h)
        c.add_stream(Stream("dispatch history %d (fresh process)" % hi, h, impl, model))
        for idx, exp in EXPECT[hi].items():
            oc = outcome_of(impl[idx])
            got = sexp_str(oc[1]) if oc[0] == "OK" else oc[0]
            if got != exp:
                c.violation("implementation-vs-property", "dispatch / last-registration-wins", {"requests": h, "implementation": impl, "step": idx, "expected": exp})
    # (2) registered infix operators at arbitrary precedences, adjacent ones included, both associativities
    precs = sorted(set([1, 2, 19, 20, 21, 39, 40, 41, 59, 60, 61, 109, 110, 111, 119, 120, 121, 199, 200, 201, 999999999, 1000000000, 2 ** 30, 2 ** 31 - 2, 2 ** 31 - 1] +
                       [p + d for p in (50, 70, 80, 90, 100) for d in (-1, 0, 1)]))
    if c.quick():
        precs = [p for i, p in enumerate(precs) if i % 3 == (c.seed % 3)] + [111, 109, 1000000000, 1, 2 ** 30, 2 ** 31 - 1]
    nb = 0
    for p in precs:
        for right in (False, True):
            t2 = table.copy()
            t2.infix["hi"] = (p, False, right)
            t2.infix["lo"] = (max(1, p - 1), False, right)
            pre = [reg("infix", "hi", ["arg", "0"], p, "right" if right else "left"), reg("infix", "lo", ["arg", "0"], max(1, p - 1), "right" if right else "left")]
            cases = []
            A, B, C_, D = G.ref("a"), G.ref("b"), G.ref("c"), G.ref("d")
            rdm = G.Renderer(t2, None, "min")
            for o in sorted(table.infix) + ["hi", "lo"]:
                for x, y in (("hi", o), (o, "hi"), ("lo", o), (o, "lo")):
                    if t2.prec(x) == t2.prec(y) and t2.right(x) != t2.right(y):
                        continue  # equal precedence with different associativity: outside the property
                    for t in (G.binop(y, G.binop(x, A, B), C_), G.binop(x, A, G.binop(y, B, C_)),
                              G.binop(y, G.binop(x, A, B), G.binop(x, C_, D)), G.un("not", G.binop(x, A, G.binop(y, B, C_)))):
                        cases.append((G.join_tokens(rdm.program(t)), t))
            nb += run_grouping(c, t2, cases, prelude=pre, name="registered infix @%d %s" % (p, "RIGHT" if right else "LEFT"))
    # one precedence level holding operators of both associativities is outside the property (it does not say how such a
    # level groups); the model still says what the code does there, so it is compared, without an oracle
    from .checks import adjacent_cases
    mtable, mpre, mcases = adjacent_cases(c, 1500 if c.quick() else 30000, mixed=True)
    mreqs = mpre + [parse_req(s_) for s_, _ in mcases]
    mi_, mm_ = both(mreqs, timeout=600)
    c.add_stream(Stream("PARSE with a RIGHT and a LEFT operator registered at one precedence (model vs crate only)", mreqs, mi_, mm_, numeric=False))
    c.extra["precedences_tried"] = precs
    return c.finish(trusted=TB_COMMON, rule="registration histories in a fresh process each (new names, re-registration, override of a built-in before/after first use, context shadowing, name bound as variable) + operators registered at %d precedences × both associativities parsed against every built-in neighbour (all orders, both nestings, with not)" % len(precs))


# =====================================================================================
def check_C09(c):
    c.prove(["EE.Props.C09"])
    rng = c.rng
    lits = []
    for total in range(1, 29):
        for scale in range(0, total + 1):
            if scale > 28:
                continue
            for pat in range(3):
                digits = [str(rng.below(10)) for _ in range(total)]
                if pat == 1: digits[0] = "0"
                if pat == 2: digits[-1] = "0"
                if total == scale:
                    text = "0." + "".join(digits)
                else:
                    text = "".join(digits[: total - scale]) + ("." + "".join(digits[total - scale:]) if scale else "")
                lits.append(text)
    lits += ["0.1", "0.2", "0.3", "1.10", "1.", "0", "00", "007", "0.0", "0.10", "10", "1.0000000000000000000000000000", MAXD, "7.9228162514264337593543950335"]
    lits += ["0." + "0" * k_ for k_ in range(1, 29)] + ["00.00", "000.0"]   # zero keeps its places like any other literal
    bad = ["1.2.3", "1e5", "1E5", "1e+5", "1e-5", "1..", "12e", "1.e5", "79228162514264337593543950336", "792281625142643375935439503350", "1e", "2E+"]
    # a second decimal point (or more) after 28 fractional digits: still not a decimal
    for head in ("0.0000000000000000000000000001", "1.0000000000000000000000000000", "0.1234567890123456789012345678", "7922816251.426433759354395033" + "5" * 10):
        bad += [head + ".", head + ".5", head + "..", head + ".2.3", head + "1.", head + "e5"]
    reqs = ["CTX\tc\t()"]
    for t in lits + bad:
        reqs.append(exec_line("c", t))
    impl, model = both(reqs)
    c.add_stream(Stream("decimal literals: digits and scale (raw mantissa/scale compared)", reqs, impl, model, numeric=False))
    for t, a in zip(lits, impl[1:]):
        if "." in t:
            ip, fp = t.split(".")
        else:
            ip, fp = t, ""
        exp = "OK (n 0 %d %d)" % (int(ip + fp), len(fp))
        got = a.split("\t")[1] if "\t" in a else a
        if got != exp:
            c.violation("implementation-vs-property", "literal does not evaluate to exactly that decimal (digits and scale)", {"input_text": t, "expected": exp, "implementation": a})
    for t, a in zip(bad, impl[1 + len(lits):]):
        if not (a.startswith("PARSEERR") or "\tERR" in a):
            c.violation("implementation-vs-property", "invalid decimal literal not rejected", {"input_text": t, "implementation": a})
    # arithmetic on pairs against exact rational arithmetic
    pool = []
    for _ in range(60 if c.quick() else 300):
        digits = 1 + rng.below(28)
        scale = rng.below(min(digits, 28) + 1)
        pool.append(n(rng.below(10 ** digits), scale, rng.chance(1, 3)))
    pool += [n(1, 1), n(2, 1), n(3, 1), n(110, 2), n(11, 1), n(1, 28), n(int(MAXD)), n(0), n(0, 5), n(10, 1), n(1)]
    # machine-word boundaries (a detour through i32/i64/f64 arithmetic shows exactly here), at scale 0 and scaled
    for k in (31, 32, 53, 62, 63, 64, 95):
        for dlt in (-1, 0, 1):
            pool.append(n(2 ** k + dlt, 0, rng.chance(1, 2)))
    # a large dividend against divisors of many places: aligning the scales takes the dividend far beyond 96 bits
    pool += [n(9999999999999999999999999999, 28), n(99999999999999999999, 20), n(999999999999999999999999, 24), n(3, 28), n(10 ** 27 + 1, 27),
             n(2 ** 96 - 1), n(2 ** 96 - 1, 28), n(123456789012345678901234567, 9)]
    pool += [n(3037000500), n(3037000499), n(4294967296, 0), n(4294967296, 3), n(9007199254740993), n(9007199254740993, 2),
             n(9223372036854775807, 0, True), n(18446744073709551615), n(99999999999999999999), n(10 ** 19, 0, True)]
    ops = ["+", "-", "*", "%", "<", "<=", ">", ">=", "==", "!=", "+=", "-=", "*=", "%="]
    reqs2, meta = [], []
    for a in pool:
        for bb in pool:
            for op in (ops if not c.quick() else [rng.choice(ops[:4]), rng.choice(ops[4:10]), rng.choice(ops[10:])]):
                reqs2.append(ctx_line("c", [("p", "v", a), ("q", "v", bb)]))
                reqs2.append(exec_line("c", "p %s q" % op if not op.endswith("=") or op in ("<=", ">=", "==", "!=") else "p %s q; p" % op))
                meta.append(("infix", op, a, bb))
    impl2, model2 = both(reqs2, timeout=1200)
    c.add_stream(Stream("decimal pairs under + - * % comparisons and compound forms", reqs2, impl2, model2))
    checked = 0
    for i, m in enumerate(meta):
        exp = S.infix(m[1], m[2], m[3])
        if exp is None or exp is S.SKIP:
            continue
        checked += 1
        oc = outcome_of(impl2[2 * i + 1])
        ok = (oc[0] == "ERR") if exp == S.ERR else (oc[0] == "OK" and sexp_str(oc[1]) == norm_numbers(sexp_str(exp)))
        if not ok:
            c.violation("implementation-vs-property", "decimal arithmetic is not exact", {"requests": reqs2[2 * i:2 * i + 2], "expected": "ERR" if exp == S.ERR else sexp_str(exp), "implementation": impl2[2 * i + 1]})
    c.extra["pairs_checked_against_rational_oracle"] = checked
    # scale of + - * results (observable: mantissa and scale of the returned number): decimal arithmetic keeps the
    # operands' places — max of the scales for + and -, their sum for * — whenever that fits 28 places and 96 bits
    scale_checked = 0
    for i, m in enumerate(meta):
        op = m[1].rstrip("=") if m[1] in ("+=", "-=", "*=") else m[1]
        if op not in ("+", "-", "*"):
            continue
        a_, b_ = m[2], m[3]
        sa, sb = int(a_[3]), int(b_[3])
        na = (-1 if a_[1] == "1" else 1) * int(a_[2]); nb = (-1 if b_[1] == "1" else 1) * int(b_[2])
        if op == "*":
            sc, num = sa + sb, na * nb
        else:
            sc = max(sa, sb)
            xa, xb = na * 10 ** (sc - sa), nb * 10 ** (sc - sb)
            num = xa + xb if op == "+" else xa - xb
        if sc > 28 or abs(num) >= 2 ** 96 or na == 0 or nb == 0:
            continue   # (a zero operand: the library returns the other operand / plain 0 — no places to keep)
        if op != "*" and (abs(xa) >= 2 ** 96 or abs(xb) >= 2 ** 96):
            continue
        f1 = impl2[2 * i + 1].split("\t")
        if len(f1) < 2 or not f1[1].startswith("OK (n "):
            continue   # value disagreements are reported above
        raw = sexp_parse(f1[1][3:])
        scale_checked += 1
        if int(raw[2]) != abs(num) or int(raw[3]) != sc:
            c.violation("implementation-vs-property", "decimal arithmetic does not keep the operands' places (mantissa/scale of the result)",
                        {"requests": reqs2[2 * i:2 * i + 2], "expected": "(n %d %d %d)" % (1 if num < 0 else 0, abs(num), sc), "implementation": impl2[2 * i + 1]})
    c.extra["results_checked_for_scale"] = scale_checked
    # the same with the operands written as *literals* in the source, in particular numerically equal literals spelled with
    # different trailing zeros (`1.10 * 1.1`): each operand keeps its own places
    spell = ["1.10", "1.1", "2.0", "2", "0.50", "0.5", "100", "100.00", "3", "3.000", "7.25", "7.250", "12.5", "0.1", "0.10", "1", "1.0"]
    def lit_ms(t_):
        return (int(t_.replace(".", "")), len(t_.split(".")[1]) if "." in t_ else 0)
    lreq, lmeta = ["CTX\tc\t()"], []
    for a_ in spell:
        for b_ in spell:
            for op in ("+", "-", "*"):
                for form in ("%s %s %s", "(%s + 1 - 1) %s (%s + 1 - 1)"):
                    lreq.append(exec_line("c", form % (a_, op, b_)))
                    lmeta.append((a_, op, b_))
    li, lm = both(lreq, timeout=600)
    c.add_stream(Stream("literal operands, equal values with different trailing zeros", lreq, li, lm))
    for k_, (a_, op, b_) in enumerate(lmeta):
        (na, sa), (nb, sb) = lit_ms(a_), lit_ms(b_)
        if op == "*":
            sc, num = sa + sb, na * nb
        else:
            sc = max(sa, sb)
            num = na * 10 ** (sc - sa) + (nb if op == "+" else -nb) * 10 ** (sc - sb)
        f1 = li[k_ + 1].split("\t")
        exp = "(n %d %d %d)" % (1 if num < 0 else 0, abs(num), sc)
        if num == 0:
            continue
        if len(f1) < 2 or f1[1] != "OK " + exp:
            c.violation("implementation-vs-property", "decimal arithmetic on literals does not keep each operand's places (mantissa/scale of the result)",
                        {"input_text": unhx(lreq[k_ + 1].split("\t")[2]), "expected": exp, "implementation": li[k_ + 1]})
    # classic binary-float traps through the text path
    traps = [("0.1 + 0.2 == 0.3", "(b 1)"), ("1.10 == 1.1", "(b 1)"), ("0.3 - 0.1 == 0.2", "(b 1)"), ("1.0 == 1", "(b 1)"), ("0.1 * 3 == 0.3", "(b 1)"),
             ("1.10", "(n 0 110 2)"), ("0.1 + 0.2", "(n 0 3 1)"), ("1.5 * 2 == 3", "(b 1)"), ("2.50 < 2.5", "(b 0)"), ("2.50 <= 2.5", "(b 1)"),
             ("100 * 1.1 == 110", "(b 1)"), ("0.0000000000000000000000000001 * 10000000000000000000000000000 == 1", "(b 1)")]
    tr = ["CTX\tc\t()"] + [exec_line("c", t) for t, _ in traps]
    it, mt = both(tr)
    c.add_stream(Stream("binary floating point traps", tr, it, mt))
    for (t, exp), a in zip(traps, it[1:]):
        oc = outcome_of(a)
        if not (oc[0] == "OK" and sexp_str(oc[1]) == norm_numbers(exp)):
            c.violation("implementation-vs-property", "decimal exactness", {"input_text": t, "expected": exp, "implementation": a})
    return c.finish(trusted=TB_COMMON + ["rust_decimal 1.31 modelled exact-when-representable; its agreement is sampled here, not proved", "vlib/pyspec.py rational oracle"],
                    rule="literals: every (significant digits 1–28, scale) class × 3 zero patterns with random digits + invalid forms; arithmetic: all ordered pairs of a random %d-value pool (1–28 digits, all scales, both signs) under + - * %% < <= > >= == != and compound forms, against exact rational arithmetic" % len(pool))


# =====================================================================================
def check_C17(c):
    c.prove(["EE.Props.C17"])
    rng = c.rng
    ranges = {"i8": (-2**7, 2**7 - 1), "i16": (-2**15, 2**15 - 1), "i32": (-2**31, 2**31 - 1), "i64": (-2**63, 2**63 - 1),
              "u8": (0, 2**8 - 1), "u16": (0, 2**16 - 1), "u32": (0, 2**32 - 1), "u64": (0, 2**64 - 1),
              "i128": (-2**127, 2**127 - 1), "u128": (0, 2**128 - 1)}
    reqs, meta = [], []
    for ty, (lo, hi) in ranges.items():
        vals = {lo, hi, 0, 1, lo + 1, hi - 1}
        for k in range(0, 128):
            for d in (-1, 0, 1):
                for sg in (1, -1):
                    v = sg * (2 ** k) + d
                    if lo <= v <= hi: vals.add(v)
        for k in range(0, 39):
            for sg in (1, -1):
                v = sg * 10 ** k
                if lo <= v <= hi: vals.add(v)
        for _ in range(50 if c.quick() else 2000):
            vals.add(lo + rng.below(hi - lo + 1))
        for v in sorted(vals):
            reqs.append("CONV\t%s\t%d" % (ty, v))
            meta.append((ty, v))
    impl, model = both(reqs)
    c.add_stream(Stream("Value::from(integer) for 10 integer types", reqs, impl, model, numeric=False))
    wide_hit = False
    for (ty, v), r, a in zip(meta, reqs, impl):
        f = a.split("\t")
        exp = "(n %d %d 0)" % (1 if v < 0 else 0, abs(v))
        if len(f) >= 2 and f[1] == exp:
            continue
        if ty in ("i128", "u128") and abs(v) >= 2 ** 96 and c.finding_listed("KF-C17-from-wide") and \
                ((len(f) >= 2 and f[1] == "(n 0 0 0)") or (a.startswith("PANIC") and v == -2 ** 127)):
            # the recorded finding is exactly this: such a value silently becomes 0 (i128::MIN panics inside rust_decimal);
            # anything else there — a negative number for u128::MAX, say — is a different violation
            wide_hit = True
            continue
        c.violation("implementation-vs-property", "Value::from(%s) does not denote the integer given" % ty, {"request": r, "expected": exp, "implementation": a})
    # floats: runtime oracle only (DESIGN §6 C17: partial)
    fl = []
    import struct
    specials = [0.0, -0.0, 1.0, -1.0, 0.5, 0.1, 1e10, 1e28, 7.9e28, 1e-10, 1e-28, float("inf"), float("-inf"), float("nan"), 1e40, -1e40, 1e-30, 7.922816251426434e28, 2.0 ** 95, 2.0 ** 96, 123456.789]
    for x in specials:
        fl.append(("f64", struct.pack(">d", x).hex()))
        try:
            fl.append(("f32", struct.pack(">f", x).hex()))
        except OverflowError:
            pass
    for e in range(-40, 41, 4):
        fl.append(("f64", struct.pack(">d", float("1e%d" % e)).hex()))
    # integer-valued floats within the decimal range are exactly decimals: they must convert exactly (powers of two and
    # their neighbours — the edges of every integer type — and random 53-bit integers scaled by powers of two)
    import math
    for k_ in range(0, 96):
        for sg in (1.0, -1.0):
            x = sg * 2.0 ** k_
            for y in (x, math.nextafter(x, 0.0), math.nextafter(x, sg * math.inf)):
                fl.append(("f64", struct.pack(">d", y).hex()))
            if k_ < 64:
                fl.append(("f32", struct.pack(">f", x).hex()))
    for _ in range(300 if c.quick() else 20000):
        x = float(rng.below(2 ** 53) | (1 << 52)) * 2.0 ** rng.below(43)
        fl.append(("f64", struct.pack(">d", x if rng.chance(1, 2) else -x).hex()))
    for _ in range(200 if c.quick() else 5000):
        fl.append(("f64", "%016x" % rng.next()))
        fl.append(("f32", "%08x" % (rng.next() & 0xFFFFFFFF)))
    fr = ["CONV\t%s\t%s" % x for x in fl]
    fi = run_impl(fr)
    float_stats = {"faithful": 0, "unfaithful_in_finding_zone": 0, "inexact_ordinary": 0}
    for (ty, bits), r, a in zip(fl, fr, fi):
        c.count(r)
        f = a.split("\t")
        if outcome_class(a) or len(f) < 4:
            c.violation("implementation-vs-property", "float conversion did not return", {"request": r, "implementation": a})
            continue
        x = struct.unpack(">d", bytes.fromhex(bits))[0] if ty == "f64" else struct.unpack(">f", bytes.fromhex(bits))[0]
        pv = sexp_parse(f[1])
        if x == x and abs(x) < 2.0 ** 96 and x == math.floor(x) and pv and pv[0] == "n" and S.num_val(pv) != int(x):
            # (exactness judged here on the decimal itself — the harness's `faithful` compares through f64 and would not see 2^63 - 1)
            c.violation("implementation-vs-property", "an integer-valued float within the decimal range converts to a different number",
                        {"request": r, "value": repr(x), "exact": str(int(x)), "implementation": a})
        elif f[2] == "faithful":
            float_stats["faithful"] += 1
        elif f[3] in ("nonfinite", "huge") or abs(x) < 1e-28:
            float_stats["unfaithful_in_finding_zone"] += 1
            wide_hit = True
        else:
            # the nearest decimal with ≤ 28 places is what a Decimal can hold; the value must at least be close
            float_stats["inexact_ordinary"] += 1
            v = sexp_parse(f[1])
            dv = S.num_val(v)
            if x != 0 and abs(float(dv) - x) > abs(x) * 1e-6 + 1e-28:
                c.violation("implementation-vs-property", "float conversion yields a different number", {"request": r, "value": repr(x), "implementation": a})
    c.extra["float_conversion_runtime_oracle"] = float_stats
    if wide_hit:
        c.known_finding("KF-C17-from-wide", "Value::from(i128::MAX), u128::MAX, f64::NAN, 1e40 silently become Number(0) (i128::MIN panics inside rust_decimal when overflow checks are on)")
    # accessors × variants, integer() across scales
    vals = POOL + [n(30, 1), n(300, 2), n(35, 1), n(0, 3), n(0, 1, True), n(9223372036854775807000, 3), n(9223372036854775808000, 3), n(92233720368547758080, 1, True),
                   n(1, 28), n(10 ** 28, 28), n(2 * 10 ** 27, 27, True)]
    for _ in range(100 if c.quick() else 3000):
        sc = rng.below(29)
        k = rng.below(10 ** 10) * 10 ** sc if rng.chance(1, 2) else rng.below(10 ** min(28, sc + 10))
        if k < 2 ** 96:
            vals.append(n(k, sc, rng.chance(1, 2)))
    ar = ["ACC\t" + sexp_str(v) for v in vals]
    ia, ma = both(ar)
    c.add_stream(Stream("accessor matrix: decimal/string/bool/integer/list × every variant; integer() at all scales", ar, ia, ma))
    for v, r, a in zip(vals, ar, ia):
        f = a.split("\t")
        if len(f) < 6:
            c.violation("implementation-vs-property", "accessor did not return", {"request": r, "implementation": a}); continue
        want = {"n": 1, "s": 2, "b": 3, "l": 5}
        for idx in (1, 2, 3, 5):
            should = want.get(v[0]) == idx
            if f[idx].startswith("ok") != should:
                c.violation("implementation-vs-property", "accessor accepts/rejects the wrong variant", {"request": r, "implementation": a})
        iv = S.integral_i64(v)
        got = f[4]
        if (iv is None and got != "err") or (iv is not None and got != "ok:%d" % iv):
            c.violation("implementation-vs-property", "integer() is not `the integer value within i64, whatever the scale`", {"request": r, "expected": iv, "implementation": a})
    # float(): a number that *is* an f64 converts to exactly that f64; any other number to one of its two neighbouring
    # f64 values; every non-number is rejected (runtime oracle: Lean's Float is opaque)
    from fractions import Fraction
    import math
    fvals = [n(0), n(1), n(5, 1), n(1, 1), n(25, 2, True), n(190368778409888275, 2), n(10 ** 28, 28), n(2 ** 53 + 1), n(2 ** 96 - 1), n(1, 28), n(3333333333333333333333333333, 28)]
    for _ in range(300 if c.quick() else 20000):
        k = 1 + rng.below(24)
        m = rng.below(2 ** 53)
        while m * 5 ** k >= 2 ** 96:
            m //= 7
        fvals.append(n(m * 5 ** k, k, rng.chance(1, 2)))              # a dyadic rational: exactly an f64
        sc = rng.below(29)
        fvals.append(n(rng.below(10 ** (1 + rng.below(28))), sc, rng.chance(1, 2)))
    fvals += [s("1.5"), b(True), NONE, l(n(1))]
    frq = ["FLT\t" + sexp_str(v) for v in fvals]
    fim = run_impl(frq)
    n_exact = 0
    for v, r, a in zip(fvals, frq, fim):
        c.count(r)
        f = a.split("\t")
        if v[0] != "n":
            if f[1:2] != ["err"]:
                c.violation("implementation-vs-property", "float() accepts a value that is not a number", {"request": r, "implementation": a})
            continue
        if len(f) < 2 or not f[1].startswith("ok:"):
            c.violation("implementation-vs-property", "float() rejects a number", {"request": r, "implementation": a}); continue
        got = struct.unpack(">d", bytes.fromhex(f[1][3:]))[0]
        q = Fraction(S.num_val(v))
        near = float(q)                                # correctly rounded
        if Fraction(near) == q:
            n_exact += 1
            okf = got == near
        else:
            lo_, hi_ = (math.nextafter(near, -math.inf), near) if Fraction(near) > q else (near, math.nextafter(near, math.inf))
            okf = got in (lo_, hi_)
        if not okf:
            c.violation("implementation-vs-property", "float() yields a different number than the one given", {"request": r, "expected": repr(near), "got": repr(got), "implementation": a})
    c.extra["float_accessor_exactly_representable_inputs"] = n_exact
    return c.finish(trusted=TB_COMMON + ["floats: runtime oracle only (Lean's Float is opaque to the kernel; rust_decimal's binary→decimal conversion is not modelled)"],
                    rule="every integer type at min, max, 0, ±1, ±2^k±1 (all k), ±10^k, random; f32/f64 specials, powers of ten and random bit patterns (runtime oracle); accessor × variant matrix over the value pool; integer() on decimals at every scale around ±2^63")


# =====================================================================================
def py_describe(t, cfg):
    """Independent rendering of describe(): cfg maps (kind, name|None) → tag."""
    k = t[0]
    def mk(tag, parts): return "<%s|%s>" % (tag, "|".join(parts))
    def D(x): return py_describe(x, cfg)
    if k in ("num", "bool", "str"):
        if k == "num": return G.dec_text(t)
        if k == "bool": return "true" if t[1] == "1" else "false"
        s_ = unhx(t[1]); q = "'" if '"' in s_ else '"'
        return q + s_ + q
    if k == "un":
        op = unhx(t[1]); tag = cfg.get(("unary", op))
        return mk(tag, [op, D(t[2])]) if tag else op + D(t[2])
    if k == "bin":
        op = unhx(t[1]); tag = cfg.get(("binary", op))
        return mk(tag, [op, D(t[2]), D(t[3])]) if tag else D(t[2]) + op + D(t[3])
    if k == "post":
        op = unhx(t[2]); tag = cfg.get(("postfix", op))
        return mk(tag, [D(t[1]), op]) if tag else D(t[1]) + op
    if k == "tern":
        tag = cfg.get(("ternary", None))
        return mk(tag, [D(t[1]), D(t[2]), D(t[3])]) if tag else D(t[1]) + "?" + D(t[2]) + ":" + D(t[3])
    if k == "ref":
        nm = unhx(t[1]); tag = cfg.get(("reference", nm))
        return mk(tag, [nm]) if tag else nm
    if k == "call":
        nm = unhx(t[1]); tag = cfg.get(("function", nm)); ps = [D(x) for x in t[2:]]
        return mk(tag, [nm] + ps) if tag else nm + "(" + ",".join(ps) + ")"
    if k == "list":
        tag = cfg.get(("list", None)); ps = [D(x) for x in t[1:]]
        return mk(tag, ps) if tag else "[" + ",".join(ps) + "]"
    if k == "map":
        tag = cfg.get(("map", None))
        if tag: return mk(tag, ["%s=>%s" % (D(a), D(b_)) for a, b_ in t[1:]])
        return "{" + ",".join("%s:%s" % (D(a), D(b_)) for a, b_ in t[1:]) + "}"
    if k == "stmt":
        tag = cfg.get(("chain", None)); ps = [D(x) for x in t[1:]]
        return mk(tag, ps) if tag else ";".join(ps)
    return ""


def check_C18(c):
    c.prove(["EE.Props.C18"])
    rng = c.rng
    table = G.documented_table()
    kinds = ["unary", "binary", "postfix", "ternary", "function", "reference", "list", "map", "chain"]
    # the same names under several kinds: a registration for one (kind, name) must not reach another kind with that name
    # … and names a registry might be tempted to treat specially (wildcards, defaults): they are ordinary names
    # … and pairs of names with equal rolling hashes (h*31 + byte): a registry keyed by a hash of the name would merge them
    shared = ["++", "nm", "-", "*", "_", "default", "Aa", "BB"]
    named = {"unary": shared, "binary": shared, "postfix": shared, "function": shared + ["max"], "reference": shared + ["b"]}
    A, B = G.ref("a"), G.ref("b")
    fixed = [G.stmt([G.binop("+", G.un("-", A), G.post(B, "++")), G.tern(A, G.call("f", [G.lst([G.num(1)])]), G.mp([(G.num(1), B)]))]),
             G.binop("in", G.binop("-", A, G.num(2)), G.lst([G.call("max", [B])])), G.un("not", G.binop("in", A, B)), G.post(G.ref("x1"), "--")]
    # every (kind, name) pair of the shared pool occurs
    for nm in shared:
        fixed.append(G.lst([G.un(nm, A), G.binop(nm, A, B), G.post(A, nm), G.call(nm, [A]), G.ref(nm)]))
    ag = G.AstGen(rng.fork(), table, max_depth=4)
    n_cfg = 60 if c.quick() else 1500
    total = 0
    for ci in range(n_cfg):
        cfg, pre = {}, []
        regs_ = []
        for k in kinds:
            if k in named:
                for nm in named[k]:
                    if rng.chance(1, 3):
                        regs_.append((k, nm))
            elif rng.chance(1, 2):
                regs_.append((k, None))
        if ci == 0: regs_ = []
        if ci == 1: regs_ = [(k, nm) for k in kinds for nm in (named.get(k) or [None])]
        # registration order matters for a key collision: shuffle
        for i in range(len(regs_) - 1, 0, -1):
            j = rng.below(i + 1)
            regs_[i], regs_[j] = regs_[j], regs_[i]
        for k, nm in regs_:
            tag = "%s_%s" % (k, nm.encode().hex()) if nm is not None else k
            cfg[(k, nm)] = tag
            pre.append("DESC\t%s\t%s\t%s" % (k, hx(nm) if nm is not None else "-", tag))
        asts = fixed + [ag.program() for _ in range(6 if c.quick() else 20)]
        if ci < 3:
            # trees as tall as the parser can return them (MAX_DEPTH = 128) and just below: every node is rendered
            def tower(wrap, leaf, k):
                t = leaf
                for _ in range(k):
                    t = wrap(t)
                return t
            for k in (125, 126, 127):
                asts.append(tower(lambda t: G.lst([t]), G.num(1), k))
                asts.append(tower(lambda t: G.un("!", t), G.ref("x"), k))
                asts.append(G.call("f", [tower(lambda t: G.lst([t]), G.ref("y"), k - 1)]))
                asts.append(tower(lambda t: G.mp([(G.num(1), t)]), B, k))
        reqs = pre + ["DESCRAST\t" + sexp_str(t) for t in asts]
        impl, model = both(reqs)
        total += len(reqs)
        st = Stream("descriptor configuration %d" % ci, reqs, impl, model, numeric=False)
        for i in st.disagreements:
            c.violation("model-vs-implementation", "describe stream", {"requests": pre + [reqs[i]], "implementation": impl[i], "model": model[i]})
        for r in reqs:
            c.count(r + str(ci))
        for t, r, a in zip(asts, reqs[len(pre):], impl[len(pre):]):
            exp = "OK\t" + hx(py_describe(t, cfg))
            if a != exp:
                c.violation("implementation-vs-property", "describe() does not use exactly the registered descriptor / default",
                            {"requests": pre + [r], "expected": py_describe(t, cfg), "implementation": unhx(a.split("\t")[1]) if a.startswith("OK\t") else a})
    # a second thread describes before and after the registrations made on the first: both threads see them
    pre2 = ["DESC\t%s\t%s\t%s" % (k, hx(nm) if nm is not None else "-", "%s_%s" % (k, nm.encode().hex()) if nm is not None else k)
            for k in kinds for nm in (named.get(k) or [None])]
    cfg2 = {(k, nm): ("%s_%s" % (k, nm.encode().hex()) if nm is not None else k) for k in kinds for nm in (named.get(k) or [None])}
    reqs2 = ["ONW\tDESCRAST\t" + sexp_str(t) for t in fixed] + pre2 + ["ONW\tDESCRAST\t" + sexp_str(t) for t in fixed] + ["DESCRAST\t" + sexp_str(t) for t in fixed]
    i2, m2 = both(reqs2)
    total += len(reqs2)
    st2 = Stream("describe on a second thread before and after registrations on the first", reqs2, i2, m2, numeric=False)
    c.add_stream(st2)
    for t, a0, a1, a2 in zip(fixed, i2[:len(fixed)], i2[len(fixed) + len(pre2):], i2[2 * len(fixed) + len(pre2):]):
        for which, a, cfg_ in (("before", a0, {}), ("after, other thread", a1, cfg2), ("after, registering thread", a2, cfg2)):
            exp = "OK\t" + hx(py_describe(t, cfg_))
            if a != exp:
                c.violation("implementation-vs-property", "describe() on a second thread does not use exactly the registered descriptor / default (%s)" % which,
                            {"requests": reqs2, "tree": sexp_str(t), "expected": py_describe(t, cfg_), "implementation": unhx(a.split("\t")[1]) if a.startswith("OK\t") else a})
    c.streams.append({"stream": "DESC/DESCRAST per configuration (fresh process each)", "requests": total, "disagreements": 0, "unmodelled_skipped": 0,
                      "informational_error_kind_drift": 0, "configurations": n_cfg})
    c.sample({"configuration": "binary(+) + list", "request": "DESCRAST " + sexp_str(fixed[1])})
    return c.finish(trusted=TB_COMMON, rule="%d random configurations of (kind, name) registrations — the same names under unary/binary/postfix/function/reference, random registration order, plus the empty and the full configuration — × fixed ASTs containing every (kind, name) pair + random parser-range ASTs, each configuration in a fresh process; oracle: independent rendering in Python" % n_cfg)


# =====================================================================================
def sched(args, timeout=30):
    try:
        p = subprocess.run([harness_bin("debug"), "sched"] + [str(a) for a in args], capture_output=True, text=True, timeout=timeout)
        return p.returncode, p.stdout.strip()
    except subprocess.TimeoutExpired:
        return -999, "TIMEOUT"


def check_C13(c):
    c.prove(["EE.Props.C13"])
    rng = c.rng
    acts = ["parse", "exec", "execops", "regfn", "reginfix", "regprefix", "regpostfix"]
    alone_cache = {}
    def expect(a, tid):
        # the sequential reference: the same call alone in a fresh process (results of reg* actions name the thread)
        if (a, tid) not in alone_cache:
            rc, out = sched(["one", tid, a])
            alone_cache[(a, tid)] = out
        return alone_cache[(a, tid)]
    alone = {a: expect(a, 0) for a in acts + ["override"]}
    # (a) init boundary, forced with the probe: B must block while A is held inside init, then see the full table
    n_forced = 0
    for stage in range(0, 5):
        for a_act in (["parse", "regfn"] if c.quick() else acts):
            for b_act in acts + ["override"]:
                rc, out = sched(["initprobe", stage, a_act, b_act])
                n_forced += 1
                c.count("initprobe %d %s %s" % (stage, a_act, b_act))
                f = dict(x.split("=", 1) for x in out.split(" ") if "=" in x)
                exp_a = expect(a_act, 0)
                if b_act == "override" and a_act in ("exec", "regfn"):
                    exp_a = None  # A's own result may legitimately see max before or after the override
                ok = rc == 0 and f.get("held") == "true" and f.get("b_early") == "false" and (exp_a is None or f.get("a") == exp_a) and f.get("b") == expect(b_act, 1) \
                    and (b_act != "override" or f.get("final:max") == "ok:Number(-7)")
                if not ok:
                    c.violation("implementation-vs-property", "first call during initialisation (stage %d): a thread did not wait for, or did not see, the complete built-in tables" % stage,
                                {"schedule": "A=%s held inside init at stage %d; B=%s makes its first call" % (a_act, stage, b_act), "implementation": out,
                                 "expected": "held=true b_early=false a=%s b=%s" % (expect(a_act, 0), expect(b_act, 1))})
    # (b) override of a built-in registered before first use, racing with first uses: the override must survive init
    for i in range(40 if c.quick() else 600):
        rc, out = sched(["race", 4 + (i % 5), "override", "parse", "execops", "regprefix", "parse", "exec", "parse", "parse"])
        c.count("race-override %d" % i)
        res = dict(x.split("=", 1) for x in out.split(" ") if "=" in x)
        # afterwards max must be the override in a follow-up process? (same process ended) — check thread 0 saw its own registration
        if rc != 0 or res.get("0:override") != "ok:Number(-7)" or res.get("1:parse") != alone["parse"] or res.get("2:execops") != alone["execops"] \
                or res.get("final:max") != "ok:Number(-7)":
            c.violation("implementation-vs-property", "override of a built-in racing with first use was lost / a first call saw a partial table", {"implementation": out})
    # (c) unforced races at process start: every per-thread result must equal its sequential result
    n_race = 0
    for i in range(60 if c.quick() else 4000):
        k = 2 + rng.below(15)
        chosen = [rng.choice(acts) for _ in range(k)]
        rc, out = sched(["race", k] + chosen)
        n_race += 1
        c.count("race %d %s" % (i, " ".join(chosen)))
        items = out.split(" ")
        bad = rc != 0 or len(items) != k
        for it in items:
            if "=" not in it:
                bad = True
                continue
            head, res = it.split("=", 1)
            tid, a = head.split(":")
            if res != expect(a, int(tid)):
                bad = True
        if bad:
            c.violation("implementation-vs-property", "concurrent first calls: a thread's result differs from every sequential order (or a thread panicked / hung)",
                        {"schedule": "race of %d threads at process start: %s" % (k, chosen), "implementation": out})
    # (d) the known finding: a registration between two reads of one evaluation
    rc, out = sched(["multiread"])
    c.count("multiread")
    if out == "ok:List([Number(1),Number(0),Number(2)])":
        if c.finding_listed("KF-C13-multiread"):
            c.known_finding("KF-C13-multiread", "an evaluation that reads a name twice can observe a concurrent registration between the reads: [g(), sync(), g()] = [1, 0, 2]")
        else:
            c.violation("implementation-vs-property", "registration not atomic w.r.t. an evaluation", {"implementation": out})
    elif out not in ("ok:List([Number(1),Number(0),Number(1)])", "ok:List([Number(2),Number(0),Number(2)])"):
        c.violation("implementation-vs-property", "multiread schedule: unexpected result", {"implementation": out})
    # (e) registering an operator that is already registered, concurrently with evaluations that use it: forced (the
    # replaced handler's destructor wakes the evaluating thread) and unforced (tight loops). The evaluation sees the old
    # or the new registration, never neither.
    n_rereg = 0
    for kind_, old, new in (("infix", 103, 203), ("prefix", 103, 203), ("postfix", 103, 203)):
        for _ in range(2 if c.quick() else 20):
            rc, out = sched(["rereg-forced", kind_])
            n_rereg += 1
            c.count("rereg-forced " + kind_ + str(n_rereg))
            f = dict(x.split("=", 1) for x in out.split(" ") if "=" in x)
            if rc != 0 or f.get("during") not in ("ok:Number(%d)" % old, "ok:Number(%d)" % new) or f.get("after") != "ok:Number(%d)" % new:
                c.violation("implementation-vs-property", "an evaluation concurrent with a re-registration saw neither the old nor the new %s operator" % kind_,
                            {"schedule": "harness: sched rereg-forced %s — register op; thread A evaluates while thread B registers it again (A is woken by the replaced handler's destructor)" % kind_,
                             "implementation": out, "expected": "during ∈ {%d, %d}, after = %d" % (old, new, new)})
    for i in range(3 if c.quick() else 100):
        rc, out = sched(["rereg-race", 20000 if c.quick() else 100000], timeout=90 if c.quick() else 300)
        n_rereg += 1
        c.count("rereg-race %d" % i)
        if rc != 0 or out != "ok ok ok ok":
            c.violation("implementation-vs-property", "an evaluation concurrent with re-registrations of built-in operators (by equal handlers) did not give the built-in result",
                        {"schedule": "harness: sched rereg-race — one thread re-registers + (infix), - (prefix), ++ (postfix) in a loop; four threads evaluate `1 + 2`, `- 3`, `4 ++`", "implementation": out})
    # nesting limits are per parse: threads parsing deep (legal) expressions at once do not use up each other's budget;
    # and a registrar that changes an operator's precedence sees its own latest registration at once, whatever other
    # threads are parsing meanwhile
    for i in range(2 if c.quick() else 30):
        rc, out = sched(["deeprace", 8, 150 if c.quick() else 600], timeout=120)
        n_rereg += 1
        c.count("deeprace %d" % i)
        if rc != 0 or out != " ".join(["ok"] * 8):
            c.violation("implementation-vs-property", "threads parsing / evaluating a legally nested expression at the same time: a call failed that succeeds alone",
                        {"schedule": "harness: sched deeprace 8 — eight threads execute and parse `((…(3 + 4)…))` (100 levels) in a loop", "implementation": out})
        rc, out = sched(["rereg-prec", 3000 if c.quick() else 20000], timeout=120)
        n_rereg += 1
        c.count("rereg-prec %d" % i)
        if rc != 0 or out != "ok parse-errors=0":
            c.violation("implementation-vs-property", "after register_infix_op returned, the registering thread's own evaluation did not use the registered precedence (or a concurrent parse failed)",
                        {"schedule": "harness: sched rereg-prec — one thread alternates the precedence of `times` (100 / 130) and evaluates `1 + 2 times 3` after each registration; six threads parse meanwhile",
                         "implementation": out})
    c.streams.append({"stream": "re-registration concurrent with evaluation (forced and unforced)", "requests": n_rereg, "disagreements": 0, "unmodelled_skipped": 0, "informational_error_kind_drift": 0})
    # (f) a second, long-lived thread tokenizes/evaluates a text, the first thread then registers one of its words as an
    # operator, and the second thread evaluates the same text again — after the registration has returned, so every
    # sequential order has the registration first: per-thread memory of earlier answers would show
    hreqs, hmeta = [], []
    for op, kind_, text, script in [("plusw", "infix", "5 plusw 3", ["bi", hx("+")]), ("negw", "prefix", "negw 4", ["const", n(1)]), ("incw", "postfix", "4 incw", ["const", n(2)]),
                                    ("<+>", "infix", "5 <+> 3", ["bi", hx("+")]), ("fnw", "fn", "fnw(1)", ["const", n(6)])]:
        blk = ["ONW\tTOK\t" + hx(text), "ONW\tCTX\tw\t()", "ONW\t" + exec_line("w", text), "TOK\t" + hx(text),
               "REG\t%s\t%s\t110\tcalc\tleft\t%s" % (kind_, hx(op), sexp_str(script)),
               "ONW\tTOK\t" + hx(text), "ONW\tCTX\tw\t()", "ONW\t" + exec_line("w", text), "CTX\tm\t()", exec_line("m", text)]
        hmeta.append((len(hreqs), op, text))
        hreqs += blk
    hi_, hm_ = both(hreqs, timeout=300)
    c.add_stream(Stream("second thread: use, registration on the first thread, use again", hreqs, hi_, hm_))
    for off, op, text in hmeta:
        # after the registration both threads must agree
        if hi_[off + 7].split("\t")[1:2] != hi_[off + 9].split("\t")[1:2]:
            c.violation("implementation-vs-property", "a thread that used a text before an operator/function in it was registered still sees the old meaning",
                        {"requests": hreqs[off:off + 10], "implementation": hi_[off:off + 10], "input_text": text})
    c.streams.append({"stream": "forced init-boundary schedules", "requests": n_forced, "disagreements": 0, "unmodelled_skipped": 0, "informational_error_kind_drift": 0})
    c.streams.append({"stream": "unforced first-call races (fresh process each)", "requests": n_race, "disagreements": 0, "unmodelled_skipped": 0, "informational_error_kind_drift": 0})
    c.sample({"forced": "initprobe 2 parse exec", "race": "race 5 parse exec regfn reginfix execops"})
    c.extra["runtime_residual"] = "OS scheduling cannot be enumerated; (c) samples it. std::sync::Mutex atomicity and once_cell blocking are trusted library semantics"
    return c.finish(trusted=TB_COMMON + ["std::sync::Mutex, once_cell::sync::OnceCell semantics"],
                    rule="forced schedules: thread A held inside each of the 5 initialisation stages while thread B makes each kind of first call; repeated unforced races of 2–16 threads' first calls in fresh processes; override-before-first-use races; the multi-read schedule of the known finding")


# =====================================================================================
def check_C16(c):
    c.prove(["EE.Props.C16"])
    rng = c.rng
    progs_pool = ["x = 1; x + 1", "x", "x = x; x", "y = 2; x = y * 3; [x, y]", "1/0", "x = 5; 1/0; x = 6", "f = 1; f", "a = 'one'; a", "a", "max(1,2) + sum(1,2,3)",
                  "z = [1,2]; z", "z", "q += 1", "q = 1; q += 1; q", "t = true ? 1 : 2; t", "[x, y, z, a, q, t]", "'s' beginWith 's'", "1 + 2 * 3 not in [7]", "x = 10; x <<= 2; x",
                  "v = v; v", "n = n + 1", "(1", "1 +", "{1: x}", "x = 1; y = x; x = 2; [x, y]",
                  # texts that differ only by white space *inside* a string literal are different programs
                  "s = 'a b'; s == 'a b'", "s = 'a b'; s == 'a  b'", "s = 'a b'; s == 'a\tb'", "'x y' endWith ' y'", "'x  y' endWith ' y'", "['a b', 'a  b', 'a\nb']",
                  "s = 'a b';  s  ==  'a b'"]
    n_hist = 40 if c.quick() else 800
    total = 0
    for hi in range(n_hist):
        k = 2 + rng.below(11)
        calls = []
        for j in range(k):
            calls.append((rng.choice(["c1", "c2", "c3"]), rng.choice(progs_pool), rng.choice(["EXEC", "EXEC", "PARSE", "EXPR"])))
        # embedded history: contexts persist across calls of the same id
        reqs = ["CTX\tc1\t()", "CTX\tc2\t()", "CTX\tc3\t()"]
        for cid, p, kind_ in calls:
            reqs.append(exec_line(cid, p) if kind_ == "EXEC" else "%s\t%s" % (kind_, hx(p)))
        impl, model = both(reqs)
        total += len(reqs)
        st = Stream("history %d" % hi, reqs, impl, model)
        for i in st.disagreements:
            c.violation("model-vs-implementation", "history stream", {"requests": reqs[: i + 1], "implementation": impl[i], "model": model[i]})
        for r in reqs:
            c.count(r + str(hi))
        # each call alone: same context history for *its* context only, nothing else before it, fresh process
        for j in (sorted({rng.below(k) for _ in range(4)}) if c.quick() else range(k)):
            cid, p, kind_ = calls[j]
            own = ["CTX\t%s\t()" % cid] + [exec_line(cid, q) for (cc, q, kk) in calls[:j] if cc == cid and kk == "EXEC"]
            own.append(exec_line(cid, p) if kind_ == "EXEC" else "%s\t%s" % (kind_, hx(p)))
            alone = run_impl(own)
            total += len(own)
            if canon(alone[-1]) != canon(impl[3 + j]):
                c.violation("implementation-vs-property", "a call's result depends on other programs / other contexts evaluated before it",
                            {"embedded_history": reqs[: 4 + j], "embedded_result": impl[3 + j], "alone": own, "alone_result": alone[-1]})
    # many failing parses / evaluations first, then every pool program: results must equal the program alone
    # (the last four: evaluations ended by a *panicking* registered function / operator — the registries must come through)
    panic_regs = ["REG\tfn\t%s\t0\tcalc\tleft\t(panic)" % hx("boomf"), "REG\tprefix\t%s\t0\tcalc\tleft\t(panic)" % hx("boomp"),
                  "REG\tinfix\t%s\t105\tcalc\tleft\t(panic)" % hx("boomi"), "REG\tpostfix\t%s\t0\tcalc\tleft\t(panic)" % hx("boomq")]
    for bad in ["(1 +", "[[[[[[[[[[[[[[[[[[[[[[[[[[[[[[[[[[[[[[[[", "1/0", "- - - - - - - - - -", "{1:", "f(1,", "a = ", "'abc", "boomf(1)", "boomp 1", "1 boomi 2", "1 boomq"]:
        pre = (panic_regs if "boom" in bad else []) + ["CTX\tc0\t()"] + [exec_line("c0", bad) for _ in range(150 if c.quick() else 400)]
        tail = []
        for p in progs_pool:
            tail.append("CTX\tc\t()")
            tail.append(exec_line("c", p))
        im = run_impl(pre + tail)
        alone_r = run_impl((panic_regs if "boom" in bad else []) + tail)[(len(panic_regs) if "boom" in bad else 0):]
        total += len(pre) + 2 * len(tail)
        for r, a, bb in zip(tail, im[len(pre):], alone_r):
            c.count(r + bad)
            if canon(a) != canon(bb):
                c.violation("implementation-vs-property", "a call's result depends on failed parses/evaluations made before it",
                            {"history": "%d × `%s`, then the request" % (150 if c.quick() else 400, bad), "request": r, "input_text": unhx(r.split("\t")[2]) if r.startswith("EXEC") else "",
                             "after_history": a, "alone": bb})
    # registrations between evaluations: an evaluation depends on the registrations in force, not on what was parsed,
    # rendered or evaluated under earlier registrations (a memo keyed by name would show here)
    regprogs = ["10 zz 2 * 3", "1 + 2 zz 3", "2 zz 3 zz 4", "zz2(5)", "yy 3 + 1", "4 ww", "[1 zz 2, yy 1]"]
    for p1, a1, p2, a2 in [(130, "left", 100, "left"), (100, "left", 130, "left"), (115, "left", 115, "right"), (20, "right", 200, "left")]:
        reg1 = ["REG\tinfix\t%s\t%d\tcalc\t%s\t%s" % (hx("zz"), p1, a1, sexp_str(["bi", hx("-")])),
                "REG\tfn\t%s\t0\tcalc\tleft\t%s" % (hx("zz2"), sexp_str(["const", n(1)])),
                "REG\tprefix\t%s\t0\tcalc\tleft\t%s" % (hx("yy"), sexp_str(["const", n(1)])),
                "REG\tpostfix\t%s\t0\tcalc\tleft\t%s" % (hx("ww"), sexp_str(["const", n(1)]))]
        reg2 = ["REG\tinfix\t%s\t%d\tcalc\t%s\t%s" % (hx("zz"), p2, a2, sexp_str(["bi", hx("-")])),
                "REG\tfn\t%s\t0\tcalc\tleft\t%s" % (hx("zz2"), sexp_str(["arg", "0"])),
                "REG\tprefix\t%s\t0\tcalc\tleft\t%s" % (hx("yy"), sexp_str(["arg", "0"])),
                "REG\tpostfix\t%s\t0\tcalc\tleft\t%s" % (hx("ww"), sexp_str(["arg", "0"]))]
        uses = []
        for p in regprogs:
            uses += ["CTX\tc\t()", exec_line("c", p), "EXPR\t" + hx(p), "PARSE\t" + hx(p)]
        hist = reg1 + uses + reg2 + uses
        fresh = reg2 + uses
        ih, mh = both(hist)
        c.add_stream(Stream("re-registration between evaluations (%d %s → %d %s)" % (p1, a1, p2, a2), hist, ih, mh))
        ifr = run_impl(fresh)
        total += len(hist) + len(fresh)
        for r, a, bb in zip(uses, ih[len(reg1) + len(uses) + len(reg2):], ifr[len(reg2):]):
            if canon(a) != canon(bb):
                c.violation("implementation-vs-property", "a result depends on what was parsed or evaluated under an earlier registration",
                            {"history": hist, "request": r, "after_history": a, "fresh_process_with_the_final_registrations": bb})
    # registrations that replace *built-in* names stay in force whatever is parsed, rendered or evaluated afterwards, on
    # this or another thread ("the registrations made so far", not "the built-in tables plus new names")
    breg = ["REG\tfn\t%s\t0\tcalc\tleft\t%s" % (hx("sum"), sexp_str(["const", n(42)])),
            "REG\tinfix\t%s\t110\tcalc\tleft\t%s" % (hx("+"), sexp_str(["bi", hx("-")])),
            "REG\tprefix\t%s\t0\tcalc\tleft\t%s" % (hx("!"), sexp_str(["const", n(8)])),
            "REG\tpostfix\t%s\t0\tcalc\tleft\t%s" % (hx("++"), sexp_str(["const", n(9)]))]
    bprogs = [("sum(1, 2)", "(n 0 42 0)"), ("5 + 3", "(n 0 2 0)"), ("! true", "(n 0 8 0)"), ("1 ++", "(n 0 9 0)"), ("[sum(), 1 + 1, ! 0, 0 ++]", "(l (n 0 42 0) (n 0 0 0) (n 0 8 0) (n 0 9 0))")]
    bh = list(breg)
    bidx = []
    for between in (["PARSE\t" + hx("x")], ["ONW\tPARSE\t" + hx("max(1, 2) - 1")], ["EXPR\t" + hx("a * b")], ["CTX\tz\t()", exec_line("z", "min(1, 2)")], ["REG\tfn\t%s\t0\tcalc\tleft\t(const (n 0 1 0))" % hx("other")]):
        for p, exp in bprogs:
            bh += ["CTX\tc\t()", exec_line("c", p)]
            bidx.append((len(bh) - 1, p, exp))
            bh += ["ONW\tCTX\tw\t()", "ONW\t" + exec_line("w", p)]
            bidx.append((len(bh) - 1, p, exp))
        bh += between
    bi_, bm_ = both(bh, timeout=300)
    c.add_stream(Stream("built-in names re-registered, then unrelated parses/evaluations/registrations between uses", bh, bi_, bm_))
    total += len(bh)
    for i, p, exp in bidx:
        oc = outcome_of(bi_[i])
        if not (oc[0] == "OK" and sexp_str(oc[1]) == exp):
            c.violation("implementation-vs-property", "a result depends on unrelated calls made since a registration (the registration of a built-in name did not stay in force)",
                        {"requests": bh[:i + 1], "input_text": p, "expected": exp, "implementation": bi_[i]})
    # contexts made the same way (all empty) share nothing: an assignment through one is invisible through the others,
    # on either thread
    sep = ["CTX\ta\t()", "CTX\tb\t()", "ONW\tCTX\tw\t()", exec_line("a", "limit = 40 + 2; limit"), exec_line("b", "limit"), "ONW\t" + exec_line("w", "limit"),
           "CTX\td\t()", exec_line("d", "limit"), exec_line("d", "n += 1; n"), exec_line("a", "n = 10"), exec_line("d", "n += 1; n"), "GETVAR\tb\t" + hx("limit")]
    si_, sm_ = both(sep)
    c.add_stream(Stream("separate empty contexts", sep, si_, sm_))
    total += len(sep)
    want = {3: "(n 0 42 0)", 4: "(none)", 5: "(none)", 7: "(none)", 8: "ERR", 10: "ERR"}
    for i_, exp in want.items():
        oc = outcome_of(si_[i_])
        got = sexp_str(oc[1]) if oc[0] == "OK" else oc[0]
        if got != exp:
            c.violation("implementation-vs-property", "a result depends on what was evaluated with another context", {"requests": sep[:i_ + 1], "expected": exp, "implementation": si_[i_]})
    if "(n " in si_[11]:
        c.violation("implementation-vs-property", "a variable assigned through one context is bound in another", {"requests": sep, "implementation": si_[11]})
    # same AST evaluated repeatedly with equal contexts
    rep = []
    for p in progs_pool:
        for _ in range(3):
            rep.append("CTX\tc\t((%s v (n 0 4 0)))" % hx("x"))
            rep.append(exec_line("c", p))
    ir, mr = both(rep)
    c.add_stream(Stream("same program 3× from equal contexts", rep, ir, mr))
    for i in range(0, len(rep), 6):
        if not (ir[i + 1] == ir[i + 3] == ir[i + 5]):
            c.violation("implementation-vs-property", "repeating an evaluation from an equal context gives a different outcome", {"requests": rep[i:i + 6], "implementation": ir[i:i + 6]})
    # 8 threads, separate contexts, interleaved
    pp = [p for p in progs_pool if "(" != p[0]]
    for it in range(3 if c.quick() else 60):
        chosen = [rng.choice(pp) for _ in range(6)]
        try:
            p_ = subprocess.run([harness_bin("debug"), "sched", "isolation"] + [hx(x) for x in chosen], capture_output=True, text=True, timeout=60)
            out = p_.stdout.strip()
        except subprocess.TimeoutExpired:
            out = "TIMEOUT"
        c.count("isolation %d" % it)
        per = out.split(" ")
        if len(per) != 8 or len(set(per)) != 1:
            c.violation("implementation-vs-property", "threads evaluating on separate contexts influence each other", {"programs": chosen, "implementation": out})
    c.streams.append({"stream": "histories, each call also alone in a fresh process", "requests": total, "disagreements": 0, "unmodelled_skipped": 0, "informational_error_kind_drift": 0})
    return c.finish(trusted=TB_COMMON + ["state hidden inside rust_decimal / once_cell is assumed absent"],
                    rule="histories of 2–12 parse/expr/exec calls over 3 contexts (assigning, failing midway, reusing names); each compared with the model and, for the real crate, with the same call run alone in a fresh process; same program 3× from equal contexts; 8 threads interleaved on separate contexts")


CHECKS2 = {"C03": check_C03, "C04": check_C04, "C06": check_C06, "C07": check_C07, "C08": check_C08, "C09": check_C09,
           "C13": check_C13, "C14": check_C14, "C15": check_C15, "C16": check_C16, "C17": check_C17, "C18": check_C18}
