#!/bin/bash
# usage: eval_seed.sh <dir with patch.diff> <check id>...   — applies the patch to /repo, runs the quick checks, restores /repo
D=$1; shift
git -C /repo status --short | grep -q . && { echo "/repo not clean"; exit 2; }
git -C /repo apply $D/patch.diff || { echo "patch does not apply"; exit 2; }
cd /verif
for id in "$@"; do
  ./check $id 2>&1 | grep -E "VIOLATION|BUILD|quick:" | head -3
done
git -C /repo checkout -- . ; git -C /repo status --short | head -3
