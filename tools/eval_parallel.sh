#!/bin/bash
# Evaluates many patches (seeded changes or behaviour-preserving refactorings) in parallel WITHOUT touching /repo or
# /verif: each worker gets private copies of both under $PAR (default /root/par, outside /repo and /verif) and runs in
# its own mount namespace with the copies bind-mounted at /repo and /verif, so the checks run unmodified.
#   usage: eval_parallel.sh <workers> <jobfile> <results dir>
#   jobfile lines:  <name> <dir with patch.diff> <check id>... | ALL
# One result file per job: <results dir>/<name>.log (the VIOLATION / BUILD / summary lines). Copies are removed at the end.
N=$1; JOBS=$2; RES=$3
PAR=${PAR:-/root/par}
mkdir -p "$RES" "$PAR"
for k in $(seq 1 $N); do
  rm -rf $PAR/w$k; mkdir -p $PAR/w$k
  rsync -a --exclude target /repo/ $PAR/w$k/repo/
  rsync -a --exclude replays /verif/ $PAR/w$k/verif/
  mkdir -p $PAR/w$k/verif/replays
  git -C $PAR/w$k/repo checkout -q -- . 2>/dev/null
done
worker() {
  k=$1
  awk -v n=$N -v k=$k 'NR % n == k % n' "$JOBS" | while read name dir ids; do
    [ -z "$name" ] && continue
    [ "$ids" = "ALL" ] && ids="C01 C02 C03 C04 C05 C06 C07 C08 C09 C10 C11 C12 C13 C14 C15 C16 C17 C18"
    cp $dir/patch.diff $PAR/w$k/job.diff
    unshare -m bash -c "mount --bind $PAR/w$k/repo /repo && mount --bind $PAR/w$k/verif /verif && cd /verif && \
      git -C /repo checkout -q -- . && git -C /repo apply $PAR/w$k/job.diff || echo 'patch does not apply'; \
      for id in $ids; do ./check \$id 2>&1 | grep -E 'VIOLATION|BUILD|KNOWN-FINDING|quick:' | head -4; done; \
      git -C /repo checkout -q -- ." > "$RES/$name.log" 2>&1 < /dev/null
    echo "done $name (worker $k)"
  done
}
for k in $(seq 1 $N); do worker $k & done
wait
[ -n "$KEEP" ] || for k in $(seq 1 $N); do rm -rf $PAR/w$k; done
rmdir $PAR 2>/dev/null
echo "all jobs done"
