#!/bin/bash
# Applies every seeded change to /repo in turn, runs the quick check of the property it breaks, restores /repo.
# Prints one line per seed: name, property, verdict (CAUGHT with/without failing input | MISSED).
cd /verif
for d in seeded/*/; do
  name=$(basename $d)
  pid=$(python3 -c "import json;print(json.load(open('$d/meta.json'))['property'][:3])")
  out=$(tools/eval_seed.sh /verif/$d $pid 2>&1)
  if echo "$out" | grep -q "VIOLATION property=$pid.*no-failing-input-found"; then v="CAUGHT (no failing input)";
  elif echo "$out" | grep -q "VIOLATION property=$pid"; then v="CAUGHT (replay)";
  else v="MISSED"; fi
  echo "$name $pid $v"
done
