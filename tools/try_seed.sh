#!/bin/bash
# usage: try_seed.sh <property id> <worktree> <seed-name> [extra check ids...]
# Confirms the seeded change in the scratch worktree (existing tests pass; demo fails with, passes without),
# stores it under /verif/seeded/<seed-name>/, applies it to /repo, runs the property's quick check(s), restores /repo.
set -u
PID=$1; WT=$2; NAME=$3; shift 3; EXTRA="$@"
OUT=/verif/seeded/$NAME; mkdir -p $OUT
cd $WT || exit 2
git diff -- src > $OUT/patch.diff
[ -s $OUT/patch.diff ] || cp $WT/seed.diff $OUT/patch.diff
cp $WT/tests/seed_demo.rs $OUT/seed_demo.rs 2>/dev/null
export CARGO_NET_OFFLINE=true
echo "== with change: existing tests"; cargo test --offline --lib 2>&1 | grep "test result" | head -2
echo "== with change: demo"; cargo test --offline --test seed_demo 2>&1 | grep "test result" | head -2
git diff -- src > /tmp/.try_seed_$$.diff; git checkout -q -- src
echo "== without change: demo"; cargo test --offline --test seed_demo 2>&1 | grep "test result" | head -2
git apply /tmp/.try_seed_$$.diff; rm -f /tmp/.try_seed_$$.diff
cd /repo && git apply $OUT/patch.diff || { echo "patch does not apply"; exit 2; }
cd /verif
for id in $PID $EXTRA; do
  echo "== ./check $id on the seeded tree"; ./check $id 2>&1 | grep -E "VIOLATION|KNOWN|BUILD|quick:" | head -5
done
git -C /repo checkout -- . ; git -C /repo status --short | head -3
