#!/bin/bash
# usage: eval_harmless.sh <dir with patch.diff>  — applies a behaviour-preserving patch to /repo, runs all 18 quick checks,
# prints every VIOLATION / BUILD line (expected: none), restores /repo
D=$1
git -C /repo status --short | grep -q . && { echo "/repo not clean"; exit 2; }
git -C /repo apply $D/patch.diff || { echo "patch does not apply"; exit 2; }
cd /verif
for id in C01 C02 C03 C04 C05 C06 C07 C08 C09 C10 C11 C12 C13 C14 C15 C16 C17 C18; do
  ./check $id 2>&1 | grep -E "VIOLATION|BUILD" | head -2
done
git -C /repo checkout -- . ; git -C /repo status --short | head -3
echo "done $D"
