#!/usr/bin/env python3
"""Writes MANIFEST.json from the per-property table below (kept in one place so it stays valid)."""
import json, os, subprocess
V = os.path.dirname(os.path.dirname(os.path.abspath(__file__)))
hooks_commit = "2fb33e1"
P = json.load(open(os.path.join(V, "tools", "claims.json")))
checks = []
for pid in sorted(P):
    e = P[pid]
    checks.append({
        "property_id": pid,
        "quick_cmd": "./check %s --tier quick" % pid,
        "thorough_cmd": "./check %s --tier thorough" % pid,
        "evidence_file": "evidence/%s.json" % pid,
        "replay_cmd_template": "./check %s --replay {path}" % pid,
        "engine": "lean4-model+correspondence",
        "level_claimed": {"category": e["category"], "text": e["text"], "design_ref": "DESIGN.md §6 %s" % pid},
        "level_note": e["note"],
        "technique": e["technique"],
    })
m = {
    "version": 1,
    "setup_cmd": "./setup.sh",
    "hooks": {
        "guard": "ashyanspada_expression_engine_rs_verif",
        "enable": "RUSTFLAGS=--cfg ashyanspada_expression_engine_rs_verif, set by /verif/harness/.cargo/config.toml for the harness build (path dependency on /repo)",
        "baseline_off_cmd": "cd /repo && cargo test --workspace --no-fail-fast --offline",
        "source_commits": [hooks_commit],
        "add_only": True,
    },
    "engines": [
        {"name": "lean4-model+correspondence", "path": "lean/EE", "serves_properties": sorted(P),
         "kind_free_text": "Lean 4 model of the engine with property theorems (lean/EE/EE/Props), regenerated facts (EE/Gen) and a compiled model driver diffed against the real crate through harness/ (line protocol)"},
    ],
    "checks": checks,
    "not_applicable": [],
    "notes": "All 18 properties are claimed. Known findings (recorded, not repaired): KF-C10-gap, KF-C11-juxtaposed, KF-C13-multiread, KF-C17-from-wide — see known_findings.json and DESIGN.md §1.3/§12. Genuine defects repaired by fix: commits are listed under 'fixed' in known_findings.json.",
}
json.dump(m, open(os.path.join(V, "MANIFEST.json"), "w"), indent=1, ensure_ascii=False)
print("MANIFEST.json written:", len(checks), "checks")
