#!/bin/bash
# Applies every behaviour-preserving refactoring under /verif/harmless to /repo in turn and runs all 18 quick checks:
# no VIOLATION line is expected for any of them.
cd /verif
for d in harmless/*/; do echo "=== $d"; tools/eval_harmless.sh /verif/$d 2>&1 | grep -E "VIOLATION|BUILD|not apply" ; done
