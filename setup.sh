#!/bin/bash
# Build the framework from files on disk only (offline): harness in both profiles, regenerated
# facts, the whole Lean project (model, lemmas, property theorems) and the model driver.
set -e
cd "$(dirname "$0")"
export CARGO_NET_OFFLINE=true
[ -f harness/Cargo.lock ] || cp /repo/Cargo.lock harness/Cargo.lock
(cd harness && cargo build --offline --quiet && cargo build --offline --quiet --release)
python3 tools/gen_runtime.py .build/harness/debug/eeharness lean/EE/EE/Gen
[ -f tools/gen_source.py ] && python3 tools/gen_source.py /repo lean/EE/EE/Gen
(cd lean/EE && lake build EE eedriver)
echo "setup done"
