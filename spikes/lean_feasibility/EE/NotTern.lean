/-! Spike 2: Pratt loop with `x not OP y` look-through and the conditional handled only at level 0
    (the shape of fixes F3/F4/F5). Relation-level round trip for canonical trees. -/
namespace NT

inductive Tok | atom (n : Nat) | op (o : Nat) | notk | q | colon | lp | rp
deriving DecidableEq, Repr
inductive AST | atom (n : Nat) | bin (o : Nat) (l r : AST) | unNot (e : AST) | tern (c a b : AST)
deriving DecidableEq, Repr

structure Tbl where
  prec : Nat → Nat
  left : Nat → Bool
structure Tbl.WF (t : Tbl) : Prop where
  pos : ∀ o, 0 < t.prec o
  assoc : ∀ o o', t.prec o = t.prec o' → t.left o = t.left o'

def lbp (t : Tbl) (o : Nat) : Nat := 2 * t.prec o
def rbp (t : Tbl) (o : Nat) : Nat := if t.left o then 2 * t.prec o + 1 else 2 * t.prec o - 1

inductive Head | none | bad | question (rest : List Tok) | binop (nt : Bool) (o : Nat) (rest : List Tok)

def headOp : List Tok → Head
  | .q :: r => .question r
  | .notk :: .op o :: r => .binop true o r
  | .notk :: _ => .bad
  | .op o :: r => .binop false o r
  | _ => .none

def gate (t : Tbl) (rb : Nat) (ts : List Tok) : Bool :=
  match headOp ts with
  | .binop _ o2 _ => rb < lbp t o2
  | _ => false

def wrap (nt : Bool) (e : AST) : AST := if nt then .unNot e else e

mutual
def parsePrimary (t : Tbl) (fuel : Nat) (ts : List Tok) : Option (AST × List Tok) :=
  match fuel with
  | 0 => none
  | fuel+1 =>
    match ts with
    | .atom n :: ts => some (.atom n, ts)
    | .lp :: ts =>
      match parseExpr t fuel ts with
      | some (e, .rp :: ts') => some (e, ts')
      | _ => none
    | _ => none
def parseExpr (t : Tbl) (fuel : Nat) (ts : List Tok) : Option (AST × List Tok) :=
  match fuel with
  | 0 => none
  | fuel+1 =>
    match parsePrimary t fuel ts with
    | some (l, ts') => parseOp t fuel 0 l ts'
    | none => none
def parseOp (t : Tbl) (fuel : Nat) (p : Nat) (lhs : AST) (ts : List Tok) : Option (AST × List Tok) :=
  match fuel with
  | 0 => none
  | fuel+1 =>
    match headOp ts with
    | .none => some (lhs, ts)
    | .bad => none
    | .question r =>
      if 0 < p then some (lhs, ts) else
      match parseExpr t fuel r with
      | some (a, .colon :: r2) =>
        match parseExpr t fuel r2 with
        | some (b, r3) => some (.tern lhs a b, r3)
        | none => none
      | _ => none
    | .binop nt o r =>
      if lbp t o < p then some (lhs, ts) else
      match parsePrimary t fuel r with
      | none => none
      | some (rhs, r2) =>
        if gate t (rbp t o) r2 then
          match parseOp t fuel (rbp t o) rhs r2 with
          | some (rhs', r3) => parseOp t fuel p (wrap nt (.bin o lhs rhs')) r3
          | none => none
        else parseOp t fuel p (wrap nt (.bin o lhs rhs)) r2
end

def tbl : Tbl := { prec := fun o => o / 2 + 1, left := fun o => o % 2 == 0 }
-- `1 op0 2 not op2 3 ? 4 : 5`  ⇒  (1 op0 not(2 op2 3)) ? 4 : 5
example : parseExpr tbl 50 [.atom 1, .op 0, .atom 2, .notk, .op 2, .atom 3, .q, .atom 4, .colon, .atom 5]
   = some (.tern (.bin 0 (.atom 1) (.unNot (.bin 2 (.atom 2) (.atom 3)))) (.atom 4) (.atom 5), []) := by decide

mutual
inductive PPrim (t : Tbl) : List Tok → AST → List Tok → Prop
  | atom {n ts} : PPrim t (.atom n :: ts) (.atom n) ts
  | paren {ts e ts'} : PExpr t ts e (.rp :: ts') → PPrim t (.lp :: ts) e ts'
inductive PExpr (t : Tbl) : List Tok → AST → List Tok → Prop
  | mk {ts l ts' e ts''} : PPrim t ts l ts' → POp t 0 l ts' e ts'' → PExpr t ts e ts''
inductive POp (t : Tbl) : Nat → AST → List Tok → AST → List Tok → Prop
  | stopNone {p lhs ts} : headOp ts = .none → POp t p lhs ts lhs ts
  | stopQ {p lhs ts r} : headOp ts = .question r → 0 < p → POp t p lhs ts lhs ts
  | tern {p lhs ts r a r2 b r3} : headOp ts = .question r → ¬ 0 < p →
      PExpr t r a (.colon :: r2) → PExpr t r2 b r3 → POp t p lhs ts (.tern lhs a b) r3
  | stopLow {p lhs ts nt o r} : headOp ts = .binop nt o r → lbp t o < p → POp t p lhs ts lhs ts
  | stepNoRec {p lhs ts nt o r rhs r2 e fin} : headOp ts = .binop nt o r → ¬ lbp t o < p →
      PPrim t r rhs r2 → gate t (rbp t o) r2 = false →
      POp t p (wrap nt (.bin o lhs rhs)) r2 e fin → POp t p lhs ts e fin
  | stepRec {p lhs ts nt o r rhs r2 rhs' r3 e fin} : headOp ts = .binop nt o r → ¬ lbp t o < p →
      PPrim t r rhs r2 → gate t (rbp t o) r2 = true →
      POp t (rbp t o) rhs r2 rhs' r3 →
      POp t p (wrap nt (.bin o lhs rhs')) r3 e fin → POp t p lhs ts e fin
end

inductive CST | atom (n : Nat) | paren (c : CST) | bin (nt : Bool) (o : Nat) (l r : CST) | tern (c a b : CST)

def opToks (nt : Bool) (o : Nat) : List Tok := if nt then [.notk, .op o] else [.op o]

namespace CST
def flatten : CST → List Tok
  | atom n => [.atom n]
  | paren c => .lp :: (flatten c ++ [.rp])
  | bin nt o l r => flatten l ++ (opToks nt o ++ flatten r)
  | tern c a b => flatten c ++ (.q :: (flatten a ++ (.colon :: flatten b)))
def strip : CST → AST
  | atom n => .atom n
  | paren c => strip c
  | bin nt o l r => wrap nt (.bin o (strip l) (strip r))
  | tern c a b => .tern (strip c) (strip a) (strip b)
def lead : CST → CST
  | bin _ _ l _ => lead l
  | tern c _ _ => lead c
  | c => c
def tail : CST → List Tok
  | bin nt o l r => tail l ++ (opToks nt o ++ flatten r)
  | tern c a b => tail c ++ (.q :: (flatten a ++ (.colon :: flatten b)))
  | _ => []
def spineOps : CST → List Nat
  | bin _ o l _ => spineOps l ++ [o]
  | _ => []
def root? : CST → Option Nat
  | bin _ o _ _ => some o
  | _ => none
def isTern : CST → Bool
  | tern _ _ _ => true
  | _ => false
end CST
open CST

def okLeft (t : Tbl) (o' o : Nat) : Prop := t.prec o < t.prec o' ∨ (t.prec o' = t.prec o ∧ t.left o = true)
def okRight (t : Tbl) (o o' : Nat) : Prop := t.prec o < t.prec o' ∨ (t.prec o' = t.prec o ∧ t.left o = false)

def Canon (t : Tbl) : CST → Prop
  | .atom _ => True
  | .paren c => Canon t c
  | .bin _ o l r => Canon t l ∧ Canon t r ∧ l.isTern = false ∧ r.isTern = false ∧
      (∀ o', l.root? = some o' → okLeft t o' o) ∧ (∀ o', r.root? = some o' → okRight t o o')
  | .tern c a b => Canon t c ∧ c.isTern = false ∧ Canon t a ∧ Canon t b

theorem flatten_lead_tail (c : CST) : c.flatten = c.lead.flatten ++ c.tail := by
  induction c with
  | atom n => simp [flatten, lead, tail]
  | paren c ih => simp [flatten, lead, tail]
  | bin nt o l r ihl ihr => simp [flatten, lead, tail, ihl, List.append_assoc]
  | tern c a b ihc _ _ => simp [flatten, lead, tail, ihc, List.append_assoc]

theorem headOp_opToks (nt : Bool) (o : Nat) (r : List Tok) : headOp (opToks nt o ++ r) = .binop nt o r := by
  cases nt <;> simp [opToks, headOp]

theorem nonbin_lead (c : CST) (h : c.root? = none) (ht : c.isTern = false) : c.lead = c ∧ c.tail = [] := by
  cases c <;> simp_all [lead, tail, root?, isTern]

theorem bp_lt_of_prec_lt (t : Tbl) (o o' : Nat) (h : t.prec o < t.prec o') : rbp t o < lbp t o' := by
  unfold rbp lbp; split <;> omega
theorem lbp_lt_rbp_of_prec_lt (t : Tbl) (o o' : Nat) (h : t.prec o' < t.prec o) : lbp t o' < rbp t o := by
  unfold rbp lbp; split <;> omega
theorem lbp_lt_rbp_of_left (t : Tbl) (o o' : Nat) (h : t.prec o' = t.prec o) (hl : t.left o = true) : lbp t o' < rbp t o := by
  unfold rbp lbp; simp [hl]; omega
theorem rbp_lt_lbp_of_right (t : Tbl) (wf : t.WF) (o o' : Nat) (h : t.prec o' = t.prec o) (hl : t.left o = false) : rbp t o < lbp t o' := by
  unfold rbp lbp; simp [hl]; have := wf.pos o; omega
theorem lbp_mono (t : Tbl) (o o' : Nat) (h : t.prec o ≤ t.prec o') : lbp t o ≤ lbp t o' := by
  unfold lbp; omega
theorem rbp_mono (t : Tbl) (wf : t.WF) (o o' : Nat) (h : t.prec o ≤ t.prec o') : rbp t o ≤ rbp t o' := by
  unfold rbp
  rcases Nat.lt_or_eq_of_le h with h1 | h1
  · split <;> split <;> omega
  · have := wf.assoc o o' h1; rw [this]; split <;> omega
theorem lbp_ne_rbp (t : Tbl) (wf : t.WF) (o o' : Nat) : lbp t o' ≠ rbp t o := by
  unfold lbp rbp; have := wf.pos o; split <;> omega
theorem rbp_pos (t : Tbl) (wf : t.WF) (o : Nat) : 0 < rbp t o := by
  unfold rbp; have := wf.pos o; split <;> omega

theorem spine_prec (t : Tbl) (c : CST) (hc : Canon t c) :
    ∀ o r, c.root? = some r → o ∈ c.spineOps → t.prec r ≤ t.prec o := by
  induction c with
  | atom n => intro o r h; simp [root?] at h
  | paren c ih => intro o r h; simp [root?] at h
  | tern c a b _ _ _ => intro o r h; simp [root?] at h
  | bin nt o' l r' ihl _ =>
    intro o r h ho
    simp [root?] at h; subst h
    simp [spineOps] at ho
    rcases ho with ho | ho
    · obtain ⟨hl, _, _, _, hL, _⟩ := hc
      cases hl' : l.root? with
      | none => cases l <;> simp_all [spineOps, root?]
      | some rl =>
        have h1 := ihl hl o rl hl' ho
        have h2 := hL rl hl'
        unfold okLeft at h2
        omega
    · subst ho; exact Nat.le_refl _

theorem tail_head (t : Tbl) (c : CST) (hc : Canon t c) (o : Nat) (h : c.root? = some o) :
    ∃ nt o2 ts, c.tail = opToks nt o2 ++ ts ∧ o2 ∈ c.spineOps := by
  induction c generalizing o with
  | atom n => simp [root?] at h
  | paren c ih => simp [root?] at h
  | tern c a b _ _ _ => simp [root?] at h
  | bin nt o' l r ihl _ =>
    obtain ⟨hl, _, hlt, _, _, _⟩ := hc
    cases hlr : l.root? with
    | none =>
      have := nonbin_lead l hlr hlt
      exact ⟨nt, o', r.flatten, by simp [tail, this.2], by simp [spineOps]⟩
    | some rl =>
      obtain ⟨nt2, o2, ts, h1, h2⟩ := ihl hl rl hlr
      exact ⟨nt2, o2, ts ++ (opToks nt o' ++ r.flatten), by simp [tail, h1], by simp [spineOps, h2]⟩

def RestOK (rest : List Tok) : Prop := headOp rest ≠ .bad
def GateOK (t : Tbl) (c : CST) (rest : List Tok) : Prop := ∀ o, c.root? = some o → gate t (rbp t o) rest = false
def Stops0 (rest : List Tok) : Prop := headOp rest = .none

structure M (t : Tbl) (c : CST) : Prop where
  a : ∀ X, PPrim t (c.lead.flatten ++ X) c.lead.strip X
  b : c.isTern = false → ∀ p rest e fin, (∀ o ∈ c.spineOps, ¬ lbp t o < p) → GateOK t c rest → RestOK rest →
        POp t p c.strip rest e fin → POp t p c.lead.strip (c.tail ++ rest) e fin
  c : c.isTern = true → ∀ rest, Stops0 rest → POp t 0 c.lead.strip (c.tail ++ rest) c.strip rest

theorem top_of_M {t : Tbl} {c : CST} (m : M t c) (rest : List Tok) (hs : Stops0 rest) :
    PExpr t (c.flatten ++ rest) c.strip rest := by
  rw [flatten_lead_tail, List.append_assoc]
  refine PExpr.mk (m.a _) ?_
  cases ht : c.isTern with
  | false =>
    apply m.b ht 0 rest _ _ (fun o _ => by omega)
    · intro o _; unfold Stops0 at hs; simp [gate, hs]
    · unfold RestOK; unfold Stops0 at hs; simp [hs]
    · exact POp.stopNone hs
  | true => exact m.c ht rest hs

theorem main (t : Tbl) (wf : t.WF) (c : CST) (hc : Canon t c) : M t c := by
  induction c with
  | atom n =>
    refine ⟨fun X => ?_, fun _ p rest e fin _ _ _ h => ?_, fun h => ?_⟩
    · simpa [lead, flatten, strip] using PPrim.atom
    · simpa [lead, tail, strip] using h
    · simp [isTern] at h
  | paren c ih =>
    have m := ih hc
    refine ⟨fun X => ?_, fun _ p rest e fin _ _ _ h => ?_, fun h => ?_⟩
    · simp only [lead, flatten, strip, List.cons_append, List.append_assoc]
      exact PPrim.paren (top_of_M m _ (by simp [Stops0, headOp]))
    · simpa [lead, tail, strip] using h
    · simp [isTern] at h
  | tern c a b ihc iha ihb =>
    obtain ⟨hcc, hct, hca, hcb⟩ := hc
    have mc := ihc hcc; have ma := iha hca; have mb := ihb hcb
    refine ⟨fun X => by simpa [lead] using mc.a X, fun h => by simp [isTern] at h, fun _ rest hs => ?_⟩
    simp only [lead, tail, strip, List.append_assoc, List.cons_append]
    apply mc.b hct 0 _ _ _ (fun o _ => by omega)
    · intro o _; simp [gate, headOp]
    · simp [RestOK, headOp]
    · refine POp.tern (r := a.flatten ++ (.colon :: (b.flatten ++ rest))) (r2 := b.flatten ++ rest) (by simp [headOp]) (by omega) ?_ ?_
      · exact top_of_M ma _ (by simp [Stops0, headOp])
      · exact top_of_M mb _ hs
  | bin nt o l r ihl ihr =>
    obtain ⟨hl, hr, hlt, hrt, hL, hR⟩ := hc
    have ml := ihl hl; have mr := ihr hr
    refine ⟨fun X => by simpa [lead] using ml.a X, fun _ p rest e fin hsp hgate hrest h => ?_, fun h => by simp [isTern] at h⟩
    simp only [lead, tail, List.append_assoc]
    have hop : ¬ lbp t o < p := hsp o (by simp [spineOps])
    apply ml.b hlt p _ _ _ (fun o' ho' => hsp o' (by simp [spineOps, ho']))
    · -- gate for l against `opToks nt o ++ …`
      intro ol hol
      simp only [gate, headOp_opToks]
      have := hL ol hol
      unfold okLeft at this
      rcases this with h1 | ⟨h1, h2⟩
      · have := lbp_lt_rbp_of_prec_lt t ol o h1; simp; omega
      · have hlo : t.left ol = true := by rw [wf.assoc ol o h1]; exact h2
        have := lbp_lt_rbp_of_left t ol o h1.symm hlo; simp; omega
    · simp [RestOK, headOp_opToks]
    · -- loop step at `opToks nt o ++ flatten r ++ rest` with lhs = strip l
      have hhead : headOp (opToks nt o ++ (r.flatten ++ rest)) = .binop nt o (r.flatten ++ rest) := headOp_opToks _ _ _
      have hstrip : (CST.bin nt o l r).strip = wrap nt (.bin o l.strip r.strip) := rfl
      rw [hstrip] at h
      cases hrr : r.root? with
      | none =>
        have hnb := nonbin_lead r hrr hrt
        have hp := mr.a rest
        rw [hnb.1] at hp
        refine POp.stepNoRec hhead hop hp ?_ h
        exact hgate o (by simp [root?])
      | some rr =>
        obtain ⟨nt2, o2, ts, htl, ho2⟩ := tail_head t r hr rr hrr
        have hprec : t.prec rr ≤ t.prec o2 := spine_prec t r hr o2 rr hrr ho2
        have hRr := hR rr hrr
        have hroot : rbp t o < lbp t rr := by
          unfold okRight at hRr
          rcases hRr with h1 | ⟨h1, h2⟩
          · exact bp_lt_of_prec_lt t o rr h1
          · exact rbp_lt_lbp_of_right t wf o rr h1 h2
        have hgate2 : rbp t o < lbp t o2 := Nat.lt_of_lt_of_le hroot (lbp_mono t rr o2 hprec)
        have hrec : POp t (rbp t o) r.lead.strip (r.tail ++ rest) r.strip rest := by
          apply mr.b hrt (rbp t o) rest _ _ ?_ ?_ hrest ?_
          · intro o'' ho''
            have hp := spine_prec t r hr o'' rr hrr ho''
            have := lbp_mono t rr o'' hp; omega
          · intro orr horr
            rw [hrr] at horr; cases horr
            have hg := hgate o (by simp [root?])
            have hprr : t.prec o ≤ t.prec rr := by unfold okRight at hRr; omega
            have hm := rbp_mono t wf o rr hprr
            unfold gate at hg ⊢
            split at hg <;> simp_all
            omega
          · -- the inner loop stops at `rest`
            have hg := hgate o (by simp [root?])
            unfold gate at hg
            cases hh : headOp rest with
            | none => exact POp.stopNone hh
            | bad => exact absurd hh hrest
            | question r' => exact POp.stopQ hh (rbp_pos t wf o)
            | binop nt3 o3 r' =>
              rw [hh] at hg; simp at hg
              have hne := lbp_ne_rbp t wf o o3
              exact POp.stopLow hh (by omega)
        have hprim := mr.a (r.tail ++ rest)
        have hfl : r.flatten ++ rest = r.lead.flatten ++ (r.tail ++ rest) := by
          rw [flatten_lead_tail r, List.append_assoc]
        rw [hfl] at hhead ⊢
        refine POp.stepRec hhead hop hprim ?_ hrec h
        rw [htl, List.append_assoc]; simp [gate, headOp_opToks, hgate2]

/-- Relation-level round trip for the grammar with `not`-forms and conditionals. -/
theorem roundtrip (t : Tbl) (wf : t.WF) (c : CST) (hc : Canon t c) (rest : List Tok) (hs : Stops0 rest) :
    PExpr t (c.flatten ++ rest) c.strip rest :=
  top_of_M (main t wf c hc) rest hs

end NT
