import EE.Basic

/-! Spike: Pratt loop vs canonical trees, binary-only grammar with parentheses. -/

inductive CST | atom (n : Nat) | paren (c : CST) | bin (o : Nat) (l r : CST)

namespace CST
def flatten : CST → List Tok
  | atom n => [.atom n]
  | paren c => .lp :: (flatten c ++ [.rp])
  | bin o l r => flatten l ++ .op o :: flatten r
def strip : CST → AST
  | atom n => .atom n
  | paren c => strip c
  | bin o l r => .bin o (strip l) (strip r)
def lead : CST → CST
  | bin _ l _ => lead l
  | c => c
def tail : CST → List Tok
  | bin o l r => tail l ++ .op o :: flatten r
  | _ => []
def spineOps : CST → List Nat
  | bin o l _ => spineOps l ++ [o]
  | _ => []
def root? : CST → Option Nat
  | bin o _ _ => some o
  | _ => none
end CST
open CST

structure Tbl.WF (t : Tbl) : Prop where
  pos : ∀ o, 0 < t.prec o
  assoc : ∀ o o', t.prec o = t.prec o' → t.left o = t.left o'

def okLeft (t : Tbl) (o' o : Nat) : Prop := t.prec o < t.prec o' ∨ (t.prec o' = t.prec o ∧ t.left o = true)
def okRight (t : Tbl) (o o' : Nat) : Prop := t.prec o < t.prec o' ∨ (t.prec o' = t.prec o ∧ t.left o = false)

def Canon (t : Tbl) : CST → Prop
  | .atom _ => True
  | .paren c => Canon t c
  | .bin o l r => Canon t l ∧ Canon t r ∧ (∀ o', l.root? = some o' → okLeft t o' o) ∧ (∀ o', r.root? = some o' → okRight t o o')

mutual
inductive PPrim (t : Tbl) : List Tok → AST → List Tok → Prop
  | atom {n ts} : PPrim t (.atom n :: ts) (.atom n) ts
  | paren {ts e ts'} : PExpr t ts e (.rp :: ts') → PPrim t (.lp :: ts) e ts'
inductive PExpr (t : Tbl) : List Tok → AST → List Tok → Prop
  | mk {ts l ts' e ts''} : PPrim t ts l ts' → POp t 0 l ts' e ts'' → PExpr t ts e ts''
inductive POp (t : Tbl) : Nat → AST → List Tok → AST → List Tok → Prop
  | stopNonOp {p lhs ts} : (∀ o ts', ts ≠ .op o :: ts') → POp t p lhs ts lhs ts
  | stopLow {p lhs o ts'} : lbp t o < p → POp t p lhs (.op o :: ts') lhs (.op o :: ts')
  | stepNoRec {p lhs o ts' rhs ts'' e r} : ¬ lbp t o < p → PPrim t ts' rhs ts'' →
      (∀ o2 ts3, ts'' = .op o2 :: ts3 → ¬ rbp t o < lbp t o2) →
      POp t p (.bin o lhs rhs) ts'' e r → POp t p lhs (.op o :: ts') e r
  | stepRec {p lhs o ts' rhs o2 ts3 rhs' ts''' e r} : ¬ lbp t o < p → PPrim t ts' rhs (.op o2 :: ts3) →
      rbp t o < lbp t o2 →
      POp t (rbp t o) rhs (.op o2 :: ts3) rhs' ts''' →
      POp t p (.bin o lhs rhs') ts''' e r → POp t p lhs (.op o :: ts') e r
end

theorem flatten_lead_tail (c : CST) : c.flatten = c.lead.flatten ++ c.tail := by
  induction c with
  | atom n => simp [flatten, lead, tail]
  | paren c ih => simp [flatten, lead, tail]
  | bin o l r ihl ihr => simp [flatten, lead, tail, ihl, List.append_assoc]

theorem strip_lead_of_nonbin (c : CST) (h : c.root? = none) : c.lead = c ∧ c.tail = [] := by
  cases c <;> simp_all [lead, tail, root?]

/-- precedence never decreases going down the left spine of a canonical tree -/
theorem spine_prec (t : Tbl) (c : CST) (hc : Canon t c) :
    ∀ o r, c.root? = some r → o ∈ c.spineOps → t.prec r ≤ t.prec o := by
  induction c with
  | atom n => intro o r h; simp [root?] at h
  | paren c ih => intro o r h; simp [root?] at h
  | bin o' l r' ihl _ =>
    intro o r h ho
    simp [root?] at h; subst h
    simp [spineOps] at ho
    rcases ho with ho | ho
    · obtain ⟨hl, _, hL, _⟩ := hc
      cases hl' : l.root? with
      | none => cases l <;> simp_all [spineOps, root?]
      | some rl =>
        have h1 := ihl hl o rl hl' ho
        have h2 := hL rl hl'
        unfold okLeft at h2
        omega
    · subst ho; exact Nat.le_refl _


theorem bp_lt_of_prec_lt (t : Tbl) (o o' : Nat) (h : t.prec o < t.prec o') : rbp t o < lbp t o' := by
  unfold rbp lbp; split <;> omega
theorem lbp_lt_rbp_of_prec_lt (t : Tbl) (o o' : Nat) (h : t.prec o' < t.prec o) : lbp t o' < rbp t o := by
  unfold rbp lbp; split <;> omega
theorem lbp_lt_rbp_of_left (t : Tbl) (o o' : Nat) (h : t.prec o' = t.prec o) (hl : t.left o = true) : lbp t o' < rbp t o := by
  unfold rbp lbp; simp [hl]; omega
theorem rbp_lt_lbp_of_right (t : Tbl) (wf : t.WF) (o o' : Nat) (h : t.prec o' = t.prec o) (hl : t.left o = false) : rbp t o < lbp t o' := by
  unfold rbp lbp; simp [hl]; have := wf.pos o; omega
theorem lbp_mono (t : Tbl) (o o' : Nat) (h : t.prec o ≤ t.prec o') : lbp t o ≤ lbp t o' := by
  unfold lbp; omega
theorem rbp_mono (t : Tbl) (wf : t.WF) (o o' : Nat) (h : t.prec o ≤ t.prec o') : rbp t o ≤ rbp t o' := by
  unfold rbp
  rcases Nat.lt_or_eq_of_le h with h1 | h1
  · split <;> split <;> omega
  · have := wf.assoc o o' h1; rw [this]; split <;> omega

def GateOK (t : Tbl) (c : CST) (rest : List Tok) : Prop :=
  ∀ o, c.root? = some o → ∀ o2 ts, rest = .op o2 :: ts → ¬ rbp t o < lbp t o2

theorem tail_head (c : CST) (o : Nat) (h : c.root? = some o) :
    ∃ o2 ts, c.tail = .op o2 :: ts ∧ o2 ∈ c.spineOps := by
  induction c generalizing o with
  | atom n => simp [root?] at h
  | paren c ih => simp [root?] at h
  | bin o' l r ihl _ =>
    cases hl : l.root? with
    | none =>
      have := strip_lead_of_nonbin l hl
      exact ⟨o', r.flatten, by simp [tail, this.2], by simp [spineOps]⟩
    | some rl =>
      obtain ⟨o2, ts, h1, h2⟩ := ihl rl hl
      exact ⟨o2, ts ++ .op o' :: r.flatten, by simp [tail, h1], by simp [spineOps, h2]⟩

theorem main (t : Tbl) (wf : t.WF) (c : CST) (hc : Canon t c) :
    (∀ X, PPrim t (c.lead.flatten ++ X) c.lead.strip X) ∧
    (∀ p rest e fin, (∀ o ∈ c.spineOps, ¬ lbp t o < p) → GateOK t c rest →
        POp t p c.strip rest e fin → POp t p c.lead.strip (c.tail ++ rest) e fin) := by
  induction c with
  | atom n =>
    refine ⟨fun X => ?_, fun p rest e fin _ _ h => ?_⟩
    · simpa [lead, flatten, strip] using PPrim.atom
    · simpa [lead, tail, strip] using h
  | paren c ih =>
    obtain ⟨iha, ihb⟩ := ih hc
    refine ⟨fun X => ?_, fun p rest e fin _ _ h => ?_⟩
    · simp only [lead, flatten, strip, List.cons_append, List.append_assoc]
      apply PPrim.paren
      rw [flatten_lead_tail c, List.append_assoc]
      refine PExpr.mk (iha _) ?_
      apply ihb 0 _ _ _ (fun o _ => by omega)
      · intro o _ o2 ts h; simp at h
      · exact POp.stopNonOp (by intro o ts' h; simp at h)
    · simpa [lead, tail, strip] using h
  | bin o l r ihl ihr =>
    obtain ⟨hl, hr, hL, hR⟩ := hc
    obtain ⟨ihla, ihlb⟩ := ihl hl
    obtain ⟨ihra, ihrb⟩ := ihr hr
    refine ⟨fun X => by simpa [lead] using ihla X, fun p rest e fin hsp hgate h => ?_⟩
    simp only [lead, tail, List.append_assoc, List.cons_append]
    have hop : ¬ lbp t o < p := hsp o (by simp [spineOps])
    apply ihlb p _ _ _ (fun o' ho' => hsp o' (by simp [spineOps, ho']))
    · -- gate for l: next token is `op o`
      intro ol hol o2 ts heq
      simp at heq; obtain ⟨hoo, _⟩ := heq; subst hoo
      have := hL ol hol
      unfold okLeft at this
      rcases this with h1 | ⟨h1, h2⟩
      · have := lbp_lt_rbp_of_prec_lt t ol o h1; omega
      · have hlo : t.left ol = true := by rw [wf.assoc ol o h1]; exact h2
        have := lbp_lt_rbp_of_left t ol o h1.symm hlo; omega
    · -- now at `op o :: flatten r ++ rest` with lhs = strip l
      rw [flatten_lead_tail r, List.append_assoc]
      cases hrr : r.root? with
      | none =>
        have hnb := strip_lead_of_nonbin r hrr
        have hp := ihra rest
        rw [hnb.1] at hp
        rw [hnb.1, hnb.2, List.nil_append]
        refine POp.stepNoRec hop hp ?_ h
        intro o2 ts3 heq; exact hgate o (by simp [root?]) o2 ts3 heq
      | some rr =>
        obtain ⟨o2, ts, htl, ho2⟩ := tail_head r rr hrr
        have hprec : t.prec rr ≤ t.prec o2 := spine_prec t r hr o2 rr hrr ho2
        have hRr := hR rr hrr
        have hroot : rbp t o < lbp t rr := by
          unfold okRight at hRr
          rcases hRr with h1 | ⟨h1, h2⟩
          · exact bp_lt_of_prec_lt t o rr h1
          · exact rbp_lt_lbp_of_right t wf o rr h1 h2
        have hgate2 : rbp t o < lbp t o2 := Nat.lt_of_lt_of_le hroot (lbp_mono t rr o2 hprec)
        have hrec : POp t (rbp t o) r.lead.strip (r.tail ++ rest) r.strip rest := by
          apply ihrb (rbp t o) rest _ _ ?_ ?_ ?_
          · intro o'' ho''
            have hp := spine_prec t r hr o'' rr hrr ho''
            have := lbp_mono t rr o'' hp; omega
          · intro orr horr o2' ts' heq
            rw [hrr] at horr; cases horr
            have hg := hgate o (by simp [root?]) o2' ts' heq
            have hprr : t.prec o ≤ t.prec rr := by
              unfold okRight at hRr; omega
            have := rbp_mono t wf o rr hprr; omega
          · cases rest with
            | nil => exact POp.stopNonOp (by intro o ts' h; simp at h)
            | cons tk rest' =>
              cases tk with
              | op o3 =>
                have hg := hgate o (by simp [root?]) o3 rest' rfl
                apply POp.stopLow
                have hne : lbp t o3 ≠ rbp t o := by
                  unfold lbp rbp; have := wf.pos o; split <;> omega
                omega
              | atom n => exact POp.stopNonOp (by intro o ts' h; simp at h)
              | lp => exact POp.stopNonOp (by intro o ts' h; simp at h)
              | rp => exact POp.stopNonOp (by intro o ts' h; simp at h)
        have hprim := ihra (r.tail ++ rest)
        rw [htl] at hprim hrec
        simp only [List.cons_append] at hprim hrec
        rw [htl]; simp only [List.cons_append]
        exact POp.stepRec hop hprim hgate2 hrec h

theorem roundtrip (t : Tbl) (wf : t.WF) (c : CST) (hc : Canon t c) (rest : List Tok)
    (hrest : ∀ o ts, rest ≠ .op o :: ts) : PExpr t (c.flatten ++ rest) c.strip rest := by
  obtain ⟨ha, hb⟩ := main t wf c hc
  rw [flatten_lead_tail, List.append_assoc]
  refine PExpr.mk (ha _) ?_
  apply hb 0 rest _ _ (fun o _ => by omega)
  · intro o _ o2 ts h; exact absurd h (hrest o2 ts)
  · exact POp.stopNonOp hrest
