import EE.Round

/-- function ⇒ relation (soundness of the fuelled functions w.r.t. the relational semantics) -/
theorem fn_to_rel (t : Tbl) (n : Nat) :
    (∀ ts e r, parsePrimary t n ts = some (e, r) → PPrim t ts e r) ∧
    (∀ ts e r, parseExpr t n ts = some (e, r) → PExpr t ts e r) ∧
    (∀ p lhs ts e r, parseOp t n p lhs ts = some (e, r) → POp t p lhs ts e r) := by
  induction n with
  | zero => refine ⟨?_, ?_, ?_⟩ <;> intros <;> simp_all [parsePrimary, parseExpr, parseOp]
  | succ n ih =>
    obtain ⟨ih1, ih2, ih3⟩ := ih
    refine ⟨?_, ?_, ?_⟩
    · intro ts e r h
      unfold parsePrimary at h
      split at h
      · simp at h; obtain ⟨rfl, rfl⟩ := h; exact PPrim.atom
      · split at h
        · simp at h; obtain ⟨rfl, rfl⟩ := h
          exact PPrim.paren (ih2 _ _ _ ‹_›)
        · simp at h
      · simp at h
    · intro ts e r h
      unfold parseExpr at h
      split at h
      · exact PExpr.mk (ih1 _ _ _ ‹_›) (ih3 _ _ _ _ _ h)
      · simp at h
    · intro p lhs ts e r h
      unfold parseOp at h
      split at h
      · split at h
        · simp at h; obtain ⟨rfl, rfl⟩ := h; exact POp.stopLow ‹_›
        · split at h
          · simp at h
          · split at h
            · split at h
              · split at h
                · exact POp.stepRec ‹_› (ih1 _ _ _ ‹_›) ‹_› (ih3 _ _ _ _ _ ‹_›) (ih3 _ _ _ _ _ h)
                · simp at h
              · refine POp.stepNoRec ‹_› (ih1 _ _ _ ‹_›) ?_ (ih3 _ _ _ _ _ h)
                intro o2 ts3 heq; cases heq; assumption
            · refine POp.stepNoRec ‹_› (ih1 _ _ _ ‹_›) ?_ (ih3 _ _ _ _ _ h)
              intro o2 ts3 heq; subst heq; rename_i hne; exact absurd rfl (hne _ _)
      · simp at h; obtain ⟨rfl, rfl⟩ := h
        refine POp.stopNonOp ?_
        intro o ts' heq; subst heq; rename_i hne; exact hne _ _ rfl
