import EE.Adequacy

/-- fuel monotonicity: more fuel never changes a successful answer -/
theorem fuel_mono (t : Tbl) (n : Nat) :
    (∀ ts x, parsePrimary t n ts = some x → parsePrimary t (n+1) ts = some x) ∧
    (∀ ts x, parseExpr t n ts = some x → parseExpr t (n+1) ts = some x) ∧
    (∀ p lhs ts x, parseOp t n p lhs ts = some x → parseOp t (n+1) p lhs ts = some x) := by
  induction n with
  | zero => refine ⟨?_, ?_, ?_⟩ <;> intros <;> simp_all [parsePrimary, parseExpr, parseOp]
  | succ n ih =>
    obtain ⟨ih1, ih2, ih3⟩ := ih
    refine ⟨?_, ?_, ?_⟩
    · intro ts x h
      unfold parsePrimary at h ⊢
      split at h
      · exact h
      · split at h
        · rename_i heq; simp [ih2 _ _ heq]; simpa using h
        · simp at h
      · simp at h
    · intro ts x h
      unfold parseExpr at h ⊢
      split at h
      · rename_i heq; simp [ih1 _ _ heq]; exact ih3 _ _ _ _ h
      · simp at h
    · intro p lhs ts x h
      unfold parseOp at h ⊢
      split at h
      · split at h
        · simp_all
        · rename_i hnlt
          simp only [hnlt, ↓reduceIte]
          split at h
          · simp at h
          · rename_i heq; simp only [ih1 _ _ heq]
            split at h
            · split at h
              · rename_i hlt
                simp only [hlt, ↓reduceIte]
                split at h
                · rename_i heq2; simp only [ih3 _ _ _ _ heq2]; exact ih3 _ _ _ _ h
                · simp at h
              · rename_i hnlt2; simp only [hnlt2, ↓reduceIte]; exact ih3 _ _ _ _ h
            · exact ih3 _ _ _ _ h
      · exact h

theorem fuel_mono_le (t : Tbl) {n m : Nat} (h : n ≤ m) :
    (∀ ts x, parsePrimary t n ts = some x → parsePrimary t m ts = some x) ∧
    (∀ ts x, parseExpr t n ts = some x → parseExpr t m ts = some x) ∧
    (∀ p lhs ts x, parseOp t n p lhs ts = some x → parseOp t m p lhs ts = some x) := by
  induction h with
  | refl => exact ⟨fun _ _ h => h, fun _ _ h => h, fun _ _ _ _ h => h⟩
  | step _ ih =>
    obtain ⟨a, b, c⟩ := ih
    obtain ⟨a', b', c'⟩ := fuel_mono t ‹_›
    exact ⟨fun ts x h => a' _ _ (a _ _ h), fun ts x h => b' _ _ (b _ _ h), fun p l ts x h => c' _ _ _ _ (c _ _ _ _ h)⟩

mutual
theorem rel_to_fn_prim (t : Tbl) : ∀ {ts e r}, PPrim t ts e r → ∃ n, parsePrimary t n ts = some (e, r)
  | _, _, _, .atom => ⟨1, by simp [parsePrimary]⟩
  | _, _, _, .paren h => by
    obtain ⟨n, hn⟩ := rel_to_fn_expr t h
    exact ⟨n+1, by simp [parsePrimary, hn]⟩
theorem rel_to_fn_expr (t : Tbl) : ∀ {ts e r}, PExpr t ts e r → ∃ n, parseExpr t n ts = some (e, r)
  | _, _, _, .mk h1 h2 => by
    obtain ⟨n1, hn1⟩ := rel_to_fn_prim t h1
    obtain ⟨n2, hn2⟩ := rel_to_fn_op t h2
    refine ⟨max n1 n2 + 1, ?_⟩
    have a := (fuel_mono_le t (Nat.le_max_left n1 n2)).1 _ _ hn1
    have b := (fuel_mono_le t (Nat.le_max_right n1 n2)).2.2 _ _ _ _ hn2
    simp [parseExpr, a, b]
theorem rel_to_fn_op (t : Tbl) : ∀ {p lhs ts e r}, POp t p lhs ts e r → ∃ n, parseOp t n p lhs ts = some (e, r)
  | _, _, ts, _, _, .stopNonOp hne => ⟨1, by
      unfold parseOp
      split
      · rename_i o ts'; exact absurd rfl (hne o ts')
      · rfl⟩
  | _, _, _, _, _, .stopLow hlt => ⟨1, by simp [parseOp, hlt]⟩
  | _, _, _, _, _, .stepNoRec (ts'' := ts'') hnlt h1 hg h2 => by
    obtain ⟨n1, hn1⟩ := rel_to_fn_prim t h1
    obtain ⟨n2, hn2⟩ := rel_to_fn_op t h2
    refine ⟨max n1 n2 + 1, ?_⟩
    have a := (fuel_mono_le t (Nat.le_max_left n1 n2)).1 _ _ hn1
    have b := (fuel_mono_le t (Nat.le_max_right n1 n2)).2.2 _ _ _ _ hn2
    unfold parseOp
    simp only [hnlt, ↓reduceIte, a]
    split
    · rename_i o2 ts3; simp only [hg o2 ts3 rfl, ↓reduceIte]; exact b
    · exact b
  | _, _, _, _, _, .stepRec hnlt h1 hlt h2 h3 => by
    obtain ⟨n1, hn1⟩ := rel_to_fn_prim t h1
    obtain ⟨n2, hn2⟩ := rel_to_fn_op t h2
    obtain ⟨n3, hn3⟩ := rel_to_fn_op t h3
    refine ⟨max n1 (max n2 n3) + 1, ?_⟩
    have a := (fuel_mono_le t (Nat.le_max_left n1 (max n2 n3))).1 _ _ hn1
    have b := (fuel_mono_le t (Nat.le_trans (Nat.le_max_left n2 n3) (Nat.le_max_right n1 _))).2.2 _ _ _ _ hn2
    have c := (fuel_mono_le t (Nat.le_trans (Nat.le_max_right n2 n3) (Nat.le_max_right n1 _))).2.2 _ _ _ _ hn3
    unfold parseOp
    simp only [hnlt, ↓reduceIte, a, hlt, b]
    exact c
end

/-- The headline of the spike: for every canonical tree, the *executable* parser returns its AST. -/
theorem parse_flatten (t : Tbl) (wf : t.WF) (c : CST) (hc : Canon t c) :
    ∃ n, ∀ m ≥ n, parseExpr t m c.flatten = some (c.strip, []) := by
  have h := roundtrip t wf c hc [] (by intro o ts h; simp at h)
  simp at h
  obtain ⟨n, hn⟩ := rel_to_fn_expr t h
  exact ⟨n, fun m hm => (fuel_mono_le t hm).2.1 _ _ hn⟩
