/-! Spike: byte-offset tokenizer over `List Char`, tiling theorem. -/

namespace LexSpike

def utf8Len (cs : List Char) : Nat := (cs.map Char.utf8Size).sum

def isWs (c : Char) : Bool := c == ' ' || c == '\t' || c == '\r' || c == '\n'
def isDelim (c : Char) : Bool := c == '(' || c == ')' || c == '[' || c == ']' || c == '{' || c == '}'
def isParam (c : Char) : Bool :=
  ('0' ≤ c && c ≤ '9') || ('a' ≤ c && c ≤ 'z') || ('A' ≤ c && c ≤ 'Z') || c == '.' || c == '_'

inductive Kind | delim | ident
deriving DecidableEq, Repr

structure Tok where
  kind : Kind
  text : List Char
  start : Nat
  stop : Nat
deriving Repr, DecidableEq

def span (p : Char → Bool) : List Char → List Char × List Char
  | [] => ([], [])
  | c :: cs => if p c then let (a, b) := span p cs; (c :: a, b) else ([], c :: cs)

theorem span_append (p : Char → Bool) (cs : List Char) : (span p cs).1 ++ (span p cs).2 = cs := by
  induction cs with
  | nil => simp [span]
  | cons c cs ih => unfold span; split <;> simp [ih]

theorem span_length (p : Char → Bool) (cs : List Char) : (span p cs).2.length ≤ cs.length := by
  have := congrArg List.length (span_append p cs); simp at this; omega

/-- tokenizer: skip whitespace; delimiter = 1 char; otherwise first char + run of param chars -/
def tokenize (fuel : Nat) (pos : Nat) (cs : List Char) : Option (List Tok) :=
  match fuel with
  | 0 => none
  | fuel+1 =>
    match cs with
    | [] => some []
    | c :: rest =>
      if isWs c then tokenize fuel (pos + c.utf8Size) rest
      else if isDelim c then
        (tokenize fuel (pos + c.utf8Size) rest).map (⟨.delim, [c], pos, pos + c.utf8Size⟩ :: ·)
      else
        let (run, rest') := span isParam rest
        let stop := pos + utf8Len (c :: run)
        (tokenize fuel stop rest').map (⟨.ident, c :: run, pos, stop⟩ :: ·)

/-- Tiling: tokens are laid out left to right starting at `pos`; gaps are whitespace; texts are the slices. -/
inductive Tiling : Nat → List Char → List Tok → Prop
  | nil {pos ws} : (∀ c ∈ ws, isWs c = true) → Tiling pos ws []
  | cons {pos ws txt rest k toks} : (∀ c ∈ ws, isWs c = true) → txt ≠ [] →
      Tiling (pos + utf8Len ws + utf8Len txt) rest toks →
      Tiling pos (ws ++ txt ++ rest) (⟨k, txt, pos + utf8Len ws, pos + utf8Len ws + utf8Len txt⟩ :: toks)

theorem utf8Len_cons (c : Char) (cs : List Char) : utf8Len (c :: cs) = c.utf8Size + utf8Len cs := by
  simp [utf8Len]

theorem Tiling.ws_cons {pos c cs toks} (hc : isWs c = true) (h : Tiling (pos + c.utf8Size) cs toks) :
    Tiling pos (c :: cs) toks := by
  cases h with
  | nil hws => exact Tiling.nil (by intro x hx; simp at hx; rcases hx with rfl | hx; exact hc; exact hws x hx)
  | @cons _ ws txt rest k toks hws hne ht =>
    have := @Tiling.cons pos (c :: ws) txt rest k toks
      (by intro x hx; simp at hx; rcases hx with rfl | hx; exact hc; exact hws x hx) hne
      (by simpa [utf8Len_cons, Nat.add_assoc] using ht)
    simpa [utf8Len_cons, Nat.add_assoc] using this

theorem tokenize_tiling (fuel pos : Nat) (cs : List Char) (toks : List Tok)
    (h : tokenize fuel pos cs = some toks) : Tiling pos cs toks := by
  induction fuel generalizing pos cs toks with
  | zero => simp [tokenize] at h
  | succ n ih =>
    unfold tokenize at h
    split at h
    · simp at h; subst h; exact Tiling.nil (by simp)
    · rename_i c rest
      split at h
      · exact Tiling.ws_cons ‹_› (ih _ _ _ h)
      · split at h
        · simp [Option.map_eq_some_iff] at h
          obtain ⟨tl, htl, rfl⟩ := h
          have := @Tiling.cons pos [] [c] rest .delim tl (by simp) (by simp)
            (by simpa [utf8Len] using ih _ _ _ htl)
          simpa [utf8Len] using this
        · simp [Option.map_eq_some_iff] at h
          obtain ⟨tl, htl, rfl⟩ := h
          have happ := span_append isParam rest
          have := @Tiling.cons pos [] (c :: (span isParam rest).1) (span isParam rest).2 .ident tl (by simp) (by simp)
            (by simpa [utf8Len] using ih _ _ _ htl)
          simpa [utf8Len, happ] using this

/-- totality with explicit fuel -/
theorem tokenize_total (cs : List Char) (pos : Nat) : ∀ fuel, cs.length < fuel → (tokenize fuel pos cs).isSome := by
  intro fuel
  induction fuel generalizing pos cs with
  | zero => intro h; omega
  | succ n ih =>
    intro h
    unfold tokenize
    split
    · simp
    · rename_i c rest
      simp at h
      split
      · exact ih _ _ (by omega)
      · split
        · simp [Option.isSome_map]; exact ih _ _ (by omega)
        · simp [Option.isSome_map]
          exact ih _ _ (by have := span_length isParam rest; omega)

example : tokenize 10 0 ['a', 'é', '(', ' ', 'b'] =
    some [⟨.ident, ['a'], 0, 1⟩, ⟨.ident, ['é'], 1, 3⟩, ⟨.delim, ['('], 3, 4⟩, ⟨.ident, ['b'], 5, 6⟩] := by decide

end LexSpike
