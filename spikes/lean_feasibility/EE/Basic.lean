inductive Tok | atom (n : Nat) | op (o : Nat) | lp | rp
deriving DecidableEq, Repr
inductive AST | atom (n : Nat) | bin (o : Nat) (l r : AST)
deriving DecidableEq, Repr

structure Tbl where
  prec : Nat → Nat
  left : Nat → Bool

def lbp (t : Tbl) (o : Nat) : Nat := 2 * t.prec o
def rbp (t : Tbl) (o : Nat) : Nat := if t.left o then 2 * t.prec o + 1 else 2 * t.prec o - 1

mutual
def parsePrimary (t : Tbl) (fuel : Nat) (ts : List Tok) : Option (AST × List Tok) :=
  match fuel with
  | 0 => none
  | fuel+1 =>
    match ts with
    | .atom n :: ts => some (.atom n, ts)
    | .lp :: ts =>
      match parseExpr t fuel ts with
      | some (e, .rp :: ts') => some (e, ts')
      | _ => none
    | _ => none
def parseExpr (t : Tbl) (fuel : Nat) (ts : List Tok) : Option (AST × List Tok) :=
  match fuel with
  | 0 => none
  | fuel+1 =>
    match parsePrimary t fuel ts with
    | some (l, ts') => parseOp t fuel 0 l ts'
    | none => none
def parseOp (t : Tbl) (fuel : Nat) (minp : Nat) (lhs : AST) (ts : List Tok) : Option (AST × List Tok) :=
  match fuel with
  | 0 => none
  | fuel+1 =>
    match ts with
    | .op o :: ts' =>
      if lbp t o < minp then some (lhs, ts) else
      match parsePrimary t fuel ts' with
      | none => none
      | some (rhs, ts'') =>
        match ts'' with
        | .op o2 :: _ =>
          if rbp t o < lbp t o2 then
            match parseOp t fuel (rbp t o) rhs ts'' with
            | some (rhs', ts''') => parseOp t fuel minp (.bin o lhs rhs') ts'''
            | none => none
          else parseOp t fuel minp (.bin o lhs rhs) ts''
        | _ => parseOp t fuel minp (.bin o lhs rhs) ts''
    | _ => some (lhs, ts)
end

def tbl : Tbl := { prec := fun o => o / 2 + 1, left := fun o => o % 2 == 0 }

example : parseExpr tbl 50 [.atom 1, .op 0, .atom 2, .op 2, .atom 3, .op 0, .atom 4]
   = some (.bin 0 (.bin 0 (.atom 1) (.bin 2 (.atom 2) (.atom 3))) (.atom 4), []) := by decide
#eval parseExpr tbl 50 [.atom 1, .op 1, .atom 2, .op 1, .atom 3]
