import EE.Basic
def hexVal (c : Char) : Nat := if c.isDigit then c.toNat - 48 else if 'a' ≤ c ∧ c ≤ 'f' then c.toNat - 87 else 0
partial def loop (h : IO.FS.Stream) (n : Nat) : IO Unit := do
  let line ← h.getLine
  if line.isEmpty then IO.eprintln s!"lines {n}"; return ()
  let ws := line.trimAscii.toString.splitOn " "
  let toks : List Tok := ws.filterMap fun w =>
    if w == "(" then some .lp else if w == ")" then some .rp
    else if w.startsWith "o" then some (.op (w.drop 1).toNat!) else w.toNat?.map .atom
  match parseExpr tbl (2 * toks.length + 5) toks with
  | some (a, []) => IO.println (repr a)
  | _ => IO.println "ERR"
  loop h (n+1)
def main : IO Unit := do loop (← IO.getStdin) 0
