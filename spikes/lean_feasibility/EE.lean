-- This module serves as the root of the `EE` library.
-- Import modules here that should be built as part of the library.
import EE.Basic
import EE.Adequacy2
import EE.Lex
import EE.NotTern
