import EE.Gen.OpTable
import EE.Gen.CharClass
