import EE.Model.Program
namespace EE.Props.C15
theorem placeholder : True := trivial
end EE.Props.C15
