import EE.Props.C14
import EE.Lemmas.Triple
/-! # C15 — a failing or panicking handler is contained

A handler's failure (`err`) or panic (`panic`) is an outcome of `inv`; the evaluator's `bind'`
passes any non-`ok` outcome straight to the caller without running the continuation. Unwinding
through a live guard would poison the mutex (`holdingCtx` / `holdingRegs` model exactly that);
the faithful evaluator never holds a guard across a handler call, so nothing is poisoned. -/
namespace EE.Props.C15
open EE EngineM EE.Props.C14

variable {σ : Type}

/-- After *any* evaluation from a clean world — successful, failed or unwound by a panic, with
handlers failing or panicking at any invocation — no engine lock is held or poisoned. -/
theorem no_lock_left (inv : Inv σ) (hinv : HandlersClean inv) (t : AST) (w : World σ) (hw : w.Clean) :
    (exec inv t w).2.Clean := (exec_never_deadlocks inv hinv t w hw).2

/-- Later use of the same context and of the registries therefore behaves exactly as on the
world the failed evaluation stopped in: every accessor succeeds and reads that world's map. -/
theorem later_use_normal (inv : Inv σ) (hinv : HandlersClean inv) (t : AST) (w : World σ) (hw : w.Clean) (n : Name) :
    let w' := (exec inv t w).2
    ctxGet n w' = (.ok (alookup n w'.ctx), w') ∧ readRegs w' = (.ok w'.regs, w') ∧
    ∀ t', (exec inv t' w').2.Clean := by
  intro w'
  have hc := no_lock_left inv hinv t w hw
  exact ⟨ctxGet_clean hc, readRegs_clean hc, fun t' => no_lock_left inv hinv t' w' hc⟩

/-- A non-`ok` outcome of the first part of a sequenced computation is the outcome of the whole,
in the world where it happened: the continuation (everything to the right) does not run. This is
the one mechanism by which every evaluator branch propagates failures. -/
theorem failure_stops {α β : Type} (m : EngineM σ α) (f : α → EngineM σ β) (w w' : World σ) (r : Res α)
    (h : m w = (r, w')) (hr : r.isOk = false) :
    (bind' m f w).2 = w' ∧ (bind' m f w).1.isOk = false ∧
    (bind' m f w).1.isErr = r.isErr ∧ (bind' m f w).1.isPanic = r.isPanic := by
  obtain ⟨r', hb, h1, h2, h3, _⟩ := bind'_notok (f := f) h hr
  rw [hb]; exact ⟨rfl, h1, h2, h3⟩

/-- Handlers that return or fail on their own account without touching the engine's trace or
locks (they may still change the context map and their own state). -/
def Quiet (inv : Inv σ) : Prop :=
  ∀ h args w, w.Clean → (inv h args w).2.Clean ∧ (inv h args w).2.trace = w.trace ∧ (inv h args w).1.isHang = false

/-- The handler semantics `inv` with a fault injected: the invocation number `n` of the
evaluation (0-based; the trace holds one event per invocation so far) yields the outcome `r`
instead, and **any later invocation** yields the marker outcome `hang`. -/
def faultAt (inv : Inv σ) (n : Nat) (r : Res Value) : Inv σ := fun h args w =>
  if w.trace.length = n + 1 then (r, w)
  else if w.trace.length > n + 1 then (.hang, w)
  else inv h args w

/-- **Err or panic injected at the n-th handler invocation, any program, any handler kind.**
Started with fewer than `n+1` invocations on the trace, the evaluation either never reaches
invocation `n` (at most `n` invocations happened in total), or it fails with exactly the injected
outcome's class (an `Err` for an `Err`, an unwind for a panic) after **exactly** `n+1`
invocations: no further handler is invoked. The marker outcome never surfaces, and in every case
no engine lock is left held or poisoned. -/
theorem fault_injection (inv : Inv σ) (hq : Quiet inv) (n : Nat) (r : Res Value) (hr : r.isOk = false) (hrh : r.isHang = false)
    (t : AST) (w : World σ) (hw : w.Clean) (hlen : w.trace.length ≤ n) :
    let out := exec (faultAt inv n r) t w
    out.1.isHang = false ∧ out.2.Clean ∧
    (out.2.trace.length ≤ n ∨
      (out.2.trace.length = n + 1 ∧ out.1.isOk = false ∧ out.1.fault = r.fault)) := by
  let I : World σ → Prop := fun w => w.Clean ∧ w.trace.length ≤ n
  let F : Fault → World σ → Prop := fun f w' => f ≠ .hang ∧ w'.Clean ∧ (w'.trace.length ≤ n ∨ (w'.trace.length = n + 1 ∧ f = r.fault))
  have hA : ∀ w, I w → F .none w := fun w h => ⟨by simp, h.1, Or.inl h.2⟩
  have hI : Stable0 I := ⟨fun _ h => h.1, fun _ _ h => h⟩
  have hrf : r.fault ≠ .hang := by cases r <;> simp_all [Res.fault, Res.isHang]
  have hinvoke : ∀ h args, Triple I F (invoke (faultAt inv n r) h args) := by
    intro h args w0 ⟨hc, hl⟩
    simp only [invoke, faultAt, List.length_append, List.length_singleton]
    by_cases h1 : w0.trace.length + 1 = n + 1
    · simp only [h1, if_true]
      refine ⟨fun a w' e => ?_, fun r' w' e _ => ?_⟩
      · simp at e; obtain ⟨rfl, _⟩ := e; simp [Res.isOk] at hr
      · simp at e; obtain ⟨rfl, rfl⟩ := e
        exact ⟨hrf, hc, Or.inr ⟨by simp; omega, rfl⟩⟩
    · have h2 : ¬ (w0.trace.length + 1 > n + 1) := by omega
      simp only [h1, h2, if_false]
      have hc' : ({ w0 with trace := w0.trace ++ [Event.call h args] } : World σ).Clean := hc
      obtain ⟨q1, q2, q3⟩ := hq h args _ hc'
      refine ⟨fun a w' e => ?_, fun r' w' e _ => ?_⟩
      · rw [e] at q1 q2; exact ⟨q1, by rw [q2]; simp; omega⟩
      · rw [e] at q1 q2 q3
        refine ⟨by cases r' <;> simp_all [Res.fault, Res.isHang], q1, Or.inl (by rw [q2]; simp; omega)⟩
  have main := Triple.exec hA hI hinvoke t w ⟨hw, hlen⟩
  intro out
  cases hout : exec (faultAt inv n r) t w with
  | mk res w' =>
    have ho : out = (res, w') := hout
    rw [ho]
    cases hok : res.isOk with
    | true =>
      cases res <;> simp [Res.isOk] at hok
      rename_i a
      have := main.1 a w' hout
      exact ⟨rfl, this.1, Or.inl this.2⟩
    | false =>
      have := main.2 res w' hout hok
      refine ⟨by cases res <;> simp_all [Res.fault, Res.isHang, F], this.2.1, ?_⟩
      rcases this.2.2 with h | ⟨h1, h2⟩
      · exact Or.inl h
      · exact Or.inr ⟨h1, rfl, h2⟩

/-! Non-vacuity: a panicking context function reached through the bare name poisons the context
in the pre-repair shape, and does not in the faithful evaluator. -/
def panicInv : Inv Unit := fun _ _ w => (.panic, w)

example : (ctxValueUnderLock panicInv ['f'] w0).2.ctxPoisoned = true := by rfl
example : (ctxValue panicInv ['f'] w0).2.ctxPoisoned = false := by rfl
example : (ctxValue panicInv ['f'] w0).1.isPanic = true := by rfl
example : HandlersClean panicInv := fun _ _ w hw => ⟨hw, by simp [panicInv, NoDeadlock, Res.fault]⟩
/-- after the panic, the context is still usable -/
example : (ctxGet ['f'] (exec panicInv (.ref ['f']) w0).2).1.isOk = true := by rfl

end EE.Props.C15
