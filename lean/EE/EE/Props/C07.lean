import EE.Spec.Eval
import EE.Lemmas.StdInv
import EE.Lemmas.Triple
/-! # C07 — each subexpression runs once, left to right; conditionals are lazy

The specification is the big-step semantics `EE.Spec.Eval` (read it first: it is short). This
file proves that the model's evaluator satisfies it, for arbitrary handler behaviour, and spells
out the consequences the property names. -/
namespace EE.Props.C07
open EE EngineM EE.Spec

variable {σ : Type}

abbrev AnyFault : Fault → Prop := fun _ => True
/-- Handlers that leave no engine lock held or poisoned (anything else is allowed). -/
abbrev HandlersClean (inv : Inv σ) : Prop := InvKeeps World.Clean AnyFault inv

theorem bind'_fail_eq {α β : Type} {m : EngineM σ α} {f : α → EngineM σ β} {w w1 : World σ} {r : Res α}
    (h : m w = (r, w1)) (hr : r.isOk = false) : bind' m f w = (castFail r, w1) := by
  cases r <;> simp [Res.isOk] at hr <;> simp [bind', h, castFail]

theorem castFail_id {r : Res Value} (hr : r.isOk = false) : (castFail r : Res Value) = r := by
  cases r <;> simp [Res.isOk] at hr <;> rfl

theorem bind'_fail_eq' {β : Type} {m : EngineM σ Value} {f : Value → EngineM σ Value} {w w1 : World σ} {r : Res Value}
    (h : m w = (r, w1)) (hr : r.isOk = false) : bind' m f w = (r, w1) := by
  rw [bind'_fail_eq h hr, castFail_id hr]

theorem isOk_false_of {α : Type} {r : Res α} (h : ∀ a, r ≠ .ok a) : r.isOk = false := by
  cases r <;> first | rfl | exact absurd rfl (h _)

theorem clean_after (inv : Inv σ) (hinv : HandlersClean inv) (t : AST) (w : World σ) (hw : w.Clean) :
    (exec inv t w).2.Clean := (Keeps.exec (A := AnyFault) trivial stable_clean hinv t w hw).1
theorem clean_after_list (inv : Inv σ) (hinv : HandlersClean inv) (ts : List AST) (w : World σ) (hw : w.Clean) :
    (execList inv ts w).2.Clean := (Keeps.execList (A := AnyFault) trivial stable_clean hinv ts w hw).1
theorem clean_after_map (inv : Inv σ) (hinv : HandlersClean inv) (ts : List (AST × AST)) (w : World σ) (hw : w.Clean) :
    (execMap inv ts w).2.Clean := (Keeps.execMap (A := AnyFault) trivial stable_clean hinv ts w hw).1

theorem ctxGetFunc_clean (f : Name) (w : World σ) (hw : w.Clean) :
    ctxGetFunc f w = (.ok (match alookup f w.ctx with | some (.fn h) => some h | _ => Option.none), w) := by
  simp only [ctxGetFunc, bind'_ok (ctxGet_clean hw)]
  cases alookup f w.ctx with
  | none => rfl
  | some cv => cases cv <;> rfl

mutual
/-- **The evaluator satisfies the big-step specification**, for every tree, from every world in
which no engine lock is held, whatever the handlers do (log, keep state, fail, panic, re-enter). -/
theorem exec_sound (inv : Inv σ) (hinv : HandlersClean inv) : ∀ (t : AST) (w : World σ), w.Clean → Eval inv t w (exec inv t w)
  | .lit l, w, _ => by simp only [exec]; exact Eval.lit l w
  | .none, w, _ => by simp only [exec]; exact Eval.none w
  | .ref n, w, hw => by
      simp only [exec, ctxValue, bind'_ok (ctxGet_clean hw)]
      cases h : alookup n w.ctx with
      | none => exact Eval.refUnbound h
      | some cv => cases cv with
        | var v => exact Eval.refVar h
        | fn hd => exact Eval.refFn h
  | .call f args, w, hw => by
      have ih := execList_sound inv hinv args w hw
      have hc := clean_after_list inv hinv args w hw
      simp only [exec]
      cases hr : execList inv args w with
      | mk r w1 =>
        rw [hr] at ih hc
        cases hok : r.isOk with
        | false => rw [bind'_fail_eq hr hok]; exact Eval.callArgsFail ih hok
        | true =>
          cases r <;> simp [Res.isOk] at hok
          rename_i vs
          simp only [bind'_ok hr, bind'_ok (ctxGetFunc_clean f w1 hc)]
          cases hl : alookup f w1.ctx with
          | none =>
            simp only []
            cases hg : alookup f w1.regs.fns with
            | none => rw [bind'_err (lookupE_none hc hg)]; exact Eval.callUnknown ih (by simp [hl]) hg
            | some h => rw [bind'_ok (lookupE_some hc hg)]; exact Eval.callGlobal ih (by simp [hl]) hg
          | some cv =>
            cases cv with
            | fn h => exact Eval.callCtx ih hl
            | var v =>
              simp only []
              cases hg : alookup f w1.regs.fns with
              | none => rw [bind'_err (lookupE_none hc hg)]; exact Eval.callUnknown ih (by simp [hl]) hg
              | some h => rw [bind'_ok (lookupE_some hc hg)]; exact Eval.callGlobal ih (by simp [hl]) hg
  | .unary op rhs, w, hw => by
      simp only [exec]
      cases hl : alookup op w.regs.pre with
      | none => rw [bind'_err (lookupE_none hw hl)]; exact Eval.unaryUnreg hl
      | some h =>
        rw [bind'_ok (lookupE_some hw hl)]
        have ih := exec_sound inv hinv rhs w hw
        cases hr : exec inv rhs w with
        | mk r w1 =>
          rw [hr] at ih
          cases hok : r.isOk with
          | false => rw [bind'_fail_eq' (β := Value) hr hok]; exact Eval.unaryFail hl ih hok
          | true =>
            cases r <;> simp [Res.isOk] at hok
            rw [bind'_ok hr]; exact Eval.unary hl ih
  | .postfix lhs op, w, hw => by
      simp only [exec]
      cases hl : alookup op w.regs.post with
      | none => rw [bind'_err (lookupE_none hw hl)]; exact Eval.postfixUnreg hl
      | some h =>
        rw [bind'_ok (lookupE_some hw hl)]
        have ih := exec_sound inv hinv lhs w hw
        cases hr : exec inv lhs w with
        | mk r w1 =>
          rw [hr] at ih
          cases hok : r.isOk with
          | false => rw [bind'_fail_eq' (β := Value) hr hok]; exact Eval.postfixFail hl ih hok
          | true =>
            cases r <;> simp [Res.isOk] at hok
            rw [bind'_ok hr]; exact Eval.postfix hl ih
  | .binary op l r, w, hw => by
      simp only [exec]
      cases hl : alookup op w.regs.inf with
      | none => rw [bind'_err (lookupE_none hw hl)]; exact Eval.binaryUnreg hl
      | some cfg =>
        rw [bind'_ok (lookupE_some hw hl)]
        have ihl := exec_sound inv hinv l w hw
        have hcl := clean_after inv hinv l w hw
        cases hs : cfg.setter with
        | false =>
          simp only [Bool.false_eq_true, if_false, bind'_ok (lookupE_some hw hl)]
          cases hrl : exec inv l w with
          | mk ra w1 =>
            rw [hrl] at ihl hcl
            cases hoka : ra.isOk with
            | false => rw [bind'_fail_eq' (β := Value) hrl hoka]; exact Eval.binaryFailL hl ihl hoka
            | true =>
              cases ra <;> simp [Res.isOk] at hoka
              rename_i a
              rw [bind'_ok hrl]
              have ihr := exec_sound inv hinv r w1 hcl
              cases hrr : exec inv r w1 with
              | mk rb w2 =>
                rw [hrr] at ihr
                cases hokb : rb.isOk with
                | false => rw [bind'_fail_eq' (β := Value) hrr hokb]; exact Eval.binaryFailR hl ihl ihr hokb
                | true =>
                  cases rb <;> simp [Res.isOk] at hokb
                  rw [bind'_ok hrr]; exact Eval.calc hl hs ihl ihr
        | true =>
          simp only [if_true]
          cases hrl : exec inv l w with
          | mk ra w1 =>
            rw [hrl] at ihl hcl
            cases hoka : ra.isOk with
            | false => rw [bind'_fail_eq' (β := Value) hrl hoka]; exact Eval.binaryFailL hl ihl hoka
            | true =>
              cases ra <;> simp [Res.isOk] at hoka
              rename_i a
              rw [bind'_ok hrl]
              have ihr := exec_sound inv hinv r w1 hcl
              have hcr := clean_after inv hinv r w1 hcl
              cases hrr : exec inv r w1 with
              | mk rb w2 =>
                rw [hrr] at ihr hcr
                cases hokb : rb.isOk with
                | false => rw [bind'_fail_eq' (β := Value) hrr hokb]; exact Eval.binaryFailR hl ihl ihr hokb
                | true =>
                  cases rb <;> simp [Res.isOk] at hokb
                  rename_i b
                  rw [bind'_ok hrr]
                  cases hisref : isRef l with
                  | false =>
                    have : refName l = .err .notReferenceExpr := by cases l <;> simp [isRef] at hisref <;> rfl
                    simp only [this, bind'_lift_err]
                    exact Eval.assignNonName hl hs hisref ihl ihr
                  | true =>
                    cases l <;> simp [isRef] at hisref
                    rename_i x
                    simp only [refName, bind'_lift_ok]
                    cases hl2 : alookup op w2.regs.inf with
                    | none => rw [bind'_err (lookupE_none hcr hl2)]; exact Eval.assignUnreg hl hs ihl ihr hl2
                    | some cfg2 =>
                      rw [bind'_ok (lookupE_some hcr hl2)]
                      have hki := Keeps.invoke (A := AnyFault) trivial stable_clean hinv cfg2.h [a, b] w2 hcr
                      cases hiv : invoke inv cfg2.h [a, b] w2 with
                      | mk rv w3 =>
                        rw [hiv] at hki
                        cases hokv : rv.isOk with
                        | false => rw [bind'_fail_eq' (β := Value) hiv hokv]; exact Eval.assignHandlerFail hl hs ihl ihr hl2 hiv hokv
                        | true =>
                          cases rv <;> simp [Res.isOk] at hokv
                          rename_i v
                          rw [bind'_ok hiv, bind'_ok (ctxSet_clean hki.1)]
                          exact Eval.assign hl hs ihl ihr hl2 hiv
  | .ternary c a b, w, hw => by
      simp only [exec]
      have ihc := exec_sound inv hinv c w hw
      have hcc := clean_after inv hinv c w hw
      cases hrc : exec inv c w with
      | mk rc w1 =>
        rw [hrc] at ihc hcc
        cases hok : rc.isOk with
        | false => rw [bind'_fail_eq' (β := Value) hrc hok]; exact Eval.ternFail ihc hok
        | true =>
          cases rc <;> simp [Res.isOk] at hok
          rename_i v
          rw [bind'_ok hrc]
          cases v with
          | bool bb =>
            cases bb with
            | true => exact Eval.ternTrue ihc (exec_sound inv hinv a w1 hcc)
            | false => exact Eval.ternFalse ihc (exec_sound inv hinv b w1 hcc)
          | str s => exact Eval.ternNonBool ihc (by intro x h; cases h)
          | num d => exact Eval.ternNonBool ihc (by intro x h; cases h)
          | list l => exact Eval.ternNonBool ihc (by intro x h; cases h)
          | map m => exact Eval.ternNonBool ihc (by intro x h; cases h)
          | none => exact Eval.ternNonBool ihc (by intro x h; cases h)
  | .list xs, w, hw => by
      simp only [exec]
      have ih := execList_sound inv hinv xs w hw
      cases hr : execList inv xs w with
      | mk r w1 =>
        rw [hr] at ih
        cases hok : r.isOk with
        | false => rw [bind'_fail_eq hr hok]; exact Eval.listFail ih hok
        | true => cases r <;> simp [Res.isOk] at hok; rw [bind'_ok hr]; exact Eval.list ih
  | .map kvs, w, hw => by
      simp only [exec]
      have ih := execMap_sound inv hinv kvs w hw
      cases hr : execMap inv kvs w with
      | mk r w1 =>
        rw [hr] at ih
        cases hok : r.isOk with
        | false => rw [bind'_fail_eq hr hok]; exact Eval.mapFail ih hok
        | true => cases r <;> simp [Res.isOk] at hok; rw [bind'_ok hr]; exact Eval.map ih
  | .stmt xs, w, hw => by
      simp only [exec]; exact Eval.stmt (execChain_sound inv hinv Value.none xs w hw)
theorem execList_sound (inv : Inv σ) (hinv : HandlersClean inv) :
    ∀ (ts : List AST) (w : World σ), w.Clean → EvalList inv ts w (execList inv ts w)
  | [], w, _ => by simp only [execList]; exact EvalList.nil w
  | a :: as, w, hw => by
      simp only [execList]
      have ih := exec_sound inv hinv a w hw
      have hc := clean_after inv hinv a w hw
      cases hr : exec inv a w with
      | mk r w1 =>
        rw [hr] at ih hc
        cases hok : r.isOk with
        | false => rw [bind'_fail_eq hr hok]; exact EvalList.failHead ih hok
        | true =>
          cases r <;> simp [Res.isOk] at hok
          rw [bind'_ok hr]
          have ih2 := execList_sound inv hinv as w1 hc
          cases hr2 : execList inv as w1 with
          | mk r2 w2 =>
            rw [hr2] at ih2
            cases hok2 : r2.isOk with
            | false => rw [bind'_fail_eq hr2 hok2]; exact EvalList.failTail ih ih2 hok2
            | true => cases r2 <;> simp [Res.isOk] at hok2; rw [bind'_ok hr2]; exact EvalList.cons ih ih2
theorem execMap_sound (inv : Inv σ) (hinv : HandlersClean inv) :
    ∀ (ts : List (AST × AST)) (w : World σ), w.Clean → EvalMap inv ts w (execMap inv ts w)
  | [], w, _ => by simp only [execMap]; exact EvalMap.nil w
  | (k, v) :: rest, w, hw => by
      simp only [execMap]
      have ihk := exec_sound inv hinv k w hw
      have hck := clean_after inv hinv k w hw
      cases hrk : exec inv k w with
      | mk rk w1 =>
        rw [hrk] at ihk hck
        cases hokk : rk.isOk with
        | false => rw [bind'_fail_eq hrk hokk]; exact EvalMap.failKey ihk hokk
        | true =>
          cases rk <;> simp [Res.isOk] at hokk
          rw [bind'_ok hrk]
          have ihv := exec_sound inv hinv v w1 hck
          have hcv := clean_after inv hinv v w1 hck
          cases hrv : exec inv v w1 with
          | mk rv w2 =>
            rw [hrv] at ihv hcv
            cases hokv : rv.isOk with
            | false => rw [bind'_fail_eq hrv hokv]; exact EvalMap.failValue ihk ihv hokv
            | true =>
              cases rv <;> simp [Res.isOk] at hokv
              rw [bind'_ok hrv]
              have ihr := execMap_sound inv hinv rest w2 hcv
              cases hrr : execMap inv rest w2 with
              | mk rr w3 =>
                rw [hrr] at ihr
                cases hokr : rr.isOk with
                | false => rw [bind'_fail_eq hrr hokr]; exact EvalMap.failRest ihk ihv ihr hokr
                | true => cases rr <;> simp [Res.isOk] at hokr; rw [bind'_ok hrr]; exact EvalMap.cons ihk ihv ihr
theorem execChain_sound (inv : Inv σ) (hinv : HandlersClean inv) :
    ∀ (last : Value) (ts : List AST) (w : World σ), w.Clean → EvalChain inv last ts w (execChain inv last ts w)
  | last, [], w, _ => by simp only [execChain]; exact EvalChain.nil last w
  | last, a :: as, w, hw => by
      simp only [execChain]
      have ih := exec_sound inv hinv a w hw
      have hc := clean_after inv hinv a w hw
      cases hr : exec inv a w with
      | mk r w1 =>
        rw [hr] at ih hc
        cases hok : r.isOk with
        | false => rw [bind'_fail_eq' (β := Value) hr hok]; exact EvalChain.fail ih hok
        | true =>
          cases r <;> simp [Res.isOk] at hok
          rw [bind'_ok hr]; exact EvalChain.cons ih (execChain_sound inv hinv _ as w1 hc)
end

/-! ## Consequences named by the property -/

/-- Only the selected branch of a conditional is evaluated: the conditional's outcome *is* the
outcome of the selected branch in the world the condition left; the other branch does not occur. -/
theorem selected_branch_only (inv : Inv σ) (c a b : AST) (w w1 : World σ) :
    (exec inv c w = (.ok (.bool true), w1) → exec inv (.ternary c a b) w = exec inv a w1) ∧
    (exec inv c w = (.ok (.bool false), w1) → exec inv (.ternary c a b) w = exec inv b w1) := by
  constructor <;> intro h <;> simp only [exec, bind'_ok h]

/-- A function is invoked only after all of its arguments have been evaluated, left to right:
the call's outcome is the invocation on the evaluated argument values in the world they left. -/
theorem args_before_call (inv : Inv σ) (f : Name) (args : List AST) (w w1 : World σ) (vs : List Value) (h : HandlerId)
    (hargs : execList inv args w = (.ok vs, w1)) (hc : w1.Clean) (hf : alookup f w1.ctx = some (.fn h)) :
    exec inv (.call f args) w = invoke inv h vs w1 := by
  simp only [exec, bind'_ok hargs, bind'_ok (ctxGetFunc_clean f w1 hc), hf]

theorem list_left_to_right (inv : Inv σ) (a : AST) (as : List AST) (w w1 : World σ) (v : Value)
    (h : exec inv a w = (.ok v, w1)) :
    execList inv (a :: as) w = bind' (execList inv as) (fun vs => pure' (v :: vs)) w1 := by
  simp only [execList, bind'_ok h]

/-- Evaluation stops at the first failure: if an element fails, the elements to its right are
never evaluated (the outcome and the world are those of the failing element). -/
theorem nothing_after_failure (inv : Inv σ) (a : AST) (as : List AST) (w w1 : World σ) (r : Res Value)
    (h : exec inv a w = (r, w1)) (hr : r.isOk = false) :
    (execList inv (a :: as) w).2 = w1 ∧ (execList inv (a :: as) w).1.isOk = false := by
  simp only [execList, bind'_fail_eq h hr]
  cases r <;> simp [Res.isOk] at hr <;> simp [castFail, Res.isOk]

/-- The trace of handler invocations only grows, by exactly the invocations the evaluation made:
nothing already evaluated is evaluated again, nothing is forgotten. -/
theorem trace_only_grows (inv : Inv σ)
    (hinv : ∀ h args w, w.Clean → (inv h args w).2.Clean ∧ ∃ evs, (inv h args w).2.trace = w.trace ++ evs)
    (t : AST) (w : World σ) (hw : w.Clean) : ∃ evs, (exec inv t w).2.trace = w.trace ++ evs := by
  let I : World σ → Prop := fun w' => w'.Clean ∧ ∃ evs, w'.trace = w.trace ++ evs
  have hI : Stable0 I := ⟨fun _ h => h.1, fun _ _ h => h⟩
  have hinvoke : ∀ h args, Triple I (fun _ w' => I w') (invoke inv h args) := by
    intro h args w0 ⟨hc, evs, he⟩
    have hc' : ({ w0 with trace := w0.trace ++ [Event.call h args] } : World σ).Clean := hc
    obtain ⟨q1, evs2, q2⟩ := hinv h args _ hc'
    have key : I (invoke inv h args w0).2 := by
      refine ⟨q1, evs ++ [Event.call h args] ++ evs2, ?_⟩
      show (inv h args _).2.trace = _
      rw [q2]; simp [he]
    exact ⟨fun a w' e => by rw [e] at key; exact key, fun r w' e _ => by rw [e] at key; exact key⟩
  have main := Triple.exec (F := fun _ w' => I w') (fun _ h => h) hI hinvoke t w ⟨hw, [], by simp⟩
  cases hout : exec inv t w with
  | mk res w' =>
    cases hok : res.isOk with
    | true =>
      cases res <;> simp [Res.isOk] at hok
      exact (main.1 _ w' hout).2
    | false => exact (main.2 res w' hout hok).2

end EE.Props.C07
