import EE.Model.Program
namespace EE.Props.C07
theorem placeholder : True := trivial
end EE.Props.C07
