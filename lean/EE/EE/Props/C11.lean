import EE.Model.Program
namespace EE.Props.C11
theorem placeholder : True := trivial
end EE.Props.C11
