import EE.Props.C02
import EE.Props.C10
import EE.Lemmas.Layout
/-! # C11 — whitespace and redundant parentheses never change the parse

Two layers, as in the code. **Parentheses** are the parser's business: `ParenExt c c'` says `c'` is
`c` with any number of extra parentheses around any of its subexpressions (`Spec/Cst`: a `CST` is
the expression as written); `extra_parens_same_tree` shows the parser returns the same tree.
**Whitespace** is the tokenizer's business: see the second half. -/
namespace EE.Props.C11
open EE EE.Spec EE.Spec.CST EE.Props.C02

mutual
/-- `c'` is `c` with extra parentheses: around the whole (`wrap`, any number of times) and/or,
recursively, around any subexpressions. -/
inductive ParenExt : CST → CST → Prop
  | wrap {c c' : CST} : ParenExt c c' → ParenExt c (.paren c')
  | atom (a : Atom) : ParenExt (.atom a) (.atom a)
  | paren {c c' : CST} : ParenExt c c' → ParenExt (.paren c) (.paren c')
  | unary (o : Name) {c c' : CST} : ParenExt c c' → ParenExt (.unary o c) (.unary o c')
  | postfix (o : Name) {c c' : CST} : ParenExt c c' → ParenExt (.postfix c o) (.postfix c' o)
  | call (n : Name) {a a' : CList} : ParenExtL a a' → ParenExt (.call n a) (.call n a')
  | list (tr : Bool) {a a' : CList} : ParenExtL a a' → ParenExt (.list a tr) (.list a' tr)
  | map (tr : Bool) {a a' : CMap} : ParenExtM a a' → ParenExt (.map a tr) (.map a' tr)
  | bin (nt : Bool) (o : Name) {l l' r r' : CST} : ParenExt l l' → ParenExt r r' → ParenExt (.bin nt o l r) (.bin nt o l' r')
  | tern {c c' a a' b b' : CST} : ParenExt c c' → ParenExt a a' → ParenExt b b' → ParenExt (.tern c a b) (.tern c' a' b')
inductive ParenExtL : CList → CList → Prop
  | nil : ParenExtL .nil .nil
  | cons {c c' : CST} {r r' : CList} : ParenExt c c' → ParenExtL r r' → ParenExtL (.cons c r) (.cons c' r')
inductive ParenExtM : CMap → CMap → Prop
  | nil : ParenExtM .nil .nil
  | cons {k k' v v' : CST} {r r' : CMap} : ParenExt k k' → ParenExt v v' → ParenExtM r r' → ParenExtM (.cons k v r) (.cons k' v' r')
end

theorem ParenExtL.ne_nil {a a' : CList} (h : ParenExtL a a') (hn : a ≠ .nil) : a' ≠ .nil := by
  cases h with
  | nil => exact absurd rfl hn
  | cons _ _ => intro e; cases e
theorem ParenExtM.ne_nil {a a' : CMap} (h : ParenExtM a a') (hn : a ≠ .nil) : a' ≠ .nil := by
  cases h with
  | nil => exact absurd rfl hn
  | cons _ _ _ => intro e; cases e

/-- Extra parentheses do not change what kind of operand an expression is — except that it becomes
a parenthesised one, which is allowed everywhere. -/
theorem ParenExt.shape {c c' : CST} (h : ParenExt c c') :
    (c.isTern = false → c'.isTern = false) ∧ (∀ o', c'.root? = some o' → c.root? = some o') ∧
    (c.isPrimary = true → c'.isPrimary = true) ∧ (c.postfixable = true → c'.postfixable = true) := by
  cases h <;> simp [isTern, root?, isPrimary, postfixable]

mutual
theorem ParenExt.strip_eq : ∀ {c c' : CST}, ParenExt c c' → c'.strip = c.strip
  | _, _, .wrap h => by simp only [CST.strip]; exact h.strip_eq
  | _, _, .atom _ => rfl
  | _, _, .paren h => by simp only [CST.strip]; exact h.strip_eq
  | _, _, .unary _ h => by simp only [CST.strip, h.strip_eq]
  | _, _, .postfix _ h => by simp only [CST.strip, h.strip_eq]
  | _, _, .call _ h => by simp only [CST.strip, h.strip_eq]
  | _, _, .list _ h => by simp only [CST.strip, h.strip_eq]
  | _, _, .map _ h => by simp only [CST.strip, h.strip_eq]
  | _, _, .bin _ _ hl hr => by simp only [CST.strip, hl.strip_eq, hr.strip_eq]
  | _, _, .tern hc ha hb => by simp only [CST.strip, hc.strip_eq, ha.strip_eq, hb.strip_eq]
theorem ParenExtL.strip_eq : ∀ {a a' : CList}, ParenExtL a a' → a'.strip = a.strip
  | _, _, .nil => rfl
  | _, _, .cons h hr => by simp only [CList.strip, h.strip_eq, hr.strip_eq]
theorem ParenExtM.strip_eq : ∀ {a a' : CMap}, ParenExtM a a' → a'.strip = a.strip
  | _, _, .nil => rfl
  | _, _, .cons hk hv hr => by simp only [CMap.strip, hk.strip_eq, hv.strip_eq, hr.strip_eq]
end

mutual
theorem ParenExt.canon {regs : Regs} : ∀ {c c' : CST}, ParenExt c c' → Canon regs c → Canon regs c'
  | _, _, .wrap h, hc => h.canon hc
  | _, _, .atom _, _ => trivial
  | _, _, .paren h, hc => h.canon hc
  | _, _, .unary _ h, hc => ⟨hc.1, h.shape.2.2.1 hc.2.1, h.canon hc.2.2⟩
  | _, _, .postfix _ h, hc => ⟨hc.1, h.shape.2.2.2 hc.2.1, h.canon hc.2.2⟩
  | _, _, .call _ h, hc => h.canon hc
  | _, _, .list _ h, hc => ⟨h.canon hc.1, fun e => h.ne_nil (hc.2 e)⟩
  | _, _, .map _ h, hc => ⟨h.canon hc.1, fun e => h.ne_nil (hc.2 e)⟩
  | _, _, .bin _ _ hl hr, hc =>
    ⟨hc.1, hl.canon hc.2.1, hr.canon hc.2.2.1, hl.shape.1 hc.2.2.2.1, hr.shape.1 hc.2.2.2.2.1,
      fun o' e => hc.2.2.2.2.2.1 o' (hl.shape.2.1 o' e), fun o' e => hc.2.2.2.2.2.2 o' (hr.shape.2.1 o' e)⟩
  | _, _, .tern h ha hb, hc => ⟨h.canon hc.1, h.shape.1 hc.2.1, ha.canon hc.2.2.1, hb.canon hc.2.2.2⟩
theorem ParenExtL.canon {regs : Regs} : ∀ {a a' : CList}, ParenExtL a a' → CanonList regs a → CanonList regs a'
  | _, _, .nil, _ => trivial
  | _, _, .cons h hr, hc => ⟨h.canon hc.1, hr.canon hc.2⟩
theorem ParenExtM.canon {regs : Regs} : ∀ {a a' : CMap}, ParenExtM a a' → CanonMap regs a → CanonMap regs a'
  | _, _, .nil, _ => trivial
  | _, _, .cons hk hv hr, hc => ⟨hk.canon hc.1, hv.canon hc.2.1, hr.canon hc.2.2⟩
end

/-- **Redundant parentheses never change the parse**: wrap any subexpressions of a canonically
written expression in any number of extra parentheses — the parser returns the same tree (as long
as the result still nests within `MAX_DEPTH`; beyond it the parser reports `NestingTooDeep`, C01). -/
theorem extra_parens_same_tree (regs : Regs) (tb : TableOK regs) (lim : Nat) (c c' : CST) (hc : Canon regs c)
    (h : ParenExt c c') (hf : Fits lim c) (hf' : Fits lim c') :
    parseTokens regs lim c'.flatten = parseTokens regs lim c.flatten := by
  rw [groups_as_written regs tb lim c hc hf, groups_as_written regs tb lim c' (h.canon hc) hf', h.strip_eq]

inductive ParenExtP : List CST → List CST → Prop
  | nil : ParenExtP [] []
  | cons {c c' : CST} {r r' : List CST} : ParenExt c c' → ParenExtP r r' → ParenExtP (c :: r) (c' :: r')

theorem ParenExtP.strip_eq : ∀ {cs cs' : List CST}, ParenExtP cs cs' → cs'.map CST.strip = cs.map CST.strip
  | _, _, .nil => rfl
  | _, _, .cons h hr => by simp only [List.map_cons, h.strip_eq, hr.strip_eq]

theorem ParenExtP.canon {regs : Regs} {lim : Nat} : ∀ {cs cs' : List CST}, ParenExtP cs cs' → (∀ c ∈ cs, Canon regs c ∧ Fits lim c) →
    (∀ c ∈ cs', Fits lim c) → ∀ c ∈ cs', Canon regs c ∧ Fits lim c
  | _, _, .nil, _, _ => by intro c h; cases h
  | _, _, .cons h hr, hcs, hfs => by
    intro c hc
    simp only [List.mem_cons] at hc
    rcases hc with rfl | hc
    · exact ⟨h.canon (hcs _ (by simp)).1, hfs _ (by simp)⟩
    · exact hr.canon (fun x hx => hcs x (by simp [hx])) (fun x hx => hfs x (by simp [hx])) c hc

/-- … for whole programs (`;`-separated statements), statement by statement. -/
theorem extra_parens_same_program (regs : Regs) (tb : TableOK regs) (lim : Nat) (hl : 1 ≤ lim) (cs cs' : List CST)
    (hcs : ∀ c ∈ cs, Canon regs c ∧ Fits lim c) (hfs' : ∀ c ∈ cs', Fits lim c) (h : ParenExtP cs cs')
    (hh : AST.heightList (cs.map CST.strip) + 1 ≤ lim) :
    parseTokens regs lim (flattenProg cs') = parseTokens regs lim (flattenProg cs) := by
  rw [program_as_written regs tb lim hl cs hcs hh,
    program_as_written regs tb lim hl cs' (h.canon hcs hfs') (by rw [h.strip_eq]; exact hh), h.strip_eq]


/-- **Stated for everything the parser accepts** (as one expression; statement chains with `;` are
`extra_parens_same_program`): the accepted tokens are those of a canonical expression `c`
(`accepted_expression_reading`, C02), and every re-parenthesisation `c'` of `c` that still nests
within the limit parses to the very same result. -/
theorem accepted_extra_parens (regs : Regs) (tb : TableOK regs) (lim : Nat) (hl : 1 ≤ lim) (toks : List Tok) (a : AST)
    (h : parseTokens regs lim toks = .ok a) (hns : ∀ es, a ≠ .stmt es) :
    ∃ c, Canon regs c ∧ (toks = c.flatten ∨ toks = c.flatten ++ [.semi]) ∧
      ∀ c', ParenExt c c' → Fits lim c' → parseTokens regs lim c'.flatten = .ok a := by
  obtain ⟨c, hc, hfl, rfl⟩ := accepted_expression_reading regs tb lim hl toks a h hns
  refine ⟨c, hc, hfl, fun c' hp hf' => ?_⟩
  rw [groups_as_written regs tb lim c' (hp.canon hc) hf', hp.strip_eq]

/-! ## whitespace

`Relayout regs s s'` (`Lemmas/Layout`): `s'` has the same token texts as `s`, in the same order;
before, between and after them stands arbitrary white space (`' '`, tab, CR, LF), at least some
wherever `s` has some. Every accepted input has such a decomposition (`accepted_has_layout`), so
the relation covers "adding white space between any two tokens" and "changing its amount where
some exists" for every accepted program; white space inside a string literal is part of a token
text and therefore never touched. `NameOK` is the property's "names are not operator words". -/

/-- The tokenizer reads the same tokens from both layouts. -/
theorem layout_same_tokens (regs : Regs) (env : LexEnv regs) (s s' : Text) (h : Relayout regs s s') (toks : List SpTok)
    (ht : tokenize regs s = .ok toks) (hn : ∀ t ∈ toks, NameOK regs t.tok) :
    ∃ toks', tokenize regs s' = .ok toks' ∧ toks'.map (·.tok) = toks.map (·.tok) :=
  relayout_tokens regs env h _ 0 toks ht hn _ 0 (Nat.le_refl _)

/-- **Whitespace never changes the parse.** -/
theorem layout_same_parse (regs : Regs) (env : LexEnv regs) (s s' : Text) (h : Relayout regs s s') (toks : List SpTok)
    (ht : tokenize regs s = .ok toks) (hn : ∀ t ∈ toks, NameOK regs t.tok) :
    parseProgram regs s' = parseProgram regs s := by
  obtain ⟨toks', ht', hmap⟩ := layout_same_tokens regs env s s' h toks ht hn
  unfold parseProgram
  rw [ht, ht']
  simp only [Res.bind_ok, hmap]

/-- Every input the tokenizer accepts is laid out as token texts separated by white space, so
`Relayout s ·` describes all its re-layouts. -/
theorem accepted_has_layout (regs : Regs) (s : Text) (toks : List SpTok) (ht : tokenize regs s = .ok toks) : Relayout regs s s :=
  relayout_refl regs _ s 0 toks ht

/-- White space only: both inputs are empty programs. -/
theorem blank_inputs (regs : Regs) (g g' : Text) (hg : ∀ x ∈ g, isWs x = true) (hg' : ∀ x ∈ g', isWs x = true) :
    Relayout regs g g' := Relayout.done hg hg'

/-- More (or other) white space in front of an accepted input. -/
theorem leading_whitespace (regs : Regs) (env : LexEnv regs) (s g : Text) (toks : List SpTok)
    (ht : tokenize regs s = .ok toks) (hn : ∀ t ∈ toks, NameOK regs t.tok) (hg : ∀ x ∈ g, isWs x = true) :
    parseProgram regs (g ++ s) = parseProgram regs s := by
  exact layout_same_parse regs env s (g ++ s) ((accepted_has_layout regs s toks ht).prepend hg) toks ht hn

/-- The built-in operator names satisfy the assumptions: no white space in them, word operators are
plain words, `true`/`false` are not operators. -/
theorem builtin_lexEnv : LexEnv Regs.builtin where
  opsNoWs := by
    intro n h
    rw [EE.Props.C10.builtin_isOp_iff] at h
    have hall : ∀ n ∈ EE.Tie.allOps, ∀ c ∈ n, isWs c = false := by decide
    exact hall n h
  wordOpsPlain := by
    intro c n h hs
    rw [EE.Props.C10.builtin_isOp_iff] at h
    have hall : ∀ m ∈ EE.Tie.allOps, (match m with | c :: n => isSpecialStart c || n.all isParamCh | [] => true) = true := by decide
    have := hall _ h
    simp only [hs, Bool.false_or, List.all_eq_true] at this
    exact this
  boolsNotOps := by decide


/-! ## non-vacuity -/

theorem nogap {c : Char} {r rest' : Text} (h : isWs c = false) :
    (∃ y r0, c :: r = y :: r0 ∧ isWs y = true) → ∃ y' r', rest' = y' :: r' ∧ isWs y' = true := by
  intro ⟨y, r0, e, hw⟩
  simp only [List.cons.injEq] at e
  rw [← e.1, h] at hw; cases hw
theorem nogap_nil {rest' : Text} :
    (∃ y r0, ([] : Text) = y :: r0 ∧ isWs y = true) → ∃ y' r', rest' = y' :: r' ∧ isWs y' = true := by
  intro ⟨y, r0, e, hw⟩; cases e

/-- The hypotheses are satisfiable on the property's own example: `f(x)` and ` f (⇥x ) ` (a space before
the call parenthesis, a tab, trailing blanks) are re-layouts of each other … -/
theorem example_relayout : Relayout Regs.builtin "f(x)".toList " f (\tx ) ".toList := by
  have h5 : Relayout Regs.builtin [] [' '] := Relayout.done (by decide) (by decide)
  have h2 := Relayout.tok (regs := Regs.builtin) (g := []) (g' := [' ']) (c := ')') (kt := []) (s := 0) (t := ⟨.delim .closeParen, 0, 1⟩)
    (by decide) (by decide) (by decide) rfl nogap_nil h5
  have h1 := Relayout.tok (regs := Regs.builtin) (g := []) (g' := ['\t']) (c := 'x') (kt := []) (s := 0) (t := ⟨.ref ['x'], 0, 1⟩)
    (by decide) (by decide) (by decide) rfl (nogap (by decide)) h2
  have h0 := Relayout.tok (regs := Regs.builtin) (g := []) (g' := [' ']) (c := '(') (kt := []) (s := 0) (t := ⟨.delim .openParen, 0, 1⟩)
    (by decide) (by decide) (by decide) rfl (nogap (by decide)) h1
  have hf := Relayout.tok (regs := Regs.builtin) (g := []) (g' := [' ']) (c := 'f') (kt := []) (s := 0) (t := ⟨.func ['f'], 0, 1⟩)
    (by decide) (by decide) (by decide) rfl (nogap (by decide)) h0
  exact hf

/-- … so they parse to the same tree (through the theorem, not by running the model). -/
theorem example_same_parse (toks : List SpTok) (ht : tokenize Regs.builtin "f(x)".toList = .ok toks)
    (hn : ∀ t ∈ toks, NameOK Regs.builtin t.tok) :
    parseProgram Regs.builtin " f (\tx ) ".toList = parseProgram Regs.builtin "f(x)".toList :=
  layout_same_parse _ builtin_lexEnv _ _ example_relayout toks ht hn

end EE.Props.C11
