import EE.Model.Program
namespace EE.Props.C16
theorem placeholder : True := trivial
end EE.Props.C16
