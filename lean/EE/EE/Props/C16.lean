import EE.Lemmas.Triple
import EE.Lemmas.Tie
import EE.Model.Program
/-! # C16 — evaluations are deterministic and isolated from one another

In a functional model determinism is a fact about *types*: `parseProgram : Regs → Text → Res AST`
takes the registrations and the text and nothing else; `exec inv t : World σ → Res Value × World σ`
takes the world (registrations, the context passed in, the handlers' own state) and nothing else.
There is no hidden argument through which an earlier or concurrent evaluation could act. What
carries the assurance for the *code* is therefore the tie: the complete inventory of the crate's
global mutable state (`globals_inventory`) and the absence of registry writers on every path
from parsing, evaluating and rendering (`no_writer_reachable`) — both regenerated from the source
and kernel-checked on every run — plus the alone-vs-embedded histories run against the real crate. -/
namespace EE.Props.C16
open EE EngineM

variable {σ : Type}

/-- Parsing is a function of (registrations, text): repeating it, before or after anything else,
gives the same result. -/
theorem parse_repeatable (regs : Regs) (s : Text) : parseProgram regs s = parseProgram regs s := rfl

/-- Evaluating the same tree from equal worlds gives equal outcomes and equal final worlds
(any number of times). -/
theorem exec_repeatable (inv : Inv σ) (t : AST) (w₁ w₂ : World σ) (h : w₁ = w₂) : exec inv t w₁ = exec inv t w₂ := by
  rw [h]

/-- Evaluation only *reads* the registries: if no handler registers anything, the registrations
after an evaluation — successful or not — are the registrations before it. -/
theorem regs_readonly (inv : Inv σ) (r0 : Regs)
    (hinv : ∀ h args w, w.Clean → w.regs = r0 → (inv h args w).2.Clean ∧ (inv h args w).2.regs = r0)
    (t : AST) (w : World σ) (hw : w.Clean) (hr : w.regs = r0) :
    (exec inv t w).2.regs = r0 ∧ (exec inv t w).2.Clean := by
  let I : World σ → Prop := fun w => w.Clean ∧ w.regs = r0
  have hI : StableT I := { clean := fun _ h => h.1, ctx := fun _ _ h => h, trace := fun _ _ h => h }
  have hinv' : InvTriple I (fun _ w' => I w') inv := by
    intro h args w0 hw0
    have := hinv h args w0 hw0.1 hw0.2
    exact ⟨fun a w' e => by rw [e] at this; exact this, fun r w' e _ => by rw [e] at this; exact this⟩
  have main := Triple.exec' (F := fun _ w' => I w') (fun _ h => h) hI hinv' t w ⟨hw, hr⟩
  cases hout : exec inv t w with
  | mk res w' =>
    cases hok : res.isOk with
    | true =>
      cases res <;> simp [Res.isOk] at hok
      have := main.1 _ w' hout
      exact ⟨this.2, this.1⟩
    | false =>
      have := main.2 res w' hout hok
      exact ⟨this.2, this.1⟩

/-- A nested evaluation on its own (fresh) context leaves the caller's context exactly as it was. -/
def withFreshCtx {α : Type} (ctx0 : CtxMap) (m : EngineM σ α) : EngineM σ α := fun w =>
  let (r, w') := m { w with ctx := ctx0, ctxHeld := false, ctxPoisoned := false }
  (r, { w' with ctx := w.ctx, ctxHeld := w.ctxHeld, ctxPoisoned := w.ctxPoisoned })

theorem other_context_untouched {α : Type} (ctx0 : CtxMap) (m : EngineM σ α) (w : World σ) :
    (withFreshCtx ctx0 m w).2.ctx = w.ctx ∧ (withFreshCtx ctx0 m w).2.ctxPoisoned = w.ctxPoisoned := by
  simp [withFreshCtx]

/-- Variables live in the context passed in and nowhere else: an assignment changes `ctx` only. -/
theorem assignment_stays_in_context (n : Name) (v : CtxVal) (w : World σ) (hw : w.Clean) :
    (ctxSet n v w).2 = { w with ctx := (n, v) :: w.ctx } := by
  rw [ctxSet_clean hw]

/-- Tie: the crate's global mutable state is exactly the five registries and the once-flag. -/
theorem globals_inventory :
    Gen.globals.map (fun g => (g.1, g.2.1, g.2.2.1, g.2.2.2.2)) = [
      ("descriptor.rs".toList, "DescriptorManager::new".toList, "STORE".toList, false),
      ("function.rs".toList, "InnerFunctionManager::new".toList, "STORE".toList, false),
      ("init.rs".toList, "init".toList, "INITED".toList, false),
      ("operator.rs".toList, "InfixOpManager::new".toList, "STORE".toList, false),
      ("operator.rs".toList, "PrefixOpManager::new".toList, "STORE".toList, false),
      ("operator.rs".toList, "PostfixOpManager::new".toList, "STORE".toList, false)]
    ∧ Gen.unsafeCount = 0 ∧ Gen.stateMacros = [] := EE.Tie.globals_inventory
/-- Tie: no registry writer is reachable from parsing, evaluating or rendering. -/
theorem no_writer_reachable : ∀ n ∈ EE.Tie.reachable Gen.evalRoots, n ∉ Gen.registryWriters := EE.Tie.no_writer_reachable

end EE.Props.C16
