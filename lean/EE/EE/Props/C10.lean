import EE.Lemmas.Lex
import EE.Lemmas.Tie
import EE.Model.BuiltinRegs
/-! # C10 — tokens tile the input and carry the exact source text

Text is `List Char`; byte offsets are `utf8Len` of a prefix, which is precisely "on a character
boundary". All theorems hold for an arbitrary registry (`regs`), i.e. for the built-in operator
set and for every set extended by registered symbolic and word operators; only `longest_match`
needs a hypothesis on the set (prefix closure), which is proved for the built-in set. -/
namespace EE.Props.C10
open EE

/-- `Tiling pos cs toks`: starting at byte offset `pos` with `cs` still to read, the tokens `toks`
are laid out left to right, separated by whitespace only, each covering a non-empty run of
characters `consumed` with `start`/`stop` the byte offsets of that run and the payload that run;
what remains after the last token is whitespace. -/
inductive Tiling : Nat → Text → List SpTok → Prop
  | done {pos : Nat} {cs : Text} : (∀ c ∈ cs, isWs c = true) → Tiling pos cs []
  | tok {pos : Nat} {cs ws consumed rest : Text} {t : SpTok} {ts : List SpTok} : cs = ws ++ (consumed ++ rest) → (∀ c ∈ ws, isWs c = true) →
      consumed ≠ [] → t.start = pos + utf8Len ws → t.stop = t.start + utf8Len consumed →
      Payload t.tok consumed → Tiling t.stop rest ts → Tiling pos cs (t :: ts)

theorem lexAll_tiling (regs : Regs) (fuel : Nat) : ∀ (cs : Text) (pos : Nat) (toks : List SpTok),
    lexAll regs fuel cs pos = .ok toks → Tiling pos cs toks := by
  induction fuel with
  | zero => intro cs pos toks h; rw [lexAll_zero] at h; cases h
  | succ fuel ih =>
    intro cs pos toks h
    rw [lexAll_succ] at h
    have hsp := span_append isWs cs
    have hall := span_all isWs cs
    cases hrest : (span isWs cs).2 with
    | nil =>
      rw [hrest] at h hsp
      simp only [Res.ok.injEq] at h; subst h
      refine Tiling.done ?_
      rw [← hsp]; simpa using hall
    | cons c cs' =>
      rw [hrest] at h hsp
      simp only at h
      cases hl : lexOne regs c cs' (pos + utf8Len (span isWs cs).1) with
      | ok p =>
        obtain ⟨t, rest'⟩ := p
        rw [hl] at h
        simp only [Res.bind_ok] at h
        cases hr : lexAll regs fuel rest' t.stop with
        | ok ts =>
          rw [hr] at h; simp only [Res.bind_ok, Res.ok.injEq] at h; subst h
          obtain ⟨consumed, hc⟩ := lexOne_spec regs c cs' _ t rest' hl
          exact Tiling.tok (by rw [hc.split] at hsp; exact hsp.symm) hall hc.nonempty hc.start_eq (by rw [hc.stop_eq, hc.start_eq]) hc.payload
            (ih rest' t.stop ts hr)
        | err e => rw [hr] at h; simp at h
        | panic => rw [hr] at h; simp at h
        | deadlock => rw [hr] at h; simp at h
        | hang => rw [hr] at h; simp at h
        | unmodelled => rw [hr] at h; simp at h
      | err e => rw [hl] at h; simp at h
      | panic => rw [hl] at h; simp at h
      | deadlock => rw [hl] at h; simp at h
      | hang => rw [hl] at h; simp at h
      | unmodelled => rw [hl] at h; simp at h

/-- **Tokens tile the input.** -/
theorem tiling (regs : Regs) (s : Text) (toks : List SpTok) (h : tokenize regs s = .ok toks) : Tiling 0 s toks :=
  lexAll_tiling regs _ s 0 toks h

/-- Spans are in bounds, on character boundaries and carry the exact source text: every token's
`[start, stop)` is `[utf8Len pre, utf8Len (pre ++ mid))` for a split `input = pre ++ mid ++ post`,
and its payload is `mid` (for a string token: `mid` = quote, the payload verbatim, the same quote). -/
theorem spans_exact : ∀ (pos : Nat) (cs : Text) (toks : List SpTok) (before : Text),
    Tiling pos cs toks → pos = utf8Len before →
    ∀ t ∈ toks, ∃ pre mid post, before ++ cs = pre ++ (mid ++ post) ∧ mid ≠ [] ∧
      t.start = utf8Len pre ∧ t.stop = utf8Len (pre ++ mid) ∧ Payload t.tok mid
  | _, _, _, _, .done _, _ => by intro t ht; cases ht
  | pos, cs, _, before, .tok (ws := ws) (consumed := consumed) (rest := rest) (t := t0) (ts := ts) hsplit _ hne hstart hstop hpay htail, hpos => by
    intro t ht
    simp only [List.mem_cons] at ht
    rcases ht with rfl | ht
    · refine ⟨before ++ ws, consumed, rest, by rw [hsplit]; simp, hne, by rw [hstart, hpos, utf8Len_append], ?_, hpay⟩
      rw [hstop, hstart, hpos, utf8Len_append, utf8Len_append]
    · have := spans_exact t0.stop rest ts (before ++ ws ++ consumed) htail
        (by rw [hstop, hstart, hpos, utf8Len_append, utf8Len_append]) t ht
      obtain ⟨pre, mid, post, h1, h2⟩ := this
      exact ⟨pre, mid, post, by rw [← h1, hsplit]; simp, h2⟩

/-- Strictly increasing, non-overlapping spans. -/
theorem spans_increasing : ∀ (pos : Nat) (cs : Text) (toks : List SpTok), Tiling pos cs toks →
    ∀ t ∈ toks, pos ≤ t.start ∧ t.start < t.stop
  | _, _, _, .done _ => by intro t ht; cases ht
  | pos, cs, _, .tok (consumed := consumed) (t := t0) (ts := ts) _ _ hne hstart hstop _ htail => by
    intro t ht
    have hpos : 0 < utf8Len consumed := by
      cases consumed with
      | nil => exact absurd rfl hne
      | cons c r => simp [utf8Len]; have := Char.utf8Size_pos c; omega
    simp only [List.mem_cons] at ht
    rcases ht with rfl | ht
    · omega
    · have := spans_increasing t0.stop _ ts htail t ht
      omega

/-! ## Totality of the tokenizer (shared with C01) -/
theorem covers_shorter {t : SpTok} {all consumed rest : Text} {start : Nat} (h : Covers t all consumed rest start) :
    rest.length < all.length := by
  have := congrArg List.length h.split
  have hne : 0 < consumed.length := List.length_pos_iff.mpr h.nonempty
  simp at this; omega

theorem lexAll_total (regs : Regs) (fuel : Nat) : ∀ (cs : Text) (pos : Nat), cs.length < fuel →
    (lexAll regs fuel cs pos).isPanic = false ∧ (lexAll regs fuel cs pos).isHang = false ∧ (lexAll regs fuel cs pos).isDeadlock = false := by
  induction fuel with
  | zero => intro cs pos h; omega
  | succ fuel ih0 =>
    intro cs pos h
    rw [lexAll_succ]
    have hlen := span_length_le isWs cs
    cases hrest : (span isWs cs).2 with
    | nil => exact ⟨rfl, rfl, rfl⟩
    | cons c cs' =>
      rw [hrest] at hlen
      simp only
      have hnf := lexOne_noFault regs c cs' (pos + utf8Len (span isWs cs).1)
      cases hl : lexOne regs c cs' (pos + utf8Len (span isWs cs).1) with
      | ok p =>
        obtain ⟨t, rest'⟩ := p
        simp only [Res.bind_ok]
        obtain ⟨consumed, hc⟩ := lexOne_spec regs c cs' _ t rest' hl
        have hshort := covers_shorter hc
        have ih := ih0 rest' t.stop (by simp at hlen hshort; omega)
        cases hr : lexAll regs fuel rest' t.stop <;> rw [hr] at ih <;> simp_all [Res.isPanic, Res.isHang, Res.isDeadlock, Res.bind]
      | err e => exact ⟨rfl, rfl, rfl⟩
      | unmodelled => exact ⟨rfl, rfl, rfl⟩
      | panic => rw [hl] at hnf; simp [Res.isPanic] at hnf
      | hang => rw [hl] at hnf; simp [Res.isHang] at hnf
      | deadlock => rw [hl] at hnf; simp [Res.isDeadlock] at hnf

/-- **The tokenizer is total**: for every input and every operator set it returns tokens or an
`Err` — never a panic (no slice can fall inside a character: offsets are prefix lengths), never a
hang (the fuel `length + 1` is always enough). -/
theorem tokenize_total (regs : Regs) (s : Text) :
    (tokenize regs s).isPanic = false ∧ (tokenize regs s).isHang = false ∧ (tokenize regs s).isDeadlock = false :=
  lexAll_total regs _ s 0 (by omega)

/-! ## Classification by the documented rules -/

/-- An operator set in which every registered operator that starts with an operator character has
all its non-empty prefixes registered too. -/
def SymClosed (isOp : Text → Bool) : Prop :=
  ∀ (c : Char) (a : Text) (d : Char), isSpecialStart c = true → isOp ((c :: a) ++ [d]) = true → isOp (c :: a) = true

theorem closed_prefix (isOp : Text → Bool) (hc : SymClosed isOp) (c : Char) (hs : isSpecialStart c = true) :
    ∀ (b a : Text), isOp ((c :: a) ++ b) = true → b ≠ [] → isOp (c :: a) = true
  | [], a, _, hb => absurd rfl hb
  | [d], a, h, _ => hc c a d hs h
  | d :: e :: b', a, h, _ => by
    have h' : isOp ((c :: (a ++ [d])) ++ (e :: b')) = true := by simpa using h
    have := closed_prefix isOp hc c hs (e :: b') (a ++ [d]) h' (by simp)
    exact hc c a d hs (by simpa using this)

/-- **Longest match**: under prefix closure, the symbolic operator token is the longest registered
operator the input continues with — no longer prefix of the remaining input is a registered operator. -/
theorem longest_match (isOp : Text → Bool) (hc : SymClosed isOp) (c : Char) (hs : isSpecialStart c = true) (cs : Text)
    (p : Text) (hp : p.isPrefixOf (c :: cs) = true) (hlen : (extendOp isOp [c] cs).1.length < p.length) : isOp p = false := by
  obtain ⟨ext, h1, h2⟩ := extendOp_spec isOp cs [c]
  -- p = o ++ d :: q where the rest starts with d
  have hpre : ∃ q, c :: cs = p ++ q := by
    have := List.isPrefixOf_iff_prefix.mp hp
    obtain ⟨q, hq⟩ := this
    exact ⟨q, hq.symm⟩
  obtain ⟨q, hq⟩ := hpre
  have hall : c :: cs = (extendOp isOp [c] cs).1 ++ (extendOp isOp [c] cs).2 := by
    rw [h1, List.append_assoc, ← h2]; rfl
  -- o is a proper prefix of p
  have hop : ∃ d r, p = (extendOp isOp [c] cs).1 ++ d :: r ∧ ∃ r2, (extendOp isOp [c] cs).2 = d :: r2 := by
    have e : p ++ q = (extendOp isOp [c] cs).1 ++ (extendOp isOp [c] cs).2 := by rw [← hq, ← hall]
    have := List.append_eq_append_iff.mp e
    rcases this with ⟨a', ha1, ha2⟩ | ⟨c', hc1, hc2⟩
    · -- o = p ++ a' : impossible since o shorter than p
      have := congrArg List.length ha1
      simp at this; omega
    · cases c' with
      | nil => simp at hc1; have := congrArg List.length hc1; omega
      | cons d r => exact ⟨d, r, hc1, ⟨r ++ q, by rw [hc2]; simp⟩⟩
  obtain ⟨d, r, hpd, r2, hr2⟩ := hop
  have hstop := extendOp_stop isOp cs [c] d r2 hr2
  cases hb : isOp p with
  | false => rfl
  | true =>
    rw [hpd, h1] at hb
    have hb' : isOp ((c :: ext) ++ (d :: r)) = true := by simpa using hb
    cases r with
    | nil => rw [h1] at hstop; simp at hstop hb'; rw [hb'] at hstop; cases hstop
    | cons e r' =>
      have h3 : isOp ((c :: (ext ++ [d])) ++ (e :: r')) = true := by simpa using hb'
      have := closed_prefix isOp hc c hs (e :: r') (ext ++ [d]) h3 (by simp)
      rw [h1] at hstop
      simp at hstop this
      rw [this] at hstop; cases hstop

theorem alookup_mem {β : Type} (k : Name) : ∀ (l : List (Name × β)), (alookup k l).isSome = true → k ∈ l.map (·.1)
  | [], h => by simp at h
  | (k', v) :: r, h => by
    rw [alookup_cons] at h
    by_cases hk : k' = k
    · simp [hk]
    · simp only [hk, if_false] at h; simp [alookup_mem k r h]

theorem mem_alookup {β : Type} (k : Name) : ∀ (l : List (Name × β)), k ∈ l.map (·.1) → (alookup k l).isSome = true
  | [], h => by simp at h
  | (k', v) :: r, h => by
    rw [alookup_cons]
    by_cases hk : k' = k
    · simp [hk]
    · simp only [hk, if_false]; simp at h; rcases h with h | h
      · exact absurd h.symm hk
      · obtain ⟨b, hb⟩ := h; exact mem_alookup k r (by simp; exact ⟨b, hb⟩)

theorem alookup_isSome_iff {β : Type} (k : Name) (l : List (Name × β)) : (alookup k l).isSome = true ↔ k ∈ l.map (·.1) :=
  ⟨alookup_mem k l, mem_alookup k l⟩

theorem builtin_pre_names : Regs.builtin.pre.map (·.1) = Gen.prefixNames := by
  simp [Regs.builtin, List.map_map, Function.comp_def]
theorem builtin_post_names : Regs.builtin.post.map (·.1) = Gen.postfixNames := by
  simp [Regs.builtin, List.map_map, Function.comp_def]
theorem builtin_inf_names : Regs.builtin.inf.map (·.1) = Gen.infixTable.map (·.1) := by
  simp [Regs.builtin, List.map_map, Function.comp_def]

theorem builtin_isOp_iff (n : Name) : Regs.builtin.isOp n = true ↔ n ∈ EE.Tie.allOps := by
  unfold Regs.isOp Regs.isPrefix Regs.isInfix Regs.isPostfix Regs.isTernaryOp EE.Tie.allOps
  rw [Bool.or_eq_true, Bool.or_eq_true, Bool.or_eq_true, alookup_isSome_iff, alookup_isSome_iff, alookup_isSome_iff,
    builtin_pre_names, builtin_post_names, builtin_inf_names]
  simp only [List.mem_append, Bool.or_eq_true, beq_iff_eq, List.mem_cons, List.mem_nil_iff, or_false]
  constructor
  · rintro (((h | h) | h) | h)
    · exact Or.inl (Or.inl (Or.inr h))
    · exact Or.inl (Or.inl (Or.inl h))
    · exact Or.inl (Or.inr h)
    · exact Or.inr h
  · rintro (((h | h) | h) | h)
    · exact Or.inl (Or.inl (Or.inr h))
    · exact Or.inl (Or.inl (Or.inl h))
    · exact Or.inl (Or.inr h)
    · exact Or.inr h

/-- The table fact (regenerated, `decide`d): dropping the last character of a registered symbolic
operator of length ≥ 2 gives a registered operator. -/
theorem builtin_droplast : ∀ n ∈ EE.Tie.allOps, (match n with | c :: _ => isSpecialStart c | [] => false) = true →
    2 ≤ n.length → n.dropLast ∈ EE.Tie.allOps := by decide

/-- The built-in operator set is prefix-closed, so `longest_match` applies to it. -/
theorem builtin_closed : SymClosed Regs.builtin.isOp := by
  intro c a d hs h
  rw [builtin_isOp_iff] at h ⊢
  have := builtin_droplast _ h (by simpa using hs) (by simp)
  rw [show (c :: a) ++ [d] = (c :: a) ++ [d] from rfl, List.dropLast_concat] at this
  exact this

/-- Word operators only as whole words: in the identifier branch an operator token is produced
exactly when the **maximal run up to whitespace or a delimiter** is a registered operator, and it
is that whole run. -/
theorem word_operator_whole_word (regs : Regs) (c : Char) (cs : Text) (start : Nat) :
    (regs.isOp (c :: (span notWsDelim cs).1) = true → (lexOther regs c cs start).1.tok = .op (c :: (span notWsDelim cs).1)) ∧
    (regs.isOp (c :: (span notWsDelim cs).1) = false →
      (lexOther regs c cs start).1.tok = classifyAtom (c :: (span isParamCh cs).1) (span isParamCh cs).2) := by
  constructor <;> intro h <;> simp [lexOther, h]

/-- `true/True/false/False` are booleans; a name followed (after optional whitespace) by `(` is a
function name; any other name is a reference. -/
theorem atom_classes (atom rest : Text) :
    (atom = ['t', 'r', 'u', 'e'] ∨ atom = ['T', 'r', 'u', 'e'] → classifyAtom atom rest = .bool true) ∧
    (atom = ['f', 'a', 'l', 's', 'e'] ∨ atom = ['F', 'a', 'l', 's', 'e'] → classifyAtom atom rest = .bool false) ∧
    (atom ≠ ['t', 'r', 'u', 'e'] → atom ≠ ['T', 'r', 'u', 'e'] → atom ≠ ['f', 'a', 'l', 's', 'e'] → atom ≠ ['F', 'a', 'l', 's', 'e'] →
      classifyAtom atom rest = if nextIsOpenParen rest then .func atom else .ref atom) := by
  refine ⟨?_, ?_, ?_⟩
  · rintro (rfl | rfl) <;> rfl
  · rintro (rfl | rfl) <;> rfl
  · intro h1 h2 h3 h4
    simp [classifyAtom, h1, h2, h3, h4]

/-! Witnesses, kernel-checked, incl. a multi-byte character right after an operator character. -/
example : tokenize Regs.builtin ['+', 'é'] = .ok [⟨.op ['+'], 0, 1⟩, ⟨.ref ['é'], 1, 3⟩] := by rfl
example : tokenize Regs.builtin ['a', '<', '<', '=', '1'] = .ok [⟨.ref ['a'], 0, 1⟩, ⟨.op ['<', '<', '='], 1, 4⟩, ⟨.num ⟨false, 1, 0⟩, 4, 5⟩] := by rfl
example : tokenize Regs.builtin "'a\"b' f (".toList = .ok [⟨.str "a\"b".toList, 0, 5⟩, ⟨.func ['f'], 6, 7⟩, ⟨.delim .openParen, 8, 9⟩] := by rfl

end EE.Props.C10
