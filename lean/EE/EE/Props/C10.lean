import EE.Model.Program
namespace EE.Props.C10
theorem placeholder : True := trivial
end EE.Props.C10
