import EE.Model.Program
namespace EE.Props.C17
theorem placeholder : True := trivial
end EE.Props.C17
