import EE.Lemmas.DecLemmas
import EE.Model.Value
/-! # C17 — value conversions preserve the value

`⟦d⟧ = d.num / 10^d.scale`; "denotes the integer n" is `d.num = n * 10^d.scale`. -/
namespace EE.Props.C17
open EE

/-- `Value::from(n)` for `i8 … i64`, `u8 … u64`: `Decimal::from_*` of a value below 2^96 in
magnitude — the number with mantissa |n|, scale 0 and n's sign. -/
def fromInt (n : Int) : Value := Value.ofInt n

/-- `Value::from(n)` for the 128-bit types as the code does it: `Decimal::from_i128(n).unwrap_or_default()`,
i.e. **0** when the magnitude does not fit the 96-bit mantissa. -/
def fromWide (n : Int) : Value := if n.natAbs < mantLimit then Value.ofInt n else Value.ofInt 0

def denotes (v : Value) (n : Int) : Prop := ∃ d, v = .num d ∧ d.num = n * 10 ^ d.scale

theorem ofInt_num (n : Int) : (Dec.ofInt n).num = n ∧ (Dec.ofInt n).scale = 0 := by
  unfold Dec.ofInt Dec.ofNumScale Dec.num
  by_cases h : n < 0
  · simp [h]; omega
  · simp [h]; omega

/-- Every 8/16/32/64-bit integer converts to exactly that integer (mantissa < 2^96, scale 0). -/
theorem from_int (n : Int) (h : -9223372036854775808 ≤ n ∧ n ≤ 18446744073709551615) :
    denotes (fromInt n) n ∧ (Dec.ofInt n).WF := by
  refine ⟨⟨Dec.ofInt n, rfl, by simp [ofInt_num n]⟩, ?_⟩
  unfold Dec.WF Dec.ofInt Dec.ofNumScale mantLimit maxScale
  simp; omega

/-- 128-bit integers below 2^96 in magnitude convert exactly … -/
theorem from_wide_partial (n : Int) (h : n.natAbs < mantLimit) : denotes (fromWide n) n := by
  simp only [fromWide, h, if_true]
  exact ⟨Dec.ofInt n, rfl, by simp [ofInt_num n]⟩

/-- … the full-strength statement for the 128-bit types (kept visible) … -/
def statement_wide : Prop := ∀ n : Int, -170141183460469231731687303715884105728 ≤ n → n ≤ 340282366920938463463374607431768211455 → denotes (fromWide n) n

/-- … is **false** of the code: `i128::MAX` becomes 0 (known finding KF-C17-from-wide). -/
theorem violated_wide : ¬ statement_wide := by
  intro h
  obtain ⟨d, hd, hn⟩ := h 170141183460469231731687303715884105727 (by decide) (by decide)
  have : fromWide 170141183460469231731687303715884105727 = Value.ofInt 0 := by
    simp [fromWide, mantLimit]
  rw [this] at hd
  simp only [Value.ofInt] at hd
  cases hd
  have h0 := ofInt_num 0
  rw [h0.1, h0.2] at hn
  simp at hn

/-! ## Round trips through the typed accessors -/
theorem string_roundtrip (s : Text) : (Value.str s).string = .ok s := rfl
theorem bool_roundtrip (b : Bool) : (Value.bool b).bool' = .ok b := rfl
theorem decimal_roundtrip (d : Dec) : (Value.num d).decimal = .ok d := rfl
theorem list_roundtrip (l : List Value) : (Value.list l).list' = .ok l := rfl

/-! ## Every accessor rejects every other variant -/
theorem decimal_rejects (v : Value) (h : ∀ d, v ≠ .num d) : v.decimal = .err .shouldBeNumber := by
  cases v <;> first | rfl | exact absurd rfl (h _)
theorem string_rejects (v : Value) (h : ∀ s, v ≠ .str s) : v.string = .err .shouldBeString := by
  cases v <;> first | rfl | exact absurd rfl (h _)
theorem bool_rejects (v : Value) (h : ∀ b, v ≠ .bool b) : v.bool' = .err .shouldBeBool := by
  cases v <;> first | rfl | exact absurd rfl (h _)
theorem list_rejects (v : Value) (h : ∀ l, v ≠ .list l) : v.list' = .err .shouldBeList := by
  cases v <;> first | rfl | exact absurd rfl (h _)
theorem integer_rejects_nonnumber (v : Value) (h : ∀ d, v ≠ .num d) : v.integer = .err .invalidInteger := by
  cases v <;> first | rfl | exact absurd rfl (h _)

/-- **`integer()` returns n for every number whose value is the integer n within the i64 range,
whatever its scale, and an error for every other number.** The model goes the way the code goes
(normalise, print as decimal text, parse as `i64`), so this is a genuine digit-string theorem. -/
theorem integer_iff (d : Dec) (n : Int) :
    (Value.num d).integer = .ok n ↔ (d.num = n * 10 ^ d.scale ∧ -9223372036854775808 ≤ n ∧ n ≤ 9223372036854775807) := by
  rw [← Dec.toI64_spec]
  simp only [Value.integer]
  cases h : Dec.toI64 d with
  | none => simp
  | some k => simp

theorem integer_rejects (d : Dec)
    (h : ¬ ∃ n : Int, d.num = n * 10 ^ d.scale ∧ -9223372036854775808 ≤ n ∧ n ≤ 9223372036854775807) :
    (Value.num d).integer = .err .invalidInteger := by
  simp only [Value.integer]
  cases hk : Dec.toI64 d with
  | none => rfl
  | some k => exact absurd ⟨k, (Dec.toI64_spec d k).mp hk⟩ h

/-! ## Conversion in, accessor out: the composition a user of the API relies on -/

/-- **Every `i8 … i64` survives `Value::from(n).integer()` unchanged** (and every `u8 … u64` up to
`i64::MAX`). -/
theorem int_roundtrip (n : Int) (h : -9223372036854775808 ≤ n ∧ n ≤ 9223372036854775807) :
    (fromInt n).integer = .ok n := by
  unfold fromInt Value.ofInt
  rw [integer_iff]
  have h0 := ofInt_num n
  rw [h0.1, h0.2]
  exact ⟨by simp, h⟩

/-- A `u64` above `i64::MAX` converts exactly (`from_int`) and `integer()` then *fails* — it never
wraps to a negative number or saturates. -/
theorem u64_above_i64_rejected (n : Int) (h : 9223372036854775807 < n) :
    (fromInt n).integer = .err .invalidInteger := by
  unfold fromInt Value.ofInt
  apply integer_rejects
  rintro ⟨m, hm, _, hhi⟩
  have h0 := ofInt_num n
  rw [h0.1, h0.2] at hm
  simp at hm
  omega

/-- `Value::from(n).decimal()` is the number with mantissa |n|, scale 0 and n's sign. -/
theorem int_decimal_roundtrip (n : Int) : (fromInt n).decimal = .ok (Dec.ofInt n) := rfl

/-- The typed accessors never confuse an integer with another variant. -/
theorem int_not_other (n : Int) :
    (fromInt n).string = .err .shouldBeString ∧ (fromInt n).bool' = .err .shouldBeBool ∧
    (fromInt n).list' = .err .shouldBeList := ⟨rfl, rfl, rfl⟩

example : (fromInt (-9223372036854775808)).integer = .ok (-9223372036854775808) :=
  int_roundtrip _ (by decide)
example : (fromInt 18446744073709551615).integer = .err .invalidInteger :=
  u64_above_i64_rejected _ (by decide)

/-! Non-vacuity: `3.0`, `1.5 * 2 = 3.0`, `-0.0`; a fractional and an out-of-range value. -/
example : (Value.num ⟨false, 30, 1⟩).integer = .ok 3 := by rfl
example : (Value.num ⟨true, 0, 1⟩).integer = .ok 0 := by rfl
example : (Value.num ⟨false, 35, 1⟩).integer = .err .invalidInteger := by rfl
example : (Value.num ⟨false, 9223372036854775808, 0⟩).integer = .err .invalidInteger := by rfl
example : (Value.num ⟨true, 92233720368547758080, 1⟩).integer = .ok (-9223372036854775808) := by rfl

end EE.Props.C17
