import EE.Lemmas.Congr
import EE.Lemmas.StdInv
import EE.Lemmas.Tie
/-! # C14 — handlers may re-enter the engine without deadlock

Model: `World.ctxHeld` / `regHeld` say that the evaluating context's mutex / a registry mutex is
currently held by the evaluating thread; `withCtx` / `withRegs` are `lock(); map operation;
drop guard` and report `deadlock` when the mutex is already held (std's mutex is not re-entrant).
A handler is an arbitrary function on worlds, so it can call anything of the engine's API again,
including `withCtx` on the evaluating context (= locking the context's public handle).
`World.Clean` = no engine lock held or poisoned. -/
namespace EE.Props.C14
open EE EngineM

variable {σ : Type}

def NoDeadlock : Fault → Prop := fun f => f ≠ .deadlock

/-- Handlers that themselves keep the lock discipline (whatever else they do: re-enter, fail, panic). -/
abbrev HandlersClean (inv : Inv σ) : Prop := InvKeeps World.Clean NoDeadlock inv

/-- The outer evaluation never deadlocks and leaves no engine lock held or poisoned, for every
tree, whatever the handlers do, at any nesting depth of re-entrancy (handlers are arbitrary). -/
theorem exec_never_deadlocks (inv : Inv σ) (hinv : HandlersClean inv) (t : AST) (w : World σ) (hw : w.Clean) :
    (exec inv t w).1.isDeadlock = false ∧ (exec inv t w).2.Clean := by
  have h := Keeps.exec (A := NoDeadlock) (by simp [NoDeadlock]) stable_clean hinv t w hw
  refine ⟨?_, h.1⟩
  have := h.2
  cases hr : (exec inv t w).1 <;> simp_all [NoDeadlock, Res.fault, Res.isDeadlock]

/-- A handler semantics that *refuses to run* (reports `deadlock`) when invoked while any engine
lock is held — what a handler that locks the same mutex again would experience. -/
def guarded (inv : Inv σ) : Inv σ := fun h args w =>
  if w.ctxHeld = false ∧ w.ctxPoisoned = false ∧ w.regHeld = false ∧ w.regPoisoned = false then inv h args w
  else (.deadlock, w)

/-- Every handler invocation of an evaluation — by call `f(..)`, by bare name `f`, as prefix,
infix or postfix operator — happens with **no engine lock held**: replacing every handler by its
`guarded` version changes nothing. -/
theorem invoke_holds_no_lock (inv : Inv σ) (hinv : HandlersClean inv) (t : AST) (w : World σ) (hw : w.Clean) :
    exec (guarded inv) t w = exec inv t w := by
  refine (EqOn.exec (A := NoDeadlock) (by simp [NoDeadlock]) stable_clean hinv (fun hd args w' hw' => ?_) t w hw).symm
  obtain ⟨h1, h2, h3, h4⟩ := hw'
  simp [guarded, h1, h2, h3, h4]

/-- The API actions a handler can re-enter with are themselves clean: locking the evaluating
context's handle, reading or writing a registry (`register_*`), a nested evaluation. Hence handlers
built from them, nested to any depth, satisfy `HandlersClean`. -/
theorem api_actions_clean (inv : Inv σ) (hinv : HandlersClean inv) :
    (∀ {α : Type} (f : CtxMap → α × CtxMap), Keeps World.Clean NoDeadlock (withCtx f : EngineM σ α)) ∧
    (∀ {α : Type} (f : Regs → α × Regs), Keeps World.Clean NoDeadlock (withRegs f : EngineM σ α)) ∧
    (∀ t, Keeps World.Clean NoDeadlock (exec inv t)) := by
  refine ⟨fun f => Keeps.withCtx (by simp [NoDeadlock]) stable_clean f, fun f w hw => ?_, fun t => Keeps.exec (by simp [NoDeadlock]) stable_clean hinv t⟩
  rw [withRegs_clean hw]
  exact ⟨hw, by simp [NoDeadlock, Res.fault]⟩

/-- With the built-in handlers plus user handlers that keep the discipline. -/
theorem exec_std (userInv : Nat → List Value → EngineM σ Value)
    (hu : ∀ id args, Keeps World.Clean NoDeadlock (userInv id args)) (t : AST) (w : World σ) (hw : w.Clean) :
    (exec (stdInv userInv) t w).1.isDeadlock = false ∧ (exec (stdInv userInv) t w).2.Clean :=
  exec_never_deadlocks _ (stdInv_keeps (by simp [NoDeadlock]) userInv hu) t w hw

/-- Tie to the source (regenerated fact, kernel-checked on every run): while any guard is alive
only std map/guard methods and constructors are called, and no second lock is taken. -/
theorem no_call_under_lock : ∀ s ∈ Gen.lockSites, s.otherCalls = [] ∧ s.nestedLocks = 0 := EE.Tie.no_call_under_lock

/-! ## Non-vacuity: the model *can* deadlock.
`ctxValueUnderLock` is `Context::value` as it was before the repair (the handler runs while the
context guard is alive); a context function that locks its own context's handle then deadlocks,
and one that panics poisons the context. The faithful `ctxValue` does neither. -/
def ctxValueUnderLock (inv : Inv σ) (n : Name) : EngineM σ Value :=
  holdingCtx fun w => match alookup n w.ctx with
    | none => (.ok Value.none, w)
    | some (.var v) => (.ok v, w)
    | some (.fn h) => invoke inv h [] w

def lockingInv : Inv Unit := fun _ _ => withCtx fun m => (Value.ofInt m.length, m)
def w0 : World Unit := { regs := Regs.empty, ctx := [(['f'], .fn (.user 0))], user := () }

example : (ctxValueUnderLock lockingInv ['f'] w0).1.isDeadlock = true := by rfl
example : (ctxValue lockingInv ['f'] w0).1.isOk = true := by rfl
example : HandlersClean lockingInv := fun _ _ => Keeps.withCtx (by simp [NoDeadlock]) stable_clean _
example : (exec lockingInv (.binary ['+'] (.ref ['f']) (.lit (.num Dec.one))) w0).1.isDeadlock = false :=
  (exec_never_deadlocks lockingInv (fun _ _ => Keeps.withCtx (by simp [NoDeadlock]) stable_clean _) _ w0 (by simp [World.Clean, w0])).1

end EE.Props.C14
