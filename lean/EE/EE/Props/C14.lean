import EE.Model.Program
namespace EE.Props.C14
theorem placeholder : True := trivial
end EE.Props.C14
