import EE.Model.Render
import EE.Lemmas.Tie
/-! # C18 — describe() renders each node with exactly the descriptor registered for it

`describe dreg dinv t`: `dreg` is the descriptor registry (key ↦ descriptor id, most recent
first), `dinv` what each registered descriptor computes — arbitrary, so the theorems hold for every
user-supplied descriptor. `describe` is a total function into `Text`: it has no failure outcome
at all (no `Res`), which is the model-level content of "returns without panicking". -/
namespace EE.Props.C18
open EE

/-- Registering a descriptor under key `k` affects lookups of `k` only. -/
theorem set_get (r : DReg) (k k' : DKey) (d : Nat) :
    dlookup k' (r.set k d) = if k = k' then some d else dlookup k' r := by
  simp [DReg.set, dlookup]

/-- The last registration for a key wins. -/
theorem last_wins (r : DReg) (k : DKey) (d d' : Nat) : dlookup k ((r.set k d).set k d') = some d' := by
  simp [DReg.set, dlookup]

/-- The key a node is looked up under: its kind and, for operators, calls and references, its name. -/
def keyOf : AST → Option DKey
  | .unary op _ => some (.unary op)
  | .binary op _ _ => some (.binary op)
  | .postfix _ op => some (.postfix op)
  | .ternary .. => some .ternary
  | .ref n => some (.reference n)
  | .call n _ => some (.function n)
  | .list _ => some .list
  | .map _ => some .map
  | .stmt _ => some .chain
  | .lit _ => none
  | .none => none

/-- The arguments a node's descriptor receives: its operator/name and its children's descriptions. -/
def argsOf (dreg : DReg) (dinv : DInv) : AST → List Text
  | .unary op r => [op, describe dreg dinv r]
  | .binary op l r => [op, describe dreg dinv l, describe dreg dinv r]
  | .postfix l op => [describe dreg dinv l, op]
  | .ternary c a b => [describe dreg dinv c, describe dreg dinv a, describe dreg dinv b]
  | .ref n => [n]
  | .call n args => n :: describeList dreg dinv args
  | .list xs => describeList dreg dinv xs
  | .map kvs => describeMap dreg dinv kvs
  | .stmt xs => describeList dreg dinv xs
  | _ => []

/-- A node with a registered descriptor is rendered by exactly that descriptor, applied to the
node's name and the descriptions of its children. -/
theorem uses (dreg : DReg) (dinv : DInv) (t : AST) (k : DKey) (d : Nat)
    (hk : keyOf t = some k) (hd : dlookup k dreg = some d) :
    describe dreg dinv t = dinv d (argsOf dreg dinv t) := by
  cases t <;> simp [keyOf] at hk <;> subst hk <;> simp [describe, applyDesc, hd, argsOf]

/-- A node without a registered descriptor gets the documented default rendering. -/
theorem default (dreg : DReg) (dinv : DInv) (t : AST) (k : DKey)
    (hk : keyOf t = some k) (hd : dlookup k dreg = none) :
    describe dreg dinv t = defaultDesc k (argsOf dreg dinv t) := by
  cases t <;> simp [keyOf] at hk <;> subst hk <;> simp [describe, applyDesc, hd, argsOf]

/-- Literals are rendered as `expr()` renders them, whatever is registered. -/
theorem literal (dreg : DReg) (dinv : DInv) (l : Lit) : describe dreg dinv (.lit l) = litText l := by
  simp [describe]

mutual
/-- All keys a tree's nodes are looked up under. -/
def keysOf : AST → List DKey
  | .unary op r => .unary op :: keysOf r
  | .binary op l r => .binary op :: (keysOf l ++ keysOf r)
  | .postfix l op => .postfix op :: keysOf l
  | .ternary c a b => .ternary :: (keysOf c ++ (keysOf a ++ keysOf b))
  | .ref n => [.reference n]
  | .call n args => .function n :: keysOfList args
  | .list xs => .list :: keysOfList xs
  | .map kvs => .map :: keysOfMap kvs
  | .stmt xs => .chain :: keysOfList xs
  | .lit _ => []
  | .none => []
def keysOfList : List AST → List DKey
  | [] => []
  | a :: as => keysOf a ++ keysOfList as
def keysOfMap : List (AST × AST) → List DKey
  | [] => []
  | (k, v) :: r => keysOf k ++ (keysOf v ++ keysOfMap r)
end

theorem applyDesc_frame (dreg : DReg) (dinv : DInv) (k k' : DKey) (d : Nat) (args : List Text) (h : k' ≠ k) :
    applyDesc (dreg.set k d) dinv k' args = applyDesc dreg dinv k' args := by
  simp [applyDesc, set_get, Ne.symm h]

mutual
/-- Registering a descriptor for one kind or name never changes how a tree that contains no node
of that kind and name is rendered. -/
theorem frame (dreg : DReg) (dinv : DInv) (k : DKey) (d : Nat) :
    ∀ t : AST, k ∉ keysOf t → describe (dreg.set k d) dinv t = describe dreg dinv t
  | .lit _, _ => by simp [describe]
  | .none, _ => by simp [describe]
  | .ref n, h => by
      simp [keysOf] at h
      simp [describe, applyDesc_frame dreg dinv k _ d _ (Ne.symm h)]
  | .unary op r, h => by
      simp [keysOf] at h
      simp [describe, frame dreg dinv k d r h.2, applyDesc_frame dreg dinv k _ d _ (Ne.symm h.1)]
  | .postfix l op, h => by
      simp [keysOf] at h
      simp [describe, frame dreg dinv k d l h.2, applyDesc_frame dreg dinv k _ d _ (Ne.symm h.1)]
  | .binary op l r, h => by
      simp [keysOf] at h
      simp [describe, frame dreg dinv k d l h.2.1, frame dreg dinv k d r h.2.2,
        applyDesc_frame dreg dinv k _ d _ (Ne.symm h.1)]
  | .ternary c a b, h => by
      simp [keysOf] at h
      simp [describe, frame dreg dinv k d c h.2.1, frame dreg dinv k d a h.2.2.1, frame dreg dinv k d b h.2.2.2,
        applyDesc_frame dreg dinv k _ d _ (Ne.symm h.1)]
  | .call n args, h => by
      simp [keysOf] at h
      simp [describe, frameList dreg dinv k d args h.2, applyDesc_frame dreg dinv k _ d _ (Ne.symm h.1)]
  | .list xs, h => by
      simp [keysOf] at h
      simp [describe, frameList dreg dinv k d xs h.2, applyDesc_frame dreg dinv k _ d _ (Ne.symm h.1)]
  | .stmt xs, h => by
      simp [keysOf] at h
      simp [describe, frameList dreg dinv k d xs h.2, applyDesc_frame dreg dinv k _ d _ (Ne.symm h.1)]
  | .map kvs, h => by
      simp [keysOf] at h
      simp [describe, frameMap dreg dinv k d kvs h.2, applyDesc_frame dreg dinv k _ d _ (Ne.symm h.1)]
theorem frameList (dreg : DReg) (dinv : DInv) (k : DKey) (d : Nat) :
    ∀ ts : List AST, k ∉ keysOfList ts → describeList (dreg.set k d) dinv ts = describeList dreg dinv ts
  | [], _ => by simp [describeList]
  | a :: as, h => by
      simp [keysOfList] at h
      simp [describeList, frame dreg dinv k d a h.1, frameList dreg dinv k d as h.2]
theorem frameMap (dreg : DReg) (dinv : DInv) (k : DKey) (d : Nat) :
    ∀ ts : List (AST × AST), k ∉ keysOfMap ts → describeMap (dreg.set k d) dinv ts = describeMap dreg dinv ts
  | [], _ => by simp [describeMap]
  | (a, b) :: r, h => by
      simp [keysOfMap] at h
      simp [describeMap, frame dreg dinv k d a h.1, frame dreg dinv k d b h.2.1, frameMap dreg dinv k d r h.2.2]
end

/-- Keys of different kinds, or of the same kind with different names, are different keys:
a registration for one can never be found under the other. -/
theorem keys_distinct (a b : Name) (h : a ≠ b) :
    DKey.unary a ≠ DKey.unary b ∧ DKey.binary a ≠ DKey.binary b ∧ DKey.postfix a ≠ DKey.postfix b ∧
    DKey.function a ≠ DKey.function b ∧ DKey.reference a ≠ DKey.reference b ∧
    DKey.unary a ≠ DKey.binary a ∧ DKey.unary a ≠ DKey.postfix a ∧ DKey.binary a ≠ DKey.postfix a ∧
    DKey.function a ≠ DKey.reference a := by
  simp [h]

/-- Tie to the source: every getter builds the key constructor its setter builds (regenerated fact). -/
theorem desc_keys_match : ∀ p ∈ Gen.descKeys, p.2.1 = p.2.2.2.1 ∧ p.2.2.1 = p.2.2.2.2 := EE.Tie.desc_keys_match

/-- Tie: different kinds build different key constructors (regenerated fact). -/
theorem desc_keys_distinct : (Gen.descKeys.map (·.2.1)).Nodup ∧ (Gen.descKeys.map (·.2.2.1)).Nodup := EE.Tie.desc_keys_distinct

/-! Non-vacuity: a configuration where a binary descriptor is registered and used, and a sibling
kind keeps its default. -/
example :
    let dreg : DReg := DReg.set [] (DKey.binary ['+']) 0
    let dinv : DInv := fun _ args => ['<'] ++ joinWith ['|'] args ++ ['>']
    describe dreg dinv (.binary ['+'] (.ref ['a']) (.unary ['-'] (.ref ['b'])))
      = "<+|a|-b>".toList := by decide

end EE.Props.C18
