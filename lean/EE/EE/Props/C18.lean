import EE.Model.Program
namespace EE.Props.C18
theorem placeholder : True := trivial
end EE.Props.C18
