import EE.Model.Program
namespace EE.Props.C02
theorem placeholder : True := trivial
end EE.Props.C02
