import EE.Lemmas.Pratt
import EE.Lemmas.ParserLim
import EE.Props.C05
/-! # C02 — operators group exactly by the documented precedence and associativity

`Spec/Cst.lean` states the documented rule: an expression *as written* is a `CST` (parentheses
explicit); it is `Canon` when it carries every pair of parentheses the table requires, i.e. an
unparenthesised operand of an infix operator is itself an infix expression only if its operator
binds tighter, or equally tight on the side the level associates to; prefix operators take a
primary, postfix operators a token-level expression; the condition of `c ? a : b` is an operator
chain, its branches are whole expressions.  The theorems:

* `groups_as_written` — for **every** canonical expression, of any size and nesting within the
  parser's `MAX_DEPTH`, over **any** operator table satisfying `TableOK` (so also tables extended
  by `register_*`), parsing its tokens returns exactly the tree it denotes.
* `canonical_reading_unique` — two canonical expressions with the same tokens denote the same tree.
* `chain_has_canonical_form` — every sequence `p₀ o₁ p₁ … oₙ pₙ` of operands and (optionally
  negated) infix operators *is* the token sequence of a canonical expression, so the first theorem
  speaks about every operator sequence, not just about those somebody thought of.
* the clause-by-clause corollaries of the property text, and `builtin_table_ok`. -/
namespace EE.Props.C02
open EE EE.Spec EE.Spec.CST

/-- The nesting of `c` is within the parser's limit `lim` (`MAX_DEPTH`). -/
def Fits (lim : Nat) (c : CST) : Prop := c.nest + 1 ≤ lim ∧ c.strip.height ≤ lim

theorem tableOK_pos {regs : Regs} (tb : TableOK regs) : RegsPos regs := tb.pos

/-- **Main theorem.** -/
theorem groups_as_written (regs : Regs) (tb : TableOK regs) (lim : Nat) (c : CST) (hc : Canon regs c) (hf : Fits lim c) :
    parseTokens regs lim c.flatten = .ok c.strip := by
  obtain ⟨hn, hh⟩ := hf
  have hl : 1 ≤ lim := by omega
  have m := main tb lim c 1 hc (by omega) hh
  have hp := top_of_M (d := 0) tb hc (by omega) m [] (follow_nil regs)
  rw [List.append_nil] at hp
  obtain ⟨t, ts, hfl, _⟩ := flatten_start c
  have hfuel := PExpr.at_fuel hl tb.pos hp (4 * c.flatten.length + 7) (Nat.le_refl _)
  unfold parseTokens parseFuel
  rw [hfl] at hfuel ⊢
  simp only [parseStmts, hfuel, Res.bind_ok]

/-- The statement loop: canonical expressions separated by `;`. -/
def flattenProg : List CST → List Tok
  | [] => []
  | [c] => c.flatten
  | c :: cs => c.flatten ++ (.semi :: flattenProg cs)

theorem stmts_as_written (regs : Regs) (tb : TableOK regs) (lim : Nat) (hl : 1 ≤ lim) : ∀ (cs : List CST),
    (∀ c ∈ cs, Canon regs c ∧ Fits lim c) → ∀ fuel, 4 * (flattenProg cs).length + 8 ≤ fuel →
    parseStmts regs lim fuel (flattenProg cs) = .ok (cs.map CST.strip, AST.heightList (cs.map CST.strip))
  | [], _, fuel, hf => by
    obtain ⟨k, rfl⟩ : ∃ k, fuel = k + 1 := ⟨fuel - 1, by omega⟩
    simp [flattenProg, parseStmts, AST.heightList]
  | [c], h, fuel, hf => by
    obtain ⟨hc, hn, hh⟩ := h c (by simp)
    obtain ⟨k, rfl⟩ : ∃ k, fuel = k + 1 := ⟨fuel - 1, by omega⟩
    have m := main tb lim c 1 hc (by omega) hh
    have hp := top_of_M (d := 0) tb hc (by omega) m [] (follow_nil regs)
    rw [List.append_nil] at hp
    obtain ⟨t, ts, hfl, _⟩ := flatten_start c
    simp only [flattenProg] at hf ⊢
    have hfuel := PExpr.at_fuel hl tb.pos hp k (by omega)
    rw [hfl] at hfuel hf ⊢
    obtain ⟨k2, rfl⟩ : ∃ k2, k = k2 + 1 := ⟨k - 1, by simp at hf; omega⟩
    simp only [parseStmts, hfuel, Res.bind_ok]
    simp [parseStmts, AST.heightList]
  | c :: c2 :: cs, h, fuel, hf => by
    obtain ⟨hc, hn, hh⟩ := h c (by simp)
    obtain ⟨k, rfl⟩ : ∃ k, fuel = k + 1 := ⟨fuel - 1, by omega⟩
    have m := main tb lim c 1 hc (by omega) hh
    have hp := top_of_M (d := 0) tb hc (by omega) m (.semi :: flattenProg (c2 :: cs)) (follow_semi regs _)
    obtain ⟨t, ts, hfl, _⟩ := flatten_start c
    simp only [flattenProg] at hf ⊢
    have hfuel := PExpr.at_fuel hl tb.pos hp k (by omega)
    have ih := stmts_as_written regs tb lim hl (c2 :: cs) (fun x hx => h x (by simp [hx])) k (by simp at hf ⊢; omega)
    rw [hfl] at hfuel hf ⊢
    simp only [List.cons_append] at hfuel ⊢
    simp only [parseStmts, hfuel, Res.bind_ok]
    rw [ih]
    simp [AST.heightList]

/-- A program of several statements parses to the statement chain of their trees. -/
theorem program_as_written (regs : Regs) (tb : TableOK regs) (lim : Nat) (hl : 1 ≤ lim) (cs : List CST)
    (h : ∀ c ∈ cs, Canon regs c ∧ Fits lim c) (hh : AST.heightList (cs.map CST.strip) + 1 ≤ lim) :
    parseTokens regs lim (flattenProg cs) = .ok (programTree (cs.map CST.strip)) := by
  unfold parseTokens parseFuel
  rw [stmts_as_written regs tb lim hl cs h _ (Nat.le_refl _)]
  simp only [Res.bind_ok]
  match cs, hh with
  | [], hh => rw [node_fits hh]; rfl
  | [c], _ => simp [programTree]
  | c :: c2 :: cs, hh => rw [node_fits hh]; rfl

/-- Two canonical ways of writing the same token sequence denote the same tree: the table leaves
no choice. -/
theorem canonical_reading_unique (regs : Regs) (tb : TableOK regs) (lim : Nat) (c₁ c₂ : CST)
    (h₁ : Canon regs c₁) (h₂ : Canon regs c₂) (f₁ : Fits lim c₁) (f₂ : Fits lim c₂) (h : c₁.flatten = c₂.flatten) :
    c₁.strip = c₂.strip := by
  have e₁ := groups_as_written regs tb lim c₁ h₁ f₁
  have e₂ := groups_as_written regs tb lim c₂ h₂ f₂
  rw [h, e₂] at e₁
  injection e₁ with e
  exact e.symm


/-- From source text: if the text tokenizes to the tokens of a canonical expression, `parse_expression`
returns the tree it denotes. -/
theorem parse_groups_as_written (regs : Regs) (tb : TableOK regs) (s : Text) (sts : List SpTok) (c : CST)
    (ht : tokenize regs s = .ok sts) (hfl : sts.map (·.tok) = c.flatten) (hc : Canon regs c) (hf : Fits maxDepth c) :
    parseProgram regs s = .ok c.strip := by
  unfold parseProgram
  rw [ht]; simp only [Res.bind_ok]
  rw [hfl]; exact groups_as_written regs tb maxDepth c hc hf

/-! ## the built-in table -/

theorem alookup_mem {β : Type} {n : Name} {c : β} : ∀ {l : List (Name × β)}, alookup n l = some c → (n, c) ∈ l
  | [], h => by simp at h
  | (k, v) :: xs, h => by
    rw [alookup_cons] at h
    by_cases e : k = n
    · simp only [e, if_true, Option.some.injEq] at h; subst h; subst e; simp
    · simp only [e, if_false] at h; simp [alookup_mem h]

theorem isInfix_mem {regs : Regs} {o : Name} (h : regs.isInfix o = true) :
    ∃ c, (o, c) ∈ regs.inf ∧ Regs.prec regs o = c.prec ∧ Regs.isRight regs o = c.right := by
  unfold Regs.isInfix at h
  cases hc : alookup o regs.inf with
  | none => simp [hc] at h
  | some c => exact ⟨c, alookup_mem hc, by simp [Regs.prec, hc], by simp [Regs.isRight, hc]⟩

/-- The regenerated built-in operator table satisfies every assumption of the theorems above. -/
theorem builtin_table_ok : TableOK Regs.builtin where
  pos := EE.Props.C05.builtin_pos
  assoc := by
    intro o o' h h' he
    obtain ⟨c, hm, hp, hr⟩ := isInfix_mem h
    obtain ⟨c', hm', hp', hr'⟩ := isInfix_mem h'
    have hall : ∀ x ∈ Regs.builtin.inf, ∀ y ∈ Regs.builtin.inf, x.2.prec = y.2.prec → x.2.right = y.2.right := by decide
    rw [hr, hr']; exact hall _ hm _ hm' (by rw [← hp, ← hp', he])
  infixNotPostfix := by
    intro o h
    obtain ⟨c, hm, _, _⟩ := isInfix_mem h
    have hall : ∀ x ∈ Regs.builtin.inf, Regs.builtin.isPostfix x.1 = false := by decide
    exact hall _ hm
  q := by decide
  colon := by decide
  notOp := by decide

theorem groups_as_written_builtin (c : CST) (hc : Canon Regs.builtin c) (hf : Fits maxDepth c) :
    parseTokens Regs.builtin maxDepth c.flatten = .ok c.strip :=
  groups_as_written _ builtin_table_ok _ c hc hf

/-! ## every operator sequence has a canonical reading

`attach c nt o p` extends the canonical expression `c` on the right by `o p` (`not o p` if `nt`):
the new operator goes down the right spine as long as it binds tighter than the operator there (or
equally tight at a right-to-left level). -/

def attach (regs : Regs) : CST → Bool → Name → CST → CST
  | .bin nt' o' l r, nt, o, p =>
    if Regs.prec regs o' < Regs.prec regs o ∨ (Regs.prec regs o = Regs.prec regs o' ∧ Regs.isRight regs o' = true)
    then .bin nt' o' l (attach regs r nt o p) else .bin nt o (.bin nt' o' l r) p
  | c, nt, o, p => .bin nt o c p

theorem attach_flatten (regs : Regs) : ∀ (c : CST) (nt : Bool) (o : Name) (p : CST),
    (attach regs c nt o p).flatten = c.flatten ++ (opToks nt o ++ p.flatten)
  | .bin nt' o' l r, nt, o, p => by
    unfold attach; split
    · simp only [CST.flatten, attach_flatten regs r nt o p, List.append_assoc]
    · simp only [CST.flatten, List.append_assoc]
  | .atom _, _, _, _ | .paren _, _, _, _ | .unary _ _, _, _, _ | .postfix _ _, _, _, _ | .call _ _, _, _, _
  | .list _ _, _, _, _ | .map _ _, _, _, _ | .tern _ _ _, _, _, _ => by simp [attach, CST.flatten]

theorem attach_root (regs : Regs) (c : CST) (nt : Bool) (o : Name) (p : CST) :
    (attach regs c nt o p).root? = some o ∨ ((attach regs c nt o p).root? = c.root? ∧ ∃ o', c.root? = some o' ∧
      (Regs.prec regs o' < Regs.prec regs o ∨ (Regs.prec regs o = Regs.prec regs o' ∧ Regs.isRight regs o' = true))) := by
  cases c with
  | bin nt' o' l r =>
    unfold attach; split
    · rename_i h; exact Or.inr ⟨rfl, o', rfl, h⟩
    · exact Or.inl rfl
  | _ => exact Or.inl rfl

theorem attach_not_tern (regs : Regs) (c : CST) (nt : Bool) (o : Name) (p : CST) : (attach regs c nt o p).isTern = false := by
  cases c with
  | bin nt' o' l r => unfold attach; split <;> rfl
  | _ => rfl

theorem attach_canon (regs : Regs) (tb : TableOK regs) : ∀ (c : CST) (nt : Bool) (o : Name) (p : CST),
    Canon regs c → c.isTern = false → regs.isInfix o = true → Canon regs p → p.isPrimary = true →
    Canon regs (attach regs c nt o p)
  | .bin nt' o' l r, nt, o, p, hc, _, hinf, hp, hpp => by
    obtain ⟨hinf', hl, hr, hlt, hrt, hL, hR⟩ := hc
    have hps := primary_shape hpp
    unfold attach; split
    · rename_i hcond
      refine ⟨hinf', hl, attach_canon regs tb r nt o p hr hrt hinf hp hpp, hlt, attach_not_tern regs r nt o p, hL, ?_⟩
      intro o'' ho''
      rcases attach_root regs r nt o p with h1 | ⟨h1, _⟩
      · rw [h1] at ho''; cases ho''
        unfold okRight
        rcases hcond with h | ⟨h, h2⟩
        · exact Or.inl h
        · exact Or.inr ⟨h, h2⟩
      · rw [h1] at ho''; exact hR o'' ho''
    · rename_i hcond
      refine ⟨hinf, ⟨hinf', hl, hr, hlt, hrt, hL, hR⟩, hp, rfl, hps.2.2.1, ?_, ?_⟩
      · intro o'' ho''
        simp only [root?, Option.some.injEq] at ho''; subst ho''
        unfold okLeft
        rcases Int.lt_trichotomy (Regs.prec regs o) (Regs.prec regs o') with h | h | h
        · exact Or.inl h
        · refine Or.inr ⟨h.symm, ?_⟩
          have hne : ¬ Regs.isRight regs o' = true := fun hr' => hcond (Or.inr ⟨h, hr'⟩)
          rw [tb.assoc o o' hinf hinf' h]
          simpa using hne
        · exact absurd (Or.inl h) hcond
      · intro o'' ho''; rw [hps.2.2.2] at ho''; cases ho''
  | .atom a, nt, o, p, hc, _, hinf, hp, hpp | .paren a, nt, o, p, hc, _, hinf, hp, hpp | .unary _ a, nt, o, p, hc, _, hinf, hp, hpp
  | .postfix a _, nt, o, p, hc, _, hinf, hp, hpp | .call _ a, nt, o, p, hc, _, hinf, hp, hpp
  | .list a _, nt, o, p, hc, _, hinf, hp, hpp | .map a _, nt, o, p, hc, _, hinf, hp, hpp => by
    have hps := primary_shape hpp
    exact ⟨hinf, hc, hp, rfl, hps.2.2.1, fun o' h => by simp [root?] at h, fun o' h => by rw [hps.2.2.2] at h; cases h⟩
  | .tern _ _ _, _, _, _, _, ht, _, _, _ => by simp [isTern] at ht

/-- A chain `p₀ (not)? o₁ p₁ … (not)? oₙ pₙ` read left to right. -/
def canonize (regs : Regs) (p₀ : CST) : List (Bool × Name × CST) → CST
  | [] => p₀
  | (nt, o, p) :: rest => canonize regs (attach regs p₀ nt o p) rest

def chainToks (p₀ : CST) (ops : List (Bool × Name × CST)) : List Tok :=
  p₀.flatten ++ (ops.map fun (nt, o, p) => opToks nt o ++ p.flatten).flatten

theorem canonize_spec (regs : Regs) (tb : TableOK regs) : ∀ (ops : List (Bool × Name × CST)) (c₀ : CST),
    Canon regs c₀ → c₀.isTern = false → (∀ x ∈ ops, regs.isInfix x.2.1 = true ∧ Canon regs x.2.2 ∧ x.2.2.isPrimary = true) →
    Canon regs (canonize regs c₀ ops) ∧ (canonize regs c₀ ops).isTern = false ∧
    (canonize regs c₀ ops).flatten = chainToks c₀ ops
  | [], c₀, hc, ht, _ => ⟨hc, ht, by simp [canonize, chainToks]⟩
  | (nt, o, p) :: rest, c₀, hc, ht, h => by
    obtain ⟨hinf, hp, hpp⟩ := h (nt, o, p) (by simp)
    have ih := canonize_spec regs tb rest (attach regs c₀ nt o p) (attach_canon regs tb c₀ nt o p hc ht hinf hp hpp)
      (attach_not_tern regs c₀ nt o p) (fun x hx => h x (by simp [hx]))
    refine ⟨ih.1, ih.2.1, ?_⟩
    simp only [canonize]
    rw [ih.2.2]
    simp [chainToks, attach_flatten, List.append_assoc]

/-- **Every operator sequence is covered**: any chain of operands (primaries: atoms, calls, lists,
maps, parenthesised expressions, each with optional prefix/postfix operators) joined by infix
operators, optionally negated, is the token sequence of a canonical expression; by
`groups_as_written` the parser returns that expression's tree, and by `canonical_reading_unique`
no other canonical reading exists. -/
theorem chain_has_canonical_form (regs : Regs) (tb : TableOK regs) (p₀ : CST) (ops : List (Bool × Name × CST))
    (h₀ : Canon regs p₀) (hp₀ : p₀.isPrimary = true)
    (h : ∀ x ∈ ops, regs.isInfix x.2.1 = true ∧ Canon regs x.2.2 ∧ x.2.2.isPrimary = true) :
    ∃ c, Canon regs c ∧ c.flatten = chainToks p₀ ops := by
  have := canonize_spec regs tb ops p₀ h₀ (primary_shape hp₀).2.2.1 h
  exact ⟨_, this.1, this.2.2⟩

theorem chain_parses (regs : Regs) (tb : TableOK regs) (lim : Nat) (p₀ : CST) (ops : List (Bool × Name × CST))
    (h₀ : Canon regs p₀) (hp₀ : p₀.isPrimary = true)
    (h : ∀ x ∈ ops, regs.isInfix x.2.1 = true ∧ Canon regs x.2.2 ∧ x.2.2.isPrimary = true)
    (hf : Fits lim (canonize regs p₀ ops)) :
    parseTokens regs lim (chainToks p₀ ops) = .ok (canonize regs p₀ ops).strip := by
  have := canonize_spec regs tb ops p₀ h₀ (primary_shape hp₀).2.2.1 h
  rw [← this.2.2]
  exact groups_as_written regs tb lim _ this.1 hf


/-! ## the clauses of the property, one by one

`a`, `b`, `c`, `x`, `y` are arbitrary canonical operands (`Opnd`: atoms, calls, lists, maps,
parenthesised expressions, with optional prefix and postfix operators), `e₁ e₂ …` arbitrary
canonical expressions. Each statement shows the tokens and the tree. -/

/-- a canonical operand -/
def Opnd (regs : Regs) (a : CST) : Prop := Canon regs a ∧ a.isPrimary = true

theorem Opnd.notTern {regs : Regs} {a : CST} (h : Opnd regs a) : a.isTern = false := (primary_shape h.2).2.2.1
theorem Opnd.noRoot {regs : Regs} {a : CST} (h : Opnd regs a) : ∀ o', a.root? = some o' → False := by
  intro o' e; rw [(primary_shape h.2).2.2.2] at e; cases e

section Clauses
variable (regs : Regs) (tb : TableOK regs) (lim : Nat)
include tb

/-- a single infix operator -/
theorem infix_one {a b : CST} {o : Name} (ha : Opnd regs a) (hb : Opnd regs b) (ho : regs.isInfix o = true)
    (hf : Fits lim (.bin false o a b)) :
    parseTokens regs lim (a.flatten ++ .op o :: b.flatten) = .ok (.binary o a.strip b.strip) := by
  have h := groups_as_written regs tb lim (.bin false o a b)
    ⟨ho, ha.1, hb.1, ha.notTern, hb.notTern, fun o' e => (ha.noRoot o' e).elim, fun o' e => (hb.noRoot o' e).elim⟩ hf
  simpa [CST.flatten, CST.strip, opToks, wrapNot] using h

/-- **a higher-precedence operator binds before a lower one** (higher one second): `a o₁ b o₂ c = a o₁ (b o₂ c)` -/
theorem tighter_second_binds_first {a b c : CST} {o₁ o₂ : Name} (ha : Opnd regs a) (hb : Opnd regs b) (hc : Opnd regs c)
    (h₁ : regs.isInfix o₁ = true) (h₂ : regs.isInfix o₂ = true) (hp : Regs.prec regs o₁ < Regs.prec regs o₂)
    (hf : Fits lim (.bin false o₁ a (.bin false o₂ b c))) :
    parseTokens regs lim (a.flatten ++ .op o₁ :: (b.flatten ++ .op o₂ :: c.flatten)) =
      .ok (.binary o₁ a.strip (.binary o₂ b.strip c.strip)) := by
  have h := groups_as_written regs tb lim (.bin false o₁ a (.bin false o₂ b c))
    ⟨h₁, ha.1, ⟨h₂, hb.1, hc.1, hb.notTern, hc.notTern, fun o' e => (hb.noRoot o' e).elim, fun o' e => (hc.noRoot o' e).elim⟩,
      ha.notTern, rfl, fun o' e => (ha.noRoot o' e).elim, fun o' e => by cases e; exact Or.inl hp⟩ hf
  simpa [CST.flatten, CST.strip, opToks, wrapNot] using h

/-- **a higher-precedence operator binds before a lower one** (higher one first): `a o₁ b o₂ c = (a o₁ b) o₂ c` -/
theorem tighter_first_binds_first {a b c : CST} {o₁ o₂ : Name} (ha : Opnd regs a) (hb : Opnd regs b) (hc : Opnd regs c)
    (h₁ : regs.isInfix o₁ = true) (h₂ : regs.isInfix o₂ = true) (hp : Regs.prec regs o₂ < Regs.prec regs o₁)
    (hf : Fits lim (.bin false o₂ (.bin false o₁ a b) c)) :
    parseTokens regs lim (a.flatten ++ .op o₁ :: (b.flatten ++ .op o₂ :: c.flatten)) =
      .ok (.binary o₂ (.binary o₁ a.strip b.strip) c.strip) := by
  have h := groups_as_written regs tb lim (.bin false o₂ (.bin false o₁ a b) c)
    ⟨h₂, ⟨h₁, ha.1, hb.1, ha.notTern, hb.notTern, fun o' e => (ha.noRoot o' e).elim, fun o' e => (hb.noRoot o' e).elim⟩, hc.1,
      rfl, hc.notTern, fun o' e => by cases e; exact Or.inl hp, fun o' e => (hc.noRoot o' e).elim⟩ hf
  simpa [CST.flatten, CST.strip, opToks, wrapNot] using h

/-- **equal precedence, left-to-right level** (every calculation operator): `a o₁ b o₂ c = (a o₁ b) o₂ c` -/
theorem equal_prec_groups_left {a b c : CST} {o₁ o₂ : Name} (ha : Opnd regs a) (hb : Opnd regs b) (hc : Opnd regs c)
    (h₁ : regs.isInfix o₁ = true) (h₂ : regs.isInfix o₂ = true) (hp : Regs.prec regs o₁ = Regs.prec regs o₂)
    (hl : Regs.isRight regs o₂ = false) (hf : Fits lim (.bin false o₂ (.bin false o₁ a b) c)) :
    parseTokens regs lim (a.flatten ++ .op o₁ :: (b.flatten ++ .op o₂ :: c.flatten)) =
      .ok (.binary o₂ (.binary o₁ a.strip b.strip) c.strip) := by
  have h := groups_as_written regs tb lim (.bin false o₂ (.bin false o₁ a b) c)
    ⟨h₂, ⟨h₁, ha.1, hb.1, ha.notTern, hb.notTern, fun o' e => (ha.noRoot o' e).elim, fun o' e => (hb.noRoot o' e).elim⟩, hc.1,
      rfl, hc.notTern, fun o' e => by cases e; exact Or.inr ⟨hp, hl⟩, fun o' e => (hc.noRoot o' e).elim⟩ hf
  simpa [CST.flatten, CST.strip, opToks, wrapNot] using h

/-- **equal precedence, right-to-left level** (assignment operators): `a o₁ b o₂ c = a o₁ (b o₂ c)` -/
theorem equal_prec_groups_right {a b c : CST} {o₁ o₂ : Name} (ha : Opnd regs a) (hb : Opnd regs b) (hc : Opnd regs c)
    (h₁ : regs.isInfix o₁ = true) (h₂ : regs.isInfix o₂ = true) (hp : Regs.prec regs o₂ = Regs.prec regs o₁)
    (hr : Regs.isRight regs o₁ = true) (hf : Fits lim (.bin false o₁ a (.bin false o₂ b c))) :
    parseTokens regs lim (a.flatten ++ .op o₁ :: (b.flatten ++ .op o₂ :: c.flatten)) =
      .ok (.binary o₁ a.strip (.binary o₂ b.strip c.strip)) := by
  have h := groups_as_written regs tb lim (.bin false o₁ a (.bin false o₂ b c))
    ⟨h₁, ha.1, ⟨h₂, hb.1, hc.1, hb.notTern, hc.notTern, fun o' e => (hb.noRoot o' e).elim, fun o' e => (hc.noRoot o' e).elim⟩,
      ha.notTern, rfl, fun o' e => (ha.noRoot o' e).elim, fun o' e => by cases e; exact Or.inr ⟨hp, hr⟩⟩ hf
  simpa [CST.flatten, CST.strip, opToks, wrapNot] using h

/-- **prefix operators bind tighter than every infix operator**: `pre a o b = (pre a) o b`, `a o pre b = a o (pre b)` -/
theorem prefix_tighter_than_infix {a b : CST} {pre o : Name} (ha : Opnd regs a) (hb : Opnd regs b)
    (hpre : regs.isPrefix pre = true) (ho : regs.isInfix o = true)
    (hf : Fits lim (.bin false o (.unary pre a) (.unary pre b))) :
    parseTokens regs lim (.op pre :: (a.flatten ++ .op o :: .op pre :: b.flatten)) =
      .ok (.binary o (.unary pre a.strip) (.unary pre b.strip)) := by
  have h := groups_as_written regs tb lim (.bin false o (.unary pre a) (.unary pre b))
    ⟨ho, ⟨hpre, ha.2, ha.1⟩, ⟨hpre, hb.2, hb.1⟩, rfl, rfl, fun o' e => (by cases e), fun o' e => (by cases e)⟩ hf
  simpa [CST.flatten, CST.strip, opToks, wrapNot] using h

/-- **a postfix operator binds tighter than a prefix one**: `pre a post = pre (a post)` -/
theorem postfix_tighter_than_prefix {a : CST} {pre post : Name} (ha : Canon regs a) (hpa : a.postfixable = true)
    (hpre : regs.isPrefix pre = true) (hpost : regs.isPostfix post = true) (hf : Fits lim (.unary pre (.postfix a post))) :
    parseTokens regs lim (.op pre :: (a.flatten ++ [.op post])) = .ok (.unary pre (.postfix a.strip post)) := by
  have h := groups_as_written regs tb lim (.unary pre (.postfix a post)) ⟨hpre, rfl, hpost, hpa, ha⟩ hf
  simpa [CST.flatten, CST.strip] using h

/-- every postfix operator after an operand belongs to it, also under a prefix operator:
`pre a p₁ p₂ = pre ((a p₁) p₂)` (before the repair recorded as `fixed: C11 … postfix` the second
postfix operator applied to the whole prefix expression) -/
theorem postfix_chain_under_prefix {a : CST} {pre p₁ p₂ : Name} (ha : Canon regs a) (hpa : a.postfixable = true)
    (hpre : regs.isPrefix pre = true) (h₁ : regs.isPostfix p₁ = true) (h₂ : regs.isPostfix p₂ = true)
    (hf : Fits lim (.unary pre (.postfix (.postfix a p₁) p₂))) :
    parseTokens regs lim (.op pre :: (a.flatten ++ [.op p₁, .op p₂])) = .ok (.unary pre (.postfix (.postfix a.strip p₁) p₂)) := by
  have h := groups_as_written regs tb lim (.unary pre (.postfix (.postfix a p₁) p₂)) ⟨hpre, rfl, h₂, rfl, h₁, hpa, ha⟩ hf
  simpa [CST.flatten, CST.strip] using h

/-- … and both bind tighter than any infix operator: `pre a post o b = (pre (a post)) o b` -/
theorem prefix_postfix_then_infix {a b : CST} {pre post o : Name} (ha : Canon regs a) (hpa : a.postfixable = true) (hb : Opnd regs b)
    (hpre : regs.isPrefix pre = true) (hpost : regs.isPostfix post = true) (ho : regs.isInfix o = true)
    (hf : Fits lim (.bin false o (.unary pre (.postfix a post)) b)) :
    parseTokens regs lim (.op pre :: (a.flatten ++ .op post :: .op o :: b.flatten)) =
      .ok (.binary o (.unary pre (.postfix a.strip post)) b.strip) := by
  have h := groups_as_written regs tb lim (.bin false o (.unary pre (.postfix a post)) b)
    ⟨ho, ⟨hpre, rfl, hpost, hpa, ha⟩, hb.1, rfl, hb.notTern, fun o' e => (by cases e), fun o' e => (hb.noRoot o' e).elim⟩ hf
  simpa [CST.flatten, CST.strip, opToks, wrapNot] using h

/-- **`x not OP y` means `not (x OP y)`** -/
theorem not_form {a b : CST} {o : Name} (ha : Opnd regs a) (hb : Opnd regs b) (ho : regs.isInfix o = true)
    (hf : Fits lim (.bin true o a b)) :
    parseTokens regs lim (a.flatten ++ tNot :: .op o :: b.flatten) = .ok (.unary notName (.binary o a.strip b.strip)) := by
  have h := groups_as_written regs tb lim (.bin true o a b)
    ⟨ho, ha.1, hb.1, ha.notTern, hb.notTern, fun o' e => (ha.noRoot o' e).elim, fun o' e => (hb.noRoot o' e).elim⟩ hf
  simpa [CST.flatten, CST.strip, opToks, wrapNot] using h

/-- **… with OP keeping its own precedence** (tighter OP on the right): `a o₁ b not o₂ c = a o₁ (not (b o₂ c))` -/
theorem not_form_keeps_precedence_right {a b c : CST} {o₁ o₂ : Name} (ha : Opnd regs a) (hb : Opnd regs b) (hc : Opnd regs c)
    (h₁ : regs.isInfix o₁ = true) (h₂ : regs.isInfix o₂ = true) (hp : Regs.prec regs o₁ < Regs.prec regs o₂)
    (hf : Fits lim (.bin false o₁ a (.bin true o₂ b c))) :
    parseTokens regs lim (a.flatten ++ .op o₁ :: (b.flatten ++ tNot :: .op o₂ :: c.flatten)) =
      .ok (.binary o₁ a.strip (.unary notName (.binary o₂ b.strip c.strip))) := by
  have h := groups_as_written regs tb lim (.bin false o₁ a (.bin true o₂ b c))
    ⟨h₁, ha.1, ⟨h₂, hb.1, hc.1, hb.notTern, hc.notTern, fun o' e => (hb.noRoot o' e).elim, fun o' e => (hc.noRoot o' e).elim⟩,
      ha.notTern, rfl, fun o' e => (ha.noRoot o' e).elim, fun o' e => by cases e; exact Or.inl hp⟩ hf
  simpa [CST.flatten, CST.strip, opToks, wrapNot] using h

/-- (looser OP on the right): `a o₁ b not o₂ c = not ((a o₁ b) o₂ c)` -/
theorem not_form_keeps_precedence_left {a b c : CST} {o₁ o₂ : Name} (ha : Opnd regs a) (hb : Opnd regs b) (hc : Opnd regs c)
    (h₁ : regs.isInfix o₁ = true) (h₂ : regs.isInfix o₂ = true) (hp : Regs.prec regs o₂ < Regs.prec regs o₁)
    (hf : Fits lim (.bin true o₂ (.bin false o₁ a b) c)) :
    parseTokens regs lim (a.flatten ++ .op o₁ :: (b.flatten ++ tNot :: .op o₂ :: c.flatten)) =
      .ok (.unary notName (.binary o₂ (.binary o₁ a.strip b.strip) c.strip)) := by
  have h := groups_as_written regs tb lim (.bin true o₂ (.bin false o₁ a b) c)
    ⟨h₂, ⟨h₁, ha.1, hb.1, ha.notTern, hb.notTern, fun o' e => (ha.noRoot o' e).elim, fun o' e => (hb.noRoot o' e).elim⟩, hc.1,
      rfl, hc.notTern, fun o' e => by cases e; exact Or.inl hp, fun o' e => (hc.noRoot o' e).elim⟩ hf
  simpa [CST.flatten, CST.strip, opToks, wrapNot] using h

/-- **the conditional binds looser than every infix operator**, in all three positions:
`a o b ? x o y : u o v = (a o b) ? (x o y) : (u o v)` -/
theorem conditional_loosest {a b x y u v : CST} {o : Name} (ha : Opnd regs a) (hb : Opnd regs b) (hx : Opnd regs x) (hy : Opnd regs y)
    (hu : Opnd regs u) (hv : Opnd regs v) (ho : regs.isInfix o = true)
    (hf : Fits lim (.tern (.bin false o a b) (.bin false o x y) (.bin false o u v))) :
    parseTokens regs lim (a.flatten ++ .op o :: (b.flatten ++ tQ :: (x.flatten ++ .op o :: (y.flatten ++ tColon :: (u.flatten ++ .op o :: v.flatten))))) =
      .ok (.ternary (.binary o a.strip b.strip) (.binary o x.strip y.strip) (.binary o u.strip v.strip)) := by
  have mk : ∀ {p q : CST}, Opnd regs p → Opnd regs q → Canon regs (.bin false o p q) := fun hp hq =>
    ⟨ho, hp.1, hq.1, hp.notTern, hq.notTern, fun o' e => (hp.noRoot o' e).elim, fun o' e => (hq.noRoot o' e).elim⟩
  have h := groups_as_written regs tb lim (.tern (.bin false o a b) (.bin false o x y) (.bin false o u v))
    ⟨mk ha hb, rfl, mk hx hy, mk hu hv⟩ hf
  simpa [CST.flatten, CST.strip, opToks, wrapNot] using h

/-- **the conditional nests to the right**: `c ? a : b ? x : y = c ? a : (b ? x : y)`, for arbitrary
canonical expressions in the branch positions -/
theorem conditional_nests_right {c b a x y : CST} (hc : Canon regs c) (hct : c.isTern = false) (hb : Canon regs b) (hbt : b.isTern = false)
    (ha : Canon regs a) (hx : Canon regs x) (hy : Canon regs y) (hf : Fits lim (.tern c a (.tern b x y))) :
    parseTokens regs lim (c.flatten ++ tQ :: (a.flatten ++ tColon :: (b.flatten ++ tQ :: (x.flatten ++ tColon :: y.flatten)))) =
      .ok (.ternary c.strip a.strip (.ternary b.strip x.strip y.strip)) := by
  have h := groups_as_written regs tb lim (.tern c a (.tern b x y)) ⟨hc, hct, ha, hb, hbt, hx, hy⟩ hf
  simpa [CST.flatten, CST.strip] using h

/-- **parentheses override all of this**: `(e₁) o (e₂)` has `e₁` and `e₂` as operands whatever they are -/
theorem parens_override {e₁ e₂ : CST} {o : Name} (h₁ : Canon regs e₁) (h₂ : Canon regs e₂) (ho : regs.isInfix o = true)
    (hf : Fits lim (.bin false o (.paren e₁) (.paren e₂))) :
    parseTokens regs lim (tOpen :: (e₁.flatten ++ tClose :: .op o :: tOpen :: (e₂.flatten ++ [tClose]))) =
      .ok (.binary o e₁.strip e₂.strip) := by
  have h := groups_as_written regs tb lim (.bin false o (.paren e₁) (.paren e₂))
    ⟨ho, h₁, h₂, rfl, rfl, fun o' e => (by cases e), fun o' e => (by cases e)⟩ hf
  simpa [CST.flatten, CST.strip, opToks, wrapNot] using h

/-- … including under prefix and postfix operators: `pre (e) post = pre ((e) post)` -/
theorem parens_under_prefix_postfix {e : CST} {pre post : Name} (he : Canon regs e)
    (hpre : regs.isPrefix pre = true) (hpost : regs.isPostfix post = true) (hf : Fits lim (.unary pre (.postfix (.paren e) post))) :
    parseTokens regs lim (.op pre :: tOpen :: (e.flatten ++ [tClose, .op post])) = .ok (.unary pre (.postfix e.strip post)) := by
  have h := groups_as_written regs tb lim (.unary pre (.postfix (.paren e) post)) ⟨hpre, rfl, hpost, rfl, he⟩ hf
  simpa [CST.flatten, CST.strip] using h

end Clauses

/-! ## the hypotheses are satisfiable: one of the property's own examples, through the theorem

`1 + 2 * 3 not == 7` over the built-in table is `not ((1 + (2 * 3)) == 7)` — obtained from
`groups_as_written_builtin`, not by running the model. -/

def d (n : Nat) : Dec := ⟨false, n, 0⟩
def exampleCst : CST :=
  .bin true ['=', '='] (.bin false ['+'] (.atom (.num (d 1))) (.bin false ['*'] (.atom (.num (d 2))) (.atom (.num (d 3))))) (.atom (.num (d 7)))

theorem example_canon : Canon Regs.builtin exampleCst := by
  refine ⟨by decide, ⟨by decide, trivial, ⟨by decide, trivial, trivial, rfl, rfl, ?_, ?_⟩, rfl, rfl, ?_, ?_⟩, trivial, rfl, rfl, ?_, ?_⟩
  all_goals (intro o' e; first | cases e | skip)
  all_goals first | (unfold okLeft; decide) | (unfold okRight; decide)

theorem example_fits : Fits maxDepth exampleCst := by unfold Fits; decide

theorem example_parse :
    parseTokens Regs.builtin maxDepth
      [.num (d 1), .op ['+'], .num (d 2), .op ['*'], .num (d 3), .op ['n', 'o', 't'], .op ['=', '='], .num (d 7)] =
    .ok (.unary notName (.binary ['=', '='] (.binary ['+'] (.lit (.num (d 1))) (.binary ['*'] (.lit (.num (d 2))) (.lit (.num (d 3)))))
      (.lit (.num (d 7))))) :=
  groups_as_written_builtin exampleCst example_canon example_fits

/-! ## every sentence of the grammar has a canonical reading — and it is what the parser returns -/

/-- a postfix operator written after a primary goes under the primary's prefix operators -/
def pushPostfix : CST → Name → CST
  | .unary o' c', o => .unary o' (pushPostfix c' o)
  | c, o => .postfix c o

theorem pushPostfix_flatten : ∀ (c : CST) (o : Name), (pushPostfix c o).flatten = c.flatten ++ [.op o]
  | .unary o' c', o => by simp only [pushPostfix, CST.flatten, pushPostfix_flatten c' o, List.cons_append]
  | .atom _, _ | .paren _, _ | .postfix _ _, _ | .call _ _, _ | .list _ _, _ | .map _ _, _ | .bin _ _ _ _, _ | .tern _ _ _, _ => by
    simp [pushPostfix, CST.flatten]

theorem pushPostfix_primary : ∀ (c : CST) (o : Name), (pushPostfix c o).isPrimary = true
  | .unary _ _, _ => rfl
  | .atom _, _ | .paren _, _ | .postfix _ _, _ | .call _ _, _ | .list _ _, _ | .map _ _, _ | .bin _ _ _ _, _ | .tern _ _ _, _ => rfl

theorem pushPostfix_canon {regs : Regs} : ∀ (c : CST) (o : Name), Canon regs c → c.isPrimary = true → regs.isPostfix o = true →
    Canon regs (pushPostfix c o)
  | .unary o' c', o, hc, _, ho => ⟨hc.1, pushPostfix_primary c' o, pushPostfix_canon c' o hc.2.2 hc.2.1 ho⟩
  | .atom _, _, hc, _, ho | .paren _, _, hc, _, ho | .postfix _ _, _, hc, _, ho | .call _ _, _, hc, _, ho
  | .list _ _, _, hc, _, ho | .map _ _, _, hc, _, ho => ⟨ho, rfl, hc⟩
  | .bin _ _ _ _, _, _, hp, _ | .tern _ _ _, _, _, hp, _ => by simp [isPrimary] at hp

theorem chainToks_append (p₀ : CST) (ops : List (Bool × Name × CST)) (nt : Bool) (o : Name) (q₀ : CST) (ops' : List (Bool × Name × CST)) :
    chainToks p₀ (ops ++ (nt, o, q₀) :: ops') = chainToks p₀ ops ++ (opToks nt o ++ chainToks q₀ ops') := by
  simp [chainToks, List.append_assoc]

def OpsOK (regs : Regs) (ops : List (Bool × Name × CST)) : Prop :=
  ∀ x ∈ ops, regs.isInfix x.2.1 = true ∧ Canon regs x.2.2 ∧ x.2.2.isPrimary = true

mutual
theorem gtok_canon {regs : Regs} (tb : TableOK regs) : ∀ {ts : List Tok} {e : AST}, GTok regs ts e →
    ∃ c, Canon regs c ∧ c.flatten = ts ∧ c.isPrimary = true
  | _, _, .num d => ⟨.atom (.num d), trivial, rfl, rfl⟩
  | _, _, .bool b => ⟨.atom (.bool b), trivial, rfl, rfl⟩
  | _, _, .str s => ⟨.atom (.str s), trivial, rfl, rfl⟩
  | _, _, .ref n => ⟨.atom (.ref n), trivial, rfl, rfl⟩
  | _, _, .call0 n => ⟨.call n .nil, trivial, rfl, rfl⟩
  | _, _, .call (n := n) h => by
    obtain ⟨xs, hc, _, hf⟩ := gargs_canon tb h
    exact ⟨.call n xs, hc, by simp [CST.flatten, hf], rfl⟩
  | _, _, .unary (o := o) hp h => by
    obtain ⟨c, hc, hf, hpr⟩ := gprim_canon tb h
    exact ⟨.unary o c, ⟨hp, hpr, hc⟩, by simp [CST.flatten, hf], rfl⟩
  | _, _, .paren h => by
    obtain ⟨c, hc, hf⟩ := gexpr_canon tb h
    exact ⟨.paren c, hc, by simp [CST.flatten, hf], rfl⟩
  | _, _, .list h => by
    obtain ⟨xs, tr, hc, htr, hf⟩ := gitems_canon tb h
    exact ⟨.list xs tr, ⟨hc, htr⟩, by simp [CST.flatten, ← hf, List.append_assoc], rfl⟩
  | _, _, .map h => by
    obtain ⟨xs, tr, hc, htr, hf⟩ := gentries_canon tb h
    exact ⟨.map xs tr, ⟨hc, htr⟩, by simp [CST.flatten, ← hf, List.append_assoc], rfl⟩
theorem gprim_canon {regs : Regs} (tb : TableOK regs) : ∀ {ts : List Tok} {e : AST}, GPrim regs ts e →
    ∃ c, Canon regs c ∧ c.flatten = ts ∧ c.isPrimary = true
  | _, _, .tok h => gtok_canon tb h
  | _, _, .postfix (o := o) h hp => by
    obtain ⟨c, hc, hf, hpr⟩ := gprim_canon tb h
    exact ⟨pushPostfix c o, pushPostfix_canon c o hc hpr hp, by rw [pushPostfix_flatten, hf], pushPostfix_primary c o⟩
theorem gbin_canon {regs : Regs} (tb : TableOK regs) : ∀ {ts : List Tok} {e : AST}, GBin regs ts e →
    ∃ p₀ ops, Canon regs p₀ ∧ p₀.isPrimary = true ∧ OpsOK regs ops ∧ chainToks p₀ ops = ts
  | _, _, .prim h => by
    obtain ⟨c, hc, hf, hpr⟩ := gprim_canon tb h
    exact ⟨c, [], hc, hpr, (by intro x hx; cases hx), by simp [chainToks, hf]⟩
  | _, _, .bin (o := o) hl ho hr => by
    obtain ⟨p₀, ops, hc, hpr, hops, hf⟩ := gbin_canon tb hl
    obtain ⟨q₀, ops', hc', hpr', hops', hf'⟩ := gbin_canon tb hr
    refine ⟨p₀, ops ++ (false, o, q₀) :: ops', hc, hpr, ?_, by rw [chainToks_append, hf, hf']; simp [opToks]⟩
    intro x hx
    simp only [List.mem_append, List.mem_cons] at hx
    rcases hx with hx | rfl | hx
    · exact hops x hx
    · exact ⟨ho, hc', hpr'⟩
    · exact hops' x hx
  | _, _, .notBin (o := o) hl ho hr => by
    obtain ⟨p₀, ops, hc, hpr, hops, hf⟩ := gbin_canon tb hl
    obtain ⟨q₀, ops', hc', hpr', hops', hf'⟩ := gbin_canon tb hr
    refine ⟨p₀, ops ++ (true, o, q₀) :: ops', hc, hpr, ?_, by rw [chainToks_append, hf, hf']; simp [opToks]⟩
    intro x hx
    simp only [List.mem_append, List.mem_cons] at hx
    rcases hx with hx | rfl | hx
    · exact hops x hx
    · exact ⟨ho, hc', hpr'⟩
    · exact hops' x hx
theorem gexpr_canon {regs : Regs} (tb : TableOK regs) : ∀ {ts : List Tok} {e : AST}, GExpr regs ts e →
    ∃ c, Canon regs c ∧ c.flatten = ts
  | _, _, .bin h => by
    obtain ⟨p₀, ops, hc, hpr, hops, hf⟩ := gbin_canon tb h
    have := canonize_spec regs tb ops p₀ hc (primary_shape hpr).2.2.1 hops
    exact ⟨_, this.1, by rw [this.2.2, hf]⟩
  | _, _, .tern hc ha hb => by
    obtain ⟨p₀, ops, hcc, hpr, hops, hf⟩ := gbin_canon tb hc
    have hcan := canonize_spec regs tb ops p₀ hcc (primary_shape hpr).2.2.1 hops
    obtain ⟨a, hca, hfa⟩ := gexpr_canon tb ha
    obtain ⟨b, hcb, hfb⟩ := gexpr_canon tb hb
    exact ⟨.tern (canonize regs p₀ ops) a b, ⟨hcan.1, hcan.2.1, hca, hcb⟩, by simp [CST.flatten, hcan.2.2, hf, hfa, hfb]⟩
theorem gargs_canon {regs : Regs} (tb : TableOK regs) : ∀ {ts : List Tok} {es : List AST}, GArgs regs ts es →
    ∃ xs, CanonList regs xs ∧ xs ≠ .nil ∧ xs.flatten = ts
  | _, _, .one h => by
    obtain ⟨c, hc, hf⟩ := gexpr_canon tb h
    exact ⟨.cons c .nil, ⟨hc, trivial⟩, (by intro e; cases e), by simp [CList.flatten, hf]⟩
  | _, _, .cons h hr => by
    obtain ⟨c, hc, hf⟩ := gexpr_canon tb h
    obtain ⟨xs, hxs, hne, hfx⟩ := gargs_canon tb hr
    refine ⟨.cons c xs, ⟨hc, hxs⟩, (by intro e; cases e), ?_⟩
    cases xs with
    | nil => exact absurd rfl hne
    | cons c2 r2 => simp only [CList.flatten, hf, ← hfx]
theorem gitems_canon {regs : Regs} (tb : TableOK regs) : ∀ {ts : List Tok} {es : List AST}, GItems regs ts es →
    ∃ xs tr, CanonList regs xs ∧ (tr = true → xs ≠ .nil) ∧ xs.flatten ++ trailToks tr = ts
  | _, _, .nil => ⟨.nil, false, trivial, fun e => (by cases e), rfl⟩
  | _, _, .one h => by
    obtain ⟨c, hc, hf⟩ := gexpr_canon tb h
    exact ⟨.cons c .nil, false, ⟨hc, trivial⟩, fun e => (by cases e), by simp [CList.flatten, trailToks, hf]⟩
  | _, _, .cons h hr => by
    obtain ⟨c, hc, hf⟩ := gexpr_canon tb h
    obtain ⟨xs, tr, hxs, htr, hfx⟩ := gitems_canon tb hr
    cases xs with
    | nil =>
      have : tr = false := by cases tr with | false => rfl | true => exact absurd rfl (htr rfl)
      subst this
      refine ⟨.cons c .nil, true, ⟨hc, trivial⟩, fun _ => (by intro e; cases e), ?_⟩
      simp only [CList.flatten, trailToks, List.append_nil] at hfx ⊢
      simp [hf, ← hfx]
    | cons c2 r2 =>
      refine ⟨.cons c (.cons c2 r2), tr, ⟨hc, hxs⟩, fun _ => (by intro e; cases e), ?_⟩
      simp only [CList.flatten, hf, ← hfx, List.append_assoc, List.cons_append]
theorem gentries_canon {regs : Regs} (tb : TableOK regs) : ∀ {ts : List Tok} {es : List (AST × AST)}, GEntries regs ts es →
    ∃ xs tr, CanonMap regs xs ∧ (tr = true → xs ≠ .nil) ∧ xs.flatten ++ trailToks tr = ts
  | _, _, .nil => ⟨.nil, false, trivial, fun e => (by cases e), rfl⟩
  | _, _, .one hk hv => by
    obtain ⟨k, hck, hfk⟩ := gexpr_canon tb hk
    obtain ⟨v, hcv, hfv⟩ := gexpr_canon tb hv
    exact ⟨.cons k v .nil, false, ⟨hck, hcv, trivial⟩, fun e => (by cases e), by simp [CMap.flatten, trailToks, hfk, hfv]⟩
  | _, _, .cons hk hv hr => by
    obtain ⟨k, hck, hfk⟩ := gexpr_canon tb hk
    obtain ⟨v, hcv, hfv⟩ := gexpr_canon tb hv
    obtain ⟨xs, tr, hxs, htr, hfx⟩ := gentries_canon tb hr
    cases xs with
    | nil =>
      have : tr = false := by cases tr with | false => rfl | true => exact absurd rfl (htr rfl)
      subst this
      refine ⟨.cons k v .nil, true, ⟨hck, hcv, trivial⟩, fun _ => (by intro e; cases e), ?_⟩
      simp only [CMap.flatten, trailToks, List.append_nil] at hfx ⊢
      simp [hfk, hfv, ← hfx]
    | cons k2 v2 r2 =>
      refine ⟨.cons k v (.cons k2 v2 r2), tr, ⟨hck, hcv, hxs⟩, fun _ => (by intro e; cases e), ?_⟩
      simp only [CMap.flatten, hfk, hfv, ← hfx, List.append_assoc, List.cons_append]
end

/-- **Every sentence has a canonical reading.** -/
theorem sentence_has_canonical_form (regs : Regs) (tb : TableOK regs) {ts : List Tok} {e : AST} (h : GExpr regs ts e) :
    ∃ c, Canon regs c ∧ c.flatten = ts := gexpr_canon tb h

/-- **… and it is the only thing the parser can return**: whenever the tokens of a canonical
expression are accepted, at whatever nesting limit, the result is the tree it denotes. -/
theorem accepted_reading (regs : Regs) (tb : TableOK regs) (lim : Nat) (c : CST) (hc : Canon regs c) (a : AST)
    (h : parseTokens regs lim c.flatten = .ok a) : a = c.strip := by
  have hle : lim ≤ max lim (max (c.nest + 1) c.strip.height) := Nat.le_max_left _ _
  have h1 := parseTokens_lim_mono regs hle c.flatten a h
  have hf : Fits (max lim (max (c.nest + 1) c.strip.height)) c := ⟨by omega, by omega⟩
  rw [groups_as_written regs tb _ c hc hf] at h1
  injection h1 with h1
  exact h1.symm

/-- Every accepted sentence: the parser's result is the tree of *the* canonical reading of the
tokens — "exactly as the table dictates" for everything the parser accepts, not only for inputs
somebody wrote canonically. -/
theorem accepted_sentence_reading (regs : Regs) (tb : TableOK regs) (lim : Nat) {ts : List Tok} {e : AST} (hg : GExpr regs ts e)
    (a : AST) (h : parseTokens regs lim ts = .ok a) : ∃ c, Canon regs c ∧ c.flatten = ts ∧ a = c.strip := by
  obtain ⟨c, hc, hf⟩ := sentence_has_canonical_form regs tb hg
  exact ⟨c, hc, hf, accepted_reading regs tb lim c hc a (by rw [hf]; exact h)⟩

/-- the same with the optional `;` after the expression -/
theorem groups_as_written_semi (regs : Regs) (tb : TableOK regs) (lim : Nat) (c : CST) (hc : Canon regs c) (hf : Fits lim c) :
    parseTokens regs lim (c.flatten ++ [.semi]) = .ok c.strip := by
  obtain ⟨hn, hh⟩ := hf
  have hl : 1 ≤ lim := by omega
  have m := main tb lim c 1 hc (by omega) hh
  have hp := top_of_M (d := 0) tb hc (by omega) m [Tok.semi] (follow_semi regs [])
  obtain ⟨t, ts, hfl, _⟩ := flatten_start c
  have hfuel := PExpr.at_fuel hl tb.pos hp (4 * (c.flatten ++ [Tok.semi]).length + 7) (Nat.le_refl _)
  unfold parseTokens parseFuel
  rw [hfl] at hfuel ⊢
  simp only [List.cons_append] at hfuel ⊢
  simp only [parseStmts, hfuel, Res.bind_ok]

/-- **Everything the parser accepts as one expression** (not a statement chain): the tokens are
those of a canonical expression, optionally followed by `;`, and the result is the tree it denotes. -/
theorem accepted_expression_reading (regs : Regs) (tb : TableOK regs) (lim : Nat) (hl : 1 ≤ lim) (toks : List Tok) (a : AST)
    (h : parseTokens regs lim toks = .ok a) (hns : ∀ es, a ≠ .stmt es) :
    ∃ c, Canon regs c ∧ (toks = c.flatten ∨ toks = c.flatten ++ [.semi]) ∧ a = c.strip := by
  obtain ⟨es, hg, rfl⟩ := EE.Props.C05.parse_sound regs tb.pos lim hl toks a h
  match es, hg with
  | [], _ => exact absurd rfl (hns [])
  | _ :: _ :: _, _ => exact absurd rfl (hns _)
  | [e], .stmt (ts := ts) he hr =>
    cases hr
    obtain ⟨c, hc, hf⟩ := sentence_has_canonical_form regs tb he
    refine ⟨c, hc, Or.inl (by simp [hf]), ?_⟩
    exact accepted_reading regs tb lim c hc _ (by rw [hf]; simpa using h)
  | [e], .stmtSemi (ts := ts) he hr =>
    cases hr
    obtain ⟨c, hc, hf⟩ := sentence_has_canonical_form regs tb he
    refine ⟨c, hc, Or.inr (by simp [hf]), ?_⟩
    -- a larger limit makes the canonical expression fit; the result cannot change
    have hle : lim ≤ max lim (max (c.nest + 1) c.strip.height) := Nat.le_max_left _ _
    have h1 := parseTokens_lim_mono regs hle _ _ h
    have hfit : Fits (max lim (max (c.nest + 1) c.strip.height)) c := ⟨by omega, by omega⟩
    rw [← hf, groups_as_written_semi regs tb _ c hc hfit] at h1
    injection h1 with h1
    exact h1.symm

end EE.Props.C02
