import EE.Lemmas.ParserSound
import EE.Props.C10
import EE.Props.C09
import EE.Model.Program
/-! # C05 — malformed input is rejected, never silently repaired

The specification is the grammar `EE.Spec.GProg` (file EE/Spec/Grammar.lean; read it first — it
is the documented grammar, with exactly the leniency the property allows). **Soundness**: whatever
the parser accepts is a sentence of that grammar, with *every token* of the input placed in the
tree in its own role: the token list is literally the concatenation the grammar prescribes
(no token treated as another, none dropped), closers match their openers, separators are the
separators, operators in prefix position are registered prefix operators, and so on — all of this
is what "`GProg regs toks es`" says. -/
namespace EE.Props.C05
open EE EE.Spec

/-- **Parser soundness**, for every registry with positive infix precedences, every limit ≥ 1
and every token list. -/
theorem parse_sound (regs : Regs) (hp : RegsPos regs) (lim : Nat) (hl : 1 ≤ lim) (toks : List Tok) (a : AST)
    (h : parseTokens regs lim toks = .ok a) : ∃ es, GProg regs toks es ∧ a = programTree es := by
  unfold parseTokens at h
  obtain ⟨⟨xs, hx⟩, hstm, h2⟩ := Res.bind_eq_ok h
  try dsimp only at h2
  obtain ⟨hg, _, _⟩ := parseStmts_sound regs lim hl hp _ toks xs hx hstm
  refine ⟨xs, hg, ?_⟩
  cases xs with
  | nil =>
    simp only at h2
    obtain ⟨_, _, h3⟩ := Res.bind_eq_ok h2
    cases h3; rfl
  | cons a rest =>
    cases rest with
    | nil => simp only at h2; cases h2; rfl
    | cons b rest' =>
      simp only at h2
      obtain ⟨_, _, h3⟩ := Res.bind_eq_ok h2
      cases h3; rfl

/-- The built-in registry has positive precedences (regenerated table). -/
theorem builtin_pos : RegsPos Regs.builtin := by
  intro n c h
  have hm : (n, c) ∈ Regs.builtin.inf := by
    have : ∀ (l : List (Name × InfixCfg)), alookup n l = some c → (n, c) ∈ l := by
      intro l
      induction l with
      | nil => intro h; simp at h
      | cons x xs ih =>
        obtain ⟨k, v⟩ := x
        intro h
        rw [alookup_cons] at h
        by_cases e : k = n
        · simp only [e, if_true, Option.some.injEq] at h; subst h; subst e; simp
        · simp only [e, if_false] at h; simp [ih h]
    exact this _ h
  have hall : ∀ e ∈ Regs.builtin.inf, 1 ≤ e.2.prec := by decide
  exact hall _ hm

/-- **End to end**: if `parse_expression` accepts a string, the string tokenizes (tokens tile it,
C10) and its token sequence is a sentence whose tree is the result. -/
theorem accepted_is_sentence (regs : Regs) (hp : RegsPos regs) (s : Text) (a : AST) (h : parseProgram regs s = .ok a) :
    ∃ sts es, tokenize regs s = .ok sts ∧ EE.Props.C10.Tiling 0 s sts ∧
      GProg regs (sts.map (·.tok)) es ∧ a = programTree es := by
  unfold parseProgram at h
  obtain ⟨sts, htok, h2⟩ := Res.bind_eq_ok h
  obtain ⟨es, hg, he⟩ := parse_sound regs hp maxDepth (by decide) _ a h2
  exact ⟨sts, es, htok, EE.Props.C10.tiling regs s sts htok, hg, he⟩

/-- Lexical rejections: an unterminated string and a malformed number are errors of the tokenizer
(`lexString` fails without a closing quote; a number token exists only if `Decimal::from_str`
accepts the whole digit run, and it accepts only `digit+ ('.' digit*)?` — EE.Props.C09.invalid_rejected). -/
theorem unterminated_string_rejected (q : Char) (cs : Text) (start : Nat) (h : scanString q cs = none) :
    lexString q cs start = .err .unterminatedString := by
  simp [lexString, h]

theorem malformed_number_rejected (c : Char) (cs : Text) (start : Nat) (t : SpTok) (rest : Text)
    (h : lexNumber c cs start = .ok (t, rest)) :
    ∃ d, t.tok = .num d ∧ Dec.ofText (c :: (scanNumber c cs).1) = .ok d := by
  unfold lexNumber at h
  split at h <;> try (cases h; done)
  rename_i d hd
  cases h
  exact ⟨d, rfl, hd⟩

/-! The concrete malformed inputs the property cites (`[1)2]`, `{1,2}`, `f(1]2)`, `true ? 1 , 2`,
`* 3`, `a : b`, `1;;2`, `f(1,)`, `'abc`, `1.2.3`, `(1`, …) are run through the model's compiled
definitions and the real crate by the check's "malformed corpus" stream (kernel evaluation of the
parser on concrete inputs is impractically slow: the functions are structurally recursive on a
fuel argument through a large mutual block). -/

end EE.Props.C05
