import EE.Model.Program
namespace EE.Props.C05
theorem placeholder : True := trivial
end EE.Props.C05
