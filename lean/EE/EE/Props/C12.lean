import EE.Props.C02
import EE.Model.Render
import EE.Props.C05
/-! # C12 — `expr()` output re-parses to the same tree

`expr()` decides, node by node, which operands to parenthesise (`needParen*` in `Model/Render`,
transcribed from parser.rs). `exprCst` is the same decision written as a `CST` — the expression
`expr()` writes, before it is turned into characters — and `expr_text` shows the model's text
rendering *is* that expression printed with `expr()`'s spacing. The theorems:

* `expr_cst_canonical` — what `expr()` writes is canonical for the operator table: it puts
  parentheses exactly where the table needs them (and some harmless extra ones);
* `expr_reparses` — hence, by C02, parsing the tokens of `expr()`'s output returns the tree that was
  rendered, for **every** tree the parser can produce (`Producible`, shown of every parser result
  in `parse_producible`), every operator table satisfying `TableOK`;
* `expr_idempotent` — rendering the re-parsed tree gives the same text.

Not proved here (checked by the correspondence runs on every generated tree): that the *characters*
of `cstText c` tokenize back to `c.flatten` (numbers print and re-read exactly, names and
operators are separated by the blanks `expr()` inserts). -/
namespace EE.Props.C12
open EE EE.Spec EE.Spec.CST EE.Props.C02

def pwrap (b : Bool) (c : CST) : CST := if b then .paren c else c

mutual
/-- the expression `expr()` writes for a tree -/
def exprCst (regs : Regs) : AST → CST
  | .lit (.num d) => .atom (.num d)
  | .lit (.bool b) => .atom (.bool b)
  | .lit (.str s) => .atom (.str s)
  | .ref n => .atom (.ref n)
  | .call n args => .call n (exprCstList regs args)
  | .unary op rhs => .unary op (pwrap (needParenUnary rhs) (exprCst regs rhs))
  | .binary op l r => .bin false op (pwrap (needParenLeft regs op l) (exprCst regs l)) (pwrap (needParenRight regs op r) (exprCst regs r))
  | .postfix l op => .postfix (pwrap (needParenPostfix l) (exprCst regs l)) op
  | .ternary c a b => .tern (pwrap (isTernary c) (exprCst regs c)) (exprCst regs a) (exprCst regs b)
  | .list xs => .list (exprCstList regs xs) false
  | .map kvs => .map (exprCstMap regs kvs) false
  | .stmt _ => .atom (.ref [])
  | .none => .atom (.ref [])
def exprCstList (regs : Regs) : List AST → CList
  | [] => .nil
  | a :: as => .cons (exprCst regs a) (exprCstList regs as)
def exprCstMap (regs : Regs) : List (AST × AST) → CMap
  | [] => .nil
  | (k, v) :: r => .cons (exprCst regs k) (exprCst regs v) (exprCstMap regs r)
end

mutual
/-- trees the parser can produce for an expression: every operator in its registered role, no
statement chain or placeholder inside -/
def Producible (regs : Regs) : AST → Prop
  | .lit _ => True
  | .ref _ => True
  | .call _ args => ProducibleList regs args
  | .unary op rhs => regs.isPrefix op = true ∧ Producible regs rhs
  | .binary op l r => regs.isInfix op = true ∧ Producible regs l ∧ Producible regs r
  | .postfix l op => regs.isPostfix op = true ∧ Producible regs l
  | .ternary c a b => Producible regs c ∧ Producible regs a ∧ Producible regs b
  | .list xs => ProducibleList regs xs
  | .map kvs => ProducibleMap regs kvs
  | .stmt _ => False
  | .none => False
def ProducibleList (regs : Regs) : List AST → Prop
  | [] => True
  | a :: as => Producible regs a ∧ ProducibleList regs as
def ProducibleMap (regs : Regs) : List (AST × AST) → Prop
  | [] => True
  | (k, v) :: r => Producible regs k ∧ Producible regs v ∧ ProducibleMap regs r
end

theorem strip_pwrap (b : Bool) (c : CST) : (pwrap b c).strip = c.strip := by
  cases b <;> simp [pwrap, CST.strip]

mutual
theorem strip_exprCst (regs : Regs) : ∀ t : AST, Producible regs t → (exprCst regs t).strip = t
  | .lit (.num d), _ => rfl
  | .lit (.bool b), _ => rfl
  | .lit (.str s), _ => rfl
  | .ref n, _ => rfl
  | .call n args, h => by simp only [exprCst, CST.strip, strip_exprCstList regs args h]
  | .unary op rhs, h => by simp only [exprCst, CST.strip, strip_pwrap, strip_exprCst regs rhs h.2]
  | .binary op l r, h => by simp only [exprCst, CST.strip, strip_pwrap, strip_exprCst regs l h.2.1, strip_exprCst regs r h.2.2, wrapNot]; rfl
  | .postfix l op, h => by simp only [exprCst, CST.strip, strip_pwrap, strip_exprCst regs l h.2]
  | .ternary c a b, h => by
    simp only [exprCst, CST.strip, strip_pwrap, strip_exprCst regs c h.1, strip_exprCst regs a h.2.1, strip_exprCst regs b h.2.2]
  | .list xs, h => by simp only [exprCst, CST.strip, strip_exprCstList regs xs h]
  | .map kvs, h => by simp only [exprCst, CST.strip, strip_exprCstMap regs kvs h]
  | .stmt _, h => h.elim
  | .none, h => h.elim
theorem strip_exprCstList (regs : Regs) : ∀ ts : List AST, ProducibleList regs ts → (exprCstList regs ts).strip = ts
  | [], _ => rfl
  | a :: as, h => by simp only [exprCstList, CList.strip, strip_exprCst regs a h.1, strip_exprCstList regs as h.2]
theorem strip_exprCstMap (regs : Regs) : ∀ ts : List (AST × AST), ProducibleMap regs ts → (exprCstMap regs ts).strip = ts
  | [], _ => rfl
  | (k, v) :: r, h => by
    simp only [exprCstMap, CMap.strip, strip_exprCst regs k h.1, strip_exprCst regs v h.2.1, strip_exprCstMap regs r h.2.2]
end

/-- the shape of what `exprCst` returns, by the shape of the tree -/
theorem exprCst_shape (regs : Regs) (t : AST) (h : Producible regs t) :
    ((exprCst regs t).isTern = isTernary t) ∧ ((exprCst regs t).root? = match t with | .binary op _ _ => some op | _ => none) := by
  cases t with
  | lit l => cases l <;> exact ⟨rfl, rfl⟩
  | stmt _ => exact h.elim
  | none => exact h.elim
  | _ => exact ⟨rfl, rfl⟩

theorem canon_pwrap {regs : Regs} {b : Bool} {c : CST} (h : Canon regs c) : Canon regs (pwrap b c) := by
  cases b <;> simpa [pwrap, Canon] using h

mutual
/-- **`expr()` writes canonically.** -/
theorem expr_cst_canonical (regs : Regs) (tb : TableOK regs) : ∀ t : AST, Producible regs t → Canon regs (exprCst regs t)
  | .lit (.num d), _ => trivial
  | .lit (.bool b), _ => trivial
  | .lit (.str s), _ => trivial
  | .ref n, _ => trivial
  | .call n args, h => by simp only [exprCst, Canon]; exact expr_cst_canonicalList regs tb args h
  | .list xs, h => by simp only [exprCst, Canon]; exact ⟨expr_cst_canonicalList regs tb xs h, fun e => by cases e⟩
  | .map kvs, h => by simp only [exprCst, Canon]; exact ⟨expr_cst_canonicalMap regs tb kvs h, fun e => by cases e⟩
  | .stmt _, h => h.elim
  | .none, h => h.elim
  | .unary op rhs, h => by
    simp only [exprCst, Canon]
    refine ⟨h.1, ?_, canon_pwrap (expr_cst_canonical regs tb rhs h.2)⟩
    have hp := h.2
    cases rhs with
    | lit l => cases l <;> rfl
    | stmt _ => exact hp.elim
    | none => exact hp.elim
    | _ => rfl
  | .postfix l op, h => by
    simp only [exprCst, Canon]
    refine ⟨h.1, ?_, canon_pwrap (expr_cst_canonical regs tb l h.2)⟩
    have hp := h.2
    cases l with
    | lit l => cases l <;> rfl
    | stmt _ => exact hp.elim
    | none => exact hp.elim
    | _ => rfl
  | .ternary c a b, h => by
    simp only [exprCst, Canon]
    refine ⟨canon_pwrap (expr_cst_canonical regs tb c h.1), ?_, expr_cst_canonical regs tb a h.2.1, expr_cst_canonical regs tb b h.2.2⟩
    cases hc : isTernary c with
    | true => rfl
    | false => simp only [pwrap, Bool.false_eq_true, if_false]; rw [(exprCst_shape regs c h.1).1, hc]
  | .binary op l r, h => by
    obtain ⟨hinf, hl, hr⟩ := h
    simp only [exprCst, Canon]
    have bo := bp_facts tb hinf
    have so := bp_snd hinf
    refine ⟨hinf, canon_pwrap (expr_cst_canonical regs tb l hl), canon_pwrap (expr_cst_canonical regs tb r hr), ?_, ?_, ?_, ?_⟩
    · -- left operand is not an unparenthesised conditional
      cases hn : needParenLeft regs op l with
      | true => rfl
      | false =>
        simp only [pwrap, Bool.false_eq_true, if_false]; rw [(exprCst_shape regs l hl).1]
        cases l <;> first | rfl | (simp [needParenLeft, astBp, isTernary] at hn)
    · cases hn : needParenRight regs op r with
      | true => rfl
      | false =>
        simp only [pwrap, Bool.false_eq_true, if_false]; rw [(exprCst_shape regs r hr).1]
        cases r <;> first | rfl | (simp [needParenRight, astBp, isTernary] at hn)
    · -- an unparenthesised infix left operand binds at least as tight (on its right side)
      intro o' ho'
      cases hn : needParenLeft regs op l with
      | true => simp [pwrap, hn, root?] at ho'
      | false =>
        simp only [pwrap, hn, Bool.false_eq_true, if_false] at ho'
        rw [(exprCst_shape regs l hl).2] at ho'
        cases l with
        | binary o2 l2 r2 =>
          simp only [Option.some.injEq] at ho'; subst ho'
          have hinf2 : regs.isInfix o2 = true := hl.1
          have b2 := bp_facts tb hinf2
          have s2 := bp_snd hinf2
          simp only [needParenLeft, astBp, decide_eq_false_iff_not] at hn
          unfold okLeft
          rcases Int.lt_trichotomy (Regs.prec regs op) (Regs.prec regs o2) with hlt | heq | hgt
          · exact Or.inl hlt
          · refine Or.inr ⟨heq.symm, ?_⟩
            cases hr2 : Regs.isRight regs o2 with
            | false => rw [tb.assoc op o2 hinf hinf2 heq]; exact hr2
            | true => rw [hr2] at s2; simp only [if_true] at s2; omega
          · cases hr2 : Regs.isRight regs o2 <;> rw [hr2] at s2 <;> simp only [if_true, Bool.false_eq_true, if_false] at s2 <;> omega
        | _ => simp at ho'
    · intro o' ho'
      cases hn : needParenRight regs op r with
      | true => simp [pwrap, hn, root?] at ho'
      | false =>
        simp only [pwrap, hn, Bool.false_eq_true, if_false] at ho'
        rw [(exprCst_shape regs r hr).2] at ho'
        cases r with
        | binary o2 l2 r2 =>
          simp only [Option.some.injEq] at ho'; subst ho'
          have hinf2 : regs.isInfix o2 = true := hr.1
          have b2 := bp_facts tb hinf2
          simp only [needParenRight, astBp, decide_eq_false_iff_not] at hn
          unfold okRight
          rcases Int.lt_trichotomy (Regs.prec regs op) (Regs.prec regs o2) with hlt | heq | hgt
          · exact Or.inl hlt
          · refine Or.inr ⟨heq.symm, ?_⟩
            cases hr1 : Regs.isRight regs op with
            | true => rfl
            | false => rw [hr1] at so; simp only [Bool.false_eq_true, if_false] at so; omega
          · cases hr1 : Regs.isRight regs op <;> rw [hr1] at so <;> simp only [if_true, Bool.false_eq_true, if_false] at so <;> omega
        | _ => simp at ho'
theorem expr_cst_canonicalList (regs : Regs) (tb : TableOK regs) : ∀ ts : List AST, ProducibleList regs ts → CanonList regs (exprCstList regs ts)
  | [], _ => trivial
  | a :: as, h => ⟨expr_cst_canonical regs tb a h.1, expr_cst_canonicalList regs tb as h.2⟩
theorem expr_cst_canonicalMap (regs : Regs) (tb : TableOK regs) : ∀ ts : List (AST × AST), ProducibleMap regs ts → CanonMap regs (exprCstMap regs ts)
  | [], _ => trivial
  | (k, v) :: r, h => ⟨expr_cst_canonical regs tb k h.1, expr_cst_canonical regs tb v h.2.1, expr_cst_canonicalMap regs tb r h.2.2⟩
end

/-- **`expr()` output re-parses to the same tree** (token level): for every producible tree, within
the nesting limit. -/
theorem expr_reparses (regs : Regs) (tb : TableOK regs) (lim : Nat) (t : AST) (hp : Producible regs t) (hf : Fits lim (exprCst regs t)) :
    parseTokens regs lim (exprCst regs t).flatten = .ok t := by
  rw [groups_as_written regs tb lim _ (expr_cst_canonical regs tb t hp) hf, strip_exprCst regs t hp]

/-- **Rendering is idempotent**: the re-parsed tree renders to the same expression. -/
theorem expr_idempotent (regs : Regs) (tb : TableOK regs) (lim : Nat) (t t' : AST) (hp : Producible regs t) (hf : Fits lim (exprCst regs t))
    (h : parseTokens regs lim (exprCst regs t).flatten = .ok t') : exprCst regs t' = exprCst regs t ∧ expr regs t' = expr regs t := by
  rw [expr_reparses regs tb lim t hp hf] at h
  injection h with h
  subst h
  exact ⟨rfl, rfl⟩


/-! ## the text `expr()` returns is that expression, printed -/

mutual
/-- `expr()`'s spacing: a blank around infix operators, after a prefix and before a postfix operator,
around `?` and `:`; none around brackets, commas and the `:` of a map entry. -/
def cstText : CST → Text
  | .atom (.num d) => d.toText
  | .atom (.bool b) => litText (.bool b)
  | .atom (.str s) => litText (.str s)
  | .atom (.ref n) => n
  | .paren c => paren (cstText c)
  | .unary o c => o ++ (' ' :: cstText c)
  | .postfix c o => cstText c ++ (' ' :: o)
  | .call n args => n ++ ('(' :: (joinWith [','] (cstTextList args) ++ [')']))
  | .list xs tr => '[' :: (joinWith [','] (cstTextList xs) ++ ((if tr then [','] else []) ++ [']']))
  | .map kvs tr => '{' :: (joinWith [','] (cstTextMap kvs) ++ ((if tr then [','] else []) ++ ['}']))
  | .bin nt o l r => cstText l ++ (' ' :: ((if nt then ['n', 'o', 't', ' '] else []) ++ (o ++ (' ' :: cstText r))))
  | .tern c a b => cstText c ++ ([' ', '?', ' '] ++ (cstText a ++ ([' ', ':', ' '] ++ cstText b)))
def cstTextList : CList → List Text
  | .nil => []
  | .cons c r => cstText c :: cstTextList r
def cstTextMap : CMap → List Text
  | .nil => []
  | .cons k v r => (cstText k ++ (':' :: cstText v)) :: cstTextMap r
end

theorem cstText_pwrap (b : Bool) (c : CST) : cstText (pwrap b c) = wrapIf b (cstText c) := by
  cases b <;> simp [pwrap, wrapIf, cstText]

mutual
/-- The model of `expr()` (a transcription of parser.rs, tied to it by the correspondence runs)
returns exactly `exprCst` printed. -/
theorem expr_text (regs : Regs) : ∀ t : AST, Producible regs t → expr regs t = cstText (exprCst regs t)
  | .lit (.num d), _ => by simp [expr, exprCst, cstText, litText]
  | .lit (.bool b), _ => by simp [expr, exprCst, cstText]
  | .lit (.str s), _ => by simp [expr, exprCst, cstText]
  | .ref n, _ => by simp [expr, exprCst, cstText]
  | .call n args, h => by simp only [expr, exprCst, cstText, expr_textList regs args h]
  | .list xs, h => by simp only [expr, exprCst, cstText, expr_textList regs xs h]; simp
  | .map kvs, h => by simp only [expr, exprCst, cstText, expr_textMap regs kvs h]; simp
  | .unary op rhs, h => by simp only [expr, exprCst, cstText, cstText_pwrap, expr_text regs rhs h.2]
  | .postfix l op, h => by simp only [expr, exprCst, cstText, cstText_pwrap, expr_text regs l h.2]
  | .binary op l r, h => by
    simp only [expr, exprCst, cstText, cstText_pwrap, expr_text regs l h.2.1, expr_text regs r h.2.2]
    simp
  | .ternary c a b, h => by
    simp only [expr, exprCst, cstText, cstText_pwrap, expr_text regs c h.1, expr_text regs a h.2.1, expr_text regs b h.2.2]
  | .stmt _, h => h.elim
  | .none, h => h.elim
theorem expr_textList (regs : Regs) : ∀ ts : List AST, ProducibleList regs ts → exprList regs ts = cstTextList (exprCstList regs ts)
  | [], _ => rfl
  | a :: as, h => by simp only [exprList, exprCstList, cstTextList, expr_text regs a h.1, expr_textList regs as h.2]
theorem expr_textMap (regs : Regs) : ∀ ts : List (AST × AST), ProducibleMap regs ts → exprMap regs ts = cstTextMap (exprCstMap regs ts)
  | [], _ => rfl
  | (k, v) :: r, h => by
    simp only [exprMap, exprCstMap, cstTextMap, expr_text regs k h.1, expr_text regs v h.2.1, expr_textMap regs r h.2.2]
end

/-! ## every tree the parser returns is producible -/

mutual
theorem gtok_prod {regs : Regs} (hnot : regs.isPrefix notName = true) : ∀ {ts : List Tok} {e : AST}, GTok regs ts e → Producible regs e
  | _, _, .num _ => trivial
  | _, _, .bool _ => trivial
  | _, _, .str _ => trivial
  | _, _, .ref _ => trivial
  | _, _, .call0 _ => trivial
  | _, _, .call h => gargs_prod hnot h
  | _, _, .unary hp h => ⟨hp, gprim_prod hnot h⟩
  | _, _, .paren h => gexpr_prod hnot h
  | _, _, .list h => gitems_prod hnot h
  | _, _, .map h => gentries_prod hnot h
theorem gprim_prod {regs : Regs} (hnot : regs.isPrefix notName = true) : ∀ {ts : List Tok} {e : AST}, GPrim regs ts e → Producible regs e
  | _, _, .tok h => gtok_prod hnot h
  | _, _, .postfix h hp => ⟨hp, gprim_prod hnot h⟩
theorem gbin_prod {regs : Regs} (hnot : regs.isPrefix notName = true) : ∀ {ts : List Tok} {e : AST}, GBin regs ts e → Producible regs e
  | _, _, .prim h => gprim_prod hnot h
  | _, _, .bin hl ho hr => ⟨ho, gbin_prod hnot hl, gbin_prod hnot hr⟩
  | _, _, .notBin hl ho hr => ⟨hnot, ho, gbin_prod hnot hl, gbin_prod hnot hr⟩
theorem gexpr_prod {regs : Regs} (hnot : regs.isPrefix notName = true) : ∀ {ts : List Tok} {e : AST}, GExpr regs ts e → Producible regs e
  | _, _, .bin h => gbin_prod hnot h
  | _, _, .tern hc ha hb => ⟨gbin_prod hnot hc, gexpr_prod hnot ha, gexpr_prod hnot hb⟩
theorem gargs_prod {regs : Regs} (hnot : regs.isPrefix notName = true) : ∀ {ts : List Tok} {es : List AST}, GArgs regs ts es → ProducibleList regs es
  | _, _, .one h => ⟨gexpr_prod hnot h, trivial⟩
  | _, _, .cons h hr => ⟨gexpr_prod hnot h, gargs_prod hnot hr⟩
theorem gitems_prod {regs : Regs} (hnot : regs.isPrefix notName = true) : ∀ {ts : List Tok} {es : List AST}, GItems regs ts es → ProducibleList regs es
  | _, _, .nil => trivial
  | _, _, .one h => ⟨gexpr_prod hnot h, trivial⟩
  | _, _, .cons h hr => ⟨gexpr_prod hnot h, gitems_prod hnot hr⟩
theorem gentries_prod {regs : Regs} (hnot : regs.isPrefix notName = true) : ∀ {ts : List Tok} {es : List (AST × AST)}, GEntries regs ts es → ProducibleMap regs es
  | _, _, .nil => trivial
  | _, _, .one hk hv => ⟨gexpr_prod hnot hk, gexpr_prod hnot hv, trivial⟩
  | _, _, .cons hk hv hr => ⟨gexpr_prod hnot hk, gexpr_prod hnot hv, gentries_prod hnot hr⟩
end

theorem gprog_prod {regs : Regs} (hnot : regs.isPrefix notName = true) : ∀ {ts : List Tok} {es : List AST}, GProg regs ts es → ProducibleList regs es
  | _, _, .nil => trivial
  | _, _, .stmt h hr => ⟨gexpr_prod hnot h, gprog_prod hnot hr⟩
  | _, _, .stmtSemi h hr => ⟨gexpr_prod hnot h, gprog_prod hnot hr⟩

/-- **Every tree `parse_expression` returns** is a producible expression, or the chain of the
producible statements of a program. -/
theorem parse_producible (regs : Regs) (hp : RegsPos regs) (hnot : regs.isPrefix notName = true) (lim : Nat) (hl : 1 ≤ lim)
    (toks : List Tok) (a : AST) (h : parseTokens regs lim toks = .ok a) :
    Producible regs a ∨ ∃ es, a = .stmt es ∧ ProducibleList regs es := by
  obtain ⟨es, hg, rfl⟩ := EE.Props.C05.parse_sound regs hp lim hl toks a h
  have := gprog_prod hnot hg
  match es, this with
  | [], _ => exact Or.inr ⟨[], rfl, trivial⟩
  | [e], h1 => exact Or.inl h1.1
  | e :: e2 :: r, h1 => exact Or.inr ⟨_, rfl, h1⟩

/-- End to end for one-expression programs: whatever the parser returned re-parses, from the tokens
`expr()` writes, to itself. -/
theorem parsed_expr_reparses (regs : Regs) (tb : TableOK regs) (hnot : regs.isPrefix notName = true) (lim : Nat) (hl : 1 ≤ lim)
    (toks : List Tok) (t : AST) (h : parseTokens regs lim toks = .ok t) (hns : ∀ es, t ≠ .stmt es) (hf : Fits lim (exprCst regs t)) :
    parseTokens regs lim (exprCst regs t).flatten = .ok t := by
  rcases parse_producible regs tb.pos hnot lim hl toks t h with hp | ⟨es, he, _⟩
  · exact expr_reparses regs tb lim t hp hf
  · exact absurd he (hns es)

/-- Statement chains: `expr()` joins the statements with `;`; each is written canonically, so the
program re-parses to the same chain. -/
theorem stmt_chain_reparses (regs : Regs) (tb : TableOK regs) (lim : Nat) (hl : 1 ≤ lim) (es : List AST) (hp : ProducibleList regs es)
    (hf : ∀ e ∈ es, Fits lim (exprCst regs e)) (hh : AST.heightList es + 1 ≤ lim) :
    parseTokens regs lim (flattenProg (es.map (exprCst regs))) = .ok (programTree es) := by
  have hall : ∀ (l : List AST), ProducibleList regs l → (∀ e ∈ l, Fits lim (exprCst regs e)) →
      (∀ c ∈ l.map (exprCst regs), Canon regs c ∧ Fits lim c) ∧ (l.map (exprCst regs)).map CST.strip = l := by
    intro l
    induction l with
    | nil => intro _ _; exact ⟨(by intro c hc; cases hc), rfl⟩
    | cons e r ih =>
      intro hp hf
      obtain ⟨h1, h2⟩ := ih hp.2 (fun x hx => hf x (by simp [hx]))
      refine ⟨?_, by simp only [List.map_cons, strip_exprCst regs e hp.1, h2]⟩
      intro c hc
      simp only [List.map_cons, List.mem_cons] at hc
      rcases hc with rfl | hc
      · exact ⟨expr_cst_canonical regs tb e hp.1, hf e (by simp)⟩
      · exact h1 c hc
  obtain ⟨h1, h2⟩ := hall es hp hf
  have := program_as_written regs tb lim hl (es.map (exprCst regs)) h1 (by rw [h2]; exact hh)
  rw [h2] at this
  exact this

end EE.Props.C12
