import EE.Model.Program
namespace EE.Props.C12
theorem placeholder : True := trivial
end EE.Props.C12
