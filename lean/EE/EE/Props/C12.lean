import EE.Props.C02
import EE.Model.Render
import EE.Props.C05
import EE.Props.C11
import EE.Lemmas.Relex
/-! # C12 — `expr()` output re-parses to the same tree

`expr()` decides, node by node, which operands to parenthesise (`needParen*` in `Model/Render`,
transcribed from parser.rs). `exprCst` is the same decision written as a `CST` — the expression
`expr()` writes, before it is turned into characters — and `expr_text` shows the model's text
rendering *is* that expression printed with `expr()`'s spacing. The theorems:

* `expr_cst_canonical` — what `expr()` writes is canonical for the operator table: it puts
  parentheses exactly where the table needs them (and some harmless extra ones);
* `expr_reparses` — hence, by C02, parsing the tokens of `expr()`'s output returns the tree that was
  rendered, for **every** tree the parser can produce (`Producible`, shown of every parser result
  in `parse_producible`), every operator table satisfying `TableOK`;
* `expr_idempotent` — rendering the re-parsed tree gives the same text.

Not proved here (checked by the correspondence runs on every generated tree): that the *characters*
of `cstText c` tokenize back to `c.flatten` (numbers print and re-read exactly, names and
operators are separated by the blanks `expr()` inserts). -/
namespace EE.Props.C12
open EE EE.Spec EE.Spec.CST EE.Props.C02

def pwrap (b : Bool) (c : CST) : CST := if b then .paren c else c

/-- `x OP y` ↦ `x not OP y` -/
def notFlip : CST → CST
  | .bin _ o l r => .bin true o l r
  | c => c

mutual
/-- the expression `expr()` writes for a tree -/
def exprCst (regs : Regs) : AST → CST
  | .lit (.num d) => .atom (.num d)
  | .lit (.bool b) => .atom (.bool b)
  | .lit (.str s) => .atom (.str s)
  | .ref n => .atom (.ref n)
  | .call n args => .call n (exprCstList regs args)
  | .unary op rhs =>
    if op = notName ∧ isBinary rhs then notFlip (exprCst regs rhs)
    else .unary op (pwrap (needParenUnary regs rhs) (exprCst regs rhs))
  | .binary op l r => .bin false op (pwrap (needParenLeft regs op l) (exprCst regs l)) (pwrap (needParenRight regs op r) (exprCst regs r))
  | .postfix l op => .postfix (pwrap (needParenPostfix l) (exprCst regs l)) op
  | .ternary c a b => .tern (pwrap (isTernary c) (exprCst regs c)) (exprCst regs a) (exprCst regs b)
  | .list xs => .list (exprCstList regs xs) false
  | .map kvs => .map (exprCstMap regs kvs) false
  | .stmt _ => .atom (.ref [])
  | .none => .atom (.ref [])
def exprCstList (regs : Regs) : List AST → CList
  | [] => .nil
  | a :: as => .cons (exprCst regs a) (exprCstList regs as)
def exprCstMap (regs : Regs) : List (AST × AST) → CMap
  | [] => .nil
  | (k, v) :: r => .cons (exprCst regs k) (exprCst regs v) (exprCstMap regs r)
end

mutual
/-- trees the parser can produce for an expression: every operator in its registered role, no
statement chain or placeholder inside -/
def Producible (regs : Regs) : AST → Prop
  | .lit _ => True
  | .ref _ => True
  | .call _ args => ProducibleList regs args
  | .unary op rhs => regs.isPrefix op = true ∧ Producible regs rhs
  | .binary op l r => regs.isInfix op = true ∧ Producible regs l ∧ Producible regs r
  | .postfix l op => regs.isPostfix op = true ∧ Producible regs l
  | .ternary c a b => Producible regs c ∧ Producible regs a ∧ Producible regs b
  | .list xs => ProducibleList regs xs
  | .map kvs => ProducibleMap regs kvs
  | .stmt _ => False
  | .none => False
def ProducibleList (regs : Regs) : List AST → Prop
  | [] => True
  | a :: as => Producible regs a ∧ ProducibleList regs as
def ProducibleMap (regs : Regs) : List (AST × AST) → Prop
  | [] => True
  | (k, v) :: r => Producible regs k ∧ Producible regs v ∧ ProducibleMap regs r
end

theorem strip_pwrap (b : Bool) (c : CST) : (pwrap b c).strip = c.strip := by
  cases b <;> simp [pwrap, CST.strip]

mutual
theorem strip_exprCst (regs : Regs) : ∀ t : AST, Producible regs t → (exprCst regs t).strip = t
  | .lit (.num d), _ => rfl
  | .lit (.bool b), _ => rfl
  | .lit (.str s), _ => rfl
  | .ref n, _ => rfl
  | .call n args, h => by simp only [exprCst, CST.strip, strip_exprCstList regs args h]
  | .unary op rhs, h => by
    have ih := strip_exprCst regs rhs h.2
    by_cases hnf : op = notName ∧ isBinary rhs = true
    · obtain ⟨rfl, hb⟩ := hnf
      cases rhs <;> simp [isBinary] at hb
      simp only [exprCst, isBinary, and_self, if_true, notFlip, CST.strip, wrapNot] at ih ⊢
      simp only [Bool.false_eq_true, if_false] at ih
      rw [ih]
    · simp only [exprCst, hnf, if_false, CST.strip, strip_pwrap, ih]
  | .binary op l r, h => by simp only [exprCst, CST.strip, strip_pwrap, strip_exprCst regs l h.2.1, strip_exprCst regs r h.2.2, wrapNot]; rfl
  | .postfix l op, h => by simp only [exprCst, CST.strip, strip_pwrap, strip_exprCst regs l h.2]
  | .ternary c a b, h => by
    simp only [exprCst, CST.strip, strip_pwrap, strip_exprCst regs c h.1, strip_exprCst regs a h.2.1, strip_exprCst regs b h.2.2]
  | .list xs, h => by simp only [exprCst, CST.strip, strip_exprCstList regs xs h]
  | .map kvs, h => by simp only [exprCst, CST.strip, strip_exprCstMap regs kvs h]
  | .stmt _, h => h.elim
  | .none, h => h.elim
theorem strip_exprCstList (regs : Regs) : ∀ ts : List AST, ProducibleList regs ts → (exprCstList regs ts).strip = ts
  | [], _ => rfl
  | a :: as, h => by simp only [exprCstList, CList.strip, strip_exprCst regs a h.1, strip_exprCstList regs as h.2]
theorem strip_exprCstMap (regs : Regs) : ∀ ts : List (AST × AST), ProducibleMap regs ts → (exprCstMap regs ts).strip = ts
  | [], _ => rfl
  | (k, v) :: r, h => by
    simp only [exprCstMap, CMap.strip, strip_exprCst regs k h.1, strip_exprCst regs v h.2.1, strip_exprCstMap regs r h.2.2]
end

/-- the shape of what `exprCst` returns, by the shape of the tree -/
theorem exprCst_shape (regs : Regs) (t : AST) (h : Producible regs t) :
    ((exprCst regs t).isTern = isTernary t) ∧ ((exprCst regs t).root? = astRoot t) := by
  cases t with
  | lit l => cases l <;> exact ⟨rfl, rfl⟩
  | stmt _ => exact h.elim
  | none => exact h.elim
  | unary op rhs =>
    by_cases hnf : op = notName ∧ isBinary rhs = true
    · obtain ⟨rfl, hb⟩ := hnf
      cases rhs <;> simp [isBinary] at hb
      simp [exprCst, isBinary, notFlip, isTern, root?, isTernary, astRoot, binRoot]
    · simp only [exprCst, hnf, if_false, isTern, root?, isTernary, astRoot]
      refine ⟨trivial, ?_⟩
      by_cases ho : op = notName
      · simp only [ho, if_true]
        cases rhs <;> first | rfl | (simp [isBinary, ho] at hnf)
      · simp [ho]
  | _ => exact ⟨rfl, rfl⟩

theorem astBp_root (regs : Regs) (t : AST) : astBp regs t = (astRoot t).map regs.bp := rfl

theorem astRoot_infix {regs : Regs} {t : AST} (h : Producible regs t) {o : Name} (hr : astRoot t = some o) : regs.isInfix o = true := by
  cases t with
  | binary op l r => simp only [astRoot, Option.some.injEq] at hr; subst hr; exact h.1
  | unary op rhs =>
    simp only [astRoot] at hr
    split at hr
    · cases rhs with
      | binary o2 l r => simp only [binRoot, Option.some.injEq] at hr; subst hr; exact h.2.1
      | _ => simp [binRoot] at hr
    · cases hr
  | _ => simp [astRoot] at hr

theorem astRoot_not_tern {t : AST} {o : Name} (hr : astRoot t = some o) : isTernary t = false := by
  cases t <;> simp_all [astRoot, isTernary]

theorem primary_of_shape {c : CST} (h1 : c.root? = none) (h2 : c.isTern = false) : c.isPrimary = true := by
  cases c <;> simp_all [root?, isTern, isPrimary]

theorem canon_notFlip {regs : Regs} {c : CST} (h : Canon regs c) : Canon regs (notFlip c) := by
  cases c <;> simpa [notFlip, Canon] using h

theorem canon_pwrap {regs : Regs} {b : Bool} {c : CST} (h : Canon regs c) : Canon regs (pwrap b c) := by
  cases b <;> simpa [pwrap, Canon] using h

mutual
/-- **`expr()` writes canonically.** -/
theorem expr_cst_canonical (regs : Regs) (tb : TableOK regs) : ∀ t : AST, Producible regs t → Canon regs (exprCst regs t)
  | .lit (.num d), _ => trivial
  | .lit (.bool b), _ => trivial
  | .lit (.str s), _ => trivial
  | .ref n, _ => trivial
  | .call n args, h => by simp only [exprCst, Canon]; exact expr_cst_canonicalList regs tb args h
  | .list xs, h => by simp only [exprCst, Canon]; exact ⟨expr_cst_canonicalList regs tb xs h, fun e => by cases e⟩
  | .map kvs, h => by simp only [exprCst, Canon]; exact ⟨expr_cst_canonicalMap regs tb kvs h, fun e => by cases e⟩
  | .stmt _, h => h.elim
  | .none, h => h.elim
  | .unary op rhs, h => by
    have ih := expr_cst_canonical regs tb rhs h.2
    by_cases hnf : op = notName ∧ isBinary rhs = true
    · simp only [exprCst, hnf, and_self, if_true]
      exact canon_notFlip ih
    · simp only [exprCst, hnf, if_false, Canon]
      refine ⟨h.1, ?_, canon_pwrap ih⟩
      cases hn : needParenUnary regs rhs with
      | true => rfl
      | false =>
        simp only [pwrap, Bool.false_eq_true, if_false]
        have hsh := exprCst_shape regs rhs h.2
        unfold needParenUnary at hn
        rw [astBp_root] at hn
        cases hr : astRoot rhs with
        | some o => simp [hr] at hn
        | none =>
          simp only [hr, Option.map_none] at hn
          exact primary_of_shape (by rw [hsh.2, hr]) (by rw [hsh.1, hn])
  | .postfix l op, h => by
    simp only [exprCst, Canon]
    refine ⟨h.1, ?_, canon_pwrap (expr_cst_canonical regs tb l h.2)⟩
    have hp := h.2
    cases l with
    | lit l => cases l <;> rfl
    | stmt _ => exact hp.elim
    | none => exact hp.elim
    | _ => rfl
  | .ternary c a b, h => by
    simp only [exprCst, Canon]
    refine ⟨canon_pwrap (expr_cst_canonical regs tb c h.1), ?_, expr_cst_canonical regs tb a h.2.1, expr_cst_canonical regs tb b h.2.2⟩
    cases hc : isTernary c with
    | true => rfl
    | false => simp only [pwrap, Bool.false_eq_true, if_false]; rw [(exprCst_shape regs c h.1).1, hc]
  | .binary op l r, h => by
    obtain ⟨hinf, hl, hr⟩ := h
    simp only [exprCst, Canon]
    have bo := bp_facts tb hinf
    have so := bp_snd hinf
    refine ⟨hinf, canon_pwrap (expr_cst_canonical regs tb l hl), canon_pwrap (expr_cst_canonical regs tb r hr), ?_, ?_, ?_, ?_⟩
    · -- left operand is not an unparenthesised conditional
      cases hn : needParenLeft regs op l with
      | true => rfl
      | false =>
        simp only [pwrap, Bool.false_eq_true, if_false]; rw [(exprCst_shape regs l hl).1]
        unfold needParenLeft at hn
        rw [astBp_root] at hn
        cases hr : astRoot l with
        | some o => exact astRoot_not_tern hr
        | none => simpa [hr] using hn
    · cases hn : needParenRight regs op r with
      | true => rfl
      | false =>
        simp only [pwrap, Bool.false_eq_true, if_false]; rw [(exprCst_shape regs r hr).1]
        unfold needParenRight at hn
        rw [astBp_root] at hn
        cases hrr : astRoot r with
        | some o => exact astRoot_not_tern hrr
        | none => simpa [hrr] using hn
    · -- an unparenthesised infix left operand binds at least as tight (on its right side)
      intro o2 ho'
      cases hn : needParenLeft regs op l with
      | true => simp [pwrap, hn, root?] at ho'
      | false =>
        simp only [pwrap, hn, Bool.false_eq_true, if_false] at ho'
        rw [(exprCst_shape regs l hl).2] at ho'
        have hinf2 : regs.isInfix o2 = true := astRoot_infix hl ho'
        have b2 := bp_facts tb hinf2
        have s2 := bp_snd hinf2
        unfold needParenLeft at hn
        rw [astBp_root, ho'] at hn
        simp only [Option.map_some, decide_eq_false_iff_not] at hn
        unfold okLeft
        rcases Int.lt_trichotomy (Regs.prec regs op) (Regs.prec regs o2) with hlt | heq | hgt
        · exact Or.inl hlt
        · refine Or.inr ⟨heq.symm, ?_⟩
          cases hr2 : Regs.isRight regs o2 with
          | false => rw [tb.assoc op o2 hinf hinf2 heq]; exact hr2
          | true => rw [hr2] at s2; simp only [if_true] at s2; omega
        · cases hr2 : Regs.isRight regs o2 <;> rw [hr2] at s2 <;> simp only [if_true, Bool.false_eq_true, if_false] at s2 <;> omega
    · intro o2 ho'
      cases hn : needParenRight regs op r with
      | true => simp [pwrap, hn, root?] at ho'
      | false =>
        simp only [pwrap, hn, Bool.false_eq_true, if_false] at ho'
        rw [(exprCst_shape regs r hr).2] at ho'
        have hinf2 : regs.isInfix o2 = true := astRoot_infix hr ho'
        have b2 := bp_facts tb hinf2
        unfold needParenRight at hn
        rw [astBp_root, ho'] at hn
        simp only [Option.map_some, decide_eq_false_iff_not] at hn
        unfold okRight
        rcases Int.lt_trichotomy (Regs.prec regs op) (Regs.prec regs o2) with hlt | heq | hgt
        · exact Or.inl hlt
        · refine Or.inr ⟨heq.symm, ?_⟩
          cases hr1 : Regs.isRight regs op with
          | true => rfl
          | false => rw [hr1] at so; simp only [Bool.false_eq_true, if_false] at so; omega
        · cases hr1 : Regs.isRight regs op <;> rw [hr1] at so <;> simp only [if_true, Bool.false_eq_true, if_false] at so <;> omega
theorem expr_cst_canonicalList (regs : Regs) (tb : TableOK regs) : ∀ ts : List AST, ProducibleList regs ts → CanonList regs (exprCstList regs ts)
  | [], _ => trivial
  | a :: as, h => ⟨expr_cst_canonical regs tb a h.1, expr_cst_canonicalList regs tb as h.2⟩
theorem expr_cst_canonicalMap (regs : Regs) (tb : TableOK regs) : ∀ ts : List (AST × AST), ProducibleMap regs ts → CanonMap regs (exprCstMap regs ts)
  | [], _ => trivial
  | (k, v) :: r, h => ⟨expr_cst_canonical regs tb k h.1, expr_cst_canonical regs tb v h.2.1, expr_cst_canonicalMap regs tb r h.2.2⟩
end

/-- **`expr()` output re-parses to the same tree** (token level): for every producible tree, within
the nesting limit. -/
theorem expr_reparses (regs : Regs) (tb : TableOK regs) (lim : Nat) (t : AST) (hp : Producible regs t) (hf : Fits lim (exprCst regs t)) :
    parseTokens regs lim (exprCst regs t).flatten = .ok t := by
  rw [groups_as_written regs tb lim _ (expr_cst_canonical regs tb t hp) hf, strip_exprCst regs t hp]

/-- **Rendering is idempotent**: the re-parsed tree renders to the same expression. -/
theorem expr_idempotent (regs : Regs) (tb : TableOK regs) (lim : Nat) (t t' : AST) (hp : Producible regs t) (hf : Fits lim (exprCst regs t))
    (h : parseTokens regs lim (exprCst regs t).flatten = .ok t') : exprCst regs t' = exprCst regs t ∧ expr regs t' = expr regs t := by
  rw [expr_reparses regs tb lim t hp hf] at h
  injection h with h
  subst h
  exact ⟨rfl, rfl⟩


/-! ## the text `expr()` returns is that expression, printed -/

mutual
/-- `expr()`'s spacing: a blank around infix operators, after a prefix and before a postfix operator,
around `?` and `:`; none around brackets, commas and the `:` of a map entry. -/
def cstText : CST → Text
  | .atom (.num d) => d.toText
  | .atom (.bool b) => litText (.bool b)
  | .atom (.str s) => litText (.str s)
  | .atom (.ref n) => n
  | .paren c => paren (cstText c)
  | .unary o c => o ++ (' ' :: cstText c)
  | .postfix c o => cstText c ++ (' ' :: o)
  | .call n args => n ++ ('(' :: (joinWith [','] (cstTextList args) ++ [')']))
  | .list xs tr => '[' :: (joinWith [','] (cstTextList xs) ++ ((if tr then [','] else []) ++ [']']))
  | .map kvs tr => '{' :: (joinWith [','] (cstTextMap kvs) ++ ((if tr then [','] else []) ++ ['}']))
  | .bin nt o l r => cstText l ++ (' ' :: ((if nt then ['n', 'o', 't', ' '] else []) ++ (o ++ (' ' :: cstText r))))
  | .tern c a b => cstText c ++ ([' ', '?', ' '] ++ (cstText a ++ ([' ', ':', ' '] ++ cstText b)))
def cstTextList : CList → List Text
  | .nil => []
  | .cons c r => cstText c :: cstTextList r
def cstTextMap : CMap → List Text
  | .nil => []
  | .cons k v r => (cstText k ++ (':' :: cstText v)) :: cstTextMap r
end

theorem cstText_pwrap (b : Bool) (c : CST) : cstText (pwrap b c) = wrapIf b (cstText c) := by
  cases b <;> simp [pwrap, wrapIf, cstText]

mutual
/-- The model of `expr()` (a transcription of parser.rs, tied to it by the correspondence runs)
returns exactly `exprCst` printed. -/
theorem expr_text (regs : Regs) : ∀ t : AST, Producible regs t → expr regs t = cstText (exprCst regs t)
  | .lit (.num d), _ => by simp [expr, exprCst, cstText, litText]
  | .lit (.bool b), _ => by simp [expr, exprCst, cstText]
  | .lit (.str s), _ => by simp [expr, exprCst, cstText]
  | .ref n, _ => by simp [expr, exprCst, cstText]
  | .call n args, h => by simp only [expr, exprCst, cstText, expr_textList regs args h]
  | .list xs, h => by simp only [expr, exprCst, cstText, expr_textList regs xs h]; simp
  | .map kvs, h => by simp only [expr, exprCst, cstText, expr_textMap regs kvs h]; simp
  | .unary op rhs, h => by
    have ih := expr_text regs rhs h.2
    by_cases hnf : op = notName ∧ isBinary rhs = true
    · obtain ⟨rfl, hb⟩ := hnf
      cases rhs <;> simp [isBinary] at hb
      rename_i o l r
      have ihl := expr_text regs l h.2.2.1
      have ihr := expr_text regs r h.2.2.2
      simp only [expr, exprNot, exprCst, isBinary, and_self, if_true, notFlip, cstText, cstText_pwrap, ihl, ihr]
      simp
    · simp only [expr, exprCst, hnf, if_false, cstText, cstText_pwrap, ih]
  | .postfix l op, h => by simp only [expr, exprCst, cstText, cstText_pwrap, expr_text regs l h.2]
  | .binary op l r, h => by
    simp only [expr, exprCst, cstText, cstText_pwrap, expr_text regs l h.2.1, expr_text regs r h.2.2]
    simp
  | .ternary c a b, h => by
    simp only [expr, exprCst, cstText, cstText_pwrap, expr_text regs c h.1, expr_text regs a h.2.1, expr_text regs b h.2.2]
  | .stmt _, h => h.elim
  | .none, h => h.elim
theorem expr_textList (regs : Regs) : ∀ ts : List AST, ProducibleList regs ts → exprList regs ts = cstTextList (exprCstList regs ts)
  | [], _ => rfl
  | a :: as, h => by simp only [exprList, exprCstList, cstTextList, expr_text regs a h.1, expr_textList regs as h.2]
theorem expr_textMap (regs : Regs) : ∀ ts : List (AST × AST), ProducibleMap regs ts → exprMap regs ts = cstTextMap (exprCstMap regs ts)
  | [], _ => rfl
  | (k, v) :: r, h => by
    simp only [exprMap, exprCstMap, cstTextMap, expr_text regs k h.1, expr_text regs v h.2.1, expr_textMap regs r h.2.2]
end

/-! ## every tree the parser returns is producible -/

mutual
theorem gtok_prod {regs : Regs} (hnot : regs.isPrefix notName = true) : ∀ {ts : List Tok} {e : AST}, GTok regs ts e → Producible regs e
  | _, _, .num _ => trivial
  | _, _, .bool _ => trivial
  | _, _, .str _ => trivial
  | _, _, .ref _ => trivial
  | _, _, .call0 _ => trivial
  | _, _, .call h => gargs_prod hnot h
  | _, _, .unary hp h => ⟨hp, gprim_prod hnot h⟩
  | _, _, .paren h => gexpr_prod hnot h
  | _, _, .list h => gitems_prod hnot h
  | _, _, .map h => gentries_prod hnot h
theorem gprim_prod {regs : Regs} (hnot : regs.isPrefix notName = true) : ∀ {ts : List Tok} {e : AST}, GPrim regs ts e → Producible regs e
  | _, _, .tok h => gtok_prod hnot h
  | _, _, .postfix h hp => ⟨hp, gprim_prod hnot h⟩
theorem gbin_prod {regs : Regs} (hnot : regs.isPrefix notName = true) : ∀ {ts : List Tok} {e : AST}, GBin regs ts e → Producible regs e
  | _, _, .prim h => gprim_prod hnot h
  | _, _, .bin hl ho hr => ⟨ho, gbin_prod hnot hl, gbin_prod hnot hr⟩
  | _, _, .notBin hl ho hr => ⟨hnot, ho, gbin_prod hnot hl, gbin_prod hnot hr⟩
theorem gexpr_prod {regs : Regs} (hnot : regs.isPrefix notName = true) : ∀ {ts : List Tok} {e : AST}, GExpr regs ts e → Producible regs e
  | _, _, .bin h => gbin_prod hnot h
  | _, _, .tern hc ha hb => ⟨gbin_prod hnot hc, gexpr_prod hnot ha, gexpr_prod hnot hb⟩
theorem gargs_prod {regs : Regs} (hnot : regs.isPrefix notName = true) : ∀ {ts : List Tok} {es : List AST}, GArgs regs ts es → ProducibleList regs es
  | _, _, .one h => ⟨gexpr_prod hnot h, trivial⟩
  | _, _, .cons h hr => ⟨gexpr_prod hnot h, gargs_prod hnot hr⟩
theorem gitems_prod {regs : Regs} (hnot : regs.isPrefix notName = true) : ∀ {ts : List Tok} {es : List AST}, GItems regs ts es → ProducibleList regs es
  | _, _, .nil => trivial
  | _, _, .one h => ⟨gexpr_prod hnot h, trivial⟩
  | _, _, .cons h hr => ⟨gexpr_prod hnot h, gitems_prod hnot hr⟩
theorem gentries_prod {regs : Regs} (hnot : regs.isPrefix notName = true) : ∀ {ts : List Tok} {es : List (AST × AST)}, GEntries regs ts es → ProducibleMap regs es
  | _, _, .nil => trivial
  | _, _, .one hk hv => ⟨gexpr_prod hnot hk, gexpr_prod hnot hv, trivial⟩
  | _, _, .cons hk hv hr => ⟨gexpr_prod hnot hk, gexpr_prod hnot hv, gentries_prod hnot hr⟩
end

theorem gprog_prod {regs : Regs} (hnot : regs.isPrefix notName = true) : ∀ {ts : List Tok} {es : List AST}, GProg regs ts es → ProducibleList regs es
  | _, _, .nil => trivial
  | _, _, .stmt h hr => ⟨gexpr_prod hnot h, gprog_prod hnot hr⟩
  | _, _, .stmtSemi h hr => ⟨gexpr_prod hnot h, gprog_prod hnot hr⟩

/-- **Every tree `parse_expression` returns** is a producible expression, or the chain of the
producible statements of a program. -/
theorem parse_producible (regs : Regs) (hp : RegsPos regs) (hnot : regs.isPrefix notName = true) (lim : Nat) (hl : 1 ≤ lim)
    (toks : List Tok) (a : AST) (h : parseTokens regs lim toks = .ok a) :
    Producible regs a ∨ ∃ es, a = .stmt es ∧ ProducibleList regs es := by
  obtain ⟨es, hg, rfl⟩ := EE.Props.C05.parse_sound regs hp lim hl toks a h
  have := gprog_prod hnot hg
  match es, this with
  | [], _ => exact Or.inr ⟨[], rfl, trivial⟩
  | [e], h1 => exact Or.inl h1.1
  | e :: e2 :: r, h1 => exact Or.inr ⟨_, rfl, h1⟩

/-- End to end for one-expression programs: whatever the parser returned re-parses, from the tokens
`expr()` writes, to itself. -/
theorem parsed_expr_reparses (regs : Regs) (tb : TableOK regs) (hnot : regs.isPrefix notName = true) (lim : Nat) (hl : 1 ≤ lim)
    (toks : List Tok) (t : AST) (h : parseTokens regs lim toks = .ok t) (hns : ∀ es, t ≠ .stmt es) (hf : Fits lim (exprCst regs t)) :
    parseTokens regs lim (exprCst regs t).flatten = .ok t := by
  rcases parse_producible regs tb.pos hnot lim hl toks t h with hp | ⟨es, he, _⟩
  · exact expr_reparses regs tb lim t hp hf
  · exact absurd he (hns es)

/-- Statement chains: `expr()` joins the statements with `;`; each is written canonically, so the
program re-parses to the same chain. -/
theorem stmt_chain_reparses (regs : Regs) (tb : TableOK regs) (lim : Nat) (hl : 1 ≤ lim) (es : List AST) (hp : ProducibleList regs es)
    (hf : ∀ e ∈ es, Fits lim (exprCst regs e)) (hh : AST.heightList es + 1 ≤ lim) :
    parseTokens regs lim (flattenProg (es.map (exprCst regs))) = .ok (programTree es) := by
  have hall : ∀ (l : List AST), ProducibleList regs l → (∀ e ∈ l, Fits lim (exprCst regs e)) →
      (∀ c ∈ l.map (exprCst regs), Canon regs c ∧ Fits lim c) ∧ (l.map (exprCst regs)).map CST.strip = l := by
    intro l
    induction l with
    | nil => intro _ _; exact ⟨(by intro c hc; cases hc), rfl⟩
    | cons e r ih =>
      intro hp hf
      obtain ⟨h1, h2⟩ := ih hp.2 (fun x hx => hf x (by simp [hx]))
      refine ⟨?_, by simp only [List.map_cons, strip_exprCst regs e hp.1, h2]⟩
      intro c hc
      simp only [List.map_cons, List.mem_cons] at hc
      rcases hc with rfl | hc
      · exact ⟨expr_cst_canonical regs tb e hp.1, hf e (by simp)⟩
      · exact h1 c hc
  obtain ⟨h1, h2⟩ := hall es hp hf
  have := program_as_written regs tb lim hl (es.map (exprCst regs)) h1 (by rw [h2]; exact hh)
  rw [h2] at this
  exact this


/-! ## the printed characters tokenize back to the expression's tokens

`relex`: for a well-formed expression (`WFT`: numbers within the decimal range, strings without both
quote characters, names that are names and not operator words, symbolic postfix operators) printed
by `cstText`, the tokenizer returns exactly `flatten`. With `expr_text` and `expr_reparses` this is
the round trip on the *text* `expr()` returns (`expr_text_reparses`). -/

def SepCh (y : Char) : Bool := y == ' ' || y == ')' || y == ']' || y == '}' || y == ',' || y == ':' || y == ';'

theorem sepCh_cases {y : Char} (h : SepCh y = true) : y = ' ' ∨ y = ')' ∨ y = ']' ∨ y = '}' ∨ y = ',' ∨ y = ':' ∨ y = ';' := by
  simp [SepCh] at h
  rcases h with (((((h | h) | h) | h) | h) | h) | h <;> simp [h]

theorem sepCh_facts {y : Char} (h : SepCh y = true) : isParamCh y = false ∧ isDigitRunCh y = false ∧ y ≠ '(' := by
  rcases sepCh_cases h with rfl | rfl | rfl | rfl | rfl | rfl | rfl <;> exact ⟨by decide, by decide, by decide⟩

/-- what may follow a printed expression: nothing, or a separator character; and the next
non-blank character is not `(` -/
def SepOK (rest : Text) : Prop := (∀ y r, rest = y :: r → SepCh y = true) ∧ nextIsOpenParen rest = false

/-- Assumptions on the registered operator names for re-lexing (beyond `LexEnv`); all hold of the
built-in set (`builtin_regsText`). -/
structure RegsText (regs : Regs) : Prop where
  /-- symbolic operators are prefix-closed (the tokenizer extends one character at a time; cf. KF-C10-gap) -/
  symChain : ∀ c kt, regs.isOp (c :: kt) = true → isSpecialStart c = true → OpChain regs.isOp [c] kt
  /-- no symbolic operator continues with a separator character -/
  symStop : ∀ c kt y, regs.isOp (c :: kt) = true → isSpecialStart c = true → SepCh y = true → regs.isOp (c :: kt ++ [y]) = false
  /-- word operators start with a character that reaches the identifier scanner -/
  wordStart : ∀ c kt, regs.isOp (c :: kt) = true → isSpecialStart c = false → isOtherStart c = true
  nonempty : regs.isOp [] = false
  /-- nothing extends `:` (a map value follows its `:` without a blank) -/
  colonStop : ∀ y, regs.isOp [':', y] = false
  postfixSymbolic : ∀ o, regs.isPostfix o = true → ∃ c kt, o = c :: kt ∧ isSpecialStart c = true

def NameShape (regs : Regs) (n : Name) : Prop :=
  ∃ c kt, n = c :: kt ∧ isOtherStart c = true ∧ (∀ x ∈ kt, isParamCh x = true) ∧ regs.isOp n = false ∧ isBoolWord n = false

def Symbolic (o : Name) : Prop := ∃ c kt, o = c :: kt ∧ isSpecialStart c = true

mutual
def WFT (regs : Regs) : CST → Prop
  | .atom (.num d) => d.neg = false ∧ d.WF
  | .atom (.bool _) => True
  | .atom (.str s) => ¬ ('"' ∈ s ∧ '\'' ∈ s)
  | .atom (.ref n) => NameShape regs n
  | .paren c => WFT regs c
  | .unary o c => regs.isOp o = true ∧ WFT regs c
  | .postfix c o => regs.isOp o = true ∧ Symbolic o ∧ WFT regs c
  | .call n args => NameShape regs n ∧ WFTList regs args
  | .list xs _ => WFTList regs xs
  | .map kvs _ => WFTMap regs kvs
  | .bin nt o l r => (nt = true → regs.isOp notName = true) ∧ regs.isOp o = true ∧ WFT regs l ∧ WFT regs r
  | .tern c a b => WFT regs c ∧ WFT regs a ∧ WFT regs b
def WFTList (regs : Regs) : CList → Prop
  | .nil => True
  | .cons c r => WFT regs c ∧ WFTList regs r
def WFTMap (regs : Regs) : CMap → Prop
  | .nil => True
  | .cons k v r => WFT regs k ∧ WFT regs v ∧ WFTMap regs r
end

section Relex
variable {regs : Regs} (env : LexEnv regs) (rt : RegsText regs)
include env rt

omit env rt in
theorem special_not_ws {c : Char} (h : isSpecialStart c = true) : isWs c = false := by
  rcases special_cases h with rfl | rfl | rfl | rfl | rfl | rfl | rfl | rfl | rfl | rfl | rfl | rfl | rfl | rfl <;> decide

omit env rt in
theorem sepOK_space (r : Text) (h : nextIsOpenParen r = false) : SepOK (' ' :: r) := by
  refine ⟨fun y r' e => by simp only [List.cons.injEq] at e; rw [← e.1]; decide, ?_⟩
  unfold nextIsOpenParen at h ⊢
  simpa [span, isWs] using h

/-- an operator followed by a blank -/
theorem emit_op_space {o : Name} (ho : regs.isOp o = true) {r : Text} {toks : List Tok} (h : Pieces regs (' ' :: r) toks) :
    Pieces regs (o ++ ' ' :: r) (.op o :: toks) := by
  cases o with
  | nil => rw [rt.nonempty] at ho; cases ho
  | cons c kt =>
    cases hsp : isSpecialStart c with
    | true =>
      obtain ⟨t, hl, ht⟩ := lex_symop regs c kt (' ' :: r) 0 hsp (rt.symChain c kt ho hsp) (by
        intro y r' e
        simp only [List.cons.injEq] at e
        cases hop : regs.isOp (c :: kt ++ [y]) with
        | false => rfl
        | true => have := env.opsNoWs _ hop y (by simp); rw [← e.1] at this; exact absurd this (by decide))
      have := Pieces.tok0 (special_not_ws hsp) hl h
      rw [ht] at this
      simpa using this
    | false =>
      have hos := rt.wordStart c kt ho hsp
      have hkt : ∀ x ∈ kt, notWsDelim x = true := fun x hx => param_notWsDelim (env.wordOpsPlain c kt ho hsp x hx)
      obtain ⟨t, hl, ht⟩ := lex_wordop regs c kt (' ' :: r) 0 hos hkt ho (by
        intro y r' e; simp only [List.cons.injEq] at e; rw [← e.1]; decide)
      have := Pieces.tok0 (otherStart_facts hos).2.2.2.2.2.2 hl h
      rw [ht] at this
      simpa using this

/-- a symbolic operator followed by a separator (or the end) -/
theorem emit_symop {o : Name} (ho : regs.isOp o = true) (hs : Symbolic o) {rest : Text} {toks : List Tok} (h : Pieces regs rest toks)
    (hsep : ∀ y r, rest = y :: r → SepCh y = true) : Pieces regs (o ++ rest) (.op o :: toks) := by
  obtain ⟨c, kt, rfl, hsp⟩ := hs
  obtain ⟨t, hl, ht⟩ := lex_symop regs c kt rest 0 hsp (rt.symChain c kt ho hsp) (fun y r e => rt.symStop c kt y ho hsp (hsep y r e))
  have := Pieces.tok0 (special_not_ws hsp) hl h
  rw [ht] at this
  simpa using this

omit rt in
/-- a name followed by a separator: a reference -/
theorem emit_ref {n : Name} (hn : NameShape regs n) {rest : Text} {toks : List Tok} (h : Pieces regs rest toks) (hsep : SepOK rest) :
    Pieces regs (n ++ rest) (.ref n :: toks) := by
  obtain ⟨c, kt, rfl, hos, hkt, hnop, hnb⟩ := hn
  obtain ⟨t, hl, ht⟩ := lex_name regs env c kt rest 0 hos hkt (fun y r e => (sepCh_facts (hsep.1 y r e)).1) hnop hnb
  have := Pieces.tok0 (otherStart_facts hos).2.2.2.2.2.2 hl h
  rw [ht, hsep.2] at this
  simpa using this

omit rt in
/-- a name followed by `(`: a function name -/
theorem emit_func {n : Name} (hn : NameShape regs n) {r : Text} {toks : List Tok} (h : Pieces regs ('(' :: r) toks) :
    Pieces regs (n ++ '(' :: r) (.func n :: toks) := by
  obtain ⟨c, kt, rfl, hos, hkt, hnop, hnb⟩ := hn
  obtain ⟨t, hl, ht⟩ := lex_name regs env c kt ('(' :: r) 0 hos hkt (by
    intro y r' e; simp only [List.cons.injEq] at e; rw [← e.1]; decide) hnop hnb
  have := Pieces.tok0 (otherStart_facts hos).2.2.2.2.2.2 hl h
  have hno : nextIsOpenParen ('(' :: r) = true := by simp [nextIsOpenParen, span, isWs]
  rw [ht, hno] at this
  simpa using this

omit env rt in
theorem emit_delim (d : Delim) {rest : Text} {toks : List Tok} (h : Pieces regs rest toks) :
    Pieces regs (d.toChar :: rest) (.delim d :: toks) := by
  have := Pieces.tok0 (kt := []) (by cases d <;> decide) (lex_delim regs d rest 0) h
  simpa using this

omit env rt in
theorem emit_comma {rest : Text} {toks : List Tok} (h : Pieces regs rest toks) : Pieces regs (',' :: rest) (.comma :: toks) := by
  have := Pieces.tok0 (kt := []) (by decide) (lex_comma regs rest 0) h
  simpa using this


omit env in
theorem op_head {o : Name} (ho : regs.isOp o = true) (r : Text) : nextIsOpenParen (o ++ r) = false := by
  cases o with
  | nil => rw [rt.nonempty] at ho; cases ho
  | cons c kt =>
    have hc : isWs c = false ∧ c ≠ '(' := by
      cases hsp : isSpecialStart c with
      | true => exact ⟨special_not_ws hsp, (by rcases special_cases hsp with rfl | rfl | rfl | rfl | rfl | rfl | rfl | rfl | rfl | rfl | rfl | rfl | rfl | rfl <;> decide)⟩
      | false =>
        obtain ⟨_, h2, _, _, _, _, h7⟩ := otherStart_facts (rt.wordStart c kt ho hsp)
        exact ⟨h7, by intro e; subst e; cases h2⟩
    have := nextIsOpenParen_ws_prefix (g := []) (by intro x hx; cases hx) hc.1 (kt ++ r)
    simp only [List.nil_append] at this
    rw [List.cons_append, this]
    simpa using hc.2

omit env rt in
theorem sepOK_char {y : Char} (hy : SepCh y = true) (hws : isWs y = false) (r : Text) : SepOK (y :: r) := by
  refine ⟨fun y' r' e => by simp only [List.cons.injEq] at e; rw [← e.1]; exact hy, ?_⟩
  have := nextIsOpenParen_ws_prefix (g := []) (by intro x hx; cases hx) hws r
  simp only [List.nil_append] at this
  rw [this]
  simpa using (sepCh_facts hy).2.2

omit env rt in
theorem sepOK_nil : SepOK [] := ⟨fun y r e => (by cases e), rfl⟩

omit env in
/-- `:` directly followed by a map value -/
theorem emit_colon_tight {r : Text} {toks : List Tok} (h : Pieces regs r toks) : Pieces regs (':' :: r) (tColon :: toks) := by
  obtain ⟨t, hl, ht⟩ := lex_symop regs ':' [] r 0 (by decide) trivial (fun y r' _ => rt.colonStop y)
  have := Pieces.tok0 (by decide) hl h
  rw [ht] at this
  simpa [tColon, colonName] using this

omit env rt in
theorem isOp_q (regs : Regs) : regs.isOp ['?'] = true := by simp [Regs.isOp, Regs.isTernaryOp]
omit env rt in
theorem isOp_colon (regs : Regs) : regs.isOp [':'] = true := by simp [Regs.isOp, Regs.isTernaryOp]

mutual
theorem relex : ∀ (c : CST), WFT regs c → ∀ (rest : Text) (toks : List Tok), Pieces regs rest toks → SepOK rest →
    Pieces regs (cstText c ++ rest) (c.flatten ++ toks)
  | .atom (.num d), hw, rest, toks, h, hs => by
    obtain ⟨t, c, kt, htxt, hws, hl, ht⟩ := lex_num regs d hw.1 hw.2 rest 0 (fun y r e => (sepCh_facts (hs.1 y r e)).2.1)
    have := Pieces.tok0 hws hl h
    rw [ht] at this
    simpa [cstText, htxt, CST.flatten, Atom.tok] using this
  | .atom (.bool true), _, rest, toks, h, hs => by
    obtain ⟨t, hl, ht⟩ := lex_true regs env rest 0 (fun y r e => (sepCh_facts (hs.1 y r e)).1)
    have := Pieces.tok0 (by decide) hl h
    rw [ht] at this
    simpa [cstText, litText, CST.flatten, Atom.tok] using this
  | .atom (.bool false), _, rest, toks, h, hs => by
    obtain ⟨t, hl, ht⟩ := lex_false regs env rest 0 (fun y r e => (sepCh_facts (hs.1 y r e)).1)
    have := Pieces.tok0 (by decide) hl h
    rw [ht] at this
    simpa [cstText, litText, CST.flatten, Atom.tok] using this
  | .atom (.str s), hw, rest, toks, h, _ => by
    simp only [cstText, litText, CST.flatten, Atom.tok, List.cons_append, List.nil_append]
    by_cases hq : '"' ∈ s
    · have hnot : '\'' ∉ s := fun hm => hw ⟨hq, hm⟩
      obtain ⟨t, hl, ht⟩ := lex_str regs '\'' (by decide) s rest 0 hnot
      have := Pieces.tok0 (by decide) hl h
      rw [ht] at this
      simpa [hq, List.append_assoc] using this
    · have hnot : '"' ∉ s := hq
      obtain ⟨t, hl, ht⟩ := lex_str regs '"' (by decide) s rest 0 hnot
      have := Pieces.tok0 (by decide) hl h
      rw [ht] at this
      simpa [hq, List.append_assoc] using this
  | .atom (.ref n), hw, rest, toks, h, hs => by
    simpa [cstText, CST.flatten, Atom.tok] using emit_ref env hw h hs
  | .paren c, hw, rest, toks, h, _ => by
    have hin := relex c hw (')' :: rest) (.delim .closeParen :: toks) (emit_delim .closeParen h) (sepOK_char (by decide) (by decide) rest)
    have := emit_delim .openParen hin
    simpa [cstText, paren, CST.flatten, tOpen, tClose, Delim.toChar, List.append_assoc] using this
  | .unary o c, hw, rest, toks, h, hs => by
    have := emit_op_space env rt hw.1 (relex c hw.2 rest toks h hs).blank
    simpa [cstText, CST.flatten, List.append_assoc] using this
  | .postfix c o, hw, rest, toks, h, hs => by
    obtain ⟨ho, hsym, hwc⟩ := hw
    have h1 := (emit_symop env rt ho hsym h hs.1).blank
    have := relex c hwc (' ' :: (o ++ rest)) _ h1 (sepOK_space _ (op_head rt ho rest))
    simpa [cstText, CST.flatten, List.append_assoc] using this
  | .call n args, hw, rest, toks, h, _ => by
    have hin := relexList args hw.2 (')' :: rest) (.delim .closeParen :: toks) (emit_delim .closeParen h) (sepOK_char (by decide) (by decide) rest)
    have := emit_func env hw.1 (emit_delim .openParen hin)
    simpa [cstText, CST.flatten, tOpen, tClose, Delim.toChar, List.append_assoc] using this
  | .list xs tr, hw, rest, toks, h, _ => by
    cases tr with
    | false =>
      have hin := relexList xs hw (']' :: rest) (.delim .closeBracket :: toks) (emit_delim .closeBracket h) (sepOK_char (by decide) (by decide) rest)
      have := emit_delim .openBracket hin
      simpa [cstText, CST.flatten, trailToks, tOpenB, tCloseB, Delim.toChar, List.append_assoc] using this
    | true =>
      have hin := relexList xs hw (',' :: ']' :: rest) (.comma :: .delim .closeBracket :: toks) (emit_comma (emit_delim .closeBracket h))
        (sepOK_char (by decide) (by decide) _)
      have := emit_delim .openBracket hin
      simpa [cstText, CST.flatten, trailToks, tOpenB, tCloseB, Delim.toChar, List.append_assoc] using this
  | .map kvs tr, hw, rest, toks, h, _ => by
    cases tr with
    | false =>
      have hin := relexMap kvs hw ('}' :: rest) (.delim .closeBrace :: toks) (emit_delim .closeBrace h) (sepOK_char (by decide) (by decide) rest)
      have := emit_delim .openBrace hin
      simpa [cstText, CST.flatten, trailToks, tOpenC, tCloseC, Delim.toChar, List.append_assoc] using this
    | true =>
      have hin := relexMap kvs hw (',' :: '}' :: rest) (.comma :: .delim .closeBrace :: toks) (emit_comma (emit_delim .closeBrace h))
        (sepOK_char (by decide) (by decide) _)
      have := emit_delim .openBrace hin
      simpa [cstText, CST.flatten, trailToks, tOpenC, tCloseC, Delim.toChar, List.append_assoc] using this
  | .bin nt o l r, hw, rest, toks, h, hs => by
    obtain ⟨hnt, ho, hwl, hwr⟩ := hw
    have h1 := (emit_op_space env rt ho (relex r hwr rest toks h hs).blank).blank
    cases nt with
    | false =>
      have := relex l hwl (' ' :: (o ++ ' ' :: (cstText r ++ rest))) _ h1 (sepOK_space _ (op_head rt ho _))
      simpa [cstText, CST.flatten, opToks, List.append_assoc] using this
    | true =>
      have hno := hnt rfl
      have h2 := (emit_op_space env rt hno h1).blank
      have := relex l hwl (' ' :: (notName ++ ' ' :: (o ++ ' ' :: (cstText r ++ rest)))) _ h2 (sepOK_space _ (op_head rt hno _))
      simpa [cstText, CST.flatten, opToks, tNot, notName, List.append_assoc] using this
  | .tern c a b, hw, rest, toks, h, hs => by
    obtain ⟨hwc, hwa, hwb⟩ := hw
    have hb := (emit_op_space env rt (isOp_colon regs) (relex b hwb rest toks h hs).blank).blank
    have ha := relex a hwa (' ' :: ([':'] ++ ' ' :: (cstText b ++ rest))) _ hb (sepOK_space _ (op_head rt (isOp_colon regs) _))
    have hq := (emit_op_space env rt (isOp_q regs) ha.blank).blank
    have := relex c hwc (' ' :: (['?'] ++ ' ' :: (cstText a ++ (' ' :: ([':'] ++ ' ' :: (cstText b ++ rest)))))) _ hq
      (sepOK_space _ (op_head rt (isOp_q regs) _))
    simpa [cstText, CST.flatten, tQ, tColon, qName, colonName, List.append_assoc] using this
theorem relexList : ∀ (xs : CList), WFTList regs xs → ∀ (rest : Text) (toks : List Tok), Pieces regs rest toks → SepOK rest →
    Pieces regs (joinWith [','] (cstTextList xs) ++ rest) (xs.flatten ++ toks)
  | .nil, _, rest, toks, h, _ => by simpa [cstTextList, joinWith, CList.flatten] using h
  | .cons c .nil, hw, rest, toks, h, hs => by
    simpa [cstTextList, joinWith, CList.flatten] using relex c hw.1 rest toks h hs
  | .cons c (.cons c2 r2), hw, rest, toks, h, hs => by
    have hr := relexList (.cons c2 r2) hw.2 rest toks h hs
    have := relex c hw.1 (',' :: (joinWith [','] (cstTextList (.cons c2 r2)) ++ rest)) _ (emit_comma hr) (sepOK_char (by decide) (by decide) _)
    simpa [cstTextList, joinWith, CList.flatten, List.append_assoc] using this
theorem relexMap : ∀ (kvs : CMap), WFTMap regs kvs → ∀ (rest : Text) (toks : List Tok), Pieces regs rest toks → SepOK rest →
    Pieces regs (joinWith [','] (cstTextMap kvs) ++ rest) (kvs.flatten ++ toks)
  | .nil, _, rest, toks, h, _ => by simpa [cstTextMap, joinWith, CMap.flatten] using h
  | .cons k v .nil, hw, rest, toks, h, hs => by
    have hv := relex v hw.2.1 rest toks h hs
    have := relex k hw.1 (':' :: (cstText v ++ rest)) _ (emit_colon_tight rt hv) (sepOK_char (by decide) (by decide) _)
    simpa [cstTextMap, joinWith, CMap.flatten, List.append_assoc] using this
  | .cons k v (.cons k2 v2 r2), hw, rest, toks, h, hs => by
    have hr := relexMap (.cons k2 v2 r2) hw.2.2 rest toks h hs
    have hv := relex v hw.2.1 (',' :: (joinWith [','] (cstTextMap (.cons k2 v2 r2)) ++ rest)) _ (emit_comma hr) (sepOK_char (by decide) (by decide) _)
    have := relex k hw.1 (':' :: (cstText v ++ (',' :: (joinWith [','] (cstTextMap (.cons k2 v2 r2)) ++ rest)))) _ (emit_colon_tight rt hv)
      (sepOK_char (by decide) (by decide) _)
    simpa [cstTextMap, joinWith, CMap.flatten, List.append_assoc] using this
end

end Relex


/-- **The printed characters tokenize back to the expression's tokens.** -/
theorem relex_tokenize (regs : Regs) (env : LexEnv regs) (rt : RegsText regs) (c : CST) (hw : WFT regs c) :
    ∃ sts, tokenize regs (cstText c) = .ok sts ∧ sts.map (·.tok) = c.flatten := by
  have := relex env rt c hw [] [] (Pieces.done (by intro x hx; cases hx)) sepOK_nil
  simp only [List.append_nil] at this
  exact pieces_tokenize regs this

/-! ### from the tree: what the leaves must look like -/

mutual
/-- the leaves of a tree as the tokenizer produces them: non-negative numbers within the decimal
range, strings without both quote characters, names of identifier shape that are neither operator
words nor boolean keywords -/
def LeafOK (regs : Regs) : AST → Prop
  | .lit (.num d) => d.neg = false ∧ d.WF
  | .lit (.bool _) => True
  | .lit (.str s) => ¬ ('"' ∈ s ∧ '\'' ∈ s)
  | .ref n => NameShape regs n
  | .call n args => NameShape regs n ∧ LeafOKList regs args
  | .unary _ rhs => LeafOK regs rhs
  | .binary _ l r => LeafOK regs l ∧ LeafOK regs r
  | .postfix l _ => LeafOK regs l
  | .ternary c a b => LeafOK regs c ∧ LeafOK regs a ∧ LeafOK regs b
  | .list xs => LeafOKList regs xs
  | .map kvs => LeafOKMap regs kvs
  | .stmt _ => False
  | .none => False
def LeafOKList (regs : Regs) : List AST → Prop
  | [] => True
  | a :: as => LeafOK regs a ∧ LeafOKList regs as
def LeafOKMap (regs : Regs) : List (AST × AST) → Prop
  | [] => True
  | (k, v) :: r => LeafOK regs k ∧ LeafOK regs v ∧ LeafOKMap regs r
end

theorem wft_pwrap {regs : Regs} {b : Bool} {c : CST} (h : WFT regs c) : WFT regs (pwrap b c) := by
  cases b <;> simpa [pwrap, WFT] using h

theorem isOp_of_prefix {regs : Regs} {o : Name} (h : regs.isPrefix o = true) : regs.isOp o = true := by simp [Regs.isOp, h]
theorem isOp_of_infix {regs : Regs} {o : Name} (h : regs.isInfix o = true) : regs.isOp o = true := by simp [Regs.isOp, h]
theorem isOp_of_postfix {regs : Regs} {o : Name} (h : regs.isPostfix o = true) : regs.isOp o = true := by simp [Regs.isOp, h]

mutual
theorem wft_exprCst (regs : Regs) (rt : RegsText regs) : ∀ t : AST, Producible regs t → LeafOK regs t → WFT regs (exprCst regs t)
  | .lit (.num d), _, hl => hl
  | .lit (.bool b), _, _ => trivial
  | .lit (.str s), _, hl => hl
  | .ref n, _, hl => hl
  | .call n args, hp, hl => ⟨hl.1, wft_exprCstList regs rt args hp hl.2⟩
  | .unary op rhs, hp, hl => by
    have ih := wft_exprCst regs rt rhs hp.2 hl
    by_cases hnf : op = notName ∧ isBinary rhs = true
    · obtain ⟨rfl, hb⟩ := hnf
      cases rhs <;> simp [isBinary] at hb
      simp only [exprCst, isBinary, and_self, if_true, notFlip, WFT] at ih ⊢
      exact ⟨fun _ => isOp_of_prefix hp.1, ih.2⟩
    · simp only [exprCst, hnf, if_false, WFT]
      exact ⟨isOp_of_prefix hp.1, wft_pwrap ih⟩
  | .binary op l r, hp, hl => ⟨fun e => (by cases e), isOp_of_infix hp.1, wft_pwrap (wft_exprCst regs rt l hp.2.1 hl.1), wft_pwrap (wft_exprCst regs rt r hp.2.2 hl.2)⟩
  | .postfix l op, hp, hl => ⟨isOp_of_postfix hp.1, rt.postfixSymbolic op hp.1, wft_pwrap (wft_exprCst regs rt l hp.2 hl)⟩
  | .ternary c a b, hp, hl =>
    ⟨wft_pwrap (wft_exprCst regs rt c hp.1 hl.1), wft_exprCst regs rt a hp.2.1 hl.2.1, wft_exprCst regs rt b hp.2.2 hl.2.2⟩
  | .list xs, hp, hl => wft_exprCstList regs rt xs hp hl
  | .map kvs, hp, hl => wft_exprCstMap regs rt kvs hp hl
  | .stmt _, hp, _ => hp.elim
  | .none, hp, _ => hp.elim
theorem wft_exprCstList (regs : Regs) (rt : RegsText regs) : ∀ ts : List AST, ProducibleList regs ts → LeafOKList regs ts →
    WFTList regs (exprCstList regs ts)
  | [], _, _ => trivial
  | a :: as, hp, hl => ⟨wft_exprCst regs rt a hp.1 hl.1, wft_exprCstList regs rt as hp.2 hl.2⟩
theorem wft_exprCstMap (regs : Regs) (rt : RegsText regs) : ∀ ts : List (AST × AST), ProducibleMap regs ts → LeafOKMap regs ts →
    WFTMap regs (exprCstMap regs ts)
  | [], _, _ => trivial
  | (k, v) :: r, hp, hl => ⟨wft_exprCst regs rt k hp.1 hl.1, wft_exprCst regs rt v hp.2.1 hl.2.1, wft_exprCstMap regs rt r hp.2.2 hl.2.2⟩
end

/-- **`expr()` output re-parses to the same tree — on the text.** For every producible tree with
tokenizer-shaped leaves, within the nesting limit: `parse_expression(t.expr()) = Ok(t)`. -/
theorem expr_text_reparses (regs : Regs) (tb : TableOK regs) (env : LexEnv regs) (rt : RegsText regs) (t : AST)
    (hp : Producible regs t) (hl : LeafOK regs t) (hf : Fits maxDepth (exprCst regs t)) :
    parseProgram regs (expr regs t) = .ok t := by
  obtain ⟨sts, hts, hmap⟩ := relex_tokenize regs env rt (exprCst regs t) (wft_exprCst regs rt t hp hl)
  rw [expr_text regs t hp]
  exact parse_groups_as_written regs tb _ sts (exprCst regs t) hts hmap (expr_cst_canonical regs tb t hp) hf
    |>.trans (by rw [strip_exprCst regs t hp])

/-- … and rendering the re-parsed tree gives the same text (idempotence, on the text). -/
theorem expr_text_idempotent (regs : Regs) (tb : TableOK regs) (env : LexEnv regs) (rt : RegsText regs) (t t' : AST)
    (hp : Producible regs t) (hl : LeafOK regs t) (hf : Fits maxDepth (exprCst regs t))
    (h : parseProgram regs (expr regs t) = .ok t') : expr regs t' = expr regs t := by
  rw [expr_text_reparses regs tb env rt t hp hl hf] at h
  injection h with h
  rw [h]

/-- The built-in operator names satisfy the re-lexing assumptions. -/
theorem builtin_regsText : RegsText Regs.builtin where
  symChain := by
    intro c kt h hs
    rw [EE.Props.C10.builtin_isOp_iff] at h
    have hall : ∀ m ∈ EE.Tie.allOps, (match m with
        | c :: kt => !isSpecialStart c || ((List.range kt.length).all fun i => Regs.builtin.isOp (c :: kt.take (i + 1)))
        | [] => true) = true := by decide
    have := hall _ h
    simp only [hs, Bool.not_true, Bool.false_or, List.all_eq_true, List.mem_range] at this
    -- turn "every proper prefix is an operator" into the chain
    have gen : ∀ (kt cur : Text), (∀ i, i < kt.length → Regs.builtin.isOp (cur ++ kt.take (i + 1)) = true) → OpChain Regs.builtin.isOp cur kt := by
      intro kt
      induction kt with
      | nil => intro _ _; trivial
      | cons x kt ih =>
        intro cur hk
        refine ⟨by simpa using hk 0 (by simp), ih (cur ++ [x]) fun i hi => ?_⟩
        have := hk (i + 1) (by simp; omega)
        simpa [List.append_assoc] using this
    exact gen kt [c] (fun i hi => by simpa using this i hi)
  symStop := by
    intro c kt y h hs hy
    rw [EE.Props.C10.builtin_isOp_iff] at h
    cases hop : Regs.builtin.isOp (c :: kt ++ [y]) with
    | false => rfl
    | true =>
      rw [EE.Props.C10.builtin_isOp_iff] at hop
      have hall : ∀ m ∈ EE.Tie.allOps, ∀ z ∈ m, SepCh z = false ∨ m = [':'] := by decide
      rcases hall _ hop y (by simp) with h1 | h1
      · rw [hy] at h1; cases h1
      · have := congrArg List.length h1
        simp at this
  wordStart := by
    intro c kt h hs
    rw [EE.Props.C10.builtin_isOp_iff] at h
    have hall : ∀ m ∈ EE.Tie.allOps, (match m with | c :: _ => isSpecialStart c || isOtherStart c | [] => true) = true := by decide
    have := hall _ h
    simpa [hs] using this
  nonempty := by decide
  colonStop := by
    intro y
    cases hop : Regs.builtin.isOp [':', y] with
    | false => rfl
    | true =>
      rw [EE.Props.C10.builtin_isOp_iff] at hop
      have hall : ∀ m ∈ EE.Tie.allOps, (match m with | ':' :: _ :: _ => false | _ => true) = true := by decide
      have := hall _ hop
      simp at this
  postfixSymbolic := by
    intro o h
    have hmem : o ∈ Gen.postfixNames := by
      unfold Regs.isPostfix Regs.builtin at h
      simp only at h
      have : ∀ (l : List Name), (alookup o (l.map fun n => (n, HandlerId.builtinPostfix n))).isSome = true → o ∈ l := by
        intro l
        induction l with
        | nil => intro h; simp at h
        | cons x xs ih =>
          intro h
          simp only [List.map_cons, alookup_cons] at h
          by_cases e : x = o
          · simp [e]
          · simp only [e, if_false] at h; simp [ih h]
      exact this _ h
    have hall : ∀ m ∈ Gen.postfixNames, (match m with | c :: _ => isSpecialStart c | [] => false) = true := by decide
    have := hall _ hmem
    cases o with
    | nil => simp at this
    | cons c kt => exact ⟨c, kt, rfl, this⟩

/-- The round trip on the text, for the engine as shipped. -/
theorem expr_text_reparses_builtin (t : AST) (hp : Producible Regs.builtin t) (hl : LeafOK Regs.builtin t)
    (hf : Fits maxDepth (exprCst Regs.builtin t)) : parseProgram Regs.builtin (expr Regs.builtin t) = .ok t :=
  expr_text_reparses _ builtin_table_ok EE.Props.C11.builtin_lexEnv builtin_regsText t hp hl hf


/-! ## `expr()` never nests deeper than the source

`exprCst` writes the fewest parentheses the table allows, so whatever canonical expression `c` a
tree was parsed from, the rendering nests no deeper than `c`. Hence the rendering of every
*accepted* expression is itself within the nesting limit (`expr_fits_of_source`) — the `Fits`
hypothesis of `expr_text_reparses` is discharged for everything the parser returns. (Before the
repairs recorded as `fixed: property=C12 e60cef1 / 188bb2b` this was false: `(a ++) ++` and
`not (x OP y)` nested deeper than the `a ++ ++` and `x not OP y` they were parsed from.) -/

mutual
theorem canon_producible {regs : Regs} (hnot : regs.isPrefix notName = true) : ∀ c : CST, Canon regs c → Producible regs c.strip
  | .atom (.num _), _ => trivial
  | .atom (.bool _), _ => trivial
  | .atom (.str _), _ => trivial
  | .atom (.ref _), _ => trivial
  | .paren c, h => canon_producible hnot c h
  | .unary _ c, h => ⟨h.1, canon_producible hnot c h.2.2⟩
  | .postfix c _, h => ⟨h.1, canon_producible hnot c h.2.2⟩
  | .call _ args, h => canon_producibleList hnot args h
  | .list xs _, h => canon_producibleList hnot xs h.1
  | .map kvs _, h => canon_producibleMap hnot kvs h.1
  | .bin nt o l r, h => by
    have hb : Producible regs (.binary o l.strip r.strip) := ⟨h.1, canon_producible hnot l h.2.1, canon_producible hnot r h.2.2.1⟩
    cases nt with
    | false => simpa [CST.strip, wrapNot] using hb
    | true => simpa [CST.strip, wrapNot, Producible] using ⟨hnot, hb⟩
  | .tern c a b, h => ⟨canon_producible hnot c h.1, canon_producible hnot a h.2.2.1, canon_producible hnot b h.2.2.2⟩
theorem canon_producibleList {regs : Regs} (hnot : regs.isPrefix notName = true) : ∀ xs : CList, CanonList regs xs → ProducibleList regs xs.strip
  | .nil, _ => trivial
  | .cons c r, h => ⟨canon_producible hnot c h.1, canon_producibleList hnot r h.2⟩
theorem canon_producibleMap {regs : Regs} (hnot : regs.isPrefix notName = true) : ∀ xs : CMap, CanonMap regs xs → ProducibleMap regs xs.strip
  | .nil, _ => trivial
  | .cons k v r, h => ⟨canon_producible hnot k h.1, canon_producible hnot v h.2.1, canon_producibleMap hnot r h.2.2⟩
end

/-- the rendering of a tree is an operand (not an infix expression, not a conditional) iff the tree has no infix root and is no conditional -/
theorem exprCst_primary (regs : Regs) (t : AST) (h : Producible regs t) :
    (exprCst regs t).isPrimary = (match astRoot t with | some _ => false | none => !isTernary t) := by
  obtain ⟨h1, h2⟩ := exprCst_shape regs t h
  generalize exprCst regs t = c at h1 h2
  cases hr : astRoot t with
  | some o => rw [hr] at h2; cases c <;> simp_all [root?, isPrimary]
  | none =>
    rw [hr] at h2
    cases c <;> simp_all [root?, isPrimary, isTern]

theorem nest_pwrap (b : Bool) (c : CST) : (pwrap b c).nest = c.nest + (if b then 1 else 0) := by
  cases b <;> simp [pwrap, CST.nest]

theorem nest_notFlip (c : CST) : (notFlip c).nest = c.nest := by
  cases c <;> simp [notFlip, CST.nest]

theorem isPrimary_notFlip (c : CST) : (notFlip c).isPrimary = c.isPrimary := by
  cases c <;> simp [notFlip, isPrimary]

/-- the right-operand contribution to `nest` -/
def rnest (c : CST) : Nat := match c with | .bin _ _ _ _ => c.nest + 1 | _ => c.nest

theorem nest_bin (nt : Bool) (o : Name) (l r : CST) : (CST.bin nt o l r).nest = max l.nest (rnest r) := by
  cases r <;> simp only [CST.nest, rnest]

theorem rnest_le_of_primary {c : CST} (h : c.isPrimary = true) : rnest c = c.nest := by
  cases c <;> simp_all [rnest, isPrimary]

theorem rnest_le (c : CST) : rnest c ≤ c.nest + 1 := by
  cases c <;> simp [rnest]

theorem nest_le_rnest (c : CST) : c.nest ≤ rnest c := by
  cases c <;> simp [rnest]

theorem rnest_nonprimary_nontern {c : CST} (h : c.isPrimary = false) (ht : c.isTern = false) : rnest c = c.nest + 1 := by
  cases c <;> simp_all [rnest, isPrimary, isTern]


def isParen : CST → Bool
  | .paren _ => true
  | _ => false

/-- the rendering of what `c` denotes nests no deeper than `c`; strictly less deep where `c` is an
operand whose rendering is not (so that `expr()` has room for the parentheses it adds), or a
parenthesised expression -/
def MinOK (regs : Regs) (c : CST) : Prop :=
  (exprCst regs c.strip).nest ≤ c.nest ∧
  (c.isPrimary = true → ((exprCst regs c.strip).isPrimary = false ∨ isParen c = true) → (exprCst regs c.strip).nest + 1 ≤ c.nest)

theorem primary_of_not_bin_tern {c : CST} (h1 : c.root? = none) (h2 : c.isTern = false) : c.isPrimary = true :=
  primary_of_shape h1 h2

theorem needParenUnary_eq (regs : Regs) (t : AST) (h : Producible regs t) : needParenUnary regs t = !(exprCst regs t).isPrimary := by
  rw [exprCst_primary regs t h]
  unfold needParenUnary
  rw [astBp_root]
  cases astRoot t <;> simp

theorem needParenLeft_nonprimary (regs : Regs) (o : Name) (t : AST) (h : Producible regs t) (hb : needParenLeft regs o t = true) :
    (exprCst regs t).isPrimary = false := by
  rw [exprCst_primary regs t h]
  unfold needParenLeft at hb
  rw [astBp_root] at hb
  cases hr : astRoot t with
  | some _ => rfl
  | none => simpa [hr] using hb

theorem needParenRight_nonprimary (regs : Regs) (o : Name) (t : AST) (h : Producible regs t) (hb : needParenRight regs o t = true) :
    (exprCst regs t).isPrimary = false := by
  rw [exprCst_primary regs t h]
  unfold needParenRight at hb
  rw [astBp_root] at hb
  cases hr : astRoot t with
  | some _ => rfl
  | none => simpa [hr] using hb

theorem strip_bin_root (nt : Bool) (o : Name) (l r : CST) : astRoot (CST.bin nt o l r).strip = some o := by
  cases nt <;> simp [CST.strip, wrapNot, astRoot, binRoot]

theorem strip_bin_not_tern (nt : Bool) (o : Name) (l r : CST) : isTernary (CST.bin nt o l r).strip = false := by
  cases nt <;> simp [CST.strip, wrapNot, isTernary]

/-- the rendering of `bin nt o l r` -/
theorem exprCst_bin (regs : Regs) (nt : Bool) (o : Name) (l r : CST) :
    exprCst regs (CST.bin nt o l r).strip =
      .bin nt o (pwrap (needParenLeft regs o l.strip) (exprCst regs l.strip)) (pwrap (needParenRight regs o r.strip) (exprCst regs r.strip)) := by
  cases nt <;> simp [CST.strip, wrapNot, exprCst, isBinary, notFlip]

mutual
theorem minimal {regs : Regs} (tb : TableOK regs) (hnot : regs.isPrefix notName = true) : ∀ c : CST, Canon regs c → MinOK regs c
  | .atom a, _ => by
    cases a <;> exact ⟨Nat.le_refl _, fun _ h => by rcases h with h | h <;> simp [CST.strip, Atom.ast, exprCst, isPrimary, isParen] at h⟩
  | .paren c, h => by
    have ih := (minimal tb hnot c h).1
    simp only [MinOK, CST.strip, CST.nest] at ih ⊢
    exact ⟨by omega, fun _ _ => by omega⟩
  | .unary o c, h => by
    obtain ⟨hpre, hprim, hc⟩ := h
    have ih := minimal tb hnot c hc
    have hp := canon_producible hnot c hc
    simp only [MinOK, CST.strip, CST.nest] at ih ⊢
    by_cases hnf : o = notName ∧ isBinary c.strip = true
    · have hnp : (exprCst regs c.strip).isPrimary = false := by
        rw [exprCst_primary regs _ hp]
        cases hs : c.strip <;> simp [hs, isBinary] at hnf
        simp [astRoot]
      have := ih.2 hprim (Or.inl hnp)
      simp only [exprCst, hnf, and_self, if_true, nest_notFlip]
      exact ⟨by omega, fun _ _ => by omega⟩
    · simp only [exprCst, hnf, if_false, CST.nest, nest_pwrap, isPrimary]
      refine ⟨?_, fun _ h => by rcases h with h | h <;> simp [isParen] at h⟩
      rw [needParenUnary_eq regs _ hp]
      cases hpr : (exprCst regs c.strip).isPrimary with
      | true => simp; exact ih.1
      | false => simp; exact ih.2 hprim (Or.inl hpr)
  | .postfix c o, h => by
    obtain ⟨hpost, hpf, hc⟩ := h
    have ih := minimal tb hnot c hc
    simp only [MinOK, CST.strip, CST.nest, exprCst, nest_pwrap, isPrimary] at ih ⊢
    refine ⟨?_, fun _ h => by rcases h with h | h <;> simp [isParen] at h⟩
    cases hb : needParenPostfix c.strip with
    | false => simpa using ih.1
    | true =>
      simp only [if_true]
      cases c with
      | paren c3 => exact ih.2 rfl (Or.inr rfl)
      | atom a => cases a <;> simp [CST.strip, Atom.ast, needParenPostfix] at hb
      | _ => simp [CST.strip, needParenPostfix, postfixable] at hb hpf
  | .call n args, h => by
    have ih := minimalList tb hnot args h
    simp only [MinOK, CST.strip, exprCst, CST.nest, isPrimary]
    exact ⟨ih, fun _ h => by rcases h with h | h <;> simp [isParen] at h⟩
  | .list xs _, h => by
    have ih := minimalList tb hnot xs h.1
    simp only [MinOK, CST.strip, exprCst, CST.nest, isPrimary]
    exact ⟨ih, fun _ h => by rcases h with h | h <;> simp [isParen] at h⟩
  | .map kvs _, h => by
    have ih := minimalMap tb hnot kvs h.1
    simp only [MinOK, CST.strip, exprCst, CST.nest, isPrimary]
    exact ⟨ih, fun _ h => by rcases h with h | h <;> simp [isParen] at h⟩
  | .tern cc a b, h => by
    obtain ⟨hcc, hct, hca, hcb⟩ := h
    have ihc := minimal tb hnot cc hcc
    have iha := (minimal tb hnot a hca).1
    have ihb := (minimal tb hnot b hcb).1
    have hpc := canon_producible hnot cc hcc
    simp only [MinOK, CST.strip, exprCst, CST.nest, nest_pwrap, isPrimary] at ihc iha ihb ⊢
    refine ⟨?_, fun h _ => by simp at h⟩
    have hcond : (exprCst regs cc.strip).nest + (if isTernary cc.strip = true then 1 else 0) ≤ cc.nest := by
      cases hb : isTernary cc.strip with
      | false => simpa using ihc.1
      | true =>
        simp only [if_true]
        have hroot : cc.root? = none := by
          cases cc with
          | bin nt o l r => rw [strip_bin_not_tern] at hb; cases hb
          | _ => rfl
        have hnp : (exprCst regs cc.strip).isPrimary = false := by
          rw [exprCst_primary regs _ hpc]
          cases hr : astRoot cc.strip with
          | some o => exact absurd hb (by rw [astRoot_not_tern hr]; decide)
          | none => simp [hb]
        exact ihc.2 (primary_of_shape hroot hct) (Or.inl hnp)
    omega
  | .bin nt o l r, h => by
    obtain ⟨hinf, hl, hr, hlt, hrt, hL, hR⟩ := h
    have ihl := minimal tb hnot l hl
    have ihr := minimal tb hnot r hr
    have hpl := canon_producible hnot l hl
    have hpr := canon_producible hnot r hr
    have bo := bp_facts tb hinf
    have so := bp_snd hinf
    unfold MinOK at ihl ihr ⊢
    rw [exprCst_bin, nest_bin, nest_bin]
    refine ⟨?_, fun h _ => by simp [isPrimary] at h⟩
    -- left operand
    have hleft : (pwrap (needParenLeft regs o l.strip) (exprCst regs l.strip)).nest ≤ l.nest := by
      rw [nest_pwrap]
      cases hb : needParenLeft regs o l.strip with
      | false => simpa using ihl.1
      | true =>
        simp only [if_true]
        have hroot : l.root? = none := by
          cases hlr : l.root? with
          | none => rfl
          | some o' =>
            exfalso
            have hk := hL o' hlr
            have hio := root_infix hl hlr
            have bl := bp_facts tb hio
            have sl := bp_snd hio
            cases l with
            | bin nt' o'' l2 r2 =>
              simp only [root?, Option.some.injEq] at hlr; subst hlr
              unfold needParenLeft at hb
              rw [astBp_root, strip_bin_root] at hb
              simp only [Option.map_some, decide_eq_true_eq] at hb
              unfold okLeft at hk
              rcases hk with h1 | ⟨h1, h2⟩
              · omega
              · have := tb.assoc o'' o hio hinf h1
                rw [h2] at this
                rw [this] at sl; simp only [Bool.false_eq_true, if_false] at sl
                omega
            | _ => simp [root?] at hlr
        exact ihl.2 (primary_of_shape hroot hlt) (Or.inl (needParenLeft_nonprimary regs o _ hpl hb))
    -- right operand
    have hright : rnest (pwrap (needParenRight regs o r.strip) (exprCst regs r.strip)) ≤ rnest r := by
      cases hb : needParenRight regs o r.strip with
      | true =>
        have hroot : r.root? = none := by
          cases hrr : r.root? with
          | none => rfl
          | some o' =>
            exfalso
            have hk := hR o' hrr
            have hio := root_infix hr hrr
            have br := bp_facts tb hio
            cases r with
            | bin nt' o'' l2 r2 =>
              simp only [root?, Option.some.injEq] at hrr; subst hrr
              unfold needParenRight at hb
              rw [astBp_root, strip_bin_root] at hb
              simp only [Option.map_some, decide_eq_true_eq] at hb
              unfold okRight at hk
              rcases hk with h1 | ⟨h1, h2⟩
              · omega
              · rw [h2] at so; simp only [if_true] at so; omega
            | _ => simp [root?] at hrr
        have hprim := primary_of_shape hroot hrt
        have := ihr.2 hprim (Or.inl (needParenRight_nonprimary regs o _ hpr hb))
        have e1 : rnest (CST.paren (exprCst regs r.strip)) = (exprCst regs r.strip).nest + 1 := rfl
        simp only [pwrap, if_true]
        rw [e1, rnest_le_of_primary hprim]
        exact this
      | false =>
        simp only [pwrap, Bool.false_eq_true, if_false]
        cases hpe : (exprCst regs r.strip).isPrimary with
        | true =>
          rw [rnest_le_of_primary hpe]
          exact Nat.le_trans ihr.1 (nest_le_rnest r)
        | false =>
          have hnt : (exprCst regs r.strip).isTern = false := by
            rw [(exprCst_shape regs _ hpr).1]
            unfold needParenRight at hb
            rw [astBp_root] at hb
            cases hrt' : astRoot r.strip with
            | some o' => exact astRoot_not_tern hrt'
            | none => simpa [hrt'] using hb
          rw [rnest_nonprimary_nontern hpe hnt]
          cases hrr : r.root? with
          | some o' =>
            cases r with
            | bin nt' o'' l2 r2 => simp only [rnest]; have := ihr.1; omega
            | _ => simp [root?] at hrr
          | none =>
            have hprim := primary_of_shape hrr hrt
            rw [rnest_le_of_primary hprim]
            exact ihr.2 hprim (Or.inl hpe)
    omega
theorem minimalList {regs : Regs} (tb : TableOK regs) (hnot : regs.isPrefix notName = true) : ∀ xs : CList, CanonList regs xs →
    (exprCstList regs xs.strip).nest ≤ xs.nest
  | .nil, _ => Nat.le_refl _
  | .cons c r, h => by
    have h1 := (minimal tb hnot c h.1).1
    have h2 := minimalList tb hnot r h.2
    simp only [CList.strip, exprCstList, CList.nest]
    omega
theorem minimalMap {regs : Regs} (tb : TableOK regs) (hnot : regs.isPrefix notName = true) : ∀ xs : CMap, CanonMap regs xs →
    (exprCstMap regs xs.strip).nest ≤ xs.nest
  | .nil, _ => Nat.le_refl _
  | .cons k v r, h => by
    have h1 := (minimal tb hnot k h.1).1
    have h2 := (minimal tb hnot v h.2.1).1
    have h3 := minimalMap tb hnot r h.2.2
    simp only [CMap.strip, exprCstMap, CMap.nest]
    omega
end


/-- **The rendering of a canonically written source fits wherever the source fits.** -/
theorem expr_fits_of_source (regs : Regs) (tb : TableOK regs) (hnot : regs.isPrefix notName = true) (lim : Nat) (c : CST)
    (hc : Canon regs c) (hf : Fits lim c) : Fits lim (exprCst regs c.strip) := by
  have hm := (minimal tb hnot c hc).1
  have hs := strip_exprCst regs c.strip (canon_producible hnot c hc)
  exact ⟨by have := hf.1; omega, by rw [hs]; exact hf.2⟩

/-- **End to end, on the text**: write any expression canonically (`Canon`, C02) within the nesting
limit; let `t` be the tree `parse_expression` returns for it (`groups_as_written`); then
`parse_expression(t.expr())` returns `t` again, and `expr()` of that is the same text — provided the
leaves are as the tokenizer produces them (`LeafOK`: in particular names that are not operator
words). No `Fits` hypothesis on the rendering: `expr()` never nests deeper than the source. -/
theorem source_roundtrip (regs : Regs) (tb : TableOK regs) (env : LexEnv regs) (rt : RegsText regs)
    (hnot : regs.isPrefix notName = true) (c : CST) (hc : Canon regs c) (hf : Fits maxDepth c) (hl : LeafOK regs c.strip) :
    parseTokens regs maxDepth c.flatten = .ok c.strip ∧
    parseProgram regs (expr regs c.strip) = .ok c.strip := by
  refine ⟨groups_as_written regs tb maxDepth c hc hf, ?_⟩
  exact expr_text_reparses regs tb env rt c.strip (canon_producible hnot c hc) hl (expr_fits_of_source regs tb hnot maxDepth c hc hf)

/-- … for everything the parser accepts as one expression, given that its canonical reading nests
within the limit in the sense of `Fits`. (`nest` is a *sufficient* measure of the parser's recursion
depth, not an exact one: it charges the whole right operand of an infix operator one level although
only the operand's own operator loop runs one level deeper — `a + ((x)) * b` is accepted one level
beyond its `nest`. So acceptance alone does not give `Fits`; sources written within the limit do.) -/
theorem accepted_roundtrip (regs : Regs) (tb : TableOK regs) (env : LexEnv regs) (rt : RegsText regs)
    (hnot : regs.isPrefix notName = true) (toks : List Tok) (a : AST)
    (h : parseTokens regs maxDepth toks = .ok a) (hns : ∀ es, a ≠ .stmt es) (hl : LeafOK regs a)
    (hfit : ∀ c, Canon regs c → c.strip = a → (toks = c.flatten ∨ toks = c.flatten ++ [.semi]) → Fits maxDepth c) :
    parseProgram regs (expr regs a) = .ok a := by
  obtain ⟨c, hc, hfl, rfl⟩ := accepted_expression_reading regs tb maxDepth (by decide) toks a h hns
  exact (source_roundtrip regs tb env rt hnot c hc (hfit c hc rfl hfl) hl).2

/-! ## the leaves of every parser result are tokenizer-shaped -/

/-- what the tokenizer guarantees about a token that becomes a leaf -/
def TokLeafOK (regs : Regs) : Tok → Prop
  | .num d => d.neg = false ∧ d.WF
  | .str s => ¬ ('"' ∈ s ∧ '\'' ∈ s)
  | .ref n => NameShape regs n
  | .func n => NameShape regs n
  | _ => True

theorem ofText_leaf {cs : Text} {d : Dec} (h : Dec.ofText cs = .ok d) : d.neg = false ∧ d.WF := by
  unfold Dec.ofText at h
  simp only at h
  split at h
  · cases h
  · split at h
    · cases h
    · split at h
      · cases h
      · split at h
        · rename_i hc
          simp only [Res.ok.injEq] at h
          subst h
          exact ⟨rfl, hc.2, hc.1⟩
        · cases h

theorem lexOne_leaf (regs : Regs) (c : Char) (cs : Text) (s : Nat) (t : SpTok) (rest : Text) (hws : isWs c = false)
    (h : lexOne regs c cs s = .ok (t, rest)) (hn : NameOK regs t.tok) : TokLeafOK regs t.tok := by
  unfold lexOne at h
  split at h
  · simp only [Res.ok.injEq, Prod.mk.injEq] at h; rw [← h.1]; trivial
  · rename_i hsp
    split at h
    · simp only [Res.ok.injEq, Prod.mk.injEq] at h; rw [← h.1]; trivial
    · rename_i hdl
      split at h
      · -- number
        unfold lexNumber at h
        split at h <;> try (cases h; done)
        rename_i d hd
        simp only [Res.ok.injEq, Prod.mk.injEq] at h
        rw [← h.1]
        exact ofText_leaf hd
      · rename_i hdig
        split at h
        · -- string
          rename_i hq
          unfold lexString at h
          split at h
          · cases h
          · rename_i payload r hs
            simp only [Res.ok.injEq, Prod.mk.injEq] at h
            rw [← h.1]
            obtain ⟨_, h2⟩ := scanString_spec c cs payload r hs
            rcases quote_cases hq with rfl | rfl
            · exact fun hb => h2 hb.1
            · exact fun hb => h2 hb.2
        · rename_i hq
          split at h
          · simp only [Res.ok.injEq, Prod.mk.injEq] at h; rw [← h.1]; trivial
          · rename_i hsemi
            split at h
            · simp only [Res.ok.injEq, Prod.mk.injEq] at h; rw [← h.1]; trivial
            · rename_i hcomma
              simp only [Res.ok.injEq] at h
              unfold lexOther at h
              split at h
              · simp only [Prod.mk.injEq] at h; rw [← h.1]; trivial
              · simp only [Prod.mk.injEq] at h
                have htok : t.tok = classifyAtom (c :: (span isParamCh cs).1) (span isParamCh cs).2 := by rw [← h.1]
                have hos : isOtherStart c = true := by
                  simp only [isOtherStart, Bool.and_eq_true, Bool.not_eq_true', Option.isNone_iff_eq_none, bne_iff_ne, ne_eq]
                  exact ⟨⟨⟨⟨⟨⟨by simpa using hsp, hdl⟩, by simpa using hdig⟩, by simpa using hq⟩, by simpa using hsemi⟩, by simpa using hcomma⟩, hws⟩
                have hkt := span_all isParamCh cs
                rw [htok] at hn ⊢
                unfold classifyAtom at hn ⊢
                split
                · trivial
                · rename_i hb1
                  split
                  · trivial
                  · rename_i hb2
                    have hbw : isBoolWord (c :: (span isParamCh cs).1) = false := by
                      simp only [isBoolWord, Bool.or_eq_false_iff]
                      simp only [Bool.or_eq_true, not_or, Bool.not_eq_true] at hb1 hb2
                      exact ⟨⟨⟨hb1.1, hb1.2⟩, hb2.1⟩, hb2.2⟩
                    simp only [hb1, hb2, Bool.false_eq_true, if_false] at hn
                    split
                  -- func / ref
                    · rename_i hop
                      simp only [hop, if_true, NameOK] at hn
                      exact ⟨c, _, rfl, hos, hkt, hn, hbw⟩
                    · rename_i hop
                      simp only [hop, Bool.false_eq_true, if_false, NameOK] at hn
                      exact ⟨c, _, rfl, hos, hkt, hn, hbw⟩

theorem lexAll_leaf (regs : Regs) : ∀ (fuel : Nat) (cs : Text) (pos : Nat) (toks : List SpTok), lexAll regs fuel cs pos = .ok toks →
    (∀ t ∈ toks, NameOK regs t.tok) → ∀ t ∈ toks, TokLeafOK regs t.tok
  | 0, cs, pos, toks, h, _ => by rw [lexAll_zero] at h; cases h
  | fuel + 1, cs, pos, toks, h, hn => by
    rw [lexAll_succ] at h
    cases hrest : (span isWs cs).2 with
    | nil => rw [hrest] at h; simp only [Res.ok.injEq] at h; subst h; intro t ht; cases ht
    | cons c cs' =>
      rw [hrest] at h
      simp only at h
      have hcws : isWs c = false := span_stop isWs cs c cs' hrest
      cases hl : lexOne regs c cs' (pos + utf8Len (span isWs cs).1) with
      | ok p =>
        obtain ⟨t0, rest⟩ := p
        rw [hl] at h
        simp only [Res.bind_ok] at h
        cases hr : lexAll regs fuel rest t0.stop with
        | ok ts =>
          rw [hr] at h; simp only [Res.bind_ok, Res.ok.injEq] at h; subst h
          intro t ht
          simp only [List.mem_cons] at ht
          rcases ht with rfl | ht
          · exact lexOne_leaf regs c cs' _ t rest hcws hl (hn t (by simp))
          · exact lexAll_leaf regs fuel rest t0.stop ts hr (fun x hx => hn x (by simp [hx])) t ht
        | err e => rw [hr] at h; simp at h
        | panic => rw [hr] at h; simp at h
        | deadlock => rw [hr] at h; simp at h
        | hang => rw [hr] at h; simp at h
        | unmodelled => rw [hr] at h; simp at h
      | err e => rw [hl] at h; simp at h
      | panic => rw [hl] at h; simp at h
      | deadlock => rw [hl] at h; simp at h
      | hang => rw [hl] at h; simp at h
      | unmodelled => rw [hl] at h; simp at h

mutual
theorem gtok_leaf {regs : Regs} : ∀ {ts : List Tok} {e : AST}, GTok regs ts e → (∀ t ∈ ts, TokLeafOK regs t) → LeafOK regs e
  | _, _, .num d, h => h (.num d) (by simp)
  | _, _, .bool _, _ => trivial
  | _, _, .str s, h => h (.str s) (by simp)
  | _, _, .ref n, h => h (.ref n) (by simp)
  | _, _, .call0 n, h => ⟨h (.func n) (by simp), trivial⟩
  | _, _, .call (n := n) hg, h => ⟨h (.func n) (by simp), gargs_leaf hg (fun t ht => h t (by simp [ht]))⟩
  | _, _, .unary _ hg, h => by simp only [LeafOK]; exact gprim_leaf hg (fun t ht => h t (by simp [ht]))
  | _, _, .paren hg, h => gexpr_leaf hg (fun t ht => h t (by simp [ht]))
  | _, _, .list hg, h => gitems_leaf hg (fun t ht => h t (by simp [ht]))
  | _, _, .map hg, h => gentries_leaf hg (fun t ht => h t (by simp [ht]))
theorem gprim_leaf {regs : Regs} : ∀ {ts : List Tok} {e : AST}, GPrim regs ts e → (∀ t ∈ ts, TokLeafOK regs t) → LeafOK regs e
  | _, _, .tok hg, h => gtok_leaf hg h
  | _, _, .postfix hg _, h => by simp only [LeafOK]; exact gprim_leaf hg (fun t ht => h t (by simp [ht]))
theorem gbin_leaf {regs : Regs} : ∀ {ts : List Tok} {e : AST}, GBin regs ts e → (∀ t ∈ ts, TokLeafOK regs t) → LeafOK regs e
  | _, _, .prim hg, h => gprim_leaf hg h
  | _, _, .bin hl _ hr, h => ⟨gbin_leaf hl (fun t ht => h t (by simp [ht])), gbin_leaf hr (fun t ht => h t (by simp [ht]))⟩
  | _, _, .notBin hl _ hr, h => by
    simp only [LeafOK]
    exact ⟨gbin_leaf hl (fun t ht => h t (by simp [ht])), gbin_leaf hr (fun t ht => h t (by simp [ht]))⟩
theorem gexpr_leaf {regs : Regs} : ∀ {ts : List Tok} {e : AST}, GExpr regs ts e → (∀ t ∈ ts, TokLeafOK regs t) → LeafOK regs e
  | _, _, .bin hg, h => gbin_leaf hg h
  | _, _, .tern hc ha hb, h =>
    ⟨gbin_leaf hc (fun t ht => h t (by simp [ht])), gexpr_leaf ha (fun t ht => h t (by simp [ht])), gexpr_leaf hb (fun t ht => h t (by simp [ht]))⟩
theorem gargs_leaf {regs : Regs} : ∀ {ts : List Tok} {es : List AST}, GArgs regs ts es → (∀ t ∈ ts, TokLeafOK regs t) → LeafOKList regs es
  | _, _, .one hg, h => ⟨gexpr_leaf hg h, trivial⟩
  | _, _, .cons hg hr, h => ⟨gexpr_leaf hg (fun t ht => h t (by simp [ht])), gargs_leaf hr (fun t ht => h t (by simp [ht]))⟩
theorem gitems_leaf {regs : Regs} : ∀ {ts : List Tok} {es : List AST}, GItems regs ts es → (∀ t ∈ ts, TokLeafOK regs t) → LeafOKList regs es
  | _, _, .nil, _ => trivial
  | _, _, .one hg, h => ⟨gexpr_leaf hg h, trivial⟩
  | _, _, .cons hg hr, h => ⟨gexpr_leaf hg (fun t ht => h t (by simp [ht])), gitems_leaf hr (fun t ht => h t (by simp [ht]))⟩
theorem gentries_leaf {regs : Regs} : ∀ {ts : List Tok} {es : List (AST × AST)}, GEntries regs ts es → (∀ t ∈ ts, TokLeafOK regs t) → LeafOKMap regs es
  | _, _, .nil, _ => trivial
  | _, _, .one hk hv, h => ⟨gexpr_leaf hk (fun t ht => h t (by simp [ht])), gexpr_leaf hv (fun t ht => h t (by simp [ht])), trivial⟩
  | _, _, .cons hk hv hr, h =>
    ⟨gexpr_leaf hk (fun t ht => h t (by simp [ht])), gexpr_leaf hv (fun t ht => h t (by simp [ht])), gentries_leaf hr (fun t ht => h t (by simp [ht]))⟩
end

/-- **Every expression `parse_expression` returns has tokenizer-shaped leaves**, provided its names
are not operator words. -/
theorem parsed_leaves (regs : Regs) (hp : RegsPos regs) (s : Text) (sts : List SpTok) (a : AST)
    (ht : tokenize regs s = .ok sts) (hn : ∀ t ∈ sts, NameOK regs t.tok)
    (h : parseTokens regs maxDepth (sts.map (·.tok)) = .ok a) (hns : ∀ es, a ≠ .stmt es) : LeafOK regs a := by
  have hleaf : ∀ t ∈ sts.map (·.tok), TokLeafOK regs t := by
    intro t ht'
    simp only [List.mem_map] at ht'
    obtain ⟨st, hst, rfl⟩ := ht'
    exact lexAll_leaf regs _ s 0 sts ht hn st hst
  generalize sts.map (·.tok) = toks at h hleaf
  obtain ⟨es, hg, rfl⟩ := EE.Props.C05.parse_sound regs hp maxDepth (by decide) toks a h
  match es, hg with
  | [], _ => exact absurd rfl (hns [])
  | _ :: _ :: _, _ => exact absurd rfl (hns _)
  | [e], .stmt he hr => cases hr; exact gexpr_leaf he (fun t ht' => hleaf t (by simp [ht']))
  | [e], .stmtSemi he hr => cases hr; exact gexpr_leaf he (fun t ht' => hleaf t (by simp [ht']))

/-- **From source text to source text**: any text whose tokens are those of a canonically written
expression within the nesting limit, with names that are not operator words: `parse_expression`
returns a tree `t`, and `parse_expression(t.expr())` returns `t` again. Nothing is assumed about
the rendering or about the leaves — both follow from the source. -/
theorem text_roundtrip (regs : Regs) (tb : TableOK regs) (env : LexEnv regs) (rt : RegsText regs)
    (hnot : regs.isPrefix notName = true) (s : Text) (sts : List SpTok) (c : CST)
    (ht : tokenize regs s = .ok sts) (hn : ∀ t ∈ sts, NameOK regs t.tok) (hfl : sts.map (·.tok) = c.flatten)
    (hc : Canon regs c) (hf : Fits maxDepth c) :
    parseProgram regs s = .ok c.strip ∧ parseProgram regs (expr regs c.strip) = .ok c.strip := by
  have hparse : parseTokens regs maxDepth (sts.map (·.tok)) = .ok c.strip := by
    rw [hfl]; exact groups_as_written regs tb maxDepth c hc hf
  have hns : ∀ es, c.strip ≠ .stmt es := by
    intro es e
    have := canon_producible hnot c hc
    rw [e] at this
    exact this
  have hl := parsed_leaves regs tb.pos s sts c.strip ht hn hparse hns
  refine ⟨?_, (source_roundtrip regs tb env rt hnot c hc hf hl).2⟩
  unfold parseProgram
  rw [ht]; exact hparse

/-! ## non-vacuity: a tree with every kind of leaf, through the theorem -/

def exampleTree : AST :=
  .ternary (.binary ['<'] (.ref ['x', '1']) (.unary ['-'] (.postfix (.postfix (.lit (.num ⟨false, 25, 1⟩)) ['+', '+']) ['-', '-'])))
    (.call ['f'] [.lit (.str ['i', 't', '\'', 's']), .list [.lit (.bool true)]])
    (.map [(.lit (.str ['k']), .binary ['='] (.ref ['y']) (.unary notName (.binary ['i', 'n'] (.ref ['z']) (.list [.lit (.num ⟨false, 0, 0⟩)]))))])

theorem example_producible : Producible Regs.builtin exampleTree := by
  simp only [exampleTree, Producible, ProducibleList, ProducibleMap, and_true, true_and]
  decide

theorem example_leaves : LeafOK Regs.builtin exampleTree := by
  have hn : ∀ n : Name, n ∈ [['x', '1'], ['f'], ['y'], ['z']] → NameShape Regs.builtin n := by
    intro n hn
    simp only [List.mem_cons, List.not_mem_nil, or_false] at hn
    rcases hn with rfl | rfl | rfl | rfl <;> exact ⟨_, _, rfl, by decide, by decide, by decide, by decide⟩
  simp only [exampleTree, LeafOK, LeafOKList, LeafOKMap, and_true, true_and]
  refine ⟨⟨hn _ (by simp), by decide, by decide⟩, ⟨hn _ (by simp), by decide⟩, by decide, hn _ (by simp), hn _ (by simp), by decide, by decide⟩

theorem example_fits : Fits maxDepth (exprCst Regs.builtin exampleTree) := by unfold Fits; decide

/-- `x1 < - 2.5 ++ -- ? f('it's',[true]) : {"k":y = z not in [0]}` re-parses to the tree it was printed from. -/
theorem example_roundtrip : parseProgram Regs.builtin (expr Regs.builtin exampleTree) = .ok exampleTree :=
  expr_text_reparses_builtin exampleTree example_producible example_leaves example_fits

end EE.Props.C12
