import EE.Lemmas.Triple
import EE.Lemmas.Tie
import EE.Model.Program
import EE.Props.C02
/-! # C08 — names and operators dispatch to the handler and binding last registered

Registries are association lists with the most recent registration first (`HashMap::insert`
replaces: looking a name up returns the last value inserted for it). A registration history is a
list of `(name, value)` insertions applied in order. -/
namespace EE.Props.C08
open EE EngineM

variable {σ : Type}

/-- Apply a history of insertions (oldest first) to a registry table. -/
def replay {β : Type} (base : List (Name × β)) (hist : List (Name × β)) : List (Name × β) :=
  hist.foldl (fun acc e => e :: acc) base

theorem replay_append {β : Type} (base : List (Name × β)) (h1 h2 : List (Name × β)) :
    replay base (h1 ++ h2) = replay (replay base h1) h2 := by
  simp [replay, List.foldl_append]

/-- **Last registration wins**, for any history: looking `n` up after a history returns the value
of the last insertion for `n` in the history, and what the table had before when there is none
(in particular a built-in, unless overridden — before or after first use makes no difference). -/
theorem getLast?_cons_of {α : Type} (a : α) (l : List α) :
    (a :: l).getLast? = match l.getLast? with | some x => some x | none => some a := by
  cases l with
  | nil => rfl
  | cons b t =>
    rw [List.getLast?_cons_cons]
    cases h : (b :: t).getLast? with
    | none => simp at h
    | some x => rfl

theorem last_wins {β : Type} (base : List (Name × β)) (hist : List (Name × β)) (n : Name) :
    alookup n (replay base hist) =
      match (hist.filter (fun e => e.1 = n)).getLast? with
      | some e => some e.2
      | none => alookup n base := by
  induction hist generalizing base with
  | nil => simp [replay]
  | cons e hist ih =>
    obtain ⟨k, v⟩ := e
    have hr : replay base ((k, v) :: hist) = replay ((k, v) :: base) hist := rfl
    rw [hr, ih ((k, v) :: base)]
    by_cases he : k = n
    · simp only [List.filter_cons, he, decide_true, if_true, getLast?_cons_of]
      cases (List.filter (fun e => decide (e.1 = n)) hist).getLast? with
      | none => simp [alookup_cons, he]
      | some x => rfl
    · simp only [List.filter_cons, he, decide_false, Bool.false_eq_true, if_false]
      cases (List.filter (fun e => decide (e.1 = n)) hist).getLast? with
      | none => simp [alookup_cons, he]
      | some x => rfl

/-- A user registration made after initialisation is found, whatever the built-in table holds:
an override of a built-in survives. -/
theorem override_builtin (n : Name) (h : HandlerId) : alookup n (Regs.builtin.regFn n h).fns = some h := by
  simp [Regs.regFn, alookup_cons]

theorem reregistration (r : Regs) (n : Name) (h h' : HandlerId) :
    alookup n ((r.regFn n h).regFn n h').fns = some h' ∧
    alookup n ((r.regPrefix n h).regPrefix n h').pre = some h' ∧
    alookup n ((r.regPostfix n h).regPostfix n h').post = some h' := by
  simp [Regs.regFn, Regs.regPrefix, Regs.regPostfix, alookup_cons]

/-- Registering one name leaves every other name's binding unchanged. -/
theorem other_names_unchanged (r : Regs) (n m : Name) (h : HandlerId) (hne : n ≠ m) :
    alookup m (r.regFn n h).fns = alookup m r.fns := by
  simp [Regs.regFn, alookup_cons, hne]

/-- A registered infix operator is immediately an operator for the tokenizer and the parser, with
exactly the precedence and associativity it was registered with. -/
theorem registered_infix_visible (r : Regs) (n : Name) (c : InfixCfg) :
    (r.regInfix n c).isOp n = true ∧ (r.regInfix n c).isInfix n = true ∧
    (r.regInfix n c).bp n = (2 * c.prec, if c.right then 2 * c.prec - 1 else 2 * c.prec + 1) := by
  simp [Regs.regInfix, Regs.isOp, Regs.isInfix, Regs.bp, alookup_cons]

/-- **Binding powers decide exactly by precedence, then associativity** — for all positive
precedences, adjacent ones included, with no overflow (binding powers are computed in 64 bits;
here unbounded integers, and `|2p ± 1| < 2^63` for every 32-bit `p`).
An operator `o'` continues the right operand of `o` iff `rbp o < lbp o'`. -/
theorem bp_sound (p p' : Int) (right : Bool) (hp : 0 < p) (hp' : 0 < p') :
    let rbp := if right then 2 * p - 1 else 2 * p + 1
    (rbp < 2 * p' ↔ (p < p' ∨ (p = p' ∧ right = true))) := by
  cases right <;> simp <;> omega

theorem bp_fits_i64 (p : Int) (h : -2147483648 ≤ p ∧ p ≤ 2147483647) :
    -9223372036854775808 ≤ 2 * p - 1 ∧ 2 * p + 1 ≤ 9223372036854775807 := by omega

/-- The left and right binding powers of two operators never coincide (so the strict comparison
in the recursion gate and the non-strict one in the loop agree). -/
theorem lbp_ne_rbp (p p' : Int) (right : Bool) : 2 * p' ≠ (if right then 2 * p - 1 else 2 * p + 1) := by
  cases right <;> simp <;> omega

/-! ## Call dispatch: context function, else global function, else error -/

theorem call_dispatch_ctx (inv : Inv σ) (f : Name) (args : List AST) (w w1 : World σ) (vs : List Value) (h : HandlerId)
    (hargs : execList inv args w = (.ok vs, w1)) (hc : w1.Clean) (hf : alookup f w1.ctx = some (.fn h)) :
    exec inv (.call f args) w = invoke inv h vs w1 := by
  have hgf : ctxGetFunc f w1 = (.ok (some h), w1) := by
    simp only [ctxGetFunc, bind'_ok (ctxGet_clean hc), hf]; rfl
  simp only [exec, bind'_ok hargs, bind'_ok hgf]

theorem call_dispatch_global (inv : Inv σ) (f : Name) (args : List AST) (w w1 : World σ) (vs : List Value) (h : HandlerId)
    (hargs : execList inv args w = (.ok vs, w1)) (hc : w1.Clean)
    (hf : ∀ h', alookup f w1.ctx ≠ some (.fn h')) (hg : alookup f w1.regs.fns = some h) :
    exec inv (.call f args) w = invoke inv h vs w1 := by
  have hgf : ctxGetFunc f w1 = (.ok none, w1) := by
    simp only [ctxGetFunc, bind'_ok (ctxGet_clean hc)]
    cases hl : alookup f w1.ctx with
    | none => rfl
    | some cv => cases cv with
      | var v => rfl
      | fn h' => exact absurd hl (hf h')
  simp only [exec, bind'_ok hargs, bind'_ok hgf, bind'_ok (lookupE_some hc hg)]

theorem call_dispatch_none (inv : Inv σ) (f : Name) (args : List AST) (w w1 : World σ) (vs : List Value)
    (hargs : execList inv args w = (.ok vs, w1)) (hc : w1.Clean)
    (hf : ∀ h', alookup f w1.ctx ≠ some (.fn h')) (hg : alookup f w1.regs.fns = none) :
    exec inv (.call f args) w = (.err .innerFunctionNotRegistered, w1) := by
  have hgf : ctxGetFunc f w1 = (.ok none, w1) := by
    simp only [ctxGetFunc, bind'_ok (ctxGet_clean hc)]
    cases hl : alookup f w1.ctx with
    | none => rfl
    | some cv => cases cv with
      | var v => rfl
      | fn h' => exact absurd hl (hf h')
  simp only [exec, bind'_ok hargs, bind'_ok hgf, bind'_err (lookupE_none hc hg)]

/-- Operators dispatch to the handler currently registered under their name. -/
theorem unary_dispatch (inv : Inv σ) (op : Name) (rhs : AST) (w w1 : World σ) (v : Value) (h : HandlerId)
    (hc : w.Clean) (hreg : alookup op w.regs.pre = some h) (hr : exec inv rhs w = (.ok v, w1)) :
    exec inv (.unary op rhs) w = invoke inv h [v] w1 := by
  simp only [exec, bind'_ok (lookupE_some hc hreg), bind'_ok hr]

/-- Tie: every public entry point that can reach a registry initialises first (so lazily
registered built-ins can never overwrite a user registration). -/
theorem entries_init_first : ∀ e ∈ Gen.entryPoints, e.2.2 = true → e.2.1 = true := EE.Tie.entries_init_first

/-! Non-vacuity: adjacent precedences 110 / 111. -/
example : (let rbp : Int := 2 * 110 + 1; rbp < 2 * 111) := by decide
example : alookup ['g'] (replay ([] : List (Name × Nat)) [(['g'], 1), (['h'], 5), (['g'], 2)]) = some 2 := by decide

/-! ### the driver's compaction of the registries is invisible to look-ups -/

theorem alookup_filter_ne {β : Type} (k n : Name) (hk : k ≠ n) : ∀ l : List (Name × β),
    alookup k (l.filter (fun y => y.1 != n)) = alookup k l
  | [] => rfl
  | (k', v) :: r => by
    by_cases h : k' = n
    · subst h
      have hne : ¬ k' = k := fun e => hk e.symm
      simp [List.filter, alookup_cons, hne, alookup_filter_ne k k' hk r]
    · have : ((k', v).1 != n) = true := by simpa using h
      simp only [List.filter, this, alookup_cons, alookup_filter_ne k n hk r]

theorem alookup_dropOlder {β : Type} (k : Name) : ∀ l : List (Name × β), alookup k (Regs.dropOlder l) = alookup k l
  | [] => rfl
  | (k', v) :: r => by
    simp only [Regs.dropOlder, alookup_cons]
    by_cases h : k' = k
    · simp [h]
    · simp only [h, if_false]
      exact alookup_filter_ne k k' (fun e => h e.symm) r

/-- Compacting the registries (dropping entries hidden by a newer registration of the same name) changes no look-up:
same operators, same precedences, same handlers. -/
theorem compact_lookup (r : Regs) (n : Name) :
    alookup n r.compact.pre = alookup n r.pre ∧ alookup n r.compact.inf = alookup n r.inf ∧
    alookup n r.compact.post = alookup n r.post ∧ alookup n r.compact.fns = alookup n r.fns :=
  ⟨alookup_dropOlder n _, alookup_dropOlder n _, alookup_dropOlder n _, alookup_dropOlder n _⟩


/-! ## a registered infix operator parses with the precedence and associativity it was registered with

`EE.Props.C02.groups_as_written` holds for *every* operator table satisfying `TableOK`. Registering an
infix operator keeps a table `TableOK` under exactly the conditions the property's quantifier
states: a positive precedence (any value — adjacent to another level or not), a name that is not
`?`, `:` or `not` and is not a postfix operator, and — since a precedence level groups one way —
the associativity of the level it joins. So after any such registration history, every expression
written canonically for the *new* table (the new operator binding tighter than every operator of a
lower precedence, looser than every higher one, and at its own level left-to-right or
right-to-left as registered) parses to exactly the tree it denotes. -/
section registered
open EE.Spec EE.Spec.CST

theorem prec_regInfix_self (r : Regs) (n : Name) (c : InfixCfg) : Regs.prec (r.regInfix n c) n = c.prec := by
  simp [Regs.prec, Regs.regInfix, alookup_cons]
theorem isRight_regInfix_self (r : Regs) (n : Name) (c : InfixCfg) : Regs.isRight (r.regInfix n c) n = c.right := by
  simp [Regs.isRight, Regs.regInfix, alookup_cons]
theorem prec_regInfix_other (r : Regs) (n o : Name) (c : InfixCfg) (h : n ≠ o) : Regs.prec (r.regInfix n c) o = Regs.prec r o := by
  simp [Regs.prec, Regs.regInfix, alookup_cons, h]
theorem isRight_regInfix_other (r : Regs) (n o : Name) (c : InfixCfg) (h : n ≠ o) : Regs.isRight (r.regInfix n c) o = Regs.isRight r o := by
  simp [Regs.isRight, Regs.regInfix, alookup_cons, h]
theorem isInfix_regInfix_other (r : Regs) (n o : Name) (c : InfixCfg) (h : n ≠ o) : (r.regInfix n c).isInfix o = r.isInfix o := by
  simp [Regs.isInfix, Regs.regInfix, alookup_cons, h]
theorem isInfix_regInfix_self (r : Regs) (n : Name) (c : InfixCfg) : (r.regInfix n c).isInfix n = true := by
  simp [Regs.isInfix, Regs.regInfix, alookup_cons]
theorem isPostfix_regInfix (r : Regs) (n o : Name) (c : InfixCfg) : (r.regInfix n c).isPostfix o = r.isPostfix o := rfl

/-- Registering (or re-registering) an infix operator keeps the table well-formed. -/
theorem tableOK_regInfix (r : Regs) (tb : TableOK r) (n : Name) (c : InfixCfg)
    (hp : 1 ≤ c.prec)
    (hlevel : ∀ o, o ≠ n → r.isInfix o = true → Regs.prec r o = c.prec → Regs.isRight r o = c.right)
    (hpost : r.isPostfix n = false) (hq : n ≠ qName) (hcolon : n ≠ colonName) (hnot : n ≠ notName) :
    TableOK (r.regInfix n c) where
  pos := by
    intro m c' hm
    by_cases h : n = m
    · subst h; simp [Regs.regInfix, alookup_cons] at hm; subst hm; exact hp
    · simp [Regs.regInfix, alookup_cons, h] at hm; exact tb.pos m c' hm
  assoc := by
    intro o o' ho ho' hpr
    by_cases h : n = o <;> by_cases h' : n = o'
    · subst h; subst h'; rfl
    · subst h
      rw [prec_regInfix_self, prec_regInfix_other _ _ _ _ h'] at hpr
      rw [isRight_regInfix_self, isRight_regInfix_other _ _ _ _ h']
      rw [isInfix_regInfix_other _ _ _ _ h'] at ho'
      exact (hlevel o' (Ne.symm h') ho' hpr.symm).symm
    · subst h'
      rw [prec_regInfix_self, prec_regInfix_other _ _ _ _ h] at hpr
      rw [isRight_regInfix_self, isRight_regInfix_other _ _ _ _ h]
      rw [isInfix_regInfix_other _ _ _ _ h] at ho
      exact hlevel o (Ne.symm h) ho hpr
    · rw [prec_regInfix_other _ _ _ _ h, prec_regInfix_other _ _ _ _ h'] at hpr
      rw [isRight_regInfix_other _ _ _ _ h, isRight_regInfix_other _ _ _ _ h']
      rw [isInfix_regInfix_other _ _ _ _ h] at ho
      rw [isInfix_regInfix_other _ _ _ _ h'] at ho'
      exact tb.assoc o o' ho ho' hpr
  infixNotPostfix := by
    intro o ho
    rw [isPostfix_regInfix]
    by_cases h : n = o
    · subst h; exact hpost
    · rw [isInfix_regInfix_other _ _ _ _ h] at ho; exact tb.infixNotPostfix o ho
  q := by
    refine ⟨?_, tb.q.2⟩
    rw [isInfix_regInfix_other _ _ _ _ hq]; exact tb.q.1
  colon := by
    refine ⟨?_, tb.colon.2⟩
    rw [isInfix_regInfix_other _ _ _ _ hcolon]; exact tb.colon.1
  notOp := by
    refine ⟨?_, tb.notOp.2⟩
    rw [isInfix_regInfix_other _ _ _ _ hnot]; exact tb.notOp.1

/-- Registering a prefix operator or a function never affects how infix operators group. -/
theorem tableOK_regPrefix (r : Regs) (tb : TableOK r) (n : Name) (h : HandlerId) : TableOK (r.regPrefix n h) :=
  ⟨tb.pos, tb.assoc, tb.infixNotPostfix, tb.q, tb.colon, tb.notOp⟩
theorem tableOK_regFn (r : Regs) (tb : TableOK r) (n : Name) (h : HandlerId) : TableOK (r.regFn n h) :=
  ⟨tb.pos, tb.assoc, tb.infixNotPostfix, tb.q, tb.colon, tb.notOp⟩

/-- **After the registration, expressions group by the registered precedence and associativity**:
every expression written canonically for the table that now contains `n` with `c` parses to the
tree it denotes — `n` relative to every other operator included. -/
theorem registered_infix_groups_as_registered (r : Regs) (tb : TableOK r) (n : Name) (c : InfixCfg)
    (hp : 1 ≤ c.prec)
    (hlevel : ∀ o, o ≠ n → r.isInfix o = true → Regs.prec r o = c.prec → Regs.isRight r o = c.right)
    (hpost : r.isPostfix n = false) (hq : n ≠ qName) (hcolon : n ≠ colonName) (hnot : n ≠ notName)
    (lim : Nat) (e : CST) (hc : Canon (r.regInfix n c) e) (hf : EE.Props.C02.Fits lim e) :
    parseTokens (r.regInfix n c) lim e.flatten = .ok e.strip :=
  EE.Props.C02.groups_as_written _ (tableOK_regInfix r tb n c hp hlevel hpost hq hcolon hnot) lim e hc hf

theorem atom_height (a : Atom) : a.ast.height = 1 := by cases a <;> rfl

/-- hypotheses under which `n` may be registered with `c` (the quantifier of the property: any positive
precedence; the level's associativity; not `?`, `:`, `not`; not a postfix operator) -/
structure Registrable (r : Regs) (n : Name) (c : InfixCfg) : Prop where
  pos : 1 ≤ c.prec
  level : ∀ o, o ≠ n → r.isInfix o = true → Regs.prec r o = c.prec → Regs.isRight r o = c.right
  notPostfix : r.isPostfix n = false
  notQ : n ≠ qName
  notColon : n ≠ colonName
  notNot : n ≠ notName

theorem Registrable.tableOK {r : Regs} {n : Name} {c : InfixCfg} (tb : TableOK r) (h : Registrable r n c) :
    TableOK (r.regInfix n c) :=
  tableOK_regInfix r tb n c h.pos h.level h.notPostfix h.notQ h.notColon h.notNot

/-- The token sequence `a o b n d` after registering `n` at a precedence *above* that of `o`
(by any amount: one step is enough): `n` takes `b` — the tree is `o(a, n(b, d))`. -/
theorem registered_above_binds_first (r : Regs) (tb : TableOK r) (n o : Name) (c : InfixCfg) (hr : Registrable r n c)
    (ho : r.isInfix o = true) (hne : n ≠ o) (hlt : Regs.prec r o < c.prec) (a b d : Atom) (lim : Nat) (hl : 3 ≤ lim) :
    parseTokens (r.regInfix n c) lim [a.tok, .op o, b.tok, .op n, d.tok] =
      .ok (.binary o a.ast (.binary n b.ast d.ast)) := by
  have h := EE.Props.C02.groups_as_written _ (hr.tableOK tb) lim
    (CST.bin false o (.atom a) (.bin false n (.atom b) (.atom d))) ?_ ?_
  · simpa [CST.flatten, CST.strip, opToks, wrapNot] using h
  · simp only [Canon, CST.root?, CST.isTern, okLeft, okRight, isInfix_regInfix_self, isInfix_regInfix_other _ _ _ _ hne, ho,
      prec_regInfix_self, prec_regInfix_other _ _ _ _ hne, true_and, and_true, reduceCtorEq, false_implies, implies_true,
      Option.some.injEq, forall_eq']
    exact Or.inl hlt
  · refine ⟨?_, ?_⟩
    · simp only [CST.nest]; omega
    · simp [CST.strip, wrapNot, AST.height, atom_height]; omega

/-- … and registered at a precedence *below* that of `o`, `o` binds first: `n(o(a, b), d)`. -/
theorem registered_below_binds_last (r : Regs) (tb : TableOK r) (n o : Name) (c : InfixCfg) (hr : Registrable r n c)
    (ho : r.isInfix o = true) (hne : n ≠ o) (hlt : c.prec < Regs.prec r o) (a b d : Atom) (lim : Nat) (hl : 3 ≤ lim) :
    parseTokens (r.regInfix n c) lim [a.tok, .op o, b.tok, .op n, d.tok] =
      .ok (.binary n (.binary o a.ast b.ast) d.ast) := by
  have h := EE.Props.C02.groups_as_written _ (hr.tableOK tb) lim
    (CST.bin false n (.bin false o (.atom a) (.atom b)) (.atom d)) ?_ ?_
  · simpa [CST.flatten, CST.strip, opToks, wrapNot] using h
  · simp only [Canon, CST.root?, CST.isTern, okLeft, okRight, isInfix_regInfix_self, isInfix_regInfix_other _ _ _ _ hne, ho,
      prec_regInfix_self, prec_regInfix_other _ _ _ _ hne, true_and, and_true, reduceCtorEq, false_implies, implies_true,
      Option.some.injEq, forall_eq']
    exact Or.inl hlt
  · refine ⟨?_, ?_⟩
    · simp only [CST.nest]; omega
    · simp [CST.strip, wrapNot, AST.height, atom_height]; omega

/-- A run of the registered operator itself groups by the registered associativity. -/
theorem registered_run_groups_by_associativity (r : Regs) (tb : TableOK r) (n : Name) (c : InfixCfg) (hr : Registrable r n c)
    (a b d : Atom) (lim : Nat) (hl : 3 ≤ lim) :
    parseTokens (r.regInfix n c) lim [a.tok, .op n, b.tok, .op n, d.tok] =
      .ok (if c.right then .binary n a.ast (.binary n b.ast d.ast) else .binary n (.binary n a.ast b.ast) d.ast) := by
  cases hc : c.right
  · have h := EE.Props.C02.groups_as_written _ (hr.tableOK tb) lim
      (CST.bin false n (.bin false n (.atom a) (.atom b)) (.atom d)) ?_ ?_
    · simpa [CST.flatten, CST.strip, opToks, wrapNot] using h
    · simp only [Canon, CST.root?, CST.isTern, okLeft, okRight, isInfix_regInfix_self, prec_regInfix_self, isRight_regInfix_self,
        true_and, and_true, reduceCtorEq, false_implies, implies_true, Option.some.injEq, forall_eq']
      exact Or.inr hc
    · refine ⟨?_, ?_⟩
      · simp only [CST.nest]; omega
      · simp [CST.strip, wrapNot, AST.height, atom_height]; omega
  · have h := EE.Props.C02.groups_as_written _ (hr.tableOK tb) lim
      (CST.bin false n (.atom a) (.bin false n (.atom b) (.atom d))) ?_ ?_
    · simpa [CST.flatten, CST.strip, opToks, wrapNot] using h
    · simp only [Canon, CST.root?, CST.isTern, okLeft, okRight, isInfix_regInfix_self, prec_regInfix_self, isRight_regInfix_self,
        true_and, and_true, reduceCtorEq, false_implies, implies_true, Option.some.injEq, forall_eq']
      exact Or.inr hc
    · refine ⟨?_, ?_⟩
      · simp only [CST.nest]; omega
      · simp [CST.strip, wrapNot, AST.height, atom_height]; omega

/-- Non-vacuity, and the adjacent-precedence case of the property spelled out: `cat` may be registered on the
built-in table at 111 — one step above `+` (110) — and then `a + b cat d` is `a + (b cat d)`, while at
109 it is `(a + b) cat d`. -/
theorem builtin_registrable_at (n : Name) (c : InfixCfg) (hp : 1 ≤ c.prec)
    (hlevel : ∀ x ∈ Regs.builtin.inf, x.2.prec = c.prec → x.2.right = c.right)
    (hpost : Regs.builtin.isPostfix n = false) (hq : n ≠ qName) (hcolon : n ≠ colonName) (hnot : n ≠ notName) :
    Registrable Regs.builtin n c where
  pos := hp
  level := by
    intro o _ ho hpr
    obtain ⟨c', hm, hp', hr'⟩ := EE.Props.C02.isInfix_mem ho
    rw [hr']; exact hlevel _ hm (by rw [← hp', hpr])
  notPostfix := hpost
  notQ := hq
  notColon := hcolon
  notNot := hnot

example (h : HandlerId) (a b d : Atom) :
    parseTokens (Regs.builtin.regInfix ['c', 'a', 't'] ⟨111, false, false, h⟩) maxDepth [a.tok, .op ['+'], b.tok, .op ['c', 'a', 't'], d.tok] =
      .ok (.binary ['+'] a.ast (.binary ['c', 'a', 't'] b.ast d.ast)) :=
  registered_above_binds_first _ EE.Props.C02.builtin_table_ok _ _ _
    (builtin_registrable_at _ _ (by (try dsimp only); decide) (by (try dsimp only); decide) (by (try dsimp only); decide) (by (try dsimp only); decide) (by (try dsimp only); decide) (by (try dsimp only); decide))
    (by (try dsimp only); decide) (by (try dsimp only); decide) (by (try dsimp only); decide) a b d _ (by (try dsimp only); decide)

example (h : HandlerId) (a b d : Atom) :
    parseTokens (Regs.builtin.regInfix ['c', 'a', 't'] ⟨109, false, true, h⟩) maxDepth [a.tok, .op ['+'], b.tok, .op ['c', 'a', 't'], d.tok] =
      .ok (.binary ['c', 'a', 't'] (.binary ['+'] a.ast b.ast) d.ast) :=
  registered_below_binds_last _ EE.Props.C02.builtin_table_ok _ _ _
    (builtin_registrable_at _ _ (by (try dsimp only); decide) (by (try dsimp only); decide) (by (try dsimp only); decide) (by (try dsimp only); decide) (by (try dsimp only); decide) (by (try dsimp only); decide))
    (by (try dsimp only); decide) (by (try dsimp only); decide) (by (try dsimp only); decide) a b d _ (by (try dsimp only); decide)

end registered

end EE.Props.C08
