import EE.Model.Program
namespace EE.Props.C08
theorem placeholder : True := trivial
end EE.Props.C08
