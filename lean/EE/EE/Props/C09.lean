import EE.Lemmas.DecLemmas
import EE.Model.Builtins
import EE.Model.Eval
/-! # C09 — number literals and decimal arithmetic are exact

A decimal `d` denotes the rational `d.num / 10^d.scale`. Statements about values are written
without division, by cross-multiplication: "`d` denotes `n / 10^s`" is `d.num * 10^s = n * 10^d.scale`.
`rust_decimal` itself is modelled (exact when representable), not verified; that the library
agrees is what the literal/arith correspondence streams and the rational oracle sample. -/
namespace EE.Props.C09
open EE Dec

/-! ## Literals: digits and scale preserved -/

theorem span_digits_then (ds rest : List Char) (h : ds.all isAsciiDigit = true)
    (hr : ∀ c r, rest = c :: r → isAsciiDigit c = false) : span isAsciiDigit (ds ++ rest) = (ds, rest) := by
  induction ds with
  | nil =>
    cases rest with
    | nil => rfl
    | cons c r => simp [span, hr c r rfl]
  | cons d ds ih =>
    simp at h
    simp [span, h.1, ih (by simpa using h.2)]

/-- A literal `ddd.fff` (at most 28 fractional digits, value below 2^96 — in particular every
literal with at most 28 significant digits) is exactly that decimal: mantissa = the digits,
scale = the number of fractional digits. Nothing is rounded, normalised or routed through a float. -/
theorem literal_with_fraction (ds fs : List Char) (hd : ds.all isAsciiDigit = true) (hne : ds ≠ [])
    (hf : fs.all isAsciiDigit = true) (hlen : fs.length ≤ 28) (hfit : natOfDigits (ds ++ fs) < mantLimit) :
    ofText (ds ++ '.' :: fs) = .ok ⟨false, natOfDigits (ds ++ fs), fs.length⟩ := by
  have hip : natOfDigits ds < mantLimit := by
    rw [natOfDigits_append] at hfit
    have : 1 ≤ 10 ^ fs.length := Nat.pow_pos (by decide)
    calc natOfDigits ds ≤ natOfDigits ds * 10 ^ fs.length := Nat.le_mul_of_pos_right _ this
      _ ≤ _ := Nat.le_add_right _ _
      _ < _ := hfit
  unfold ofText
  rw [span_digits_then ds ('.' :: fs) hd (by intro c r e; cases e; decide)]
  have h2 := span_digits_then fs [] hf (by intro c r e; cases e)
  simp only [List.append_nil] at h2
  simp [hne, fracPart, h2, maxScale, hlen, hfit, Nat.not_le.mpr hip]

theorem literal_integer (ds : List Char) (hd : ds.all isAsciiDigit = true) (hne : ds ≠ [])
    (hfit : natOfDigits ds < mantLimit) : ofText ds = .ok ⟨false, natOfDigits ds, 0⟩ := by
  unfold ofText
  have h := span_digits_then ds [] hd (by intro c r e; cases e)
  simp only [List.append_nil] at h
  simp [h, hne, fracPart, hfit, Nat.not_le.mpr hfit, maxScale]

/-- 28 significant digits always fit: 10^28 < 2^96. -/
theorem twenty_eight_digits_fit : (10 : Nat) ^ 28 < mantLimit := by decide

/-- The literal is carried unchanged through the AST and the evaluator into `Value::Number`. -/
theorem literal_to_value (d : Dec) : litValue (.num d) = .num d := rfl

/-- A run that is not `digit+ ('.' digit*)?` — a second dot, an exponent marker, a sign — is
rejected, never truncated to its valid prefix. -/
theorem invalid_rejected (cs : List Char) (d : Dec) (h : ofText cs = .ok d) :
    ∃ ip fp, ip ≠ [] ∧ ip.all isAsciiDigit = true ∧ fp.all isAsciiDigit = true ∧ (cs = ip ∨ cs = ip ++ '.' :: fp) := by
  unfold ofText at h
  have hsp := span_append isAsciiDigit cs
  have hall := span_all isAsciiDigit cs
  generalize span isAsciiDigit cs = p at h hsp hall
  obtain ⟨ip, r⟩ := p
  simp only at h hsp hall
  have hipall : ip.all isAsciiDigit = true := by simpa [List.all_eq_true] using hall
  by_cases hemp : ip.isEmpty = true
  · simp [hemp] at h
  · simp only [hemp, Bool.false_eq_true, if_false] at h
    have hne : ip ≠ [] := by intro e; subst e; simp at hemp
    cases hfp : fracPart r with
    | none => simp [hfp] at h
    | some fp =>
      cases r with
      | nil =>
        exact ⟨ip, [], hne, hipall, rfl, Or.inl (by simpa using hsp.symm)⟩
      | cons c r' =>
        simp only [fracPart] at hfp
        by_cases hc : c = '.'
        · subst hc
          simp only [if_true] at hfp
          by_cases he : (span isAsciiDigit r').2.isEmpty = true
          · simp only [he, if_true, Option.some.injEq] at hfp
            have hsp2 := span_append isAsciiDigit r'
            have hall2 := span_all isAsciiDigit r'
            have : (span isAsciiDigit r').2 = [] := by simpa using he
            rw [this, List.append_nil, hfp] at hsp2
            rw [hfp] at hall2
            refine ⟨ip, fp, hne, hipall, by simpa [List.all_eq_true] using hall2, Or.inr ?_⟩
            rw [← hsp, hsp2]
          · simp [he] at hfp
        · simp [hc] at hfp

/-! ## Equality and order are by value -/

theorem pow_split (a b : Nat) : (10 : Int) ^ (max a b - a) * 10 ^ (a + b - max a b) = 10 ^ b := by
  rw [← Int.pow_add]; congr 1; omega

theorem aligned_x (a b : Dec) : (align a b).1 * 10 ^ (a.scale + b.scale - max a.scale b.scale) = a.num * 10 ^ b.scale := by
  simp only [align, Int.natCast_pow, Int.cast_ofNat_Int]
  rw [Int.mul_assoc, pow_split]
theorem aligned_y (a b : Dec) : (align a b).2.1 * 10 ^ (a.scale + b.scale - max a.scale b.scale) = b.num * 10 ^ a.scale := by
  simp only [align, Int.natCast_pow, Int.cast_ofNat_Int]
  rw [Int.mul_assoc]
  have := pow_split b.scale a.scale
  rw [Nat.max_comm, Nat.add_comm b.scale] at this
  rw [this]

/-- `a == b` holds exactly when the two numbers are equal as rationals, whatever their trailing zeros. -/
theorem eq_by_value (a b : Dec) : Dec.beq a b = true ↔ a.num * 10 ^ b.scale = b.num * 10 ^ a.scale := by
  simp only [Dec.beq, cmpKey, beq_iff_eq]
  rw [← aligned_x, ← aligned_y]
  have hp := pow10_pos (a.scale + b.scale - max a.scale b.scale)
  constructor
  · intro h; rw [show (align a b).1 = (align a b).2.1 from h]
  · intro h; exact Int.eq_of_mul_eq_mul_right (Int.ne_of_gt hp) h

theorem lt_by_value (a b : Dec) : Dec.lt a b = true ↔ a.num * 10 ^ b.scale < b.num * 10 ^ a.scale := by
  have hkey : Dec.lt a b = true ↔ (align a b).1 < (align a b).2.1 := by
    simp only [Dec.lt, cmpKey]; exact ⟨of_decide_eq_true, decide_eq_true⟩
  rw [hkey, ← aligned_x, ← aligned_y]
  have hp := pow10_pos (a.scale + b.scale - max a.scale b.scale)
  constructor
  · intro h; exact Int.mul_lt_mul_of_pos_right h hp
  · intro h; exact Int.lt_of_mul_lt_mul_right h (Int.le_of_lt hp)

theorem le_by_value (a b : Dec) : Dec.le a b = true ↔ a.num * 10 ^ b.scale ≤ b.num * 10 ^ a.scale := by
  have hkey : Dec.le a b = true ↔ (align a b).1 ≤ (align a b).2.1 := by
    simp only [Dec.le, cmpKey]; exact ⟨of_decide_eq_true, decide_eq_true⟩
  rw [hkey, ← aligned_x, ← aligned_y]
  have hp := pow10_pos (a.scale + b.scale - max a.scale b.scale)
  constructor
  · intro h; exact Int.mul_le_mul_of_nonneg_right h (Int.le_of_lt hp)
  · intro h; exact Int.le_of_mul_le_mul_right h hp

/-! ## Arithmetic is exact whenever the exact result fits -/

theorem ofNumScale_num (n : Int) (s : Nat) : (ofNumScale n s).num = n ∧ (ofNumScale n s).scale = s := by
  unfold ofNumScale num
  by_cases h : n < 0
  · simp [h]; omega
  · simp [h]; omega

/-- Soundness: whatever `fit` returns as a value denotes exactly `n / 10^s`, within the 96-bit / 28-digit format. -/
theorem fit_exact (n : Int) (s : Nat) (d : Dec) (h : fit n s = .ok d) :
    d.num * 10 ^ s = n * 10 ^ d.scale ∧ d.WF := by
  unfold fit at h
  have hs := normNS_spec n s
  generalize normNS n s = p at h hs
  obtain ⟨n', s'⟩ := p
  simp only at h hs
  split at h
  · rename_i hfit
    cases h
    have hn := ofNumScale_num n' s'
    refine ⟨?_, ?_⟩
    · rw [hn.1, hn.2]
      conv => rhs; rw [hs.2]
      rw [Int.mul_assoc, ← Int.pow_add]
      congr 2; omega
    · unfold WF ofNumScale; simpa using ⟨hfit.2, hfit.1⟩
  · split at h <;> cases h

/-- Completeness: if the exact value `n / 10^s` is representable at all — by *some* mantissa below
2^96 at *some* scale ≤ 28 — the result is a value (never overflow, never the rounding zone). -/
theorem fit_complete (n : Int) (s : Nat) (m : Int) (sc : Nat) (hsc : sc ≤ maxScale) (hm : m.natAbs < mantLimit)
    (hv : m * 10 ^ s = n * 10 ^ sc) : ∃ d, fit n s = .ok d := by
  have hs := normNS_spec n s
  have hmin := normNS_min n s
  unfold fit
  generalize normNS n s = p at hs hmin
  obtain ⟨n', s'⟩ := p
  simp only at hs hmin ⊢
  -- m * 10^s' = n' * 10^sc
  have key : m * 10 ^ s' = n' * 10 ^ sc := by
    have e : (10 : Int) ^ s = 10 ^ s' * 10 ^ (s - s') := by rw [← Int.pow_add]; congr 1; omega
    rw [hs.2, e] at hv
    have : m * 10 ^ s' * 10 ^ (s - s') = n' * 10 ^ sc * 10 ^ (s - s') := by
      rw [Int.mul_assoc, hv, Int.mul_assoc, Int.mul_assoc, Int.mul_comm ((10 : Int) ^ (s - s'))]
    exact Int.eq_of_mul_eq_mul_right (Int.ne_of_gt (pow10_pos _)) this
  have hle : s' ≤ sc := by
    apply Decidable.byContradiction
    intro hgt
    have hgt : sc < s' := by omega
    have hpos : 0 < s' := by omega
    have e : (10 : Int) ^ s' = 10 ^ (s' - sc - 1) * 10 * 10 ^ sc := by
      rw [← Int.pow_succ, ← Int.pow_add]; congr 1; omega
    rw [e, ← Int.mul_assoc, ← Int.mul_assoc] at key
    have := Int.eq_of_mul_eq_mul_right (Int.ne_of_gt (pow10_pos sc)) key
    apply hmin hpos
    rw [← this]
    exact Int.mul_emod_left _ _
  have hn' : n'.natAbs ≤ m.natAbs := by
    have e : (10 : Int) ^ sc = 10 ^ s' * 10 ^ (sc - s') := by rw [← Int.pow_add]; congr 1; omega
    rw [e, ← Int.mul_assoc] at key
    have hk : m * 10 ^ s' = n' * 10 ^ (sc - s') * 10 ^ s' := by
      rw [key, Int.mul_assoc, Int.mul_assoc, Int.mul_comm ((10 : Int) ^ s')]
    have := Int.eq_of_mul_eq_mul_right (Int.ne_of_gt (pow10_pos s')) hk
    rw [this, Int.natAbs_mul, Int.natAbs_pow]
    exact Nat.le_mul_of_pos_right _ (Nat.pow_pos (by decide))
  have : s' ≤ maxScale ∧ n'.natAbs < mantLimit := ⟨by omega, by omega⟩
  simp [this]

/-- `+ - *` on two decimals: if the result is a value it is the exact sum / difference / product. -/
theorem add_exact (a b d : Dec) (h : Dec.add a b = .ok d) :
    d.num * 10 ^ (max a.scale b.scale) = ((align a b).1 + (align a b).2.1) * 10 ^ d.scale :=
  (fit_exact _ _ d h).1
theorem sub_exact (a b d : Dec) (h : Dec.sub a b = .ok d) :
    d.num * 10 ^ (max a.scale b.scale) = ((align a b).1 - (align a b).2.1) * 10 ^ d.scale :=
  (fit_exact _ _ d h).1
theorem mul_exact (a b d : Dec) (h : Dec.mul a b = .ok d) :
    d.num * 10 ^ (a.scale + b.scale) = (a.num * b.num) * 10 ^ d.scale :=
  (fit_exact _ _ d h).1
/-- `%` is the truncated remainder, with the sign of the dividend. -/
theorem rem_exact (a b d : Dec) (hb : b.isZero = false) (h : Dec.rem a b = .ok d) :
    d.num * 10 ^ (max a.scale b.scale) = Int.tmod (align a b).1 (align a b).2.1 * 10 ^ d.scale := by
  unfold Dec.rem at h
  simp only [hb, Bool.false_eq_true, if_false] at h
  exact (fit_exact _ _ d h).1

/-! ## Algebraic laws the exact arithmetic owes its users (for *every* pair, whatever the outcome:
value, overflow or the rounding zone) -/

theorem align_swap (a b : Dec) : align b a = ((align a b).2.1, (align a b).1, (align a b).2.2) := by
  simp only [align, Nat.max_comm]

/-- `a + b` and `b + a` are the same outcome (same digits, same scale, same error). -/
theorem add_comm (a b : Dec) : Dec.add a b = Dec.add b a := by
  simp only [Dec.add, align_swap a b, Int.add_comm]

/-- `a * b` and `b * a` are the same outcome. -/
theorem mul_comm (a b : Dec) : Dec.mul a b = Dec.mul b a := by
  simp only [Dec.mul, Int.mul_comm, Nat.add_comm]

/-- The order is total and strict: exactly one of `a < b`, `a == b`, `b < a`. -/
theorem lt_asymm (a b : Dec) (h : Dec.lt a b = true) : Dec.lt b a = false := by
  have h1 := (lt_by_value a b).mp h
  cases hb : Dec.lt b a with
  | false => rfl
  | true => have h2 := (lt_by_value b a).mp hb; omega
theorem lt_irrefl (a : Dec) : Dec.lt a a = false := by
  cases h : Dec.lt a a with
  | false => rfl
  | true => have := (lt_by_value a a).mp h; omega
theorem trichotomy (a b : Dec) : Dec.lt a b = true ∨ Dec.beq a b = true ∨ Dec.lt b a = true := by
  rw [lt_by_value, eq_by_value, lt_by_value]; omega
theorem le_iff_lt_or_eq (a b : Dec) : Dec.le a b = true ↔ (Dec.lt a b = true ∨ Dec.beq a b = true) := by
  rw [le_by_value, lt_by_value, eq_by_value]; omega
theorem beq_symm (a b : Dec) : Dec.beq a b = Dec.beq b a := by
  cases h1 : Dec.beq a b <;> cases h2 : Dec.beq b a <;> try rfl
  · have := (eq_by_value b a).mp h2
    have h3 : Dec.beq a b = true := (eq_by_value a b).mpr this.symm
    rw [h1] at h3; cases h3
  · have := (eq_by_value a b).mp h1
    have h3 : Dec.beq b a = true := (eq_by_value b a).mpr this.symm
    rw [h2] at h3; cases h3
/-- Equality is by value: a number equals itself at every scale it can be written in. -/
theorem beq_rescale (n : Int) (s k : Nat) : Dec.beq (ofNumScale n s) (ofNumScale (n * 10 ^ k) (s + k)) = true := by
  rw [eq_by_value, (ofNumScale_num n s).1, (ofNumScale_num n s).2,
      (ofNumScale_num (n * 10 ^ k) (s + k)).1, (ofNumScale_num (n * 10 ^ k) (s + k)).2,
      Int.pow_add, Int.mul_assoc, Int.mul_comm (10 ^ k) (10 ^ s)]

theorem neg_num (b : Dec) : (neg' b).num = - b.num := by
  unfold neg' Dec.num
  cases b.neg <;> simp

/-- `a - b` and `a + (-b)` are the same outcome, for every pair. -/
theorem sub_eq_add_neg (a b : Dec) : Dec.sub a b = Dec.add a (neg' b) := by
  have hs : (neg' b).scale = b.scale := rfl
  simp only [Dec.sub, Dec.add, align, neg_num, hs, Int.neg_mul, Int.sub_eq_add_neg]

/-- Negation is an involution and never changes digits or scale. -/
theorem neg_neg (a : Dec) : neg' (neg' a) = a := by
  cases a with | mk n m s => simp [neg']

/-- The order is transitive (what `min`/`max` over any number of arguments rely on). -/
theorem lt_trans (a b c : Dec) (h1 : Dec.lt a b = true) (h2 : Dec.lt b c = true) : Dec.lt a c = true := by
  rw [lt_by_value] at h1 h2 ⊢
  have pa := pow10_pos a.scale
  have pb := pow10_pos b.scale
  have pc := pow10_pos c.scale
  have e1 : a.num * 10 ^ b.scale * 10 ^ c.scale < b.num * 10 ^ a.scale * 10 ^ c.scale :=
    Int.mul_lt_mul_of_pos_right h1 pc
  have e2 : b.num * 10 ^ c.scale * 10 ^ a.scale < c.num * 10 ^ b.scale * 10 ^ a.scale :=
    Int.mul_lt_mul_of_pos_right h2 pa
  have e3 : a.num * 10 ^ c.scale * 10 ^ b.scale < c.num * 10 ^ a.scale * 10 ^ b.scale := by
    have r1 : a.num * 10 ^ c.scale * 10 ^ b.scale = a.num * 10 ^ b.scale * 10 ^ c.scale := by
      rw [Int.mul_assoc, Int.mul_assoc, Int.mul_comm (10 ^ c.scale)]
    have r2 : b.num * 10 ^ a.scale * 10 ^ c.scale = b.num * 10 ^ c.scale * 10 ^ a.scale := by
      rw [Int.mul_assoc, Int.mul_assoc, Int.mul_comm (10 ^ c.scale)]
    have r3 : c.num * 10 ^ b.scale * 10 ^ a.scale = c.num * 10 ^ a.scale * 10 ^ b.scale := by
      rw [Int.mul_assoc, Int.mul_assoc, Int.mul_comm (10 ^ b.scale)]
    rw [r1, ← r3]; rw [r2] at e1; exact Int.lt_trans e1 e2
  exact Int.lt_of_mul_lt_mul_right e3 (Int.le_of_lt pb)

theorem cross_le (x y z pa pb pc : Int) (hpa : 0 < pa) (hpb : 0 < pb) (hpc : 0 < pc)
    (h1 : x * pb ≤ y * pa) (h2 : y * pc ≤ z * pb) : x * pc ≤ z * pa := by
  have e1 : x * pb * pc ≤ y * pa * pc := Int.mul_le_mul_of_nonneg_right h1 (Int.le_of_lt hpc)
  have e2 : y * pc * pa ≤ z * pb * pa := Int.mul_le_mul_of_nonneg_right h2 (Int.le_of_lt hpa)
  have r1 : x * pc * pb = x * pb * pc := by rw [Int.mul_assoc, Int.mul_assoc, Int.mul_comm pc]
  have r2 : y * pa * pc = y * pc * pa := by rw [Int.mul_assoc, Int.mul_assoc, Int.mul_comm pc]
  have r3 : z * pb * pa = z * pa * pb := by rw [Int.mul_assoc, Int.mul_assoc, Int.mul_comm pb]
  have e3 : x * pc * pb ≤ z * pa * pb := by rw [r1, ← r3]; rw [r2] at e1; exact Int.le_trans e1 e2
  exact Int.le_of_mul_le_mul_right e3 hpb

/-- Negative transitivity: if `a < c` then every `b` is above `a` or below `c`. -/
theorem lt_cotrans (a b c : Dec) (h : Dec.lt a c = true) : Dec.lt a b = true ∨ Dec.lt b c = true := by
  rw [lt_by_value] at h
  rw [lt_by_value, lt_by_value]
  apply Decidable.byContradiction
  intro hn
  have h1 : b.num * 10 ^ a.scale ≤ a.num * 10 ^ b.scale := by omega
  have h2 : c.num * 10 ^ b.scale ≤ b.num * 10 ^ c.scale := by omega
  have := cross_le c.num b.num a.num (10 ^ c.scale) (10 ^ b.scale) (10 ^ a.scale)
    (pow10_pos _) (pow10_pos _) (pow10_pos _) h2 h1
  omega

/-! Witnesses (kernel-checked): the classic binary-float traps are exact. -/
example : Dec.add ⟨false, 1, 1⟩ ⟨false, 2, 1⟩ = .ok ⟨false, 3, 1⟩ := by rfl
example : Dec.beq ⟨false, 110, 2⟩ ⟨false, 11, 1⟩ = true := by decide
example : ofText ['1', '.', '1', '0'] = .ok ⟨false, 110, 2⟩ := by rfl
example : ofText ['1', 'e', '5'] = .err .invalidNumber := by rfl
example : ofText ['1', '.', '2', '.', '3'] = .err .invalidNumber := by rfl

end EE.Props.C09
