import EE.Model.Program
namespace EE.Props.C09
theorem placeholder : True := trivial
end EE.Props.C09
