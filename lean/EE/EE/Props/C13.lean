import EE.Model.Program
namespace EE.Props.C13
theorem placeholder : True := trivial
end EE.Props.C13
