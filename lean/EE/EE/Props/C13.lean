import EE.Model.Conc
import EE.Lemmas.Tie
/-! # C13 — concurrent use is safe, including first use and concurrent registration (partial)

Theorems are about the protocol model `EE.Conc` (for every number of threads, every program of
calls, every schedule). What the model cannot exhibit — the OS scheduler, the atomicity of
`std::sync::Mutex` and the blocking of `once_cell` (trusted library semantics) — is covered by
forced and repeated schedules against the real crate only. Full linearisability of *multi-read*
evaluations w.r.t. registrations is stated and proved **false** (known finding KF-C13-multiread);
what holds is atomicity per registry operation. -/
namespace EE.Props.C13
open EE.Conc

/-- The protocol invariant. -/
structure Inv (g : G) : Prop where
  /-- before initialisation: nothing registered, nobody past `init()` -/
  uninit : g.once = .uninit → g.regs = [] ∧ ∀ t ∈ g.threads, t.pc = .start
  /-- during initialisation: exactly the initialiser is past `start`; stages `< k` are registered, nothing else -/
  running : ∀ tid, g.once = .running tid →
    (∃ t k ops, g.threads[tid]? = some t ∧ t.pc = .initializing k ops ∧ k < nStages ∧
      ∀ i, (lookup i g.regs).isSome = true ↔ i < k) ∧
    ∀ j t, g.threads[j]? = some t → j ≠ tid → t.pc = .start
  /-- after initialisation: every built-in is registered; nobody is initialising -/
  done : g.once = .done → (∀ i, i < nStages → (lookup i g.regs).isSome = true) ∧
    ∀ t ∈ g.threads, ∀ k ops, t.pc ≠ .initializing k ops

theorem lookup_cons (k k' : Nat) (v : Nat) (r : List (Nat × Nat)) :
    lookup k ((k', v) :: r) = if k' = k then some v else lookup k r := rfl

theorem mem_set_cases {α : Type} (l : List α) (i : Nat) (a x : α) (h : x ∈ l.set i a) :
    x = a ∨ ∃ j, j ≠ i ∧ l[j]? = some x := by
  rw [List.mem_iff_getElem?] at h
  obtain ⟨j, hj⟩ := h
  rw [List.getElem?_set] at hj
  split at hj
  · split at hj
    · left; cases hj; rfl
    · cases hj
  · rename_i hne; right; exact ⟨j, fun e => hne e.symm, hj⟩

theorem inv_init (programs : List (List (List Op))) : Inv (init programs) := by
  refine ⟨fun _ => ⟨rfl, ?_⟩, fun tid h => by simp [init] at h, fun h => by simp [init] at h⟩
  intro t ht
  simp [init] at ht
  obtain ⟨c, _, rfl⟩ := ht
  rfl

theorem inv_step (g g' : G) (tid : Nat) (hi : Inv g) (hs : step g tid = some g') : Inv g' := by
  unfold step at hs
  cases hget : g.threads[tid]? with
  | none => simp [hget] at hs
  | some t =>
    simp only [hget] at hs
    have hlt : tid < g.threads.length := by
      have := List.getElem?_eq_some_iff.mp hget; exact this.1
    cases hpc : t.pc with
    | start =>
      simp only [hpc] at hs
      cases hcalls : t.calls with
      | nil => simp [hcalls] at hs
      | cons c rest =>
        simp only [hcalls] at hs
        cases honce : g.once with
        | uninit =>
          simp only [honce, Option.some.injEq] at hs
          subst hs
          obtain ⟨hregs, hall⟩ := hi.uninit honce
          refine ⟨fun h => by simp [setThread] at h, fun tid' h => ?_, fun h => by simp [setThread] at h⟩
          simp only [setThread, Once.running.injEq] at h
          subst h
          refine ⟨⟨{ t with pc := .initializing 0 c, calls := rest }, 0, c, by simp [setThread, List.getElem?_set, hlt], rfl, by decide, fun i => ?_⟩, fun j t' hj hne => ?_⟩
          · simp [setThread, hregs, lookup]
          · simp only [setThread, List.getElem?_set] at hj
            split at hj
            · rename_i e; exact absurd e.symm hne
            · exact hall t' (List.mem_iff_getElem?.mpr ⟨j, hj⟩)
        | running o => simp [honce] at hs
        | done =>
          simp only [honce, Option.some.injEq] at hs
          subst hs
          obtain ⟨hb, hni⟩ := hi.done honce
          refine ⟨fun h => by simp [setThread, honce] at h, fun tid' h => by simp [setThread, honce] at h, fun _ => ⟨hb, ?_⟩⟩
          intro t' ht' k ops
          rcases mem_set_cases _ _ _ _ ht' with rfl | ⟨j, _, hj⟩
          · simp
          · exact hni t' (List.mem_iff_getElem?.mpr ⟨j, hj⟩) k ops
    | initializing k ops =>
      simp only [hpc] at hs
      -- the stepping thread is the initialiser
      have honce : g.once = .running tid := by
        cases ho : g.once with
        | uninit => have := (hi.uninit ho).2 t (List.mem_iff_getElem?.mpr ⟨tid, hget⟩); rw [hpc] at this; cases this
        | done => exact absurd hpc ((hi.done ho).2 t (List.mem_iff_getElem?.mpr ⟨tid, hget⟩) k ops)
        | running o =>
          obtain ⟨_, hothers⟩ := hi.running o ho
          by_cases e : tid = o
          · rw [e]
          · have := hothers tid t hget e; rw [hpc] at this; cases this
      obtain ⟨⟨t0, k0, ops0, hg0, hpc0, hk0, hreg0⟩, hothers⟩ := hi.running tid honce
      rw [hget] at hg0; cases hg0
      rw [hpc] at hpc0; cases hpc0
      by_cases hlast : k + 1 = nStages
      · simp only [hlast, if_true, Option.some.injEq] at hs
        subst hs
        refine ⟨fun h => by simp [setThread] at h, fun tid' h => by simp [setThread] at h, fun _ => ⟨fun i hi4 => ?_, ?_⟩⟩
        · simp only [setThread, stageEntries, List.cons_append, List.nil_append, lookup_cons]
          by_cases e : k = i
          · simp [e]
          · simp only [e, if_false]
            have : i < k := by unfold nStages at hlast hi4; omega
            exact (hreg0 i).mpr this
        · intro t' ht' k' ops'
          simp only [setThread] at ht'
          rcases mem_set_cases _ _ _ _ ht' with rfl | ⟨j, hne, hj⟩
          · simp
          · rw [hothers j t' hj hne]; intro h; cases h
      · simp only [hlast, if_false, Option.some.injEq] at hs
        subst hs
        refine ⟨fun h => by simp [setThread, honce] at h, fun tid' h => ?_, fun h => by simp [setThread, honce] at h⟩
        simp only [setThread, honce, Once.running.injEq] at h
        subst h
        refine ⟨⟨{ t with pc := .initializing (k + 1) ops }, k + 1, ops, by simp [setThread, List.getElem?_set, hlt], rfl, by unfold nStages at *; omega, fun i => ?_⟩, fun j t' hj hne => ?_⟩
        · show (lookup i (stageEntries k ++ g.regs)).isSome = true ↔ i < k + 1
          simp only [stageEntries, List.cons_append, List.nil_append, lookup_cons]
          by_cases e : k = i
          · simp [e]
          · simp only [e, if_false]; rw [hreg0 i]
            constructor <;> intro h <;> omega
        · simp only [setThread, List.getElem?_set] at hj
          split at hj
          · rename_i e; exact absurd e.symm hne
          · exact hothers j t' hj hne
    | running todo =>
      simp only [hpc] at hs
      -- a thread past init(): the cell is done
      have honce : g.once = .done := by
        cases ho : g.once with
        | uninit => have := (hi.uninit ho).2 t (List.mem_iff_getElem?.mpr ⟨tid, hget⟩); rw [hpc] at this; cases this
        | done => rfl
        | running o =>
          obtain ⟨⟨t0, k0, ops0, hg0, hpc0, _⟩, hothers⟩ := hi.running o ho
          by_cases e : tid = o
          · subst e; rw [hget] at hg0; cases hg0; rw [hpc] at hpc0; cases hpc0
          · have := hothers tid t hget e; rw [hpc] at this; cases this
      obtain ⟨hb, hni⟩ := hi.done honce
      have keep : ∀ (g2 : G) (t2 : Thread), g2.once = .done → (∀ i, i < nStages → (lookup i g2.regs).isSome = true) →
          g2.threads = g.threads → (∀ k ops, t2.pc ≠ .initializing k ops) → Inv (setThread g2 tid t2) := by
        intro g2 t2 h1 h2 h3 h4
        refine ⟨fun h => by simp [setThread, h1] at h, fun tid' h => by simp [setThread, h1] at h, fun _ => ⟨h2, ?_⟩⟩
        intro t' ht' k ops
        simp only [setThread, h3] at ht'
        rcases mem_set_cases _ _ _ _ ht' with rfl | ⟨j, _, hj⟩
        · exact h4 k ops
        · exact hni t' (List.mem_iff_getElem?.mpr ⟨j, hj⟩) k ops
      cases todo with
      | nil =>
        simp only [Option.some.injEq] at hs; subst hs
        exact keep g _ honce hb rfl (by simp)
      | cons op todo' =>
        cases op with
        | read k =>
          simp only [Option.some.injEq] at hs; subst hs
          exact keep g _ honce hb rfl (by simp)
        | insert k v =>
          simp only [Option.some.injEq] at hs; subst hs
          refine keep { g with regs := (k, v) :: g.regs } _ honce (fun i hi4 => ?_) rfl (by simp)
          simp only [lookup_cons]
          by_cases e : k = i
          · simp [e]
          · simp only [e, if_false]; exact hb i hi4

theorem inv_reachable (programs : List (List (List Op))) (g : G) (h : Reachable (init programs) g) : Inv g := by
  induction h with
  | refl => exact inv_init programs
  | step _ hs ih => exact inv_step _ _ _ ih hs

/-- **No thread ever observes a partially initialised table.** In every reachable state, for every
number of threads, programs and schedule: a thread that is past `init()` (about to read or insert
a registry entry) sees the once-cell `done`, and then every built-in is registered. -/
theorem init_safe (programs : List (List (List Op))) (g : G) (h : Reachable (init programs) g)
    (tid : Nat) (t : Thread) (todo : List Op) (ht : g.threads[tid]? = some t) (hpc : t.pc = .running todo) :
    g.once = .done ∧ ∀ i, i < nStages → (lookup i g.regs).isSome = true := by
  have hi := inv_reachable programs g h
  have hm : t ∈ g.threads := List.mem_iff_getElem?.mpr ⟨tid, ht⟩
  cases ho : g.once with
  | uninit => have := (hi.uninit ho).2 t hm; rw [hpc] at this; cases this
  | done => exact ⟨rfl, (hi.done ho).1⟩
  | running o =>
    obtain ⟨⟨t0, k0, ops0, hg0, hpc0, _⟩, hothers⟩ := hi.running o ho
    by_cases e : tid = o
    · subst e; rw [ht] at hg0; cases hg0; rw [hpc] at hpc0; cases hpc0
    · have := hothers tid t ht e; rw [hpc] at this; cases this

/-- While a thread is initialising, every other thread's first call is held at `init()`: it has
made no registry access (`step` for it is not enabled). -/
theorem others_blocked (g : G) (o tid : Nat) (t : Thread) (ho : g.once = .running o) (ht : g.threads[tid]? = some t)
    (hpc : t.pc = .start) : step g tid = none := by
  unfold step
  simp only [ht, hpc]
  cases t.calls with
  | nil => rfl
  | cons c r => simp [ho]

/-- A registration made through the API happens after initialisation completed, so initialisation
can never overwrite it: a user insert is only enabled in the `done` state, and from then on no
built-in stage runs (`Inv.done`: nobody is initialising). The registered value is what the next
read returns. -/
theorem user_insert_after_builtins (programs : List (List (List Op))) (g g' : G) (h : Reachable (init programs) g)
    (tid : Nat) (t : Thread) (k v : Nat) (todo : List Op)
    (ht : g.threads[tid]? = some t) (hpc : t.pc = .running (.insert k v :: todo)) (hs : step g tid = some g') :
    g.once = .done ∧ lookup k g'.regs = some v ∧ g'.once = .done := by
  have h1 := (init_safe programs g h tid t _ ht hpc).1
  unfold step at hs
  simp only [ht, hpc, Option.some.injEq] at hs
  subst hs
  exact ⟨h1, by simp [setThread, lookup_cons], by simp [setThread, h1]⟩

/-- Every read returns the latest preceding insert for its key in schedule order (reads and inserts
are single atomic steps on one list; the most recent insert is found first). -/
theorem read_latest (regs : List (Nat × Nat)) (k v : Nat) (later : List (Nat × Nat)) (h : ∀ e ∈ later, e.1 ≠ k) :
    lookup k (later ++ (k, v) :: regs) = some v := by
  induction later with
  | nil => simp [lookup_cons]
  | cons e l ih =>
    obtain ⟨k', v'⟩ := e
    have := h (k', v') (by simp)
    simp only [List.cons_append, lookup_cons]
    simp only at this
    simp [this, ih (fun e he => h e (by simp [he]))]

/-- **No deadlock**: in a reachable state, if some thread still has work, some thread is enabled.
(The only blocking is at `init()` while another thread initialises, and that thread is enabled.) -/
theorem progress (programs : List (List (List Op))) (g : G) (h : Reachable (init programs) g)
    (tid : Nat) (t : Thread) (ht : g.threads[tid]? = some t) (hwork : t.done = false) :
    ∃ j g', step g j = some g' := by
  have hi := inv_reachable programs g h
  cases hpc : t.pc with
  | initializing k ops =>
    refine ⟨tid, ?_⟩
    unfold step; simp only [ht, hpc]
    by_cases e : k + 1 = nStages <;> simp [e]
  | running todo =>
    refine ⟨tid, ?_⟩
    unfold step; simp only [ht, hpc]
    cases todo with
    | nil => exact ⟨_, rfl⟩
    | cons op r => cases op <;> exact ⟨_, rfl⟩
  | start =>
    have hcalls : t.calls ≠ [] := by
      intro e; simp [Thread.done, hpc, e] at hwork
    cases hc : t.calls with
    | nil => exact absurd hc hcalls
    | cons c rest =>
      cases ho : g.once with
      | uninit => exact ⟨tid, by unfold step; simp [ht, hpc, hc, ho]⟩
      | done => exact ⟨tid, by unfold step; simp [ht, hpc, hc, ho]⟩
      | running o =>
        obtain ⟨⟨t0, k0, ops0, hg0, hpc0, _⟩, _⟩ := hi.running o ho
        refine ⟨o, ?_⟩
        unfold step; simp only [hg0, hpc0]
        by_cases e : k0 + 1 = nStages <;> simp [e]

/-! ## Registrations vs multi-read evaluations

The full-strength statement — *every call's result equals its result in some sequential order of
the calls* — quantifies over calls that read the registry several times (an evaluation looks a name
up once per occurrence). It is **false** of the code and of the model; the witness is the schedule
of the known finding. What holds is atomicity per registry operation (`read_latest`). -/

/-- Thread 0: one evaluation reading key 7 twice. Thread 1: `register` key 7 := 2 (key 7 := 1 was
registered before). -/
def mrPrograms : List (List (List Op)) := [[[.insert 7 1], [.read 7, .read 7]], [[.insert 7 2]]]
/-- The schedule: thread 0 initialises (1+4 steps), registers 7:=1 (2 steps), starts its evaluation and
does the first read; thread 1 registers 7:=2; thread 0 does the second read. -/
def mrSchedule : List Nat := [0, 0, 0, 0, 0, 0, 0, 0, 0, 1, 1, 0]

/-- Results of a call sequence run alone on one thread (the sequential reference). -/
def sequentialOuts (calls : List (List Op)) : List (Option Nat) :=
  match (run (init [calls]) (List.replicate 64 0)).threads[0]? with
  | some t => t.out
  | none => []

/-- In the interleaved run the evaluation of thread 0 read `[some 1, some 2]` for the same key. -/
theorem multiread_witness :
    ((run (init mrPrograms) mrSchedule).threads[0]?.map (·.out)) = some [some 2, some 1] := by decide

/-- In every sequential order of the three calls the two reads of one evaluation agree. -/
theorem multiread_sequential :
    sequentialOuts [[.insert 7 1], [.insert 7 2], [.read 7, .read 7]] = [some 2, some 2] ∧
    sequentialOuts [[.insert 7 1], [.read 7, .read 7], [.insert 7 2]] = [some 1, some 1] ∧
    sequentialOuts [[.insert 7 2], [.insert 7 1], [.read 7, .read 7]] = [some 1, some 1] := by decide

/-- **The full-strength atomicity statement is false** (known finding): the interleaved evaluation's
reads differ from its reads in every sequential order of the same three calls. -/
theorem violated_multiread :
    ∀ order ∈ [[[Op.insert 7 1], [Op.insert 7 2], [Op.read 7, Op.read 7]],
               [[Op.insert 7 1], [Op.read 7, Op.read 7], [Op.insert 7 2]],
               [[Op.insert 7 2], [Op.insert 7 1], [Op.read 7, Op.read 7]]],
      ((run (init mrPrograms) mrSchedule).threads[0]?.map (·.out)) ≠ some (sequentialOuts order) := by decide

/-- Tie (regenerated facts): one lock per registry, never nested, nothing called under a guard;
the global state is the five registries + once flag; every entry point initialises first. -/
theorem tie_lock_sites : ∀ s ∈ EE.Gen.lockSites, s.otherCalls = [] ∧ s.nestedLocks = 0 := EE.Tie.no_call_under_lock
theorem tie_entries : ∀ e ∈ EE.Gen.entryPoints, e.2.2 = true → e.2.1 = true := EE.Tie.entries_init_first

/-- Tie: each registration function is a single critical section (the `insert` step of the model is one
atomic step), and only the six writer functions modify a map under its guard. -/
theorem tie_writers_atomic :
    ∀ w ∈ EE.Tie.lockWriters, (EE.Gen.lockSites.filter (fun s => s.func = w)).length = 1 ∧
      ∀ s ∈ EE.Gen.lockSites, s.func = w → s.mutates = true := EE.Tie.writers_single_critical_section

/-- Why that obligation is needed: were a re-registration two critical sections — remove the old entry,
then insert the new one — the state between them would answer "not registered" for a name that is
registered before *and* after, a reading no sequential order of the calls allows. -/
theorem two_step_registration_window (regs : List (Nat × Nat)) (k : Nat) :
    lookup k (regs.filter (fun e => e.1 ≠ k)) = none := by
  induction regs with
  | nil => rfl
  | cons e r ih =>
    by_cases h : e.1 = k
    · have : (decide (e.1 ≠ k)) = false := by simp [h]
      simp only [List.filter, this]
      exact ih
    · have : (decide (e.1 ≠ k)) = true := by simp [h]
      simp only [List.filter, this, lookup, h, if_false]
      exact ih
example : lookup 7 [(7, 1)] = some 1 ∧ lookup 7 ([(7, 1)].filter (fun e => e.1 ≠ 7)) = none ∧
    lookup 7 ((7, 2) :: [(7, 1)].filter (fun e => e.1 ≠ 7)) = some 2 := by decide

/-! Non-vacuity: a reachable state in which two threads are past init and one is mid-evaluation. -/
example : (run (init mrPrograms) mrSchedule).once = .done := by decide

end EE.Props.C13
