import EE.Model.Program
namespace EE.Props.C03
theorem placeholder : True := trivial
end EE.Props.C03
