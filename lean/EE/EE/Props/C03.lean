import EE.Props.C09
import EE.Props.C17
import EE.Props.C07
/-! # C03 — built-in operators and functions compute the documented values

The built-in handlers are characterised operator group by operator group against the mathematical
reading of their operands: numbers by the rational they denote (`d.num / 10^d.scale`, statements
cross-multiplied), integral operands of bit operators by the integer they denote (whatever the
scale), structural equality with numeric leaves, first-decisive folds for `AND`/`OR`. The model
computes these the way the code does (typed accessor, checked operation; integer operands through
decimal text and an `i64` parse), so the statements are not restatements of the definitions.
Evaluation of whole trees is covered by `EE.Props.C07.exec_sound` (big-step semantics) with
these handlers plugged in. -/
namespace EE.Props.C03
open EE

/-- `d` denotes the integer `n` (whatever scale it is stored with). -/
def denotesInt (d : Dec) (n : Int) : Prop := d.num = n * 10 ^ d.scale
def inI64 (n : Int) : Prop := -9223372036854775808 ≤ n ∧ n ≤ 9223372036854775807

/-! ## Arithmetic: exact decimal operations on numbers, an error on anything else -/
theorem arith (op : Name) (h : op ∈ decNames) (a b : Dec) :
    builtinInfix op (.num a) (.num b) = (decOp op a b).bind fun d => .ok (.num d) := by
  simp only [decNames, List.mem_cons, List.mem_nil_iff, or_false] at h
  rcases h with rfl | rfl | rfl | rfl | rfl <;> rfl

theorem arith_ops (a b : Dec) :
    decOp ['+'] a b = Dec.add a b ∧ decOp ['-'] a b = Dec.sub a b ∧ decOp ['*'] a b = Dec.mul a b ∧
    decOp ['/'] a b = Dec.div a b ∧ decOp ['%'] a b = Dec.rem a b := ⟨rfl, rfl, rfl, rfl, rfl⟩
-- exactness of add/sub/mul/rem: EE.Props.C09.add_exact … rem_exact, fit_complete

/-- Exact quotient: when `/` returns a value `q`, then `q * b = a` as rationals. -/
theorem div_exact (a b q : Dec) (h : Dec.div a b = .ok q) :
    q.num * (b.num * 10 ^ a.scale) * 10 ^ maxScale = a.num * 10 ^ (b.scale + maxScale) * 10 ^ q.scale := by
  unfold Dec.div at h
  split at h
  · cases h
  · simp only [] at h
    split at h
    · rename_i hz hdiv
      have hf := (EE.Props.C09.fit_exact _ _ q h).1
      have hd : (a.num * ((10 ^ (b.scale + maxScale) : Nat) : Int)) / (b.num * ((10 ^ a.scale : Nat) : Int)) * (b.num * ((10 ^ a.scale : Nat) : Int))
          = a.num * ((10 ^ (b.scale + maxScale) : Nat) : Int) := Int.ediv_mul_cancel (Int.dvd_of_emod_eq_zero hdiv)
      simp only [Int.natCast_pow, Int.cast_ofNat_Int] at hd hf
      calc q.num * (b.num * 10 ^ a.scale) * 10 ^ maxScale
          = (q.num * 10 ^ maxScale) * (b.num * 10 ^ a.scale) := by
            simp only [Int.mul_assoc, Int.mul_comm, Int.mul_left_comm]
        _ = (a.num * 10 ^ (b.scale + maxScale) / (b.num * 10 ^ a.scale) * 10 ^ q.scale) * (b.num * 10 ^ a.scale) := by rw [hf]
        _ = (a.num * 10 ^ (b.scale + maxScale) / (b.num * 10 ^ a.scale) * (b.num * 10 ^ a.scale)) * 10 ^ q.scale := by
            simp only [Int.mul_assoc, Int.mul_comm, Int.mul_left_comm]
        _ = _ := by rw [hd]
    · split at h <;> cases h

/-! ## Ordering and equality -/
theorem ordering (a b : Dec) :
    builtinInfix ['<'] (.num a) (.num b) = .ok (.bool (Dec.lt a b)) ∧
    builtinInfix ['<', '='] (.num a) (.num b) = .ok (.bool (Dec.le a b)) ∧
    builtinInfix ['>'] (.num a) (.num b) = .ok (.bool (Dec.lt b a)) ∧
    builtinInfix ['>', '='] (.num a) (.num b) = .ok (.bool (Dec.le b a)) := ⟨rfl, rfl, rfl, rfl⟩
-- Dec.lt / Dec.le decide the order of the denoted rationals: EE.Props.C09.lt_by_value, le_by_value

theorem equality (v w : Value) :
    builtinInfix ['=', '='] v w = .ok (.bool (Value.beq v w)) ∧ builtinInfix ['!', '='] v w = .ok (.bool (!Value.beq v w)) := ⟨rfl, rfl⟩

/-- Structural equality: same variant and equal payloads, numbers by value, lists and maps
element-wise in order; values of different variants are never equal. -/
theorem beq_structural :
    (∀ a b : Dec, Value.beq (.num a) (.num b) = Dec.beq a b) ∧
    (∀ a b : Text, Value.beq (.str a) (.str b) = (a == b)) ∧
    (∀ a b : Bool, Value.beq (.bool a) (.bool b) = (a == b)) ∧
    Value.beq .none .none = true ∧
    (∀ (x y : Value) (xs ys : List Value), Value.beq (.list (x :: xs)) (.list (y :: ys)) = (Value.beq x y && Value.beq (.list xs) (.list ys))) ∧
    Value.beq (.list []) (.list []) = true ∧
    (∀ (d : Dec) (s : Text), Value.beq (.num d) (.str s) = false) ∧
    (∀ (d : Dec) (b : Bool), Value.beq (.num d) (.bool b) = false) ∧
    (∀ (d : Dec), Value.beq (.num d) .none = false ∧ Value.beq .none (.num d) = false) := by
  refine ⟨fun _ _ => rfl, fun _ _ => rfl, fun _ _ => rfl, rfl, fun _ _ _ _ => ?_, rfl, fun _ _ => rfl, fun _ _ => rfl, fun _ => ⟨rfl, rfl⟩⟩
  simp [Value.beq, Value.beqList]

mutual
theorem beq_refl : ∀ v : Value, Value.beq v v = true
  | .str s => by simp [Value.beq]
  | .num d => by simp [Value.beq, Dec.beq, Dec.cmpKey, Dec.align]
  | .bool b => by simp [Value.beq]
  | .none => rfl
  | .list vs => by simp [Value.beq, beqList_refl vs]
  | .map kvs => by simp [Value.beq, beqMap_refl kvs]
theorem beqList_refl : ∀ vs : List Value, Value.beqList vs vs = true
  | [] => rfl
  | v :: vs => by simp [Value.beqList, beq_refl v, beqList_refl vs]
theorem beqMap_refl : ∀ vs : List (Value × Value), Value.beqMap vs vs = true
  | [] => rfl
  | (k, v) :: r => by simp [Value.beqMap, beq_refl k, beq_refl v, beqMap_refl r]
end

/-! ## Boolean logic -/
theorem logic (a b : Bool) :
    builtinInfix ['&', '&'] (.bool a) (.bool b) = .ok (.bool (a && b)) ∧
    builtinInfix ['|', '|'] (.bool a) (.bool b) = .ok (.bool (a || b)) ∧
    builtinPrefix ['!'] (.bool a) = .ok (.bool (!a)) ∧ builtinPrefix ['n', 'o', 't'] (.bool a) = .ok (.bool (!a)) :=
  ⟨rfl, rfl, rfl, rfl⟩

/-- Both operands of `&&` / `||` are type-checked: no short-circuit, never a coerced value. -/
theorem logic_illtyped (v w : Value) (h : (∀ b, v ≠ .bool b) ∨ (∀ b, w ≠ .bool b)) :
    (builtinInfix ['&', '&'] v w).isErr = true ∧ (builtinInfix ['|', '|'] v w).isErr = true := by
  rcases h with h | h
  · cases v <;> first | exact absurd rfl (h _) | (constructor <;> rfl)
  · cases v <;> cases w <;> first | exact absurd rfl (h _) | (constructor <;> rfl)

/-! ## Bit operators: 64-bit two's complement on the integers the operands denote -/
theorem integer_operand (d : Dec) (n : Int) (h : denotesInt d n) (hr : inI64 n) : (Value.num d).integer = .ok n :=
  (EE.Props.C17.integer_iff d n).mpr ⟨h, hr.1, hr.2⟩

theorem bitops (a b : Dec) (x y : Int) (ha : denotesInt a x) (hx : inI64 x) (hb : denotesInt b y) (hy : inI64 y) :
    builtinInfix ['|'] (.num a) (.num b) = .ok (Value.ofInt (bv x ||| bv y).toInt) ∧
    builtinInfix ['&'] (.num a) (.num b) = .ok (Value.ofInt (bv x &&& bv y).toInt) ∧
    builtinInfix ['^'] (.num a) (.num b) = .ok (Value.ofInt (bv x ^^^ bv y).toInt) ∧
    builtinInfix ['<', '<'] (.num a) (.num b) =
      (if 0 ≤ y ∧ y ≤ 63 then .ok (Value.ofInt (bv x <<< y.toNat).toInt) else .err .invalidShiftCount) ∧
    builtinInfix ['>', '>'] (.num a) (.num b) =
      (if 0 ≤ y ∧ y ≤ 63 then .ok (Value.ofInt ((bv x).sshiftRight y.toNat).toInt) else .err .invalidShiftCount) := by
  have h1 := integer_operand a x ha hx
  have h2 := integer_operand b y hb hy
  have e : ∀ op, intBin op (.num a) (.num b) = (intOp op x y).bind fun n => .ok (Value.ofInt n) := by
    intro op; simp only [intBin, h1, h2, Res.bind]
  refine ⟨?_, ?_, ?_, ?_, ?_⟩
  · show intBin ['|'] _ _ = _; rw [e]; rfl
  · show intBin ['&'] _ _ = _; rw [e]; rfl
  · show intBin ['^'] _ _ = _; rw [e]; rfl
  · show intBin ['<', '<'] _ _ = _; rw [e]
    by_cases hc : 0 ≤ y ∧ y ≤ 63 <;> simp [intOp, intOpClass, hc, Res.bind]
  · show intBin ['>', '>'] _ _ = _; rw [e]
    by_cases hc : 0 ≤ y ∧ y ≤ 63 <;> simp [intOp, intOpClass, hc, Res.bind]

/-- A non-integral or out-of-range operand of a bit operator is an error, never truncated. -/
theorem bitops_reject (a b : Dec) (h : ¬ ∃ n, denotesInt a n ∧ inI64 n) :
    (builtinInfix ['|'] (.num a) (.num b)).isErr = true ∧ (builtinInfix ['<', '<'] (.num a) (.num b)).isErr = true := by
  have : (Value.num a).integer = .err .invalidInteger :=
    EE.Props.C17.integer_rejects a (fun ⟨n, h1, h2, h3⟩ => h ⟨n, h1, h2, h3⟩)
  constructor <;> simp [builtinInfix, infixClass, decNames, intNames, cmpNames, intBin, this, Res.bind, Res.isErr]

/-- `>>` is the arithmetic shift: it keeps the sign. -/
example : builtinInfix ['>', '>'] (.num ⟨true, 8, 0⟩) (.num ⟨false, 1, 0⟩) = .ok (.num ⟨true, 4, 0⟩) := by rfl
example : builtinInfix ['>', '>'] (.num ⟨true, 1, 0⟩) (.num ⟨false, 63, 0⟩) = .ok (.num ⟨true, 1, 0⟩) := by rfl

/-! ## Strings and membership -/
theorem strings (a b : Text) :
    builtinInfix ['b', 'e', 'g', 'i', 'n', 'W', 'i', 't', 'h'] (.str a) (.str b) = .ok (.bool (b.isPrefixOf a)) ∧
    builtinInfix ['e', 'n', 'd', 'W', 'i', 't', 'h'] (.str a) (.str b) = .ok (.bool (b.isSuffixOf a)) := ⟨rfl, rfl⟩

/-- `x in l`: true iff some element of the list equals `x` (structurally). -/
theorem membership (x : Value) (l : List Value) :
    builtinInfix ['i', 'n'] x (.list l) = .ok (.bool (l.any fun it => Value.beq it x)) := rfl

/-! ## AND / OR: first decisive element; min / max / sum / mul -/
theorem all_true (vs : List Value) (h : ∀ v ∈ vs, v = .bool true) : allBool vs = .ok true := by
  induction vs with
  | nil => rfl
  | cons v vs ih =>
    have := h v (by simp)
    subst this
    simp [allBool, Value.bool', ih (fun v hv => h v (by simp [hv]))]

/-- `AND` is false as soon as a false is reached, whatever follows it (even a non-boolean). -/
theorem and_first_false (pre post : List Value) (h : ∀ v ∈ pre, v = .bool true) :
    allBool (pre ++ .bool false :: post) = .ok false := by
  induction pre with
  | nil => simp [allBool, Value.bool']
  | cons v vs ih =>
    have := h v (by simp)
    subst this
    simp [allBool, Value.bool', ih (fun v hv => h v (by simp [hv]))]

/-- … and an error if a non-boolean is reached first. -/
theorem and_nonbool (pre post : List Value) (x : Value) (h : ∀ v ∈ pre, v = .bool true) (hx : ∀ b, x ≠ .bool b) :
    allBool (pre ++ x :: post) = .err .shouldBeBool := by
  induction pre with
  | nil => cases x <;> first | exact absurd rfl (hx _) | simp [allBool, Value.bool']
  | cons v vs ih =>
    have := h v (by simp)
    subst this
    simp [allBool, Value.bool', ih (fun v hv => h v (by simp [hv]))]

theorem or_first_true (pre post : List Value) (h : ∀ v ∈ pre, v = .bool false) :
    anyBool (pre ++ .bool true :: post) = .ok true := by
  induction pre with
  | nil => simp [anyBool, Value.bool']
  | cons v vs ih =>
    have := h v (by simp)
    subst this
    simp [anyBool, Value.bool', ih (fun v hv => h v (by simp [hv]))]

theorem aggregates_empty : allBool [] = .ok true ∧ anyBool [] = .ok false := ⟨rfl, rfl⟩

/-! ## The `+` and `*` handlers are commutative on *values*: same number, or the same error -/
theorem plus_comm_numbers (a b : Dec) : builtinInfix ['+'] (.num a) (.num b) = builtinInfix ['+'] (.num b) (.num a) := by
  rw [arith ['+'] (by decide), arith ['+'] (by decide), (arith_ops a b).1, (arith_ops b a).1, EE.Props.C09.add_comm]
theorem times_comm_numbers (a b : Dec) : builtinInfix ['*'] (.num a) (.num b) = builtinInfix ['*'] (.num b) (.num a) := by
  rw [arith ['*'] (by decide), arith ['*'] (by decide), (arith_ops a b).2.2.1, (arith_ops b a).2.2.1, EE.Props.C09.mul_comm]
/-- `a - b` is `a + (-b)` at the handler level. -/
theorem minus_is_plus_neg (a b : Dec) : builtinInfix ['-'] (.num a) (.num b) = builtinInfix ['+'] (.num a) (.num (Dec.neg' b)) := by
  rw [arith ['-'] (by decide), arith ['+'] (by decide), (arith_ops a b).2.1, (arith_ops a (Dec.neg' b)).1, EE.Props.C09.sub_eq_add_neg]

/-! ## `min` / `max`: the result is one of the arguments and no argument is below / above it -/
theorem bind_ok {α β : Type} {r : Res α} {f : α → Res β} {b : β} (h : r.bind f = .ok b) :
    ∃ a, r = .ok a ∧ f a = .ok b := by
  cases r <;> simp [Res.bind] at h
  exact ⟨_, rfl, h⟩

theorem decimal_ok {v : Value} {d : Dec} (h : v.decimal = .ok d) : v = .num d := by
  cases v <;> simp [Value.decimal] at h
  rw [h]

theorem minLoop_spec : ∀ (vs : List Value) (m : Option Dec) (r : Dec), minLoop m vs = .ok (some r) →
    (∀ x, m = some x → Dec.lt x r = false) ∧ (∀ d, Value.num d ∈ vs → Dec.lt d r = false) ∧
    (m = some r ∨ Value.num r ∈ vs)
  | [], m, r, h => by
    simp only [minLoop, Res.ok.injEq] at h
    subst h
    exact ⟨fun x hx => (by cases hx; exact EE.Props.C09.lt_irrefl _), fun d hd => (by cases hd), .inl rfl⟩
  | v :: vs, m, r, h => by
    unfold minLoop at h
    obtain ⟨d, hd, h2⟩ := bind_ok h
    clear h
    have hv := decimal_ok hd
    subst hv
    clear hd
    have h := h2
    clear h2
    cases m with
    | none =>
      dsimp only at h
      obtain ⟨i1, i2, i3⟩ := minLoop_spec vs (some d) r h
      refine ⟨fun x hx => (by cases hx), ?_, ?_⟩
      · intro e he
        rcases List.mem_cons.mp he with he | he
        · cases he; exact i1 d rfl
        · exact i2 e he
      · rcases i3 with i3 | i3
        · cases i3; exact .inr (List.mem_cons_self)
        · exact .inr (List.mem_cons_of_mem _ i3)
    | some x =>
      dsimp only at h
      by_cases hlt : Dec.lt d x = true
      · rw [if_pos hlt] at h
        obtain ⟨i1, i2, i3⟩ := minLoop_spec vs (some d) r h
        have hdr := i1 d rfl
        refine ⟨?_, ?_, ?_⟩
        · intro y hy
          cases hy
          cases hxr : Dec.lt x r with
          | false => rfl
          | true => have := EE.Props.C09.lt_trans d x r hlt hxr; rw [hdr] at this; cases this
        · intro e he
          rcases List.mem_cons.mp he with he | he
          · cases he; exact hdr
          · exact i2 e he
        · rcases i3 with i3 | i3
          · cases i3; exact .inr (List.mem_cons_self)
          · exact .inr (List.mem_cons_of_mem _ i3)
      · rw [if_neg hlt] at h
        obtain ⟨i1, i2, i3⟩ := minLoop_spec vs (some x) r h
        have hxr := i1 x rfl
        refine ⟨fun y hy => (by cases hy; exact hxr), ?_, ?_⟩
        · intro e he
          rcases List.mem_cons.mp he with he | he
          · cases he
            cases hdr : Dec.lt d r with
            | false => rfl
            | true =>
              rcases EE.Props.C09.lt_cotrans d x r hdr with h' | h'
              · exact absurd h' hlt
              · rw [hxr] at h'; cases h'
          · exact i2 e he
        · rcases i3 with i3 | i3
          · exact .inl i3
          · exact .inr (List.mem_cons_of_mem _ i3)

/-- **`min(args)`**: when it returns a value, that value is one of the arguments and no argument is smaller. -/
theorem min_spec (args : List Value) (v : Value) (h : builtinFn ['m', 'i', 'n'] args = .ok v) :
    ∃ r, v = .num r ∧ Value.num r ∈ args ∧ ∀ d, Value.num d ∈ args → Dec.lt d r = false := by
  have hc : fnClass ['m', 'i', 'n'] = .min := by decide
  unfold builtinFn at h
  rw [hc] at h
  dsimp only at h
  obtain ⟨m, hm, h⟩ := bind_ok h
  cases m with
  | none => cases h
  | some r =>
    simp only [Res.ok.injEq] at h
    obtain ⟨_, i2, i3⟩ := minLoop_spec args none r hm
    refine ⟨r, h.symm, ?_, i2⟩
    rcases i3 with i3 | i3
    · cases i3
    · exact i3

theorem maxLoop_spec : ∀ (vs : List Value) (m : Option Dec) (r : Dec), maxLoop m vs = .ok (some r) →
    (∀ x, m = some x → Dec.lt r x = false) ∧ (∀ d, Value.num d ∈ vs → Dec.lt r d = false) ∧
    (m = some r ∨ Value.num r ∈ vs)
  | [], m, r, h => by
    simp only [maxLoop, Res.ok.injEq] at h
    subst h
    exact ⟨fun x hx => (by cases hx; exact EE.Props.C09.lt_irrefl _), fun d hd => (by cases hd), .inl rfl⟩
  | v :: vs, m, r, h => by
    unfold maxLoop at h
    obtain ⟨d, hd, h2⟩ := bind_ok h
    clear h
    have hv := decimal_ok hd
    subst hv
    clear hd
    have h := h2
    clear h2
    cases m with
    | none =>
      dsimp only at h
      obtain ⟨i1, i2, i3⟩ := maxLoop_spec vs (some d) r h
      refine ⟨fun x hx => (by cases hx), ?_, ?_⟩
      · intro e he
        rcases List.mem_cons.mp he with he | he
        · cases he; exact i1 d rfl
        · exact i2 e he
      · rcases i3 with i3 | i3
        · cases i3; exact .inr (List.mem_cons_self)
        · exact .inr (List.mem_cons_of_mem _ i3)
    | some x =>
      dsimp only at h
      by_cases hlt : Dec.lt x d = true
      · rw [if_pos hlt] at h
        obtain ⟨i1, i2, i3⟩ := maxLoop_spec vs (some d) r h
        have hdr := i1 d rfl
        refine ⟨?_, ?_, ?_⟩
        · intro y hy
          cases hy
          cases hxr : Dec.lt r x with
          | false => rfl
          | true => have := EE.Props.C09.lt_trans r x d hxr hlt; rw [hdr] at this; cases this
        · intro e he
          rcases List.mem_cons.mp he with he | he
          · cases he; exact hdr
          · exact i2 e he
        · rcases i3 with i3 | i3
          · cases i3; exact .inr (List.mem_cons_self)
          · exact .inr (List.mem_cons_of_mem _ i3)
      · rw [if_neg hlt] at h
        obtain ⟨i1, i2, i3⟩ := maxLoop_spec vs (some x) r h
        have hxr := i1 x rfl
        refine ⟨fun y hy => (by cases hy; exact hxr), ?_, ?_⟩
        · intro e he
          rcases List.mem_cons.mp he with he | he
          · cases he
            cases hdr : Dec.lt r d with
            | false => rfl
            | true =>
              rcases EE.Props.C09.lt_cotrans r x d hdr with h' | h'
              · rw [hxr] at h'; cases h'
              · exact absurd h' hlt
          · exact i2 e he
        · rcases i3 with i3 | i3
          · exact .inl i3
          · exact .inr (List.mem_cons_of_mem _ i3)

/-- **`max(args)`**: when it returns a value, that value is one of the arguments and no argument is larger. -/
theorem max_spec (args : List Value) (v : Value) (h : builtinFn ['m', 'a', 'x'] args = .ok v) :
    ∃ r, v = .num r ∧ Value.num r ∈ args ∧ ∀ d, Value.num d ∈ args → Dec.lt r d = false := by
  have hc : fnClass ['m', 'a', 'x'] = .max := by decide
  unfold builtinFn at h
  rw [hc] at h
  dsimp only at h
  obtain ⟨m, hm, h⟩ := bind_ok h
  cases m with
  | none => cases h
  | some r =>
    simp only [Res.ok.injEq] at h
    obtain ⟨_, i2, i3⟩ := maxLoop_spec args none r hm
    refine ⟨r, h.symm, ?_, i2⟩
    rcases i3 with i3 | i3
    · cases i3
    · exact i3

/-! ## Wrong operand type: an error, never a coerced value -/
theorem illtyped_arith (op : Name) (h : op ∈ decNames) (v w : Value) (hv : (∀ d, v ≠ .num d) ∨ (∀ d, w ≠ .num d)) :
    (builtinInfix op v w).isErr = true := by
  simp only [decNames, List.mem_cons, List.mem_nil_iff, or_false] at h
  rcases hv with hv | hv
  · rcases h with rfl | rfl | rfl | rfl | rfl <;> cases v <;> first | exact absurd rfl (hv _) | rfl
  · rcases h with rfl | rfl | rfl | rfl | rfl <;> cases v <;> cases w <;>
      first | exact absurd rfl (hv _) | rfl | simp [builtinInfix, infixClass, decNames, intNames, cmpNames, decBin, Value.decimal, Res.bind, Res.isErr]

theorem illtyped_membership (x v : Value) (hv : ∀ l, v ≠ .list l) : (builtinInfix ['i', 'n'] x v).isErr = true := by
  cases v <;> first | exact absurd rfl (hv _) | rfl

theorem illtyped_strings (v w : Value) (hv : (∀ s, v ≠ .str s) ∨ (∀ s, w ≠ .str s)) :
    (builtinInfix ['b', 'e', 'g', 'i', 'n', 'W', 'i', 't', 'h'] v w).isErr = true := by
  rcases hv with hv | hv
  · cases v <;> first | exact absurd rfl (hv _) | rfl
  · cases v <;> cases w <;> first | exact absurd rfl (hv _) | rfl

/-- Conditional selection, list and map construction and whole-tree evaluation: the big-step
semantics, which the evaluator is proved to satisfy. -/
theorem eval_spec {σ : Type} (inv : Inv σ) (hinv : EE.Props.C07.HandlersClean inv) (t : AST) (w : World σ) (hw : w.Clean) :
    EE.Spec.Eval inv t w (exec inv t w) := EE.Props.C07.exec_sound inv hinv t w hw

end EE.Props.C03
