import EE.Model.Program
namespace EE.Props.C04
theorem placeholder : True := trivial
end EE.Props.C04
