import EE.Lemmas.StdInv
/-! # C04 — runtime faults surface as Err: no panic, no silently wrapped number

Outcomes: `ok`, `err`, `panic`, `deadlock`, `hang`, and `unmodelled` (decimal results in the zone
where `rust_decimal` rounds: the model makes no claim about the *value* there, but the outcome is
still a value or an error in the library — see DESIGN §3.2). `NoFault` = not panic, not deadlock,
not hang. The model has no "wrapped" outcome at all: every bit operation is defined on the
mathematical integer (via `BitVec 64`), and a shift count outside 0..=63 is an `err`; that the
release build agrees is checked by running the operand grid in both build profiles. -/
namespace EE.Props.C04
open EE

/-- Every built-in handler returns a value or an `Err` for every operand: never a panic. -/
theorem infix_handlers (op : Name) (l r : Value) : (builtinInfix op l r).NoFault := builtinInfix_noFault op l r
theorem prefix_handlers (op : Name) (v : Value) : (builtinPrefix op v).NoFault := builtinPrefix_noFault op v
theorem postfix_handlers (op : Name) (v : Value) : (builtinPostfix op v).NoFault := builtinPostfix_noFault op v
theorem functions (name : Name) (args : List Value) : (builtinFn name args).NoFault := builtinFn_noFault name args

/-! The faults the property names, one lemma each. -/

theorem div_by_zero (a b : Dec) (hb : b.isZero = true) : Dec.div a b = .err .divideByZero := by
  simp [Dec.div, hb]
theorem rem_by_zero (a b : Dec) (hb : b.isZero = true) : Dec.rem a b = .err .divideByZero := by
  simp [Dec.rem, hb]
theorem div_handler_zero (a b : Dec) (hb : b.isZero = true) :
    builtinInfix ['/'] (.num a) (.num b) = .err .divideByZero ∧ builtinInfix ['%'] (.num a) (.num b) = .err .divideByZero ∧
    builtinInfix ['/', '='] (.num a) (.num b) = .err .divideByZero ∧ builtinInfix ['%', '='] (.num a) (.num b) = .err .divideByZero := by
  refine ⟨?_, ?_, ?_, ?_⟩ <;>
    simp [builtinInfix, infixClass, decNames, intNames, cmpNames, decBin, Value.decimal, decOp, decOpClass, div_by_zero _ _ hb, rem_by_zero _ _ hb]

theorem normNS_spec (n : Int) : ∀ s : Nat, (Dec.normNS n s).2 ≤ s ∧ n = (Dec.normNS n s).1 * (10 : Int) ^ (s - (Dec.normNS n s).2)
  | 0 => by simp [Dec.normNS]
  | s + 1 => by
    unfold Dec.normNS
    split
    · rename_i h
      have ih := normNS_spec (n / 10) s
      refine ⟨by omega, ?_⟩
      have h10 : n = n / 10 * 10 := by omega
      have e : s + 1 - (Dec.normNS (n / 10) s).2 = (s - (Dec.normNS (n / 10) s).2) + 1 := by omega
      rw [e, Int.pow_succ, ← Int.mul_assoc, ← ih.2]
      exact h10
    · simp

/-- Decimal overflow: when the exact result's integer part does not fit 96 bits the outcome is
`err numberOverflow` — never a wrapped or truncated number. -/
theorem overflow_is_err (n : Int) (s : Nat) (h : mantLimit ≤ n.natAbs / 10 ^ s) :
    Dec.fit n s = .err .numberOverflow := by
  have hs := normNS_spec n s
  unfold Dec.fit
  generalize Dec.normNS n s = p at hs
  obtain ⟨n', s'⟩ := p
  simp only [] at hs ⊢
  have hbig : mantLimit ≤ n'.natAbs := by
    have hn : n.natAbs = n'.natAbs * 10 ^ (s - s') := by
      have := congrArg Int.natAbs hs.2
      rw [Int.natAbs_mul, Int.natAbs_pow] at this
      simpa using this
    have h1 : n.natAbs / 10 ^ s ≤ n'.natAbs := by
      rw [hn]
      have hpow : (10:Nat) ^ s = 10 ^ (s - s') * 10 ^ s' := by
        rw [← Nat.pow_add]; congr 1; omega
      rw [hpow, ← Nat.div_div_eq_div_mul, Nat.mul_div_cancel _ (Nat.pow_pos (by decide))]
      exact Nat.div_le_self _ _
    omega
  have : ¬ (s' ≤ maxScale ∧ n'.natAbs < mantLimit) := by omega
  simp [this, h]

/-- A shift count outside 0..=63 is an error, for both shifts and every left operand. -/
theorem shift_count (a b : Int) (h : b < 0 ∨ 63 < b) :
    intOp ['<', '<'] a b = .err .invalidShiftCount ∧ intOp ['>', '>'] a b = .err .invalidShiftCount := by
  have : ¬ (0 ≤ b ∧ b ≤ 63) := by omega
  simp [intOp, intOpClass, this]

/-- An aggregate with no arguments: `min()` / `max()` are errors; `sum()` = 0, `mul()` = 1. -/
theorem empty_aggregates :
    builtinFn ['m', 'i', 'n'] [] = .err .paramInvalid ∧ builtinFn ['m', 'a', 'x'] [] = .err .paramInvalid ∧
    builtinFn ['s', 'u', 'm'] [] = .ok (.num Dec.zero) ∧ builtinFn ['m', 'u', 'l'] [] = .ok (.num Dec.one) := by
  refine ⟨?_, ?_, ?_, ?_⟩ <;> rfl

/-- Type mismatches are errors: a bit operator on a non-number, arithmetic on a non-number. -/
theorem type_mismatch_examples (v : Value) (hv : ∀ d, v ≠ .num d) (w : Value) :
    (builtinInfix ['+'] v w).isErr = true ∧ (builtinInfix ['|'] v w).isErr = true ∧
    (builtinInfix ['<'] v w).isErr = true ∧ (builtinPrefix ['-'] v).isErr = true ∧ (builtinPostfix ['+', '+'] v).isErr = true := by
  cases v <;> first
    | exact absurd rfl (hv _)
    | simp [builtinInfix, infixClass, decNames, intNames, cmpNames, decBin, intBin, Value.decimal, Value.integer,
        builtinPrefix, prefixClass, builtinPostfix, postfixClass, Res.bind, Res.isErr]

/-- `execute` with the built-in handlers (and any user handlers that themselves return): the
evaluation of every tree from a clean world returns a value or an `Err`, and leaves the world clean. -/
theorem exec_noFault {σ : Type} (userInv : Nat → List Value → EngineM σ Value)
    (hu : ∀ id args, Keeps World.Clean (fun f => f = Fault.none) (userInv id args)) (t : AST) (w : World σ) (hw : w.Clean) :
    (exec (stdInv userInv) t w).1.fault = .none ∧ (exec (stdInv userInv) t w).2.Clean := by
  have := Keeps.exec (A := fun f => f = Fault.none) rfl stable_clean (stdInv_keeps (A := fun f => f = Fault.none) rfl userInv hu) t w hw
  exact ⟨this.2, this.1⟩

/-! Non-vacuity / witnesses: the faults evaluate to errors in the model (kernel-checked). -/
example : builtinInfix ['/'] (.num ⟨false, 1, 0⟩) (.num ⟨false, 0, 0⟩) = .err .divideByZero := by rfl
example : builtinInfix ['<', '<'] (.num ⟨false, 1, 0⟩) (.num ⟨false, 64, 0⟩) = .err .invalidShiftCount := by rfl
example : builtinInfix ['<', '<'] (.num ⟨false, 1, 0⟩) (.num ⟨false, 63, 0⟩) = .ok (.num ⟨true, 9223372036854775808, 0⟩) := by rfl
example : builtinInfix ['+'] (.num ⟨false, 79228162514264337593543950335, 0⟩) (.num ⟨false, 1, 0⟩) = .err .numberOverflow := by rfl
example : builtinInfix ['|'] (.num ⟨false, 15, 1⟩) (.num ⟨false, 1, 0⟩) = .err .invalidInteger := by rfl
example : builtinInfix ['|'] (.num ⟨false, 30, 1⟩) (.num ⟨false, 1, 0⟩) = .ok (.num ⟨false, 3, 0⟩) := by rfl

end EE.Props.C04
