import EE.Props.C16
import EE.Lemmas.StdInv
/-! # C06 — assignments update the context exactly as written -/
namespace EE.Props.C06
open EE EngineM

variable {σ : Type}

/-- What an observer sees of an outcome: the result, the context and the registrations
(not the trace of handler invocations, which names the handler that ran). -/
def obs {α : Type} (o : Res α × World σ) : Res α × CtxMap × Regs := (o.1, o.2.ctx, o.2.regs)

/-- A name that was never bound reads as None. -/
theorem unbound_reads_none (inv : Inv σ) (x : Name) (w : World σ) (hw : w.Clean) (hx : alookup x w.ctx = none) :
    exec inv (.ref x) w = (.ok Value.none, w) := by
  simp only [exec, ctxValue, bind'_ok (ctxGet_clean hw), hx]; rfl

/-- A bound variable reads as its value; later statements observe the binding made so far. -/
theorem bound_reads_value (inv : Inv σ) (x : Name) (v : Value) (w : World σ) (hw : w.Clean) (hx : alookup x w.ctx = some (.var v)) :
    exec inv (.ref x) w = (.ok v, w) := by
  simp only [exec, ctxValue, bind'_ok (ctxGet_clean hw), hx]; rfl

theorem set_then_get (x : Name) (v : Value) (w : World σ) (hw : w.Clean) :
    alookup x (ctxSet x (.var v) w).2.ctx = some (.var v) := by
  rw [ctxSet_clean hw]; simp [alookup_cons]

theorem set_other_unchanged (x y : Name) (v : Value) (w : World σ) (hw : w.Clean) (h : x ≠ y) :
    alookup y (ctxSet x (.var v) w).2.ctx = alookup y w.ctx := by
  rw [ctxSet_clean hw]; simp [alookup_cons, h]

/-- A program's value is the value of its last statement; statements run in program order, each
in the world its predecessors left; an empty program yields None. -/
theorem empty_program (inv : Inv σ) (w : World σ) : exec inv (.stmt []) w = (.ok Value.none, w) := rfl

theorem chain_step (inv : Inv σ) (last : Value) (e : AST) (es : List AST) (w w1 : World σ) (v : Value)
    (h : exec inv e w = (.ok v, w1)) : execChain inv last (e :: es) w = execChain inv v es w1 := by
  simp only [execChain, bind'_ok h]

theorem chain_last (inv : Inv σ) (last : Value) (w : World σ) : execChain inv last [] w = (.ok last, w) := rfl

/-- A failing statement ends the program with that failure, in the world (context) reached so
far: the bindings of the statements before it stay, nothing after it runs. -/
theorem chain_fails (inv : Inv σ) (last : Value) (e : AST) (es : List AST) (w w1 : World σ) (r : Res Value)
    (h : exec inv e w = (r, w1)) (hr : r.isOk = false) :
    (execChain inv last (e :: es) w).2 = w1 ∧ (execChain inv last (e :: es) w).1.isOk = false := by
  simp only [execChain]
  obtain ⟨r', hb, h1, _⟩ := bind'_notok (f := fun v => execChain inv v es) h hr
  rw [hb]; exact ⟨rfl, h1⟩

/-- **The assignment step.** With `op` registered as a SETTER whose handler is `h`: both sides
are evaluated (target first, then the right side), the handler's result is bound to the target
name, and the assignment itself yields None. -/
theorem setter_step (inv : Inv σ) (op x : Name) (e : AST) (cfg : InfixCfg) (w w1 w2 w3 : World σ) (a b v : Value)
    (hw : w.Clean) (hcfg : alookup op w.regs.inf = some cfg) (hs : cfg.setter = true)
    (ha : exec inv (.ref x) w = (.ok a, w1)) (hb : exec inv e w1 = (.ok b, w2))
    (hw2 : w2.Clean) (hcfg2 : alookup op w2.regs.inf = some cfg)
    (hv : invoke inv cfg.h [a, b] w2 = (.ok v, w3)) (hw3 : w3.Clean) :
    exec inv (.binary op (.ref x) e) w = (.ok Value.none, { w3 with ctx := (x, .var v) :: w3.ctx }) := by
  simp only [exec, bind'_ok (lookupE_some hw hcfg), hs, if_true]
  have h1 : exec inv (.ref x) w = (.ok a, w1) := ha
  simp only [exec] at h1
  simp only [bind'_ok h1, bind'_ok hb, refName, bind'_lift_ok, bind'_ok (lookupE_some hw2 hcfg2), bind'_ok hv,
    bind'_ok (ctxSet_clean hw3)]
  rfl

/-- An assignment whose target is not a plain name is an error (after both sides were evaluated). -/
theorem non_name_target (inv : Inv σ) (op : Name) (lhs e : AST) (cfg : InfixCfg) (w w1 w2 : World σ) (a b : Value)
    (hw : w.Clean) (hcfg : alookup op w.regs.inf = some cfg) (hs : cfg.setter = true)
    (hl : ∀ n, lhs ≠ .ref n)
    (ha : exec inv lhs w = (.ok a, w1)) (hb : exec inv e w1 = (.ok b, w2)) :
    exec inv (.binary op lhs e) w = (.err .notReferenceExpr, w2) := by
  simp only [exec, bind'_ok (lookupE_some hw hcfg), hs, if_true, bind'_ok ha, bind'_ok hb]
  have : refName lhs = .err .notReferenceExpr := by
    cases lhs <;> first | rfl | exact absurd rfl (hl _)
  simp [this]

/-- The compound assignment handlers compute exactly what the plain operators compute,
for all ten operators and all operand values. -/
theorem handlers_agree (a b : Value) :
    builtinInfix ['+', '='] a b = builtinInfix ['+'] a b ∧ builtinInfix ['-', '='] a b = builtinInfix ['-'] a b ∧
    builtinInfix ['*', '='] a b = builtinInfix ['*'] a b ∧ builtinInfix ['/', '='] a b = builtinInfix ['/'] a b ∧
    builtinInfix ['%', '='] a b = builtinInfix ['%'] a b ∧
    builtinInfix ['<', '<', '='] a b = builtinInfix ['<', '<'] a b ∧ builtinInfix ['>', '>', '='] a b = builtinInfix ['>', '>'] a b ∧
    builtinInfix ['&', '='] a b = builtinInfix ['&'] a b ∧ builtinInfix ['^', '='] a b = builtinInfix ['^'] a b ∧
    builtinInfix ['|', '='] a b = builtinInfix ['|'] a b := by
  refine ⟨?_, ?_, ?_, ?_, ?_, ?_, ?_, ?_, ?_, ?_⟩ <;> rfl

/-- Plain assignment: the handler of `=` returns its right operand. -/
theorem assign_handler (a b : Value) : builtinInfix ['='] a b = .ok b := rfl

/-- The compound operators, with the operator each expands to. -/
def compound : List (Name × Name) :=
  [(['+', '='], ['+']), (['-', '='], ['-']), (['*', '='], ['*']), (['/', '='], ['/']), (['%', '='], ['%']),
   (['<', '<', '='], ['<', '<']), (['>', '>', '='], ['>', '>']), (['&', '='], ['&']), (['^', '='], ['^']), (['|', '='], ['|'])]

/-- In the built-in table every compound operator is a SETTER bound to its own built-in handler and
the operator it expands to is a CALC operator bound to *its* built-in handler. -/
theorem compound_table : ∀ p ∈ compound,
    (∃ c, alookup p.1 Regs.builtin.inf = some c ∧ c.setter = true ∧ c.h = .builtinInfix p.1) ∧
    (∃ c, alookup p.2 Regs.builtin.inf = some c ∧ c.setter = false ∧ c.h = .builtinInfix p.2) := by decide

/-- **`x op= e` binds `x` to exactly what `x op e` yields** (and fails when that fails): with the
built-in table and handlers, whenever `x op e` evaluates to `v` from a world, `x op= e` from the
same world yields None and leaves a context in which `x` is bound to `v` and which otherwise equals
the context `x op e` left. Operands are evaluated once, target first. -/
theorem compound_is_expansion (userInv : Nat → List Value → EngineM σ Value) (p : Name × Name) (hp : p ∈ compound)
    (x : Name) (e : AST) (w w1 w2 : World σ) (a b : Value)
    (hw : w.Clean) (hregs : w.regs = Regs.builtin)
    (ha : exec (stdInv userInv) (.ref x) w = (.ok a, w1)) (hb : exec (stdInv userInv) e w1 = (.ok b, w2))
    (hw2 : w2.Clean) (hregs2 : w2.regs = Regs.builtin) :
    let plain := exec (stdInv userInv) (.binary p.2 (.ref x) e) w
    let comp := exec (stdInv userInv) (.binary p.1 (.ref x) e) w
    (∀ v, plain.1 = .ok v → comp.1 = .ok Value.none ∧ comp.2.ctx = (x, .var v) :: plain.2.ctx) ∧
    (plain.1.isOk = false → comp.1 = plain.1 ∧ comp.2.ctx = plain.2.ctx) := by
  obtain ⟨⟨c1, hc1, hs1, hh1⟩, ⟨c2, hc2, hs2, hh2⟩⟩ := compound_table p hp
  have hagree : builtinInfix p.1 a b = builtinInfix p.2 a b := by
    have := handlers_agree a b
    simp only [compound, List.mem_cons, List.mem_nil_iff, or_false] at hp
    rcases hp with rfl | rfl | rfl | rfl | rfl | rfl | rfl | rfl | rfl | rfl <;> simp only [this]
  have hl1 : alookup p.1 w.regs.inf = some c1 := by rw [hregs]; exact hc1
  have hl2 : alookup p.2 w.regs.inf = some c2 := by rw [hregs]; exact hc2
  have hl1' : alookup p.1 w2.regs.inf = some c1 := by rw [hregs2]; exact hc1
  have ha' := ha
  simp only [exec] at ha'
  -- the plain form
  have hplain : exec (stdInv userInv) (.binary p.2 (.ref x) e) w =
      (builtinInfix p.2 a b, { w2 with trace := w2.trace ++ [.call (.builtinInfix p.2) [a, b]] }) := by
    simp only [exec, bind'_ok (lookupE_some hw hl2), hs2, Bool.false_eq_true, if_false, bind'_ok ha', bind'_ok hb, hh2]
    rfl
  -- the compound form, up to the handler call
  intro plain comp
  have hcomp : comp = bind' (invoke (stdInv userInv) c1.h [a, b]) (fun v => bind' (ctxSet x (.var v)) fun _ => pure' Value.none) w2 := by
    show exec (stdInv userInv) (.binary p.1 (.ref x) e) w = _
    simp only [exec, bind'_ok (lookupE_some hw hl1), hs1, if_true, bind'_ok ha', bind'_ok hb, refName, bind'_lift_ok,
      bind'_ok (lookupE_some hw2 hl1')]
  have hinvk : invoke (stdInv userInv) c1.h [a, b] w2 =
      (builtinInfix p.2 a b, { w2 with trace := w2.trace ++ [.call (.builtinInfix p.1) [a, b]] }) := by
    rw [hh1, ← hagree]; rfl
  have hpl : plain = (builtinInfix p.2 a b, { w2 with trace := w2.trace ++ [.call (.builtinInfix p.2) [a, b]] }) := hplain
  refine ⟨fun v hv => ?_, fun hnok => ?_⟩
  · rw [hpl] at hv ⊢
    simp only at hv
    rw [hcomp, bind'_ok (by rw [hinvk, hv])]
    have hc : ({ w2 with trace := w2.trace ++ [Event.call (.builtinInfix p.1) [a, b]] } : World σ).Clean := hw2
    rw [bind'_ok (ctxSet_clean hc)]
    exact ⟨rfl, rfl⟩
  · rw [hpl] at hnok ⊢
    simp only at hnok
    obtain ⟨r', hb', _, _⟩ := bind'_notok (f := fun v => bind' (ctxSet x (.var v)) fun _ => pure' Value.none) hinvk hnok
    rw [hcomp]
    cases hres : builtinInfix p.2 a b with
    | ok v => rw [hres] at hnok; simp [Res.isOk] at hnok
    | err er => simp [bind', hinvk, hres]
    | panic => simp [bind', hinvk, hres]
    | deadlock => simp [bind', hinvk, hres]
    | hang => simp [bind', hinvk, hres]
    | unmodelled => simp [bind', hinvk, hres]

end EE.Props.C06
