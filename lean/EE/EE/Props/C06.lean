import EE.Model.Program
namespace EE.Props.C06
theorem placeholder : True := trivial
end EE.Props.C06
