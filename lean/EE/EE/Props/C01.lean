import EE.Model.Program
namespace EE.Props.C01
theorem placeholder : True := trivial
end EE.Props.C01
