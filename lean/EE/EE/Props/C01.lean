import EE.Lemmas.ParserTotal
import EE.Props.C05
import EE.Props.C10
import EE.Props.C04
import EE.Model.Program
/-! # C01 — parsing is total: every string gives Ok or Err, never a panic, abort or hang

Outcomes of model functions: `ok`, `err`, `panic` (where the Rust would unwind: a byte slice off
a character boundary, `usize` underflow, `unwrap` on `None`), `hang` (fuel exhausted),
`deadlock`, `unmodelled` (a numeric literal in `rust_decimal`'s rounding zone: > 28 fractional
digits — still a value or an `Err` in the library, the model just does not say which).
`NoFault` = not panic, not hang, not deadlock.

What a model cannot exhibit is the machine stack: "never aborts by stack exhaustion" is split
into a *logic* half — the parser's nesting and the height of every tree it returns are bounded by
`MAX_DEPTH` (theorems below) — and a *runtime* half — `MAX_DEPTH` frames fit the stack — which is
measured by the deep-input stream (2 MiB thread, debug and release), not proved. -/
namespace EE.Props.C01
open EE EE.Spec

/-- **The tokenizer is total** (every input, every operator set). -/
theorem tokenize_total (regs : Regs) (s : Text) : (tokenize regs s).NoFault := by
  have := EE.Props.C10.tokenize_total regs s
  exact ⟨this.1, this.2.2, this.2.1⟩

/-- **The parser is total on every token list**: the fuel `4·n + 8` handed out by `parseTokens`
is always enough, and no parser step can panic. -/
theorem parseTokens_total (regs : Regs) (hp : RegsPos regs) (lim : Nat) (hl : 1 ≤ lim) (toks : List Tok) :
    (parseTokens regs lim toks).NoFault := by
  unfold parseTokens
  refine NoFault.bind_of (parseStmts_total regs lim hl hp _ toks (by unfold parseFuel; omega)) fun ⟨xs, h⟩ _ => ?_
  dsimp only
  split
  · exact Res.NoFault.ok _
  · exact NoFault.bind_of (node_noFault _ _) fun _ _ => Res.NoFault.ok _

/-- **`parse_expression` is total**: for every string, `Ok`, `Err` (or a literal in the library's
rounding zone) — never a panic, never a hang. -/
theorem parse_total (regs : Regs) (hp : RegsPos regs) (s : Text) : (parseProgram regs s).NoFault := by
  unfold parseProgram
  exact NoFault.bind_of (tokenize_total regs s) fun sts _ => parseTokens_total regs hp maxDepth (by decide) _

theorem parse_total_builtin (s : Text) : (parseProgram Regs.builtin s).NoFault :=
  parse_total _ EE.Props.C05.builtin_pos s

/-- **Height bound**: every tree the parser returns has height at most `MAX_DEPTH` — so the
recursion of `exec`, `expr`, `describe`, `clone`, `drop`, `==` over it is bounded by the same
constant, whatever the input (a chain of 10⁶ operators is rejected, not built). -/
theorem height_bound (regs : Regs) (hp : RegsPos regs) (lim : Nat) (hl : 1 ≤ lim) (toks : List Tok) (a : AST)
    (h : parseTokens regs lim toks = .ok a) : a.height ≤ lim := by
  unfold parseTokens at h
  obtain ⟨⟨xs, hx⟩, hstm, h2⟩ := Res.bind_eq_ok h
  dsimp only at h2
  obtain ⟨_, hh, hle⟩ := parseStmts_sound regs lim hl hp _ toks xs hx hstm
  cases xs with
  | nil =>
    simp only at h2
    obtain ⟨hn, hnode, h3⟩ := Res.bind_eq_ok h2
    cases h3
    have := node_ok hnode
    simp [AST.height, AST.heightList] at hh ⊢; omega
  | cons x rest =>
    cases rest with
    | nil =>
      simp only at h2; cases h2
      simp [AST.heightList] at hh; omega
    | cons y rest' =>
      simp only at h2
      obtain ⟨hn, hnode, h3⟩ := Res.bind_eq_ok h2
      cases h3
      have := node_ok hnode
      simp only [AST.height]; omega

theorem height_bound_program (regs : Regs) (hp : RegsPos regs) (s : Text) (a : AST) (h : parseProgram regs s = .ok a) :
    a.height ≤ maxDepth := by
  unfold parseProgram at h
  obtain ⟨sts, _, h2⟩ := Res.bind_eq_ok h
  exact height_bound regs hp maxDepth (by decide) _ a h2

/-- The limit is the crate's `MAX_DEPTH` (regenerated from the source on every run) and it is 128:
removing or raising it changes `EE.Gen.maxDepth` and this theorem no longer checks. -/
theorem max_depth_is_128 : maxDepth = 128 := by decide

/-- **Nesting bound**: the parser refuses to enter an expression nested deeper than the limit
(`parse_expression`, the operand of a prefix operator and the continued right operand all count
their nesting in `d`), so its recursion depth is bounded by the limit as well. -/
theorem nesting_bound (regs : Regs) (lim fuel d : Nat) (toks : List Tok) (h : lim < d + 1) :
    parseExpression regs lim (fuel + 1) d toks = .err .nestingTooDeep := by
  unfold parseExpression
  simp [h]

/-- **Rendering is total**: `expr()` and `describe()` are total functions into text — the model
has no failure outcome for them at all (their index arithmetic `len() - 1` is guarded by the loop
bound in the code; in the model it is `joinWith`). -/
theorem render_total (regs : Regs) (dreg : DReg) (dinv : DInv) (t : AST) :
    ∃ s d : Text, expr regs t = s ∧ describe dreg dinv t = d := ⟨_, _, rfl, rfl⟩

/-- **`execute` is total** for handlers that themselves return (built-ins always do: C04). -/
theorem execute_total {σ : Type} (userInv : Nat → List Value → EngineM σ Value)
    (hu : ∀ id args, Keeps World.Clean (fun f => f = Fault.none) (userInv id args)) (t : AST) (w : World σ) (hw : w.Clean) :
    (exec (stdInv userInv) t w).1.fault = .none := (EE.Props.C04.exec_noFault userInv hu t w hw).1

end EE.Props.C01
