import EE.Lemmas.Engine
/-! `Keeps I A m`: started in a world satisfying the invariant `I`, the action `m` ends — whatever
its outcome — in a world satisfying `I`, and the abnormal part of its outcome is one that `A`
allows (`A .none` always holds: values and `Err`s are normal). Closed under the monad's
combinators; `exec` keeps every invariant, and stays within every allowance, that its handlers
and the map primitives do. Instances: `A = (· ≠ .deadlock)` with handlers that may panic (C14,
C15); `A = (· = .none)` with handlers that return (C04, C01). -/
namespace EE
open EngineM

variable {σ α β : Type}

def Keeps (I : World σ → Prop) (A : Fault → Prop) (m : EngineM σ α) : Prop :=
  ∀ w, I w → I (m w).2 ∧ A (m w).1.fault

namespace Keeps
variable {I : World σ → Prop} {A : Fault → Prop}

theorem pure (hA : A .none) (a : α) : Keeps I A (pure' a : EngineM σ α) := fun _ h => ⟨h, hA⟩
theorem fail (hA : A .none) (e : ErrKind) : Keeps I A (EngineM.fail e : EngineM σ α) := fun _ h => ⟨h, hA⟩
theorem lift (r : Res α) (hr : A r.fault) : Keeps I A (EngineM.lift r : EngineM σ α) := fun _ h => ⟨h, hr⟩

theorem bind {m : EngineM σ α} {f : α → EngineM σ β} (hm : Keeps I A m) (hf : ∀ a, Keeps I A (f a)) :
    Keeps I A (bind' m f) := by
  intro w hw
  have h1 := hm w hw
  rcases bind'_cases m f w with ⟨a, w', hmw, hb⟩ | ⟨r, w', hmw, _, r', hb, _, _, _, _, _, hd⟩
  · rw [hb]; rw [hmw] at h1; exact hf a w' h1.1
  · rw [hb]; rw [hmw] at h1; exact ⟨h1.1, by rw [hd]; exact h1.2⟩

end Keeps

/-- An invariant that does not look at the parts of the world the map primitives change. -/
structure Stable (I : World σ → Prop) : Prop where
  clean : ∀ w, I w → w.Clean
  ctx : ∀ w m, I w → I { w with ctx := m }
  trace : ∀ w t, I w → I { w with trace := t }

theorem Keeps.withCtx {I : World σ → Prop} {A : Fault → Prop} (hA : A .none) (hI : Stable I) (f : CtxMap → α × CtxMap) : Keeps I A (withCtx f) := by
  intro w hw
  rw [withCtx_clean (hI.clean w hw)]
  exact ⟨hI.ctx w _ hw, hA⟩

theorem Keeps.readRegs {I : World σ → Prop} {A : Fault → Prop} (hA : A .none) (hI : Stable I) : Keeps I A (readRegs : EngineM σ Regs) := by
  intro w hw
  rw [readRegs_clean (hI.clean w hw)]
  exact ⟨hw, hA⟩

theorem Keeps.lookupE {I : World σ → Prop} {A : Fault → Prop} (hA : A .none) (hI : Stable I) {γ : Type} (tbl : Regs → List (Name × γ)) (n : Name) (e : ErrKind) :
    Keeps I A (lookupE tbl n e) := by
  refine Keeps.bind (Keeps.readRegs hA hI) fun r => ?_
  cases alookup n (tbl r)
  · exact Keeps.fail hA _
  · exact Keeps.pure hA _

/-- Handlers keep the invariant (and do not deadlock on their own). -/
def InvKeeps (I : World σ → Prop) (A : Fault → Prop) (inv : Inv σ) : Prop := ∀ h args, Keeps I A (inv h args)

theorem Keeps.invoke {I : World σ → Prop} {A : Fault → Prop} (hA : A .none) (hI : Stable I) {inv : Inv σ} (hinv : InvKeeps I A inv) (h : HandlerId) (args : List Value) :
    Keeps I A (invoke inv h args) := by
  intro w hw
  exact hinv h args _ (hI.trace w _ hw)

theorem Keeps.ctxValue {I : World σ → Prop} {A : Fault → Prop} (hA : A .none) (hI : Stable I) {inv : Inv σ} (hinv : InvKeeps I A inv) (n : Name) :
    Keeps I A (ctxValue inv n) := by
  refine Keeps.bind (Keeps.withCtx hA hI _) fun r => ?_
  match r with
  | none => exact Keeps.pure hA _
  | some (.var v) => exact Keeps.pure hA _
  | some (.fn h) => exact Keeps.invoke hA hI hinv h []

theorem Keeps.ctxGetFunc {I : World σ → Prop} {A : Fault → Prop} (hA : A .none) (hI : Stable I) (n : Name) : Keeps I A (ctxGetFunc n : EngineM σ _) := by
  refine Keeps.bind (Keeps.withCtx hA hI _) fun r => ?_
  match r with
  | none => exact Keeps.pure hA _
  | some (.var v) => exact Keeps.pure hA _
  | some (.fn h) => exact Keeps.pure hA _

theorem refName_fault (t : AST) : (refName t).fault = .none := by
  cases t <;> rfl

mutual
/-- The evaluator keeps every stable invariant its handlers keep, and never deadlocks. -/
theorem Keeps.exec {I : World σ → Prop} {A : Fault → Prop} (hA : A .none) (hI : Stable I) {inv : Inv σ} (hinv : InvKeeps I A inv) :
    ∀ t : AST, Keeps I A (exec inv t)
  | .lit l => by simp only [EE.exec]; exact Keeps.pure hA _
  | .none => by simp only [EE.exec]; exact Keeps.pure hA _
  | .ref n => by simp only [EE.exec]; exact Keeps.ctxValue hA hI hinv n
  | .call n args => by
      simp only [EE.exec]
      refine Keeps.bind (Keeps.execList hA hI hinv args) fun vs => Keeps.bind (Keeps.ctxGetFunc hA hI n) fun r => ?_
      match r with
      | some h => exact Keeps.invoke hA hI hinv h vs
      | none => exact Keeps.bind (Keeps.lookupE hA hI _ _ _) fun h => Keeps.invoke hA hI hinv h vs
  | .unary op rhs => by
      simp only [EE.exec]
      exact Keeps.bind (Keeps.lookupE hA hI _ _ _) fun h => Keeps.bind (Keeps.exec hA hI hinv rhs) fun v => Keeps.invoke hA hI hinv h [v]
  | .postfix lhs op => by
      simp only [EE.exec]
      exact Keeps.bind (Keeps.lookupE hA hI _ _ _) fun h => Keeps.bind (Keeps.exec hA hI hinv lhs) fun v => Keeps.invoke hA hI hinv h [v]
  | .binary op lhs rhs => by
      simp only [EE.exec]
      refine Keeps.bind (Keeps.lookupE hA hI _ _ _) fun cfg => ?_
      split
      · exact Keeps.bind (Keeps.exec hA hI hinv lhs) fun a => Keeps.bind (Keeps.exec hA hI hinv rhs) fun b =>
          Keeps.bind (Keeps.lift _ (by rw [refName_fault]; exact hA)) fun name =>
          Keeps.bind (Keeps.lookupE hA hI _ _ _) fun cfg2 =>
          Keeps.bind (Keeps.invoke hA hI hinv cfg2.h [a, b]) fun v =>
          Keeps.bind (Keeps.withCtx hA hI _) fun _ => Keeps.pure hA _
      · exact Keeps.bind (Keeps.lookupE hA hI _ _ _) fun cfg2 =>
          Keeps.bind (Keeps.exec hA hI hinv lhs) fun a => Keeps.bind (Keeps.exec hA hI hinv rhs) fun b =>
          Keeps.invoke hA hI hinv cfg2.h [a, b]
  | .ternary c a b => by
      simp only [EE.exec]
      refine Keeps.bind (Keeps.exec hA hI hinv c) fun v => ?_
      match v with
      | .bool true => exact Keeps.exec hA hI hinv a
      | .bool false => exact Keeps.exec hA hI hinv b
      | .str _ => exact Keeps.fail hA _
      | .num _ => exact Keeps.fail hA _
      | .list _ => exact Keeps.fail hA _
      | .map _ => exact Keeps.fail hA _
      | .none => exact Keeps.fail hA _
  | .list xs => by
      simp only [EE.exec]; exact Keeps.bind (Keeps.execList hA hI hinv xs) fun vs => Keeps.pure hA _
  | .map kvs => by
      simp only [EE.exec]; exact Keeps.bind (Keeps.execMap hA hI hinv kvs) fun vs => Keeps.pure hA _
  | .stmt xs => by
      simp only [EE.exec]; exact Keeps.execChain hA hI hinv _ xs
theorem Keeps.execList {I : World σ → Prop} {A : Fault → Prop} (hA : A .none) (hI : Stable I) {inv : Inv σ} (hinv : InvKeeps I A inv) :
    ∀ ts : List AST, Keeps I A (execList inv ts)
  | [] => by simp only [EE.execList]; exact Keeps.pure hA _
  | a :: as => by
      simp only [EE.execList]
      exact Keeps.bind (Keeps.exec hA hI hinv a) fun v => Keeps.bind (Keeps.execList hA hI hinv as) fun vs => Keeps.pure hA _
theorem Keeps.execMap {I : World σ → Prop} {A : Fault → Prop} (hA : A .none) (hI : Stable I) {inv : Inv σ} (hinv : InvKeeps I A inv) :
    ∀ ts : List (AST × AST), Keeps I A (execMap inv ts)
  | [] => by simp only [EE.execMap]; exact Keeps.pure hA _
  | (k, v) :: r => by
      simp only [EE.execMap]
      exact Keeps.bind (Keeps.exec hA hI hinv k) fun _ => Keeps.bind (Keeps.exec hA hI hinv v) fun _ =>
        Keeps.bind (Keeps.execMap hA hI hinv r) fun _ => Keeps.pure hA _
theorem Keeps.execChain {I : World σ → Prop} {A : Fault → Prop} (hA : A .none) (hI : Stable I) {inv : Inv σ} (hinv : InvKeeps I A inv) :
    ∀ (last : Value) (ts : List AST), Keeps I A (execChain inv last ts)
  | _, [] => by simp only [EE.execChain]; exact Keeps.pure hA _
  | _, a :: as => by
      simp only [EE.execChain]
      exact Keeps.bind (Keeps.exec hA hI hinv a) fun v => Keeps.execChain hA hI hinv v as
end

theorem stable_clean : Stable (World.Clean : World σ → Prop) :=
  ⟨fun _ h => h, fun _ _ h => h, fun _ _ h => h⟩

end EE
