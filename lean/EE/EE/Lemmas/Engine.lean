import EE.Model.Eval
/-! Helper lemmas about the evaluation monad and unfolding equations of `exec`. -/
namespace EE
open EngineM

variable {σ α β : Type}

@[simp] theorem bind'_pure' (a : α) (f : α → EngineM σ β) (w : World σ) : bind' (pure' a) f w = f a w := rfl
@[simp] theorem bind'_fail (e : ErrKind) (f : α → EngineM σ β) (w : World σ) :
    bind' (fail e : EngineM σ α) f w = (.err e, w) := rfl

/-- The abnormal part of an outcome. -/
inductive Fault | none | panic | deadlock | hang
deriving DecidableEq, Repr

def Res.fault {α : Type} : Res α → Fault
  | .panic => .panic | .deadlock => .deadlock | .hang => .hang | _ => .none

@[simp] theorem bind'_lift_ok (a : α) (f : α → EngineM σ β) (w : World σ) : bind' (lift (.ok a)) f w = f a w := rfl
@[simp] theorem bind'_lift_err (e : ErrKind) (f : α → EngineM σ β) (w : World σ) :
    bind' (lift (.err e : Res α)) f w = (.err e, w) := rfl

theorem bind'_ok {m : EngineM σ α} {f : α → EngineM σ β} {w w' : World σ} {a : α}
    (h : m w = (.ok a, w')) : bind' m f w = f a w' := by simp [bind', h]

theorem bind'_notok {m : EngineM σ α} {f : α → EngineM σ β} {w w' : World σ} {r : Res α}
    (h : m w = (r, w')) (hr : r.isOk = false) : ∃ r' : Res β, bind' m f w = (r', w') ∧ r'.isOk = false ∧
      r'.isErr = r.isErr ∧ r'.isPanic = r.isPanic ∧ r'.isDeadlock = r.isDeadlock ∧ r'.isHang = r.isHang ∧ r'.fault = r.fault := by
  cases r <;> simp [Res.isOk] at hr <;> simp [bind', h, Res.isOk, Res.isErr, Res.isPanic, Res.isDeadlock, Res.isHang, Res.fault]

/-- Case analysis on the first step of a bind. -/
theorem bind'_cases (m : EngineM σ α) (f : α → EngineM σ β) (w : World σ) :
    (∃ a w', m w = (.ok a, w') ∧ bind' m f w = f a w') ∨
    (∃ r w', m w = (r, w') ∧ r.isOk = false ∧ ∃ r', bind' m f w = (r', w') ∧ r'.isOk = false ∧
      r'.isErr = r.isErr ∧ r'.isPanic = r.isPanic ∧ r'.isDeadlock = r.isDeadlock ∧ r'.isHang = r.isHang ∧ r'.fault = r.fault) := by
  cases h : m w with
  | mk r w' =>
    cases hr : r.isOk with
    | true =>
      cases r <;> simp [Res.isOk] at hr
      rename_i a
      exact Or.inl ⟨a, w', rfl, bind'_ok h⟩
    | false => exact Or.inr ⟨r, w', rfl, hr, bind'_notok h hr⟩

/-- A world in which no engine lock is held or poisoned. -/
def World.Clean (w : World σ) : Prop :=
  w.ctxHeld = false ∧ w.ctxPoisoned = false ∧ w.regHeld = false ∧ w.regPoisoned = false

theorem withCtx_clean {f : CtxMap → α × CtxMap} {w : World σ} (h : w.Clean) :
    withCtx f w = (.ok (f w.ctx).1, { w with ctx := (f w.ctx).2 }) := by
  obtain ⟨h1, h2, _, _⟩ := h
  simp [withCtx, h1, h2]

theorem withRegs_clean {f : Regs → α × Regs} {w : World σ} (h : w.Clean) :
    withRegs f w = (.ok (f w.regs).1, { w with regs := (f w.regs).2 }) := by
  obtain ⟨_, _, h3, h4⟩ := h
  simp [withRegs, h3, h4]

theorem ctxGet_clean {n : Name} {w : World σ} (h : w.Clean) : ctxGet n w = (.ok (alookup n w.ctx), w) := by
  simp [ctxGet, withCtx_clean h]

theorem ctxSet_clean {n : Name} {v : CtxVal} {w : World σ} (h : w.Clean) :
    ctxSet n v w = (.ok (), { w with ctx := (n, v) :: w.ctx }) := by
  simp [ctxSet, withCtx_clean h]

theorem readRegs_clean {w : World σ} (h : w.Clean) : readRegs w = (.ok w.regs, w) := by
  simp [readRegs, withRegs_clean h]

theorem lookupE_clean {γ : Type} {tbl : Regs → List (Name × γ)} {n : Name} {e : ErrKind} {w : World σ} (h : w.Clean) :
    lookupE tbl n e w = match alookup n (tbl w.regs) with
      | some x => (.ok x, w)
      | none => (.err e, w) := by
  simp only [lookupE, bind'_ok (readRegs_clean h)]
  cases alookup n (tbl w.regs) <;> rfl

theorem lookupE_some {γ : Type} {tbl : Regs → List (Name × γ)} {n : Name} {e : ErrKind} {w : World σ} {x : γ}
    (h : w.Clean) (hl : alookup n (tbl w.regs) = some x) : lookupE tbl n e w = (.ok x, w) := by
  rw [lookupE_clean h, hl]
theorem lookupE_none {γ : Type} {tbl : Regs → List (Name × γ)} {n : Name} {e : ErrKind} {w : World σ}
    (h : w.Clean) (hl : alookup n (tbl w.regs) = none) : lookupE tbl n e w = (.err e, w) := by
  rw [lookupE_clean h, hl]

theorem bind'_err {m : EngineM σ α} {f : α → EngineM σ β} {w w' : World σ} {e : ErrKind}
    (h : m w = (.err e, w')) : bind' m f w = (.err e, w') := by simp [bind', h]

end EE
