import EE.Lemmas.ParserRel
import EE.Lemmas.ParserTotal
/-! Fuel monotonicity of the parser model: once a call returns anything but `hang`, more fuel
returns the same thing. Connects the "for all large enough fuel" relations of `ParserRel` with the
concrete fuel `parseFuel toks` that `parseTokens` hands out (adequate by `EE.Props.C01`). -/
namespace EE

def Res.le {α : Type} (r r' : Res α) : Prop := r = .hang ∨ r = r'
theorem Res.le_refl {α : Type} (r : Res α) : r.le r := Or.inr rfl
theorem Res.le_hang {α : Type} (r : Res α) : (Res.hang : Res α).le r := Or.inl rfl
theorem Res.le_bind {α β : Type} {r r' : Res α} {f f' : α → Res β} (h : r.le r') (hf : ∀ a, (f a).le (f' a)) :
    (r.bind f).le (r'.bind f') := by
  rcases h with rfl | rfl
  · exact Or.inl rfl
  · cases r with
    | ok a => exact hf a
    | _ => exact Or.inr rfl
theorem Res.le_eq {α : Type} {r r' : Res α} (h : r.le r') (hn : r.isHang = false) : r' = r := by
  rcases h with rfl | rfl
  · cases hn
  · rfl

structure Mono (regs : Regs) (lim fuel : Nat) : Prop where
  tok : ∀ d toks, (parseToken regs lim fuel d toks).le (parseToken regs lim (fuel + 1) d toks)
  prim : ∀ d toks, (parsePrimary regs lim fuel d toks).le (parsePrimary regs lim (fuel + 1) d toks)
  expr : ∀ d toks, (parseExpression regs lim fuel d toks).le (parseExpression regs lim (fuel + 1) d toks)
  op : ∀ d p lhs lhsH toks, (parseOp regs lim fuel d p lhs lhsH toks).le (parseOp regs lim (fuel + 1) d p lhs lhsH toks)
  args : ∀ d toks, (parseArgs regs lim fuel d toks).le (parseArgs regs lim (fuel + 1) d toks)
  items : ∀ d toks, (parseListItems regs lim fuel d toks).le (parseListItems regs lim (fuel + 1) d toks)
  entries : ∀ d toks, (parseMapItems regs lim fuel d toks).le (parseMapItems regs lim (fuel + 1) d toks)

theorem mono_zero (regs : Regs) (lim : Nat) : Mono regs lim 0 := by
  refine ⟨?_, ?_, ?_, ?_, ?_, ?_, ?_⟩ <;> intros <;> refine Or.inl ?_
  · unfold parseToken; rfl
  · unfold parsePrimary; rfl
  · unfold parseExpression; rfl
  · unfold parseOp; rfl
  · unfold parseArgs; rfl
  · unfold parseListItems; rfl
  · unfold parseMapItems; rfl

macro "mono_step" ih:ident : tactic => `(tactic|
  repeat' (first
    | exact Res.le_refl _
    | exact ($ih).tok _ _ | exact ($ih).prim _ _ | exact ($ih).expr _ _ | exact ($ih).op _ _ _ _ _
    | exact ($ih).args _ _ | exact ($ih).items _ _ | exact ($ih).entries _ _
    | apply Res.le_bind
    | intro _
    | (split <;> try dsimp only)))

theorem mono (regs : Regs) (lim : Nat) : ∀ fuel, Mono regs lim fuel
  | 0 => mono_zero regs lim
  | fuel + 1 => by
    have ih := mono regs lim fuel
    refine ⟨?_, ?_, ?_, ?_, ?_, ?_, ?_⟩
    · intro d toks; unfold parseToken; mono_step ih
    · intro d toks; unfold parsePrimary; mono_step ih
    · intro d toks; unfold parseExpression; mono_step ih
    · intro d p lhs lhsH toks; unfold parseOp; mono_step ih
    · intro d toks; unfold parseArgs; mono_step ih
    · intro d toks; unfold parseListItems; mono_step ih
    · intro d toks; unfold parseMapItems; mono_step ih

end EE

namespace EE
theorem Res.le_trans {α : Type} {a b c : Res α} (h1 : a.le b) (h2 : b.le c) : a.le c := by
  rcases h1 with rfl | rfl
  · exact Or.inl rfl
  · exact h2

theorem expr_mono_le (regs : Regs) (lim d : Nat) (toks : List Tok) (f : Nat) : ∀ k,
    (parseExpression regs lim f d toks).le (parseExpression regs lim (f + k) d toks)
  | 0 => Res.le_refl _
  | k + 1 => Res.le_trans (expr_mono_le regs lim d toks f k) ((mono regs lim (f + k)).expr d toks)

theorem stmts_mono (regs : Regs) (lim : Nat) : ∀ (fuel : Nat) (toks : List Tok),
    (parseStmts regs lim fuel toks).le (parseStmts regs lim (fuel + 1) toks)
  | 0, _ => by unfold parseStmts; exact Or.inl rfl
  | fuel + 1, [] => by simp [parseStmts]; exact Res.le_refl _
  | fuel + 1, t :: ts => by
    simp only [parseStmts]
    refine Res.le_bind ((mono regs lim fuel).expr 0 _) fun ⟨a, h, r⟩ => ?_
    exact Res.le_bind (stmts_mono regs lim fuel _) fun _ => Res.le_refl _

theorem stmts_mono_le (regs : Regs) (lim : Nat) (toks : List Tok) (f : Nat) : ∀ k,
    (parseStmts regs lim f toks).le (parseStmts regs lim (f + k) toks)
  | 0 => Res.le_refl _
  | k + 1 => Res.le_trans (stmts_mono_le regs lim toks f k) (stmts_mono regs lim (f + k) toks)

/-- A result established "for all large enough fuel" already holds at any fuel that is adequate in
the sense of C01. -/
theorem PExpr.at_fuel {regs : Regs} {lim d : Nat} {toks rest : List Tok} {e : AST} (hl : 1 ≤ lim) (hp : RegsPos regs)
    (h : PExpr regs lim d toks e rest) (fuel : Nat) (hf : 4 * toks.length + 7 ≤ fuel) :
    parseExpression regs lim fuel d toks = .ok (e, e.height, rest) := by
  obtain ⟨n, h⟩ := h
  have hnf := (total regs lim hl hp fuel).expr d toks hf
  have hle := expr_mono_le regs lim d toks fuel n
  have := Res.le_eq hle hnf.2.2
  rw [← this]; exact h _ (by omega)

end EE
