import EE.Model.Dec
/-! Decimal digit strings: `natDigits` / `natOfDigits` round trip. -/
namespace EE.Dec

theorem digitVal_digitChar (n : Nat) : digitVal (digitChar n) = n % 10 := by
  have h : n % 10 < 10 := Nat.mod_lt _ (by decide)
  unfold digitChar digitVal
  generalize n % 10 = k at h
  have : k = 0 ∨ k = 1 ∨ k = 2 ∨ k = 3 ∨ k = 4 ∨ k = 5 ∨ k = 6 ∨ k = 7 ∨ k = 8 ∨ k = 9 := by omega
  rcases this with rfl | rfl | rfl | rfl | rfl | rfl | rfl | rfl | rfl | rfl <;> rfl

theorem isAsciiDigit_digitChar (n : Nat) : isAsciiDigit (digitChar n) = true := by
  have h : n % 10 < 10 := Nat.mod_lt _ (by decide)
  unfold digitChar
  generalize n % 10 = k at h
  have : k = 0 ∨ k = 1 ∨ k = 2 ∨ k = 3 ∨ k = 4 ∨ k = 5 ∨ k = 6 ∨ k = 7 ∨ k = 8 ∨ k = 9 := by omega
  rcases this with rfl | rfl | rfl | rfl | rfl | rfl | rfl | rfl | rfl | rfl <;> rfl

theorem foldl_digits (cs : List Char) (init : Nat) :
    cs.foldl (fun acc c => acc * 10 + digitVal c) init = init * 10 ^ cs.length + natOfDigits cs := by
  induction cs generalizing init with
  | nil => simp [natOfDigits]
  | cons c cs ih =>
    simp only [List.foldl_cons, natOfDigits, List.length_cons]
    rw [ih, ih (0 * 10 + digitVal c)]
    simp [Nat.pow_succ, Nat.add_mul, Nat.mul_assoc, Nat.mul_comm 10]
    omega

theorem natOfDigits_cons (c : Char) (cs : List Char) :
    natOfDigits (c :: cs) = digitVal c * 10 ^ cs.length + natOfDigits cs := by
  simp only [natOfDigits, List.foldl_cons]
  rw [foldl_digits]
  simp [natOfDigits]

theorem natOfDigits_append (a b : List Char) : natOfDigits (a ++ b) = natOfDigits a * 10 ^ b.length + natOfDigits b := by
  simp only [natOfDigits, List.foldl_append]
  rw [foldl_digits]
  simp [natOfDigits]

/-- `digitsAux` with enough fuel: the digits of `n` in front of `acc`. -/
theorem digitsAux_spec : ∀ (fuel n : Nat) (acc : List Char), n < 10 ^ fuel → 0 < fuel →
    natOfDigits (digitsAux fuel n acc) = n * 10 ^ acc.length + natOfDigits acc ∧
    (digitsAux fuel n acc).length ≥ acc.length + 1 ∧
    ((acc.all isAsciiDigit = true) → (digitsAux fuel n acc).all isAsciiDigit = true)
  | 0, n, acc, _, h0 => by omega
  | fuel + 1, n, acc, h, _ => by
    unfold digitsAux
    split
    · rename_i hn
      refine ⟨?_, by simp, fun ha => by simp [isAsciiDigit_digitChar, ha]⟩
      rw [natOfDigits_cons, digitVal_digitChar, Nat.mod_eq_of_lt hn]
    · rename_i hn
      have hlt : n / 10 < 10 ^ fuel := by
        rw [Nat.pow_succ] at h
        exact Nat.div_lt_of_lt_mul (by omega)
      have hf : 0 < fuel := by
        cases fuel with
        | zero => simp at hlt; omega
        | succ k => omega
      obtain ⟨h1, h2, h3⟩ := digitsAux_spec fuel (n / 10) (digitChar n :: acc) hlt hf
      refine ⟨?_, by simp at h2; omega, fun ha => h3 (by simp [isAsciiDigit_digitChar, ha])⟩
      rw [h1, natOfDigits_cons, digitVal_digitChar]
      simp only [List.length_cons, Nat.pow_succ]
      have := Nat.div_add_mod n 10
      calc n / 10 * (10 ^ acc.length * 10) + (n % 10 * 10 ^ acc.length + natOfDigits acc)
          = (10 * (n / 10) + n % 10) * 10 ^ acc.length + natOfDigits acc := by
            simp [Nat.add_mul, Nat.mul_assoc, Nat.mul_comm, Nat.mul_left_comm]; omega
        _ = n * 10 ^ acc.length + natOfDigits acc := by rw [this]

theorem lt_pow_succ (n : Nat) : n < 10 ^ (n + 1) := by
  induction n with
  | zero => decide
  | succ k ih => rw [Nat.pow_succ]; omega

theorem natOfDigits_natDigits (n : Nat) : natOfDigits (natDigits n) = n := by
  have := (digitsAux_spec (n + 1) n [] (lt_pow_succ n) (by omega)).1
  simpa [natDigits, natOfDigits] using this

theorem natDigits_length_pos (n : Nat) : 1 ≤ (natDigits n).length := by
  have := (digitsAux_spec (n + 1) n [] (lt_pow_succ n) (by omega)).2.1
  simpa [natDigits] using this

theorem natDigits_all_digits (n : Nat) : (natDigits n).all isAsciiDigit = true :=
  (digitsAux_spec (n + 1) n [] (lt_pow_succ n) (by omega)).2.2 (by simp)

end EE.Dec
