import EE.Lemmas.Digits
/-! Decimal normalisation, text form and the `i64` round trip (`Value::integer`). -/
namespace EE.Dec

theorem normNS_spec (n : Int) : ∀ s : Nat, (normNS n s).2 ≤ s ∧ n = (normNS n s).1 * (10 : Int) ^ (s - (normNS n s).2)
  | 0 => by simp [normNS]
  | s + 1 => by
    unfold normNS
    split
    · have ih := normNS_spec (n / 10) s
      refine ⟨by omega, ?_⟩
      have h10 : n = n / 10 * 10 := by omega
      have e : s + 1 - (normNS (n / 10) s).2 = (s - (normNS (n / 10) s).2) + 1 := by omega
      rw [e, Int.pow_succ, ← Int.mul_assoc, ← ih.2]
      exact h10
    · simp

/-- When trailing zeros remain impossible to strip, the numerator is not a multiple of 10. -/
theorem normNS_min (n : Int) : ∀ s : Nat, 0 < (normNS n s).2 → (normNS n s).1 % 10 ≠ 0
  | 0 => by simp [normNS]
  | s + 1 => by
    unfold normNS
    split
    · exact normNS_min (n / 10) s
    · rename_i h; intro _; exact h

theorem pow10_pos (k : Nat) : (0 : Int) < 10 ^ k := Int.pow_pos (by decide)

/-- `normNS` finds scale 0 exactly for integral values, and then returns that integer. -/
theorem normNS_integral (n : Int) (s : Nat) (k : Int) (h : n = k * 10 ^ s) : normNS n s = (k, 0) := by
  have hs := normNS_spec n s
  have hm := normNS_min n s
  generalize normNS n s = p at hs hm
  obtain ⟨n', s'⟩ := p
  simp only at hs hm
  have hs' : s' = 0 := by
    apply Decidable.byContradiction
    intro hne
    have hpos : 0 < s' := Nat.pos_of_ne_zero hne
    have h2 := hm hpos
    -- n' * 10^(s-s') = k * 10^s = k * 10^s' * 10^(s-s')
    have e : (10 : Int) ^ s = 10 ^ s' * 10 ^ (s - s') := by rw [← Int.pow_add]; congr 1; omega
    rw [h, e, ← Int.mul_assoc] at hs
    have := Int.eq_of_mul_eq_mul_right (Int.ne_of_gt (pow10_pos (s - s'))) hs.2
    apply h2
    rw [← this]
    obtain ⟨j, rfl⟩ : ∃ j, s' = j + 1 := ⟨s' - 1, by omega⟩
    rw [Int.pow_succ, ← Int.mul_assoc]
    exact Int.mul_emod_left _ _
  subst hs'
  have := hs.2
  rw [h] at this
  simp at this
  have := Int.eq_of_mul_eq_mul_right (Int.ne_of_gt (pow10_pos s)) this
  simp [this]

theorem normNS_nonintegral (n : Int) (s : Nat) (h : ∀ k : Int, n ≠ k * 10 ^ s) : 0 < (normNS n s).2 := by
  have hs := normNS_spec n s
  apply Decidable.byContradiction
  intro hne
  have h0 : (normNS n s).2 = 0 := by omega
  rw [h0] at hs
  exact h _ (by simpa using hs.2)

/-! ### `toText` -/

theorem padLeft_of_le (k : Nat) (cs : List Char) (h : k ≤ cs.length) : padLeft k cs = cs := by
  simp [padLeft, Nat.sub_eq_zero_of_le h]

theorem toText_scale0 (neg : Bool) (m : Nat) :
    toText ⟨neg, m, 0⟩ = (if neg then ['-'] else []) ++ natDigits m := by
  simp [toText, padLeft_of_le 1 _ (natDigits_length_pos m)]

theorem toText_has_dot (d : Dec) (h : 0 < d.scale) : '.' ∈ toText d := by
  unfold toText
  simp only
  have : ¬ d.scale = 0 := by omega
  simp [this]

theorem splitSign_digits (cs : List Char) (h : cs.all isAsciiDigit = true) : splitSign cs = (false, cs) := by
  cases cs with
  | nil => rfl
  | cons c r =>
    simp at h
    have hc := h.1
    have h1 : c ≠ '-' := by intro e; subst e; simp [isAsciiDigit] at hc
    have h2 : c ≠ '+' := by intro e; subst e; simp [isAsciiDigit] at hc
    simp [splitSign, h1, h2]

theorem parseI64_digits (cs : List Char) (h : cs.all isAsciiDigit = true) (hne : cs ≠ []) :
    parseI64 cs = (let v : Int := natOfDigits cs; if -9223372036854775808 ≤ v ∧ v ≤ 9223372036854775807 then some v else none) := by
  unfold parseI64
  rw [splitSign_digits cs h]
  simp [h, hne]

theorem parseI64_neg_digits (cs : List Char) (h : cs.all isAsciiDigit = true) (hne : cs ≠ []) :
    parseI64 ('-' :: cs) = (let v : Int := -(natOfDigits cs : Int); if -9223372036854775808 ≤ v ∧ v ≤ 9223372036854775807 then some v else none) := by
  unfold parseI64
  simp [splitSign, h, hne]

theorem parseI64_with_dot (cs : List Char) (h : '.' ∈ cs) : parseI64 cs = none := by
  have key : ∀ ds : List Char, '.' ∈ ds → ds.all isAsciiDigit = false := by
    intro ds hd
    rw [List.all_eq_false]
    exact ⟨'.', hd, by decide⟩
  unfold parseI64
  cases cs with
  | nil => simp at h
  | cons c r =>
    simp only [splitSign]
    by_cases h1 : c = '-'
    · subst h1
      have : '.' ∈ r := by simpa using h
      simp [key r this]
    · by_cases h2 : c = '+'
      · subst h2
        have : '.' ∈ r := by simpa using h
        simp [key r this]
      · simp [h1, h2, key (c :: r) h]

theorem natDigits_ne_nil (m : Nat) : natDigits m ≠ [] := by
  have := natDigits_length_pos m
  intro h; rw [h] at this; simp at this

/-- `Value::integer` (normalise → text → `i64` parse) computes exactly: the integer the number
denotes, if it denotes one within the 64-bit range — whatever the scale it is stored with. -/
theorem toI64_spec (d : Dec) (k : Int) :
    toI64 d = some k ↔ (d.num = k * 10 ^ d.scale ∧ -9223372036854775808 ≤ k ∧ k ≤ 9223372036854775807) := by
  unfold toI64 normalize
  by_cases hint : ∃ j : Int, d.num = j * 10 ^ d.scale
  · obtain ⟨j, hj⟩ := hint
    rw [normNS_integral d.num d.scale j hj]
    simp only [ofNumScale]
    rw [toText_scale0]
    have hj_unique : ∀ k', d.num = k' * 10 ^ d.scale → k' = j := by
      intro k' hk'
      rw [hj] at hk'
      exact (Int.eq_of_mul_eq_mul_right (Int.ne_of_gt (pow10_pos d.scale)) hk').symm
    by_cases hneg : j < 0
    · simp only [hneg, decide_true, if_true, List.singleton_append]
      rw [parseI64_neg_digits _ (natDigits_all_digits _) (natDigits_ne_nil _), natOfDigits_natDigits]
      have : -(j.natAbs : Int) = j := by omega
      simp only [this]
      constructor
      · intro h
        split at h
        · rename_i hr; cases h; exact ⟨hj, hr.1, hr.2⟩
        · cases h
      · rintro ⟨h1, h2, h3⟩
        have := hj_unique k h1; subst this
        simp [h2, h3]
    · simp only [hneg, decide_false, Bool.false_eq_true, if_false, List.nil_append]
      rw [parseI64_digits _ (natDigits_all_digits _) (natDigits_ne_nil _), natOfDigits_natDigits]
      have : (j.natAbs : Int) = j := by omega
      simp only [this]
      constructor
      · intro h
        split at h
        · rename_i hr; cases h; exact ⟨hj, hr.1, hr.2⟩
        · cases h
      · rintro ⟨h1, h2, h3⟩
        have := hj_unique k h1; subst this
        simp [h2, h3]
  · have hpos := normNS_nonintegral d.num d.scale (fun k' hk' => hint ⟨k', hk'⟩)
    generalize normNS d.num d.scale = p at hpos
    obtain ⟨n', s'⟩ := p
    simp only at hpos ⊢
    rw [parseI64_with_dot _ (toText_has_dot _ (by simpa [ofNumScale] using hpos))]
    constructor
    · intro h; cases h
    · rintro ⟨h1, _⟩; exact absurd ⟨k, h1⟩ hint

end EE.Dec
