import EE.Lemmas.ParserMono
/-! Monotonicity in the nesting limit: a parse that succeeds under limit `lim` succeeds with the
same result under every larger limit (only `NestingTooDeep` can turn into something else). -/
namespace EE

def Res.leN {α : Type} (r r' : Res α) : Prop := r = .err .nestingTooDeep ∨ r = r'
theorem Res.leN_refl {α : Type} (r : Res α) : r.leN r := Or.inr rfl
theorem Res.leN_bind {α β : Type} {r r' : Res α} {f f' : α → Res β} (h : r.leN r') (hf : ∀ a, (f a).leN (f' a)) :
    (r.bind f).leN (r'.bind f') := by
  rcases h with rfl | rfl
  · exact Or.inl rfl
  · cases r with
    | ok a => exact hf a
    | _ => exact Or.inr rfl
theorem Res.leN_ok {α : Type} {r r' : Res α} {a : α} (h : r.leN r') (hr : r = .ok a) : r' = .ok a := by
  rcases h with h | h
  · rw [hr] at h; cases h
  · rw [← h, hr]

theorem node_leN {lim lim' : Nat} (h : lim ≤ lim') (c : Nat) : (node lim c).leN (node lim' c) := by
  unfold node
  by_cases h1 : c + 1 > lim
  · simp [h1]; exact Or.inl rfl
  · have : ¬ c + 1 > lim' := by omega
    simp [h1, this]; exact Or.inr rfl

theorem guard_leN {α : Type} {lim lim' d : Nat} (h : lim ≤ lim') {x x' : Res α} (hx : x.leN x') :
    (if d + 1 > lim then (.err .nestingTooDeep : Res α) else x).leN (if d + 1 > lim' then .err .nestingTooDeep else x') := by
  by_cases h1 : d + 1 > lim
  · simp only [h1, if_true]; exact Or.inl rfl
  · have : ¬ d + 1 > lim' := by omega
    simp only [h1, this, if_false]; exact hx

theorem parsePostfix_leN (regs : Regs) {lim lim' : Nat} (h : lim ≤ lim') : ∀ (toks : List Tok) (lhs : AST) (hh : Nat),
    (parsePostfix regs lim lhs hh toks).leN (parsePostfix regs lim' lhs hh toks)
  | [], _, _ => by simp only [parsePostfix]; exact Res.leN_refl _
  | t :: r, lhs, hh => by
    cases t with
    | op o =>
      simp only [parsePostfix]
      split
      · exact Res.leN_bind (node_leN h _) fun h' => parsePostfix_leN regs h r _ h'
      · exact Res.leN_refl _
    | _ => simp only [parsePostfix]; exact Res.leN_refl _

structure MonoLim (regs : Regs) (lim lim' fuel : Nat) : Prop where
  tok : ∀ d toks, (parseToken regs lim fuel d toks).leN (parseToken regs lim' fuel d toks)
  prim : ∀ d toks, (parsePrimary regs lim fuel d toks).leN (parsePrimary regs lim' fuel d toks)
  expr : ∀ d toks, (parseExpression regs lim fuel d toks).leN (parseExpression regs lim' fuel d toks)
  op : ∀ d p lhs lhsH toks, (parseOp regs lim fuel d p lhs lhsH toks).leN (parseOp regs lim' fuel d p lhs lhsH toks)
  args : ∀ d toks, (parseArgs regs lim fuel d toks).leN (parseArgs regs lim' fuel d toks)
  items : ∀ d toks, (parseListItems regs lim fuel d toks).leN (parseListItems regs lim' fuel d toks)
  entries : ∀ d toks, (parseMapItems regs lim fuel d toks).leN (parseMapItems regs lim' fuel d toks)

macro "monolim_step" ih:ident h:ident regs:ident : tactic => `(tactic|
  repeat' (first
    | exact Res.leN_refl _
    | exact node_leN $h _
    | exact parsePostfix_leN $regs $h _ _ _
    | exact ($ih).tok _ _ | exact ($ih).prim _ _ | exact ($ih).expr _ _ | exact ($ih).op _ _ _ _ _
    | exact ($ih).args _ _ | exact ($ih).items _ _ | exact ($ih).entries _ _
    | apply guard_leN $h
    | apply Res.leN_bind
    | intro _
    | (split <;> try dsimp only)))

theorem monoLim (regs : Regs) {lim lim' : Nat} (h : lim ≤ lim') : ∀ fuel, MonoLim regs lim lim' fuel
  | 0 => by
    refine ⟨?_, ?_, ?_, ?_, ?_, ?_, ?_⟩ <;> intros <;> refine Or.inr ?_
    · unfold parseToken; rfl
    · unfold parsePrimary; rfl
    · unfold parseExpression; rfl
    · unfold parseOp; rfl
    · unfold parseArgs; rfl
    · unfold parseListItems; rfl
    · unfold parseMapItems; rfl
  | fuel + 1 => by
    have ih := monoLim regs h fuel
    refine ⟨?_, ?_, ?_, ?_, ?_, ?_, ?_⟩
    · intro d toks; unfold parseToken; monolim_step ih h regs
    · intro d toks; unfold parsePrimary; monolim_step ih h regs
    · intro d toks; unfold parseExpression; monolim_step ih h regs
    · intro d p lhs lhsH toks; unfold parseOp; monolim_step ih h regs
    · intro d toks; unfold parseArgs; monolim_step ih h regs
    · intro d toks; unfold parseListItems; monolim_step ih h regs
    · intro d toks; unfold parseMapItems; monolim_step ih h regs

theorem stmts_leN (regs : Regs) {lim lim' : Nat} (h : lim ≤ lim') : ∀ (fuel : Nat) (toks : List Tok),
    (parseStmts regs lim fuel toks).leN (parseStmts regs lim' fuel toks)
  | 0, _ => by unfold parseStmts; exact Res.leN_refl _
  | fuel + 1, [] => by simp [parseStmts]; exact Res.leN_refl _
  | fuel + 1, t :: ts => by
    simp only [parseStmts]
    refine Res.leN_bind ((monoLim regs h fuel).expr 0 _) fun ⟨a, hh, r⟩ => ?_
    exact Res.leN_bind (stmts_leN regs h fuel _) fun _ => Res.leN_refl _

/-- **A larger nesting limit never changes a successful parse.** -/
theorem parseTokens_lim_mono (regs : Regs) {lim lim' : Nat} (h : lim ≤ lim') (toks : List Tok) (a : AST)
    (hp : parseTokens regs lim toks = .ok a) : parseTokens regs lim' toks = .ok a := by
  have : (parseTokens regs lim toks).leN (parseTokens regs lim' toks) := by
    unfold parseTokens
    refine Res.leN_bind (stmts_leN regs h _ _) fun ⟨xs, hh⟩ => ?_
    dsimp only
    split
    · exact Res.leN_refl _
    · exact Res.leN_bind (node_leN h _) fun _ => Res.leN_refl _
  exact Res.leN_ok this hp

end EE
