import EE.Gen
import EE.Model.BuiltinRegs
import EE.Model.Render
/-! Obligations over the regenerated facts (`EE.Gen`). Each is closed by `decide`, so Lean's
kernel re-checks it against what the source says *now* whenever a generated file changes. -/
namespace EE.Tie
open EE

/-! ### Operator table (runtime dump after `init()`) vs README and the documented rules -/

def lookupInfix (n : List Char) : Option (Int × Bool × Bool) :=
  (Gen.infixTable.find? (fun e => e.1 == n)).map (·.2)

/-- Every row of README's BinaryExpression table is registered with exactly that precedence. -/
theorem optable_matches_readme :
    ∀ e ∈ Gen.readmeTable, (lookupInfix e.1).map (·.1) = some e.2 := by decide

/-- … and the only registered infix operator missing from README's table is `in` (precedence 200,
documented alongside beginWith/endWith). -/
theorem optable_beyond_readme :
    (Gen.infixTable.filter fun e => !(Gen.readmeTable.any fun r => r.1 == e.1)).map (fun e => (e.1, e.2.1))
      = [(['i', 'n'], 200)] := by decide

/-- Assignment operators (SETTER) associate to the right, calculation operators to the left. -/
theorem optable_assoc_rule : ∀ e ∈ Gen.infixTable, e.2.2.2 = e.2.2.1 := by decide

/-- Precedences are positive (and far below 2^30); equal precedence implies equal associativity. -/
theorem optable_prec_pos : ∀ e ∈ Gen.infixTable, 0 < e.2.1 ∧ e.2.1 ≤ 1000000000 := by decide
theorem optable_equal_prec_equal_assoc :
    ∀ e ∈ Gen.infixTable, ∀ e' ∈ Gen.infixTable, e.2.1 = e'.2.1 → e.2.2.2 = e'.2.2.2 := by decide

theorem optable_names_distinct : (Gen.infixTable.map (·.1)).Nodup := by decide

/-- No postfix operator is also an infix operator, and `not`, `?`, `:` are not infix operators. -/
theorem postfix_not_infix : ∀ n ∈ Gen.postfixNames, lookupInfix n = none := by decide
theorem not_is_prefix_not_infix :
    ['n', 'o', 't'] ∈ Gen.prefixNames ∧ lookupInfix ['n', 'o', 't'] = none ∧
    lookupInfix ['?'] = none ∧ lookupInfix [':'] = none := by decide

theorem prefix_names : Gen.prefixNames = [['!'], ['+'], ['-'], ['A', 'N', 'D'], ['O', 'R'], ['n', 'o', 't']] := by decide
theorem postfix_names : Gen.postfixNames = [['+', '+'], ['-', '-']] := by decide
theorem fn_names : Gen.fnNames = [['m', 'a', 'x'], ['m', 'i', 'n'], ['m', 'u', 'l'], ['s', 'u', 'm']] := by decide

/-! ### Symbolic operators are prefix-closed (greedy extension = longest match) -/

def allOps : List (List Char) :=
  Gen.infixTable.map (·.1) ++ Gen.prefixNames ++ Gen.postfixNames ++ [['?'], [':']]

def symbolicOps : List (List Char) := allOps.filter fun n => match n with | c :: _ => isSpecialStart c | [] => false

def prefixesOf : List Char → List (List Char)
  | [] => []
  | c :: cs => [c] :: (prefixesOf cs).map (c :: ·)

/-- Every non-empty prefix of a registered symbolic operator is itself a registered operator. -/
theorem symbolic_prefix_closed : ∀ n ∈ symbolicOps, ∀ p ∈ prefixesOf n, p ∈ allOps := by decide

/-- Every symbolic operator consists of single-byte (ASCII) characters only. -/
theorem symbolic_ascii : ∀ n ∈ symbolicOps, ∀ c ∈ n, c.toNat < 128 := by decide

/-! ### Lock sites (source scan) -/

/-- While any mutex guard of the crate is alive, nothing is called but std map / guard methods and
constructors, and no second lock is taken. In particular no handler (callable value) runs under a lock. -/
theorem no_call_under_lock : ∀ s ∈ Gen.lockSites, s.otherCalls = [] ∧ s.nestedLocks = 0 := by decide

theorem scan_complete : Gen.scanUnknown = [] := by decide

/-- The functions that write a registry or a context under its lock. -/
def lockWriters : List (List Char) := [
  "Context::set".toList, "DescriptorManager::set".toList, "InnerFunctionManager::register".toList,
  "InfixOpManager::register".toList, "PrefixOpManager::register".toList, "PostfixOpManager::register".toList]

/-- The types that own a mutex. -/
def lockOwners : List (List Char) := [
  "Context::".toList, "DescriptorManager::".toList, "InnerFunctionManager::".toList,
  "InfixOpManager::".toList, "PrefixOpManager::".toList, "PostfixOpManager::".toList]

/-- Every lock is taken inside a method of one of the six owning types; a guard under which the map is
modified lives in one of the six writer functions only (readers may come and go with refactorings —
each is still subject to `no_call_under_lock`). -/
theorem lock_site_owners : ∀ s ∈ Gen.lockSites, lockOwners.any (fun o => o.isPrefixOf s.func) = true := by decide
theorem lock_site_writers : ∀ s ∈ Gen.lockSites, s.mutates = true → s.func ∈ lockWriters := by decide

/-- Each writer is a *single* critical section: the registration (look-up of the old entry, insertion of
the new one) happens under one guard, so that it takes effect entirely before or entirely after any
read (C13). -/
theorem writers_single_critical_section :
    ∀ w ∈ lockWriters, (Gen.lockSites.filter (fun s => s.func = w)).length = 1 ∧
      ∀ s ∈ Gen.lockSites, s.func = w → s.mutates = true := by decide

/-! ### Global mutable state -/

/-- The crate's global state is exactly: the five registries and the once-flag. No `static mut`,
no `unsafe`, no thread-locals. -/
theorem globals_inventory :
    Gen.globals.map (fun g => (g.1, g.2.1, g.2.2.1, g.2.2.2.2)) = [
      ("descriptor.rs".toList, "DescriptorManager::new".toList, "STORE".toList, false),
      ("function.rs".toList, "InnerFunctionManager::new".toList, "STORE".toList, false),
      ("init.rs".toList, "init".toList, "INITED".toList, false),
      ("operator.rs".toList, "InfixOpManager::new".toList, "STORE".toList, false),
      ("operator.rs".toList, "PrefixOpManager::new".toList, "STORE".toList, false),
      ("operator.rs".toList, "PostfixOpManager::new".toList, "STORE".toList, false)]
    ∧ Gen.unsafeCount = 0 ∧ Gen.stateMacros = [] := by decide

/-- Every global is a `OnceCell` (of a `Mutex<HashMap>` for the registries). -/
theorem globals_are_oncecells :
    ∀ g ∈ Gen.globals, "OnceCell<".toList.isPrefixOf g.2.2.2.1 = true := by decide

/-! ### Call graph: evaluation never writes a registry -/

def succs (n : Nat) : List Nat := (Gen.callEdges.filter (·.1 == n)).map (·.2)

/-- Nodes reachable from `frontier`, never expanding the handler pseudo-node (user code). -/
def reach : Nat → List Nat → List Nat → List Nat
  | 0, seen, _ => seen
  | _ + 1, seen, [] => seen
  | fuel + 1, seen, n :: rest =>
    if seen.contains n then reach fuel seen rest
    else if n == Gen.handlerNode then reach fuel (n :: seen) rest
    else reach fuel (n :: seen) (succs n ++ rest)

def reachable (roots : List Nat) : List Nat := reach 100000 [] roots

/-- No function that mutates a registry is reachable from parsing, evaluating or rendering
(except through a user handler, which is user code). -/
theorem no_writer_reachable : ∀ n ∈ reachable Gen.evalRoots, n ∉ Gen.registryWriters := by decide +kernel

/-- The registry writers are the four `register` methods and `DescriptorManager::set`. -/
theorem registry_writers : Gen.registryWriters.map (fun i => (Gen.cgFunctions.getD i ([], [])).2) = [
    "DescriptorManager::set".toList, "InnerFunctionManager::register".toList, "InfixOpManager::register".toList,
    "PrefixOpManager::register".toList, "PostfixOpManager::register".toList] := by decide

theorem eval_roots : Gen.evalRoots.map (fun i => (Gen.cgFunctions.getD i ([], [])).2) = [
    "Parser::new".toList, "Parser::parse_stmt".toList, "ExprAST::exec".toList, "ExprAST::expr".toList, "ExprAST::describe".toList] := by decide

/-! ### Entry points -/

/-- Every public function of lib.rs that can reach a registry initialises first. -/
theorem entries_init_first : ∀ e ∈ Gen.entryPoints, e.2.2 = true → e.2.1 = true := by decide

theorem entry_points : Gen.entryPoints.map (·.1) = [
    "execute".toList, "parse_expression".toList, "register_function".toList, "register_prefix_op".toList,
    "register_postfix_op".toList, "register_infix_op".toList] := by decide

/-! ### Descriptor keys -/

/-- Each `get_X_descriptor` builds the same key constructor as `set_X_descriptor`, and matches the
variant the setter stores. -/
theorem desc_keys_match : ∀ p ∈ Gen.descKeys, p.2.1 = p.2.2.2.1 ∧ p.2.2.1 = p.2.2.2.2 := by decide

/-- Different descriptor kinds use different key constructors (so a registration for one kind can never
be found under another kind with the same name), and each kind stores its own variant. -/
theorem desc_keys_distinct : (Gen.descKeys.map (·.2.1)).Nodup ∧ (Gen.descKeys.map (·.2.2.1)).Nodup := by decide

theorem desc_kinds : Gen.descKeys.map (·.1) = [
    "binary".toList, "chain".toList, "function".toList, "list".toList, "map".toList, "postfix".toList,
    "reference".toList, "ternary".toList, "unary".toList] := by decide

/-! ### Constants -/
theorem max_depth_positive : 0 < Gen.maxDepth ∧ Gen.maxDepth ≤ 128 := by decide

end EE.Tie
