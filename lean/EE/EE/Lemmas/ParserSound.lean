import EE.Spec.Grammar
/-! Soundness of the parser model w.r.t. the grammar (`EE.Spec.G*`), with the bookkeeping the
parser keeps on the side: the returned `height` is the height of the returned tree and never
exceeds the limit. One induction on the fuel, all parser functions together. -/
namespace EE
open EE.Spec

theorem Res.bind_eq_ok {α β : Type} {r : Res α} {f : α → Res β} {b : β} (h : r.bind f = .ok b) :
    ∃ a, r = .ok a ∧ f a = .ok b := by
  cases r <;> simp [Res.bind] at h
  exact ⟨_, rfl, h⟩

theorem node_ok {lim c h : Nat} (hn : node lim c = .ok h) : h = c + 1 ∧ c + 1 ≤ lim := by
  unfold node at hn
  split at hn
  · cases hn
  · cases hn; exact ⟨rfl, by omega⟩

theorem expectTok_ok {what : Tok} {toks r : List Tok} (h : expectTok what toks = .ok r) : toks = what :: r := by
  cases toks with
  | nil => simp [expectTok] at h
  | cons t ts =>
    simp only [expectTok] at h
    split at h
    · rename_i e; cases h; rw [e]
    · cases h

/-- Registered infix precedences are positive (the property's quantifier; true of the built-ins). -/
def RegsPos (regs : Regs) : Prop := ∀ n c, alookup n regs.inf = some c → 1 ≤ c.prec

theorem bp_of_infix (regs : Regs) (hp : RegsPos regs) (o : Name) (h : regs.isInfix o = true) :
    1 ≤ (regs.bp o).2 ∧ 0 ≤ (regs.bp o).1 := by
  unfold Regs.isInfix at h
  unfold Regs.bp
  cases hl : alookup o regs.inf with
  | none => simp [hl] at h
  | some c =>
    have := hp o c hl
    simp only
    split <;> constructor <;> omega

theorem bp_of_noninfix (regs : Regs) (o : Name) (h : regs.isInfix o = false) : (regs.bp o).1 = -1 := by
  unfold Regs.isInfix at h
  unfold Regs.bp
  cases hl : alookup o regs.inf with
  | none => rfl
  | some c => simp [hl] at h

/-- The postfix loop: what it consumes are postfix operators, applied innermost first. -/
theorem parsePostfix_sound (regs : Regs) (lim : Nat) : ∀ (toks : List Tok) (lhs : AST) (hl0 : Nat) (c0 : List Tok) (e : AST) (h : Nat)
    (rest : List Tok), GPrim regs c0 lhs → hl0 = lhs.height → hl0 ≤ lim → parsePostfix regs lim lhs hl0 toks = .ok (e, h, rest) →
    ∃ c, toks = c ++ rest ∧ GPrim regs (c0 ++ c) e ∧ h = e.height ∧ h ≤ lim
  | [], lhs, hl0, c0, e, h, rest, hg, h1, h2, hh => by
    simp only [parsePostfix, Res.ok.injEq, Prod.mk.injEq] at hh
    obtain ⟨rfl, rfl, rfl⟩ := hh
    exact ⟨[], rfl, by simpa using hg, h1, h2⟩
  | t :: r1, lhs, hl0, c0, e, h, rest, hg, h1, h2, hh => by
    cases t with
    | op o =>
      simp only [parsePostfix] at hh
      split at hh
      · rename_i hpost
        obtain ⟨h', hn, h3⟩ := Res.bind_eq_ok hh
        obtain ⟨hn1, hn2⟩ := node_ok hn
        obtain ⟨c, hc, hg', hh1, hh2⟩ := parsePostfix_sound regs lim r1 (.postfix lhs o) h' (c0 ++ [.op o]) e h rest
          (GPrim.postfix hg hpost) (by simp [AST.height, hn1, h1]) (by omega) h3
        exact ⟨.op o :: c, by simp [hc], by simpa [List.append_assoc] using hg', hh1, hh2⟩
      · simp only [Res.ok.injEq, Prod.mk.injEq] at hh
        obtain ⟨rfl, rfl, rfl⟩ := hh
        exact ⟨[], rfl, by simpa using hg, h1, h2⟩
    | _ =>
      simp only [parsePostfix, Res.ok.injEq, Prod.mk.injEq] at hh
      obtain ⟨rfl, rfl, rfl⟩ := hh
      exact ⟨[], rfl, by simpa using hg, h1, h2⟩

structure Sound (regs : Regs) (lim fuel : Nat) : Prop where
  tok : ∀ d toks e h rest, parseToken regs lim fuel d toks = .ok (e, h, rest) →
    ∃ c, toks = c ++ rest ∧ GTok regs c e ∧ h = e.height ∧ h ≤ lim
  prim : ∀ d toks e h rest, parsePrimary regs lim fuel d toks = .ok (e, h, rest) →
    ∃ c, toks = c ++ rest ∧ GPrim regs c e ∧ h = e.height ∧ h ≤ lim
  expr : ∀ d toks e h rest, parseExpression regs lim fuel d toks = .ok (e, h, rest) →
    ∃ c, toks = c ++ rest ∧ GExpr regs c e ∧ h = e.height ∧ h ≤ lim
  op : ∀ d p lhs lhsH toks e h rest, parseOp regs lim fuel d p lhs lhsH toks = .ok (e, h, rest) →
    0 ≤ p → ∀ lts, GBin regs lts lhs → lhsH = lhs.height → lhsH ≤ lim →
    ∃ c, toks = c ++ rest ∧ GExpr regs (lts ++ c) e ∧ (0 < p → GBin regs (lts ++ c) e) ∧ h = e.height ∧ h ≤ lim
  args : ∀ d toks es h rest, parseArgs regs lim fuel d toks = .ok (es, h, rest) →
    ∃ c, toks = c ++ tClose :: rest ∧ GArgs regs c es ∧ h = AST.heightList es ∧ h ≤ lim
  items : ∀ d toks es h rest, parseListItems regs lim fuel d toks = .ok (es, h, rest) →
    ∃ c, toks = c ++ rest ∧ GItems regs c es ∧ h = AST.heightList es ∧ h ≤ lim
  entries : ∀ d toks es h rest, parseMapItems regs lim fuel d toks = .ok (es, h, rest) →
    ∃ c, toks = c ++ rest ∧ GEntries regs c es ∧ h = AST.heightMap es ∧ h ≤ lim

theorem sound_zero (regs : Regs) (lim : Nat) : Sound regs lim 0 := by
  refine ⟨?_, ?_, ?_, ?_, ?_, ?_, ?_⟩
  · intro d toks e h rest hh; unfold parseToken at hh; cases hh
  · intro d toks e h rest hh; unfold parsePrimary at hh; cases hh
  · intro d toks e h rest hh; unfold parseExpression at hh; cases hh
  · intro d p lhs lhsH toks e h rest hh; unfold parseOp at hh; cases hh
  · intro d toks es h rest hh; unfold parseArgs at hh; cases hh
  · intro d toks es h rest hh; unfold parseListItems at hh; cases hh
  · intro d toks es h rest hh; unfold parseMapItems at hh; cases hh

theorem AST.height_pos : ∀ e : AST, 1 ≤ e.height := by
  intro e; cases e <;> simp [AST.height]

theorem headOp_spec (toks : List Tok) (neg : Bool) (opName : Name) (afterOp : List Tok)
    (h : headOp toks = some (neg, opName, afterOp)) :
    toks = (if neg then [tNot, .op opName] else [.op opName]) ++ afterOp := by
  unfold headOp at h
  split at h
  · rename_i o rst
    split at h
    · rename_i hnot
      split at h
      · simp only [Option.some.injEq, Prod.mk.injEq] at h
        obtain ⟨rfl, rfl, rfl⟩ := h
        have : o = notName := by simpa using hnot
        simp [tNot, this]
      · cases h
    · simp only [Option.some.injEq, Prod.mk.injEq] at h
      obtain ⟨rfl, rfl, rfl⟩ := h
      simp
  · cases h

section Step
variable {regs : Regs} {lim fuel : Nat} (hl : 1 ≤ lim) (hp : RegsPos regs) (ih : Sound regs lim fuel)
include hl hp ih

theorem step_tok (d : Nat) (toks : List Tok) (e : AST) (h : Nat) (rest : List Tok)
    (hh : parseToken regs lim (fuel + 1) d toks = .ok (e, h, rest)) :
    ∃ c, toks = c ++ rest ∧ GTok regs c e ∧ h = e.height ∧ h ≤ lim := by
  unfold parseToken at hh
  split at hh
  · cases hh
  · cases hh; exact ⟨[_], rfl, GTok.num _, by simp [AST.height], hl⟩
  · cases hh; exact ⟨[_], rfl, GTok.bool _, by simp [AST.height], hl⟩
  · cases hh; exact ⟨[_], rfl, GTok.str _, by simp [AST.height], hl⟩
  · cases hh; exact ⟨[_], rfl, GTok.ref _, by simp [AST.height], hl⟩
  · -- call
    rename_i n r
    obtain ⟨r1, he, h2⟩ := Res.bind_eq_ok hh
    try dsimp only at h2
    have hr := expectTok_ok he
    split at h2
    · rename_i r2
      cases h2
      exact ⟨[.func n, tOpen, tClose], by simp [hr, tOpen, tClose], GTok.call0 n, by simp [AST.height, AST.heightList], hl⟩
    · obtain ⟨⟨args, ha, r2⟩, hargs, h3⟩ := Res.bind_eq_ok h2
      obtain ⟨h', hn, h4⟩ := Res.bind_eq_ok h3
      try dsimp only at h4
      cases h4
      obtain ⟨c, hc, hg, hh1, _⟩ := ih.args d _ args ha _ hargs
      obtain ⟨hn1, hn2⟩ := node_ok hn
      exact ⟨.func n :: tOpen :: (c ++ [tClose]), by simp [hr, hc, tOpen], GTok.call hg, by simp [AST.height, hn1, hh1], by omega⟩
  · -- unary
    rename_i o r
    split at hh
    · cases hh
    · rename_i hpre
      split at hh
      · cases hh
      · obtain ⟨⟨rhs, hr, r1⟩, hprim, h2⟩ := Res.bind_eq_ok hh
        obtain ⟨h', hn, h3⟩ := Res.bind_eq_ok h2
        try dsimp only at h3
        cases h3
        obtain ⟨c, hc, hg, hh1, _⟩ := ih.prim (d + 1) r rhs hr _ hprim
        obtain ⟨hn1, hn2⟩ := node_ok hn
        exact ⟨.op o :: c, by simp [hc], GTok.unary (by simpa using hpre) hg, by simp [AST.height, hn1, hh1], by omega⟩
  · -- paren
    rename_i r
    obtain ⟨⟨e', he', r1⟩, hexp, h2⟩ := Res.bind_eq_ok hh
    try dsimp only at h2
    split at h2
    · rename_i r2
      cases h2
      obtain ⟨c, hc, hg, hh1, hh2⟩ := ih.expr d r e h _ hexp
      exact ⟨tOpen :: (c ++ [tClose]), by simp [hc, tOpen, tClose], GTok.paren hg, hh1, hh2⟩
    · cases h2
  · -- list
    rename_i r
    obtain ⟨⟨xs, hx, r1⟩, hitems, h2⟩ := Res.bind_eq_ok hh
    try dsimp only at h2
    obtain ⟨r2, he, h3⟩ := Res.bind_eq_ok h2
    try dsimp only at h3
    obtain ⟨h', hn, h4⟩ := Res.bind_eq_ok h3
    try dsimp only at h4
    cases h4
    have hr := expectTok_ok he
    obtain ⟨c, hc, hg, hh1, _⟩ := ih.items d r xs hx _ hitems
    obtain ⟨hn1, hn2⟩ := node_ok hn
    exact ⟨tOpenB :: (c ++ [tCloseB]), by simp [hc, hr, tOpenB, tCloseB], GTok.list hg, by simp [AST.height, hn1, hh1], by omega⟩
  · -- map
    rename_i r
    obtain ⟨⟨kvs, hx, r1⟩, hitems, h2⟩ := Res.bind_eq_ok hh
    try dsimp only at h2
    obtain ⟨r2, he, h3⟩ := Res.bind_eq_ok h2
    try dsimp only at h3
    obtain ⟨h', hn, h4⟩ := Res.bind_eq_ok h3
    try dsimp only at h4
    cases h4
    have hr := expectTok_ok he
    obtain ⟨c, hc, hg, hh1, _⟩ := ih.entries d r kvs hx _ hitems
    obtain ⟨hn1, hn2⟩ := node_ok hn
    exact ⟨tOpenC :: (c ++ [tCloseC]), by simp [hc, hr, tOpenC, tCloseC], GTok.map hg, by simp [AST.height, hn1, hh1], by omega⟩
  · cases hh
  · cases hh
  · cases hh

theorem step_prim (d : Nat) (toks : List Tok) (e : AST) (h : Nat) (rest : List Tok)
    (hh : parsePrimary regs lim (fuel + 1) d toks = .ok (e, h, rest)) :
    ∃ c, toks = c ++ rest ∧ GPrim regs c e ∧ h = e.height ∧ h ≤ lim := by
  unfold parsePrimary at hh
  obtain ⟨⟨lhs, hl0, r⟩, htok, h2⟩ := Res.bind_eq_ok hh
  try dsimp only at h2
  obtain ⟨c, hc, hg, hh1, hh2⟩ := ih.tok d toks lhs hl0 r htok
  obtain ⟨c', hc', hg', hh1', hh2'⟩ := parsePostfix_sound regs lim r lhs hl0 c e h rest (GPrim.tok hg) hh1 hh2 h2
  exact ⟨c ++ c', by rw [hc, hc', List.append_assoc], hg', hh1', hh2'⟩

theorem step_expr (d : Nat) (toks : List Tok) (e : AST) (h : Nat) (rest : List Tok)
    (hh : parseExpression regs lim (fuel + 1) d toks = .ok (e, h, rest)) :
    ∃ c, toks = c ++ rest ∧ GExpr regs c e ∧ h = e.height ∧ h ≤ lim := by
  unfold parseExpression at hh
  split at hh
  · cases hh
  · obtain ⟨⟨lhs, hl0, r⟩, hprim, h2⟩ := Res.bind_eq_ok hh
    try dsimp only at h2
    obtain ⟨c, hc, hg, hh1, hh2⟩ := ih.prim (d + 1) toks lhs hl0 r hprim
    obtain ⟨c2, hc2, hg2, _, hh3, hh4⟩ := ih.op (d + 1) 0 lhs hl0 r e h rest h2 (by omega) c (GBin.prim hg) hh1 hh2
    exact ⟨c ++ c2, by simp [hc, hc2], hg2, hh3, hh4⟩

theorem step_args (d : Nat) (toks : List Tok) (es : List AST) (h : Nat) (rest : List Tok)
    (hh : parseArgs regs lim (fuel + 1) d toks = .ok (es, h, rest)) :
    ∃ c, toks = c ++ tClose :: rest ∧ GArgs regs c es ∧ h = AST.heightList es ∧ h ≤ lim := by
  unfold parseArgs at hh
  obtain ⟨⟨a, ha, r⟩, hexp, h2⟩ := Res.bind_eq_ok hh
  try dsimp only at h2
  obtain ⟨c, hc, hg, hh1, hh2⟩ := ih.expr d toks a ha r hexp
  split at h2
  · rename_i r1
    cases h2
    exact ⟨c, by simp [hc, tClose], GArgs.one hg, by simp [AST.heightList, hh1], hh2⟩
  · obtain ⟨r1, he, h3⟩ := Res.bind_eq_ok h2
    try dsimp only at h3
    obtain ⟨⟨as, ha', r2⟩, hrec, h4⟩ := Res.bind_eq_ok h3
    try dsimp only at h4
    cases h4
    have hr := expectTok_ok he
    obtain ⟨c2, hc2, hg2, hh3, hh4⟩ := ih.args d r1 as ha' _ hrec
    exact ⟨c ++ .comma :: c2, by simp [hc, hr, hc2], GArgs.cons hg hg2, by simp [AST.heightList, hh1, hh3], by omega⟩

theorem step_items (d : Nat) (toks : List Tok) (es : List AST) (h : Nat) (rest : List Tok)
    (hh : parseListItems regs lim (fuel + 1) d toks = .ok (es, h, rest)) :
    ∃ c, toks = c ++ rest ∧ GItems regs c es ∧ h = AST.heightList es ∧ h ≤ lim := by
  unfold parseListItems at hh
  split at hh
  · cases hh; exact ⟨[], rfl, GItems.nil, rfl, by omega⟩
  · cases hh; exact ⟨[], rfl, GItems.nil, rfl, by omega⟩
  · obtain ⟨⟨a, ha, r⟩, hexp, h2⟩ := Res.bind_eq_ok hh
    try dsimp only at h2
    obtain ⟨c, hc, hg, hh1, hh2⟩ := ih.expr d toks a ha r hexp
    obtain ⟨r1, hsep, h3⟩ := Res.bind_eq_ok h2
    try dsimp only at h3
    obtain ⟨⟨as, ha', r2⟩, hrec, h4⟩ := Res.bind_eq_ok h3
    try dsimp only at h4
    cases h4
    obtain ⟨c2, hc2, hg2, hh3, hh4⟩ := ih.items d r1 as ha' _ hrec
    split at hsep
    · -- next token is `]`: no separator consumed; the recursive call returns nothing
      rename_i r3
      cases hsep
      -- the recursive call sees `]` first
      have : as = [] ∧ c2 = [] := by
        cases fuel with
        | zero => unfold parseListItems at hrec; cases hrec
        | succ f =>
          unfold parseListItems at hrec
          simp at hrec
          obtain ⟨rfl, _, rfl⟩ := hrec
          cases hg2 with
          | nil => exact ⟨rfl, rfl⟩
      obtain ⟨rfl, rfl⟩ := this
      refine ⟨c, by simp at hc2; simp [hc, hc2], GItems.one hg, by simp [AST.heightList, hh1] at hh3 ⊢; omega, by omega⟩
    · have hr := expectTok_ok hsep
      exact ⟨c ++ .comma :: c2, by simp [hc, hr, hc2], GItems.cons hg hg2, by simp [AST.heightList, hh1, hh3], by omega⟩

theorem step_entries (d : Nat) (toks : List Tok) (es : List (AST × AST)) (h : Nat) (rest : List Tok)
    (hh : parseMapItems regs lim (fuel + 1) d toks = .ok (es, h, rest)) :
    ∃ c, toks = c ++ rest ∧ GEntries regs c es ∧ h = AST.heightMap es ∧ h ≤ lim := by
  unfold parseMapItems at hh
  split at hh
  · cases hh; exact ⟨[], rfl, GEntries.nil, rfl, by omega⟩
  · cases hh; exact ⟨[], rfl, GEntries.nil, rfl, by omega⟩
  · obtain ⟨⟨k, hk, r⟩, hkexp, h2⟩ := Res.bind_eq_ok hh
    try dsimp only at h2
    obtain ⟨ck, hck, hgk, hhk1, hhk2⟩ := ih.expr d toks k hk r hkexp
    obtain ⟨r1, hcolon, h3⟩ := Res.bind_eq_ok h2
    try dsimp only at h3
    have hr1 := expectTok_ok hcolon
    obtain ⟨⟨v, hv, r2⟩, hvexp, h4⟩ := Res.bind_eq_ok h3
    try dsimp only at h4
    obtain ⟨cv, hcv, hgv, hhv1, hhv2⟩ := ih.expr d r1 v hv r2 hvexp
    obtain ⟨r3, hsep, h5⟩ := Res.bind_eq_ok h4
    try dsimp only at h5
    obtain ⟨⟨kvs, hkvs, r4⟩, hrec, h6⟩ := Res.bind_eq_ok h5
    try dsimp only at h6
    cases h6
    obtain ⟨c2, hc2, hg2, hh3, hh4⟩ := ih.entries d r3 kvs hkvs _ hrec
    split at hsep
    · rename_i r5
      cases hsep
      have : kvs = [] ∧ c2 = [] := by
        cases fuel with
        | zero => unfold parseMapItems at hrec; cases hrec
        | succ f =>
          unfold parseMapItems at hrec
          simp at hrec
          obtain ⟨rfl, _, rfl⟩ := hrec
          cases hg2 with
          | nil => exact ⟨rfl, rfl⟩
      obtain ⟨rfl, rfl⟩ := this
      refine ⟨ck ++ tColon :: cv, by simp at hc2; simp [hck, hr1, hcv, hc2, tColon], GEntries.one hgk hgv, ?_, by omega⟩
      simp [AST.heightMap, hhk1, hhv1] at hh3 ⊢
      omega
    · have hr := expectTok_ok hsep
      refine ⟨ck ++ tColon :: (cv ++ .comma :: c2), by simp [hck, hr1, hcv, hr, hc2, tColon], GEntries.cons hgk hgv hg2, ?_, by omega⟩
      simp [AST.heightMap, hhk1, hhv1, hh3]

theorem step_op (d : Nat) (p : Int) (lhs : AST) (lhsH : Nat) (toks : List Tok) (e : AST) (h : Nat) (rest : List Tok)
    (hh : parseOp regs lim (fuel + 1) d p lhs lhsH toks = .ok (e, h, rest))
    (hp0 : 0 ≤ p) (lts : List Tok) (hlts : GBin regs lts lhs) (hlh : lhsH = lhs.height) (hll : lhsH ≤ lim) :
    ∃ c, toks = c ++ rest ∧ GExpr regs (lts ++ c) e ∧ (0 < p → GBin regs (lts ++ c) e) ∧ h = e.height ∧ h ≤ lim := by
  have stop : ∀ (t : List Tok), (e, h, rest) = (lhs, lhsH, t) → toks = t →
      ∃ c, toks = c ++ rest ∧ GExpr regs (lts ++ c) e ∧ (0 < p → GBin regs (lts ++ c) e) ∧ h = e.height ∧ h ≤ lim := by
    intro t he ht
    cases he
    exact ⟨[], by simp [ht], by simpa using GExpr.bin hlts, fun _ => by simpa using hlts, hlh, hll⟩
  unfold parseOp at hh
  split at hh
  · rename_i o rst
    split at hh
    · -- `?`
      rename_i hq
      split at hh
      · exact stop _ (by cases hh; rfl) rfl
      · rename_i hpz
        obtain ⟨⟨a, aH, r1⟩, hae, h2⟩ := Res.bind_eq_ok hh
        try dsimp only at h2
        obtain ⟨r2, hcol, h3⟩ := Res.bind_eq_ok h2
        try dsimp only at h3
        obtain ⟨⟨b, bH, r3⟩, hbe, h4⟩ := Res.bind_eq_ok h3
        try dsimp only at h4
        obtain ⟨h', hn, h5⟩ := Res.bind_eq_ok h4
        cases h5
        have hr := expectTok_ok hcol
        obtain ⟨ca, hca, hga, hha1, _⟩ := ih.expr d rst a aH r1 hae
        obtain ⟨cb, hcb, hgb, hhb1, _⟩ := ih.expr d r2 b bH _ hbe
        obtain ⟨hn1, hn2⟩ := node_ok hn
        refine ⟨.op o :: (ca ++ tColon :: cb), by simp [hca, hr, hcb, tColon], ?_, fun hpos => absurd hpos (by omega), ?_, by omega⟩
        · have := GExpr.tern hlts hga hgb
          simpa [tQ, hq] using this
        · simp [AST.height, hn1, hlh, hha1, hhb1]
    · -- infix operator (possibly behind `not`)
      rename_i hnq
      split at hh
      · cases hh
      · rename_i neg opName afterOp hhead
        have hsplit := headOp_spec _ neg opName afterOp hhead
        split at hh
        · cases hh
        · rename_i hnb
          split at hh
          · exact stop _ (by cases hh; rfl) rfl
          · rename_i hlp
            -- the accepted operator is infix
            have hinf : regs.isInfix opName = true := by
              cases hb' : regs.isInfix opName with
              | true => rfl
              | false =>
                have := bp_of_noninfix regs opName hb'
                omega
            obtain ⟨hr1, hl0⟩ := bp_of_infix regs hp opName hinf
            obtain ⟨⟨rhs, rhsH, r1⟩, hprim, h2⟩ := Res.bind_eq_ok hh
            try dsimp only at h2
            obtain ⟨cr, hcr, hgr, hhr1, hhr2⟩ := ih.prim d afterOp rhs rhsH r1 hprim
            obtain ⟨⟨rhs', rhsH', r2⟩, hcont, h3⟩ := Res.bind_eq_ok h2
            try dsimp only at h3
            have hcontS : ∃ c2, r1 = c2 ++ r2 ∧ GBin regs (cr ++ c2) rhs' ∧ rhsH' = rhs'.height ∧ rhsH' ≤ lim := by
              split at hcont
              · split at hcont
                · cases hcont
                · obtain ⟨c2, hc2, _, hgb, hh1, hh2⟩ := ih.op (d + 1) _ rhs rhsH r1 rhs' rhsH' r2 hcont (by omega) cr (GBin.prim hgr) hhr1 hhr2
                  exact ⟨c2, hc2, hgb (by omega), hh1, hh2⟩
              · cases hcont
                exact ⟨[], by simp, by simpa using GBin.prim hgr, hhr1, hhr2⟩
            obtain ⟨c2, hc2, hgrhs, hhr'1, hhr'2⟩ := hcontS
            obtain ⟨hb1, hn1, h4⟩ := Res.bind_eq_ok h3
            obtain ⟨hb2, hn2, h5⟩ := Res.bind_eq_ok h4
            obtain ⟨hn1a, hn1b⟩ := node_ok hn1
            have hnew : GBin regs (lts ++ ((if neg then [tNot, .op opName] else [.op opName]) ++ (cr ++ c2)))
                  (wrapNot neg (.binary opName lhs rhs')) ∧
                hb2 = (wrapNot neg (.binary opName lhs rhs')).height ∧ hb2 ≤ lim := by
              cases neg with
              | true =>
                simp only [if_true] at hn2 ⊢
                obtain ⟨hn2a, hn2b⟩ := node_ok hn2
                refine ⟨?_, by simp [wrapNot, AST.height, hn2a, hn1a, hlh, hhr'1], by omega⟩
                have := GBin.notBin hlts hinf hgrhs
                simpa [wrapNot, tNot] using this
              | false =>
                simp only [Bool.false_eq_true, if_false] at hn2 ⊢
                cases hn2
                refine ⟨?_, by simp [wrapNot, AST.height, hn1a, hlh, hhr'1], by omega⟩
                have := GBin.bin hlts hinf hgrhs
                simpa [wrapNot] using this
            obtain ⟨hgnew, hhnew1, hhnew2⟩ := hnew
            obtain ⟨c3, hc3, hge, hgb, hhe1, hhe2⟩ := ih.op d p _ hb2 r2 e h rest h5 hp0 _ hgnew hhnew1 hhnew2
            refine ⟨(if neg then [tNot, .op opName] else [.op opName]) ++ (cr ++ c2) ++ c3, ?_,
              by simpa [List.append_assoc] using hge, fun hpos => by simpa [List.append_assoc] using hgb hpos, hhe1, hhe2⟩
            rw [hsplit, hcr, hc2, hc3]; simp
  · exact stop _ (by cases hh; rfl) rfl

end Step

/-- The master soundness invariant holds for every amount of fuel. -/
theorem sound (regs : Regs) (lim : Nat) (hl : 1 ≤ lim) (hp : RegsPos regs) : ∀ fuel, Sound regs lim fuel
  | 0 => sound_zero regs lim
  | fuel + 1 =>
    have ih := sound regs lim hl hp fuel
    { tok := step_tok hl hp ih
      prim := step_prim hl hp ih
      expr := step_expr hl hp ih
      op := step_op hl hp ih
      args := step_args hl hp ih
      items := step_items hl hp ih
      entries := step_entries hl hp ih }

/-- The statement loop. -/
theorem parseStmts_sound (regs : Regs) (lim : Nat) (hl : 1 ≤ lim) (hp : RegsPos regs) :
    ∀ (fuel : Nat) (toks : List Tok) (es : List AST) (h : Nat), parseStmts regs lim fuel toks = .ok (es, h) →
      GProg regs toks es ∧ h = AST.heightList es ∧ h ≤ lim
  | 0, _, _, _, hh => by simp [parseStmts] at hh
  | fuel + 1, [], es, h, hh => by
    simp [parseStmts] at hh
    obtain ⟨rfl, rfl⟩ := hh
    exact ⟨GProg.nil, rfl, by omega⟩
  | fuel + 1, t :: ts, es, h, hh => by
    simp only [parseStmts] at hh
    obtain ⟨⟨a, ha, r⟩, hexp, h2⟩ := Res.bind_eq_ok hh
    try dsimp only at h2
    obtain ⟨c, hc, hg, hh1, hh2⟩ := (sound regs lim hl hp fuel).expr 0 (t :: ts) a ha r hexp
    obtain ⟨⟨as, ha'⟩, hrec, h3⟩ := Res.bind_eq_ok h2
    try dsimp only at h3
    cases h3
    obtain ⟨hg2, hh3, hh4⟩ := parseStmts_sound regs lim hl hp fuel _ as ha' hrec
    refine ⟨?_, by simp [AST.heightList, hh1, hh3], by omega⟩
    rw [hc]
    split at hg2
    · rename_i r'
      exact GProg.stmtSemi hg hg2
    · exact GProg.stmt hg hg2

end EE
