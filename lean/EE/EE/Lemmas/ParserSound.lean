import EE.Spec.Grammar
/-! Soundness of the parser model w.r.t. the grammar (`EE.Spec.G*`), with the bookkeeping the
parser keeps on the side: the returned `height` is the height of the returned tree and never
exceeds the limit. One induction on the fuel, all parser functions together. -/
namespace EE
open EE.Spec

theorem Res.bind_eq_ok {α β : Type} {r : Res α} {f : α → Res β} {b : β} (h : r.bind f = .ok b) :
    ∃ a, r = .ok a ∧ f a = .ok b := by
  cases r <;> simp [Res.bind] at h
  exact ⟨_, rfl, h⟩

theorem node_ok {lim c h : Nat} (hn : node lim c = .ok h) : h = c + 1 ∧ c + 1 ≤ lim := by
  unfold node at hn
  split at hn
  · cases hn
  · cases hn; exact ⟨rfl, by omega⟩

theorem expectTok_ok {what : Tok} {toks r : List Tok} (h : expectTok what toks = .ok r) : toks = what :: r := by
  cases toks with
  | nil => simp [expectTok] at h
  | cons t ts =>
    simp only [expectTok] at h
    split at h
    · rename_i e; cases h; rw [e]
    · cases h

/-- Registered infix precedences are positive (the property's quantifier; true of the built-ins). -/
def RegsPos (regs : Regs) : Prop := ∀ n c, alookup n regs.inf = some c → 1 ≤ c.prec

theorem bp_of_infix (regs : Regs) (hp : RegsPos regs) (o : Name) (h : regs.isInfix o = true) :
    1 ≤ (regs.bp o).2 ∧ 0 ≤ (regs.bp o).1 := by
  unfold Regs.isInfix at h
  unfold Regs.bp
  cases hl : alookup o regs.inf with
  | none => simp [hl] at h
  | some c =>
    have := hp o c hl
    simp only
    split <;> constructor <;> omega

theorem bp_of_noninfix (regs : Regs) (o : Name) (h : regs.isInfix o = false) : (regs.bp o).1 = -1 := by
  unfold Regs.isInfix at h
  unfold Regs.bp
  cases hl : alookup o regs.inf with
  | none => rfl
  | some c => simp [hl] at h

structure Sound (regs : Regs) (lim fuel : Nat) : Prop where
  tok : ∀ d toks e h rest, parseToken regs lim fuel d toks = .ok (e, h, rest) →
    ∃ c, toks = c ++ rest ∧ GTok regs c e ∧ h = e.height ∧ h ≤ lim
  prim : ∀ d toks e h rest, parsePrimary regs lim fuel d toks = .ok (e, h, rest) →
    ∃ c, toks = c ++ rest ∧ GPrim regs c e ∧ h = e.height ∧ h ≤ lim
  expr : ∀ d toks e h rest, parseExpression regs lim fuel d toks = .ok (e, h, rest) →
    ∃ c, toks = c ++ rest ∧ GExpr regs c e ∧ h = e.height ∧ h ≤ lim
  op : ∀ d p lhs lhsH toks e h rest, parseOp regs lim fuel d p lhs lhsH toks = .ok (e, h, rest) →
    0 ≤ p → ∀ lts, GBin regs lts lhs → lhsH = lhs.height → lhsH ≤ lim →
    ∃ c, toks = c ++ rest ∧ GExpr regs (lts ++ c) e ∧ (0 < p → GBin regs (lts ++ c) e) ∧ h = e.height ∧ h ≤ lim
  args : ∀ d toks es h rest, parseArgs regs lim fuel d toks = .ok (es, h, rest) →
    ∃ c, toks = c ++ tClose :: rest ∧ GArgs regs c es ∧ h = AST.heightList es ∧ h ≤ lim
  items : ∀ d toks es h rest, parseListItems regs lim fuel d toks = .ok (es, h, rest) →
    ∃ c, toks = c ++ rest ∧ GItems regs c es ∧ h = AST.heightList es ∧ h ≤ lim
  entries : ∀ d toks es h rest, parseMapItems regs lim fuel d toks = .ok (es, h, rest) →
    ∃ c, toks = c ++ rest ∧ GEntries regs c es ∧ h = AST.heightMap es ∧ h ≤ lim

theorem sound_zero (regs : Regs) (lim : Nat) : Sound regs lim 0 := by
  refine ⟨?_, ?_, ?_, ?_, ?_, ?_, ?_⟩
  · intro d toks e h rest hh; unfold parseToken at hh; cases hh
  · intro d toks e h rest hh; unfold parsePrimary at hh; cases hh
  · intro d toks e h rest hh; unfold parseExpression at hh; cases hh
  · intro d p lhs lhsH toks e h rest hh; unfold parseOp at hh; cases hh
  · intro d toks es h rest hh; unfold parseArgs at hh; cases hh
  · intro d toks es h rest hh; unfold parseListItems at hh; cases hh
  · intro d toks es h rest hh; unfold parseMapItems at hh; cases hh

theorem AST.height_pos : ∀ e : AST, 1 ≤ e.height := by
  intro e; cases e <;> simp [AST.height]

section Step
variable {regs : Regs} {lim fuel : Nat} (hl : 1 ≤ lim) (hp : RegsPos regs) (ih : Sound regs lim fuel)
include hl hp ih

theorem step_tok (d : Nat) (toks : List Tok) (e : AST) (h : Nat) (rest : List Tok)
    (hh : parseToken regs lim (fuel + 1) d toks = .ok (e, h, rest)) :
    ∃ c, toks = c ++ rest ∧ GTok regs c e ∧ h = e.height ∧ h ≤ lim := by
  unfold parseToken at hh
  split at hh
  · cases hh
  · cases hh; exact ⟨[_], rfl, GTok.num _, by simp [AST.height], hl⟩
  · cases hh; exact ⟨[_], rfl, GTok.bool _, by simp [AST.height], hl⟩
  · cases hh; exact ⟨[_], rfl, GTok.str _, by simp [AST.height], hl⟩
  · cases hh; exact ⟨[_], rfl, GTok.ref _, by simp [AST.height], hl⟩
  · -- call
    rename_i n r
    obtain ⟨r1, he, h2⟩ := Res.bind_eq_ok hh
    try dsimp only at h2
    have hr := expectTok_ok he
    split at h2
    · rename_i r2
      cases h2
      exact ⟨[.func n, tOpen, tClose], by simp [hr, tOpen, tClose], GTok.call0 n, by simp [AST.height, AST.heightList], hl⟩
    · obtain ⟨⟨args, ha, r2⟩, hargs, h3⟩ := Res.bind_eq_ok h2
      obtain ⟨h', hn, h4⟩ := Res.bind_eq_ok h3
      try dsimp only at h4
      cases h4
      obtain ⟨c, hc, hg, hh1, _⟩ := ih.args d _ args ha _ hargs
      obtain ⟨hn1, hn2⟩ := node_ok hn
      exact ⟨.func n :: tOpen :: (c ++ [tClose]), by simp [hr, hc, tOpen], GTok.call hg, by simp [AST.height, hn1, hh1], by omega⟩
  · -- unary
    rename_i o r
    split at hh
    · cases hh
    · rename_i hpre
      split at hh
      · cases hh
      · obtain ⟨⟨rhs, hr, r1⟩, hprim, h2⟩ := Res.bind_eq_ok hh
        obtain ⟨h', hn, h3⟩ := Res.bind_eq_ok h2
        try dsimp only at h3
        cases h3
        obtain ⟨c, hc, hg, hh1, _⟩ := ih.prim (d + 1) r rhs hr _ hprim
        obtain ⟨hn1, hn2⟩ := node_ok hn
        exact ⟨.op o :: c, by simp [hc], GTok.unary (by simpa using hpre) hg, by simp [AST.height, hn1, hh1], by omega⟩
  · -- paren
    rename_i r
    obtain ⟨⟨e', he', r1⟩, hexp, h2⟩ := Res.bind_eq_ok hh
    try dsimp only at h2
    split at h2
    · rename_i r2
      cases h2
      obtain ⟨c, hc, hg, hh1, hh2⟩ := ih.expr d r e h _ hexp
      exact ⟨tOpen :: (c ++ [tClose]), by simp [hc, tOpen, tClose], GTok.paren hg, hh1, hh2⟩
    · cases h2
  · -- list
    rename_i r
    obtain ⟨⟨xs, hx, r1⟩, hitems, h2⟩ := Res.bind_eq_ok hh
    try dsimp only at h2
    obtain ⟨r2, he, h3⟩ := Res.bind_eq_ok h2
    try dsimp only at h3
    obtain ⟨h', hn, h4⟩ := Res.bind_eq_ok h3
    try dsimp only at h4
    cases h4
    have hr := expectTok_ok he
    obtain ⟨c, hc, hg, hh1, _⟩ := ih.items d r xs hx _ hitems
    obtain ⟨hn1, hn2⟩ := node_ok hn
    exact ⟨tOpenB :: (c ++ [tCloseB]), by simp [hc, hr, tOpenB, tCloseB], GTok.list hg, by simp [AST.height, hn1, hh1], by omega⟩
  · -- map
    rename_i r
    obtain ⟨⟨kvs, hx, r1⟩, hitems, h2⟩ := Res.bind_eq_ok hh
    try dsimp only at h2
    obtain ⟨r2, he, h3⟩ := Res.bind_eq_ok h2
    try dsimp only at h3
    obtain ⟨h', hn, h4⟩ := Res.bind_eq_ok h3
    try dsimp only at h4
    cases h4
    have hr := expectTok_ok he
    obtain ⟨c, hc, hg, hh1, _⟩ := ih.entries d r kvs hx _ hitems
    obtain ⟨hn1, hn2⟩ := node_ok hn
    exact ⟨tOpenC :: (c ++ [tCloseC]), by simp [hc, hr, tOpenC, tCloseC], GTok.map hg, by simp [AST.height, hn1, hh1], by omega⟩
  · cases hh
  · cases hh
  · cases hh

theorem step_prim (d : Nat) (toks : List Tok) (e : AST) (h : Nat) (rest : List Tok)
    (hh : parsePrimary regs lim (fuel + 1) d toks = .ok (e, h, rest)) :
    ∃ c, toks = c ++ rest ∧ GPrim regs c e ∧ h = e.height ∧ h ≤ lim := by
  unfold parsePrimary at hh
  obtain ⟨⟨lhs, hl0, r⟩, htok, h2⟩ := Res.bind_eq_ok hh
  try dsimp only at h2
  obtain ⟨c, hc, hg, hh1, hh2⟩ := ih.tok d toks lhs hl0 r htok
  split at h2
  · rename_i o r1
    split at h2
    · rename_i hpost
      obtain ⟨h', hn, h3⟩ := Res.bind_eq_ok h2
      cases h3
      obtain ⟨hn1, hn2⟩ := node_ok hn
      exact ⟨c ++ [.op o], by simp [hc], GPrim.postfix hg hpost, by simp [AST.height, hn1, hh1], by omega⟩
    · cases h2
      exact ⟨c, hc, GPrim.tok hg, hh1, hh2⟩
  · cases h2
    exact ⟨c, hc, GPrim.tok hg, hh1, hh2⟩

theorem step_expr (d : Nat) (toks : List Tok) (e : AST) (h : Nat) (rest : List Tok)
    (hh : parseExpression regs lim (fuel + 1) d toks = .ok (e, h, rest)) :
    ∃ c, toks = c ++ rest ∧ GExpr regs c e ∧ h = e.height ∧ h ≤ lim := by
  unfold parseExpression at hh
  split at hh
  · cases hh
  · obtain ⟨⟨lhs, hl0, r⟩, hprim, h2⟩ := Res.bind_eq_ok hh
    try dsimp only at h2
    obtain ⟨c, hc, hg, hh1, hh2⟩ := ih.prim (d + 1) toks lhs hl0 r hprim
    obtain ⟨c2, hc2, hg2, _, hh3, hh4⟩ := ih.op (d + 1) 0 lhs hl0 r e h rest h2 (by omega) c (GBin.prim hg) hh1 hh2
    exact ⟨c ++ c2, by simp [hc, hc2], hg2, hh3, hh4⟩

theorem step_args (d : Nat) (toks : List Tok) (es : List AST) (h : Nat) (rest : List Tok)
    (hh : parseArgs regs lim (fuel + 1) d toks = .ok (es, h, rest)) :
    ∃ c, toks = c ++ tClose :: rest ∧ GArgs regs c es ∧ h = AST.heightList es ∧ h ≤ lim := by
  unfold parseArgs at hh
  obtain ⟨⟨a, ha, r⟩, hexp, h2⟩ := Res.bind_eq_ok hh
  try dsimp only at h2
  obtain ⟨c, hc, hg, hh1, hh2⟩ := ih.expr d toks a ha r hexp
  split at h2
  · rename_i r1
    cases h2
    exact ⟨c, by simp [hc, tClose], GArgs.one hg, by simp [AST.heightList, hh1], hh2⟩
  · obtain ⟨r1, he, h3⟩ := Res.bind_eq_ok h2
    try dsimp only at h3
    obtain ⟨⟨as, ha', r2⟩, hrec, h4⟩ := Res.bind_eq_ok h3
    try dsimp only at h4
    cases h4
    have hr := expectTok_ok he
    obtain ⟨c2, hc2, hg2, hh3, hh4⟩ := ih.args d r1 as ha' _ hrec
    exact ⟨c ++ .comma :: c2, by simp [hc, hr, hc2], GArgs.cons hg hg2, by simp [AST.heightList, hh1, hh3], by omega⟩

theorem step_items (d : Nat) (toks : List Tok) (es : List AST) (h : Nat) (rest : List Tok)
    (hh : parseListItems regs lim (fuel + 1) d toks = .ok (es, h, rest)) :
    ∃ c, toks = c ++ rest ∧ GItems regs c es ∧ h = AST.heightList es ∧ h ≤ lim := by
  unfold parseListItems at hh
  split at hh
  · cases hh; exact ⟨[], rfl, GItems.nil, rfl, by omega⟩
  · cases hh; exact ⟨[], rfl, GItems.nil, rfl, by omega⟩
  · obtain ⟨⟨a, ha, r⟩, hexp, h2⟩ := Res.bind_eq_ok hh
    try dsimp only at h2
    obtain ⟨c, hc, hg, hh1, hh2⟩ := ih.expr d toks a ha r hexp
    obtain ⟨r1, hsep, h3⟩ := Res.bind_eq_ok h2
    try dsimp only at h3
    obtain ⟨⟨as, ha', r2⟩, hrec, h4⟩ := Res.bind_eq_ok h3
    try dsimp only at h4
    cases h4
    obtain ⟨c2, hc2, hg2, hh3, hh4⟩ := ih.items d r1 as ha' _ hrec
    split at hsep
    · -- next token is `]`: no separator consumed; the recursive call returns nothing
      rename_i r3
      cases hsep
      -- the recursive call sees `]` first
      have : as = [] ∧ c2 = [] := by
        cases fuel with
        | zero => unfold parseListItems at hrec; cases hrec
        | succ f =>
          unfold parseListItems at hrec
          simp at hrec
          obtain ⟨rfl, _, rfl⟩ := hrec
          cases hg2 with
          | nil => exact ⟨rfl, rfl⟩
      obtain ⟨rfl, rfl⟩ := this
      refine ⟨c, by simp at hc2; simp [hc, hc2], GItems.one hg, by simp [AST.heightList, hh1] at hh3 ⊢; omega, by omega⟩
    · have hr := expectTok_ok hsep
      exact ⟨c ++ .comma :: c2, by simp [hc, hr, hc2], GItems.cons hg hg2, by simp [AST.heightList, hh1, hh3], by omega⟩

end Step

end EE
