import EE.Spec.Grammar
/-! Soundness of the parser model w.r.t. the grammar (`EE.Spec.G*`), with the bookkeeping the
parser keeps on the side: the returned `height` is the height of the returned tree and never
exceeds the limit. One induction on the fuel, all parser functions together. -/
namespace EE
open EE.Spec

theorem Res.bind_eq_ok {α β : Type} {r : Res α} {f : α → Res β} {b : β} (h : r.bind f = .ok b) :
    ∃ a, r = .ok a ∧ f a = .ok b := by
  cases r <;> simp [Res.bind] at h
  exact ⟨_, rfl, h⟩

theorem node_ok {lim c h : Nat} (hn : node lim c = .ok h) : h = c + 1 ∧ c + 1 ≤ lim := by
  unfold node at hn
  split at hn
  · cases hn
  · cases hn; exact ⟨rfl, by omega⟩

theorem expectTok_ok {what : Tok} {toks r : List Tok} (h : expectTok what toks = .ok r) : toks = what :: r := by
  cases toks with
  | nil => simp [expectTok] at h
  | cons t ts =>
    simp only [expectTok] at h
    split at h
    · rename_i e; cases h; rw [e]
    · cases h

/-- Registered infix precedences are positive (the property's quantifier; true of the built-ins). -/
def RegsPos (regs : Regs) : Prop := ∀ n c, alookup n regs.inf = some c → 1 ≤ c.prec

theorem bp_of_infix (regs : Regs) (hp : RegsPos regs) (o : Name) (h : regs.isInfix o = true) :
    1 ≤ (regs.bp o).2 ∧ 0 ≤ (regs.bp o).1 := by
  unfold Regs.isInfix at h
  unfold Regs.bp
  cases hl : alookup o regs.inf with
  | none => simp [hl] at h
  | some c =>
    have := hp o c hl
    simp only
    split <;> constructor <;> omega

theorem bp_of_noninfix (regs : Regs) (o : Name) (h : regs.isInfix o = false) : (regs.bp o).1 = -1 := by
  unfold Regs.isInfix at h
  unfold Regs.bp
  cases hl : alookup o regs.inf with
  | none => rfl
  | some c => simp [hl] at h

structure Sound (regs : Regs) (lim fuel : Nat) : Prop where
  tok : ∀ d toks e h rest, parseToken regs lim fuel d toks = .ok (e, h, rest) →
    ∃ c, toks = c ++ rest ∧ GTok regs c e ∧ h = e.height ∧ h ≤ lim
  prim : ∀ d toks e h rest, parsePrimary regs lim fuel d toks = .ok (e, h, rest) →
    ∃ c, toks = c ++ rest ∧ GPrim regs c e ∧ h = e.height ∧ h ≤ lim
  expr : ∀ d toks e h rest, parseExpression regs lim fuel d toks = .ok (e, h, rest) →
    ∃ c, toks = c ++ rest ∧ GExpr regs c e ∧ h = e.height ∧ h ≤ lim
  op : ∀ d p lhs lhsH toks e h rest, parseOp regs lim fuel d p lhs lhsH toks = .ok (e, h, rest) →
    0 ≤ p → ∀ lts, GBin regs lts lhs → lhsH = lhs.height → lhsH ≤ lim →
    ∃ c, toks = c ++ rest ∧ GExpr regs (lts ++ c) e ∧ (0 < p → GBin regs (lts ++ c) e) ∧ h = e.height ∧ h ≤ lim
  args : ∀ d toks es h rest, parseArgs regs lim fuel d toks = .ok (es, h, rest) →
    ∃ c, toks = c ++ tClose :: rest ∧ GArgs regs c es ∧ h = AST.heightList es ∧ h ≤ lim
  items : ∀ d toks es h rest, parseListItems regs lim fuel d toks = .ok (es, h, rest) →
    ∃ c, toks = c ++ rest ∧ GItems regs c es ∧ h = AST.heightList es ∧ h ≤ lim
  entries : ∀ d toks es h rest, parseMapItems regs lim fuel d toks = .ok (es, h, rest) →
    ∃ c, toks = c ++ rest ∧ GEntries regs c es ∧ h = AST.heightMap es ∧ h ≤ lim

theorem sound_zero (regs : Regs) (lim : Nat) : Sound regs lim 0 := by
  refine ⟨?_, ?_, ?_, ?_, ?_, ?_, ?_⟩
  · intro d toks e h rest hh; unfold parseToken at hh; cases hh
  · intro d toks e h rest hh; unfold parsePrimary at hh; cases hh
  · intro d toks e h rest hh; unfold parseExpression at hh; cases hh
  · intro d p lhs lhsH toks e h rest hh; unfold parseOp at hh; cases hh
  · intro d toks es h rest hh; unfold parseArgs at hh; cases hh
  · intro d toks es h rest hh; unfold parseListItems at hh; cases hh
  · intro d toks es h rest hh; unfold parseMapItems at hh; cases hh

end EE
