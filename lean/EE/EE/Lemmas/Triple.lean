import EE.Lemmas.Engine
/-! `Triple I F m`: started in a world satisfying `I`, the action `m` either returns a value in a
world satisfying `I`, or fails (`Err`, panic, deadlock, hang, …) with the abnormal part `f` of its
outcome in a world `w'` such that `F f w'`. Closed under the monad's combinators (a failure of
the first part of a `bind'` *is* the outcome: the continuation does not run); `exec` satisfies
every triple its handlers and the map primitives satisfy. -/
namespace EE
open EngineM

variable {σ α β : Type}

def Triple (I : World σ → Prop) (F : Fault → World σ → Prop) (m : EngineM σ α) : Prop :=
  ∀ w, I w → (∀ a w', m w = (.ok a, w') → I w') ∧ (∀ r w', m w = (r, w') → r.isOk = false → F r.fault w')

namespace Triple
variable {I : World σ → Prop} {F : Fault → World σ → Prop}

/-- `hA`: a plain `Err` (no abnormal part) is an allowed failure wherever the invariant holds. -/
theorem pure (a : α) : Triple I F (pure' a : EngineM σ α) := by
  intro w h
  refine ⟨fun a' w' e => ?_, fun r w' e hr => ?_⟩
  · simp [pure'] at e; obtain ⟨_, rfl⟩ := e; exact h
  · simp [pure'] at e; obtain ⟨rfl, _⟩ := e; simp [Res.isOk] at hr
theorem fail (hA : ∀ w, I w → F .none w) (e : ErrKind) : Triple I F (EngineM.fail e : EngineM σ α) := by
  intro w h
  refine ⟨fun a w' e' => ?_, fun r w' e' _ => ?_⟩
  · simp [EngineM.fail] at e'
  · simp [EngineM.fail] at e'; obtain ⟨rfl, rfl⟩ := e'; exact hA w h
theorem lift (r : Res α) (hr : ∀ w, I w → F r.fault w) : Triple I F (EngineM.lift r : EngineM σ α) := by
  intro w h
  refine ⟨fun a' w' e => ?_, fun r' w' e _ => ?_⟩
  · simp [EngineM.lift] at e; obtain ⟨_, rfl⟩ := e; exact h
  · simp [EngineM.lift] at e; obtain ⟨rfl, rfl⟩ := e; exact hr w h

theorem bind {m : EngineM σ α} {f : α → EngineM σ β} (hm : Triple I F m) (hf : ∀ a, Triple I F (f a)) :
    Triple I F (bind' m f) := by
  intro w hw
  have h1 := hm w hw
  rcases bind'_cases m f w with ⟨a, w', hmw, hb⟩ | ⟨r, w', hmw, hnok, r', hb, hr'ok, _, _, _, _, hd⟩
  · rw [hb]; exact hf a w' (h1.1 a w' hmw)
  · rw [hb]
    refine ⟨fun a w'' e => ?_, fun r'' w'' e _ => ?_⟩
    · cases e; simp [Res.isOk] at hr'ok
    · cases e; rw [hd]; exact h1.2 r w' hmw hnok

end Triple

/-- An invariant that does not look at the parts of the world the map primitives change. -/
structure Stable0 (I : World σ → Prop) : Prop where
  clean : ∀ w, I w → w.Clean
  ctx : ∀ w m, I w → I { w with ctx := m }

/-- … and does not look at the trace either. -/
structure StableT (I : World σ → Prop) : Prop extends Stable0 I where
  trace : ∀ w t, I w → I { w with trace := t }

theorem Triple.withCtx {I : World σ → Prop} {F : Fault → World σ → Prop} (hA : ∀ w, I w → F .none w) (hI : Stable0 I) (f : CtxMap → α × CtxMap) : Triple I F (withCtx f) := by
  intro w hw
  rw [withCtx_clean (hI.clean w hw)]
  refine ⟨fun a' w' e => ?_, fun r w' e hr => ?_⟩
  · simp at e; obtain ⟨_, rfl⟩ := e; exact hI.ctx w _ hw
  · simp at e; obtain ⟨rfl, _⟩ := e; simp [Res.isOk] at hr

theorem Triple.readRegs {I : World σ → Prop} {F : Fault → World σ → Prop} (hA : ∀ w, I w → F .none w) (hI : Stable0 I) : Triple I F (readRegs : EngineM σ Regs) := by
  intro w hw
  rw [readRegs_clean (hI.clean w hw)]
  refine ⟨fun a' w' e => ?_, fun r w' e hr => ?_⟩
  · simp at e; obtain ⟨_, rfl⟩ := e; exact hw
  · simp at e; obtain ⟨rfl, _⟩ := e; simp [Res.isOk] at hr

theorem Triple.lookupE {I : World σ → Prop} {F : Fault → World σ → Prop} (hA : ∀ w, I w → F .none w) (hI : Stable0 I) {γ : Type} (tbl : Regs → List (Name × γ)) (n : Name) (e : ErrKind) :
    Triple I F (lookupE tbl n e) := by
  refine Triple.bind (Triple.readRegs hA hI) fun r => ?_
  cases alookup n (tbl r)
  · exact Triple.fail hA _
  · exact Triple.pure _

/-- Handlers keep the invariant (and do not deadlock on their own). -/
def InvTriple (I : World σ → Prop) (F : Fault → World σ → Prop) (inv : Inv σ) : Prop := ∀ h args, Triple I F (inv h args)

theorem Triple.invoke {I : World σ → Prop} {F : Fault → World σ → Prop} (hA : ∀ w, I w → F .none w) (hI : StableT I) {inv : Inv σ} (hinv : InvTriple I F inv) (h : HandlerId) (args : List Value) :
    Triple I F (invoke inv h args) := by
  intro w hw
  exact hinv h args _ (hI.trace w _ hw)

theorem Triple.ctxValue {I : World σ → Prop} {F : Fault → World σ → Prop} (hA : ∀ w, I w → F .none w) (hI : Stable0 I) {inv : Inv σ} (hinvoke : ∀ h args, Triple I F (EE.invoke inv h args)) (n : Name) :
    Triple I F (ctxValue inv n) := by
  refine Triple.bind (Triple.withCtx hA hI _) fun r => ?_
  match r with
  | none => exact Triple.pure _
  | some (.var v) => exact Triple.pure _
  | some (.fn h) => exact hinvoke h []

theorem Triple.ctxGetFunc {I : World σ → Prop} {F : Fault → World σ → Prop} (hA : ∀ w, I w → F .none w) (hI : Stable0 I) (n : Name) : Triple I F (ctxGetFunc n : EngineM σ _) := by
  refine Triple.bind (Triple.withCtx hA hI _) fun r => ?_
  match r with
  | none => exact Triple.pure _
  | some (.var v) => exact Triple.pure _
  | some (.fn h) => exact Triple.pure _

theorem refName_fault (t : AST) : (refName t).fault = .none := by
  cases t <;> rfl

mutual
/-- The evaluator keeps every stable invariant its handlers keep, and never deadlocks. -/
theorem Triple.exec {I : World σ → Prop} {F : Fault → World σ → Prop} (hA : ∀ w, I w → F .none w) (hI : Stable0 I) {inv : Inv σ} (hinvoke : ∀ h args, Triple I F (EE.invoke inv h args)) :
    ∀ t : AST, Triple I F (exec inv t)
  | .lit l => by simp only [EE.exec]; exact Triple.pure _
  | .none => by simp only [EE.exec]; exact Triple.pure _
  | .ref n => by simp only [EE.exec]; exact Triple.ctxValue hA hI hinvoke n
  | .call n args => by
      simp only [EE.exec]
      refine Triple.bind (Triple.execList hA hI hinvoke args) fun vs => Triple.bind (Triple.ctxGetFunc hA hI n) fun r => ?_
      match r with
      | some h => exact hinvoke h vs
      | none => exact Triple.bind (Triple.lookupE hA hI _ _ _) fun h => hinvoke h vs
  | .unary op rhs => by
      simp only [EE.exec]
      exact Triple.bind (Triple.lookupE hA hI _ _ _) fun h => Triple.bind (Triple.exec hA hI hinvoke rhs) fun v => hinvoke h [v]
  | .postfix lhs op => by
      simp only [EE.exec]
      exact Triple.bind (Triple.lookupE hA hI _ _ _) fun h => Triple.bind (Triple.exec hA hI hinvoke lhs) fun v => hinvoke h [v]
  | .binary op lhs rhs => by
      simp only [EE.exec]
      refine Triple.bind (Triple.lookupE hA hI _ _ _) fun cfg => ?_
      split
      · exact Triple.bind (Triple.exec hA hI hinvoke lhs) fun a => Triple.bind (Triple.exec hA hI hinvoke rhs) fun b =>
          Triple.bind (Triple.lift _ (fun w hw => by rw [refName_fault]; exact hA w hw)) fun name =>
          Triple.bind (Triple.lookupE hA hI _ _ _) fun cfg2 =>
          Triple.bind (hinvoke cfg2.h [a, b]) fun v =>
          Triple.bind (Triple.withCtx hA hI _) fun _ => Triple.pure _
      · exact Triple.bind (Triple.lookupE hA hI _ _ _) fun cfg2 =>
          Triple.bind (Triple.exec hA hI hinvoke lhs) fun a => Triple.bind (Triple.exec hA hI hinvoke rhs) fun b =>
          hinvoke cfg2.h [a, b]
  | .ternary c a b => by
      simp only [EE.exec]
      refine Triple.bind (Triple.exec hA hI hinvoke c) fun v => ?_
      match v with
      | .bool true => exact Triple.exec hA hI hinvoke a
      | .bool false => exact Triple.exec hA hI hinvoke b
      | .str _ => exact Triple.fail hA _
      | .num _ => exact Triple.fail hA _
      | .list _ => exact Triple.fail hA _
      | .map _ => exact Triple.fail hA _
      | .none => exact Triple.fail hA _
  | .list xs => by
      simp only [EE.exec]; exact Triple.bind (Triple.execList hA hI hinvoke xs) fun vs => Triple.pure _
  | .map kvs => by
      simp only [EE.exec]; exact Triple.bind (Triple.execMap hA hI hinvoke kvs) fun vs => Triple.pure _
  | .stmt xs => by
      simp only [EE.exec]; exact Triple.execChain hA hI hinvoke _ xs
theorem Triple.execList {I : World σ → Prop} {F : Fault → World σ → Prop} (hA : ∀ w, I w → F .none w) (hI : Stable0 I) {inv : Inv σ} (hinvoke : ∀ h args, Triple I F (EE.invoke inv h args)) :
    ∀ ts : List AST, Triple I F (execList inv ts)
  | [] => by simp only [EE.execList]; exact Triple.pure _
  | a :: as => by
      simp only [EE.execList]
      exact Triple.bind (Triple.exec hA hI hinvoke a) fun v => Triple.bind (Triple.execList hA hI hinvoke as) fun vs => Triple.pure _
theorem Triple.execMap {I : World σ → Prop} {F : Fault → World σ → Prop} (hA : ∀ w, I w → F .none w) (hI : Stable0 I) {inv : Inv σ} (hinvoke : ∀ h args, Triple I F (EE.invoke inv h args)) :
    ∀ ts : List (AST × AST), Triple I F (execMap inv ts)
  | [] => by simp only [EE.execMap]; exact Triple.pure _
  | (k, v) :: r => by
      simp only [EE.execMap]
      exact Triple.bind (Triple.exec hA hI hinvoke k) fun _ => Triple.bind (Triple.exec hA hI hinvoke v) fun _ =>
        Triple.bind (Triple.execMap hA hI hinvoke r) fun _ => Triple.pure _
theorem Triple.execChain {I : World σ → Prop} {F : Fault → World σ → Prop} (hA : ∀ w, I w → F .none w) (hI : Stable0 I) {inv : Inv σ} (hinvoke : ∀ h args, Triple I F (EE.invoke inv h args)) :
    ∀ (last : Value) (ts : List AST), Triple I F (execChain inv last ts)
  | _, [] => by simp only [EE.execChain]; exact Triple.pure _
  | _, a :: as => by
      simp only [EE.execChain]
      exact Triple.bind (Triple.exec hA hI hinvoke a) fun v => Triple.execChain hA hI hinvoke v as
end

/-- The usual instance: the invariant does not look at the trace and the handlers satisfy the triple. -/
theorem Triple.exec' {I : World σ → Prop} {F : Fault → World σ → Prop} (hA : ∀ w, I w → F .none w) (hI : StableT I)
    {inv : Inv σ} (hinv : InvTriple I F inv) (t : AST) : Triple I F (EE.exec inv t) :=
  Triple.exec hA hI.toStable0 (fun h args => Triple.invoke hA hI hinv h args) t

theorem stableT_clean : StableT (World.Clean : World σ → Prop) :=
  { clean := fun _ h => h, ctx := fun _ _ h => h, trace := fun _ _ h => h }

end EE
