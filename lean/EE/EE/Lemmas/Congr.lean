import EE.Lemmas.Keeps
/-! `exec` depends on its handler semantics only through what they do in worlds satisfying an
invariant the evaluation keeps: two handler semantics that agree on such worlds give the same
evaluation. Used to show that handlers are only ever invoked with no engine lock held. -/
namespace EE
open EngineM

variable {σ α β : Type}

def EqOn (I : World σ → Prop) (m m' : EngineM σ α) : Prop := ∀ w, I w → m w = m' w

namespace EqOn
variable {I : World σ → Prop} {A : Fault → Prop}

theorem refl (m : EngineM σ α) : EqOn I m m := fun _ _ => rfl

theorem bind {m m' : EngineM σ α} {f f' : α → EngineM σ β} (hm : EqOn I m m') (hk : Keeps I A m)
    (hf : ∀ a, EqOn I (f a) (f' a)) : EqOn I (bind' m f) (bind' m' f') := by
  intro w hw
  have e := hm w hw
  have k := hk w hw
  simp only [bind', ← e]
  cases h : m w with
  | mk r w' =>
    rw [h] at k
    cases r <;> simp
    exact hf _ w' k.1
end EqOn

theorem EqOn.invoke {I : World σ → Prop} (hI : Stable I) {inv inv' : Inv σ}
    (h : ∀ hd args, EqOn I (inv hd args) (inv' hd args)) (hd : HandlerId) (args : List Value) :
    EqOn I (invoke inv hd args) (invoke inv' hd args) := by
  intro w hw
  exact h hd args _ (hI.trace w _ hw)

theorem EqOn.ctxValue {I : World σ → Prop} {A : Fault → Prop} (hA : A .none) (hI : Stable I) {inv inv' : Inv σ}
    (h : ∀ hd args, EqOn I (inv hd args) (inv' hd args)) (n : Name) :
    EqOn I (ctxValue inv n) (ctxValue inv' n) := by
  refine EqOn.bind (EqOn.refl _) (Keeps.withCtx hA hI _) fun r => ?_
  match r with
  | none => exact EqOn.refl _
  | some (.var v) => exact EqOn.refl _
  | some (.fn hd) => exact EqOn.invoke hI h hd []

mutual
theorem EqOn.exec {I : World σ → Prop} {A : Fault → Prop} (hA : A .none) (hI : Stable I) {inv inv' : Inv σ}
    (hk : InvKeeps I A inv) (h : ∀ hd args, EqOn I (inv hd args) (inv' hd args)) :
    ∀ t : AST, EqOn I (exec inv t) (exec inv' t)
  | .lit l => by simp only [EE.exec]; exact EqOn.refl _
  | .none => by simp only [EE.exec]; exact EqOn.refl _
  | .ref n => by simp only [EE.exec]; exact EqOn.ctxValue hA hI h n
  | .call n args => by
      simp only [EE.exec]
      refine EqOn.bind (EqOn.execList hA hI hk h args) (Keeps.execList hA hI hk args) fun vs =>
        EqOn.bind (EqOn.refl _) (Keeps.ctxGetFunc hA hI n) fun r => ?_
      match r with
      | some hd => exact EqOn.invoke hI h hd vs
      | none => exact EqOn.bind (EqOn.refl _) (Keeps.lookupE hA hI _ _ _) fun hd => EqOn.invoke hI h hd vs
  | .unary op rhs => by
      simp only [EE.exec]
      exact EqOn.bind (EqOn.refl _) (Keeps.lookupE hA hI _ _ _) fun hd =>
        EqOn.bind (EqOn.exec hA hI hk h rhs) (Keeps.exec hA hI hk rhs) fun v => EqOn.invoke hI h hd [v]
  | .postfix lhs op => by
      simp only [EE.exec]
      exact EqOn.bind (EqOn.refl _) (Keeps.lookupE hA hI _ _ _) fun hd =>
        EqOn.bind (EqOn.exec hA hI hk h lhs) (Keeps.exec hA hI hk lhs) fun v => EqOn.invoke hI h hd [v]
  | .binary op lhs rhs => by
      simp only [EE.exec]
      refine EqOn.bind (EqOn.refl _) (Keeps.lookupE hA hI _ _ _) fun cfg => ?_
      split
      · exact EqOn.bind (EqOn.exec hA hI hk h lhs) (Keeps.exec hA hI hk lhs) fun a =>
          EqOn.bind (EqOn.exec hA hI hk h rhs) (Keeps.exec hA hI hk rhs) fun b =>
          EqOn.bind (EqOn.refl _) (Keeps.lift (A := A) _ (by rw [refName_fault]; exact hA)) fun name =>
          EqOn.bind (EqOn.refl _) (Keeps.lookupE hA hI _ _ _) fun cfg2 =>
          EqOn.bind (EqOn.invoke hI h cfg2.h [a, b]) (Keeps.invoke hA hI hk cfg2.h [a, b]) fun v => EqOn.refl _
      · exact EqOn.bind (EqOn.refl _) (Keeps.lookupE hA hI _ _ _) fun cfg2 =>
          EqOn.bind (EqOn.exec hA hI hk h lhs) (Keeps.exec hA hI hk lhs) fun a =>
          EqOn.bind (EqOn.exec hA hI hk h rhs) (Keeps.exec hA hI hk rhs) fun b => EqOn.invoke hI h cfg2.h [a, b]
  | .ternary c a b => by
      simp only [EE.exec]
      refine EqOn.bind (EqOn.exec hA hI hk h c) (Keeps.exec hA hI hk c) fun v => ?_
      match v with
      | .bool true => exact EqOn.exec hA hI hk h a
      | .bool false => exact EqOn.exec hA hI hk h b
      | .str _ => exact EqOn.refl _
      | .num _ => exact EqOn.refl _
      | .list _ => exact EqOn.refl _
      | .map _ => exact EqOn.refl _
      | .none => exact EqOn.refl _
  | .list xs => by
      simp only [EE.exec]
      exact EqOn.bind (EqOn.execList hA hI hk h xs) (Keeps.execList hA hI hk xs) fun vs => EqOn.refl _
  | .map kvs => by
      simp only [EE.exec]
      exact EqOn.bind (EqOn.execMap hA hI hk h kvs) (Keeps.execMap hA hI hk kvs) fun vs => EqOn.refl _
  | .stmt xs => by
      simp only [EE.exec]; exact EqOn.execChain hA hI hk h _ xs
theorem EqOn.execList {I : World σ → Prop} {A : Fault → Prop} (hA : A .none) (hI : Stable I) {inv inv' : Inv σ}
    (hk : InvKeeps I A inv) (h : ∀ hd args, EqOn I (inv hd args) (inv' hd args)) :
    ∀ ts : List AST, EqOn I (execList inv ts) (execList inv' ts)
  | [] => by simp only [EE.execList]; exact EqOn.refl _
  | a :: as => by
      simp only [EE.execList]
      exact EqOn.bind (EqOn.exec hA hI hk h a) (Keeps.exec hA hI hk a) fun v =>
        EqOn.bind (EqOn.execList hA hI hk h as) (Keeps.execList hA hI hk as) fun vs => EqOn.refl _
theorem EqOn.execMap {I : World σ → Prop} {A : Fault → Prop} (hA : A .none) (hI : Stable I) {inv inv' : Inv σ}
    (hk : InvKeeps I A inv) (h : ∀ hd args, EqOn I (inv hd args) (inv' hd args)) :
    ∀ ts : List (AST × AST), EqOn I (execMap inv ts) (execMap inv' ts)
  | [] => by simp only [EE.execMap]; exact EqOn.refl _
  | (k, v) :: r => by
      simp only [EE.execMap]
      exact EqOn.bind (EqOn.exec hA hI hk h k) (Keeps.exec hA hI hk k) fun _ =>
        EqOn.bind (EqOn.exec hA hI hk h v) (Keeps.exec hA hI hk v) fun _ =>
        EqOn.bind (EqOn.execMap hA hI hk h r) (Keeps.execMap hA hI hk r) fun _ => EqOn.refl _
theorem EqOn.execChain {I : World σ → Prop} {A : Fault → Prop} (hA : A .none) (hI : Stable I) {inv inv' : Inv σ}
    (hk : InvKeeps I A inv) (h : ∀ hd args, EqOn I (inv hd args) (inv' hd args)) :
    ∀ (last : Value) (ts : List AST), EqOn I (execChain inv last ts) (execChain inv' last ts)
  | _, [] => by simp only [EE.execChain]; exact EqOn.refl _
  | _, a :: as => by
      simp only [EE.execChain]
      exact EqOn.bind (EqOn.exec hA hI hk h a) (Keeps.exec hA hI hk a) fun v => EqOn.execChain hA hI hk h v as
end

end EE
