import EE.Lemmas.Keeps
import EE.Lemmas.NoFault
/-! The built-in handlers, as handler semantics (`stdInv`), keep every invariant and add no fault. -/
namespace EE
open EngineM

variable {σ : Type}

theorem Res.NoFault.fault_none {α : Type} {r : Res α} (h : r.NoFault) : r.fault = .none := by
  cases r <;> simp_all [Res.NoFault, Res.fault, Res.isPanic, Res.isDeadlock, Res.isHang]

theorem stdInv_keeps {I : World σ → Prop} {A : Fault → Prop} (hA : A .none)
    (userInv : Nat → List Value → EngineM σ Value) (hu : ∀ id args, Keeps I A (userInv id args)) :
    InvKeeps I A (stdInv userInv) := by
  intro h args
  unfold stdInv
  split
  · exact Keeps.lift _ (by rw [(builtinInfix_noFault _ _ _).fault_none]; exact hA)
  · exact Keeps.lift _ (by rw [(builtinPrefix_noFault _ _).fault_none]; exact hA)
  · exact Keeps.lift _ (by rw [(builtinPostfix_noFault _ _).fault_none]; exact hA)
  · exact Keeps.lift _ (by rw [(builtinFn_noFault _ _).fault_none]; exact hA)
  · exact hu _ _
  · exact Keeps.fail hA _

end EE
