import EE.Spec.Cst
import EE.Lemmas.ParserMono
/-! Completeness of the operator-precedence parser for canonically written expressions: the proof
behind C02. `lead c` is the primary the parser reads first, `tail c` the tokens its operator loop
then consumes. -/
namespace EE
open EE.Spec

namespace Spec.CST
def lead : CST → CST
  | .bin _ _ l _ => lead l
  | .tern c _ _ => lead c
  | c => c
def tail : CST → List Tok
  | .bin nt o l r => tail l ++ (opToks nt o ++ r.flatten)
  | .tern c a b => tail c ++ (tQ :: (a.flatten ++ (tColon :: b.flatten)))
  | _ => []
def spineOps : CST → List Name
  | .bin _ o l _ => spineOps l ++ [o]
  | _ => []
end Spec.CST
open Spec.CST

theorem flatten_lead_tail : ∀ c : CST, c.flatten = c.lead.flatten ++ c.tail
  | .bin nt o l r => by simp [CST.flatten, lead, tail, flatten_lead_tail l, List.append_assoc]
  | .tern c a b => by simp [CST.flatten, lead, tail, flatten_lead_tail c, List.append_assoc]
  | .atom _ | .paren _ | .unary _ _ | .postfix _ _ | .call _ _ | .list _ _ | .map _ _ => by simp [lead, tail]

theorem headOp_opToks {nt : Bool} {o : Name} (r : List Tok) (ho : o ≠ notName) :
    headOp (opToks nt o ++ r) = some (nt, o, r) := by
  cases nt <;> simp [opToks, headOp, tNot, ho]

theorem nonbin_lead (c : CST) (h : c.root? = none) (ht : c.isTern = false) : c.lead = c ∧ c.tail = [] := by
  cases c <;> simp_all [lead, tail, root?, isTern]


/-! ### the operator table -/

theorem prec_of {regs : Regs} {o : Name} {c : InfixCfg} (h : alookup o regs.inf = some c) :
    Regs.prec regs o = c.prec ∧ Regs.isRight regs o = c.right := by
  simp [Regs.prec, Regs.isRight, h]

/-- binding powers of a registered infix operator, in the form `omega` likes -/
theorem bp_facts {regs : Regs} (tb : TableOK regs) {o : Name} (h : regs.isInfix o = true) :
    1 ≤ Regs.prec regs o ∧ (regs.bp o).1 = 2 * Regs.prec regs o ∧
    ((regs.bp o).2 = 2 * Regs.prec regs o - 1 ∨ (regs.bp o).2 = 2 * Regs.prec regs o + 1) := by
  unfold Regs.isInfix at h
  cases hc : alookup o regs.inf with
  | none => simp [hc] at h
  | some c =>
    have hp := tb.pos o c hc
    simp only [Regs.prec, Regs.bp, hc]
    refine ⟨hp, trivial, ?_⟩
    cases c.right <;> simp

theorem bp_snd {regs : Regs} {o : Name} (h : regs.isInfix o = true) :
    (regs.bp o).2 = if Regs.isRight regs o then 2 * Regs.prec regs o - 1 else 2 * Regs.prec regs o + 1 := by
  unfold Regs.isInfix at h
  cases hc : alookup o regs.inf with
  | none => simp [hc] at h
  | some c => simp only [Regs.prec, Regs.isRight, Regs.bp, hc]

theorem bp_noninfix {regs : Regs} {o : Name} (h : regs.isInfix o = false) : (regs.bp o).1 = -1 :=
  bp_of_noninfix regs o h

theorem infix_ne_not {regs : Regs} (tb : TableOK regs) {o : Name} (h : regs.isInfix o = true) : o ≠ notName := by
  intro e; subst e; rw [tb.notOp.1] at h; cases h
theorem infix_ne_q {regs : Regs} (tb : TableOK regs) {o : Name} (h : regs.isInfix o = true) : o ≠ qName := by
  intro e; subst e; rw [tb.q.1] at h; cases h

/-! ### what may follow an operand -/

/-- the next token is not a postfix operator -/
def PrimFollow (regs : Regs) (X : List Tok) : Prop := ∀ o r, X = .op o :: r → regs.isPostfix o = false

/-- the next token does not make the operator loop fail: it is not a `not` without an infix operator after it -/
def RestOK (regs : Regs) (rest : List Tok) : Prop :=
  PrimFollow regs rest ∧
  ∀ o r, rest = .op o :: r → o ≠ qName → ∃ neg o' after, headOp rest = some (neg, o', after) ∧ (neg = true → regs.isInfix o' = true)

def GateOK (regs : Regs) (c : CST) (rest : List Tok) : Prop :=
  ∀ o, c.root? = some o → gateOpen regs (regs.bp o).2 rest = false

/-- the next token ends an expression: not `?`, not `not`, no infix or postfix operator -/
def Follow (regs : Regs) : List Tok → Prop
  | .op o :: _ => o ≠ qName ∧ o ≠ notName ∧ regs.isInfix o = false ∧ regs.isPostfix o = false
  | _ => True

theorem Follow.primFollow {regs : Regs} {rest : List Tok} (h : Follow regs rest) : PrimFollow regs rest := by
  intro o r e; subst e; exact h.2.2.2

theorem Follow.headOp {regs : Regs} {o : Name} {r : List Tok} (h : Follow regs (.op o :: r)) :
    headOp (.op o :: r) = some (false, o, r) := by
  have : (o == notName) = false := by simpa using h.2.1
  simp [EE.headOp, this]

theorem Follow.restOK {regs : Regs} {rest : List Tok} (h : Follow regs rest) : RestOK regs rest := by
  refine ⟨h.primFollow, fun o r e _ => ?_⟩
  subst e
  exact ⟨false, o, r, h.headOp, fun x => by cases x⟩

theorem Follow.gate {regs : Regs} {rest : List Tok} (h : Follow regs rest) (b : Int) : gateOpen regs b rest = false := by
  unfold gateOpen
  cases rest with
  | nil => rfl
  | cons t r =>
    cases t with
    | op o => rw [h.headOp]; simp [h.2.2.1]
    | _ => rfl

theorem Follow.stop {regs : Regs} {lim : Nat} {rest : List Tok} (h : Follow regs rest) (d : Nat) (lhs : AST) :
    POp regs lim d 0 lhs rest lhs rest := by
  cases rest with
  | nil => exact POp.stopNonOp (by intro o r e; cases e)
  | cons t r =>
    cases t with
    | op o =>
      refine POp.stopLow (fun r' e => h.1 (by simp [tQ] at e; exact e.1)) h.headOp (fun x => by cases x) ?_
      rw [bp_noninfix h.2.2.1]; decide
    | _ => exact POp.stopNonOp (by intro o r e; cases e)

theorem follow_colon {regs : Regs} (tb : TableOK regs) (r : List Tok) : Follow regs (tColon :: r) :=
  ⟨by decide, by decide, tb.colon.1, tb.colon.2⟩
theorem follow_close (regs : Regs) (dl : Delim) (r : List Tok) : Follow regs (.delim dl :: r) := trivial
theorem follow_comma (regs : Regs) (r : List Tok) : Follow regs (.comma :: r) := trivial
theorem follow_semi (regs : Regs) (r : List Tok) : Follow regs (.semi :: r) := trivial
theorem follow_nil (regs : Regs) : Follow regs [] := trivial

theorem primFollow_opToks {regs : Regs} (tb : TableOK regs) {o : Name} (h : regs.isInfix o = true) (nt : Bool) (r : List Tok) :
    PrimFollow regs (opToks nt o ++ r) := by
  intro o' r' e
  cases nt with
  | false => simp [opToks] at e; rw [← e.1]; exact tb.infixNotPostfix o h
  | true => simp [opToks, tNot] at e; rw [← e.1]; exact tb.notOp.2

theorem primFollow_q {regs : Regs} (tb : TableOK regs) (r : List Tok) : PrimFollow regs (tQ :: r) := by
  intro o' r' e; simp [tQ] at e; rw [← e.1]; exact tb.q.2

theorem restOK_opToks {regs : Regs} (tb : TableOK regs) {o : Name} (h : regs.isInfix o = true) (nt : Bool) (r : List Tok) :
    RestOK regs (opToks nt o ++ r) :=
  ⟨primFollow_opToks tb h nt r, fun _ _ _ _ => ⟨nt, o, r, headOp_opToks r (infix_ne_not tb h), fun _ => h⟩⟩

theorem restOK_q {regs : Regs} (tb : TableOK regs) (r : List Tok) : RestOK regs (tQ :: r) :=
  ⟨primFollow_q tb r, fun o r' e hne => by simp [tQ] at e; exact absurd e.1.symm hne⟩

theorem gate_q {regs : Regs} (tb : TableOK regs) (b : Int) (r : List Tok) : gateOpen regs b (tQ :: r) = false := by
  have : (qName == notName) = false := by decide
  simp [gateOpen, tQ, headOp, this, tb.q.1]

theorem opToks_ne_q {regs : Regs} (tb : TableOK regs) {o : Name} (h : regs.isInfix o = true) (nt : Bool) (r : List Tok) :
    ∀ r', opToks nt o ++ r ≠ tQ :: r' := by
  intro r' e
  cases nt with
  | false => simp [opToks, tQ] at e; exact infix_ne_q tb h (by simpa using e.1)
  | true => simp [opToks, tQ, tNot] at e; exact absurd e.1 (by decide)

/-! ### shape of canonical trees -/

theorem tail_primFollow {regs : Regs} (tb : TableOK regs) : ∀ (c : CST) (rest : List Tok), Canon regs c →
    PrimFollow regs rest → PrimFollow regs (c.tail ++ rest)
  | .bin nt o l r, rest, hc, _ => by
    simp only [tail, List.append_assoc]
    exact tail_primFollow tb l _ hc.2.1 (primFollow_opToks tb hc.1 nt _)
  | .tern c a b, rest, hc, _ => by
    simp only [tail, List.append_assoc, List.cons_append]
    exact tail_primFollow tb c _ hc.1 (primFollow_q tb _)
  | .atom _, _, _, h | .paren _, _, _, h | .unary _ _, _, _, h | .postfix _ _, _, _, h | .call _ _, _, _, h
  | .list _ _, _, _, h | .map _ _, _, _, h => by simpa [tail] using h

theorem root_infix {regs : Regs} {c : CST} (hc : Canon regs c) {o : Name} (h : c.root? = some o) : regs.isInfix o = true := by
  cases c <;> simp [root?] at h
  subst h; exact hc.1

theorem spine_infix {regs : Regs} : ∀ (c : CST), Canon regs c → ∀ o, o ∈ c.spineOps → regs.isInfix o = true
  | .bin nt o' l r, hc, o, ho => by
    simp [spineOps] at ho
    rcases ho with ho | ho
    · exact spine_infix l hc.2.1 o ho
    · subst ho; exact hc.1
  | .tern _ _ _, _, _, h | .atom _, _, _, h | .paren _, _, _, h | .unary _ _, _, _, h | .postfix _ _, _, _, h | .call _ _, _, _, h
  | .list _ _, _, _, h | .map _ _, _, _, h => by simp [spineOps] at h

theorem spine_prec {regs : Regs} : ∀ (c : CST), Canon regs c → ∀ o r, c.root? = some r → o ∈ c.spineOps →
    Regs.prec regs r ≤ Regs.prec regs o
  | .bin nt o' l r', hc, o, r, h, ho => by
    simp [root?] at h; subst h
    simp [spineOps] at ho
    rcases ho with ho | ho
    · obtain ⟨_, hl, _, _, _, hL, _⟩ := hc
      cases hl' : l.root? with
      | none => cases l <;> simp_all [spineOps, root?]
      | some rl =>
        have h1 := spine_prec l hl o rl hl' ho
        have h2 := hL rl hl'
        unfold okLeft at h2
        omega
    · subst ho; exact Int.le_refl _
  | .tern _ _ _, _, _, _, h, _ | .atom _, _, _, _, h, _ | .paren _, _, _, _, h, _ | .unary _ _, _, _, _, h, _
  | .postfix _ _, _, _, _, h, _ | .call _ _, _, _, _, h, _ | .list _ _, _, _, _, h, _ | .map _ _, _, _, _, h, _ => by simp [root?] at h

theorem tail_head {regs : Regs} : ∀ (c : CST), Canon regs c → ∀ o, c.root? = some o →
    ∃ nt o2 ts, c.tail = opToks nt o2 ++ ts ∧ o2 ∈ c.spineOps
  | .bin nt o' l r, hc, o, h => by
    obtain ⟨_, hl, _, hlt, _, _, _⟩ := hc
    cases hlr : l.root? with
    | none =>
      have := nonbin_lead l hlr hlt
      exact ⟨nt, o', r.flatten, by simp [tail, this.2], by simp [spineOps]⟩
    | some rl =>
      obtain ⟨nt2, o2, ts, h1, h2⟩ := tail_head l hl rl hlr
      exact ⟨nt2, o2, ts ++ (opToks nt o' ++ r.flatten), by simp [tail, h1], by simp [spineOps, h2]⟩
  | .tern _ _ _, _, _, h | .atom _, _, _, h | .paren _, _, _, h | .unary _ _, _, _, h
  | .postfix _ _, _, _, h | .call _ _, _, _, h | .list _ _, _, _, h | .map _ _, _, _, h => by simp [root?] at h

def Tok.isStart : Tok → Bool
  | .delim .closeParen | .delim .closeBracket | .delim .closeBrace => false
  | _ => true

/-- an expression never starts with a closing bracket (what the element loops look at) -/
theorem flatten_start : ∀ c : CST, ∃ t r, c.flatten = t :: r ∧ t.isStart = true
  | .atom a => ⟨a.tok, [], rfl, by cases a <;> rfl⟩
  | .paren c => ⟨_, _, rfl, rfl⟩
  | .unary _ _ => ⟨_, _, rfl, rfl⟩
  | .postfix c _ => by obtain ⟨t, r, h, ht⟩ := flatten_start c; exact ⟨t, _, by simp only [CST.flatten, h, List.cons_append]; rfl, ht⟩
  | .call _ _ => ⟨_, _, rfl, rfl⟩
  | .list _ _ => ⟨_, _, rfl, rfl⟩
  | .map _ _ => ⟨_, _, rfl, rfl⟩
  | .bin _ _ l _ => by obtain ⟨t, r, h, ht⟩ := flatten_start l; exact ⟨t, _, by simp only [CST.flatten, h, List.cons_append]; rfl, ht⟩
  | .tern c _ _ => by obtain ⟨t, r, h, ht⟩ := flatten_start c; exact ⟨t, _, by simp only [CST.flatten, h, List.cons_append]; rfl, ht⟩


/-! ### the induction -/

namespace Spec.CST
def needsFollowTok : CST → Bool
  | .unary _ _ => true
  | _ => false
def isTokLevel : CST → Bool
  | .atom _ | .paren _ | .unary _ _ | .call _ _ | .list _ _ | .map _ _ => true
  | _ => false
end Spec.CST

structure M (regs : Regs) (lim d : Nat) (c : CST) : Prop where
  t : c.isTokLevel = true → ∀ X, (c.needsFollowTok = true → PrimFollow regs X) →
        PTok regs lim d (c.flatten ++ X) c.strip X
  q : c.postfixable = true → ∀ X e rest, PPost regs lim c.strip X e rest → PPrim regs lim d (c.flatten ++ X) e rest
  a : ∀ X, PrimFollow regs X → PPrim regs lim d (c.lead.flatten ++ X) c.lead.strip X
  b : c.isTern = false → ∀ (p : Int) rest e fin, (∀ o ∈ c.spineOps, ¬ (regs.bp o).1 < p) → GateOK regs c rest →
        RestOK regs rest → POp regs lim d p c.strip rest e fin → POp regs lim d p c.lead.strip (c.tail ++ rest) e fin
  c : c.isTern = true → ∀ rest, Follow regs rest → POp regs lim d 0 c.lead.strip (c.tail ++ rest) c.strip rest

structure ML (regs : Regs) (lim d : Nat) (xs : CList) : Prop where
  args : xs ≠ .nil → ∀ rest, PArgs regs lim d (xs.flatten ++ tClose :: rest) xs.strip rest
  items : ∀ rest, PItems regs lim d (xs.flatten ++ tCloseB :: rest) xs.strip (tCloseB :: rest)
  itemsTrail : xs ≠ .nil → ∀ rest, PItems regs lim d (xs.flatten ++ .comma :: tCloseB :: rest) xs.strip (tCloseB :: rest)

structure MM (regs : Regs) (lim d : Nat) (kvs : CMap) : Prop where
  entries : ∀ rest, PEntries regs lim d (kvs.flatten ++ tCloseC :: rest) kvs.strip (tCloseC :: rest)
  entriesTrail : kvs ≠ .nil → ∀ rest, PEntries regs lim d (kvs.flatten ++ .comma :: tCloseC :: rest) kvs.strip (tCloseC :: rest)

theorem top_of_M {regs : Regs} (tb : TableOK regs) {lim d : Nat} {c : CST} (hc : Canon regs c) (hd : d + 1 ≤ lim)
    (m : M regs lim (d + 1) c) (rest : List Tok) (hs : Follow regs rest) :
    PExpr regs lim d (c.flatten ++ rest) c.strip rest := by
  rw [flatten_lead_tail, List.append_assoc]
  refine PExpr.mk hd (m.a _ (tail_primFollow tb c rest hc hs.primFollow)) ?_
  cases ht : c.isTern with
  | false =>
    refine m.b ht 0 rest _ _ (fun o ho => ?_) (fun o _ => hs.gate _) hs.restOK (hs.stop _ _)
    have := bp_facts tb (spine_infix c hc o ho)
    omega
  | true => exact m.c ht rest hs

theorem M.ofTok {regs : Regs} {lim d : Nat} {c : CST} (hlead : c.lead = c) (htail : c.tail = [])
    (hnt : c.isTern = false) (hq : c.postfixable = true → c.needsFollowTok = false)
    (t : ∀ X, (c.needsFollowTok = true → PrimFollow regs X) → PTok regs lim d (c.flatten ++ X) c.strip X) : M regs lim d c := by
  refine ⟨fun _ => t, fun hpf X e rest hp => ?_, fun X hX => ?_, fun _ p rest e fin _ _ _ h => ?_, fun h => ?_⟩
  · exact PPrim.mk (t X (fun hn => by rw [hq hpf] at hn; cases hn)) hp
  · rw [hlead]
    exact PPrim.ofTok (t X fun _ => hX) hX
  · rw [hlead, htail]; simpa using h
  · rw [hnt] at h; cases h

theorem primary_shape {c : CST} (h : c.isPrimary = true) : c.lead = c ∧ c.tail = [] ∧ c.isTern = false ∧ c.root? = none := by
  cases c <;> simp_all [isPrimary, lead, tail, isTern, root?]

theorem clist_start : ∀ (c : CST) (r : CList), ∃ t ts, (CList.cons c r).flatten = t :: ts ∧ t.isStart = true := by
  intro c r
  obtain ⟨t, ts, h, ht⟩ := flatten_start c
  cases r with
  | nil => exact ⟨t, ts, by simp [CList.flatten, h], ht⟩
  | cons c2 r2 => exact ⟨t, _, by simp only [CList.flatten, h, List.cons_append]; rfl, ht⟩

theorem cmap_start : ∀ (k v : CST) (r : CMap), ∃ t ts, (CMap.cons k v r).flatten = t :: ts ∧ t.isStart = true := by
  intro k v r
  obtain ⟨t, ts, h, ht⟩ := flatten_start k
  cases r with
  | nil => exact ⟨t, _, by simp only [CMap.flatten, h, List.cons_append]; rfl, ht⟩
  | cons k2 v2 r2 => exact ⟨t, _, by simp only [CMap.flatten, h, List.cons_append]; rfl, ht⟩

theorem start_ne {t : Tok} {ts X : List Tok} (ht : t.isStart = true) :
    (t :: ts) ++ X ≠ [] ∧ (∀ r, (t :: ts) ++ X ≠ tClose :: r) ∧ (∀ r, (t :: ts) ++ X ≠ tCloseB :: r) ∧ (∀ r, (t :: ts) ++ X ≠ tCloseC :: r) := by
  refine ⟨by simp, fun r e => ?_, fun r e => ?_, fun r e => ?_⟩ <;>
  · simp only [List.cons_append, List.cons.injEq] at e
    rw [e.1] at ht; cases ht

theorem height_wrapNot (nt : Bool) (e : AST) : e.height ≤ (wrapNot nt e).height := by
  cases nt <;> simp [wrapNot, AST.height]


mutual
theorem main {regs : Regs} (tb : TableOK regs) (lim : Nat) : ∀ (c : CST) (d : Nat), Canon regs c → d + c.nest ≤ lim →
    c.strip.height ≤ lim → M regs lim d c
  | .atom a, d, _, _, _ => by
    refine M.ofTok rfl rfl rfl (fun _ => rfl) fun X _ => ?_
    cases a <;> simp only [CST.flatten, Atom.tok, CST.strip, Atom.ast, List.cons_append, List.nil_append]
    · exact PTok.num _ _
    · exact PTok.bool _ _
    · exact PTok.str _ _
    · exact PTok.ref _ _
  | .paren c, d, hc, hn, hh => by
    simp only [CST.nest] at hn
    have hc' : Canon regs c := hc
    have m := main tb lim c (d + 1) hc' (by omega) hh
    refine M.ofTok rfl rfl rfl (fun _ => rfl) fun X _ => ?_
    simp only [CST.flatten, CST.strip, List.cons_append, List.append_assoc, List.nil_append]
    exact PTok.paren (top_of_M (d := d) (c := c) tb hc' (by omega) m _ (follow_close _ _ _))
  | .unary o c, d, hc, hn, hh => by
    obtain ⟨hpre, hprim, hcc⟩ := hc
    simp only [CST.nest] at hn
    simp only [CST.strip, AST.height] at hh
    have m := main tb lim c (d + 1) hcc (by omega) (by omega)
    obtain ⟨hlead, _, _, _⟩ := primary_shape hprim
    refine M.ofTok rfl rfl rfl (fun h => by cases h) fun X hX => ?_
    simp only [CST.flatten, CST.strip, List.cons_append]
    refine PTok.unary hpre (by omega) ?_ hh
    have := m.a X (hX rfl)
    rwa [hlead] at this
  | .postfix c o, d, hc, hn, hh => by
    obtain ⟨hpost, hpf, hcc⟩ := hc
    simp only [CST.nest] at hn
    simp only [CST.strip, AST.height] at hh
    have m := main tb lim c d hcc hn (by omega)
    have q : ∀ X e rest, PPost regs lim (CST.postfix c o).strip X e rest → PPrim regs lim d ((CST.postfix c o).flatten ++ X) e rest := by
      intro X e rest hp
      simp only [CST.flatten, List.append_assoc, List.cons_append, List.nil_append]
      exact m.q hpf _ e rest (PPost.step hpost hh hp)
    refine ⟨fun h => by simp [isTokLevel] at h, fun _ => q, fun X hX => ?_, fun _ p rest e fin _ _ _ h => ?_, fun h => by simp [isTern] at h⟩
    · simp only [lead]
      exact q X _ X (PPost.stop hX)
    · simpa [lead, tail] using h
  | .call n args, d, hc, hn, hh => by
    simp only [CST.nest] at hn
    simp only [CST.strip, AST.height] at hh
    have m := mainList tb lim args d hc hn (by omega)
    refine M.ofTok rfl rfl rfl (fun _ => rfl) fun X _ => ?_
    cases args with
    | nil => simpa [CST.flatten, CList.flatten, CST.strip, CList.strip] using PTok.call0 n X
    | cons c r =>
      simp only [CST.flatten, CST.strip, List.cons_append, List.append_assoc, List.nil_append]
      obtain ⟨t, ts, hfl, ht⟩ := clist_start c r
      refine PTok.call (m.args (by intro e; cases e) X) ?_ hh
      rw [hfl]; exact (start_ne ht).2.1
  | .list xs tr, d, hc, hn, hh => by
    simp only [CST.nest] at hn
    simp only [CST.strip, AST.height] at hh
    have m := mainList tb lim xs d hc.1 hn (by omega)
    refine M.ofTok rfl rfl rfl (fun _ => rfl) fun X _ => ?_
    cases tr with
    | false =>
      simp only [CST.flatten, CST.strip, trailToks, List.cons_append, List.append_assoc, List.nil_append, Bool.false_eq_true, if_false]
      exact PTok.list (m.items X) hh
    | true =>
      simp only [CST.flatten, CST.strip, trailToks, List.cons_append, List.append_assoc, List.nil_append, if_true]
      exact PTok.list (m.itemsTrail (hc.2 rfl) X) hh
  | .map kvs tr, d, hc, hn, hh => by
    simp only [CST.nest] at hn
    simp only [CST.strip, AST.height] at hh
    have m := mainMap tb lim kvs d hc.1 hn (by omega)
    refine M.ofTok rfl rfl rfl (fun _ => rfl) fun X _ => ?_
    cases tr with
    | false =>
      simp only [CST.flatten, CST.strip, trailToks, List.cons_append, List.append_assoc, List.nil_append, Bool.false_eq_true, if_false]
      exact PTok.map (m.entries X) hh
    | true =>
      simp only [CST.flatten, CST.strip, trailToks, List.cons_append, List.append_assoc, List.nil_append, if_true]
      exact PTok.map (m.entriesTrail (hc.2 rfl) X) hh
  | .tern c a b, d, hc, hn, hh => by
    obtain ⟨hcc, hct, hca, hcb⟩ := hc
    simp only [CST.nest] at hn
    have hh' := hh
    simp only [CST.strip, AST.height] at hh'
    have mc := main tb lim c d hcc (by omega) (by omega)
    have ma := main tb lim a (d + 1) hca (by omega) (by omega)
    have mb := main tb lim b (d + 1) hcb (by omega) (by omega)
    refine ⟨fun h => by simp [isTokLevel] at h, fun h => by simp [postfixable] at h, fun X hX => by simpa [lead] using mc.a X hX,
      fun h => by simp [isTern] at h, fun _ rest hs => ?_⟩
    simp only [lead, tail, CST.strip, List.append_assoc, List.cons_append]
    refine mc.b hct 0 _ _ _ (fun o ho => ?_) (fun o _ => gate_q tb _ _) (restOK_q tb _) ?_
    · have := bp_facts tb (spine_infix c hcc o ho); omega
    · refine POp.tern (by omega) (top_of_M tb hca (by omega) ma _ (follow_colon tb _)) (top_of_M tb hcb (by omega) mb _ hs) ?_
      omega
  | .bin nt o l r, d, hc, hn, hh => by
    obtain ⟨hinf, hl, hr, hlt, hrt, hL, hR⟩ := hc
    have hh' := hh
    simp only [CST.strip] at hh'
    have hwn := height_wrapNot nt (.binary o l.strip r.strip)
    simp only [AST.height] at hwn
    have hnl : d + l.nest ≤ lim := by simp only [CST.nest] at hn; omega
    have hnr : d + r.nest ≤ lim := by
      simp only [CST.nest] at hn
      split at hn <;> omega
    have ml := main tb lim l d hl hnl (by omega)
    have mr := main tb lim r d hr hnr (by omega)
    have hono := infix_ne_not tb hinf
    have bo := bp_facts tb hinf
    refine ⟨fun h => by simp [isTokLevel] at h, fun h => by simp [postfixable] at h, fun X hX => by simpa [lead] using ml.a X hX,
      fun _ p rest e fin hsp hgate hrest h => ?_, fun h => by simp [isTern] at h⟩
    simp only [lead, tail, List.append_assoc]
    have hop : ¬ (regs.bp o).1 < p := hsp o (by simp [spineOps])
    refine ml.b hlt p _ _ _ (fun o' ho' => hsp o' (by simp [spineOps, ho'])) ?_ (restOK_opToks tb hinf nt _) ?_
    · -- the left operand's own loop stops at this operator
      intro ol hol
      have hio := root_infix hl hol
      have bl := bp_facts tb hio
      have hk := hL ol hol
      unfold gateOpen
      rw [headOp_opToks _ hono]
      simp only [hinf, Bool.true_and, decide_eq_false_iff_not]
      unfold okLeft at hk
      have hs := bp_snd hio
      rcases hk with h1 | ⟨h1, h2⟩
      · omega
      · have := tb.assoc ol o hio hinf h1
        rw [h2] at this
        rw [this] at hs; simp only [Bool.false_eq_true, if_false] at hs
        omega
    · -- one loop step at this operator
      have hhead : headOp (opToks nt o ++ (r.flatten ++ rest)) = some (nt, o, r.flatten ++ rest) := headOp_opToks _ hono
      have hstrip : (CST.bin nt o l r).strip = wrapNot nt (.binary o l.strip r.strip) := rfl
      rw [hstrip] at h
      cases hrr : r.root? with
      | none =>
        have hnb := nonbin_lead r hrr hrt
        have hp := mr.a rest hrest.1
        rw [hnb.1] at hp
        exact POp.step (opToks_ne_q tb hinf nt _) hhead hinf hop hp (Or.inl ⟨hgate o rfl, rfl, rfl⟩) hh' h
      | some rr =>
        have hnr1 : d + 1 + r.nest ≤ lim := by
          simp only [CST.nest] at hn
          cases r <;> simp [root?] at hrr
          simp only at hn; omega
        have mr1 := main tb lim r (d + 1) hr hnr1 (by omega)
        obtain ⟨nt2, o2, ts, htl, ho2⟩ := tail_head r hr rr hrr
        have hprec := spine_prec r hr o2 rr hrr ho2
        have hirr := root_infix hr hrr
        have hio2 := spine_infix r hr o2 ho2
        have brr := bp_facts tb hirr
        have bo2 := bp_facts tb hio2
        have hRr := hR rr hrr
        have hroot : (regs.bp o).2 < (regs.bp rr).1 := by
          unfold okRight at hRr
          have hs := bp_snd hinf
          rcases hRr with h1 | ⟨h1, h2⟩
          · omega
          · rw [h2] at hs; simp only [if_true] at hs; omega
        have hgate2 : (regs.bp o).2 < (regs.bp o2).1 := by omega
        have hrec : POp regs lim (d + 1) (regs.bp o).2 r.lead.strip (r.tail ++ rest) r.strip rest := by
          refine mr1.b hrt _ rest _ _ (fun o'' ho'' => ?_) (fun orr horr => ?_) hrest ?_
          · have hp := spine_prec r hr o'' rr hrr ho''
            have := bp_facts tb (spine_infix r hr o'' ho'')
            omega
          · -- the gate that is closed for `o` is closed for the root of its right operand
            rw [hrr] at horr; cases horr
            have hg := hgate o rfl
            have hprr : Regs.prec regs o ≤ Regs.prec regs rr := by unfold okRight at hRr; omega
            have hm : (regs.bp o).2 ≤ (regs.bp rr).2 := by
              rcases Int.lt_or_eq_of_le hprr with h1 | h1
              · omega
              · have := tb.assoc o rr hinf hirr h1
                rw [bp_snd hinf, bp_snd hirr, this, h1]; exact Int.le_refl _
            unfold gateOpen at hg ⊢
            cases hho : headOp rest with
            | none => rfl
            | some x =>
              obtain ⟨n3, o3, r3⟩ := x
              rw [hho] at hg
              simp only [Bool.and_eq_false_iff, decide_eq_false_iff_not] at hg ⊢
              rcases hg with hg | hg
              · exact Or.inl hg
              · exact Or.inr (by omega)
          · -- the inner loop stops at `rest`
            have hg := hgate o rfl
            unfold gateOpen at hg
            cases rest with
            | nil => exact POp.stopNonOp (by intro _ _ e; cases e)
            | cons t0 r0 =>
              cases t0 with
              | op o3 =>
                by_cases hq : o3 = qName
                · subst hq; exact POp.stopQ (by omega)
                · obtain ⟨n3, o4, aft, hho, hni⟩ := hrest.2 o3 r0 rfl hq
                  rw [hho] at hg
                  simp only [Bool.and_eq_false_iff, decide_eq_false_iff_not] at hg
                  have hne : ∀ r', Tok.op o3 :: r0 ≠ tQ :: r' := by
                    intro r' e; simp [tQ] at e; exact hq e.1
                  cases hi4 : regs.isInfix o4 with
                  | false =>
                    refine POp.stopLow hne hho (fun hn3 => by rw [hni hn3] at hi4; cases hi4) ?_
                    rw [bp_noninfix hi4]; omega
                  | true =>
                    have b4 := bp_facts tb hi4
                    rcases hg with hg | hg
                    · rw [hi4] at hg; cases hg
                    · exact POp.stopLow hne hho (fun _ => hi4) (by omega)
              | _ => exact POp.stopNonOp (by intro _ _ e; cases e)
        have hprim := mr.a (r.tail ++ rest) (tail_primFollow tb r rest hr hrest.1)
        have hfl : r.flatten ++ rest = r.lead.flatten ++ (r.tail ++ rest) := by
          rw [flatten_lead_tail r, List.append_assoc]
        rw [hfl] at hhead ⊢
        refine POp.step (opToks_ne_q tb hinf nt _) hhead hinf hop hprim (Or.inr ⟨?_, by omega, hrec⟩) hh' h
        rw [htl, List.append_assoc]
        unfold gateOpen
        rw [headOp_opToks _ (infix_ne_not tb hio2)]
        simp [hio2, hgate2]

theorem mainList {regs : Regs} (tb : TableOK regs) (lim : Nat) : ∀ (xs : CList) (d : Nat), CanonList regs xs → d + xs.nest ≤ lim →
    AST.heightList xs.strip ≤ lim → ML regs lim d xs
  | .nil, d, _, _, _ => ⟨fun h => absurd rfl h, fun rest => by simpa [CList.flatten, CList.strip] using PItems.nilClose rest,
      fun h => absurd rfl h⟩
  | .cons c r, d, hc, hn, hh => by
    obtain ⟨hcc, hcr⟩ := hc
    simp only [CList.nest] at hn
    simp only [CList.strip, AST.heightList] at hh
    have mc := main tb lim c (d + 1) hcc (by omega) (by omega)
    have mr := mainList tb lim r d hcr (by omega) (by omega)
    obtain ⟨t, ts, hfl, ht⟩ := flatten_start c
    refine ⟨fun _ rest => ?_, fun rest => ?_, fun _ rest => ?_⟩
    · cases r with
      | nil =>
        simp only [CList.flatten, CList.strip]
        exact PArgs.last (top_of_M tb hcc (by omega) mc _ (follow_close _ _ _))
      | cons c2 r2 =>
        simp only [CList.flatten, CList.strip, List.append_assoc, List.cons_append]
        exact PArgs.cons (top_of_M tb hcc (by omega) mc _ (follow_comma _ _)) (by simpa [CList.strip] using mr.args (by intro e; cases e) rest)
    · cases r with
      | nil =>
        simp only [CList.flatten, CList.strip]
        refine PItems.last (top_of_M tb hcc (by omega) mc _ (follow_close _ _ _)) ?_
        rw [hfl]; exact ⟨(start_ne ht).1, (start_ne ht).2.2.1⟩
      | cons c2 r2 =>
        simp only [CList.flatten, CList.strip, List.append_assoc, List.cons_append]
        refine PItems.cons (top_of_M tb hcc (by omega) mc _ (follow_comma _ _)) ?_ (by simpa [CList.strip] using mr.items rest)
        rw [hfl]; exact ⟨(start_ne ht).1, (start_ne ht).2.2.1⟩
    · cases r with
      | nil =>
        simp only [CList.flatten, CList.strip]
        refine PItems.cons (top_of_M tb hcc (by omega) mc _ (follow_comma _ _)) ?_ (PItems.nilClose rest)
        rw [hfl]; exact ⟨(start_ne ht).1, (start_ne ht).2.2.1⟩
      | cons c2 r2 =>
        simp only [CList.flatten, CList.strip, List.append_assoc, List.cons_append]
        refine PItems.cons (top_of_M tb hcc (by omega) mc _ (follow_comma _ _)) ?_
          (by simpa [CList.strip] using mr.itemsTrail (by intro e; cases e) rest)
        rw [hfl]; exact ⟨(start_ne ht).1, (start_ne ht).2.2.1⟩

theorem mainMap {regs : Regs} (tb : TableOK regs) (lim : Nat) : ∀ (kvs : CMap) (d : Nat), CanonMap regs kvs → d + kvs.nest ≤ lim →
    AST.heightMap kvs.strip ≤ lim → MM regs lim d kvs
  | .nil, d, _, _, _ => ⟨fun rest => by simpa [CMap.flatten, CMap.strip] using PEntries.nilClose rest, fun h => absurd rfl h⟩
  | .cons k v r, d, hc, hn, hh => by
    obtain ⟨hck, hcv, hcr⟩ := hc
    simp only [CMap.nest] at hn
    simp only [CMap.strip, AST.heightMap] at hh
    have mk := main tb lim k (d + 1) hck (by omega) (by omega)
    have mv := main tb lim v (d + 1) hcv (by omega) (by omega)
    have mr := mainMap tb lim r d hcr (by omega) (by omega)
    obtain ⟨t, ts, hfl, ht⟩ := flatten_start k
    refine ⟨fun rest => ?_, fun _ rest => ?_⟩
    · cases r with
      | nil =>
        simp only [CMap.flatten, CMap.strip, List.append_assoc, List.cons_append]
        refine PEntries.last (top_of_M tb hck (by omega) mk _ (follow_colon tb _)) (top_of_M tb hcv (by omega) mv _ (follow_close _ _ _)) ?_
        rw [hfl]; exact ⟨(start_ne ht).1, (start_ne ht).2.2.2⟩
      | cons k2 v2 r2 =>
        simp only [CMap.flatten, CMap.strip, List.append_assoc, List.cons_append]
        refine PEntries.cons (top_of_M tb hck (by omega) mk _ (follow_colon tb _)) (top_of_M tb hcv (by omega) mv _ (follow_comma _ _)) ?_
          (by simpa [CMap.strip] using mr.entries rest)
        rw [hfl]; exact ⟨(start_ne ht).1, (start_ne ht).2.2.2⟩
    · cases r with
      | nil =>
        simp only [CMap.flatten, CMap.strip, List.append_assoc, List.cons_append]
        refine PEntries.cons (top_of_M tb hck (by omega) mk _ (follow_colon tb _)) (top_of_M tb hcv (by omega) mv _ (follow_comma _ _)) ?_
          (PEntries.nilClose rest)
        rw [hfl]; exact ⟨(start_ne ht).1, (start_ne ht).2.2.2⟩
      | cons k2 v2 r2 =>
        simp only [CMap.flatten, CMap.strip, List.append_assoc, List.cons_append]
        refine PEntries.cons (top_of_M tb hck (by omega) mk _ (follow_colon tb _)) (top_of_M tb hcv (by omega) mv _ (follow_comma _ _)) ?_
          (by simpa [CMap.strip] using mr.entriesTrail (by intro e; cases e) rest)
        rw [hfl]; exact ⟨(start_ne ht).1, (start_ne ht).2.2.2⟩
end

end EE
