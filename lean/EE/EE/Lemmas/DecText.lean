import EE.Lemmas.DecLemmas
import EE.Lemmas.Layout
/-! Numbers print and re-read exactly (`Decimal::to_string` / `Decimal::from_str` as modelled). -/
namespace EE.Dec

theorem natOfDigits_zeros (k : Nat) (cs : List Char) : natOfDigits (List.replicate k '0' ++ cs) = natOfDigits cs := by
  induction k with
  | zero => rfl
  | succ k ih =>
    rw [List.replicate_succ, List.cons_append, natOfDigits_cons]
    have : digitVal '0' = 0 := by decide
    simp [this, ih]

theorem span_digits_all : ∀ (a b : Text), a.all isAsciiDigit = true → (∀ y r, b = y :: r → isAsciiDigit y = false) →
    span isAsciiDigit (a ++ b) = (a, b) := by
  intro a b ha hb
  have := EE.span_append_all isAsciiDigit a b (by simpa using ha)
  rw [this]
  cases b with
  | nil => simp [span]
  | cons y r => simp [span, hb y r rfl]

/-- the digit string of a decimal: all digits, more than `scale` of them, value = mantissa -/
theorem digits_facts (d : Dec) :
    let ds := padLeft (d.scale + 1) (natDigits d.mant)
    ds.all isAsciiDigit = true ∧ d.scale + 1 ≤ ds.length ∧ natOfDigits ds = d.mant := by
  intro ds
  refine ⟨?_, ?_, ?_⟩
  · simp only [ds, padLeft, List.all_append, Bool.and_eq_true]
    refine ⟨?_, natDigits_all_digits _⟩
    simp only [List.all_replicate]
    simp; exact Or.inr (by decide)
  · simp only [ds, padLeft, List.length_append, List.length_replicate]; omega
  · simp only [ds, padLeft, natOfDigits_zeros, natOfDigits_natDigits]

/-- **Numbers print and re-read exactly**: `Decimal::from_str (d.to_string()) = d` for every
non-negative decimal within the library's range. -/
theorem ofText_toText (d : Dec) (hneg : d.neg = false) (hwf : d.WF) : ofText (toText d) = .ok d := by
  obtain ⟨hall, hlen, hval⟩ := digits_facts d
  generalize hds : padLeft (d.scale + 1) (natDigits d.mant) = ds at hall hlen hval
  have hsplit : ds = ds.take (ds.length - d.scale) ++ ds.drop (ds.length - d.scale) := (List.take_append_drop _ _).symm
  have hip : (ds.take (ds.length - d.scale)).all isAsciiDigit = true := by
    rw [hsplit, List.all_append, Bool.and_eq_true] at hall; exact hall.1
  have hfp : (ds.drop (ds.length - d.scale)).all isAsciiDigit = true := by
    rw [hsplit, List.all_append, Bool.and_eq_true] at hall; exact hall.2
  have hipne : (ds.take (ds.length - d.scale)).isEmpty = false := by
    cases h : ds.take (ds.length - d.scale) with
    | nil =>
      have := congrArg List.length h
      simp at this; omega
    | cons _ _ => rfl
  have hfplen : (ds.drop (ds.length - d.scale)).length = d.scale := by simp; omega
  have hle : natOfDigits (ds.take (ds.length - d.scale)) ≤ d.mant := by
    have := natOfDigits_append (ds.take (ds.length - d.scale)) (ds.drop (ds.length - d.scale))
    rw [← hsplit, hval] at this
    have hp : 0 < 10 ^ (ds.drop (ds.length - d.scale)).length := Nat.pow_pos (by decide)
    calc natOfDigits (ds.take (ds.length - d.scale)) ≤ natOfDigits (ds.take (ds.length - d.scale)) * 10 ^ (ds.drop (ds.length - d.scale)).length :=
          Nat.le_mul_of_pos_right _ hp
      _ ≤ d.mant := by omega
  unfold toText ofText
  simp only [hds, hneg, Bool.false_eq_true, if_false, List.nil_append]
  by_cases hs : d.scale = 0
  · simp only [hs, if_true, List.append_nil]
    have hsp := span_digits_all (ds.take (ds.length - d.scale)) [] hip (by intro y r e; cases e)
    simp only [List.append_nil] at hsp
    simp only [hs, Nat.sub_zero] at hsp hipne hle hfplen hsplit ⊢
    rw [hsp]
    simp only [hipne, Bool.false_eq_true, if_false, fracPart]
    have h1 : ¬ mantLimit ≤ natOfDigits (List.take ds.length ds) := by have := hwf.1; omega
    have htake : List.take ds.length ds = ds := List.take_length
    rw [htake] at h1 ⊢
    have h1' : ¬ mantLimit ≤ d.mant := by have := hwf.1; omega
    simp only [List.append_nil, List.length_nil, hval, h1', if_false]
    have : (0 ≤ maxScale ∧ d.mant < mantLimit) := ⟨Nat.zero_le _, hwf.1⟩
    simp only [this, and_self, if_true]
    cases d with
    | mk ng m sc => simp only at hneg hs; subst hneg; subst hs; rfl
  · simp only [hs, if_false]
    have hsp := span_digits_all (ds.take (ds.length - d.scale)) ('.' :: ds.drop (ds.length - d.scale)) hip
      (by intro y r e; simp only [List.cons.injEq] at e; rw [← e.1]; decide)
    rw [hsp]
    simp only [hipne, Bool.false_eq_true, if_false, fracPart, if_true]
    have hsp2 := span_digits_all (ds.drop (ds.length - d.scale)) [] hfp (by intro y r e; cases e)
    simp only [List.append_nil] at hsp2
    rw [hsp2]
    simp only [List.isEmpty_nil, if_true]
    have h1 : ¬ mantLimit ≤ natOfDigits (ds.take (ds.length - d.scale)) := by have := hwf.1; omega
    simp only [h1, if_false, ← hsplit, hval, hfplen]
    have : (d.scale ≤ maxScale ∧ d.mant < mantLimit) := ⟨hwf.2, hwf.1⟩
    simp only [this, and_self, if_true]
    cases d with
    | mk ng m sc => simp only at hneg; subst hneg; rfl

end EE.Dec
