import EE.Lemmas.Layout
import EE.Lemmas.DecText
/-! Re-lexing rendered text: if a text is built from token texts separated as `expr()` separates
them, the tokenizer reads exactly those tokens back. `Pieces` composes the tokenizer one token at a
time; the `lex_*` lemmas say, per token kind, which text with which continuation yields the token. -/
namespace EE

/-- `Pieces regs txt toks`: `txt` is white space and token texts, the tokenizer reading `toks`. -/
inductive Pieces (regs : Regs) : Text → List Tok → Prop
  | done {g : Text} : (∀ x ∈ g, isWs x = true) → Pieces regs g []
  | tok {g kt rest : Text} {c : Char} {t : SpTok} {s : Nat} {toks : List Tok} :
      (∀ x ∈ g, isWs x = true) → isWs c = false → lexOne regs c (kt ++ rest) s = .ok (t, rest) →
      Pieces regs rest toks → Pieces regs (g ++ c :: (kt ++ rest)) (t.tok :: toks)

theorem pieces_lexAll (regs : Regs) {txt : Text} {toks : List Tok} (h : Pieces regs txt toks) :
    ∀ (fuel pos : Nat), txt.length + 1 ≤ fuel → ∃ sts, lexAll regs fuel txt pos = .ok sts ∧ sts.map (·.tok) = toks := by
  induction h with
  | done hg =>
    intro fuel pos hf
    obtain ⟨f', rfl⟩ : ∃ f', fuel = f' + 1 := ⟨fuel - 1, by omega⟩
    exact ⟨[], by rw [lexAll_succ, span_ws_all hg], rfl⟩
  | @tok g kt rest c t s toks hg hc hlex _ ih =>
    intro fuel pos hf
    obtain ⟨f', rfl⟩ : ∃ f', fuel = f' + 1 := ⟨fuel - 1, by omega⟩
    obtain ⟨t0, ht0, htok0⟩ := lexOne_start_ok hlex (pos + utf8Len g)
    obtain ⟨sts, hsts, hmap⟩ := ih f' t0.stop (by simp at hf; omega)
    refine ⟨t0 :: sts, ?_, by simp [htok0, hmap]⟩
    rw [lexAll_succ, span_ws_prefix hg hc]
    simp only [ht0, Res.bind_ok, hsts]

theorem pieces_tokenize (regs : Regs) {txt : Text} {toks : List Tok} (h : Pieces regs txt toks) :
    ∃ sts, tokenize regs txt = .ok sts ∧ sts.map (·.tok) = toks :=
  pieces_lexAll regs h _ 0 (Nat.le_refl _)

/-- one token with nothing before it -/
theorem Pieces.tok0 {regs : Regs} {kt rest : Text} {c : Char} {t : SpTok} {s : Nat} {toks : List Tok} (hc : isWs c = false)
    (hl : lexOne regs c (kt ++ rest) s = .ok (t, rest)) (hr : Pieces regs rest toks) : Pieces regs (c :: (kt ++ rest)) (t.tok :: toks) := by
  have := Pieces.tok (regs := regs) (g := []) (by intro x hx; cases hx) hc hl hr
  simpa using this

/-- a blank in front -/
theorem Pieces.blank {regs : Regs} {txt : Text} {toks : List Tok} (h : Pieces regs txt toks) : Pieces regs (' ' :: txt) toks := by
  cases h with
  | done hg => exact Pieces.done (by intro x hx; simp only [List.mem_cons] at hx; rcases hx with rfl | hx; rfl; exact hg x hx)
  | @tok g kt rest c t s toks hg hc hl hr =>
    have := Pieces.tok (regs := regs) (g := ' ' :: g) (by intro x hx; simp only [List.mem_cons] at hx; rcases hx with rfl | hx; rfl; exact hg x hx) hc hl hr
    simpa using this


/-! ### character classes used by the dispatch of `lexOne` -/

theorem special_cases {c : Char} (h : isSpecialStart c = true) :
    c = '+' ∨ c = '-' ∨ c = '*' ∨ c = '/' ∨ c = '^' ∨ c = '%' ∨ c = '&' ∨ c = '!' ∨ c = '=' ∨ c = '?' ∨ c = ':' ∨ c = '>' ∨ c = '<' ∨ c = '|' := by
  simp [isSpecialStart] at h
  rcases h with ((((((((((((h | h) | h) | h) | h) | h) | h) | h) | h) | h) | h) | h) | h) | h <;> simp [h]

theorem special_not_digit {c : Char} (h : isSpecialStart c = true) : isAsciiDigit c = false ∧ isQuote c = false ∧ Delim.ofChar? c = none := by
  rcases special_cases h with rfl | rfl | rfl | rfl | rfl | rfl | rfl | rfl | rfl | rfl | rfl | rfl | rfl | rfl <;> exact ⟨by decide, by decide, rfl⟩

theorem digit_not_special {c : Char} (h : isAsciiDigit c = true) : isSpecialStart c = false := by
  cases hs : isSpecialStart c with
  | false => rfl
  | true => rw [(special_not_digit hs).1] at h; cases h

theorem delimChar_cases {c : Char} {d : Delim} (h : Delim.ofChar? c = some d) : c = '(' ∨ c = ')' ∨ c = '[' ∨ c = ']' ∨ c = '{' ∨ c = '}' := by
  unfold Delim.ofChar? at h
  split at h <;> simp_all

theorem digit_not_delim {c : Char} (h : isAsciiDigit c = true) : Delim.ofChar? c = none := by
  cases hd : Delim.ofChar? c with
  | none => rfl
  | some d => exfalso; rcases delimChar_cases hd with rfl | rfl | rfl | rfl | rfl | rfl <;> exact absurd h (by decide)

theorem quote_cases {c : Char} (h : isQuote c = true) : c = '"' ∨ c = '\'' := by simpa [isQuote] using h

/-- characters that reach `other_token` -/
def isOtherStart (c : Char) : Bool :=
  !isSpecialStart c && (Delim.ofChar? c).isNone && !isAsciiDigit c && !isQuote c && c != ';' && c != ',' && !isWs c

theorem otherStart_facts {c : Char} (h : isOtherStart c = true) :
    isSpecialStart c = false ∧ Delim.ofChar? c = none ∧ isAsciiDigit c = false ∧ isQuote c = false ∧ (c == ';') = false ∧ (c == ',') = false ∧ isWs c = false := by
  simp only [isOtherStart, Bool.and_eq_true, Bool.not_eq_true', Option.isNone_iff_eq_none, bne_iff_ne, ne_eq] at h
  obtain ⟨⟨⟨⟨⟨⟨h1, h2⟩, h3⟩, h4⟩, h5⟩, h6⟩, h7⟩ := h
  exact ⟨h1, h2, h3, h4, by simpa using h5, by simpa using h6, h7⟩

/-! ### which text yields which token -/

theorem lex_delim (regs : Regs) (d : Delim) (rest : Text) (s : Nat) :
    lexOne regs d.toChar ([] ++ rest) s = .ok (⟨.delim d, s, s + 1⟩, rest) := by
  cases d <;> rfl

theorem lex_comma (regs : Regs) (rest : Text) (s : Nat) : lexOne regs ',' ([] ++ rest) s = .ok (⟨.comma, s, s + 1⟩, rest) := rfl
theorem lex_semi (regs : Regs) (rest : Text) (s : Nat) : lexOne regs ';' ([] ++ rest) s = .ok (⟨.semi, s, s + 1⟩, rest) := rfl

/-- every one-character extension along `a` is an operator -/
def OpChain (isOp : Text → Bool) : Text → Text → Prop
  | _, [] => True
  | cur, x :: a => isOp (cur ++ [x]) = true ∧ OpChain isOp (cur ++ [x]) a

theorem extendOp_of_chain (isOp : Text → Bool) : ∀ (a cur b : Text), OpChain isOp cur a →
    (∀ y r, b = y :: r → isOp (cur ++ a ++ [y]) = false) → extendOp isOp cur (a ++ b) = (cur ++ a, b)
  | [], cur, b, _, hs => by
    cases b with
    | nil => simp [extendOp]
    | cons y r =>
      have := hs y r rfl
      simp only [List.append_nil] at this
      simp [extendOp, this]
  | x :: a, cur, b, hch, hs => by
    simp only [List.cons_append]
    rw [extendOp]
    simp only [hch.1, if_true]
    rw [extendOp_of_chain isOp a (cur ++ [x]) b hch.2 (by simpa [List.append_assoc] using hs)]
    simp [List.append_assoc]

theorem lex_symop (regs : Regs) (c : Char) (kt rest : Text) (s : Nat) (hsp : isSpecialStart c = true)
    (hch : OpChain regs.isOp [c] kt) (hstop : ∀ y r, rest = y :: r → regs.isOp (c :: kt ++ [y]) = false) :
    ∃ t, lexOne regs c (kt ++ rest) s = .ok (t, rest) ∧ t.tok = .op (c :: kt) := by
  unfold lexOne
  simp only [hsp, if_true]
  rw [extendOp_of_chain regs.isOp kt [c] rest hch (by simpa using hstop)]
  exact ⟨_, rfl, rfl⟩

theorem span_of_all_stop (p : Char → Bool) (a b : Text) (ha : ∀ x ∈ a, p x = true) (hb : ∀ y r, b = y :: r → p y = false) :
    span p (a ++ b) = (a, b) := by
  rw [span_append_all p a b ha]
  cases b with
  | nil => simp [span]
  | cons y r => simp [span, hb y r rfl]

theorem lex_wordop (regs : Regs) (c : Char) (kt rest : Text) (s : Nat) (hc : isOtherStart c = true)
    (hkt : ∀ x ∈ kt, notWsDelim x = true) (hop : regs.isOp (c :: kt) = true)
    (hstop : ∀ y r, rest = y :: r → notWsDelim y = false) :
    ∃ t, lexOne regs c (kt ++ rest) s = .ok (t, rest) ∧ t.tok = .op (c :: kt) := by
  obtain ⟨h1, h2, h3, h4, h5, h6, _⟩ := otherStart_facts hc
  unfold lexOne
  simp only [h1, Bool.false_eq_true, if_false, h2, h3, h4, h5, h6]
  unfold lexOther
  rw [span_of_all_stop notWsDelim kt rest hkt hstop]
  simp only [hop, if_true]
  exact ⟨_, rfl, rfl⟩

/-- the maximal run after a name is not a word operator (names are not operator words, word
operators are plain words) -/
theorem name_run_not_op (regs : Regs) (env : LexEnv regs) (c : Char) (kt rest : Text) (hsp : isSpecialStart c = false)
    (hkt : ∀ x ∈ kt, isParamCh x = true) (hstop : ∀ y r, rest = y :: r → isParamCh y = false) (hn : regs.isOp (c :: kt) = false) :
    regs.isOp (c :: (span notWsDelim (kt ++ rest)).1) = false := by
  cases hop' : regs.isOp (c :: (span notWsDelim (kt ++ rest)).1) with
  | false => rfl
  | true =>
    exfalso
    have hplain := env.wordOpsPlain c _ hop' hsp
    rw [span_append_all notWsDelim kt rest (fun x hx => param_notWsDelim (hkt x hx))] at hop' hplain
    simp only at hop' hplain
    have hnil : (span notWsDelim rest).1 = [] := by
      cases hrest : rest with
      | nil => rfl
      | cons y r' =>
        rw [span]
        cases hy : notWsDelim y with
        | false => rfl
        | true =>
          exfalso
          have hmem : y ∈ (span notWsDelim (y :: r')).1 := by rw [span]; simp [hy]
          have := hplain y (by rw [hrest]; simp [hmem])
          rw [hstop y r' hrest] at this; cases this
    rw [hnil, List.append_nil, hn] at hop'
    cases hop'

def isBoolWord (n : Text) : Bool :=
  n == ['T', 'r', 'u', 'e'] || n == ['t', 'r', 'u', 'e'] || n == ['F', 'a', 'l', 's', 'e'] || n == ['f', 'a', 'l', 's', 'e']

theorem lex_name (regs : Regs) (env : LexEnv regs) (c : Char) (kt rest : Text) (s : Nat) (hc : isOtherStart c = true)
    (hkt : ∀ x ∈ kt, isParamCh x = true) (hstop : ∀ y r, rest = y :: r → isParamCh y = false)
    (hn : regs.isOp (c :: kt) = false) (hb : isBoolWord (c :: kt) = false) :
    ∃ t, lexOne regs c (kt ++ rest) s = .ok (t, rest) ∧ t.tok = (if nextIsOpenParen rest then .func (c :: kt) else .ref (c :: kt)) := by
  obtain ⟨h1, h2, h3, h4, h5, h6, _⟩ := otherStart_facts hc
  unfold lexOne
  simp only [h1, Bool.false_eq_true, if_false, h2, h3, h4, h5, h6]
  unfold lexOther
  simp only [name_run_not_op regs env c kt rest h1 hkt hstop hn, Bool.false_eq_true, if_false]
  rw [span_of_all_stop isParamCh kt rest hkt hstop]
  refine ⟨_, rfl, ?_⟩
  simp only [isBoolWord, Bool.or_eq_false_iff] at hb
  obtain ⟨⟨⟨b1, b2⟩, b3⟩, b4⟩ := hb
  simp only [classifyAtom, b1, b2, b3, b4, Bool.or_self, Bool.false_eq_true, if_false]

theorem lex_true (regs : Regs) (env : LexEnv regs) (rest : Text) (s : Nat) (hstop : ∀ y r, rest = y :: r → isParamCh y = false) :
    ∃ t, lexOne regs 't' (['r', 'u', 'e'] ++ rest) s = .ok (t, rest) ∧ t.tok = .bool true := by
  unfold lexOne
  have : isSpecialStart 't' = false := by decide
  simp only [this, Bool.false_eq_true, if_false]
  show ∃ t, (if isAsciiDigit 't' = true then _ else _) = _ ∧ _
  have h3 : isAsciiDigit 't' = false := by decide
  have h4 : isQuote 't' = false := by decide
  have h5 : ('t' == ';') = false := by decide
  have h6 : ('t' == ',') = false := by decide
  simp only [h3, h4, h5, h6, Bool.false_eq_true, if_false]
  unfold lexOther
  have hkt : ∀ x ∈ ['r', 'u', 'e'], isParamCh x = true := by decide
  simp only [name_run_not_op regs env 't' ['r', 'u', 'e'] rest this hkt hstop env.boolsNotOps.1, Bool.false_eq_true, if_false]
  rw [span_of_all_stop isParamCh ['r', 'u', 'e'] rest hkt hstop]
  exact ⟨_, rfl, by simp [classifyAtom]⟩

theorem lex_false (regs : Regs) (env : LexEnv regs) (rest : Text) (s : Nat) (hstop : ∀ y r, rest = y :: r → isParamCh y = false) :
    ∃ t, lexOne regs 'f' (['a', 'l', 's', 'e'] ++ rest) s = .ok (t, rest) ∧ t.tok = .bool false := by
  unfold lexOne
  have : isSpecialStart 'f' = false := by decide
  simp only [this, Bool.false_eq_true, if_false]
  show ∃ t, (if isAsciiDigit 'f' = true then _ else _) = _ ∧ _
  have h3 : isAsciiDigit 'f' = false := by decide
  have h4 : isQuote 'f' = false := by decide
  have h5 : ('f' == ';') = false := by decide
  have h6 : ('f' == ',') = false := by decide
  simp only [h3, h4, h5, h6, Bool.false_eq_true, if_false]
  unfold lexOther
  have hkt : ∀ x ∈ ['a', 'l', 's', 'e'], isParamCh x = true := by decide
  simp only [name_run_not_op regs env 'f' ['a', 'l', 's', 'e'] rest this hkt hstop env.boolsNotOps.2.2.1, Bool.false_eq_true, if_false]
  rw [span_of_all_stop isParamCh ['a', 'l', 's', 'e'] rest hkt hstop]
  exact ⟨_, rfl, by simp [classifyAtom]⟩

theorem lex_str (regs : Regs) (q : Char) (hq : isQuote q = true) (payload rest : Text) (s : Nat) (hnot : q ∉ payload) :
    ∃ t, lexOne regs q ((payload ++ [q]) ++ rest) s = .ok (t, rest) ∧ t.tok = .str payload := by
  have hq' := quote_cases hq
  have h1 : isSpecialStart q = false := by rcases hq' with rfl | rfl <;> decide
  have h2 : Delim.ofChar? q = none := by rcases hq' with rfl | rfl <;> rfl
  have h3 : isAsciiDigit q = false := by rcases hq' with rfl | rfl <;> decide
  unfold lexOne
  simp only [h1, Bool.false_eq_true, if_false, h2, h3, hq, if_true]
  unfold lexString
  have := scanString_of q payload rest hnot
  simp only [List.append_assoc, List.cons_append, List.nil_append, this]
  exact ⟨_, rfl, rfl⟩


/-! ### numbers -/

theorem digit_facts {x : Char} (h : isAsciiDigit x = true) : (x == '+') = false ∧ (x == '-') = false ∧ isDigitRunCh x = true := by
  refine ⟨?_, ?_, ?_⟩
  · cases hx : x == '+' with
    | false => rfl
    | true => simp only [beq_iff_eq] at hx; subst hx; exact absurd h (by decide)
  · cases hx : x == '-' with
    | false => rfl
    | true => simp only [beq_iff_eq] at hx; subst hx; exact absurd h (by decide)
  · simp only [isAsciiDigit] at h
    simp [isDigitRunCh, h]

theorem scanNumber_plain : ∀ (kt : Text) (prev : Char) (rest : Text), (∀ x ∈ kt, isAsciiDigit x = true ∨ x = '.') →
    (∀ y r, rest = y :: r → isDigitRunCh y = false) → scanNumber prev (kt ++ rest) = (kt, rest)
  | [], prev, rest, _, hs => by
    cases rest with
    | nil => simp [scanNumber]
    | cons y r => simp [scanNumber_cons, numStops, hs y r rfl]
  | x :: kt, prev, rest, hk, hs => by
    simp only [List.cons_append]
    rw [scanNumber_cons]
    have hx : numStops prev x = false := by
      rcases hk x (by simp) with hd | rfl
      · obtain ⟨h1, h2, h3⟩ := digit_facts hd
        simp [numStops, h1, h2, h3]
      · have h1 : ('.' == '+') = false := by decide
        have h2 : ('.' == '-') = false := by decide
        have h3 : isDigitRunCh '.' = true := by decide
        simp [numStops, h1, h2, h3]
    simp only [hx, Bool.false_eq_true, if_false]
    rw [scanNumber_plain kt x rest (fun y hy => hk y (by simp [hy])) hs]

theorem toText_shape (d : Dec) (hneg : d.neg = false) :
    ∃ c kt, d.toText = c :: kt ∧ isAsciiDigit c = true ∧ ∀ x ∈ kt, isAsciiDigit x = true ∨ x = '.' := by
  obtain ⟨hall, hlen, _⟩ := Dec.digits_facts d
  generalize hds : Dec.padLeft (d.scale + 1) (Dec.natDigits d.mant) = ds at hall hlen
  have hall' : ∀ x ∈ ds, isAsciiDigit x = true := by simpa using hall
  have htake : ∀ x ∈ ds.take (ds.length - d.scale), isAsciiDigit x = true := fun x hx => hall' x (List.mem_of_mem_take hx)
  have hdrop : ∀ x ∈ ds.drop (ds.length - d.scale), isAsciiDigit x = true := fun x hx => hall' x (List.mem_of_mem_drop hx)
  unfold Dec.toText
  simp only [hds, hneg, Bool.false_eq_true, if_false, List.nil_append]
  cases hip : ds.take (ds.length - d.scale) with
  | nil =>
    have := congrArg List.length hip
    simp at this; omega
  | cons c ip =>
    rw [hip] at htake
    refine ⟨c, ip ++ (if d.scale = 0 then [] else '.' :: ds.drop (ds.length - d.scale)), by simp, htake c (by simp), ?_⟩
    intro x hx
    simp only [List.mem_append] at hx
    rcases hx with hx | hx
    · exact Or.inl (htake x (by simp [hx]))
    · split at hx
      · cases hx
      · simp only [List.mem_cons] at hx
        rcases hx with rfl | hx
        · exact Or.inr rfl
        · exact Or.inl (hdrop x hx)

theorem lex_num (regs : Regs) (d : Dec) (hneg : d.neg = false) (hwf : d.WF) (rest : Text) (s : Nat)
    (hstop : ∀ y r, rest = y :: r → isDigitRunCh y = false) :
    ∃ t c kt, d.toText = c :: kt ∧ isWs c = false ∧ lexOne regs c (kt ++ rest) s = .ok (t, rest) ∧ t.tok = .num d := by
  obtain ⟨c, kt, htxt, hc, hkt⟩ := toText_shape d hneg
  have hws : isWs c = false := by
    cases hw : isWs c with
    | false => rfl
    | true => rcases isWs_cases hw with rfl | rfl | rfl | rfl <;> exact absurd hc (by decide)
  refine ⟨⟨.num d, s, s + utf8Len (c :: kt)⟩, c, kt, htxt, hws, ?_, rfl⟩
  unfold lexOne
  simp only [digit_not_special hc, Bool.false_eq_true, if_false, digit_not_delim hc, hc, if_true]
  unfold lexNumber
  rw [scanNumber_plain kt c rest hkt hstop]
  simp only [← htxt, Dec.ofText_toText d hneg hwf]

end EE
