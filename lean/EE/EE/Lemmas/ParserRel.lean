import EE.Lemmas.ParserSound
/-! Fuel-free view of the parser model: `PX … e rest` says "for every large enough fuel the
function returns `ok (e, e.height, rest)`". The lemmas below are the parser's code, branch by
branch, in that vocabulary; they are what the completeness proof (C02) is built from. -/
namespace EE
open EE.Spec

variable (regs : Regs) (lim : Nat)

def PTok (d : Nat) (toks : List Tok) (e : AST) (rest : List Tok) : Prop :=
  ∃ n, ∀ fuel, n ≤ fuel → parseToken regs lim fuel d toks = .ok (e, e.height, rest)
def PPrim (d : Nat) (toks : List Tok) (e : AST) (rest : List Tok) : Prop :=
  ∃ n, ∀ fuel, n ≤ fuel → parsePrimary regs lim fuel d toks = .ok (e, e.height, rest)
def PExpr (d : Nat) (toks : List Tok) (e : AST) (rest : List Tok) : Prop :=
  ∃ n, ∀ fuel, n ≤ fuel → parseExpression regs lim fuel d toks = .ok (e, e.height, rest)
def POp (d : Nat) (p : Int) (lhs : AST) (toks : List Tok) (e : AST) (rest : List Tok) : Prop :=
  ∃ n, ∀ fuel, n ≤ fuel → parseOp regs lim fuel d p lhs lhs.height toks = .ok (e, e.height, rest)
def PArgs (d : Nat) (toks : List Tok) (es : List AST) (rest : List Tok) : Prop :=
  ∃ n, ∀ fuel, n ≤ fuel → parseArgs regs lim fuel d toks = .ok (es, AST.heightList es, rest)
def PItems (d : Nat) (toks : List Tok) (es : List AST) (rest : List Tok) : Prop :=
  ∃ n, ∀ fuel, n ≤ fuel → parseListItems regs lim fuel d toks = .ok (es, AST.heightList es, rest)
def PEntries (d : Nat) (toks : List Tok) (es : List (AST × AST)) (rest : List Tok) : Prop :=
  ∃ n, ∀ fuel, n ≤ fuel → parseMapItems regs lim fuel d toks = .ok (es, AST.heightMap es, rest)

variable {regs lim}

theorem node_fits {c : Nat} (h : c + 1 ≤ lim) : node lim c = .ok (c + 1) := by
  unfold node; simp; omega

theorem succ_of_le {n fuel : Nat} (h : n + 1 ≤ fuel) : ∃ k, fuel = k + 1 ∧ n ≤ k := ⟨fuel - 1, by omega, by omega⟩

/-! ### parseOp -/

theorem POp.stopNonOp {d : Nat} {p : Int} {lhs : AST} {toks : List Tok} (h : ∀ o r, toks ≠ .op o :: r) :
    POp regs lim d p lhs toks lhs toks := by
  refine ⟨1, fun fuel hf => ?_⟩
  obtain ⟨k, rfl, _⟩ := succ_of_le hf
  unfold parseOp
  split
  · rename_i o r; exact absurd rfl (h o r)
  · rfl

theorem POp.stopQ {d : Nat} {p : Int} {lhs : AST} {r : List Tok} (hp : 0 < p) :
    POp regs lim d p lhs (tQ :: r) lhs (tQ :: r) := by
  refine ⟨1, fun fuel hf => ?_⟩
  obtain ⟨k, rfl, _⟩ := succ_of_le hf
  unfold parseOp
  simp [tQ, hp]

theorem POp.stopLow {d : Nat} {p : Int} {lhs : AST} {toks : List Tok} {neg : Bool} {o : Name} {after : List Tok}
    (hne : ∀ r, toks ≠ tQ :: r) (hh : headOp toks = some (neg, o, after)) (hinf : neg = true → regs.isInfix o = true)
    (hlow : (regs.bp o).1 < p) : POp regs lim d p lhs toks lhs toks := by
  refine ⟨1, fun fuel hf => ?_⟩
  obtain ⟨k, rfl, _⟩ := succ_of_le hf
  unfold parseOp
  split
  · rename_i o' r
    have : ¬ o' = qName := fun e => hne r (by simp [tQ, e])
    have hc : (neg && !regs.isInfix o) = false := by
      cases neg with
      | false => rfl
      | true => simp [hinf rfl]
    simp only [this, if_false, hh, hc, Bool.false_eq_true, hlow, if_true]
  · rfl

theorem POp.tern {d : Nat} {p : Int} {lhs a b : AST} {r r2 r3 : List Tok} (hp : ¬ 0 < p)
    (ha : PExpr regs lim d r a (tColon :: r2)) (hb : PExpr regs lim d r2 b r3)
    (hfit : max (max lhs.height a.height) b.height + 1 ≤ lim) :
    POp regs lim d p lhs (tQ :: r) (.ternary lhs a b) r3 := by
  obtain ⟨na, ha⟩ := ha
  obtain ⟨nb, hb⟩ := hb
  refine ⟨max na nb + 1, fun fuel hf => ?_⟩
  obtain ⟨k, rfl, hk⟩ := succ_of_le hf
  unfold parseOp
  have hp' : ¬ p > 0 := hp
  simp only [tQ, qName, if_true, hp', if_false, ha k (by omega), Res.bind_ok, expectTok, tColon, colonName, hb k (by omega),
    node_fits hfit]
  simp [AST.height]

/-- One iteration of the operator loop. -/
theorem POp.step {d : Nat} {p : Int} {lhs rhs rhs' e : AST} {toks after r1 r2 fin : List Tok} {neg : Bool} {o : Name}
    (hne : ∀ r, toks ≠ tQ :: r) (hh : headOp toks = some (neg, o, after)) (hinf : regs.isInfix o = true)
    (hacc : ¬ (regs.bp o).1 < p)
    (hprim : PPrim regs lim d after rhs r1)
    (hcont : (gateOpen regs (regs.bp o).2 r1 = false ∧ rhs' = rhs ∧ r2 = r1) ∨
             (gateOpen regs (regs.bp o).2 r1 = true ∧ d + 1 ≤ lim ∧ POp regs lim (d + 1) (regs.bp o).2 rhs r1 rhs' r2))
    (hfit : (wrapNot neg (.binary o lhs rhs')).height ≤ lim)
    (htail : POp regs lim d p (wrapNot neg (.binary o lhs rhs')) r2 e fin) :
    POp regs lim d p lhs toks e fin := by
  obtain ⟨np, hprim⟩ := hprim
  obtain ⟨nt, htail⟩ := htail
  have hcases : ∃ nc, ∀ k, nc ≤ k →
      (if gateOpen regs (regs.bp o).2 r1 then
        (if d + 1 > lim then (.err .nestingTooDeep : PR) else parseOp regs lim k (d + 1) (regs.bp o).2 rhs rhs.height r1)
       else .ok (rhs, rhs.height, r1)) = .ok (rhs', rhs'.height, r2) := by
    rcases hcont with ⟨hg, rfl, rfl⟩ | ⟨hg, hd, nc, hc⟩
    · exact ⟨0, fun k _ => by simp [hg]⟩
    · refine ⟨nc, fun k hk => ?_⟩
      have : ¬ d + 1 > lim := by omega
      simp [hg, this, hc k hk]
  obtain ⟨nc, hcases⟩ := hcases
  refine ⟨max (max np nt) nc + 1, fun fuel hf => ?_⟩
  obtain ⟨k, rfl, hk⟩ := succ_of_le hf
  unfold parseOp
  split
  · rename_i o' r
    have hq : ¬ o' = qName := fun e => hne r (by simp [tQ, e])
    simp only [hq, if_false, hh, hinf, Bool.not_true, Bool.and_false, Bool.false_eq_true, hacc, hprim k (by omega),
      Res.bind_ok, hcases k (by omega)]
    have hbin : max lhs.height rhs'.height + 1 ≤ lim := by
      cases neg <;> simp [wrapNot, AST.height] at hfit <;> omega
    rw [node_fits hbin]
    simp only [Res.bind_ok]
    cases neg with
    | false =>
      simp only [Bool.false_eq_true, if_false, Res.bind_ok, wrapNot]
      have := htail k (by omega)
      simpa [wrapNot, AST.height] using this
    | true =>
      have hn : max lhs.height rhs'.height + 1 + 1 ≤ lim := by simp [wrapNot, AST.height] at hfit; omega
      simp only [if_true, node_fits hn, Res.bind_ok, wrapNot]
      have := htail k (by omega)
      simpa [wrapNot, AST.height] using this
  · -- toks does not start with an operator token: contradicts headOp
    rename_i hno
    unfold headOp at hh
    split at hh
    · exact absurd rfl (hno _ _)
    · cases hh

/-! ### parseExpression, parsePrimary -/

theorem PExpr.mk {d : Nat} {toks ts' ts'' : List Tok} {l e : AST} (hd : d + 1 ≤ lim)
    (hp : PPrim regs lim (d + 1) toks l ts') (ho : POp regs lim (d + 1) 0 l ts' e ts'') : PExpr regs lim d toks e ts'' := by
  obtain ⟨np, hp⟩ := hp
  obtain ⟨no, ho⟩ := ho
  refine ⟨max np no + 1, fun fuel hf => ?_⟩
  obtain ⟨k, rfl, hk⟩ := succ_of_le hf
  unfold parseExpression
  have : ¬ d + 1 > lim := by omega
  simp only [this, if_false, hp k (by omega), Res.bind_ok, ho k (by omega)]

/-- the postfix loop, started on `lhs` -/
def PPost (regs : Regs) (lim : Nat) (lhs : AST) (toks : List Tok) (e : AST) (rest : List Tok) : Prop :=
  parsePostfix regs lim lhs lhs.height toks = .ok (e, e.height, rest)

theorem PPost.stop {lhs : AST} {rest : List Tok} (hnp : ∀ o r, rest = .op o :: r → regs.isPostfix o = false) :
    PPost regs lim lhs rest lhs rest := by
  unfold PPost
  cases rest with
  | nil => rfl
  | cons t r =>
    cases t with
    | op o => simp [parsePostfix, hnp o r rfl]
    | _ => rfl

theorem PPost.step {lhs e : AST} {o : Name} {r rest : List Tok} (hpost : regs.isPostfix o = true) (hfit : lhs.height + 1 ≤ lim)
    (h : PPost regs lim (.postfix lhs o) r e rest) : PPost regs lim lhs (.op o :: r) e rest := by
  unfold PPost at h ⊢
  simp only [parsePostfix, hpost, if_true, node_fits hfit, Res.bind_ok]
  simpa [AST.height] using h

theorem PPrim.mk {d : Nat} {toks r rest : List Tok} {e0 e : AST} (h : PTok regs lim d toks e0 r) (hp : PPost regs lim e0 r e rest) :
    PPrim regs lim d toks e rest := by
  obtain ⟨n, h⟩ := h
  refine ⟨n + 1, fun fuel hf => ?_⟩
  obtain ⟨k, rfl, hk⟩ := succ_of_le hf
  unfold parsePrimary
  simp only [h k hk, Res.bind_ok]
  exact hp

theorem PPrim.ofTok {d : Nat} {toks rest : List Tok} {e : AST} (h : PTok regs lim d toks e rest)
    (hnp : ∀ o r, rest = .op o :: r → regs.isPostfix o = false) : PPrim regs lim d toks e rest :=
  PPrim.mk h (PPost.stop hnp)

/-! ### parseToken -/

theorem PTok.num {d : Nat} (v : Dec) (r : List Tok) : PTok regs lim d (.num v :: r) (.lit (.num v)) r :=
  ⟨1, fun fuel hf => by obtain ⟨k, rfl, _⟩ := succ_of_le hf; unfold parseToken; simp [AST.height]⟩
theorem PTok.bool {d : Nat} (v : Bool) (r : List Tok) : PTok regs lim d (.bool v :: r) (.lit (.bool v)) r :=
  ⟨1, fun fuel hf => by obtain ⟨k, rfl, _⟩ := succ_of_le hf; unfold parseToken; simp [AST.height]⟩
theorem PTok.str {d : Nat} (v : Text) (r : List Tok) : PTok regs lim d (.str v :: r) (.lit (.str v)) r :=
  ⟨1, fun fuel hf => by obtain ⟨k, rfl, _⟩ := succ_of_le hf; unfold parseToken; simp [AST.height]⟩
theorem PTok.ref {d : Nat} (v : Name) (r : List Tok) : PTok regs lim d (.ref v :: r) (.ref v) r :=
  ⟨1, fun fuel hf => by obtain ⟨k, rfl, _⟩ := succ_of_le hf; unfold parseToken; simp [AST.height]⟩

theorem PTok.paren {d : Nat} {ts rest : List Tok} {e : AST} (h : PExpr regs lim d ts e (tClose :: rest)) :
    PTok regs lim d (tOpen :: ts) e rest := by
  obtain ⟨n, h⟩ := h
  refine ⟨n + 1, fun fuel hf => ?_⟩
  obtain ⟨k, rfl, hk⟩ := succ_of_le hf
  unfold parseToken
  simp only [tOpen, h k hk, Res.bind_ok, tClose]

theorem PTok.unary {d : Nat} {o : Name} {ts rest : List Tok} {e : AST} (hpre : regs.isPrefix o = true) (hd : d + 1 ≤ lim)
    (h : PPrim regs lim (d + 1) ts e rest) (hfit : e.height + 1 ≤ lim) : PTok regs lim d (.op o :: ts) (.unary o e) rest := by
  obtain ⟨n, h⟩ := h
  refine ⟨n + 1, fun fuel hf => ?_⟩
  obtain ⟨k, rfl, hk⟩ := succ_of_le hf
  unfold parseToken
  have : ¬ d + 1 > lim := by omega
  simp only [hpre, Bool.not_true, Bool.false_eq_true, if_false, this, h k hk, Res.bind_ok, node_fits hfit]
  simp [AST.height]

theorem PTok.call0 {d : Nat} (n : Name) (rest : List Tok) : PTok regs lim d (.func n :: tOpen :: tClose :: rest) (.call n []) rest :=
  ⟨1, fun fuel hf => by
    obtain ⟨k, rfl, _⟩ := succ_of_le hf
    unfold parseToken
    simp [expectTok, tOpen, tClose, AST.height, AST.heightList]⟩

theorem PTok.call {d : Nat} {n : Name} {ts rest : List Tok} {args : List AST} (h : PArgs regs lim d ts args rest)
    (hne : ∀ r, ts ≠ tClose :: r) (hfit : AST.heightList args + 1 ≤ lim) :
    PTok regs lim d (.func n :: tOpen :: ts) (.call n args) rest := by
  obtain ⟨m, h⟩ := h
  refine ⟨m + 1, fun fuel hf => ?_⟩
  obtain ⟨k, rfl, hk⟩ := succ_of_le hf
  unfold parseToken
  simp only [expectTok, tOpen, if_true, Res.bind_ok]
  split
  · exact absurd rfl (hne _)
  · simp only [h k hk, Res.bind_ok, node_fits hfit]
    simp [AST.height]

theorem PTok.list {d : Nat} {ts rest : List Tok} {xs : List AST} (h : PItems regs lim d ts xs (tCloseB :: rest))
    (hfit : AST.heightList xs + 1 ≤ lim) : PTok regs lim d (tOpenB :: ts) (.list xs) rest := by
  obtain ⟨m, h⟩ := h
  refine ⟨m + 1, fun fuel hf => ?_⟩
  obtain ⟨k, rfl, hk⟩ := succ_of_le hf
  unfold parseToken
  simp only [tOpenB, h k hk, Res.bind_ok, expectTok, tCloseB, if_true, node_fits hfit]
  simp [AST.height]

theorem PTok.map {d : Nat} {ts rest : List Tok} {kvs : List (AST × AST)} (h : PEntries regs lim d ts kvs (tCloseC :: rest))
    (hfit : AST.heightMap kvs + 1 ≤ lim) : PTok regs lim d (tOpenC :: ts) (.map kvs) rest := by
  obtain ⟨m, h⟩ := h
  refine ⟨m + 1, fun fuel hf => ?_⟩
  obtain ⟨k, rfl, hk⟩ := succ_of_le hf
  unfold parseToken
  simp only [tOpenC, h k hk, Res.bind_ok, expectTok, tCloseC, if_true, node_fits hfit]
  simp [AST.height]

/-! ### argument / element / entry loops -/

theorem PArgs.last {d : Nat} {ts rest : List Tok} {e : AST} (h : PExpr regs lim d ts e (tClose :: rest)) :
    PArgs regs lim d ts [e] rest := by
  obtain ⟨n, h⟩ := h
  refine ⟨n + 1, fun fuel hf => ?_⟩
  obtain ⟨k, rfl, hk⟩ := succ_of_le hf
  unfold parseArgs
  simp [h k hk, tClose, AST.heightList]

theorem PArgs.cons {d : Nat} {ts r rest : List Tok} {e : AST} {es : List AST} (h : PExpr regs lim d ts e (.comma :: r))
    (hr : PArgs regs lim d r es rest) : PArgs regs lim d ts (e :: es) rest := by
  obtain ⟨n, h⟩ := h
  obtain ⟨m, hr⟩ := hr
  refine ⟨max n m + 1, fun fuel hf => ?_⟩
  obtain ⟨k, rfl, hk⟩ := succ_of_le hf
  unfold parseArgs
  simp [h k (by omega), expectTok, hr k (by omega), AST.heightList]

theorem PItems.nilClose {d : Nat} (rest : List Tok) : PItems regs lim d (tCloseB :: rest) [] (tCloseB :: rest) :=
  ⟨1, fun fuel hf => by obtain ⟨k, rfl, _⟩ := succ_of_le hf; unfold parseListItems; simp [tCloseB, AST.heightList]⟩

theorem PItems.last {d : Nat} {ts rest : List Tok} {e : AST} (h : PExpr regs lim d ts e (tCloseB :: rest))
    (hne : ts ≠ [] ∧ ∀ r, ts ≠ tCloseB :: r) : PItems regs lim d ts [e] (tCloseB :: rest) := by
  obtain ⟨n, h⟩ := h
  refine ⟨n + 2, fun fuel hf => ?_⟩
  obtain ⟨k, rfl, hk⟩ := succ_of_le (n := n + 1) (by omega)
  obtain ⟨k2, rfl, hk2⟩ := succ_of_le hk
  unfold parseListItems
  split
  · exact absurd rfl hne.1
  · rename_i r; exact absurd rfl (hne.2 r)
  · simp only [h (k2 + 1) (by omega), Res.bind_ok, tCloseB]
    unfold parseListItems
    simp [AST.heightList]

theorem PItems.cons {d : Nat} {ts r rest : List Tok} {e : AST} {es : List AST} (h : PExpr regs lim d ts e (.comma :: r))
    (hne : ts ≠ [] ∧ ∀ r, ts ≠ tCloseB :: r) (hr : PItems regs lim d r es rest) : PItems regs lim d ts (e :: es) rest := by
  obtain ⟨n, h⟩ := h
  obtain ⟨m, hr⟩ := hr
  refine ⟨max n m + 1, fun fuel hf => ?_⟩
  obtain ⟨k, rfl, hk⟩ := succ_of_le hf
  unfold parseListItems
  split
  · exact absurd rfl hne.1
  · rename_i r'; exact absurd rfl (hne.2 r')
  · simp [h k (by omega), expectTok, hr k (by omega), AST.heightList]

theorem PEntries.nilClose {d : Nat} (rest : List Tok) : PEntries regs lim d (tCloseC :: rest) [] (tCloseC :: rest) :=
  ⟨1, fun fuel hf => by obtain ⟨k, rfl, _⟩ := succ_of_le hf; unfold parseMapItems; simp [tCloseC, AST.heightMap]⟩

theorem PEntries.last {d : Nat} {tk tv rest : List Tok} {k v : AST} (hk : PExpr regs lim d tk k (tColon :: tv))
    (hv : PExpr regs lim d tv v (tCloseC :: rest)) (hne : tk ≠ [] ∧ ∀ r, tk ≠ tCloseC :: r) :
    PEntries regs lim d tk [(k, v)] (tCloseC :: rest) := by
  obtain ⟨n, hk⟩ := hk
  obtain ⟨m, hv⟩ := hv
  refine ⟨max n m + 2, fun fuel hf => ?_⟩
  obtain ⟨f1, rfl, hf1⟩ := succ_of_le (n := max n m + 1) (by omega)
  obtain ⟨f2, rfl, hf2⟩ := succ_of_le hf1
  unfold parseMapItems
  split
  · exact absurd rfl hne.1
  · rename_i r; exact absurd rfl (hne.2 r)
  · simp only [hk (f2 + 1) (by omega), Res.bind_ok, expectTok, tColon, if_true, hv (f2 + 1) (by omega), tCloseC]
    unfold parseMapItems
    simp [AST.heightMap]

theorem PEntries.cons {d : Nat} {tk tv r rest : List Tok} {k v : AST} {es : List (AST × AST)}
    (hk : PExpr regs lim d tk k (tColon :: tv)) (hv : PExpr regs lim d tv v (.comma :: r))
    (hne : tk ≠ [] ∧ ∀ r, tk ≠ tCloseC :: r) (hr : PEntries regs lim d r es rest) :
    PEntries regs lim d tk ((k, v) :: es) rest := by
  obtain ⟨n, hk⟩ := hk
  obtain ⟨m, hv⟩ := hv
  obtain ⟨q, hr⟩ := hr
  refine ⟨max (max n m) q + 1, fun fuel hf => ?_⟩
  obtain ⟨f1, rfl, hf1⟩ := succ_of_le hf
  unfold parseMapItems
  split
  · exact absurd rfl hne.1
  · rename_i r'; exact absurd rfl (hne.2 r')
  · simp [hk f1 (by omega), expectTok, tColon, hv f1 (by omega), hr f1 (by omega), AST.heightMap]

end EE
