import EE.Lemmas.ParserSound
import EE.Lemmas.NoFault
/-! Fuel adequacy of the parser model: with fuel `4·|tokens| + 8` no parser function ever runs
out of fuel (`hang`), and none of them has a panicking outcome at all. One induction on the fuel
over all parser functions; the token-consumption facts come from the soundness invariant. -/
namespace EE
open EE.Spec Res

theorem NoFault.bind_of {α β : Type} {r : Res α} {f : α → Res β} (hr : r.NoFault) (hf : ∀ a, r = .ok a → (f a).NoFault) :
    (r.bind f).NoFault := by
  cases r with
  | ok a => exact hf a rfl
  | err e => exact NoFault.err e
  | unmodelled => exact NoFault.unmodelled
  | panic => simp [Res.NoFault, Res.isPanic] at hr
  | deadlock => simp [Res.NoFault, Res.isDeadlock] at hr
  | hang => simp [Res.NoFault, Res.isHang] at hr

theorem node_noFault (lim c : Nat) : (node lim c).NoFault := by
  unfold node; split <;> first | exact NoFault.err _ | exact NoFault.ok _

theorem expectTok_noFault (what : Tok) (toks : List Tok) : (expectTok what toks).NoFault := by
  cases toks with
  | nil => exact NoFault.err _
  | cons t r => simp only [expectTok]; split <;> first | exact NoFault.err _ | exact NoFault.ok _

mutual
theorem gtok_len {regs : Regs} : ∀ {c : List Tok} {e : AST}, GTok regs c e → 1 ≤ c.length
  | _, _, .num _ => by simp
  | _, _, .bool _ => by simp
  | _, _, .str _ => by simp
  | _, _, .ref _ => by simp
  | _, _, .call0 _ => by simp
  | _, _, .call _ => by simp
  | _, _, .unary _ _ => by simp
  | _, _, .paren _ => by simp
  | _, _, .list _ => by simp
  | _, _, .map _ => by simp
end

theorem gprim_len {regs : Regs} {c : List Tok} {e : AST} (h : GPrim regs c e) : 1 ≤ c.length := by
  cases h with
  | tok h => exact gtok_len h
  | «postfix» h _ => simp

theorem gbin_len {regs : Regs} : ∀ {c : List Tok} {e : AST}, GBin regs c e → 1 ≤ c.length
  | _, _, .prim h => gprim_len h
  | _, _, .bin _ _ _ => by simp; omega
  | _, _, .notBin _ _ _ => by simp; omega

theorem gexpr_len {regs : Regs} {c : List Tok} {e : AST} (h : GExpr regs c e) : 1 ≤ c.length := by
  cases h with
  | bin h => exact gbin_len h
  | tern h _ _ => simp; omega

theorem parsePostfix_noFault (regs : Regs) (lim : Nat) : ∀ (toks : List Tok) (lhs : AST) (h : Nat),
    (parsePostfix regs lim lhs h toks).NoFault
  | [], _, _ => by simp only [parsePostfix]; exact NoFault.ok _
  | t :: r, lhs, h => by
    cases t with
    | op o =>
      simp only [parsePostfix]
      split
      · exact NoFault.bind_of (node_noFault _ _) fun h' _ => parsePostfix_noFault regs lim r _ h'
      · exact NoFault.ok _
    | _ => simp only [parsePostfix]; exact NoFault.ok _

structure Total (regs : Regs) (lim fuel : Nat) : Prop where
  tok : ∀ d toks, 4 * toks.length + 5 ≤ fuel → (parseToken regs lim fuel d toks).NoFault
  prim : ∀ d toks, 4 * toks.length + 6 ≤ fuel → (parsePrimary regs lim fuel d toks).NoFault
  expr : ∀ d toks, 4 * toks.length + 7 ≤ fuel → (parseExpression regs lim fuel d toks).NoFault
  op : ∀ d p lhs lhsH toks, 0 ≤ p → 4 * toks.length + 4 ≤ fuel → (parseOp regs lim fuel d p lhs lhsH toks).NoFault
  args : ∀ d toks, 4 * toks.length + 8 ≤ fuel → (parseArgs regs lim fuel d toks).NoFault
  items : ∀ d toks, 4 * toks.length + 8 ≤ fuel → (parseListItems regs lim fuel d toks).NoFault
  entries : ∀ d toks, 4 * toks.length + 8 ≤ fuel → (parseMapItems regs lim fuel d toks).NoFault

theorem total_zero (regs : Regs) (lim : Nat) : Total regs lim 0 := by
  refine ⟨?_, ?_, ?_, ?_, ?_, ?_, ?_⟩ <;> intros <;> omega

theorem headOp_len (toks : List Tok) (neg : Bool) (opName : Name) (afterOp : List Tok)
    (h : headOp toks = some (neg, opName, afterOp)) : afterOp.length + 1 ≤ toks.length := by
  have := headOp_spec toks neg opName afterOp h
  rw [this]; cases neg <;> simp

section Step
variable {regs : Regs} {lim fuel : Nat} (hl : 1 ≤ lim) (hp : RegsPos regs) (ih : Total regs lim fuel)
include hl hp ih

theorem tstep_tok (d : Nat) (toks : List Tok) (hf : 4 * toks.length + 5 ≤ fuel + 1) :
    (parseToken regs lim (fuel + 1) d toks).NoFault := by
  have S := sound regs lim hl hp fuel
  unfold parseToken
  split
  · exact NoFault.err _
  · exact NoFault.ok _
  · exact NoFault.ok _
  · exact NoFault.ok _
  · exact NoFault.ok _
  · -- call
    rename_i n r
    refine NoFault.bind_of (expectTok_noFault _ _) fun r1 he => ?_
    have hr := expectTok_ok he
    split
    · exact NoFault.ok _
    · refine NoFault.bind_of (ih.args d r1 (by subst hr; simp at hf ⊢; omega)) fun ⟨args, h, r2⟩ _ => ?_
      exact NoFault.bind_of (node_noFault _ _) fun _ _ => NoFault.ok _
  · -- unary
    rename_i o r
    split
    · exact NoFault.err _
    · split
      · exact NoFault.err _
      · refine NoFault.bind_of (ih.prim (d + 1) r (by simp at hf ⊢; omega)) fun ⟨rhs, h, r1⟩ _ => ?_
        exact NoFault.bind_of (node_noFault _ _) fun _ _ => NoFault.ok _
  · -- paren
    rename_i r
    refine NoFault.bind_of (ih.expr d r (by simp at hf ⊢; omega)) fun ⟨e, h, r1⟩ _ => ?_
    dsimp only
    split <;> first | exact NoFault.ok _ | exact NoFault.err _
  · -- list
    rename_i r
    refine NoFault.bind_of (ih.items d r (by simp at hf ⊢; omega)) fun ⟨xs, h, r1⟩ _ => ?_
    refine NoFault.bind_of (expectTok_noFault _ _) fun _ _ => ?_
    exact NoFault.bind_of (node_noFault _ _) fun _ _ => NoFault.ok _
  · -- map
    rename_i r
    refine NoFault.bind_of (ih.entries d r (by simp at hf ⊢; omega)) fun ⟨xs, h, r1⟩ _ => ?_
    refine NoFault.bind_of (expectTok_noFault _ _) fun _ _ => ?_
    exact NoFault.bind_of (node_noFault _ _) fun _ _ => NoFault.ok _
  · exact NoFault.err _
  · exact NoFault.err _
  · exact NoFault.err _

theorem tstep_prim (d : Nat) (toks : List Tok) (hf : 4 * toks.length + 6 ≤ fuel + 1) :
    (parsePrimary regs lim (fuel + 1) d toks).NoFault := by
  unfold parsePrimary
  refine NoFault.bind_of (ih.tok d toks (by omega)) fun ⟨lhs, h, r⟩ _ => ?_
  exact parsePostfix_noFault regs lim r lhs h

theorem tstep_expr (d : Nat) (toks : List Tok) (hf : 4 * toks.length + 7 ≤ fuel + 1) :
    (parseExpression regs lim (fuel + 1) d toks).NoFault := by
  have S := sound regs lim hl hp fuel
  unfold parseExpression
  split
  · exact NoFault.err _
  · refine NoFault.bind_of (ih.prim (d + 1) toks (by omega)) fun ⟨lhs, h, r⟩ hprim => ?_
    dsimp only
    obtain ⟨c, hc, hg, _, _⟩ := S.prim (d + 1) toks lhs h r hprim
    have := gprim_len hg
    have hlen : r.length + 1 ≤ toks.length := by rw [hc]; simp; omega
    exact ih.op (d + 1) 0 lhs h r (by omega) (by omega)

theorem tstep_args (d : Nat) (toks : List Tok) (hf : 4 * toks.length + 8 ≤ fuel + 1) :
    (parseArgs regs lim (fuel + 1) d toks).NoFault := by
  have S := sound regs lim hl hp fuel
  unfold parseArgs
  refine NoFault.bind_of (ih.expr d toks (by omega)) fun ⟨a, h, r⟩ hexp => ?_
  dsimp only
  obtain ⟨c, hc, hg, _, _⟩ := S.expr d toks a h r hexp
  have := gexpr_len hg
  have hlen : r.length + 1 ≤ toks.length := by rw [hc]; simp; omega
  split
  · exact NoFault.ok _
  · refine NoFault.bind_of (expectTok_noFault _ _) fun r1 he => ?_
    have hr := expectTok_ok he
    refine NoFault.bind_of (ih.args d r1 (by rw [hr] at hlen; simp at hlen; omega)) fun ⟨as, h', r2⟩ _ => NoFault.ok _

theorem tstep_items (d : Nat) (toks : List Tok) (hf : 4 * toks.length + 8 ≤ fuel + 1) :
    (parseListItems regs lim (fuel + 1) d toks).NoFault := by
  have S := sound regs lim hl hp fuel
  unfold parseListItems
  split
  · exact NoFault.ok _
  · exact NoFault.ok _
  · refine NoFault.bind_of (ih.expr d toks (by omega)) fun ⟨a, h, r⟩ hexp => ?_
    dsimp only
    obtain ⟨c, hc, hg, _, _⟩ := S.expr d toks a h r hexp
    have := gexpr_len hg
    have hlen : r.length + 1 ≤ toks.length := by rw [hc]; simp; omega
    refine NoFault.bind_of ?_ fun r1 hsep => ?_
    · split
      · exact NoFault.ok _
      · exact expectTok_noFault _ _
    · have hr1 : r1.length ≤ r.length := by
        split at hsep
        · cases hsep; exact Nat.le_refl _
        · have := expectTok_ok hsep; rw [this]; simp
      exact NoFault.bind_of (ih.items d r1 (by omega)) fun ⟨as, h', r2⟩ _ => NoFault.ok _

theorem tstep_entries (d : Nat) (toks : List Tok) (hf : 4 * toks.length + 8 ≤ fuel + 1) :
    (parseMapItems regs lim (fuel + 1) d toks).NoFault := by
  have S := sound regs lim hl hp fuel
  unfold parseMapItems
  split
  · exact NoFault.ok _
  · exact NoFault.ok _
  · refine NoFault.bind_of (ih.expr d toks (by omega)) fun ⟨k, hk, r⟩ hkexp => ?_
    dsimp only
    obtain ⟨c, hc, hg, _, _⟩ := S.expr d toks k hk r hkexp
    have := gexpr_len hg
    have hlen : r.length + 1 ≤ toks.length := by rw [hc]; simp; omega
    refine NoFault.bind_of (expectTok_noFault _ _) fun r1 hcol => ?_
    have hr1 := expectTok_ok hcol
    have hlen1 : r1.length + 1 ≤ r.length := by rw [hr1]; simp
    refine NoFault.bind_of (ih.expr d r1 (by omega)) fun ⟨v, hv, r2⟩ hvexp => ?_
    dsimp only
    obtain ⟨c2, hc2, hg2, _, _⟩ := S.expr d r1 v hv r2 hvexp
    have := gexpr_len hg2
    have hlen2 : r2.length + 1 ≤ r1.length := by rw [hc2]; simp; omega
    refine NoFault.bind_of ?_ fun r3 hsep => ?_
    · split
      · exact NoFault.ok _
      · exact expectTok_noFault _ _
    · have hr3 : r3.length ≤ r2.length := by
        split at hsep
        · cases hsep; exact Nat.le_refl _
        · have := expectTok_ok hsep; rw [this]; simp
      exact NoFault.bind_of (ih.entries d r3 (by omega)) fun ⟨kvs, h', r4⟩ _ => NoFault.ok _

theorem tstep_op (d : Nat) (p : Int) (lhs : AST) (lhsH : Nat) (toks : List Tok) (hp0 : 0 ≤ p) (hf : 4 * toks.length + 4 ≤ fuel + 1) :
    (parseOp regs lim (fuel + 1) d p lhs lhsH toks).NoFault := by
  have S := sound regs lim hl hp fuel
  unfold parseOp
  split
  · rename_i o rst
    simp only [List.length_cons] at hf
    split
    · split
      · exact NoFault.ok _
      · refine NoFault.bind_of (ih.expr d rst (by omega)) fun ⟨a, aH, r1⟩ hae => ?_
        dsimp only
        obtain ⟨c, hc, hg, _, _⟩ := S.expr d rst a aH r1 hae
        have hlen : r1.length ≤ rst.length := by rw [hc]; simp
        refine NoFault.bind_of (expectTok_noFault _ _) fun r2 hcol => ?_
        have hr2 := expectTok_ok hcol
        have hlen2 : r2.length + 1 ≤ r1.length := by rw [hr2]; simp
        refine NoFault.bind_of (ih.expr d r2 (by omega)) fun ⟨b, bH, r3⟩ _ => ?_
        exact NoFault.bind_of (node_noFault _ _) fun _ _ => NoFault.ok _
    · split
      · exact NoFault.err _
      · rename_i neg opName afterOp hhead
        have hal := headOp_len _ neg opName afterOp hhead
        simp only [List.length_cons] at hal
        split
        · exact NoFault.err _
        · split
          · exact NoFault.ok _
          · rename_i hlp
            have hinf : regs.isInfix opName = true := by
              cases hb' : regs.isInfix opName with
              | true => rfl
              | false => have := bp_of_noninfix regs opName hb'; omega
            obtain ⟨hr1, _⟩ := bp_of_infix regs hp opName hinf
            refine NoFault.bind_of (ih.prim d afterOp (by omega)) fun ⟨rhs, rhsH, r1⟩ hprim => ?_
            dsimp only
            obtain ⟨c, hc, hg, hh1, hh2⟩ := S.prim d afterOp rhs rhsH r1 hprim
            have := gprim_len hg
            have hlen : r1.length + 1 ≤ afterOp.length := by rw [hc]; simp; omega
            refine NoFault.bind_of ?_ fun ⟨rhs', rhsH', r2⟩ hcont => ?_
            · split
              · split
                · exact NoFault.err _
                · exact ih.op (d + 1) _ rhs rhsH r1 (by omega) (by omega)
              · exact NoFault.ok _
            · dsimp only
              have hlen2 : r2.length ≤ r1.length := by
                split at hcont
                · split at hcont
                  · cases hcont
                  · obtain ⟨c2, hc2, _⟩ := S.op (d + 1) _ rhs rhsH r1 rhs' rhsH' r2 hcont (by omega) c (GBin.prim hg) hh1 hh2
                    rw [hc2]; simp
                · cases hcont; exact Nat.le_refl _
              refine NoFault.bind_of (node_noFault _ _) fun hb1 _ => ?_
              refine NoFault.bind_of ?_ fun hb2 _ => ?_
              · split
                · exact node_noFault _ _
                · exact NoFault.ok _
              · exact ih.op d p _ hb2 r2 hp0 (by omega)
  · exact NoFault.ok _

end Step

theorem total (regs : Regs) (lim : Nat) (hl : 1 ≤ lim) (hp : RegsPos regs) : ∀ fuel, Total regs lim fuel
  | 0 => total_zero regs lim
  | fuel + 1 =>
    have ih := total regs lim hl hp fuel
    { tok := tstep_tok hl hp ih
      prim := tstep_prim hl hp ih
      expr := tstep_expr hl hp ih
      op := tstep_op hl hp ih
      args := tstep_args hl hp ih
      items := tstep_items hl hp ih
      entries := tstep_entries hl hp ih }

theorem parseStmts_total (regs : Regs) (lim : Nat) (hl : 1 ≤ lim) (hp : RegsPos regs) :
    ∀ (fuel : Nat) (toks : List Tok), 4 * toks.length + 8 ≤ fuel → (parseStmts regs lim fuel toks).NoFault
  | 0, _, h => by omega
  | fuel + 1, [], _ => by simp [parseStmts]; exact NoFault.ok _
  | fuel + 1, t :: ts, h => by
    simp only [parseStmts]
    refine NoFault.bind_of ((total regs lim hl hp fuel).expr 0 (t :: ts) (by omega)) fun ⟨a, ha, r⟩ hexp => ?_
    dsimp only
    obtain ⟨c, hc, hg, _, _⟩ := (sound regs lim hl hp fuel).expr 0 (t :: ts) a ha r hexp
    have := gexpr_len hg
    have hlen : r.length + 1 ≤ (t :: ts).length := by rw [hc]; simp; omega
    simp only [List.length_cons] at h hlen
    refine NoFault.bind_of (parseStmts_total regs lim hl hp fuel _ ?_) fun ⟨as, h'⟩ _ => NoFault.ok _
    split
    · simp only [List.length_cons] at hlen; omega
    · omega

end EE
