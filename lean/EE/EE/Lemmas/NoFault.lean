import EE.Model.Builtins
/-! `NoFault r`: the outcome is a value, an `Err`, or (for decimal arithmetic only) the library's
rounding zone — never a panic, a deadlock or a hang. Every built-in handler is `NoFault` on
every input: the model-level content of C04. -/
namespace EE

def Res.NoFault {α : Type} (r : Res α) : Prop := r.isPanic = false ∧ r.isDeadlock = false ∧ r.isHang = false

namespace Res
variable {α β : Type}
theorem NoFault.ok (a : α) : (Res.ok a).NoFault := ⟨rfl, rfl, rfl⟩
theorem NoFault.err (e : ErrKind) : (Res.err e : Res α).NoFault := ⟨rfl, rfl, rfl⟩
theorem NoFault.unmodelled : (Res.unmodelled : Res α).NoFault := ⟨rfl, rfl, rfl⟩
theorem NoFault.bind {r : Res α} {f : α → Res β} (hr : r.NoFault) (hf : ∀ a, (f a).NoFault) : (r.bind f).NoFault := by
  cases r <;> simp_all [Res.bind, Res.NoFault, Res.isPanic, Res.isDeadlock, Res.isHang]
end Res

open Res

theorem Dec.fit_noFault (n : Int) (s : Nat) : (Dec.fit n s).NoFault := by
  unfold Dec.fit
  split <;> rename_i h
  split
  · exact NoFault.ok _
  · split
    · exact NoFault.err _
    · exact NoFault.unmodelled

theorem Dec.add_noFault (a b : Dec) : (Dec.add a b).NoFault := by unfold Dec.add; exact Dec.fit_noFault _ _
theorem Dec.sub_noFault (a b : Dec) : (Dec.sub a b).NoFault := by unfold Dec.sub; exact Dec.fit_noFault _ _
theorem Dec.mul_noFault (a b : Dec) : (Dec.mul a b).NoFault := by unfold Dec.mul; exact Dec.fit_noFault _ _
theorem Dec.div_noFault (a b : Dec) : (Dec.div a b).NoFault := by
  unfold Dec.div
  split
  · exact NoFault.err _
  · simp only []
    split
    · exact Dec.fit_noFault _ _
    · split
      · exact NoFault.err _
      · exact NoFault.unmodelled
theorem Dec.rem_noFault (a b : Dec) : (Dec.rem a b).NoFault := by
  unfold Dec.rem
  split
  · exact NoFault.err _
  · exact Dec.fit_noFault _ _

theorem decOp_noFault (op : Name) (a b : Dec) : (decOp op a b).NoFault := by
  unfold decOp
  cases decOpClass op
  all_goals first
    | exact Dec.add_noFault _ _ | exact Dec.sub_noFault _ _ | exact Dec.mul_noFault _ _
    | exact Dec.div_noFault _ _ | exact Dec.rem_noFault _ _ | exact NoFault.err _

theorem intOp_noFault (op : Name) (a b : Int) : (intOp op a b).NoFault := by
  unfold intOp
  cases intOpClass op <;> simp only [] <;> (try split) <;> first | exact NoFault.ok _ | exact NoFault.err _

theorem Value.decimal_noFault (v : Value) : v.decimal.NoFault := by cases v <;> first | exact NoFault.ok _ | exact NoFault.err _
theorem Value.string_noFault (v : Value) : v.string.NoFault := by cases v <;> first | exact NoFault.ok _ | exact NoFault.err _
theorem Value.bool'_noFault (v : Value) : v.bool'.NoFault := by cases v <;> first | exact NoFault.ok _ | exact NoFault.err _
theorem Value.list'_noFault (v : Value) : v.list'.NoFault := by cases v <;> first | exact NoFault.ok _ | exact NoFault.err _
theorem Value.integer_noFault (v : Value) : v.integer.NoFault := by
  cases v <;> try exact NoFault.err _
  simp only [Value.integer]
  split
  · exact NoFault.ok _
  · exact NoFault.err _

theorem decBin_noFault (op : Name) (l r : Value) : (decBin op l r).NoFault :=
  NoFault.bind (Value.decimal_noFault l) fun _ => NoFault.bind (Value.decimal_noFault r) fun _ =>
    NoFault.bind (decOp_noFault _ _ _) fun _ => NoFault.ok _
theorem intBin_noFault (op : Name) (l r : Value) : (intBin op l r).NoFault :=
  NoFault.bind (Value.integer_noFault l) fun _ => NoFault.bind (Value.integer_noFault r) fun _ =>
    NoFault.bind (intOp_noFault _ _ _) fun _ => NoFault.ok _

/-- Every built-in infix handler returns a value or an error on every pair of operands. -/
theorem builtinInfix_noFault (op : Name) (l r : Value) : (builtinInfix op l r).NoFault := by
  unfold builtinInfix
  cases infixClass op
  all_goals first
    | exact NoFault.ok _ | exact NoFault.err _ | exact decBin_noFault _ _ _ | exact intBin_noFault _ _ _
    | exact NoFault.bind (Value.bool'_noFault _) fun _ => NoFault.bind (Value.bool'_noFault _) fun _ => NoFault.ok _
    | exact NoFault.bind (Value.decimal_noFault _) fun _ => NoFault.bind (Value.decimal_noFault _) fun _ => NoFault.ok _
    | exact NoFault.bind (Value.string_noFault _) fun _ => NoFault.bind (Value.string_noFault _) fun _ => NoFault.ok _
    | exact NoFault.bind (Value.list'_noFault _) fun _ => NoFault.ok _

theorem allBool_noFault : ∀ vs : List Value, (allBool vs).NoFault
  | [] => NoFault.ok _
  | v :: vs => by
      unfold allBool
      refine NoFault.bind (Value.bool'_noFault v) fun b => ?_
      split
      · exact allBool_noFault vs
      · exact NoFault.ok _
theorem anyBool_noFault : ∀ vs : List Value, (anyBool vs).NoFault
  | [] => NoFault.ok _
  | v :: vs => by
      unfold anyBool
      refine NoFault.bind (Value.bool'_noFault v) fun b => ?_
      split
      · exact NoFault.ok _
      · exact anyBool_noFault vs

theorem builtinPrefix_noFault (op : Name) (v : Value) : (builtinPrefix op v).NoFault := by
  unfold builtinPrefix
  cases prefixClass op <;> simp only [] <;> (try split)
  all_goals first
    | exact NoFault.ok _ | exact NoFault.err _
    | exact NoFault.bind (Value.list'_noFault _) fun _ => NoFault.bind (allBool_noFault _) fun _ => NoFault.ok _
    | exact NoFault.bind (Value.list'_noFault _) fun _ => NoFault.bind (anyBool_noFault _) fun _ => NoFault.ok _

theorem builtinPostfix_noFault (op : Name) (v : Value) : (builtinPostfix op v).NoFault := by
  unfold builtinPostfix
  cases postfixClass op <;> simp only [] <;> (try split)
  all_goals first
    | exact NoFault.ok _ | exact NoFault.err _
    | exact NoFault.bind (Dec.add_noFault _ _) fun _ => NoFault.ok _
    | exact NoFault.bind (Dec.sub_noFault _ _) fun _ => NoFault.ok _

theorem minLoop_noFault : ∀ (m : Option Dec) (vs : List Value), (minLoop m vs).NoFault
  | _, [] => NoFault.ok _
  | m, v :: vs => by
      unfold minLoop
      refine NoFault.bind (Value.decimal_noFault v) fun d => ?_
      cases m with
      | none => exact minLoop_noFault _ vs
      | some x => simp only []; split <;> exact minLoop_noFault _ vs
theorem maxLoop_noFault : ∀ (m : Option Dec) (vs : List Value), (maxLoop m vs).NoFault
  | _, [] => NoFault.ok _
  | m, v :: vs => by
      unfold maxLoop
      refine NoFault.bind (Value.decimal_noFault v) fun d => ?_
      cases m with
      | none => exact maxLoop_noFault _ vs
      | some x => simp only []; split <;> exact maxLoop_noFault _ vs
theorem foldDec_noFault (op : Name) : ∀ (acc : Dec) (vs : List Value), (foldDec op acc vs).NoFault
  | _, [] => NoFault.ok _
  | acc, v :: vs => by
      unfold foldDec
      exact NoFault.bind (Value.decimal_noFault v) fun d => NoFault.bind (decOp_noFault _ _ _) fun acc' => foldDec_noFault op acc' vs

theorem builtinFn_noFault (name : Name) (args : List Value) : (builtinFn name args).NoFault := by
  unfold builtinFn
  cases fnClass name
  all_goals first
    | exact NoFault.err _
    | exact NoFault.bind (minLoop_noFault _ _) fun m => by cases m <;> first | exact NoFault.ok _ | exact NoFault.err _
    | exact NoFault.bind (maxLoop_noFault _ _) fun m => by cases m <;> first | exact NoFault.ok _ | exact NoFault.err _
    | exact NoFault.bind (foldDec_noFault _ _ _) fun _ => NoFault.ok _

end EE
