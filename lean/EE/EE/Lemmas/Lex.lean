import EE.Model.Tokenizer
/-! Scanner lemmas: every scanner splits its input into (consumed, rest). -/
namespace EE

theorem extendOp_spec (isOp : Text → Bool) : ∀ (cs cur : Text),
    ∃ ext, (extendOp isOp cur cs).1 = cur ++ ext ∧ cs = ext ++ (extendOp isOp cur cs).2
  | [], cur => ⟨[], by simp [extendOp], by simp [extendOp]⟩
  | c :: cs, cur => by
    unfold extendOp
    split
    · obtain ⟨ext, h1, h2⟩ := extendOp_spec isOp cs (cur ++ [c])
      exact ⟨c :: ext, by simp [h1], by rw [List.cons_append, ← h2]⟩
    · exact ⟨[], by simp, by simp⟩

/-- Greedy extension stops exactly where one more character no longer gives a registered operator. -/
theorem extendOp_stop (isOp : Text → Bool) : ∀ (cs cur : Text) (c : Char) (r : Text),
    (extendOp isOp cur cs).2 = c :: r → isOp ((extendOp isOp cur cs).1 ++ [c]) = false
  | [], cur, c, r, h => by simp [extendOp] at h
  | d :: cs, cur, c, r, h => by
    unfold extendOp at h ⊢
    split
    · rename_i hop; simp only [hop, if_true] at h; exact extendOp_stop isOp cs (cur ++ [d]) c r h
    · rename_i hop
      simp only [hop, Bool.false_eq_true, if_false] at h
      cases h
      simpa using hop

theorem scanNumber_spec : ∀ (cs : Text) (prev : Char), cs = (scanNumber prev cs).1 ++ (scanNumber prev cs).2
  | [], prev => by simp [scanNumber]
  | c :: cs, prev => by
    unfold scanNumber
    split
    · simp
    · split
      · have := scanNumber_spec cs c
        simp only [List.cons_append]
        rw [← this]
      · simp

theorem scanString_spec (q : Char) : ∀ (cs payload rest : Text), scanString q cs = some (payload, rest) →
    cs = payload ++ q :: rest ∧ q ∉ payload
  | [], payload, rest, h => by simp [scanString] at h
  | c :: cs, payload, rest, h => by
    unfold scanString at h
    split at h
    · rename_i hc
      simp only [beq_iff_eq] at hc
      simp only [Option.some.injEq, Prod.mk.injEq] at h
      obtain ⟨rfl, rfl⟩ := h
      simp [hc]
    · rename_i hc
      cases hr : scanString q cs with
      | none => simp [hr] at h
      | some p =>
        obtain ⟨a, b⟩ := p
        simp only [hr, Option.some.injEq, Prod.mk.injEq] at h
        obtain ⟨rfl, rfl⟩ := h
        obtain ⟨h1, h2⟩ := scanString_spec q cs a b hr
        simp only [beq_iff_eq] at hc
        refine ⟨by simp [h1], ?_⟩
        simp only [List.mem_cons, not_or]
        exact ⟨fun e => hc e.symm, h2⟩

/-- What a token's payload says about the characters it consumed. -/
def Payload (t : Tok) (consumed : Text) : Prop :=
  match t with
  | .op o => o = consumed
  | .delim d => consumed = [d.toChar]
  | .num d => Dec.ofText consumed = .ok d
  | .comma => consumed = [',']
  | .bool true => consumed = ['T', 'r', 'u', 'e'] ∨ consumed = ['t', 'r', 'u', 'e']
  | .bool false => consumed = ['F', 'a', 'l', 's', 'e'] ∨ consumed = ['f', 'a', 'l', 's', 'e']
  | .str s => ∃ q, isQuote q = true ∧ consumed = q :: (s ++ [q]) ∧ q ∉ s
  | .ref s => s = consumed
  | .func s => s = consumed
  | .semi => consumed = [';']

theorem delim_toChar (c : Char) (d : Delim) (h : Delim.ofChar? c = some d) : d.toChar = c ∧ c.utf8Size = 1 := by
  unfold Delim.ofChar? at h
  split at h <;> first | (cases h; exact ⟨rfl, rfl⟩) | cases h

/-- The token covers `consumed`, a non-empty prefix of the input `all`; `rest` follows. -/
structure Covers (t : SpTok) (all consumed rest : Text) (start : Nat) : Prop where
  split : all = consumed ++ rest
  nonempty : consumed ≠ []
  start_eq : t.start = start
  stop_eq : t.stop = start + utf8Len consumed
  payload : Payload t.tok consumed

theorem classifyAtom_payload (atom rest : Text) : Payload (classifyAtom atom rest) atom := by
  unfold classifyAtom
  split
  · rename_i h; simp only [Payload]; simpa using h
  · split
    · rename_i h; simp only [Payload]; simpa using h
    · split <;> simp [Payload]

theorem lexOther_spec (regs : Regs) (c : Char) (cs : Text) (start : Nat) :
    ∃ consumed, Covers (lexOther regs c cs start).1 (c :: cs) consumed (lexOther regs c cs start).2 start := by
  unfold lexOther
  split
  · exact ⟨c :: (span notWsDelim cs).1, ⟨by simp [span_append], by simp, rfl, rfl, by simp [Payload]⟩⟩
  · exact ⟨c :: (span isParamCh cs).1, ⟨by simp [span_append], by simp, rfl, rfl, classifyAtom_payload _ _⟩⟩

theorem lexNumber_spec (c : Char) (cs : Text) (start : Nat) (t : SpTok) (rest : Text)
    (h : lexNumber c cs start = .ok (t, rest)) : ∃ consumed, Covers t (c :: cs) consumed rest start := by
  unfold lexNumber at h
  split at h <;> try (cases h; done)
  rename_i d hd
  simp only [Res.ok.injEq, Prod.mk.injEq] at h
  obtain ⟨rfl, rfl⟩ := h
  exact ⟨c :: (scanNumber c cs).1, ⟨by simp only [List.cons_append]; rw [← scanNumber_spec], by simp, rfl, rfl, hd⟩⟩

theorem lexString_spec (q : Char) (hq : isQuote q = true) (cs : Text) (start : Nat) (t : SpTok) (rest : Text)
    (h : lexString q cs start = .ok (t, rest)) : ∃ consumed, Covers t (q :: cs) consumed rest start := by
  unfold lexString at h
  split at h
  · cases h
  · rename_i payload r hs
    simp only [Res.ok.injEq, Prod.mk.injEq] at h
    obtain ⟨rfl, rfl⟩ := h
    obtain ⟨h1, h2⟩ := scanString_spec q cs payload r hs
    have hq1 : q.utf8Size = 1 := by
      simp [isQuote] at hq
      rcases hq with rfl | rfl <;> rfl
    refine ⟨q :: (payload ++ [q]), ⟨by simp [h1], by simp, rfl, ?_, ⟨q, hq, rfl, h2⟩⟩⟩
    simp [utf8Len_append, hq1]; omega

/-- One `next()`: the token covers a non-empty prefix `consumed` of the remaining input, its span is
`[start, start + bytes of consumed)`, and its payload is that prefix (see `Payload`). -/
theorem lexOne_spec (regs : Regs) (c : Char) (cs : Text) (start : Nat) (t : SpTok) (rest : Text)
    (h : lexOne regs c cs start = .ok (t, rest)) : ∃ consumed, Covers t (c :: cs) consumed rest start := by
  unfold lexOne at h
  split at h
  · simp only [Res.ok.injEq, Prod.mk.injEq] at h
    obtain ⟨rfl, rfl⟩ := h
    obtain ⟨ext, h1, h2⟩ := extendOp_spec regs.isOp cs [c]
    exact ⟨(extendOp regs.isOp [c] cs).1, ⟨by rw [h1, List.append_assoc, ← h2]; rfl, by simp [h1], rfl, rfl, by simp [Payload]⟩⟩
  · split at h
    · rename_i d hd
      simp only [Res.ok.injEq, Prod.mk.injEq] at h
      obtain ⟨rfl, rfl⟩ := h
      obtain ⟨h1, h2⟩ := delim_toChar c d hd
      exact ⟨[c], ⟨rfl, by simp, rfl, by simp [h2], by simp [Payload, h1]⟩⟩
    · split at h
      · exact lexNumber_spec c cs start t rest h
      · split at h
        · rename_i hq; exact lexString_spec c hq cs start t rest h
        · split at h
          · rename_i hc
            simp only [beq_iff_eq] at hc; subst hc
            simp only [Res.ok.injEq, Prod.mk.injEq] at h
            obtain ⟨rfl, rfl⟩ := h
            exact ⟨[';'], ⟨rfl, by simp, rfl, rfl, by simp [Payload]⟩⟩
          · split at h
            · rename_i hc
              simp only [beq_iff_eq] at hc; subst hc
              simp only [Res.ok.injEq, Prod.mk.injEq] at h
              obtain ⟨rfl, rfl⟩ := h
              exact ⟨[','], ⟨rfl, by simp, rfl, rfl, by simp [Payload]⟩⟩
            · simp only [Res.ok.injEq] at h
              obtain ⟨consumed, hc⟩ := lexOther_spec regs c cs start
              rw [h] at hc
              exact ⟨consumed, hc⟩

/-- `next()` never panics, never hangs: it returns a token, an `Err`, or (numbers beyond the
library's exact range) `unmodelled`. -/
theorem lexOne_noFault (regs : Regs) (c : Char) (cs : Text) (start : Nat) :
    (lexOne regs c cs start).isPanic = false ∧ (lexOne regs c cs start).isHang = false ∧ (lexOne regs c cs start).isDeadlock = false := by
  unfold lexOne lexNumber lexString
  repeat' split
  all_goals exact ⟨rfl, rfl, rfl⟩

end EE
