import EE.Lemmas.Lex
/-! Layout independence of the tokenizer: scanner congruence lemmas ("what a scanner consumes
depends only on the consumed text and on the character that stops it") and the relayout theorem
behind C11. -/
namespace EE

theorem length_lt_of_cons_append {α : Type} (x : α) (a b : List α) : x :: (a ++ b) ≠ b := by
  intro h
  have := congrArg List.length h
  simp at this
  omega

/-! ### `span` -/

theorem span_congr (p : Char → Bool) : ∀ (a b b' : Text), (span p (a ++ b)).2 = b →
    (∀ y r, b' = y :: r → p y = false) → span p (a ++ b') = (a, b')
  | [], b, b', _, hs => by
    cases b' with
    | nil => rfl
    | cons y r => simp [span, hs y r rfl]
  | x :: a, b, b', h, hs => by
    simp only [List.cons_append] at h ⊢
    unfold span at h ⊢
    cases hp : p x with
    | true =>
      simp only [hp, if_true] at h ⊢
      rw [span_congr p a b b' h hs]
    | false =>
      simp only [hp, Bool.false_eq_true, if_false] at h
      exact absurd h (length_lt_of_cons_append x a b)

theorem span_fst_of_snd (p : Char → Bool) (a b : Text) (h : (span p (a ++ b)).2 = b) : (span p (a ++ b)).1 = a := by
  have := span_append p (a ++ b)
  rw [h] at this
  exact List.append_cancel_right this

/-! ### `extendOp` -/

theorem extendOp_snd_length (isOp : Text → Bool) : ∀ (cs cur : Text), (extendOp isOp cur cs).2.length ≤ cs.length
  | [], cur => by simp [extendOp]
  | c :: cs, cur => by
    unfold extendOp
    split
    · have := extendOp_snd_length isOp cs (cur ++ [c]); simp; omega
    · simp

theorem extendOp_congr (isOp : Text → Bool) : ∀ (a cur b b' : Text), (extendOp isOp cur (a ++ b)).2 = b →
    (∀ y r, b' = y :: r → isOp (cur ++ a ++ [y]) = false) → extendOp isOp cur (a ++ b') = (cur ++ a, b')
  | [], cur, b, b', _, hs => by
    cases b' with
    | nil => simp [extendOp]
    | cons y r =>
      have := hs y r rfl
      simp only [List.append_nil] at this
      simp [extendOp, this]
  | x :: a, cur, b, b', h, hs => by
    simp only [List.cons_append] at h ⊢
    unfold extendOp at h ⊢
    cases hp : isOp (cur ++ [x]) with
    | true =>
      simp only [hp, if_true] at h ⊢
      rw [extendOp_congr isOp a (cur ++ [x]) b b' h (by simpa [List.append_assoc] using hs)]
      simp [List.append_assoc]
    | false =>
      simp only [hp, Bool.false_eq_true, if_false] at h
      exact absurd h (length_lt_of_cons_append x a b)

theorem extendOp_fst_of_snd (isOp : Text → Bool) (a cur b : Text) (h : (extendOp isOp cur (a ++ b)).2 = b) :
    (extendOp isOp cur (a ++ b)).1 = cur ++ a := by
  obtain ⟨ext, h1, h2⟩ := extendOp_spec isOp (a ++ b) cur
  rw [h] at h2
  rw [h1, List.append_cancel_right h2]

/-! ### `scanNumber` -/

/-- the number scan stops at `y` when the previous character is `prev` -/
def numStops (prev y : Char) : Bool := ((y == '+' || y == '-') && (prev != 'e' && prev != 'E')) || !isDigitRunCh y

theorem scanNumber_cons (prev y : Char) (r : Text) :
    scanNumber prev (y :: r) = if numStops prev y then ([], y :: r) else (y :: (scanNumber y r).1, (scanNumber y r).2) := by
  unfold numStops
  rw [scanNumber]
  by_cases h1 : ((y == '+' || y == '-') && (prev != 'e' && prev != 'E')) = true
  · simp [h1]
  · by_cases h2 : isDigitRunCh y = true
    · simp [h1, h2]
    · simp [h1, h2]

def lastOr (prev : Char) : Text → Char
  | [] => prev
  | x :: a => lastOr x a

theorem scanNumber_congr : ∀ (a : Text) (prev : Char) (b b' : Text), (scanNumber prev (a ++ b)).2 = b →
    (∀ y r, b' = y :: r → numStops (lastOr prev a) y = true) → scanNumber prev (a ++ b') = (a, b')
  | [], prev, b, b', _, hs => by
    cases b' with
    | nil => simp [scanNumber]
    | cons y r =>
      have := hs y r rfl
      simp only [lastOr] at this
      simp [scanNumber_cons, this]
  | x :: a, prev, b, b', h, hs => by
    simp only [List.cons_append] at h ⊢
    rw [scanNumber_cons] at h ⊢
    cases hp : numStops prev x with
    | true =>
      simp only [hp, if_true] at h
      exact absurd h (length_lt_of_cons_append x a b)
    | false =>
      simp only [hp, Bool.false_eq_true, if_false] at h ⊢
      rw [scanNumber_congr a x b b' h (by simpa [lastOr] using hs)]

theorem scanNumber_fst_of_snd (a : Text) (prev : Char) (b : Text) (h : (scanNumber prev (a ++ b)).2 = b) :
    (scanNumber prev (a ++ b)).1 = a := by
  have := scanNumber_spec (a ++ b) prev
  rw [h] at this
  exact (List.append_cancel_right this).symm

/-- where the original scan stopped, the stop condition holds -/
theorem scanNumber_stopped : ∀ (a : Text) (prev : Char) (b : Text) (y : Char) (r : Text), (scanNumber prev (a ++ b)).2 = b → b = y :: r →
    numStops (lastOr prev a) y = true
  | [], prev, b, y, r, h, hb => by
    subst hb
    simp only [List.nil_append] at h
    rw [scanNumber_cons] at h
    cases hp : numStops prev y with
    | true => exact hp
    | false =>
      simp only [hp, Bool.false_eq_true, if_false] at h
      have := congrArg List.length h
      have h2 := congrArg List.length (scanNumber_spec r y)
      simp at this h2
      omega
  | x :: a, prev, b, y, r, h, hb => by
    simp only [List.cons_append] at h
    rw [scanNumber_cons] at h
    cases hp : numStops prev x with
    | true =>
      simp only [hp, if_true] at h
      exact absurd h (length_lt_of_cons_append x a b)
    | false =>
      simp only [hp, Bool.false_eq_true, if_false] at h
      exact scanNumber_stopped a x b y r h hb

/-! ### character classes -/

theorem isWs_cases {c : Char} (h : isWs c = true) : c = ' ' ∨ c = '\t' ∨ c = '\r' ∨ c = '\n' := by
  simp [isWs] at h
  rcases h with ((h | h) | h) | h <;> simp [h]

theorem ws_not_param {c : Char} (h : isWs c = true) : isParamCh c = false := by
  rcases isWs_cases h with rfl | rfl | rfl | rfl <;> decide
theorem ws_notWsDelim {c : Char} (h : isWs c = true) : notWsDelim c = false := by simp [notWsDelim, h]
theorem ws_numStops {c : Char} (prev : Char) (h : isWs c = true) : numStops prev c = true := by
  have : isDigitRunCh c = false := by rcases isWs_cases h with rfl | rfl | rfl | rfl <;> decide
  simp [numStops, this]
theorem param_notWsDelim {c : Char} (h : isParamCh c = true) : notWsDelim c = true := by
  have h1 : isWs c = false := by
    cases hw : isWs c with
    | false => rfl
    | true => rw [ws_not_param hw] at h; cases h
  have h2 : isDelimCh c = false := by
    cases hd : isDelimCh c with
    | false => rfl
    | true =>
      simp [isDelimCh] at hd
      rcases hd with ((((rfl | rfl) | rfl) | rfl) | rfl) | rfl <;> revert h <;> decide
  simp [notWsDelim, h1, h2]


theorem span_append_all (p : Char → Bool) : ∀ (a b : Text), (∀ x ∈ a, p x = true) →
    span p (a ++ b) = (a ++ (span p b).1, (span p b).2)
  | [], b, _ => rfl
  | x :: a, b, h => by
    simp only [List.cons_append]
    rw [span]
    simp only [h x (by simp), if_true]
    rw [span_append_all p a b (fun y hy => h y (by simp [hy]))]

theorem scanString_of (q : Char) : ∀ (payload r : Text), q ∉ payload → scanString q (payload ++ q :: r) = some (payload, r)
  | [], r, _ => by simp [scanString]
  | x :: a, r, h => by
    simp only [List.mem_cons, not_or] at h
    simp only [List.cons_append]
    rw [scanString]
    have : (x == q) = false := by simpa using fun e => h.1 e.symm
    simp [this, scanString_of q a r h.2]

theorem append_eq_self_left {α : Type} {a b : List α} (h : a ++ b = b) : a = [] := by
  have := congrArg List.length h
  simp at this
  exact this

/-! ### one token under a changed continuation -/

/-- Assumptions on the registered operator names under which layout cannot matter. All hold of the
built-in set (`EE.Props.C11.builtin_lexEnv`). -/
structure LexEnv (regs : Regs) : Prop where
  /-- no operator name contains a white-space character -/
  opsNoWs : ∀ n, regs.isOp n = true → ∀ c ∈ n, isWs c = false
  /-- an operator that does not start with an operator character is a word: `[0-9A-Za-z._]` after its first character -/
  wordOpsPlain : ∀ c n, regs.isOp (c :: n) = true → isSpecialStart c = false → ∀ x ∈ n, isParamCh x = true
  /-- the boolean keywords are not operators -/
  boolsNotOps : regs.isOp ['t', 'r', 'u', 'e'] = false ∧ regs.isOp ['T', 'r', 'u', 'e'] = false ∧
    regs.isOp ['f', 'a', 'l', 's', 'e'] = false ∧ regs.isOp ['F', 'a', 'l', 's', 'e'] = false

/-- "names are not operator words" -/
def NameOK (regs : Regs) : Tok → Prop
  | .ref n => regs.isOp n = false
  | .func n => regs.isOp n = false
  | _ => True

/-- the new continuation starts with white space or with the same character, and has the same first
non-blank character as far as the call look-ahead is concerned -/
def Cont (rest rest' : Text) : Prop :=
  (∀ y r', rest' = y :: r' → isWs y = true ∨ ∃ r, rest = y :: r) ∧ nextIsOpenParen rest' = nextIsOpenParen rest

theorem lexOne_relayout (regs : Regs) (env : LexEnv regs) (c : Char) (kt rest rest' : Text) (s s' : Nat) (t : SpTok)
    (h : lexOne regs c (kt ++ rest) s = .ok (t, rest)) (hn : NameOK regs t.tok) (hc : Cont rest rest') :
    ∃ t', lexOne regs c (kt ++ rest') s' = .ok (t', rest') ∧ t'.tok = t.tok := by
  unfold lexOne at h ⊢
  split at h
  · -- symbolic operator
    rename_i hsp
    try simp only [hsp, if_true]
    simp only [Res.ok.injEq, Prod.mk.injEq] at h
    obtain ⟨ht, hr⟩ := h
    have hfst := extendOp_fst_of_snd regs.isOp kt [c] rest hr
    have hcong := extendOp_congr regs.isOp kt [c] rest rest' hr (by
      intro y r' e
      rcases hc.1 y r' e with hw | ⟨r, hr0⟩
      · cases hop : regs.isOp ([c] ++ kt ++ [y]) with
        | false => rfl
        | true => have := env.opsNoWs _ hop y (by simp); rw [hw] at this; cases this
      · have := extendOp_stop regs.isOp (kt ++ rest) [c] y r (by rw [hr, hr0])
        rwa [hfst] at this)
    refine ⟨_, by rw [hcong], ?_⟩
    rw [← ht, hfst]
  · rename_i hsp
    try simp only [hsp, Bool.false_eq_true, if_false]
    split at h
    · -- delimiter
      rename_i d hd
      try simp only [hd]
      simp only [Res.ok.injEq, Prod.mk.injEq] at h
      obtain ⟨ht, hr⟩ := h
      have := append_eq_self_left hr; subst this
      exact ⟨_, rfl, by rw [← ht]⟩
    · rename_i hd
      try simp only [hd]
      split at h
      · -- number
        rename_i hdig
        try simp only [hdig, if_true]
        unfold lexNumber at h ⊢
        cases hdec : Dec.ofText (c :: (scanNumber c (kt ++ rest)).1) with
        | ok dv =>
          simp only [hdec, Res.ok.injEq, Prod.mk.injEq] at h
          obtain ⟨ht, hr⟩ := h
          have hfst := scanNumber_fst_of_snd kt c rest hr
          have hcong := scanNumber_congr kt c rest rest' hr (by
            intro y r' e
            rcases hc.1 y r' e with hw | ⟨r, hr0⟩
            · exact ws_numStops _ hw
            · exact scanNumber_stopped kt c rest y r hr hr0)
          rw [hfst] at hdec
          simp only [hcong, hdec]
          exact ⟨_, rfl, by rw [← ht]⟩
        | err e => simp [hdec] at h
        | unmodelled => simp [hdec] at h
        | panic => simp [hdec] at h
        | deadlock => simp [hdec] at h
        | hang => simp [hdec] at h
      · rename_i hdig
        try simp only [hdig, Bool.false_eq_true, if_false]
        split at h
        · -- string
          rename_i hq
          try simp only [hq, if_true]
          unfold lexString at h ⊢
          cases hs : scanString c (kt ++ rest) with
          | none => simp [hs] at h
          | some pr =>
            obtain ⟨payload, r0⟩ := pr
            simp only [hs, Res.ok.injEq, Prod.mk.injEq] at h
            obtain ⟨ht, hr⟩ := h
            subst hr
            obtain ⟨h1, h2⟩ := scanString_spec c _ _ _ hs
            have hk : kt = payload ++ [c] := by
              have : kt ++ r0 = (payload ++ [c]) ++ r0 := by rw [h1]; simp
              exact List.append_cancel_right this
            subst hk
            have := scanString_of c payload rest' h2
            simp only [List.append_assoc, List.cons_append, List.nil_append, this]
            exact ⟨_, rfl, by rw [← ht]⟩
        · rename_i hq
          try simp only [hq, Bool.false_eq_true, if_false]
          split at h
          · rename_i hsemi
            try simp only [hsemi, if_true]
            simp only [Res.ok.injEq, Prod.mk.injEq] at h
            obtain ⟨ht, hr⟩ := h
            have := append_eq_self_left hr; subst this
            exact ⟨_, rfl, by rw [← ht]⟩
          · rename_i hsemi
            try simp only [hsemi, Bool.false_eq_true, if_false]
            split at h
            · rename_i hcomma
              try simp only [hcomma, if_true]
              simp only [Res.ok.injEq, Prod.mk.injEq] at h
              obtain ⟨ht, hr⟩ := h
              have := append_eq_self_left hr; subst this
              exact ⟨_, rfl, by rw [← ht]⟩
            · rename_i hcomma
              try simp only [hcomma, Bool.false_eq_true, if_false]
              -- word operator or identifier
              simp only [Res.ok.injEq] at h
              unfold lexOther at h ⊢
              split at h
              · -- word operator
                rename_i hop
                simp only [Prod.mk.injEq] at h
                obtain ⟨ht, hr⟩ := h
                have hfst := span_fst_of_snd notWsDelim kt rest hr
                have hcong := span_congr notWsDelim kt rest rest' hr (by
                  intro y r' e
                  rcases hc.1 y r' e with hw | ⟨r, hr0⟩
                  · exact ws_notWsDelim hw
                  · exact span_stop notWsDelim (kt ++ rest) y r (by rw [hr, hr0]))
                rw [hfst] at hop
                simp only [hcong, hop, if_true]
                exact ⟨_, rfl, by rw [← ht, hfst]⟩
              · -- identifier
                rename_i hop
                simp only [Prod.mk.injEq] at h
                obtain ⟨ht, hr⟩ := h
                have hfst := span_fst_of_snd isParamCh kt rest hr
                have hall : ∀ x ∈ kt, isParamCh x = true := by
                  have := span_all isParamCh (kt ++ rest); rwa [hfst] at this
                have hstop : ∀ y r', rest' = y :: r' → isParamCh y = false := by
                  intro y r' e
                  rcases hc.1 y r' e with hw | ⟨r, hr0⟩
                  · exact ws_not_param hw
                  · exact span_stop isParamCh (kt ++ rest) y r (by rw [hr, hr0])
                have hcong := span_congr isParamCh kt rest rest' hr hstop
                have htok : t.tok = classifyAtom (c :: kt) rest := by rw [← ht, hfst, hr]
                -- the longer run up to white space / a delimiter is not an operator either
                have hnop : regs.isOp (c :: (span notWsDelim (kt ++ rest')).1) = false := by
                  cases hop' : regs.isOp (c :: (span notWsDelim (kt ++ rest')).1) with
                  | false => rfl
                  | true =>
                    exfalso
                    have hplain := env.wordOpsPlain c _ hop' (by simpa using hsp)
                    rw [span_append_all notWsDelim kt rest' (fun x hx => param_notWsDelim (hall x hx))] at hop' hplain
                    simp only at hop' hplain
                    have hnil : (span notWsDelim rest').1 = [] := by
                      cases hrest' : rest' with
                      | nil => rfl
                      | cons y r' =>
                        rw [span]
                        cases hy : notWsDelim y with
                        | false => rfl
                        | true =>
                          exfalso
                          have hmem : y ∈ (span notWsDelim (y :: r')).1 := by rw [span]; simp [hy]
                          have := hplain y (by rw [hrest']; simp [hmem])
                          rw [hstop y r' hrest'] at this; cases this
                    rw [hnil, List.append_nil] at hop'
                    -- `c :: kt` is the token's own text
                    unfold classifyAtom at htok
                    split at htok
                    · rename_i hb
                      simp only [Bool.or_eq_true, beq_iff_eq] at hb
                      rcases hb with hb | hb <;> rw [hb] at hop'
                      · rw [env.boolsNotOps.2.1] at hop'; cases hop'
                      · rw [env.boolsNotOps.1] at hop'; cases hop'
                    · split at htok
                      · rename_i hb
                        simp only [Bool.or_eq_true, beq_iff_eq] at hb
                        rcases hb with hb | hb <;> rw [hb] at hop'
                        · rw [env.boolsNotOps.2.2.2] at hop'; cases hop'
                        · rw [env.boolsNotOps.2.2.1] at hop'; cases hop'
                      · split at htok
                        · rw [htok] at hn; simp only [NameOK] at hn; rw [hn] at hop'; cases hop'
                        · rw [htok] at hn; simp only [NameOK] at hn; rw [hn] at hop'; cases hop'
                simp only [hnop, Bool.false_eq_true, if_false, hcong]
                refine ⟨_, rfl, ?_⟩
                rw [htok]
                simp only [classifyAtom, hc.2]


/-! ### byte offsets do not influence what is read -/

def Res.noSpan : Res (SpTok × Text) → Res (Tok × Text)
  | .ok (t, r) => .ok (t.tok, r)
  | .err e => .err e
  | .panic => .panic
  | .deadlock => .deadlock
  | .hang => .hang
  | .unmodelled => .unmodelled

theorem lexOne_start (regs : Regs) (c : Char) (cs : Text) (s s' : Nat) :
    (lexOne regs c cs s).noSpan = (lexOne regs c cs s').noSpan := by
  unfold lexOne
  split
  · rfl
  · split
    · rfl
    · split
      · unfold lexNumber; split <;> rfl
      · split
        · unfold lexString; split <;> rfl
        · split
          · rfl
          · split
            · rfl
            · unfold lexOther; split <;> rfl

theorem lexOne_start_ok {regs : Regs} {c : Char} {cs : Text} {s : Nat} {t : SpTok} {r : Text} (h : lexOne regs c cs s = .ok (t, r))
    (s' : Nat) : ∃ t', lexOne regs c cs s' = .ok (t', r) ∧ t'.tok = t.tok := by
  have := lexOne_start regs c cs s s'
  rw [h] at this
  cases h' : lexOne regs c cs s' with
  | ok p =>
    obtain ⟨t', r'⟩ := p
    rw [h'] at this
    simp only [Res.noSpan, Res.ok.injEq, Prod.mk.injEq] at this
    exact ⟨t', by rw [this.2], this.1.symm⟩
  | _ => rw [h'] at this; simp [Res.noSpan] at this

/-! ### the relayout theorem -/

/-- `Relayout regs s s'`: `s'` consists of the same token texts as `s`, in the same order; before,
between and after them stands arbitrary white space, but at least some wherever `s` has some. -/
inductive Relayout (regs : Regs) : Text → Text → Prop
  | done {g g' : Text} : (∀ x ∈ g, isWs x = true) → (∀ x ∈ g', isWs x = true) → Relayout regs g g'
  | tok {g g' kt rest rest' : Text} {c : Char} {t : SpTok} {s : Nat} :
      (∀ x ∈ g, isWs x = true) → (∀ x ∈ g', isWs x = true) → isWs c = false →
      -- `c :: kt` is the text of the next token of `s`
      lexOne regs c (kt ++ rest) s = .ok (t, rest) →
      -- white space after it stays (in whatever amount)
      ((∃ y r, rest = y :: r ∧ isWs y = true) → ∃ y' r', rest' = y' :: r' ∧ isWs y' = true) →
      Relayout regs rest rest' → Relayout regs (g ++ c :: (kt ++ rest)) (g' ++ c :: (kt ++ rest'))

theorem span_ws_prefix {g : Text} (hg : ∀ x ∈ g, isWs x = true) {c : Char} (hc : isWs c = false) (r : Text) :
    span isWs (g ++ c :: r) = (g, c :: r) := by
  rw [span_append_all isWs g _ hg]
  simp [span, hc]

theorem span_ws_all {g : Text} (hg : ∀ x ∈ g, isWs x = true) : span isWs g = (g, []) := by
  have := span_append_all isWs g [] hg
  simpa [span] using this

theorem nextIsOpenParen_ws_prefix {g : Text} (hg : ∀ x ∈ g, isWs x = true) {c : Char} (hc : isWs c = false) (r : Text) :
    nextIsOpenParen (g ++ c :: r) = (c == '(') := by
  unfold nextIsOpenParen
  rw [span_ws_prefix hg hc]
  by_cases h : c = '('
  · subst h; rfl
  · have : (c == '(') = false := by simpa using h
    rw [this]
    split
    · rename_i heq; simp only [List.cons.injEq] at heq; exact absurd heq.1 h
    · rfl

theorem Relayout.cont {regs : Regs} {rest rest' : Text} (h : Relayout regs rest rest')
    (hgap : (∃ y r, rest = y :: r ∧ isWs y = true) → ∃ y' r', rest' = y' :: r' ∧ isWs y' = true) : Cont rest rest' := by
  cases h with
  | done hg hg' =>
    refine ⟨fun y r' e => Or.inl (hg' y (by rw [e]; simp)), ?_⟩
    simp [nextIsOpenParen, span_ws_all hg, span_ws_all hg']
  | @tok g g' kt r0 r0' c t s hg hg' hc _ _ _ =>
    refine ⟨fun y r' e => ?_, ?_⟩
    · cases g' with
      | cons y' g'' =>
        simp only [List.cons_append, List.cons.injEq] at e
        exact Or.inl (by rw [← e.1]; exact hg' y' (by simp))
      | nil =>
        simp only [List.nil_append, List.cons.injEq] at e
        cases g with
        | nil => exact Or.inr ⟨_, by rw [← e.1]; rfl⟩
        | cons y0 g0 =>
          exfalso
          obtain ⟨y', r'', e', hw⟩ := hgap ⟨y0, _, rfl, hg y0 (by simp)⟩
          simp only [List.nil_append, List.cons.injEq] at e'
          rw [← e'.1, hc] at hw; cases hw
    · rw [nextIsOpenParen_ws_prefix hg hc, nextIsOpenParen_ws_prefix hg' hc]

theorem relayout_tokens (regs : Regs) (env : LexEnv regs) {cs cs' : Text} (h : Relayout regs cs cs') :
    ∀ (fuel pos : Nat) (toks : List SpTok), lexAll regs fuel cs pos = .ok toks → (∀ t ∈ toks, NameOK regs t.tok) →
    ∀ (fuel' pos' : Nat), cs'.length + 1 ≤ fuel' →
    ∃ toks', lexAll regs fuel' cs' pos' = .ok toks' ∧ toks'.map (·.tok) = toks.map (·.tok) := by
  induction h with
  | done hg hg' =>
    intro fuel pos toks hl _ fuel' pos' hf
    cases fuel with
    | zero => rw [lexAll_zero] at hl; cases hl
    | succ fuel =>
      rw [lexAll_succ, span_ws_all hg] at hl
      simp only [Res.ok.injEq] at hl
      obtain ⟨f', rfl⟩ : ∃ f', fuel' = f' + 1 := ⟨fuel' - 1, by omega⟩
      refine ⟨[], ?_, by rw [← hl]⟩
      rw [lexAll_succ, span_ws_all hg']
  | @tok g g' kt rest rest' c t s hg hg' hc hlex hgap hrest ih =>
    intro fuel pos toks hl hn fuel' pos' hf
    cases fuel with
    | zero => rw [lexAll_zero] at hl; cases hl
    | succ fuel =>
      rw [lexAll_succ, span_ws_prefix hg hc] at hl
      try simp only at hl
      obtain ⟨t0, ht0, htok0⟩ := lexOne_start_ok hlex (pos + utf8Len g)
      rw [ht0] at hl
      simp only [Res.bind_ok] at hl
      cases hts : lexAll regs fuel rest t0.stop with
      | ok ts =>
        rw [hts] at hl
        simp only [Res.bind_ok, Res.ok.injEq] at hl
        subst hl
        obtain ⟨f', rfl⟩ : ∃ f', fuel' = f' + 1 := ⟨fuel' - 1, by omega⟩
        have hname : NameOK regs t0.tok := hn t0 (by simp)
        obtain ⟨t', ht', htok'⟩ := lexOne_relayout regs env c kt rest rest' (pos + utf8Len g) (pos' + utf8Len g') t0 ht0 hname
          (hrest.cont hgap)
        have hlen : rest'.length + 1 ≤ f' := by simp at hf; omega
        obtain ⟨ts', hts', hmap⟩ := ih fuel t0.stop ts hts (fun x hx => hn x (by simp [hx])) f' t'.stop hlen
        refine ⟨t' :: ts', ?_, by simp [htok', hmap]⟩
        rw [lexAll_succ, span_ws_prefix hg' hc]
        simp only [ht', Res.bind_ok, hts']
      | err e => rw [hts] at hl; simp at hl
      | panic => rw [hts] at hl; simp at hl
      | deadlock => rw [hts] at hl; simp at hl
      | hang => rw [hts] at hl; simp at hl
      | unmodelled => rw [hts] at hl; simp at hl

/-- Every input the tokenizer accepts has this decomposition into token texts and gaps. -/
theorem relayout_refl (regs : Regs) : ∀ (fuel : Nat) (cs : Text) (pos : Nat) (toks : List SpTok),
    lexAll regs fuel cs pos = .ok toks → Relayout regs cs cs
  | 0, cs, pos, toks, h => by rw [lexAll_zero] at h; cases h
  | fuel + 1, cs, pos, toks, h => by
    rw [lexAll_succ] at h
    have hsp := span_append isWs cs
    have hall := span_all isWs cs
    cases hrest : (span isWs cs).2 with
    | nil =>
      rw [hrest, List.append_nil] at hsp
      rw [hsp] at hall
      exact Relayout.done hall hall
    | cons c cs' =>
      rw [hrest] at h hsp
      simp only at h
      have hcws : isWs c = false := span_stop isWs cs c cs' hrest
      cases hl : lexOne regs c cs' (pos + utf8Len (span isWs cs).1) with
      | ok p =>
        obtain ⟨t, rest⟩ := p
        rw [hl] at h
        simp only [Res.bind_ok] at h
        cases hr : lexAll regs fuel rest t.stop with
        | ok ts =>
          obtain ⟨consumed, hcov⟩ := lexOne_spec regs c cs' _ t rest hl
          have hsplit := hcov.split
          cases consumed with
          | nil => exact absurd rfl hcov.nonempty
          | cons c0 kt =>
            simp only [List.cons_append, List.cons.injEq] at hsplit
            obtain ⟨rfl, hcs'⟩ := hsplit
            rw [hcs'] at hl
            have := Relayout.tok (regs := regs) (g := (span isWs cs).1) (g' := (span isWs cs).1) hall hall hcws hl (fun x => x)
              (relayout_refl regs fuel rest t.stop ts hr)
            rw [← hcs', hsp] at this
            exact this
        | err e => rw [hr] at h; simp at h
        | panic => rw [hr] at h; simp at h
        | deadlock => rw [hr] at h; simp at h
        | hang => rw [hr] at h; simp at h
        | unmodelled => rw [hr] at h; simp at h
      | err e => rw [hl] at h; simp at h
      | panic => rw [hl] at h; simp at h
      | deadlock => rw [hl] at h; simp at h
      | hang => rw [hl] at h; simp at h
      | unmodelled => rw [hl] at h; simp at h


/-- more white space in front -/
theorem Relayout.prepend {regs : Regs} {s s' g : Text} (h : Relayout regs s s') (hg : ∀ x ∈ g, isWs x = true) :
    Relayout regs s (g ++ s') := by
  have hmem : ∀ {g0' : Text}, (∀ x ∈ g0', isWs x = true) → ∀ x ∈ g ++ g0', isWs x = true := by
    intro g0' h2 x hx
    simp only [List.mem_append] at hx
    rcases hx with hx | hx
    · exact hg x hx
    · exact h2 x hx
  cases h with
  | done h1 h2 => exact Relayout.done h1 (hmem h2)
  | @tok g0 g0' kt rest rest' c t st h1 h2 hc hl hgap hr =>
    have := Relayout.tok (g := g0) (g' := g ++ g0') h1 (hmem h2) hc hl hgap hr
    simpa [List.append_assoc] using this

end EE
