import EE.Model.Engine
/-! The tree-walking evaluator (parser.rs `ExprAST::exec`, context.rs), branch by branch, in
the order the Rust expressions evaluate (callee lookup before operands where the code does so). -/
namespace EE
open EngineM

variable {σ : Type}

def litValue : Lit → Value
  | .num d => .num d
  | .bool b => .bool b
  | .str s => .str s

/-- `Context::value` (after the fix): clone the entry out of the lock, then call. -/
def ctxValue (inv : Inv σ) (n : Name) : EngineM σ Value :=
  bind' (ctxGet n) fun
    | none => pure' Value.none
    | some (.var v) => pure' v
    | some (.fn h) => invoke inv h []

/-- `Context::get_func` -/
def ctxGetFunc (n : Name) : EngineM σ (Option HandlerId) :=
  bind' (ctxGet n) fun
    | some (.fn h) => pure' (some h)
    | _ => pure' none

def lookupE {β : Type} (tbl : Regs → List (Name × β)) (n : Name) (e : ErrKind) : EngineM σ β :=
  bind' readRegs fun r => match alookup n (tbl r) with
    | some x => pure' x
    | none => fail e

def refName : AST → Res Name
  | .ref n => .ok n
  | _ => .err .notReferenceExpr

mutual
def exec (inv : Inv σ) : AST → EngineM σ Value
  | .lit l => pure' (litValue l)
  | .ref n => ctxValue inv n
  | .call n args =>
    bind' (execList inv args) fun vs =>
    bind' (ctxGetFunc n) fun
      | some h => invoke inv h vs
      | none => bind' (lookupE (·.fns) n .innerFunctionNotRegistered) fun h => invoke inv h vs
  | .unary op rhs =>
    bind' (lookupE (·.pre) op .prefixOpNotRegistered) fun h =>
    bind' (exec inv rhs) fun v => invoke inv h [v]
  | .postfix lhs op =>
    bind' (lookupE (·.post) op .prefixOpNotRegistered) fun h =>
    bind' (exec inv lhs) fun v => invoke inv h [v]
  | .binary op lhs rhs =>
    bind' (lookupE (·.inf) op .infixOpNotRegistered) fun cfg =>
    if cfg.setter then
      bind' (exec inv lhs) fun a =>
      bind' (exec inv rhs) fun b =>
      bind' (lift (refName lhs)) fun name =>
      bind' (lookupE (·.inf) op .infixOpNotRegistered) fun cfg2 =>
      bind' (invoke inv cfg2.h [a, b]) fun v =>
      bind' (ctxSet name (.var v)) fun _ => pure' Value.none
    else
      bind' (lookupE (·.inf) op .infixOpNotRegistered) fun cfg2 =>
      bind' (exec inv lhs) fun a =>
      bind' (exec inv rhs) fun b => invoke inv cfg2.h [a, b]
  | .ternary c a b =>
    bind' (exec inv c) fun
      | .bool true => exec inv a
      | .bool false => exec inv b
      | _ => fail .shouldBeBool
  | .list xs => bind' (execList inv xs) fun vs => pure' (.list vs)
  | .map kvs => bind' (execMap inv kvs) fun m => pure' (.map m)
  | .stmt xs => execChain inv Value.none xs
  | .none => pure' Value.none
def execList (inv : Inv σ) : List AST → EngineM σ (List Value)
  | [] => pure' []
  | a :: as => bind' (exec inv a) fun v => bind' (execList inv as) fun vs => pure' (v :: vs)
def execMap (inv : Inv σ) : List (AST × AST) → EngineM σ (List (Value × Value))
  | [] => pure' []
  | (k, v) :: r =>
    bind' (exec inv k) fun kv => bind' (exec inv v) fun vv =>
    bind' (execMap inv r) fun m => pure' ((kv, vv) :: m)
def execChain (inv : Inv σ) : Value → List AST → EngineM σ Value
  | last, [] => pure' last
  | _, a :: as => bind' (exec inv a) fun v => execChain inv v as
end

/-- Built-in handler semantics; user handlers are delegated to `userInv`. -/
def stdInv (userInv : Nat → List Value → EngineM σ Value) : Inv σ
  | .builtinInfix n, [a, b] => lift (builtinInfix n a b)
  | .builtinPrefix n, [a] => lift (builtinPrefix n a)
  | .builtinPostfix n, [a] => lift (builtinPostfix n a)
  | .builtinFn n, args => lift (builtinFn n args)
  | .user id, args => userInv id args
  | _, _ => fail .paramInvalid

end EE
