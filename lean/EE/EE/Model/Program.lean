import EE.Model.Tokenizer
import EE.Model.Parser
import EE.Model.Eval
import EE.Model.Render
import EE.Model.BuiltinRegs
/-! The public entry points: `parse_expression`, `execute`. -/
namespace EE

/-- `parse_expression` -/
def parseProgram (regs : Regs) (input : Text) : Res AST :=
  (tokenize regs input).bind fun sts => parseTokens regs maxDepth (sts.map (·.tok))

end EE
