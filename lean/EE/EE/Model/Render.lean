import EE.Model.Ast
/-! `ExprAST::expr` and `ExprAST::describe` (parser.rs, descriptor.rs). -/
namespace EE

def joinWith (sep : Text) : List Text → Text
  | [] => []
  | [a] => a
  | a :: b :: r => a ++ sep ++ joinWith sep (b :: r)

def litText : Lit → Text
  | .num d => d.toText
  | .bool true => ['t', 'r', 'u', 'e']
  | .bool false => ['f', 'a', 'l', 's', 'e']
  | .str s => if s.contains '"' then '\'' :: (s ++ ['\'']) else '"' :: (s ++ ['"'])

def paren (t : Text) : Text := '(' :: (t ++ [')'])

def isBinary : AST → Bool | .binary .. => true | _ => false
def isTernary : AST → Bool | .ternary .. => true | _ => false

def binRoot : AST → Option Name
  | .binary o _ _ => some o
  | _ => none

/-- the infix operator a node is written around: a Binary node's operator, and `OP` for `not` over a
Binary node (written `x not OP y`) -/
def astRoot : AST → Option Name
  | .binary op _ _ => some op
  | .unary op rhs => if op = notName then binRoot rhs else none
  | _ => none

/-- `ExprAST::get_precidence`: the binding powers of that operator -/
def astBp (regs : Regs) (t : AST) : Option (Int × Int) := (astRoot t).map regs.bp

/-- Does the left operand `lhs` of infix `op` need parentheses? -/
def needParenLeft (regs : Regs) (op : Name) (lhs : AST) : Bool :=
  match astBp regs lhs with
  | some (_, lr) => decide (lr < (regs.bp op).1)
  | none => isTernary lhs
def needParenRight (regs : Regs) (op : Name) (rhs : AST) : Bool :=
  match astBp regs rhs with
  | some (rl, _) => decide (rl ≤ (regs.bp op).2)
  | none => isTernary rhs
/-- the operand of a prefix operator: parenthesised iff it is an infix expression (a `not`-form
included) or a conditional -/
def needParenUnary (regs : Regs) (rhs : AST) : Bool :=
  match astBp regs rhs with
  | some _ => true
  | none => isTernary rhs
def needParenPostfix : AST → Bool
  | .unary .. => true | .binary .. => true | .ternary .. => true | _ => false

def wrapIf (b : Bool) (t : Text) : Text := if b then paren t else t

mutual
def expr (regs : Regs) : AST → Text
  | .lit l => litText l
  | .ref n => n
  | .call n args => n ++ ('(' :: (joinWith [','] (exprList regs args) ++ [')']))
  | .unary op rhs =>
    if op = notName ∧ isBinary rhs then exprNot regs rhs
    else op ++ (' ' :: wrapIf (needParenUnary regs rhs) (expr regs rhs))
  | .binary op lhs rhs =>
    wrapIf (needParenLeft regs op lhs) (expr regs lhs) ++ (' ' :: (op ++ (' ' ::
      wrapIf (needParenRight regs op rhs) (expr regs rhs))))
  | .postfix lhs op => wrapIf (needParenPostfix lhs) (expr regs lhs) ++ (' ' :: op)
  | .ternary c a b =>
    wrapIf (isTernary c) (expr regs c) ++ ([' ', '?', ' '] ++ (expr regs a ++ ([' ', ':', ' '] ++ expr regs b)))
  | .list xs => '[' :: (joinWith [','] (exprList regs xs) ++ [']'])
  | .map kvs => '{' :: (joinWith [','] (exprMap regs kvs) ++ ['}'])
  | .stmt xs => joinWith [';'] (exprList regs xs)
  | .none => []
/-- `x not OP y` for the operand `x OP y` of a prefix `not` -/
def exprNot (regs : Regs) : AST → Text
  | .binary op lhs rhs =>
    wrapIf (needParenLeft regs op lhs) (expr regs lhs) ++ ([' ', 'n', 'o', 't', ' '] ++ (op ++ (' ' ::
      wrapIf (needParenRight regs op rhs) (expr regs rhs))))
  | _ => []
def exprList (regs : Regs) : List AST → List Text
  | [] => []
  | a :: as => expr regs a :: exprList regs as
def exprMap (regs : Regs) : List (AST × AST) → List Text
  | [] => []
  | (k, v) :: r => (expr regs k ++ (':' :: expr regs v)) :: exprMap regs r
end

/-! ### describe -/

inductive DKey where
  | unary (op : Name) | binary (op : Name) | postfix (op : Name) | ternary
  | function (n : Name) | reference (n : Name) | list | map | chain
deriving DecidableEq, Repr, Inhabited

/-- The descriptor registry: key → descriptor identifier (most recent first). -/
abbrev DReg := List (DKey × Nat)

def dlookup (k : DKey) : DReg → Option Nat
  | [] => none
  | (k', v) :: r => if k' = k then some v else dlookup k r

def DReg.set (r : DReg) (k : DKey) (d : Nat) : DReg := (k, d) :: r

/-- What a registered descriptor computes from its arguments (operator/name and the children's
descriptions, in the order the code passes them; map entries as key, value, key, value …). -/
abbrev DInv := Nat → List Text → Text

def defaultDesc : DKey → List Text → Text
  | .unary _, [op, rhs] => op ++ rhs
  | .binary _, [op, l, r] => l ++ op ++ r
  | .postfix _, [l, op] => l ++ op
  | .ternary, [c, l, r] => c ++ ['?'] ++ l ++ [':'] ++ r
  | .function _, n :: ps => n ++ ['('] ++ joinWith [','] ps ++ [')']
  | .reference _, [n] => n
  | .list, ps => ['['] ++ joinWith [','] ps ++ [']']
  | .map, ps =>
    let rec pairs : List Text → List Text
      | k :: v :: r => (k ++ [':'] ++ v) :: pairs r
      | _ => []
    ['{'] ++ joinWith [','] (pairs ps) ++ ['}']
  | .chain, ps => joinWith [';'] ps
  | _, _ => []

def applyDesc (dreg : DReg) (dinv : DInv) (k : DKey) (args : List Text) : Text :=
  match dlookup k dreg with
  | some d => dinv d args
  | none => defaultDesc k args

mutual
def describe (dreg : DReg) (dinv : DInv) : AST → Text
  | .lit l => litText l
  | .unary op rhs => applyDesc dreg dinv (.unary op) [op, describe dreg dinv rhs]
  | .binary op l r => applyDesc dreg dinv (.binary op) [op, describe dreg dinv l, describe dreg dinv r]
  | .postfix l op => applyDesc dreg dinv (.postfix op) [describe dreg dinv l, op]
  | .ternary c a b => applyDesc dreg dinv .ternary
      [describe dreg dinv c, describe dreg dinv a, describe dreg dinv b]
  | .ref n => applyDesc dreg dinv (.reference n) [n]
  | .call n args => applyDesc dreg dinv (.function n) (n :: describeList dreg dinv args)
  | .list xs => applyDesc dreg dinv .list (describeList dreg dinv xs)
  | .map kvs => applyDesc dreg dinv .map (describeMap dreg dinv kvs)
  | .stmt xs => applyDesc dreg dinv .chain (describeList dreg dinv xs)
  | .none => []
def describeList (dreg : DReg) (dinv : DInv) : List AST → List Text
  | [] => []
  | a :: as => describe dreg dinv a :: describeList dreg dinv as
def describeMap (dreg : DReg) (dinv : DInv) : List (AST × AST) → List Text
  | [] => []
  | (k, v) :: r => describe dreg dinv k :: describe dreg dinv v :: describeMap dreg dinv r
end

end EE
