import EE.Model.Token
/-! `ExprAST` (parser.rs). -/
namespace EE

inductive Lit where
  | num (d : Dec)
  | bool (b : Bool)
  | str (s : Text)
deriving DecidableEq, Repr, Inhabited

inductive AST where
  | lit (l : Lit)
  | unary (op : Name) (rhs : AST)
  | binary (op : Name) (lhs rhs : AST)
  | postfix (lhs : AST) (op : Name)
  | ternary (c a b : AST)
  | ref (name : Name)
  | call (name : Name) (args : List AST)
  | list (xs : List AST)
  | map (kvs : List (AST × AST))
  | stmt (xs : List AST)
  | none
deriving Repr, Inhabited

def notName : Name := ['n', 'o', 't']
def qName : Name := ['?']
def colonName : Name := [':']

namespace AST

mutual
def height : AST → Nat
  | .lit _ => 1
  | .unary _ r => r.height + 1
  | .binary _ l r => max l.height r.height + 1
  | .postfix l _ => l.height + 1
  | .ternary c a b => max (max c.height a.height) b.height + 1
  | .ref _ => 1
  | .call _ args => heightList args + 1
  | .list xs => heightList xs + 1
  | .map kvs => heightMap kvs + 1
  | .stmt xs => heightList xs + 1
  | .none => 1
def heightList : List AST → Nat
  | [] => 0
  | a :: as => max a.height (heightList as)
def heightMap : List (AST × AST) → Nat
  | [] => 0
  | (k, v) :: r => max (max k.height v.height) (heightMap r)
end

end AST
end EE
