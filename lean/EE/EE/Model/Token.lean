import EE.Model.Registry
/-! Tokens (token.rs). `EOF` is the end of the token list. -/
namespace EE

inductive Delim | openParen | closeParen | openBracket | closeBracket | openBrace | closeBrace
deriving DecidableEq, Repr, Inhabited

def Delim.ofChar? : Char → Option Delim
  | '(' => some .openParen | ')' => some .closeParen
  | '[' => some .openBracket | ']' => some .closeBracket
  | '{' => some .openBrace | '}' => some .closeBrace
  | _ => none

def Delim.toChar : Delim → Char
  | .openParen => '(' | .closeParen => ')' | .openBracket => '[' | .closeBracket => ']'
  | .openBrace => '{' | .closeBrace => '}'

inductive Tok where
  | op (s : Text)
  | delim (d : Delim)
  | num (d : Dec)
  | comma
  | bool (b : Bool)
  | str (s : Text)
  | ref (s : Text)
  | func (s : Text)
  | semi
deriving DecidableEq, Repr, Inhabited

/-- A token with its byte span `[start, stop)` in the input. -/
structure SpTok where
  tok : Tok
  start : Nat
  stop : Nat
deriving DecidableEq, Repr, Inhabited

end EE
