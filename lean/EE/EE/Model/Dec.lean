import EE.Model.Text
/-! Decimal numbers as `rust_decimal::Decimal` stores them (sign, 96-bit mantissa, scale 0..28)
and the arithmetic the engine uses.  `rust_decimal` is a dependency, not part of the repository:
it is **modelled, not verified**.  The model is *exact-when-representable*: an operation returns
the exact mathematical result when that result is a decimal with at most 28 fractional digits and
a mantissa below 2^96; `numberOverflow` when its integer part cannot fit; and `unmodelled` in the
remaining zone where the library rounds.  Results are compared with the implementation by value. -/
namespace EE

structure Dec where
  neg : Bool
  mant : Nat
  scale : Nat
deriving DecidableEq, Repr, Inhabited

def mantLimit : Nat := 79228162514264337593543950336  -- 2^96
def maxScale : Nat := 28

namespace Dec

def WF (d : Dec) : Prop := d.mant < mantLimit ∧ d.scale ≤ maxScale

/-- Signed numerator: the number denoted is `num / 10^scale`. -/
def num (d : Dec) : Int := if d.neg then -(d.mant : Int) else (d.mant : Int)

def ofNumScale (n : Int) (s : Nat) : Dec := ⟨decide (n < 0), n.natAbs, s⟩

def zero : Dec := ⟨false, 0, 0⟩
def one : Dec := ⟨false, 1, 0⟩
def ofInt (n : Int) : Dec := ofNumScale n 0

def isZero (d : Dec) : Bool := d.mant == 0

/-- Strip trailing zeros of `n / 10^s` (structural on `s`). -/
def normNS (n : Int) : Nat → Int × Nat
  | 0 => (n, 0)
  | s + 1 => if n % 10 = 0 then normNS (n / 10) s else (n, s + 1)

/-- `Decimal::normalize`: no trailing zeros, and `-0` becomes `0`. -/
def normalize (d : Dec) : Dec :=
  let (n, s) := normNS d.num d.scale
  ofNumScale n s

/-- The exact value `n / 10^s` as a `Dec`, if it is representable. -/
def fit (n : Int) (s : Nat) : Res Dec :=
  let (n', s') := normNS n s
  if s' ≤ maxScale ∧ n'.natAbs < mantLimit then .ok (ofNumScale n' s')
  else if mantLimit ≤ n.natAbs / 10 ^ s then .err .numberOverflow
  else .unmodelled

/-- Numerators over the common scale `max a.scale b.scale`. -/
def align (a b : Dec) : Int × Int × Nat :=
  let s := max a.scale b.scale
  (a.num * (10 ^ (s - a.scale) : Nat), b.num * (10 ^ (s - b.scale) : Nat), s)

def add (a b : Dec) : Res Dec := let (x, y, s) := align a b; fit (x + y) s
def sub (a b : Dec) : Res Dec := let (x, y, s) := align a b; fit (x - y) s
def mul (a b : Dec) : Res Dec := fit (a.num * b.num) (a.scale + b.scale)

/-- `checked_div` after the engine's own zero test: exact quotient when it has at most 28 places. -/
def div (a b : Dec) : Res Dec :=
  if b.isZero then .err .divideByZero else
  let nn : Int := a.num * (10 ^ (b.scale + maxScale) : Nat)
  let dd : Int := b.num * (10 ^ a.scale : Nat)
  if nn % dd = 0 then fit (nn / dd) maxScale
  else if mantLimit ≤ (nn / dd).natAbs / 10 ^ maxScale then .err .numberOverflow
  else .unmodelled

/-- Truncated remainder (sign of the dividend); always exactly representable. -/
def rem (a b : Dec) : Res Dec :=
  if b.isZero then .err .divideByZero else
  let (x, y, s) := align a b
  fit (Int.tmod x y) s

def neg' (a : Dec) : Dec := { a with neg := !a.neg }

/-- Order and equality are by value (cross-multiplication), never on (mantissa, scale) pairs. -/
def cmpKey (a b : Dec) : Int × Int := let (x, y, _) := align a b; (x, y)
def beq (a b : Dec) : Bool := let (x, y) := cmpKey a b; x == y
def lt (a b : Dec) : Bool := let (x, y) := cmpKey a b; decide (x < y)
def le (a b : Dec) : Bool := let (x, y) := cmpKey a b; decide (x ≤ y)

/-! ### Text forms -/

def digitChar (n : Nat) : Char := Char.ofNat (48 + n % 10)

/-- Decimal digits of `n`, most significant first (`fuel` ≥ number of digits; `n + 1` always suffices). -/
def digitsAux : Nat → Nat → List Char → List Char
  | 0, _, acc => acc
  | fuel + 1, n, acc => if n < 10 then digitChar n :: acc else digitsAux fuel (n / 10) (digitChar n :: acc)

def natDigits (n : Nat) : List Char := digitsAux (n + 1) n []

def padLeft (k : Nat) (cs : List Char) : List Char := List.replicate (k - cs.length) '0' ++ cs

/-- `Decimal::to_string`: sign, integer digits, and exactly `scale` fractional digits. -/
def toText (d : Dec) : Text :=
  let ds := padLeft (d.scale + 1) (natDigits d.mant)
  let ip := ds.take (ds.length - d.scale)
  let fp := ds.drop (ds.length - d.scale)
  (if d.neg then ['-'] else []) ++ ip ++ (if d.scale = 0 then [] else '.' :: fp)

def digitVal (c : Char) : Nat := c.toNat - 48

def natOfDigits (cs : List Char) : Nat := cs.foldl (fun acc c => acc * 10 + digitVal c) 0

/-- `Decimal::from_str` on the character run the tokenizer hands it: `digit+ ('.' digit*)?`.
Anything else (a second dot, an exponent marker, a sign) is rejected. More than 28 fractional
digits or a mantissa at or beyond 2^96 with fractional digits is the library's rounding zone. -/
def fracPart : Text → Option Text
  | [] => some []
  | c :: r' => if c = '.' then (if (span isAsciiDigit r').2.isEmpty then some (span isAsciiDigit r').1 else none) else none

def ofText (cs : Text) : Res Dec :=
  let (ip, r) := span isAsciiDigit cs
  if ip.isEmpty then .err .invalidNumber else
  match fracPart r with
  | none => .err .invalidNumber
  | some fp =>
    if mantLimit ≤ natOfDigits ip then .err .invalidNumber
    else if fp.length ≤ maxScale ∧ natOfDigits (ip ++ fp) < mantLimit then
      .ok ⟨false, natOfDigits (ip ++ fp), fp.length⟩
    else .unmodelled

/-- `str::parse::<i64>`: optional sign, then digits only; the value must fit 64-bit two's complement. -/
def splitSign : Text → Bool × Text
  | [] => (false, [])
  | c :: r => if c = '-' then (true, r) else if c = '+' then (false, r) else (false, c :: r)

def parseI64 (cs : Text) : Option Int :=
  let (sgn, ds) := splitSign cs
  if ds.isEmpty || !(ds.all isAsciiDigit) then none else
  let n : Int := natOfDigits ds
  let v := if sgn then -n else n
  if -9223372036854775808 ≤ v ∧ v ≤ 9223372036854775807 then some v else none

/-- `Value::integer` as the code does it: normalise, print, parse as `i64`. -/
def toI64 (d : Dec) : Option Int := parseI64 (toText (normalize d))

end Dec
end EE
