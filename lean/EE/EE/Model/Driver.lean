import EE.Model.Program
/-! Line-protocol driver: runs the model's executable definitions on the requests the harness
runs against the real crate, printing responses in the same canonical form. Not part of the
verified model (it may use `partial`); it only feeds inputs to and prints outputs of it. -/
namespace EE.Driver
open EE

/-! ### s-expressions, hex -/
inductive Sexp where
  | atom (s : String)
  | list (xs : List Sexp)
deriving Inhabited

partial def Sexp.toStr : Sexp → String
  | .atom s => s
  | .list xs => "(" ++ " ".intercalate (xs.map Sexp.toStr) ++ ")"

partial def parseSexpAux (cs : List Char) (stack : List (List Sexp)) : Option Sexp :=
  match cs with
  | [] => none
  | ' ' :: r => parseSexpAux r stack
  | '(' :: r => parseSexpAux r ([] :: stack)
  | ')' :: r =>
    match stack with
    | top :: rest =>
      let item := Sexp.list top.reverse
      match rest with
      | [] => if r.all (· == ' ') then some item else none
      | p :: rest' => parseSexpAux r ((item :: p) :: rest')
    | [] => none
  | _ =>
    let a := cs.takeWhile (fun c => c != ' ' && c != '(' && c != ')')
    let r := cs.dropWhile (fun c => c != ' ' && c != '(' && c != ')')
    let item := Sexp.atom (String.ofList a)
    match stack with
    | [] => if r.all (· == ' ') then some item else none
    | p :: rest => parseSexpAux r ((item :: p) :: rest)

def parseSexp (s : String) : Option Sexp := parseSexpAux s.toList []

def hexDigit (n : Nat) : Char := if n < 10 then Char.ofNat (48 + n) else Char.ofNat (87 + n)

def hexOfString (s : String) : String :=
  if s.isEmpty then "-" else
  String.ofList (s.toUTF8.toList.flatMap fun b => [hexDigit (b.toNat / 16), hexDigit (b.toNat % 16)])

def hexT (t : Text) : String := hexOfString (String.ofList t)

def hexVal (c : Char) : Option Nat :=
  if '0' ≤ c && c ≤ '9' then some (c.toNat - 48)
  else if 'a' ≤ c && c ≤ 'f' then some (c.toNat - 87)
  else none

partial def unhexBytes : List Char → Option (List UInt8)
  | [] => some []
  | a :: b :: r => do
    let h ← hexVal a; let l ← hexVal b; let rest ← unhexBytes r
    pure (UInt8.ofNat (h * 16 + l) :: rest)
  | _ => none

def unhex (s : String) : Option Text :=
  if s == "-" then some [] else do
    let bs ← unhexBytes s.toList
    let str ← String.fromUTF8? (ByteArray.mk bs.toArray)
    pure str.toList

/-! ### values and ASTs -/
def decSexp (tag : String) (d : Dec) : Sexp :=
  .list [.atom tag, .atom (if d.neg && d.mant != 0 then "1" else "0"), .atom (toString d.mant), .atom (toString d.scale)]

partial def valueSexp : Value → Sexp
  | .str s => .list [.atom "s", .atom (hexT s)]
  | .num d => decSexp "n" d
  | .bool b => .list [.atom "b", .atom (if b then "1" else "0")]
  | .list vs => .list (.atom "l" :: vs.map valueSexp)
  | .map kvs => .list (.atom "m" :: kvs.map fun (k, v) => .list [valueSexp k, valueSexp v])
  | .none => .list [.atom "none"]

def sexpDec (l : List Sexp) : Option Dec :=
  match l with
  | [_, .atom n, .atom m, .atom s] => do
    let m ← m.toNat?; let s ← s.toNat?
    pure ⟨n == "1", m, s⟩
  | _ => none

partial def sexpValue : Sexp → Option Value
  | .list (.atom "s" :: .atom h :: []) => (unhex h).map Value.str
  | Sexp.list l@(.atom "n" :: _) => (sexpDec l).map Value.num
  | .list [.atom "b", .atom b] => some (.bool (b == "1"))
  | .list (.atom "l" :: xs) => (xs.mapM sexpValue).map Value.list
  | .list (.atom "m" :: xs) =>
    (xs.mapM fun (kv : Sexp) => match kv with
      | Sexp.list [k, v] => do pure ((← sexpValue k), (← sexpValue v))
      | _ => none).map Value.map
  | .list [.atom "none"] => some .none
  | _ => none

partial def astSexp : AST → Sexp
  | .lit (.num d) => decSexp "num" d
  | .lit (.bool b) => .list [.atom "bool", .atom (if b then "1" else "0")]
  | .lit (.str s) => .list [.atom "str", .atom (hexT s)]
  | .unary op r => .list [.atom "un", .atom (hexT op), astSexp r]
  | .binary op l r => .list [.atom "bin", .atom (hexT op), astSexp l, astSexp r]
  | .postfix l op => .list [.atom "post", astSexp l, .atom (hexT op)]
  | .ternary c a b => .list [.atom "tern", astSexp c, astSexp a, astSexp b]
  | .ref n => .list [.atom "ref", .atom (hexT n)]
  | .call n args => .list (.atom "call" :: .atom (hexT n) :: args.map astSexp)
  | .list xs => .list (.atom "list" :: xs.map astSexp)
  | .map kvs => .list (.atom "map" :: kvs.map fun (k, v) => .list [astSexp k, astSexp v])
  | .stmt xs => .list (.atom "stmt" :: xs.map astSexp)
  | .none => .list [.atom "none"]

partial def sexpAst : Sexp → Option AST
  | Sexp.list l@(.atom "num" :: _) => (sexpDec l).map fun d => .lit (.num d)
  | .list [.atom "bool", .atom b] => some (.lit (.bool (b == "1")))
  | .list [.atom "str", .atom h] => (unhex h).map fun s => .lit (.str s)
  | .list [.atom "un", .atom h, r] => do pure (.unary (← unhex h) (← sexpAst r))
  | .list [.atom "bin", .atom h, l, r] => do pure (.binary (← unhex h) (← sexpAst l) (← sexpAst r))
  | .list [.atom "post", l, .atom h] => do pure (.postfix (← sexpAst l) (← unhex h))
  | .list [.atom "tern", c, a, b] => do pure (.ternary (← sexpAst c) (← sexpAst a) (← sexpAst b))
  | .list [.atom "ref", .atom h] => (unhex h).map AST.ref
  | .list (.atom "call" :: .atom h :: xs) => do pure (.call (← unhex h) (← xs.mapM sexpAst))
  | .list (.atom "list" :: xs) => (xs.mapM sexpAst).map AST.list
  | .list (.atom "stmt" :: xs) => (xs.mapM sexpAst).map AST.stmt
  | .list (.atom "map" :: xs) =>
    (xs.mapM fun (kv : Sexp) => match kv with
      | Sexp.list [k, v] => do pure ((← sexpAst k), (← sexpAst v))
      | _ => none).map AST.map
  | .list [.atom "none"] => some .none
  | _ => none

/-! ### handler scripts -/
inductive Script where
  | const (v : Value) | arg (i : Nat) | err | panic
  | log (tag : String) (s : Script)
  | bi (op : Name)
  | parse (t : Text) | exec (t : Text)
  | reg (kind : String) (name : Name) (prec : Int) (setter right : Bool) (s : Script)
  | lockctx
  | seq (a b : Script)
deriving Inhabited

partial def sexpScript : Sexp → Option Script
  | .list [.atom "const", v] => (sexpValue v).map Script.const
  | .list [.atom "arg", .atom i] => i.toNat?.map Script.arg
  | .list [.atom "err"] => some .err
  | .list [.atom "errnum"] => some .err
  | .list [.atom "panic"] => some .panic
  | .list [.atom "log", .atom tag, s] => (sexpScript s).map (Script.log tag)
  | .list [.atom "bi", .atom h] => (unhex h).map Script.bi
  | .list [.atom "parse", .atom h] => (unhex h).map Script.parse
  | .list [.atom "exec", .atom h] => (unhex h).map Script.exec
  | .list [.atom "reg", .atom k, .atom h, .atom p, .atom t, .atom a, s] => do
    pure (.reg k (← unhex h) (← p.toInt?) (t == "setter") (a == "right") (← sexpScript s))
  | .list [.atom "lockctx"] => some .lockctx
  | .list [.atom "seq", a, b] => do pure (.seq (← sexpScript a) (← sexpScript b))
  | _ => none

structure UState where
  /-- user handler id → (script, is a context function) -/
  scripts : Array (Script × Bool) := #[]
  ulog : Array String := #[]

abbrev W := World UState

def addScript (s : Script) (isCtx : Bool) : EngineM UState HandlerId := fun w =>
  (.ok (.user w.user.scripts.size), { w with user := { w.user with scripts := w.user.scripts.push (s, isCtx) } })

def doReg (kind : String) (name : Name) (prec : Int) (setter right : Bool) (s : Script) : EngineM UState Unit :=
  EngineM.bind' (addScript s false) fun h =>
  withRegs fun r =>
    match kind with
    | "fn" => ((), r.regFn name h)
    | "prefix" => ((), r.regPrefix name h)
    | "postfix" => ((), r.regPostfix name h)
    | _ => ((), r.regInfix name ⟨prec, setter, right, h⟩)

/-- Run `m` on a fresh context (its own mutex), then restore the caller's. -/
def withFreshCtx {α : Type} (ctx0 : CtxMap) (m : EngineM UState α) : EngineM UState α := fun w =>
  let (r, w') := m { w with ctx := ctx0, ctxHeld := false, ctxPoisoned := false }
  (r, { w' with ctx := w.ctx, ctxHeld := w.ctxHeld, ctxPoisoned := w.ctxPoisoned })

def distinctKeys (m : CtxMap) : Nat := (m.map (·.1)).eraseDups.length

/-- A script's meaning, given the meaning `self` of (re-entrant) handler invocation. -/
def runScript (self : Inv UState) (isCtx : Bool) : Script → List Value → EngineM UState Value
  | .const v, _ => EngineM.pure' v
  | .arg i, args => EngineM.pure' (args.getD i .none)
  | .err, _ => EngineM.fail .user
  | .panic, _ => EngineM.lift .panic
  | .log tag s, args => fun w =>
    let entry := (Sexp.list (.atom tag :: args.map valueSexp)).toStr
    runScript self isCtx s args { w with user := { w.user with ulog := w.user.ulog.push entry } }
  | .bi op, args =>
    withFreshCtx [(['p', '0'], .var (args.getD 0 .none)), (['p', '1'], .var (args.getD 1 .none))]
      (fun w => match exec self (.binary op (.ref ['p', '0']) (.ref ['p', '1'])) w with
        | (.err _, w') => (.err .user, w')
        | r => r)
  | .parse t, _ => EngineM.bind' readRegs fun r =>
    match parseProgram r t with
    | .ok _ => EngineM.pure' (.bool true)
    | .err _ => EngineM.pure' (.bool false)
    | .unmodelled => EngineM.lift .unmodelled
    | _ => EngineM.lift .panic
  | .exec t, _ => EngineM.bind' readRegs fun r =>
    match parseProgram r t with
    | .ok a => withFreshCtx [] (fun w => match exec self a w with
        | (.err _, w') => (.err .user, w')
        | r => r)
    | .err _ => EngineM.fail .user
    | .unmodelled => EngineM.lift .unmodelled
    | _ => EngineM.lift .panic
  | .reg k n p s r sc, _ => EngineM.bind' (doReg k n p s r sc) fun _ => EngineM.pure' .none
  | .lockctx, _ =>
    if isCtx then withCtx fun m => (Value.ofInt (distinctKeys m), m) else EngineM.pure' .none
  | .seq a b, args => EngineM.bind' (runScript self isCtx a args) fun _ => runScript self isCtx b args

/-- Handler invocation with re-entrancy depth bounded by `n` (deeper nesting reports `hang`). -/
def invN : Nat → Inv UState
  | 0 => fun _ _ => EngineM.lift .hang
  | n + 1 => stdInv fun id args w =>
    match w.user.scripts[id]? with
    | some (s, isCtx) => runScript (invN n) isCtx s args w
    | none => (.err .user, w)

def theInv : Inv UState := invN 1024

/-! ### rendering of responses -/
def resTag {α : Type} : Res α → String
  | .ok _ => "OK" | .err e => "ERR " ++ e.name | .panic => "PANIC" | .deadlock => "DEADLOCK"
  | .hang => "HANG" | .unmodelled => "UNMODELLED"

def outcomeStr : Res Value → String
  | .ok v => "OK " ++ (valueSexp v).toStr
  | r => resTag r

def tokStr (t : SpTok) : String :=
  let (k, payload) : Nat × String := match t.tok with
    | .op s => (0, hexT s)
    | .delim d => (1, hexT [d.toChar])
    | .num d => (2, s!"n{if d.neg then 1 else 0}.{d.mant}.{d.scale}")
    | .comma => (3, hexT [','])
    | .bool b => (4, hexT (if b then "true".toList else "false".toList))
    | .str s => (5, hexT s)
    | .ref s => (6, hexT s)
    | .func s => (7, hexT s)
    | .semi => (8, hexT [';'])
  s!"{k}:{payload}:{t.start}:{t.stop}"

partial def astNames : AST → List Name
  | .ref n => [n]
  | .unary _ r => astNames r
  | .binary _ l r => astNames l ++ astNames r
  | .postfix l _ => astNames l
  | .ternary c a b => astNames c ++ astNames a ++ astNames b
  | .call n args => n :: args.flatMap astNames
  | .list xs => xs.flatMap astNames
  | .stmt xs => xs.flatMap astNames
  | .map kvs => kvs.flatMap fun (k, v) => astNames k ++ astNames v
  | _ => []

def strLt (a b : String) : Bool := a < b

def dumpCtx (w : W) (names : List Name) : String :=
  if w.ctxPoisoned then "POISONED" else
  let hs := (names.map hexT).eraseDups.toArray.qsort strLt |>.toList
  let items := hs.filterMap fun h =>
    match unhex h with
    | none => none
    | some n => match alookup n w.ctx with
      | some (.var v) => some (Sexp.list [.atom h, .atom "v", valueSexp v])
      | some (.fn _) => some (Sexp.list [.atom h, .atom "f"])
      | none => none
  (Sexp.list items).toStr

structure CtxSlot where
  ctx : CtxMap
  poisoned : Bool
  names : List Name

structure DState where
  regs : Regs := Regs.builtin
  regPoisoned : Bool := false
  user : UState := {}
  ctxs : List (String × CtxSlot) := []
  dreg : DReg := []
  /-- descriptor id → (tag, is map kind) -/
  markers : Array (String × Bool) := #[]

def markerInv (markers : Array (String × Bool)) : DInv := fun id args =>
  match markers[id]? with
  | none => []
  | some (tag, isMap) =>
    let rec pairs : List Text → List Text
      | k :: v :: r => (k ++ ['=', '>'] ++ v) :: pairs r
      | _ => []
    let parts := if isMap then pairs args else args
    ("<" ++ tag ++ "|").toList ++ joinWith ['|'] parts ++ ['>']

def mkWorld (st : DState) (slot : CtxSlot) : W :=
  { regs := st.regs, ctx := slot.ctx, ctxPoisoned := slot.poisoned, regPoisoned := st.regPoisoned, user := st.user }

def putBack (st : DState) (id : String) (slot : CtxSlot) (w : W) (names : List Name) : DState :=
  { st with
    regs := w.regs, regPoisoned := w.regPoisoned,
    user := { w.user with ulog := #[] },
    ctxs := (id, { ctx := w.ctx, poisoned := w.ctxPoisoned, names := (slot.names ++ names).eraseDups }) ::
      st.ctxs.filter (·.1 != id) }

def takeLog (w : W) : String := "(" ++ " ".intercalate w.user.ulog.toList ++ ")"

def convInt (lo hi : Int) (lit : String) : String :=
  match lit.toInt? with
  | none => "BADREQ"
  | some n =>
    if n < lo ∨ n > hi then "BADREQ" else
    -- Decimal::from_i128(i128::MIN) negates the value: overflow panic with overflow checks on
    if n = -170141183460469231731687303715884105728 then "PANIC" else
    -- Decimal::from_{i,u}N(..).unwrap_or_default(): 0 when the magnitude does not fit 96 bits
    if n.natAbs < mantLimit then s!"OK\t{(valueSexp (Value.ofInt n)).toStr}\texact"
    else s!"OK\t{(valueSexp (Value.ofInt 0)).toStr}\tinexact"

def accStr (v : Value) : String :=
  let d := match v.decimal with | .ok d => "ok:" ++ (decSexp "n" d).toStr | _ => "err"
  let s := match v.string with | .ok s => "ok:" ++ hexT s | _ => "err"
  let b := match v.bool' with | .ok b => "ok:" ++ (if b then "1" else "0") | _ => "err"
  let i := match v.integer with | .ok i => "ok:" ++ toString i | _ => "err"
  let l := match v.list' with | .ok l => "ok:" ++ (valueSexp (.list l)).toStr | _ => "err"
  s!"{d}\t{s}\t{b}\t{i}\t{l}"

def handle (st : DState) (line : String) : DState × String :=
  let f := line.splitOn "\t"
  let fld (i : Nat) : String := f.getD i ""
  let text (i : Nat) : Option Text := unhex (fld i)
  match fld 0 with
  | "TOK" =>
    match text 1 with
    | none => (st, "BADREQ")
    | some t =>
      match tokenize st.regs t with
      | .ok toks => (st, "OK\tok\t" ++ " ".intercalate (toks.map tokStr))
      | r => (st, resTag r)
  | "PARSE" =>
    match text 1 with
    | none => (st, "BADREQ")
    | some t =>
      match parseProgram st.regs t with
      | .ok a => (st, "OK\t" ++ (astSexp a).toStr)
      | r => (st, resTag r)
  | "EXPR" =>
    match text 1 with
    | none => (st, "BADREQ")
    | some t =>
      match parseProgram st.regs t with
      | .ok a =>
        let e1 := expr st.regs a
        let (re, e2) := match parseProgram st.regs e1 with
          | .ok b => ((astSexp b).toStr, hexT (expr st.regs b))
          | _ => ("ERR", "-")
        (st, s!"OK\t{(astSexp a).toStr}\t{hexT e1}\t{re}\t{e2}")
      | r => (st, resTag r)
  | "EXPRAST" =>
    match (parseSexp (fld 1)).bind sexpAst with
    | none => (st, "BADREQ")
    | some a =>
      let e1 := expr st.regs a
      let re := match parseProgram st.regs e1 with
        | .ok b => (astSexp b).toStr
        | _ => "ERR"
      (st, s!"OK\t{hexT e1}\t{re}")
  | "DESCR" =>
    match text 1 with
    | none => (st, "BADREQ")
    | some t =>
      match parseProgram st.regs t with
      | .ok a => (st, "OK\t" ++ hexT (describe st.dreg (markerInv st.markers) a))
      | r => (st, resTag r)
  | "DESCRAST" =>
    match (parseSexp (fld 1)).bind sexpAst with
    | none => (st, "BADREQ")
    | some a => (st, "OK\t" ++ hexT (describe st.dreg (markerInv st.markers) a))
  | "DESC" =>
    let name := (text 2).getD []
    let tag := if f.length > 3 then fld 3 else fld 1
    let key? : Option DKey := match fld 1 with
      | "unary" => some (.unary name) | "binary" => some (.binary name) | "postfix" => some (.postfix name)
      | "ternary" => some .ternary | "function" => some (.function name) | "reference" => some (.reference name)
      | "list" => some .list | "map" => some .map | "chain" => some .chain
      | _ => none
    match key? with
    | none => (st, "BADREQ")
    | some k =>
      ({ st with dreg := st.dreg.set k st.markers.size, markers := st.markers.push (tag, fld 1 == "map") }, "OK")
  | "REG" =>
    match text 2, (fld 3).toInt?, (parseSexp (fld 6)).bind sexpScript with
    | some name, some prec, some sc =>
      -- (registries and script table are taken out of the state first, so that they are extended in place)
      let regs0 := st.regs
      let user0 := st.user
      let st := { st with regs := Regs.empty, user := {} }
      let w : W := { regs := regs0, ctx := [], regPoisoned := st.regPoisoned, user := user0 }
      let (_, w') := doReg (fld 1) name prec (fld 4 == "setter") (fld 5 == "right") sc w
      ({ st with regs := w'.regs.compact, user := w'.user }, "OK")
    | _, _, _ => (st, "BADREQ")
  | "CTX" =>
    match parseSexp (fld 2) with
    | some (.list bs) =>
      -- the script table is threaded through the fold and never referenced beside it, so that it is extended in
      -- place (a second live reference would make every `push` copy the whole table)
      let step (acc : CtxMap × UState × List Name × Bool) (b : Sexp) : CtxMap × UState × List Name × Bool :=
        match acc, b with
        | (m, u, ns, true), .list [.atom h, .atom "v", v] =>
          match unhex h, sexpValue v with
          | some n, some v => ((n, .var v) :: m, u, n :: ns, true)
          | _, _ => (m, u, ns, false)
        | (m, u, ns, true), .list [.atom h, .atom "f", s] =>
          match unhex h, sexpScript s with
          | some n, some s =>
            let id := u.scripts.size
            ((n, .fn (.user id)) :: m, { u with scripts := u.scripts.push (s, true) }, n :: ns, true)
          | _, _ => (m, u, ns, false)
        | (m, u, ns, _), _ => (m, u, ns, false)
      let user0 := st.user
      let st := { st with user := {} }
      match bs.foldl step ([], user0, [], true) with
      | (m, u, ns, true) =>
        ({ st with user := u, ctxs := (fld 1, { ctx := m, poisoned := false, names := ns }) :: st.ctxs.filter (·.1 != fld 1) }, "OK")
      | (_, u, _, false) => ({ st with user := u }, "BADREQ")
    | _ => (st, "BADREQ")
  | "EXEC" | "EXECAST" | "EXECW" =>
    match st.ctxs.lookup (fld 1) with
    | none => (st, "BADREQ")
    | some slot =>
      let ast? : Except String AST :=
        if fld 0 == "EXECAST" then
          match (parseSexp (fld 2)).bind sexpAst with
          | some a => .ok a
          | none => .error "BADREQ"
        else match text 2 with
          | none => .error "BADREQ"
          | some t => match parseProgram st.regs t with
            | .ok a => .ok a
            | .err e => .error ("PARSEERR " ++ e.name)
            | r => .error ("PARSE" ++ resTag r)
      match ast? with
      | .error e => (st, e)
      | .ok a =>
        let names := astNames a
        let (r, w) := exec theInv a (mkWorld st slot)
        let allNames := slot.names ++ names
        let out := s!"{(astSexp a).toStr}\t{outcomeStr r}\t{dumpCtx w allNames}\t{takeLog w}"
        (putBack st (fld 1) slot w names, out)
  | "GETVAR" =>
    match st.ctxs.lookup (fld 1), text 2 with
    | some slot, some n =>
      if slot.poisoned then (st, "PANIC") else
      match alookup n slot.ctx with
      | some (.var v) => (st, "OK " ++ (valueSexp v).toStr)
      | _ => (st, "NONE")
    | _, _ => (st, "BADREQ")
  | "CONV" =>
    let r := match fld 1 with
      | "i8" => convInt (-128) 127 (fld 2)
      | "i16" => convInt (-32768) 32767 (fld 2)
      | "i32" => convInt (-2147483648) 2147483647 (fld 2)
      | "i64" => convInt (-9223372036854775808) 9223372036854775807 (fld 2)
      | "u8" => convInt 0 255 (fld 2)
      | "u16" => convInt 0 65535 (fld 2)
      | "u32" => convInt 0 4294967295 (fld 2)
      | "u64" => convInt 0 18446744073709551615 (fld 2)
      | "i128" => convInt (-170141183460469231731687303715884105728) 170141183460469231731687303715884105727 (fld 2)
      | "u128" => convInt 0 340282366920938463463374607431768211455 (fld 2)
      | _ => "BADREQ"
    (st, r)
  | "ACC" =>
    match (parseSexp (fld 1)).bind sexpValue with
    | some v => (st, "OK\t" ++ accStr v)
    | none => (st, "BADREQ")
  | "DUMPREG" =>
    let inf := st.regs.inf.map fun (n, c) =>
      s!"{hexT n}:{c.prec}:{if c.setter then "setter" else "calc"}:{if c.right then "right" else "left"}"
    let names (l : List Name) := " ".intercalate ((l.map hexT).toArray.qsort strLt).toList
    (st, s!"OK\t{" ".intercalate (inf.toArray.qsort strLt).toList}\t{names (st.regs.pre.map (·.1))}\t{names (st.regs.post.map (·.1))}\t{names (st.regs.fns.map (·.1))}")
  | _ => (st, "BADREQ")

partial def loop (h : IO.FS.Stream) (out : IO.FS.Stream) (st : DState) : IO Unit := do
  let line ← h.getLine
  if line.isEmpty then return ()
  let line := if line.endsWith "\n" then (line.dropEnd 1).toString else line
  -- `ONW\t<request>`: the harness runs the request on a second thread; the model has no per-thread state
  let line := if line.startsWith "ONW\t" then (line.drop 4).toString else line
  let (st', resp) := handle st line
  out.putStrLn resp
  loop h out st'

end EE.Driver
