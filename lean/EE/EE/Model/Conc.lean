/-! # Concurrency model: once-cell initialisation and registry operations as atomic steps

Threads run sequences of public API calls. Every call first runs `init()`:
* the once-cell is `uninit` → the caller becomes the initialiser and registers the built-ins in
  four stages (prefix, infix, postfix operators, functions), then marks the cell `done`;
* the cell is `running` (another thread is initialising) → the caller **blocks**;
* `done` → the caller proceeds.
After `init()` the call performs its registry operations — reads (tokenizer, parser, evaluator
look a name up: one read per occurrence) or one insert (`register_*`) — each a single atomic step
("lock; one map operation; unlock": justified by the regenerated lock-site facts: nothing else
happens under a guard, and guards are never nested). The schedule (which thread steps next) is
arbitrary. -/
namespace EE.Conc



inductive Op where
  | read (k : Nat)
  | insert (k : Nat) (v : Nat)
deriving DecidableEq, Repr

inductive Pc where
  | start                                  -- about to begin the next call (its `init()`)
  | initializing (stage : Nat) (ops : List Op)   -- this thread is the initialiser, `stage` stages done
  | running (todo : List Op)               -- init() returned; performing the call's registry operations
deriving DecidableEq, Repr

structure Thread where
  pc : Pc
  calls : List (List Op)       -- remaining calls
  out : List (Option Nat)      -- results of the reads so far (most recent first)
deriving DecidableEq, Repr

inductive Once where
  | uninit | running (tid : Nat) | done
deriving DecidableEq, Repr

structure G where
  once : Once
  regs : List (Nat × Nat)      -- most recent insert first
  threads : List Thread
deriving DecidableEq, Repr

def lookup (k : Nat) : List (Nat × Nat) → Option Nat
  | [] => none
  | (k', v) :: r => if k' = k then some v else lookup k r

/-- Built-in stage `i` registers key `i` (value 0). Keys 0..3 are "the built-ins". -/
def stageEntries (i : Nat) : List (Nat × Nat) := [(i, 0)]
def nStages : Nat := 4

def setThread (g : G) (tid : Nat) (t : Thread) : G := { g with threads := g.threads.set tid t }

/-- One atomic step of thread `tid`; `none` = not enabled (blocked, finished, or no such thread). -/
def step (g : G) (tid : Nat) : Option G :=
  match g.threads[tid]? with
  | none => none
  | some t =>
    match t.pc with
    | .start =>
      match t.calls with
      | [] => none
      | c :: rest =>
        match g.once with
        | .uninit => some (setThread { g with once := .running tid } tid { t with pc := .initializing 0 c, calls := rest })
        | .running _ => none
        | .done => some (setThread g tid { t with pc := .running c, calls := rest })
    | .initializing k ops =>
      let g' := { g with regs := stageEntries k ++ g.regs }
      if k + 1 = nStages then some (setThread { g' with once := .done } tid { t with pc := .running ops })
      else some (setThread g' tid { t with pc := .initializing (k + 1) ops })
    | .running [] => some (setThread g tid { t with pc := .start })
    | .running (.read k :: todo) => some (setThread g tid { t with pc := .running todo, out := lookup k g.regs :: t.out })
    | .running (.insert k v :: todo) => some (setThread { g with regs := (k, v) :: g.regs } tid { t with pc := .running todo })

def init (programs : List (List (List Op))) : G :=
  { once := .uninit, regs := [], threads := programs.map fun calls => { pc := .start, calls := calls, out := [] } }

/-- Run a schedule (list of thread ids); steps of non-enabled threads are skipped. -/
def run (g : G) : List Nat → G
  | [] => g
  | tid :: rest => match step g tid with
    | some g' => run g' rest
    | none => run g rest

inductive Reachable (g0 : G) : G → Prop
  | refl : Reachable g0 g0
  | step {g g' tid} : Reachable g0 g → step g tid = some g' → Reachable g0 g'

def Thread.done (t : Thread) : Bool := t.pc = .start && t.calls = []

end EE.Conc
