import EE.Model.Builtins
import EE.Model.Ast
/-! The evaluation monad: the world an evaluation runs in (registries, the caller's context
with its mutex, the trace of handler invocations, opaque user state `σ` that only handlers
touch), and the lock primitives. A failed step keeps the world it failed in, so "the context
after a failed evaluation" is expressible. -/
namespace EE

inductive CtxVal where
  | var (v : Value)
  | fn (h : HandlerId)
deriving Repr, Inhabited

abbrev CtxMap := List (Name × CtxVal)

inductive Event where
  | call (h : HandlerId) (args : List Value)
deriving Repr, Inhabited

structure World (σ : Type) where
  regs : Regs
  ctx : CtxMap
  /-- the context mutex is currently held (by this thread: a second `lock()` deadlocks) -/
  ctxHeld : Bool := false
  ctxPoisoned : Bool := false
  /-- some registry mutex is currently held -/
  regHeld : Bool := false
  regPoisoned : Bool := false
  trace : List Event := []
  user : σ

abbrev EngineM (σ α : Type) := World σ → Res α × World σ

namespace EngineM
variable {σ α β : Type}

@[inline] def pure' (a : α) : EngineM σ α := fun w => (.ok a, w)
@[inline] def fail (e : ErrKind) : EngineM σ α := fun w => (.err e, w)
@[inline] def lift (r : Res α) : EngineM σ α := fun w => (r, w)

@[inline] def bind' (m : EngineM σ α) (f : α → EngineM σ β) : EngineM σ β := fun w =>
  match m w with
  | (.ok a, w') => f a w'
  | (.err e, w') => (.err e, w')
  | (.panic, w') => (.panic, w')
  | (.deadlock, w') => (.deadlock, w')
  | (.hang, w') => (.hang, w')
  | (.unmodelled, w') => (.unmodelled, w')

instance : Monad (EngineM σ) where
  pure := pure'
  bind := bind'

end EngineM

open EngineM

variable {σ : Type}

/-- `store.lock().unwrap()`, a pure map operation, guard dropped: one atomic step.
Locking a mutex this thread already holds deadlocks; a poisoned mutex panics. -/
def withCtx {α : Type} (f : CtxMap → α × CtxMap) : EngineM σ α := fun w =>
  if w.ctxHeld then (.deadlock, w)
  else if w.ctxPoisoned then (.panic, w)
  else let (a, m) := f w.ctx; (.ok a, { w with ctx := m })

/-- Run `m` *while holding* the context mutex (the shape of the defect that the fix to
`Context::value` removed). Unwinding through the guard poisons the mutex. The faithful model
never uses this; it exists so that "no handler runs under a lock" is a statement with content. -/
def holdingCtx {α : Type} (m : EngineM σ α) : EngineM σ α := fun w =>
  if w.ctxHeld then (.deadlock, w)
  else if w.ctxPoisoned then (.panic, w)
  else match m { w with ctxHeld := true } with
    | (.panic, w') => (.panic, { w' with ctxHeld := false, ctxPoisoned := true })
    | (r, w') => (r, { w' with ctxHeld := false })

def withRegs {α : Type} (f : Regs → α × Regs) : EngineM σ α := fun w =>
  if w.regHeld then (.deadlock, w)
  else if w.regPoisoned then (.panic, w)
  else let (a, r) := f w.regs; (.ok a, { w with regs := r })

def holdingRegs {α : Type} (m : EngineM σ α) : EngineM σ α := fun w =>
  if w.regHeld then (.deadlock, w)
  else if w.regPoisoned then (.panic, w)
  else match m { w with regHeld := true } with
    | (.panic, w') => (.panic, { w' with regHeld := false, regPoisoned := true })
    | (r, w') => (r, { w' with regHeld := false })

/-- `Context::get` -/
def ctxGet (n : Name) : EngineM σ (Option CtxVal) := withCtx fun m => (alookup n m, m)
/-- `Context::set` -/
def ctxSet (n : Name) (v : CtxVal) : EngineM σ Unit := withCtx fun m => ((), (n, v) :: m)
def readRegs : EngineM σ Regs := withRegs fun r => (r, r)

/-- Handler semantics: what invoking a handler does. Arbitrary (may re-enter the engine, fail, panic). -/
abbrev Inv (σ : Type) := HandlerId → List Value → EngineM σ Value

/-- Invoke a handler, recording the invocation in the trace. -/
def invoke (inv : Inv σ) (h : HandlerId) (args : List Value) : EngineM σ Value := fun w =>
  inv h args { w with trace := w.trace ++ [.call h args] }

end EE
