import EE.Model.Basic
/-! Text is `List Char` (a list of Unicode scalar values = a UTF-8 string); byte offsets are
computed with `Char.utf8Size`, exactly what Rust's `char_indices` / `len_utf8` report. -/
namespace EE

def utf8Len : Text → Nat
  | [] => 0
  | c :: cs => c.utf8Size + utf8Len cs

@[simp] theorem utf8Len_nil : utf8Len [] = 0 := rfl
@[simp] theorem utf8Len_cons (c : Char) (cs : Text) : utf8Len (c :: cs) = c.utf8Size + utf8Len cs := rfl
theorem utf8Len_append (a b : Text) : utf8Len (a ++ b) = utf8Len a + utf8Len b := by
  induction a with
  | nil => simp
  | cons c cs ih => simp [ih, Nat.add_assoc]

/-- `span p cs` = (longest prefix satisfying `p`, the rest). -/
def span (p : Char → Bool) : Text → Text × Text
  | [] => ([], [])
  | c :: cs => if p c then let (a, b) := span p cs; (c :: a, b) else ([], c :: cs)

theorem span_append (p : Char → Bool) (cs : Text) : (span p cs).1 ++ (span p cs).2 = cs := by
  induction cs with
  | nil => rfl
  | cons c cs ih =>
    unfold span
    split
    · simp [ih]
    · simp

theorem span_all (p : Char → Bool) (cs : Text) : ∀ c ∈ (span p cs).1, p c = true := by
  induction cs with
  | nil => intro c h; simp [span] at h
  | cons d ds ih =>
    intro c h
    unfold span at h
    split at h
    · rename_i hp
      simp at h
      rcases h with h | h
      · subst h; exact hp
      · exact ih c h
    · simp at h

theorem span_stop (p : Char → Bool) (cs : Text) : ∀ c r, (span p cs).2 = c :: r → p c = false := by
  induction cs with
  | nil => intro c r h; simp [span] at h
  | cons d ds ih =>
    intro c r h
    unfold span at h
    split at h
    · exact ih c r h
    · rename_i hp
      simp at h
      rw [← h.1]; simpa using hp

theorem span_length_le (p : Char → Bool) (cs : Text) : (span p cs).2.length ≤ cs.length := by
  have := congrArg List.length (span_append p cs)
  simp at this; omega

def isWs (c : Char) : Bool := c == ' ' || c == '\t' || c == '\r' || c == '\n'
def isDelimCh (c : Char) : Bool := c == '(' || c == ')' || c == '[' || c == ']' || c == '{' || c == '}'
def isAsciiDigit (c : Char) : Bool := '0' ≤ c && c ≤ '9'
def isParamCh (c : Char) : Bool :=
  ('0' ≤ c && c ≤ '9') || ('a' ≤ c && c ≤ 'z') || ('A' ≤ c && c ≤ 'Z') || c == '.' || c == '_'
/-- `is_digit_char`: characters that continue a number token. -/
def isDigitRunCh (c : Char) : Bool :=
  ('0' ≤ c && c ≤ '9') || c == '.' || c == '-' || c == 'e' || c == 'E' || c == '+'
/-- First characters dispatched to `special_op_token`. -/
def isSpecialStart (c : Char) : Bool :=
  c == '+' || c == '-' || c == '*' || c == '/' || c == '^' || c == '%' || c == '&' || c == '!' ||
  c == '=' || c == '?' || c == ':' || c == '>' || c == '<' || c == '|'
def isQuote (c : Char) : Bool := c == '"' || c == '\''

end EE
