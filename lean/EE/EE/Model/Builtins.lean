import EE.Model.Registry
/-! The built-in handlers (operator.rs `init`, function.rs `init`), keyed by name, as the
code computes them: typed accessors first (left operand first), then the checked operation. -/
namespace EE

/-- `checked_decimal_op` -/
def decOp (op : Name) (a b : Dec) : Res Dec :=
  if op = ['+'] then Dec.add a b
  else if op = ['-'] then Dec.sub a b
  else if op = ['*'] then Dec.mul a b
  else if op = ['/'] then Dec.div a b
  else if op = ['%'] then Dec.rem a b
  else .err .notSupportedOp

def i64min : Int := -9223372036854775808
def i64max : Int := 9223372036854775807
def inI64 (n : Int) : Prop := i64min ≤ n ∧ n ≤ i64max

def bv (n : Int) : BitVec 64 := BitVec.ofInt 64 n

/-- `checked_integer_op`: 64-bit two's complement; a shift count outside 0..=63 is an error. -/
def intOp (op : Name) (a b : Int) : Res Int :=
  if op = ['|'] then .ok (bv a ||| bv b).toInt
  else if op = ['^'] then .ok (bv a ^^^ bv b).toInt
  else if op = ['&'] then .ok (bv a &&& bv b).toInt
  else if op = ['<', '<'] then
    if 0 ≤ b ∧ b ≤ 63 then .ok (bv a <<< b.toNat).toInt else .err .invalidShiftCount
  else if op = ['>', '>'] then
    if 0 ≤ b ∧ b ≤ 63 then .ok ((bv a).sshiftRight b.toNat).toInt else .err .invalidShiftCount
  else .err .notSupportedOp

def decNames : List Name := [['+'], ['-'], ['*'], ['/'], ['%']]
def intNames : List Name := [['|'], ['^'], ['&'], ['<', '<'], ['>', '>']]
def cmpNames : List Name := [['<'], ['<', '='], ['>'], ['>', '=']]

def decBin (op : Name) (l r : Value) : Res Value :=
  l.decimal.bind fun a => r.decimal.bind fun b => (decOp op a b).bind fun d => .ok (.num d)
def intBin (op : Name) (l r : Value) : Res Value :=
  l.integer.bind fun a => r.integer.bind fun b => (intOp op a b).bind fun n => .ok (Value.ofInt n)

def cmpOp (op : Name) (a b : Dec) : Bool :=
  if op = ['<'] then Dec.lt a b
  else if op = ['<', '='] then Dec.le a b
  else if op = ['>'] then Dec.lt b a
  else Dec.le b a

/-- Built-in infix handlers. -/
def builtinInfix (op : Name) (l r : Value) : Res Value :=
  if op = ['='] then .ok r
  else if op.getLast? = some '=' ∧ decNames.contains op.dropLast then decBin op.dropLast l r
  else if op.getLast? = some '=' ∧ intNames.contains op.dropLast then intBin op.dropLast l r
  else if op = ['|', '|'] then l.bool'.bind fun a => r.bool'.bind fun b => .ok (.bool (a || b))
  else if op = ['&', '&'] then l.bool'.bind fun a => r.bool'.bind fun b => .ok (.bool (a && b))
  else if cmpNames.contains op then
    l.decimal.bind fun a => r.decimal.bind fun b => .ok (.bool (cmpOp op a b))
  else if op = ['=', '='] then .ok (.bool (Value.beq l r))
  else if op = ['!', '='] then .ok (.bool (!Value.beq l r))
  else if intNames.contains op then intBin op l r
  else if decNames.contains op then decBin op l r
  else if op = ['b', 'e', 'g', 'i', 'n', 'W', 'i', 't', 'h'] then
    l.string.bind fun a => r.string.bind fun b => .ok (.bool (b.isPrefixOf a))
  else if op = ['e', 'n', 'd', 'W', 'i', 't', 'h'] then
    l.string.bind fun a => r.string.bind fun b => .ok (.bool (b.isSuffixOf a))
  else if op = ['i', 'n'] then
    r.list'.bind fun items => .ok (.bool (items.any fun it => Value.beq it l))
  else .err .infixOpNotRegistered

/-- `AND`: false at the first false element; an element that is not a boolean is an error when reached. -/
def allBool : List Value → Res Bool
  | [] => .ok true
  | v :: vs => v.bool'.bind fun b => if b then allBool vs else .ok false
def anyBool : List Value → Res Bool
  | [] => .ok false
  | v :: vs => v.bool'.bind fun b => if b then .ok true else anyBool vs

def builtinPrefix (op : Name) (v : Value) : Res Value :=
  if op = ['-'] then (match v with | .num d => .ok (.num d.neg') | _ => .err .shouldBeNumber)
  else if op = ['+'] then (match v with | .num d => .ok (.num d) | _ => .err .shouldBeNumber)
  else if op = ['!'] ∨ op = ['n', 'o', 't'] then (match v with | .bool b => .ok (.bool (!b)) | _ => .err .shouldBeBool)
  else if op = ['A', 'N', 'D'] then v.list'.bind fun l => (allBool l).bind fun b => .ok (.bool b)
  else if op = ['O', 'R'] then v.list'.bind fun l => (anyBool l).bind fun b => .ok (.bool b)
  else .err .prefixOpNotRegistered

def builtinPostfix (op : Name) (v : Value) : Res Value :=
  if op = ['+', '+'] then (match v with | .num d => (Dec.add d Dec.one).bind fun x => .ok (.num x) | _ => .err .shouldBeNumber)
  else if op = ['-', '-'] then (match v with | .num d => (Dec.sub d Dec.one).bind fun x => .ok (.num x) | _ => .err .shouldBeNumber)
  else .err .prefixOpNotRegistered

def minLoop : Option Dec → List Value → Res (Option Dec)
  | m, [] => .ok m
  | m, v :: vs => v.decimal.bind fun d =>
    match m with
    | none => minLoop (some d) vs
    | some x => if Dec.lt d x then minLoop (some d) vs else minLoop (some x) vs
def maxLoop : Option Dec → List Value → Res (Option Dec)
  | m, [] => .ok m
  | m, v :: vs => v.decimal.bind fun d =>
    match m with
    | none => maxLoop (some d) vs
    | some x => if Dec.lt x d then maxLoop (some d) vs else maxLoop (some x) vs
def foldDec (op : Name) : Dec → List Value → Res Dec
  | acc, [] => .ok acc
  | acc, v :: vs => v.decimal.bind fun d => (decOp op acc d).bind fun acc' => foldDec op acc' vs

def builtinFn (name : Name) (args : List Value) : Res Value :=
  if name = ['m', 'i', 'n'] then (minLoop none args).bind fun m =>
    (match m with | some d => .ok (.num d) | none => .err .paramInvalid)
  else if name = ['m', 'a', 'x'] then (maxLoop none args).bind fun m =>
    (match m with | some d => .ok (.num d) | none => .err .paramInvalid)
  else if name = ['s', 'u', 'm'] then (foldDec ['+'] Dec.zero args).bind fun d => .ok (.num d)
  else if name = ['m', 'u', 'l'] then (foldDec ['*'] Dec.one args).bind fun d => .ok (.num d)
  else .err .innerFunctionNotRegistered

end EE
