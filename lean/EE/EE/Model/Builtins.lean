import EE.Model.Registry
/-! The built-in handlers (operator.rs `init`, function.rs `init`), keyed by name, as the
code computes them: typed accessors first (left operand first), then the checked operation. -/
namespace EE

inductive DecOpClass | add | sub | mul | div | rem | unknown
deriving DecidableEq, Repr
def decOpClass (op : Name) : DecOpClass :=
  if op = ['+'] then .add else if op = ['-'] then .sub else if op = ['*'] then .mul
  else if op = ['/'] then .div else if op = ['%'] then .rem else .unknown

/-- `checked_decimal_op` -/
def decOp (op : Name) (a b : Dec) : Res Dec :=
  match decOpClass op with
  | .add => Dec.add a b
  | .sub => Dec.sub a b
  | .mul => Dec.mul a b
  | .div => Dec.div a b
  | .rem => Dec.rem a b
  | .unknown => .err .notSupportedOp

def i64min : Int := -9223372036854775808
def i64max : Int := 9223372036854775807
def inI64 (n : Int) : Prop := i64min ≤ n ∧ n ≤ i64max

def bv (n : Int) : BitVec 64 := BitVec.ofInt 64 n

inductive IntOpClass | or | xor | and | shl | shr | unknown
deriving DecidableEq, Repr
def intOpClass (op : Name) : IntOpClass :=
  if op = ['|'] then .or else if op = ['^'] then .xor else if op = ['&'] then .and
  else if op = ['<', '<'] then .shl else if op = ['>', '>'] then .shr else .unknown

/-- `checked_integer_op`: 64-bit two's complement; a shift count outside 0..=63 is an error. -/
def intOp (op : Name) (a b : Int) : Res Int :=
  match intOpClass op with
  | .or => .ok (bv a ||| bv b).toInt
  | .xor => .ok (bv a ^^^ bv b).toInt
  | .and => .ok (bv a &&& bv b).toInt
  | .shl => if 0 ≤ b ∧ b ≤ 63 then .ok (bv a <<< b.toNat).toInt else .err .invalidShiftCount
  | .shr => if 0 ≤ b ∧ b ≤ 63 then .ok ((bv a).sshiftRight b.toNat).toInt else .err .invalidShiftCount
  | .unknown => .err .notSupportedOp

def decNames : List Name := [['+'], ['-'], ['*'], ['/'], ['%']]
def intNames : List Name := [['|'], ['^'], ['&'], ['<', '<'], ['>', '>']]
def cmpNames : List Name := [['<'], ['<', '='], ['>'], ['>', '=']]

def decBin (op : Name) (l r : Value) : Res Value :=
  l.decimal.bind fun a => r.decimal.bind fun b => (decOp op a b).bind fun d => .ok (.num d)
def intBin (op : Name) (l r : Value) : Res Value :=
  l.integer.bind fun a => r.integer.bind fun b => (intOp op a b).bind fun n => .ok (Value.ofInt n)

def cmpOp (op : Name) (a b : Dec) : Bool :=
  if op = ['<'] then Dec.lt a b
  else if op = ['<', '='] then Dec.le a b
  else if op = ['>'] then Dec.lt b a
  else Dec.le b a

/-- What kind of built-in an infix operator name denotes (the groups of `InfixOpManager::init`). -/
inductive InfixClass where
  | assign | decAssign (base : Name) | intAssign (base : Name) | or | and | cmp | eq | ne
  | int | dec | beginWith | endWith | isIn | unknown
deriving DecidableEq, Repr

def infixClass (op : Name) : InfixClass :=
  if op = ['='] then .assign
  else if op.getLast? = some '=' ∧ decNames.contains op.dropLast then .decAssign op.dropLast
  else if op.getLast? = some '=' ∧ intNames.contains op.dropLast then .intAssign op.dropLast
  else if op = ['|', '|'] then .or
  else if op = ['&', '&'] then .and
  else if cmpNames.contains op then .cmp
  else if op = ['=', '='] then .eq
  else if op = ['!', '='] then .ne
  else if intNames.contains op then .int
  else if decNames.contains op then .dec
  else if op = ['b', 'e', 'g', 'i', 'n', 'W', 'i', 't', 'h'] then .beginWith
  else if op = ['e', 'n', 'd', 'W', 'i', 't', 'h'] then .endWith
  else if op = ['i', 'n'] then .isIn
  else .unknown

/-- Built-in infix handlers. -/
def builtinInfix (op : Name) (l r : Value) : Res Value :=
  match infixClass op with
  | .assign => .ok r
  | .decAssign base => decBin base l r
  | .intAssign base => intBin base l r
  | .or => l.bool'.bind fun a => r.bool'.bind fun b => .ok (.bool (a || b))
  | .and => l.bool'.bind fun a => r.bool'.bind fun b => .ok (.bool (a && b))
  | .cmp => l.decimal.bind fun a => r.decimal.bind fun b => .ok (.bool (cmpOp op a b))
  | .eq => .ok (.bool (Value.beq l r))
  | .ne => .ok (.bool (!Value.beq l r))
  | .int => intBin op l r
  | .dec => decBin op l r
  | .beginWith => l.string.bind fun a => r.string.bind fun b => .ok (.bool (b.isPrefixOf a))
  | .endWith => l.string.bind fun a => r.string.bind fun b => .ok (.bool (b.isSuffixOf a))
  | .isIn => r.list'.bind fun items => .ok (.bool (items.any fun it => Value.beq it l))
  | .unknown => .err .infixOpNotRegistered

/-- `AND`: false at the first false element; an element that is not a boolean is an error when reached. -/
def allBool : List Value → Res Bool
  | [] => .ok true
  | v :: vs => v.bool'.bind fun b => if b then allBool vs else .ok false
def anyBool : List Value → Res Bool
  | [] => .ok false
  | v :: vs => v.bool'.bind fun b => if b then .ok true else anyBool vs

inductive PrefixClass | neg | pos | not | all | any | unknown
deriving DecidableEq, Repr

def prefixClass (op : Name) : PrefixClass :=
  if op = ['-'] then .neg
  else if op = ['+'] then .pos
  else if op = ['!'] ∨ op = ['n', 'o', 't'] then .not
  else if op = ['A', 'N', 'D'] then .all
  else if op = ['O', 'R'] then .any
  else .unknown

def builtinPrefix (op : Name) (v : Value) : Res Value :=
  match prefixClass op with
  | .neg => (match v with | .num d => .ok (.num d.neg') | _ => .err .shouldBeNumber)
  | .pos => (match v with | .num d => .ok (.num d) | _ => .err .shouldBeNumber)
  | .not => (match v with | .bool b => .ok (.bool (!b)) | _ => .err .shouldBeBool)
  | .all => v.list'.bind fun l => (allBool l).bind fun b => .ok (.bool b)
  | .any => v.list'.bind fun l => (anyBool l).bind fun b => .ok (.bool b)
  | .unknown => .err .prefixOpNotRegistered

inductive PostfixClass | inc | dec | unknown
deriving DecidableEq, Repr

def postfixClass (op : Name) : PostfixClass :=
  if op = ['+', '+'] then .inc else if op = ['-', '-'] then .dec else .unknown

def builtinPostfix (op : Name) (v : Value) : Res Value :=
  match postfixClass op with
  | .inc => (match v with | .num d => (Dec.add d Dec.one).bind fun x => .ok (.num x) | _ => .err .shouldBeNumber)
  | .dec => (match v with | .num d => (Dec.sub d Dec.one).bind fun x => .ok (.num x) | _ => .err .shouldBeNumber)
  | .unknown => .err .prefixOpNotRegistered

def minLoop : Option Dec → List Value → Res (Option Dec)
  | m, [] => .ok m
  | m, v :: vs => v.decimal.bind fun d =>
    match m with
    | none => minLoop (some d) vs
    | some x => if Dec.lt d x then minLoop (some d) vs else minLoop (some x) vs
def maxLoop : Option Dec → List Value → Res (Option Dec)
  | m, [] => .ok m
  | m, v :: vs => v.decimal.bind fun d =>
    match m with
    | none => maxLoop (some d) vs
    | some x => if Dec.lt x d then maxLoop (some d) vs else maxLoop (some x) vs
def foldDec (op : Name) : Dec → List Value → Res Dec
  | acc, [] => .ok acc
  | acc, v :: vs => v.decimal.bind fun d => (decOp op acc d).bind fun acc' => foldDec op acc' vs

inductive FnClass | min | max | sum | mul | unknown
deriving DecidableEq, Repr

def fnClass (name : Name) : FnClass :=
  if name = ['m', 'i', 'n'] then .min else if name = ['m', 'a', 'x'] then .max
  else if name = ['s', 'u', 'm'] then .sum else if name = ['m', 'u', 'l'] then .mul else .unknown

def builtinFn (name : Name) (args : List Value) : Res Value :=
  match fnClass name with
  | .min => (minLoop none args).bind fun m => (match m with | some d => .ok (.num d) | none => .err .paramInvalid)
  | .max => (maxLoop none args).bind fun m => (match m with | some d => .ok (.num d) | none => .err .paramInvalid)
  | .sum => (foldDec ['+'] Dec.zero args).bind fun d => .ok (.num d)
  | .mul => (foldDec ['*'] Dec.one args).bind fun d => .ok (.num d)
  | .unknown => .err .innerFunctionNotRegistered

end EE
