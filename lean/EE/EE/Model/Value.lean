import EE.Model.Dec
/-! `Value` and its accessors (value.rs). Equality is the derived `PartialEq`: structural, with
numbers compared by numeric value (that is how `Decimal` implements `PartialEq`). -/
namespace EE

inductive Value where
  | str (s : Text)
  | num (d : Dec)
  | bool (b : Bool)
  | list (vs : List Value)
  | map (kvs : List (Value × Value))
  | none
deriving Repr, Inhabited

namespace Value

mutual
def beq : Value → Value → Bool
  | .str a, .str b => a == b
  | .num a, .num b => Dec.beq a b
  | .bool a, .bool b => a == b
  | .list a, .list b => beqList a b
  | .map a, .map b => beqMap a b
  | .none, .none => true
  | _, _ => false
def beqList : List Value → List Value → Bool
  | [], [] => true
  | a :: as, b :: bs => beq a b && beqList as bs
  | _, _ => false
def beqMap : List (Value × Value) → List (Value × Value) → Bool
  | [], [] => true
  | (a1, a2) :: as, (b1, b2) :: bs => beq a1 b1 && beq a2 b2 && beqMap as bs
  | _, _ => false
end

/-! Typed accessors: each accepts exactly one variant. -/
def decimal : Value → Res Dec
  | .num d => .ok d
  | _ => .err .shouldBeNumber
def string : Value → Res Text
  | .str s => .ok s
  | _ => .err .shouldBeString
def bool' : Value → Res Bool
  | .bool b => .ok b
  | _ => .err .shouldBeBool
def list' : Value → Res (List Value)
  | .list l => .ok l
  | _ => .err .shouldBeList
/-- `Value::integer`: normalise, print, parse as `i64`. -/
def integer : Value → Res Int
  | .num d => match Dec.toI64 d with
    | some n => .ok n
    | Option.none => .err .invalidInteger
  | _ => .err .invalidInteger

def ofInt (n : Int) : Value := .num (Dec.ofInt n)
def ofBool (b : Bool) : Value := .bool b

end Value
end EE
