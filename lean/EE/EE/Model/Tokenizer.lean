import EE.Model.Token
/-! The tokenizer (tokenizer.rs), function by function. The Rust tokenizer is lazy (the parser
pulls one token at a time); the registries do not change during a parse, so producing the whole
token list first yields the same tokens. The model does that: `tokenize regs input` is the list of
tokens the parser would pull, or the first tokenizer error. (Modelling difference, recorded in
DESIGN §8: when the parser fails *before* reaching a later lexical error, Rust reports the parser's
error and the model the lexical one — both are `Err`.) -/
namespace EE

/-- `special_op_token`: having consumed `cur` (reversed) extend greedily while `cur ++ [next]`
is a registered operator. Returns (operator text, rest). -/
def extendOp (isOp : Text → Bool) : Text → Text → Text × Text
  | cur, [] => (cur, [])
  | cur, c :: cs => if isOp (cur ++ [c]) then extendOp isOp (cur ++ [c]) cs else (cur, c :: cs)

/-- The number scan of `number_token`: `prev` is the last consumed character (`cur_char`). -/
def scanNumber : Char → Text → Text × Text
  | _, [] => ([], [])
  | prev, c :: cs =>
    if (c == '+' || c == '-') && (prev != 'e' && prev != 'E') then ([], c :: cs)
    else if isDigitRunCh c then let (a, b) := scanNumber c cs; (c :: a, b)
    else ([], c :: cs)

/-- Characters up to (not including) the matching quote; `none` if the string is unterminated. -/
def scanString (q : Char) : Text → Option (Text × Text)
  | [] => none
  | c :: cs => if c == q then some ([], cs) else
    match scanString q cs with
    | some (a, b) => some (c :: a, b)
    | none => none

def notWsDelim (c : Char) : Bool := !(isWs c || isDelimCh c)

/-- `function_or_reference_token` after the fix: is the next non-whitespace character `(`? -/
def nextIsOpenParen (cs : Text) : Bool :=
  match (span isWs cs).2 with
  | '(' :: _ => true
  | _ => false

/-- `number_token` -/
def lexNumber (c : Char) (cs : Text) (start : Nat) : Res (SpTok × Text) :=
  match Dec.ofText (c :: (scanNumber c cs).1) with
  | .ok d => .ok (⟨.num d, start, start + utf8Len (c :: (scanNumber c cs).1)⟩, (scanNumber c cs).2)
  | .err e => .err e
  | .unmodelled => .unmodelled
  | _ => .err .invalidNumber

/-- `string_token` -/
def lexString (q : Char) (cs : Text) (start : Nat) : Res (SpTok × Text) :=
  match scanString q cs with
  | none => .err .unterminatedString
  | some (payload, rest) => .ok (⟨.str payload, start, start + (utf8Len payload + 2)⟩, rest)

/-- The identifier branch of `other_token`: boolean keyword, function name, or reference. -/
def classifyAtom (atom rest : Text) : Tok :=
  if atom == ['T', 'r', 'u', 'e'] || atom == ['t', 'r', 'u', 'e'] then .bool true
  else if atom == ['F', 'a', 'l', 's', 'e'] || atom == ['f', 'a', 'l', 's', 'e'] then .bool false
  else if nextIsOpenParen rest then .func atom
  else .ref atom

/-- `other_token`: a word operator if the maximal run up to whitespace / a delimiter is a registered
operator; otherwise an identifier (first character plus `[0-9A-Za-z._]*`). -/
def lexOther (regs : Regs) (c : Char) (cs : Text) (start : Nat) : SpTok × Text :=
  if regs.isOp (c :: (span notWsDelim cs).1) then
    (⟨.op (c :: (span notWsDelim cs).1), start, start + utf8Len (c :: (span notWsDelim cs).1)⟩, (span notWsDelim cs).2)
  else
    (⟨classifyAtom (c :: (span isParamCh cs).1) (span isParamCh cs).2, start, start + utf8Len (c :: (span isParamCh cs).1)⟩,
      (span isParamCh cs).2)

/-- One call of `Tokenizer::next` on the remaining characters `c :: cs` at byte offset `start`
(whitespace already skipped). Returns the token and the remaining characters. -/
def lexOne (regs : Regs) (c : Char) (cs : Text) (start : Nat) : Res (SpTok × Text) :=
  if isSpecialStart c then
    .ok (⟨.op (extendOp regs.isOp [c] cs).1, start, start + utf8Len (extendOp regs.isOp [c] cs).1⟩, (extendOp regs.isOp [c] cs).2)
  else match Delim.ofChar? c with
  | some d => .ok (⟨.delim d, start, start + 1⟩, cs)
  | none =>
    if isAsciiDigit c then lexNumber c cs start
    else if isQuote c then lexString c cs start
    else if c == ';' then .ok (⟨.semi, start, start + 1⟩, cs)
    else if c == ',' then .ok (⟨.comma, start, start + 1⟩, cs)
    else .ok (lexOther regs c cs start)

/-- Repeated `next()` until `EOF`. `fuel` bounds the number of tokens; `cs.length + 1` suffices
(every token consumes at least one character — theorem `tokenize_total`). -/
def lexAll (regs : Regs) : Nat → Text → Nat → Res (List SpTok)
  | 0, _, _ => .hang
  | fuel + 1, cs, pos =>
    match (span isWs cs).2 with
    | [] => .ok []
    | c :: cs' =>
      (lexOne regs c cs' (pos + utf8Len (span isWs cs).1)).bind fun p =>
      (lexAll regs fuel p.2 p.1.stop).bind fun ts => .ok (p.1 :: ts)

theorem lexAll_zero (regs : Regs) (cs : Text) (pos : Nat) : lexAll regs 0 cs pos = .hang := rfl
theorem lexAll_succ (regs : Regs) (fuel : Nat) (cs : Text) (pos : Nat) :
    lexAll regs (fuel + 1) cs pos =
      match (span isWs cs).2 with
      | [] => .ok []
      | c :: cs' =>
        (lexOne regs c cs' (pos + utf8Len (span isWs cs).1)).bind fun p =>
        (lexAll regs fuel p.2 p.1.stop).bind fun ts => .ok (p.1 :: ts) := rfl

def tokenize (regs : Regs) (input : Text) : Res (List SpTok) :=
  lexAll regs (input.length + 1) input 0

end EE
