import EE.Model.Token
/-! The tokenizer (tokenizer.rs), function by function. The Rust tokenizer is lazy (the parser
pulls one token at a time); the registries do not change during a parse, so producing the whole
token list first yields the same tokens. The model does that: `tokenize regs input` is the list of
tokens the parser would pull, or the first tokenizer error. (Modelling difference, recorded in
DESIGN §8: when the parser fails *before* reaching a later lexical error, Rust reports the parser's
error and the model the lexical one — both are `Err`.) -/
namespace EE

/-- `special_op_token`: having consumed `cur` (reversed) extend greedily while `cur ++ [next]`
is a registered operator. Returns (operator text, rest). -/
def extendOp (isOp : Text → Bool) : Text → Text → Text × Text
  | cur, [] => (cur, [])
  | cur, c :: cs => if isOp (cur ++ [c]) then extendOp isOp (cur ++ [c]) cs else (cur, c :: cs)

/-- The number scan of `number_token`: `prev` is the last consumed character (`cur_char`). -/
def scanNumber : Char → Text → Text × Text
  | _, [] => ([], [])
  | prev, c :: cs =>
    if (c == '+' || c == '-') && (prev != 'e' && prev != 'E') then ([], c :: cs)
    else if isDigitRunCh c then let (a, b) := scanNumber c cs; (c :: a, b)
    else ([], c :: cs)

/-- Characters up to (not including) the matching quote; `none` if the string is unterminated. -/
def scanString (q : Char) : Text → Option (Text × Text)
  | [] => none
  | c :: cs => if c == q then some ([], cs) else
    match scanString q cs with
    | some (a, b) => some (c :: a, b)
    | none => none

def notWsDelim (c : Char) : Bool := !(isWs c || isDelimCh c)

/-- `function_or_reference_token` after the fix: is the next non-whitespace character `(`? -/
def nextIsOpenParen (cs : Text) : Bool :=
  match (span isWs cs).2 with
  | '(' :: _ => true
  | _ => false

/-- One call of `Tokenizer::next` on the remaining characters `cs` at byte offset `pos`
(whitespace already skipped, `cs` non-empty handled by the caller). Returns the token and the
remaining characters. -/
def lexOne (regs : Regs) (c : Char) (cs : Text) (start : Nat) : Res (SpTok × Text) :=
  if isSpecialStart c then
    let (o, rest) := extendOp regs.isOp [c] cs
    .ok (⟨.op o, start, start + utf8Len o⟩, rest)
  else match Delim.ofChar? c with
  | some d => .ok (⟨.delim d, start, start + 1⟩, cs)
  | none =>
    if isAsciiDigit c then
      let (run, rest) := scanNumber c cs
      match Dec.ofText (c :: run) with
      | .ok d => .ok (⟨.num d, start, start + utf8Len (c :: run)⟩, rest)
      | .err e => .err e
      | .unmodelled => .unmodelled
      | _ => .err .invalidNumber
    else if isQuote c then
      match scanString c cs with
      | none => .err .unterminatedString
      | some (payload, rest) => .ok (⟨.str payload, start, start + (utf8Len payload + 2)⟩, rest)
    else if c == ';' then .ok (⟨.semi, start, start + 1⟩, cs)
    else if c == ',' then .ok (⟨.comma, start, start + 1⟩, cs)
    else
      -- other_token
      let (word, rest) := span notWsDelim cs
      if regs.isOp (c :: word) then
        .ok (⟨.op (c :: word), start, start + utf8Len (c :: word)⟩, rest)
      else
        let (tail, rest) := span isParamCh cs
        let atom := c :: tail
        let stop := start + utf8Len atom
        if atom == ['T', 'r', 'u', 'e'] || atom == ['t', 'r', 'u', 'e'] then .ok (⟨.bool true, start, stop⟩, rest)
        else if atom == ['F', 'a', 'l', 's', 'e'] || atom == ['f', 'a', 'l', 's', 'e'] then .ok (⟨.bool false, start, stop⟩, rest)
        else if nextIsOpenParen rest then .ok (⟨.func atom, start, stop⟩, rest)
        else .ok (⟨.ref atom, start, stop⟩, rest)

/-- Repeated `next()` until `EOF`. `fuel` bounds the number of tokens; `cs.length + 1` suffices
(every token consumes at least one character — theorem `tokenize_total`). -/
def lexAll (regs : Regs) : Nat → Text → Nat → Res (List SpTok)
  | 0, _, _ => .hang
  | fuel + 1, cs, pos =>
    let (ws, rest) := span isWs cs
    match rest with
    | [] => .ok []
    | c :: cs' =>
      let start := pos + utf8Len ws
      match lexOne regs c cs' start with
      | .ok (t, rest') =>
        match lexAll regs fuel rest' t.stop with
        | .ok ts => .ok (t :: ts)
        | .err e => .err e
        | .panic => .panic
        | .deadlock => .deadlock
        | .hang => .hang
        | .unmodelled => .unmodelled
      | .err e => .err e
      | .panic => .panic
      | .deadlock => .deadlock
      | .hang => .hang
      | .unmodelled => .unmodelled

def tokenize (regs : Regs) (input : Text) : Res (List SpTok) :=
  lexAll regs (input.length + 1) input 0

end EE
