import EE.Model.Ast
import EE.Gen.Consts
/-! The parser (parser.rs `Parser`), function by function, over the token list.
`lim` is `MAX_DEPTH`; `d` is the parser's `depth` field; every result carries the parser's
`height` field (the height of the tree just returned). Recursion is on `fuel`; that the fuel
handed out by `parseProgram` always suffices is a theorem (`EE.Props.C01`). -/
namespace EE

abbrev PR := Res (AST × Nat × List Tok)


/-- `Parser::node`: a new node above children of maximal height `children`. -/
def node (lim : Nat) (children : Nat) : Res Nat :=
  if children + 1 > lim then .err .nestingTooDeep else .ok (children + 1)

/-- `Tokenizer::expect` (after the fix): the current token must be exactly the expected one. -/
def expectTok (what : Tok) : List Tok → Res (List Tok)
  | [] => .err .expectedOpNotExist
  | t :: r => if t = what then .ok r else .err .expectedOpNotExist

/-- The operator at the head of the input, looking through a leading `not` (`Parser::peek_infix`):
`(negated, operator name, the tokens after it)`; `none` if the head is not an operator token, or is
a `not` that is not followed by an operator token. -/
def headOp : List Tok → Option (Bool × Name × List Tok)
  | .op o :: rest =>
    if o == notName then
      (match rest with
        | .op o2 :: rest2 => some (true, o2, rest2)
        | _ => none)
    else some (false, o, rest)
  | _ => none

/-- The recursion gate: the right operand continues iff the next operator (through `not`) is an
infix operator whose left binding power exceeds `r`. -/
def gateOpen (regs : Regs) (r : Int) (toks : List Tok) : Bool :=
  match headOp toks with
  | some (_, o2, _) => regs.isInfix o2 && decide (r < (regs.bp o2).1)
  | none => false

def wrapNot (isNot : Bool) (e : AST) : AST := if isNot then .unary notName e else e

/-- The postfix loop of `parse_primary`: every postfix operator that follows belongs to the operand. -/
def parsePostfix (regs : Regs) (lim : Nat) : AST → Nat → List Tok → PR
  | lhs, h, .op o :: r1 =>
    if regs.isPostfix o then (node lim h).bind fun h' => parsePostfix regs lim (.postfix lhs o) h' r1
    else .ok (lhs, h, .op o :: r1)
  | lhs, h, toks => .ok (lhs, h, toks)

mutual

/-- `parse_token` (with `parse_unary`, `parse_delim`, `parse_open_paren` inlined). -/
def parseToken (regs : Regs) (lim : Nat) (fuel : Nat) (d : Nat) (toks : List Tok) : PR :=
  match fuel with
  | 0 => .hang
  | fuel + 1 =>
    match toks with
    | [] => .err .unexpectedEOF
    | .num v :: r => .ok (.lit (.num v), 1, r)
    | .bool b :: r => .ok (.lit (.bool b), 1, r)
    | .str s :: r => .ok (.lit (.str s), 1, r)
    | .ref n :: r => .ok (.ref n, 1, r)
    | .func n :: r =>
      -- parse_function: next(); expect("(")
      (expectTok (.delim .openParen) r).bind fun r1 =>
      match r1 with
      | .delim .closeParen :: r2 => .ok (.call n [], 1, r2)
      | _ => (parseArgs regs lim fuel d r1).bind fun (args, h, r2) =>
        (node lim h).bind fun h' => .ok (.call n args, h', r2)
    | .op o :: r =>
      -- parse_unary
      if !regs.isPrefix o then .err .prefixOpNotRegistered
      else if d + 1 > lim then .err .nestingTooDeep
      else (parsePrimary regs lim fuel (d + 1) r).bind fun (rhs, h, r1) =>
        (node lim h).bind fun h' => .ok (.unary o rhs, h', r1)
    | .delim .openParen :: r =>
      (parseExpression regs lim fuel d r).bind fun (e, h, r1) =>
      match r1 with
      | .delim .closeParen :: r2 => .ok (e, h, r2)
      | _ => .err .noCloseDelim
    | .delim .openBracket :: r =>
      (parseListItems regs lim fuel d r).bind fun (xs, h, r1) =>
      (expectTok (.delim .closeBracket) r1).bind fun r2 =>
      (node lim h).bind fun h' => .ok (.list xs, h', r2)
    | .delim .openBrace :: r =>
      (parseMapItems regs lim fuel d r).bind fun (kvs, h, r1) =>
      (expectTok (.delim .closeBrace) r1).bind fun r2 =>
      (node lim h).bind fun h' => .ok (.map kvs, h', r2)
    | .delim _ :: _ => .err .noOpenDelim
    | .comma :: _ => .err .unexpectedToken
    | .semi :: _ => .err .unexpectedToken
termination_by structural fuel

/-- `parse_primary`: a token-level expression followed by any number of postfix operators. -/
def parsePrimary (regs : Regs) (lim : Nat) (fuel : Nat) (d : Nat) (toks : List Tok) : PR :=
  match fuel with
  | 0 => .hang
  | fuel + 1 =>
    (parseToken regs lim fuel d toks).bind fun (lhs, h, r) => parsePostfix regs lim lhs h r
termination_by structural fuel

/-- `parse_expression`. -/
def parseExpression (regs : Regs) (lim : Nat) (fuel : Nat) (d : Nat) (toks : List Tok) : PR :=
  match fuel with
  | 0 => .hang
  | fuel + 1 =>
    if d + 1 > lim then .err .nestingTooDeep else
    (parsePrimary regs lim fuel (d + 1) toks).bind fun (lhs, h, r) =>
    parseOp regs lim fuel (d + 1) 0 lhs h r
termination_by structural fuel

/-- `parse_op`: the operator loop at minimum binding power `p` with left operand `lhs`. -/
def parseOp (regs : Regs) (lim : Nat) (fuel : Nat) (d : Nat) (p : Int) (lhs : AST) (lhsH : Nat)
    (toks : List Tok) : PR :=
  match fuel with
  | 0 => .hang
  | fuel + 1 =>
    match toks with
    | .op o :: rest =>
      if o = qName then
        if p > 0 then .ok (lhs, lhsH, toks) else
        (parseExpression regs lim fuel d rest).bind fun (a, aH, r1) =>
        (expectTok (.op colonName) r1).bind fun r2 =>
        (parseExpression regs lim fuel d r2).bind fun (b, bH, r3) =>
        (node lim (max (max lhsH aH) bH)).bind fun h => .ok (.ternary lhs a b, h, r3)
      else
        match headOp toks with
        | none => .err .expectBinOpToken
        | some (neg, opName, afterOp) =>
          if neg && !regs.isInfix opName then .err .expectBinOpToken
          else if (regs.bp opName).1 < p then .ok (lhs, lhsH, toks)
          else
            (parsePrimary regs lim fuel d afterOp).bind fun (rhs, rhsH, r1) =>
            (if gateOpen regs (regs.bp opName).2 r1 then
              (if d + 1 > lim then .err .nestingTooDeep
               else parseOp regs lim fuel (d + 1) (regs.bp opName).2 rhs rhsH r1)
             else .ok (rhs, rhsH, r1)).bind fun (rhs', rhsH', r2) =>
            (node lim (max lhsH rhsH')).bind fun h =>
            (if neg then node lim h else .ok h).bind fun h2 =>
            parseOp regs lim fuel d p (wrapNot neg (.binary opName lhs rhs')) h2 r2
    | _ => .ok (lhs, lhsH, toks)
termination_by structural fuel

/-- The argument loop of `parse_function` (at least one argument; ends at `)`). -/
def parseArgs (regs : Regs) (lim : Nat) (fuel : Nat) (d : Nat) (toks : List Tok) :
    Res (List AST × Nat × List Tok) :=
  match fuel with
  | 0 => .hang
  | fuel + 1 =>
    (parseExpression regs lim fuel d toks).bind fun (a, h, r) =>
    match r with
    | .delim .closeParen :: r1 => .ok ([a], h, r1)
    | _ => (expectTok .comma r).bind fun r1 =>
      (parseArgs regs lim fuel d r1).bind fun (as, h', r2) => .ok (a :: as, max h h', r2)
termination_by structural fuel

/-- The element loop of `parse_open_bracket` (stops before `]` or at EOF; the caller expects `]`). -/
def parseListItems (regs : Regs) (lim : Nat) (fuel : Nat) (d : Nat) (toks : List Tok) :
    Res (List AST × Nat × List Tok) :=
  match fuel with
  | 0 => .hang
  | fuel + 1 =>
    match toks with
    | [] => .ok ([], 0, [])
    | .delim .closeBracket :: _ => .ok ([], 0, toks)
    | _ =>
      (parseExpression regs lim fuel d toks).bind fun (a, h, r) =>
      (match r with
        | .delim .closeBracket :: _ => (.ok r : Res (List Tok))
        | _ => expectTok .comma r).bind fun r1 =>
      (parseListItems regs lim fuel d r1).bind fun (as, h', r2) => .ok (a :: as, max h h', r2)
termination_by structural fuel

/-- The entry loop of `parse_open_brace`. -/
def parseMapItems (regs : Regs) (lim : Nat) (fuel : Nat) (d : Nat) (toks : List Tok) :
    Res (List (AST × AST) × Nat × List Tok) :=
  match fuel with
  | 0 => .hang
  | fuel + 1 =>
    match toks with
    | [] => .ok ([], 0, [])
    | .delim .closeBrace :: _ => .ok ([], 0, toks)
    | _ =>
      (parseExpression regs lim fuel d toks).bind fun (k, hk, r) =>
      (expectTok (.op colonName) r).bind fun r1 =>
      (parseExpression regs lim fuel d r1).bind fun (v, hv, r2) =>
      (match r2 with
        | .delim .closeBrace :: _ => (.ok r2 : Res (List Tok))
        | _ => expectTok .comma r2).bind fun r3 =>
      (parseMapItems regs lim fuel d r3).bind fun (kvs, h', r4) =>
        .ok ((k, v) :: kvs, max (max hk hv) h', r4)
termination_by structural fuel

end

/-- The statement loop of `parse_stmt`. -/
def parseStmts (regs : Regs) (lim : Nat) : Nat → List Tok → Res (List AST × Nat)
  | 0, _ => .hang
  | _ + 1, [] => .ok ([], 0)
  | fuel + 1, toks =>
    (parseExpression regs lim fuel 0 toks).bind fun (a, h, r) =>
    let r1 := match r with | .semi :: r' => r' | _ => r
    (parseStmts regs lim fuel r1).bind fun (as, h') => .ok (a :: as, max h h')

def maxDepth : Nat := Gen.maxDepth

def parseFuel (toks : List Tok) : Nat := 4 * toks.length + 8

/-- `parse_stmt`: a single statement is returned unwrapped. -/
def parseTokens (regs : Regs) (lim : Nat) (toks : List Tok) : Res AST :=
  (parseStmts regs lim (parseFuel toks) toks).bind fun (xs, h) =>
  match xs with
  | [a] => .ok a
  | _ => (node lim h).bind fun _ => .ok (.stmt xs)

end EE
