import EE.Model.Value
/-! The four process-global registries as association lists (last registration first, so the
first match is the most recent `insert`), and handler identifiers. A handler is *data* here
(`HandlerId`); what a handler does when invoked is supplied separately (`inv` in `EE.Model.Eval`),
so theorems quantify over arbitrary handler behaviour. -/
namespace EE

abbrev Name := Text

inductive HandlerId where
  | builtinPrefix (name : Name)
  | builtinInfix (name : Name)
  | builtinPostfix (name : Name)
  | builtinFn (name : Name)
  | user (id : Nat)
deriving DecidableEq, Repr, Inhabited

structure InfixCfg where
  prec : Int
  setter : Bool
  right : Bool
  h : HandlerId
deriving DecidableEq, Repr, Inhabited

structure Regs where
  pre : List (Name × HandlerId)
  inf : List (Name × InfixCfg)
  post : List (Name × HandlerId)
  fns : List (Name × HandlerId)
deriving Repr, Inhabited

def alookup {β : Type} (k : Name) : List (Name × β) → Option β
  | [] => none
  | (k', v) :: r => if k' = k then some v else alookup k r

@[simp] theorem alookup_nil {β} (k : Name) : alookup k ([] : List (Name × β)) = none := rfl
theorem alookup_cons {β} (k k' : Name) (v : β) (r : List (Name × β)) :
    alookup k ((k', v) :: r) = if k' = k then some v else alookup k r := rfl

namespace Regs

def isPrefix (r : Regs) (n : Name) : Bool := (alookup n r.pre).isSome
def isInfix (r : Regs) (n : Name) : Bool := (alookup n r.inf).isSome
def isPostfix (r : Regs) (n : Name) : Bool := (alookup n r.post).isSome
def isTernaryOp (n : Name) : Bool := n == ['?'] || n == [':']
/-- `keyword::is_op` -/
def isOp (r : Regs) (n : Name) : Bool := r.isPrefix n || r.isInfix n || r.isPostfix n || isTernaryOp n

/-- `InfixOpManager::get_precidence`: `(2p, 2p+1)` for LEFT, `(2p, 2p-1)` for RIGHT, `(-1,-1)` when absent. -/
def bp (r : Regs) (n : Name) : Int × Int :=
  match alookup n r.inf with
  | none => (-1, -1)
  | some c => (2 * c.prec, if c.right then 2 * c.prec - 1 else 2 * c.prec + 1)

def regPrefix (r : Regs) (n : Name) (h : HandlerId) : Regs := { r with pre := (n, h) :: r.pre }
def regPostfix (r : Regs) (n : Name) (h : HandlerId) : Regs := { r with post := (n, h) :: r.post }
def regFn (r : Regs) (n : Name) (h : HandlerId) : Regs := { r with fns := (n, h) :: r.fns }
def regInfix (r : Regs) (n : Name) (c : InfixCfg) : Regs := { r with inf := (n, c) :: r.inf }

def empty : Regs := ⟨[], [], [], []⟩

/-- Drop the entries a newer registration of the same name hides (the driver does this after every registration so that
long histories stay short; look-ups are unaffected: `EE.Props.C08.compact_lookup`). -/
def dropOlder {β : Type} : List (Name × β) → List (Name × β)
  | [] => []
  | x :: rest => x :: rest.filter (fun y => y.1 != x.1)

def compact (r : Regs) : Regs := ⟨dropOlder r.pre, dropOlder r.inf, dropOlder r.post, dropOlder r.fns⟩

end Regs
end EE
