import EE.Model.Registry
import EE.Gen.OpTable
/-! The registries right after `init()`: the regenerated table (`EE.Gen`) with built-in handler ids. -/
namespace EE

def Regs.builtin : Regs where
  pre := Gen.prefixNames.map fun n => (n, HandlerId.builtinPrefix n)
  inf := Gen.infixTable.map fun (n, p, s, r) => (n, ⟨p, s, r, HandlerId.builtinInfix n⟩)
  post := Gen.postfixNames.map fun n => (n, HandlerId.builtinPostfix n)
  fns := Gen.fnNames.map fun n => (n, HandlerId.builtinFn n)

end EE
