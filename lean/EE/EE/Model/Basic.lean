/-! Outcomes and error kinds shared by every layer of the model.

`Res` is the result type of every model function that mirrors Rust code which can fail:
`ok`, `err` (an `Err(..)` returned through `Result`), `panic` (the Rust code would unwind),
`deadlock` (a non-reentrant mutex locked twice by the same thread), `hang` (fuel exhausted —
never produced for adequate fuel, which is a theorem), and `unmodelled` (the result depends on a
part of `rust_decimal` that the model does not reproduce: rounding of inexact results). -/
namespace EE

abbrev Text := List Char

inductive ErrKind
  | invalidNumber | unexpectedEOF | unterminatedString | notSupportedOp
  | infixOpNotRegistered | prefixOpNotRegistered | innerFunctionNotRegistered
  | shouldBeNumber | shouldBeBool | shouldBeList | shouldBeString | paramInvalid
  | expectedOpNotExist | unexpectedToken | notReferenceExpr | noOpenDelim | noCloseDelim
  | invalidInteger | invalidFloat | expectBinOpToken
  | divideByZero | numberOverflow | invalidShiftCount | nestingTooDeep
  | user
deriving DecidableEq, Repr, Inhabited

def ErrKind.name : ErrKind → String
  | .invalidNumber => "InvalidNumber" | .unexpectedEOF => "UnexpectedEOF"
  | .unterminatedString => "UnterminatedString" | .notSupportedOp => "NotSupportedOp"
  | .infixOpNotRegistered => "InfixOpNotRegistered" | .prefixOpNotRegistered => "PrefixOpNotRegistered"
  | .innerFunctionNotRegistered => "InnerFunctionNotRegistered"
  | .shouldBeNumber => "ShouldBeNumber" | .shouldBeBool => "ShouldBeBool" | .shouldBeList => "ShouldBeList"
  | .shouldBeString => "ShouldBeString" | .paramInvalid => "ParamInvalid"
  | .expectedOpNotExist => "ExpectedOpNotExist" | .unexpectedToken => "UnexpectedToken"
  | .notReferenceExpr => "NotReferenceExpr" | .noOpenDelim => "NoOpenDelim" | .noCloseDelim => "NoCloseDelim"
  | .invalidInteger => "InvalidInteger" | .invalidFloat => "InvalidFloat" | .expectBinOpToken => "ExpectBinOpToken"
  | .divideByZero => "DivideByZero" | .numberOverflow => "NumberOverflow"
  | .invalidShiftCount => "InvalidShiftCount" | .nestingTooDeep => "NestingTooDeep"
  | .user => "ShouldBeBool"

inductive Res (α : Type) where
  | ok (a : α)
  | err (e : ErrKind)
  | panic
  | deadlock
  | hang
  | unmodelled
deriving Repr

namespace Res
variable {α β : Type}

@[inline] def bind (r : Res α) (f : α → Res β) : Res β :=
  match r with
  | ok a => f a
  | err e => err e
  | panic => panic
  | deadlock => deadlock
  | hang => hang
  | unmodelled => unmodelled

@[inline] def map (f : α → β) (r : Res α) : Res β := r.bind (fun a => ok (f a))

instance : Monad Res where
  pure := ok
  bind := bind

def isOk : Res α → Bool | ok _ => true | _ => false
def isErr : Res α → Bool | err _ => true | _ => false
def isPanic : Res α → Bool | panic => true | _ => false
def isHang : Res α → Bool | hang => true | _ => false
def isDeadlock : Res α → Bool | deadlock => true | _ => false
/-- The outcome class the properties allow: a value or an `Err`. -/
def isOkOrErr : Res α → Bool | ok _ => true | err _ => true | _ => false

@[simp] theorem bind_ok (a : α) (f : α → Res β) : (ok a).bind f = f a := rfl
@[simp] theorem bind_err (e : ErrKind) (f : α → Res β) : (err e : Res α).bind f = err e := rfl
@[simp] theorem bind_panic (f : α → Res β) : (panic : Res α).bind f = panic := rfl
@[simp] theorem bind_hang (f : α → Res β) : (hang : Res α).bind f = hang := rfl
@[simp] theorem bind_deadlock (f : α → Res β) : (deadlock : Res α).bind f = deadlock := rfl
@[simp] theorem bind_unmodelled (f : α → Res β) : (unmodelled : Res α).bind f = unmodelled := rfl
end Res

end EE
