import EE.Model.Parser
/-! # The documented grammar, read leniently (specification for C05)

Relations between a list of tokens and the tree it denotes. Deliberately *ambiguous* about how a
chain of infix operators is grouped (that is C02's subject): this grammar only says which token
sequences are sentences and that every token sits in the tree in its own role.

Leniency (as the property states): the `;` between statements may be omitted or present, one
trailing `;` is allowed; a list or map may end with one trailing comma, a call may not. -/
namespace EE.Spec
open EE

def tOpen : Tok := .delim .openParen
def tClose : Tok := .delim .closeParen
def tOpenB : Tok := .delim .openBracket
def tCloseB : Tok := .delim .closeBracket
def tOpenC : Tok := .delim .openBrace
def tCloseC : Tok := .delim .closeBrace
def tQ : Tok := .op qName
def tColon : Tok := .op colonName
def tNot : Tok := .op notName

mutual
/-- token-level expressions: literals, names, calls, prefix expressions, parenthesised expressions, lists, maps -/
inductive GTok (regs : Regs) : List Tok → AST → Prop
  | num (d : Dec) : GTok regs [.num d] (.lit (.num d))
  | bool (b : Bool) : GTok regs [.bool b] (.lit (.bool b))
  | str (s : Text) : GTok regs [.str s] (.lit (.str s))
  | ref (n : Name) : GTok regs [.ref n] (.ref n)
  | call0 (n : Name) : GTok regs [.func n, tOpen, tClose] (.call n [])
  | call {n : Name} {ts : List Tok} {args : List AST} : GArgs regs ts args →
      GTok regs (.func n :: tOpen :: (ts ++ [tClose])) (.call n args)
  | unary {o : Name} {ts : List Tok} {e : AST} : regs.isPrefix o = true → GPrim regs ts e → GTok regs (.op o :: ts) (.unary o e)
  | paren {ts : List Tok} {e : AST} : GExpr regs ts e → GTok regs (tOpen :: (ts ++ [tClose])) e
  | list {ts : List Tok} {xs : List AST} : GItems regs ts xs → GTok regs (tOpenB :: (ts ++ [tCloseB])) (.list xs)
  | map {ts : List Tok} {kvs : List (AST × AST)} : GEntries regs ts kvs → GTok regs (tOpenC :: (ts ++ [tCloseC])) (.map kvs)
/-- a token-level expression followed by any number of postfix operators -/
inductive GPrim (regs : Regs) : List Tok → AST → Prop
  | tok {ts : List Tok} {e : AST} : GTok regs ts e → GPrim regs ts e
  | postfix {ts : List Tok} {e : AST} {o : Name} : GPrim regs ts e → regs.isPostfix o = true → GPrim regs (ts ++ [.op o]) (.postfix e o)
/-- chains of infix operators (optionally negated with `not`), in some grouping -/
inductive GBin (regs : Regs) : List Tok → AST → Prop
  | prim {ts : List Tok} {e : AST} : GPrim regs ts e → GBin regs ts e
  | bin {l r : List Tok} {a b : AST} {o : Name} : GBin regs l a → regs.isInfix o = true → GBin regs r b →
      GBin regs (l ++ .op o :: r) (.binary o a b)
  | notBin {l r : List Tok} {a b : AST} {o : Name} : GBin regs l a → regs.isInfix o = true → GBin regs r b →
      GBin regs (l ++ tNot :: .op o :: r) (.unary notName (.binary o a b))
/-- expressions: an operator chain, or a conditional `chain ? expr : expr` -/
inductive GExpr (regs : Regs) : List Tok → AST → Prop
  | bin {ts : List Tok} {e : AST} : GBin regs ts e → GExpr regs ts e
  | tern {c a b : List Tok} {ec ea eb : AST} : GBin regs c ec → GExpr regs a ea → GExpr regs b eb →
      GExpr regs (c ++ tQ :: (a ++ tColon :: b)) (.ternary ec ea eb)
/-- call arguments: one or more expressions separated by commas (no trailing comma) -/
inductive GArgs (regs : Regs) : List Tok → List AST → Prop
  | one {ts : List Tok} {e : AST} : GExpr regs ts e → GArgs regs ts [e]
  | cons {ts r : List Tok} {e : AST} {es : List AST} : GExpr regs ts e → GArgs regs r es → GArgs regs (ts ++ .comma :: r) (e :: es)
/-- list elements: zero or more expressions separated by commas, one trailing comma allowed -/
inductive GItems (regs : Regs) : List Tok → List AST → Prop
  | nil : GItems regs [] []
  | one {ts : List Tok} {e : AST} : GExpr regs ts e → GItems regs ts [e]
  | cons {ts r : List Tok} {e : AST} {es : List AST} : GExpr regs ts e → GItems regs r es → GItems regs (ts ++ .comma :: r) (e :: es)
/-- map entries `key : value`, comma separated, one trailing comma allowed -/
inductive GEntries (regs : Regs) : List Tok → List (AST × AST) → Prop
  | nil : GEntries regs [] []
  | one {k v : List Tok} {ek ev : AST} : GExpr regs k ek → GExpr regs v ev → GEntries regs (k ++ tColon :: v) [(ek, ev)]
  | cons {k v r : List Tok} {ek ev : AST} {es : List (AST × AST)} : GExpr regs k ek → GExpr regs v ev → GEntries regs r es →
      GEntries regs (k ++ tColon :: (v ++ .comma :: r)) ((ek, ev) :: es)
end

/-- programs: statements, each optionally followed by `;` -/
inductive GProg (regs : Regs) : List Tok → List AST → Prop
  | nil : GProg regs [] []
  | stmt {ts r : List Tok} {e : AST} {es : List AST} : GExpr regs ts e → GProg regs r es → GProg regs (ts ++ r) (e :: es)
  | stmtSemi {ts r : List Tok} {e : AST} {es : List AST} : GExpr regs ts e → GProg regs r es → GProg regs (ts ++ .semi :: r) (e :: es)

/-- `parse_stmt`: a single statement is returned unwrapped -/
def programTree : List AST → AST
  | [e] => e
  | es => .stmt es

end EE.Spec
