import EE.Lemmas.Keeps
/-! # Big-step semantics of evaluation (specification)

`Eval inv t w out`: evaluating tree `t` in world `w` (no engine lock held) has outcome `out`.
One rule per way an evaluation can go; rules read like the language description:

* operands, call arguments, list elements, map entries (key before value) and statements are
  evaluated **left to right**, each **once**, each in the world its predecessor left;
* a handler is invoked **after** all of its arguments have been evaluated;
* a conditional evaluates its condition and then **only the selected branch**;
* as soon as a sub-evaluation does not return a value, that outcome **is** the outcome of the
  whole — there is no rule that evaluates, calls or assigns anything afterwards.

`exec_sound` (EE.Props.C07) proves that the model's evaluator satisfies this specification. -/
namespace EE.Spec
open EE

variable {σ : Type}

/-- A non-value outcome, carried to another result type unchanged. -/
def castFail {α β : Type} : Res α → Res β
  | .ok _ => .hang
  | .err e => .err e
  | .panic => .panic
  | .deadlock => .deadlock
  | .hang => .hang
  | .unmodelled => .unmodelled

def isRef : AST → Bool | .ref _ => true | _ => false

mutual
inductive Eval (inv : Inv σ) : AST → World σ → Res Value × World σ → Prop
  | lit (l w) : Eval inv (.lit l) w (.ok (litValue l), w)
  | none (w) : Eval inv .none w (.ok Value.none, w)
  -- names
  | refUnbound {n w} : alookup n w.ctx = Option.none → Eval inv (.ref n) w (.ok Value.none, w)
  | refVar {n w v} : alookup n w.ctx = some (.var v) → Eval inv (.ref n) w (.ok v, w)
  | refFn {n w h} : alookup n w.ctx = some (.fn h) → Eval inv (.ref n) w (invoke inv h [] w)
  -- calls: arguments first, then context function, else global function, else error
  | callCtx {f args w vs w1 h} : EvalList inv args w (.ok vs, w1) → alookup f w1.ctx = some (.fn h) →
      Eval inv (.call f args) w (invoke inv h vs w1)
  | callGlobal {f args w vs w1 h} : EvalList inv args w (.ok vs, w1) → (∀ h', alookup f w1.ctx ≠ some (.fn h')) →
      alookup f w1.regs.fns = some h → Eval inv (.call f args) w (invoke inv h vs w1)
  | callUnknown {f args w vs w1} : EvalList inv args w (.ok vs, w1) → (∀ h', alookup f w1.ctx ≠ some (.fn h')) →
      alookup f w1.regs.fns = Option.none → Eval inv (.call f args) w (.err .innerFunctionNotRegistered, w1)
  | callArgsFail {f args w r w1} : EvalList inv args w (r, w1) → r.isOk = false →
      Eval inv (.call f args) w (castFail r, w1)
  -- prefix / postfix operators
  | unaryUnreg {op rhs w} : alookup op w.regs.pre = Option.none → Eval inv (.unary op rhs) w (.err .prefixOpNotRegistered, w)
  | unary {op rhs w h v w1} : alookup op w.regs.pre = some h → Eval inv rhs w (.ok v, w1) →
      Eval inv (.unary op rhs) w (invoke inv h [v] w1)
  | unaryFail {op rhs w h r w1} : alookup op w.regs.pre = some h → Eval inv rhs w (r, w1) → r.isOk = false →
      Eval inv (.unary op rhs) w (r, w1)
  | postfixUnreg {op lhs w} : alookup op w.regs.post = Option.none → Eval inv (.postfix lhs op) w (.err .prefixOpNotRegistered, w)
  | postfix {op lhs w h v w1} : alookup op w.regs.post = some h → Eval inv lhs w (.ok v, w1) →
      Eval inv (.postfix lhs op) w (invoke inv h [v] w1)
  | postfixFail {op lhs w h r w1} : alookup op w.regs.post = some h → Eval inv lhs w (r, w1) → r.isOk = false →
      Eval inv (.postfix lhs op) w (r, w1)
  -- infix operators: left operand, then right operand, then the handler
  | binaryUnreg {op l r w} : alookup op w.regs.inf = Option.none → Eval inv (.binary op l r) w (.err .infixOpNotRegistered, w)
  | calc {op l r w cfg a w1 b w2} : alookup op w.regs.inf = some cfg → cfg.setter = false →
      Eval inv l w (.ok a, w1) → Eval inv r w1 (.ok b, w2) → Eval inv (.binary op l r) w (invoke inv cfg.h [a, b] w2)
  | binaryFailL {op l r w cfg res w1} : alookup op w.regs.inf = some cfg →
      Eval inv l w (res, w1) → res.isOk = false → Eval inv (.binary op l r) w (res, w1)
  | binaryFailR {op l r w cfg a w1 res w2} : alookup op w.regs.inf = some cfg →
      Eval inv l w (.ok a, w1) → Eval inv r w1 (res, w2) → res.isOk = false → Eval inv (.binary op l r) w (res, w2)
  -- assignment operators: both sides, then the target must be a name, then handler, then bind; yields None
  | assign {op x r w cfg a w1 b w2 cfg2 v w3} : alookup op w.regs.inf = some cfg → cfg.setter = true →
      Eval inv (.ref x) w (.ok a, w1) → Eval inv r w1 (.ok b, w2) → alookup op w2.regs.inf = some cfg2 →
      invoke inv cfg2.h [a, b] w2 = (.ok v, w3) →
      Eval inv (.binary op (.ref x) r) w (.ok Value.none, { w3 with ctx := (x, .var v) :: w3.ctx })
  | assignHandlerFail {op x r w cfg a w1 b w2 cfg2 res w3} : alookup op w.regs.inf = some cfg → cfg.setter = true →
      Eval inv (.ref x) w (.ok a, w1) → Eval inv r w1 (.ok b, w2) → alookup op w2.regs.inf = some cfg2 →
      invoke inv cfg2.h [a, b] w2 = (res, w3) → res.isOk = false →
      Eval inv (.binary op (.ref x) r) w (res, w3)
  | assignUnreg {op x r w cfg a w1 b w2} : alookup op w.regs.inf = some cfg → cfg.setter = true →
      Eval inv (.ref x) w (.ok a, w1) → Eval inv r w1 (.ok b, w2) → alookup op w2.regs.inf = Option.none →
      Eval inv (.binary op (.ref x) r) w (.err .infixOpNotRegistered, w2)
  | assignNonName {op l r w cfg a w1 b w2} : alookup op w.regs.inf = some cfg → cfg.setter = true → isRef l = false →
      Eval inv l w (.ok a, w1) → Eval inv r w1 (.ok b, w2) →
      Eval inv (.binary op l r) w (.err .notReferenceExpr, w2)
  -- conditional: the condition, then exactly one branch
  | ternTrue {c a b w w1 out} : Eval inv c w (.ok (.bool true), w1) → Eval inv a w1 out → Eval inv (.ternary c a b) w out
  | ternFalse {c a b w w1 out} : Eval inv c w (.ok (.bool false), w1) → Eval inv b w1 out → Eval inv (.ternary c a b) w out
  | ternNonBool {c a b w v w1} : Eval inv c w (.ok v, w1) → (∀ x, v ≠ .bool x) → Eval inv (.ternary c a b) w (.err .shouldBeBool, w1)
  | ternFail {c a b w r w1} : Eval inv c w (r, w1) → r.isOk = false → Eval inv (.ternary c a b) w (r, w1)
  -- aggregates
  | list {xs w vs w1} : EvalList inv xs w (.ok vs, w1) → Eval inv (.list xs) w (.ok (.list vs), w1)
  | listFail {xs w r w1} : EvalList inv xs w (r, w1) → r.isOk = false → Eval inv (.list xs) w (castFail r, w1)
  | map {kvs w m w1} : EvalMap inv kvs w (.ok m, w1) → Eval inv (.map kvs) w (.ok (.map m), w1)
  | mapFail {kvs w r w1} : EvalMap inv kvs w (r, w1) → r.isOk = false → Eval inv (.map kvs) w (castFail r, w1)
  | stmt {xs w out} : EvalChain inv Value.none xs w out → Eval inv (.stmt xs) w out
inductive EvalList (inv : Inv σ) : List AST → World σ → Res (List Value) × World σ → Prop
  | nil (w) : EvalList inv [] w (.ok [], w)
  | cons {a as w v w1 vs w2} : Eval inv a w (.ok v, w1) → EvalList inv as w1 (.ok vs, w2) → EvalList inv (a :: as) w (.ok (v :: vs), w2)
  | failHead {a as w r w1} : Eval inv a w (r, w1) → r.isOk = false → EvalList inv (a :: as) w (castFail r, w1)
  | failTail {a as w v w1 r w2} : Eval inv a w (.ok v, w1) → EvalList inv as w1 (r, w2) → r.isOk = false →
      EvalList inv (a :: as) w (castFail r, w2)
inductive EvalMap (inv : Inv σ) : List (AST × AST) → World σ → Res (List (Value × Value)) × World σ → Prop
  | nil (w) : EvalMap inv [] w (.ok [], w)
  | cons {k v r w kv w1 vv w2 m w3} : Eval inv k w (.ok kv, w1) → Eval inv v w1 (.ok vv, w2) → EvalMap inv r w2 (.ok m, w3) →
      EvalMap inv ((k, v) :: r) w (.ok ((kv, vv) :: m), w3)
  | failKey {k v r w res w1} : Eval inv k w (res, w1) → res.isOk = false → EvalMap inv ((k, v) :: r) w (castFail res, w1)
  | failValue {k v r w kv w1 res w2} : Eval inv k w (.ok kv, w1) → Eval inv v w1 (res, w2) → res.isOk = false →
      EvalMap inv ((k, v) :: r) w (castFail res, w2)
  | failRest {k v r w kv w1 vv w2 res w3} : Eval inv k w (.ok kv, w1) → Eval inv v w1 (.ok vv, w2) → EvalMap inv r w2 (res, w3) →
      res.isOk = false → EvalMap inv ((k, v) :: r) w (castFail res, w3)
inductive EvalChain (inv : Inv σ) : Value → List AST → World σ → Res Value × World σ → Prop
  | nil (last w) : EvalChain inv last [] w (.ok last, w)
  | cons {last a as w v w1 out} : Eval inv a w (.ok v, w1) → EvalChain inv v as w1 out → EvalChain inv last (a :: as) w out
  | fail {last a as w r w1} : Eval inv a w (r, w1) → r.isOk = false → EvalChain inv last (a :: as) w (r, w1)
end

end EE.Spec
