import EE.Spec.Grammar
/-! # The documented grouping rule (specification for C02)

A `CST` is an expression *as written*, with its parentheses: which operator applies to which
operands is explicit in the tree. `flatten` writes it out as tokens; `strip` forgets the
parentheses and gives the tree the reader means. `Canon` says the expression is written with all
the parentheses the operator table requires — an operand of an infix operator is itself an
unparenthesised infix expression only where the table's precedence and associativity make that the
reading — and C02 states that parsing `flatten c` yields exactly `strip c`. -/
namespace EE.Spec
open EE

inductive Atom where
  | num (d : Dec) | bool (b : Bool) | str (s : Text) | ref (n : Name)

def Atom.tok : Atom → Tok
  | .num d => .num d | .bool b => .bool b | .str s => .str s | .ref n => .ref n
def Atom.ast : Atom → AST
  | .num d => .lit (.num d) | .bool b => .lit (.bool b) | .str s => .lit (.str s) | .ref n => .ref n

mutual
inductive CST where
  | atom (a : Atom)
  | paren (c : CST)
  | unary (o : Name) (c : CST)
  | postfix (c : CST) (o : Name)
  | call (n : Name) (args : CList)
  /-- `trail`: the optional comma before the closing bracket (non-empty lists only) -/
  | list (xs : CList) (trail : Bool)
  | map (kvs : CMap) (trail : Bool)
  /-- `l o r`, or `l not o r` when `neg` -/
  | bin (neg : Bool) (o : Name) (l r : CST)
  | tern (c a b : CST)
inductive CList where
  | nil
  | cons (c : CST) (r : CList)
inductive CMap where
  | nil
  | cons (k v : CST) (r : CMap)
end

def opToks (neg : Bool) (o : Name) : List Tok := if neg then [tNot, .op o] else [.op o]
def trailToks (tr : Bool) : List Tok := if tr then [.comma] else []

mutual
def CST.flatten : CST → List Tok
  | .atom a => [a.tok]
  | .paren c => tOpen :: (c.flatten ++ [tClose])
  | .unary o c => .op o :: c.flatten
  | .postfix c o => c.flatten ++ [.op o]
  | .call n args => .func n :: tOpen :: (args.flatten ++ [tClose])
  | .list xs tr => tOpenB :: (xs.flatten ++ (trailToks tr ++ [tCloseB]))
  | .map kvs tr => tOpenC :: (kvs.flatten ++ (trailToks tr ++ [tCloseC]))
  | .bin neg o l r => l.flatten ++ (opToks neg o ++ r.flatten)
  | .tern c a b => c.flatten ++ (tQ :: (a.flatten ++ (tColon :: b.flatten)))
/-- comma separated, no trailing comma -/
def CList.flatten : CList → List Tok
  | .nil => []
  | .cons c .nil => c.flatten
  | .cons c r => c.flatten ++ (.comma :: r.flatten)
def CMap.flatten : CMap → List Tok
  | .nil => []
  | .cons k v .nil => k.flatten ++ (tColon :: v.flatten)
  | .cons k v r => k.flatten ++ (tColon :: (v.flatten ++ (.comma :: r.flatten)))
end

mutual
def CST.strip : CST → AST
  | .atom a => a.ast
  | .paren c => c.strip
  | .unary o c => .unary o c.strip
  | .postfix c o => .postfix c.strip o
  | .call n args => .call n args.strip
  | .list xs _ => .list xs.strip
  | .map kvs _ => .map kvs.strip
  | .bin neg o l r => wrapNot neg (.binary o l.strip r.strip)
  | .tern c a b => .ternary c.strip a.strip b.strip
def CList.strip : CList → List AST
  | .nil => []
  | .cons c r => c.strip :: r.strip
def CMap.strip : CMap → List (AST × AST)
  | .nil => []
  | .cons k v r => (k.strip, v.strip) :: r.strip
end

namespace CST
/-- the operator at the root of an unparenthesised infix expression -/
def root? : CST → Option Name
  | bin _ o _ _ => some o
  | _ => none
def isTern : CST → Bool
  | tern _ _ _ => true
  | _ => false
/-- what a postfix operator may be written after without parentheses: an atom, a bracketed form, a
call, or such a thing already followed by postfix operators — not a prefix expression (`-a++` is
`-(a++)`). -/
def postfixable : CST → Bool
  | .atom _ | .paren _ | .call _ _ | .list _ _ | .map _ _ | .postfix _ _ => true
  | _ => false
/-- operand of a prefix operator: anything but an unparenthesised infix expression or conditional -/
def isPrimary : CST → Bool
  | bin _ _ _ _ | tern _ _ _ => false
  | _ => true
end CST

def Regs.prec (regs : Regs) (o : Name) : Int := match alookup o regs.inf with | some c => c.prec | none => 0
def Regs.isRight (regs : Regs) (o : Name) : Bool := match alookup o regs.inf with | some c => c.right | none => false

/-- `o'` may be the root of the unparenthesised left operand of `o`: it binds tighter, or equally
tight and the level groups left-to-right. -/
def okLeft (regs : Regs) (o' o : Name) : Prop :=
  Regs.prec regs o < Regs.prec regs o' ∨ (Regs.prec regs o' = Regs.prec regs o ∧ Regs.isRight regs o = false)
/-- `o'` may be the root of the unparenthesised right operand of `o`: it binds tighter, or equally
tight and the level groups right-to-left. -/
def okRight (regs : Regs) (o o' : Name) : Prop :=
  Regs.prec regs o < Regs.prec regs o' ∨ (Regs.prec regs o' = Regs.prec regs o ∧ Regs.isRight regs o = true)

mutual
def Canon (regs : Regs) : CST → Prop
  | .atom _ => True
  | .paren c => Canon regs c
  | .unary o c => regs.isPrefix o = true ∧ c.isPrimary = true ∧ Canon regs c
  | .postfix c o => regs.isPostfix o = true ∧ c.postfixable = true ∧ Canon regs c
  | .call _ args => CanonList regs args
  | .list xs tr => CanonList regs xs ∧ (tr = true → xs ≠ .nil)
  | .map kvs tr => CanonMap regs kvs ∧ (tr = true → kvs ≠ .nil)
  | .bin _ o l r => regs.isInfix o = true ∧ Canon regs l ∧ Canon regs r ∧ l.isTern = false ∧ r.isTern = false ∧
      (∀ o', l.root? = some o' → okLeft regs o' o) ∧ (∀ o', r.root? = some o' → okRight regs o o')
  | .tern c a b => Canon regs c ∧ c.isTern = false ∧ Canon regs a ∧ Canon regs b
def CanonList (regs : Regs) : CList → Prop
  | .nil => True
  | .cons c r => Canon regs c ∧ CanonList regs r
def CanonMap (regs : Regs) : CMap → Prop
  | .nil => True
  | .cons k v r => Canon regs k ∧ Canon regs v ∧ CanonMap regs r
end

/-! `nest`: how deep the parser's recursion goes on the expression (its `depth` counter, relative to
where it starts): one level per enclosing bracket, call, prefix operator, conditional branch and
right-nested infix operand. -/
mutual
def CST.nest : CST → Nat
  | .atom _ => 0
  | .paren c => c.nest + 1
  | .unary _ c => c.nest + 1
  | .postfix c _ => c.nest
  | .call _ args => args.nest
  | .list xs _ => xs.nest
  | .map kvs _ => kvs.nest
  | .bin _ _ l r => max l.nest (match r with | .bin _ _ _ _ => r.nest + 1 | _ => r.nest)
  | .tern c a b => max c.nest (max (a.nest + 1) (b.nest + 1))
def CList.nest : CList → Nat
  | .nil => 0
  | .cons c r => max (c.nest + 1) r.nest
def CMap.nest : CMap → Nat
  | .nil => 0
  | .cons k v r => max (max (k.nest + 1) (v.nest + 1)) r.nest
end

/-- The assumptions on an operator table under which the grouping rule is the parser's behaviour;
all hold of the built-in table (`EE.Props.C02.builtin_table_ok`). -/
structure TableOK (regs : Regs) : Prop where
  pos : ∀ n c, alookup n regs.inf = some c → 1 ≤ c.prec
  assoc : ∀ o o', regs.isInfix o = true → regs.isInfix o' = true → Regs.prec regs o = Regs.prec regs o' →
    Regs.isRight regs o = Regs.isRight regs o'
  infixNotPostfix : ∀ o, regs.isInfix o = true → regs.isPostfix o = false
  q : regs.isInfix qName = false ∧ regs.isPostfix qName = false
  colon : regs.isInfix colonName = false ∧ regs.isPostfix colonName = false
  notOp : regs.isInfix notName = false ∧ regs.isPostfix notName = false

end EE.Spec
