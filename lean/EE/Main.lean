import EE.Model.Driver
def main : IO Unit := do
  let stdin ← IO.getStdin
  let stdout ← IO.getStdout
  EE.Driver.loop stdin stdout {}
