//! Minimal s-expressions: atoms without whitespace/parentheses, lists.
#[derive(Clone, Debug, PartialEq)]
pub enum Sexp {
    Atom(String),
    List(Vec<Sexp>),
}

impl Sexp {
    pub fn atom(s: &str) -> Sexp {
        Sexp::Atom(s.to_string())
    }
    pub fn as_atom(&self) -> Option<&str> {
        match self {
            Sexp::Atom(s) => Some(s),
            _ => None,
        }
    }
    pub fn as_list(&self) -> Option<&[Sexp]> {
        match self {
            Sexp::List(v) => Some(v),
            _ => None,
        }
    }
    pub fn head(&self) -> Option<&str> {
        self.as_list()?.first()?.as_atom()
    }
    pub fn to_string(&self) -> String {
        let mut out = String::new();
        self.write(&mut out);
        out
    }
    fn write(&self, out: &mut String) {
        match self {
            Sexp::Atom(s) => out.push_str(s),
            Sexp::List(v) => {
                out.push('(');
                for (i, x) in v.iter().enumerate() {
                    if i > 0 {
                        out.push(' ');
                    }
                    x.write(out);
                }
                out.push(')');
            }
        }
    }
}

pub fn parse(s: &str) -> Option<Sexp> {
    let b = s.as_bytes();
    let mut pos = 0;
    let r = parse_at(b, &mut pos)?;
    skip_ws(b, &mut pos);
    if pos != b.len() {
        return None;
    }
    Some(r)
}

fn skip_ws(b: &[u8], pos: &mut usize) {
    while *pos < b.len() && b[*pos] == b' ' {
        *pos += 1;
    }
}

// iterative (explicit stack) so that deep inputs cannot overflow the harness stack
fn parse_at(b: &[u8], pos: &mut usize) -> Option<Sexp> {
    let mut stack: Vec<Vec<Sexp>> = Vec::new();
    loop {
        skip_ws(b, pos);
        if *pos >= b.len() {
            return None;
        }
        let item = if b[*pos] == b'(' {
            *pos += 1;
            stack.push(Vec::new());
            continue;
        } else if b[*pos] == b')' {
            *pos += 1;
            let v = stack.pop()?;
            Sexp::List(v)
        } else {
            let st = *pos;
            while *pos < b.len() && b[*pos] != b' ' && b[*pos] != b'(' && b[*pos] != b')' {
                *pos += 1;
            }
            Sexp::Atom(String::from_utf8_lossy(&b[st..*pos]).to_string())
        };
        match stack.last_mut() {
            Some(top) => top.push(item),
            None => return Some(item),
        }
    }
}

pub fn hex(s: &str) -> String {
    if s.is_empty() {
        return "-".to_string();
    }
    let mut out = String::with_capacity(s.len() * 2);
    for b in s.as_bytes() {
        out.push_str(&format!("{:02x}", b));
    }
    out
}

pub fn unhex(s: &str) -> Option<String> {
    if s == "-" {
        return Some(String::new());
    }
    let b = s.as_bytes();
    if b.len() % 2 != 0 {
        return None;
    }
    let mut out = Vec::with_capacity(b.len() / 2);
    for i in (0..b.len()).step_by(2) {
        let h = (b[i] as char).to_digit(16)?;
        let l = (b[i + 1] as char).to_digit(16)?;
        out.push((h * 16 + l) as u8);
    }
    String::from_utf8(out).ok()
}
