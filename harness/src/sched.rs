//! Forced and unforced thread schedules against the real crate (C13 / C16).
//! Each invocation is a fresh process, so "first engine call of the process" is real.
use crate::sexp::hex;
use expression_engine::verif_hooks;
use expression_engine::{
    execute, parse_expression, register_function, register_infix_op, register_postfix_op,
    register_prefix_op, Context, InfixOpAssociativity, InfixOpType, Value,
};
use std::sync::atomic::{AtomicBool, AtomicU8, Ordering};
use std::sync::{Arc, Barrier, Mutex};
use std::time::{Duration, Instant};

static HOLD_STAGE: AtomicU8 = AtomicU8::new(255);
static HELD: AtomicBool = AtomicBool::new(false);
static RELEASE: AtomicBool = AtomicBool::new(false);

fn probe(stage: u8) {
    // only the first thread to reach the stage is held (the initialiser); with a correct once-cell
    // nobody else can get here, and if somebody does (a second initialiser) it must not be masked
    if stage == HOLD_STAGE.load(Ordering::SeqCst) && !HELD.swap(true, Ordering::SeqCst) {
        while !RELEASE.load(Ordering::SeqCst) {
            std::thread::sleep(Duration::from_millis(1));
        }
    }
}

fn show(r: expression_engine::Result<Value>) -> String {
    match r {
        Ok(v) => format!("ok:{:?}", v).replace(' ', ""),
        Err(_) => "err".to_string(),
    }
}

/// The first-call actions a thread can make. Each returns a canonical result string.
fn action(name: &str, tid: usize) -> String {
    match name {
        "parse" => match parse_expression("1 + 2 * 3 not in [max(1,2)] ? -a ++ : [1]") {
            Ok(a) => format!("ok:{}", hex(&a.expr())),
            Err(_) => "err".into(),
        },
        "exec" => show(execute("max(1, 2) + sum(1, 2, 3) * 2 - (5 % 3) + (1 << 3)", Context::new())),
        "execops" => show(execute("AND[true, !false, not false] && 1 in [1] && 'ab' beginWith 'a' && 2 ++ == 3", Context::new())),
        "regfn" => {
            let n = format!("g{}", tid);
            register_function(&n, Arc::new(move |_| Ok(Value::from(tid as i64))));
            show(execute(&format!("{}() + max(1,2)", n), Context::new()))
        }
        "reginfix" => {
            let n = format!("op{}", tid);
            register_infix_op(&n, 115, InfixOpType::CALC, InfixOpAssociativity::LEFT, Arc::new(|a, _| Ok(a)));
            match parse_expression(&format!("1 + 2 {} 3 * 4", n)) {
                Ok(a) => format!("ok:{}", hex(&a.expr())),
                Err(_) => "err".into(),
            }
        }
        "regprefix" => {
            let n = format!("pre{}", tid);
            register_prefix_op(&n, Arc::new(|a| Ok(a)));
            show(execute(&format!("{} 5 + 1", n), Context::new()))
        }
        "regpostfix" => {
            let n = format!("post{}", tid);
            register_postfix_op(&n, Arc::new(|a| Ok(a)));
            show(execute(&format!("5 {} + 1", n), Context::new()))
        }
        // override of a built-in before first use: must survive initialisation
        "override" => {
            register_function("max", Arc::new(|_| Ok(Value::from(-7))));
            show(execute("max(1, 2)", Context::new()))
        }
        _ => "badaction".into(),
    }
}

pub fn main(args: &[String]) {
    std::panic::set_hook(Box::new(|_| {}));
    match args[0].as_str() {
        // initprobe <stage> <actionA> <actionB> : A is held inside init at <stage>; B makes its first call meanwhile
        "initprobe" => {
            let stage: u8 = args[1].parse().unwrap();
            let (a_act, b_act) = (args[2].clone(), args[3].clone());
            let b_act_is_override = b_act == "override";
            HOLD_STAGE.store(stage, Ordering::SeqCst);
            verif_hooks::set_init_probe(probe);
            let ta = std::thread::spawn(move || action(&a_act, 0));
            let t0 = Instant::now();
            while !HELD.load(Ordering::SeqCst) && t0.elapsed() < Duration::from_secs(5) {
                std::thread::sleep(Duration::from_millis(1));
            }
            let held = HELD.load(Ordering::SeqCst);
            let done_b = Arc::new(AtomicBool::new(false));
            let d2 = done_b.clone();
            let tb = std::thread::spawn(move || {
                let r = action(&b_act, 1);
                d2.store(true, Ordering::SeqCst);
                r
            });
            std::thread::sleep(Duration::from_millis(300));
            let b_returned_while_held = done_b.load(Ordering::SeqCst);
            RELEASE.store(true, Ordering::SeqCst);
            let ra = ta.join().unwrap_or_else(|_| "panic".into());
            let rb = tb.join().unwrap_or_else(|_| "panic".into());
            let fin = if b_act_is_override { format!(" final:max={}", show(execute("max(1, 2)", Context::new()))) } else { String::new() };
            println!("held={} b_early={} a={} b={}{}", held, b_returned_while_held, ra, rb, fin);
        }
        // one <tid> <action> : a single call, alone in the process (sequential reference)
        "one" => {
            let tid: usize = args[1].parse().unwrap();
            println!("{}", action(&args[2], tid));
        }
        // race <n> <action>... : n threads make their first calls simultaneously
        "race" => {
            let n: usize = args[1].parse().unwrap();
            let acts: Vec<String> = args[2..].to_vec();
            let barrier = Arc::new(Barrier::new(n));
            let mut hs = Vec::new();
            for i in 0..n {
                let b = barrier.clone();
                let act = acts[i % acts.len()].clone();
                hs.push(std::thread::spawn(move || {
                    b.wait();
                    (act.clone(), action(&act, i))
                }));
            }
            let mut out = Vec::new();
            for (i, h) in hs.into_iter().enumerate() {
                match h.join() {
                    Ok((a, r)) => out.push(format!("{}:{}={}", i, a, r)),
                    Err(_) => out.push(format!("{}:panic", i)),
                }
            }
            // after every thread has returned: a registration that overrode a built-in must still be in effect
            if acts.iter().any(|a| a == "override") {
                out.push(format!("final:max={}", show(execute("max(1, 2)", Context::new()))));
            }
            println!("{}", out.join(" "));
        }
        // multiread: a registration placed by a rendezvous between two reads of the same name in
        // one evaluation (the known finding KF-C13-multiread): prints the list the evaluation returned
        "multiread" => {
            register_function("g", Arc::new(|_| Ok(Value::from(1))));
            let go = Arc::new(AtomicBool::new(false));
            let done = Arc::new(AtomicBool::new(false));
            let (go2, done2) = (go.clone(), done.clone());
            let t = std::thread::spawn(move || {
                while !go2.load(Ordering::SeqCst) {
                    std::thread::sleep(Duration::from_millis(1));
                }
                register_function("g", Arc::new(|_| Ok(Value::from(2))));
                done2.store(true, Ordering::SeqCst);
            });
            let mut ctx = Context::new();
            let (go3, done3) = (go.clone(), done.clone());
            ctx.set_func(
                "sync",
                Arc::new(move |_| {
                    go3.store(true, Ordering::SeqCst);
                    while !done3.load(Ordering::SeqCst) {
                        std::thread::sleep(Duration::from_millis(1));
                    }
                    Ok(Value::from(0))
                }),
            );
            let r = parse_expression("[g(), sync(), g()]").unwrap().exec(&mut ctx);
            t.join().unwrap();
            println!("{}", show(r));
        }
        // isolation: 8 threads run programs on separate contexts concurrently; each prints its results,
        // to be compared with the same programs run alone (C16)
        "isolation" => {
            let progs: Vec<String> = args[1..].iter().map(|h| crate::sexp::unhex(h).unwrap()).collect();
            let progs = Arc::new(progs);
            let n = 8;
            let barrier = Arc::new(Barrier::new(n));
            let results = Arc::new(Mutex::new(vec![String::new(); n]));
            let mut hs = Vec::new();
            for i in 0..n {
                let (b, p, rs) = (barrier.clone(), progs.clone(), results.clone());
                hs.push(std::thread::spawn(move || {
                    b.wait();
                    let mut out = Vec::new();
                    for k in 0..p.len() {
                        let prog = &p[(k + i) % p.len()];
                        out.push(format!("{}:{}", (k + i) % p.len(), show(execute(prog, Context::new()))));
                    }
                    out.sort();
                    rs.lock().unwrap()[i] = out.join(",");
                }));
            }
            for h in hs {
                let _ = h.join();
            }
            println!("{}", results.lock().unwrap().join(" "));
        }
        // rereg-forced <infix|prefix|postfix> : an operator is registered again while another thread evaluates an
        // expression using it. The replaced handler owns a guard whose destructor — user code that runs somewhere inside
        // or right after the second registration — wakes the evaluating thread and waits for it (bounded). The evaluation
        // must see the old or the new registration, never "no such operator".
        "rereg-forced" => {
            struct Guard(Arc<AtomicBool>, Arc<AtomicBool>);
            impl Drop for Guard {
                fn drop(&mut self) {
                    self.0.store(true, Ordering::SeqCst);
                    let t0 = Instant::now();
                    while !self.1.load(Ordering::SeqCst) && t0.elapsed() < Duration::from_millis(300) {
                        std::thread::sleep(Duration::from_millis(1));
                    }
                }
            }
            let kind = args[1].clone();
            let dropping = Arc::new(AtomicBool::new(false));
            let evaluated = Arc::new(AtomicBool::new(false));
            let g = Arc::new(Guard(dropping.clone(), evaluated.clone()));
            let add = |k: i64| move |v: Value| -> expression_engine::Result<Value> { Ok(Value::from(v.integer()? + k)) };
            let (prog, reg): (&str, Box<dyn Fn(i64, Option<Arc<Guard>>)>) = match kind.as_str() {
                "infix" => ("1 seedjoin 2", Box::new(move |k, g| {
                    register_infix_op("seedjoin", 110, InfixOpType::CALC, InfixOpAssociativity::LEFT,
                        Arc::new(move |a, b| { let _g = &g; Ok(Value::from(a.integer()? + b.integer()? + k)) }))
                })),
                "prefix" => ("seedneg 3", Box::new(move |k, g| {
                    let f = add(k);
                    register_prefix_op("seedneg", Arc::new(move |a| { let _g = &g; f(a) }))
                })),
                _ => ("3 seedinc", Box::new(move |k, g| {
                    let f = add(k);
                    register_postfix_op("seedinc", Arc::new(move |a| { let _g = &g; f(a) }))
                })),
            };
            reg(100, Some(g));
            let prog2 = prog.to_string();
            let (d2, e2) = (dropping.clone(), evaluated.clone());
            let t = std::thread::spawn(move || {
                let t0 = Instant::now();
                while !d2.load(Ordering::SeqCst) && t0.elapsed() < Duration::from_millis(2000) {
                    std::thread::sleep(Duration::from_millis(1));
                }
                let r = show(execute(&prog2, Context::new()));
                e2.store(true, Ordering::SeqCst);
                r
            });
            reg(200, None);
            let during = t.join().unwrap_or_else(|_| "panic".into());
            println!("during={} after={}", during, show(execute(prog, Context::new())));
        }
        // rereg-race <iters> : built-in operators are registered again and again (with handlers equal to the built-in
        // ones) while four threads evaluate expressions using them: every evaluation must give the built-in result
        "rereg-race" => {
            let iters: usize = args[1].parse().unwrap();
            let _ = execute("1", Context::new());
            let stop = Arc::new(AtomicBool::new(false));
            let stop2 = stop.clone();
            let registrar = std::thread::spawn(move || {
                while !stop2.load(Ordering::SeqCst) {
                    register_infix_op("+", 110, InfixOpType::CALC, InfixOpAssociativity::LEFT, Arc::new(|a, b| Ok(Value::from(a.decimal()? + b.decimal()?))));
                    register_prefix_op("-", Arc::new(|a| Ok(Value::from(-a.decimal()?))));
                    register_postfix_op("++", Arc::new(|a| Ok(Value::from(a.decimal()? + rust_decimal::Decimal::ONE))));
                }
            });
            let mut hs = Vec::new();
            for _ in 0..4 {
                hs.push(std::thread::spawn(move || {
                    for _ in 0..iters {
                        for (p, want) in [("1 + 2", "ok:Number(3)"), ("- 3", "ok:Number(-3)"), ("4 ++", "ok:Number(5)")] {
                            let r = show(execute(p, Context::new()));
                            if r != want {
                                return format!("{}=>{}", hex(p), r);
                            }
                        }
                    }
                    "ok".to_string()
                }));
            }
            let out: Vec<String> = hs.into_iter().map(|h| h.join().unwrap_or_else(|_| "panic".into())).collect();
            stop.store(true, Ordering::SeqCst);
            let _ = registrar.join();
            println!("{}", out.join(" "));
        }
        // deeprace <threads> <iters> : every thread parses and evaluates a deeply nested (but legal) expression over and over;
        // nesting limits are per parse, not per process: every call must succeed
        "deeprace" => {
            let n: usize = args[1].parse().unwrap();
            let iters: usize = args[2].parse().unwrap();
            // two shapes: deep for the parser only (parentheses vanish from the tree) and deep for parser and evaluator alike
            let text = format!("{}3 + 4{}", "(".repeat(100), ")".repeat(100));
            let text2 = format!("{}1{}", "1+(".repeat(60), ")".repeat(60));
            let barrier = Arc::new(Barrier::new(n));
            let mut hs = Vec::new();
            for _ in 0..n {
                let (b, t, t2) = (barrier.clone(), text.clone(), text2.clone());
                hs.push(std::thread::Builder::new().stack_size(8 << 20).spawn(move || {
                    b.wait();
                    for _ in 0..iters {
                        let r = show(execute(&t, Context::new()));
                        if r != "ok:Number(7)" {
                            return r;
                        }
                        if parse_expression(&t).is_err() {
                            return "parse-err".to_string();
                        }
                        let r2 = show(execute(&t2, Context::new()));
                        if r2 != "ok:Number(61)" {
                            return r2;
                        }
                    }
                    "ok".to_string()
                }).unwrap());
            }
            let out: Vec<String> = hs.into_iter().map(|h| h.join().unwrap_or_else(|_| "panic".into())).collect();
            println!("{}", out.join(" "));
        }
        // rereg-prec <rounds> : one thread registers the infix operator `times` again and again, alternating its precedence
        // between 130 (tighter than +) and 100 (looser), and after each registration has returned evaluates `1 + 2 times 3`
        // itself: it must see its own latest registration (7 or 9); six threads parse expressions using `times` meanwhile
        "rereg-prec" => {
            let rounds: usize = args[1].parse().unwrap();
            let mul = || Arc::new(|a: Value, b: Value| Ok(Value::from(a.decimal()? * b.decimal()?)));
            register_infix_op("times", 130, InfixOpType::CALC, InfixOpAssociativity::LEFT, mul());
            let stop = Arc::new(AtomicBool::new(false));
            let mut hs = Vec::new();
            for _ in 0..6 {
                let st = stop.clone();
                hs.push(std::thread::spawn(move || {
                    let mut bad = 0usize;
                    while !st.load(Ordering::SeqCst) {
                        if parse_expression("1 + 2 times 3 + 4 times 5").is_err() {
                            bad += 1;
                        }
                    }
                    bad
                }));
            }
            let mut verdict = "ok".to_string();
            for k in 0..rounds {
                let (p, want) = if k % 2 == 0 { (100, "ok:Number(9)") } else { (130, "ok:Number(7)") };
                register_infix_op("times", p, InfixOpType::CALC, InfixOpAssociativity::LEFT, mul());
                let r = show(execute("1 + 2 times 3", Context::new()));
                if r != want {
                    verdict = format!("round{}:prec{}=>{}", k, p, r);
                    break;
                }
            }
            stop.store(true, Ordering::SeqCst);
            let bad: usize = hs.into_iter().map(|h| h.join().unwrap_or(1)).sum();
            println!("{} parse-errors={}", verdict, bad);
        }
        _ => println!("badsched"),
    }
}
