//! eeharness: runs line-protocol requests against the real crate (hooks on).
//! One request per line, TAB-separated fields; one response line per request.
mod sexp;
use expression_engine::verif_hooks;
use expression_engine::{
    parse_expression, register_function, register_infix_op, register_postfix_op,
    register_prefix_op, Context, ExprAST, InfixOpAssociativity, InfixOpType, Value,
};
use rust_decimal::prelude::*;
use sexp::{hex, unhex, Sexp};
use std::collections::HashMap;
use std::io::{BufRead, Write};
use std::panic::{catch_unwind, AssertUnwindSafe};
use std::sync::{Arc, Mutex};

type Log = Arc<Mutex<Vec<String>>>;

fn leak(s: String) -> &'static str {
    Box::leak(s.into_boxed_str())
}

// ---------- values ----------
fn dec_to_sexp(d: &Decimal) -> Sexp {
    let neg = d.is_sign_negative() && !d.is_zero();
    Sexp::List(vec![
        Sexp::atom("n"),
        Sexp::atom(if neg { "1" } else { "0" }),
        Sexp::Atom(d.mantissa().unsigned_abs().to_string()),
        Sexp::Atom(d.scale().to_string()),
    ])
}

fn value_to_sexp(v: &Value) -> Sexp {
    match v {
        Value::String(s) => Sexp::List(vec![Sexp::atom("s"), Sexp::Atom(hex(s))]),
        Value::Number(d) => dec_to_sexp(d),
        Value::Bool(b) => Sexp::List(vec![Sexp::atom("b"), Sexp::atom(if *b { "1" } else { "0" })]),
        Value::List(l) => {
            let mut v = vec![Sexp::atom("l")];
            v.extend(l.iter().map(value_to_sexp));
            Sexp::List(v)
        }
        Value::Map(m) => {
            let mut v = vec![Sexp::atom("m")];
            for (k, x) in m {
                v.push(Sexp::List(vec![value_to_sexp(k), value_to_sexp(x)]));
            }
            Sexp::List(v)
        }
        Value::None => Sexp::List(vec![Sexp::atom("none")]),
    }
}

fn sexp_to_dec(l: &[Sexp]) -> Option<Decimal> {
    let neg = l.get(1)?.as_atom()? == "1";
    let mant: i128 = l.get(2)?.as_atom()?.parse().ok()?;
    let scale: u32 = l.get(3)?.as_atom()?.parse().ok()?;
    let mut d = Decimal::try_from_i128_with_scale(mant, scale).ok()?;
    d.set_sign_negative(neg);
    Some(d)
}

fn sexp_to_value(s: &Sexp) -> Option<Value> {
    let l = s.as_list()?;
    match l.first()?.as_atom()? {
        "s" => Some(Value::String(unhex(l.get(1)?.as_atom()?)?)),
        "n" => Some(Value::Number(sexp_to_dec(l)?)),
        "b" => Some(Value::Bool(l.get(1)?.as_atom()? == "1")),
        "l" => Some(Value::List(
            l[1..].iter().map(sexp_to_value).collect::<Option<Vec<_>>>()?,
        )),
        "m" => {
            let mut out = Vec::new();
            for kv in &l[1..] {
                let kv = kv.as_list()?;
                out.push((sexp_to_value(kv.get(0)?)?, sexp_to_value(kv.get(1)?)?));
            }
            Some(Value::Map(out))
        }
        "none" => Some(Value::None),
        _ => None,
    }
}

// ---------- AST ----------
fn ast_to_sexp(a: &ExprAST) -> Sexp {
    let h = |s: &str| Sexp::Atom(hex(s));
    match a {
        ExprAST::Literal(l) => {
            // Literal's type is private; go through Debug-free route: exec of a literal is total
            let mut ctx = Context::new();
            match a.exec(&mut ctx) {
                Ok(Value::Number(d)) => {
                    let mut v = dec_to_sexp(&d);
                    if let Sexp::List(ref mut items) = v {
                        items[0] = Sexp::atom("num");
                        // keep the raw sign of zero out; parser never makes negatives
                    }
                    v
                }
                Ok(Value::Bool(b)) => Sexp::List(vec![Sexp::atom("bool"), Sexp::atom(if b { "1" } else { "0" })]),
                Ok(Value::String(s)) => Sexp::List(vec![Sexp::atom("str"), h(&s)]),
                _ => {
                    let _ = l;
                    Sexp::List(vec![Sexp::atom("badlit")])
                }
            }
        }
        ExprAST::Unary(op, rhs) => Sexp::List(vec![Sexp::atom("un"), h(op), ast_to_sexp(rhs)]),
        ExprAST::Binary(op, l, r) => Sexp::List(vec![Sexp::atom("bin"), h(op), ast_to_sexp(l), ast_to_sexp(r)]),
        ExprAST::Postfix(l, op) => Sexp::List(vec![Sexp::atom("post"), ast_to_sexp(l), h(op)]),
        ExprAST::Ternary(c, x, y) => Sexp::List(vec![Sexp::atom("tern"), ast_to_sexp(c), ast_to_sexp(x), ast_to_sexp(y)]),
        ExprAST::Reference(n) => Sexp::List(vec![Sexp::atom("ref"), h(n)]),
        ExprAST::Function(n, args) => {
            let mut v = vec![Sexp::atom("call"), h(n)];
            v.extend(args.iter().map(ast_to_sexp));
            Sexp::List(v)
        }
        ExprAST::List(xs) => {
            let mut v = vec![Sexp::atom("list")];
            v.extend(xs.iter().map(ast_to_sexp));
            Sexp::List(v)
        }
        ExprAST::Map(kvs) => {
            let mut v = vec![Sexp::atom("map")];
            for (k, x) in kvs {
                v.push(Sexp::List(vec![ast_to_sexp(k), ast_to_sexp(x)]));
            }
            Sexp::List(v)
        }
        ExprAST::Stmt(xs) => {
            let mut v = vec![Sexp::atom("stmt")];
            v.extend(xs.iter().map(ast_to_sexp));
            Sexp::List(v)
        }
        ExprAST::None => Sexp::List(vec![Sexp::atom("none")]),
    }
}

fn literal_ast(text: &str) -> Option<ExprAST<'static>> {
    match parse_expression(leak(text.to_string())).ok()? {
        a @ ExprAST::Literal(_) => Some(a),
        _ => Option::None,
    }
}

fn sexp_to_ast(s: &Sexp) -> Option<ExprAST<'static>> {
    let l = s.as_list()?;
    let name = |i: usize| -> Option<&'static str> { Some(leak(unhex(l.get(i)?.as_atom()?)?)) };
    let sub = |i: usize| -> Option<Box<ExprAST<'static>>> { Some(Box::new(sexp_to_ast(l.get(i)?)?)) };
    match l.first()?.as_atom()? {
        "num" => {
            // literals are obtained from the parser (their type is not nameable): only
            // non-negative decimals can be built this way, which is all the parser makes
            let d = sexp_to_dec(l)?;
            if d.is_sign_negative() {
                return Option::None;
            }
            literal_ast(&d.to_string())
        }
        "bool" => literal_ast(if l.get(1)?.as_atom()? == "1" { "true" } else { "false" }),
        "str" => {
            let s = unhex(l.get(1)?.as_atom()?)?;
            let q = if s.contains('"') { '\'' } else { '"' };
            if s.contains('"') && s.contains('\'') {
                return Option::None;
            }
            literal_ast(&format!("{}{}{}", q, s, q))
        }
        "un" => Some(ExprAST::Unary(name(1)?, sub(2)?)),
        "bin" => Some(ExprAST::Binary(name(1)?, sub(2)?, sub(3)?)),
        "post" => Some(ExprAST::Postfix(sub(1)?, name(2)?.to_string())),
        "tern" => Some(ExprAST::Ternary(sub(1)?, sub(2)?, sub(3)?)),
        "ref" => Some(ExprAST::Reference(name(1)?)),
        "call" => Some(ExprAST::Function(
            name(1)?,
            l[2..].iter().map(sexp_to_ast).collect::<Option<Vec<_>>>()?,
        )),
        "list" => Some(ExprAST::List(l[1..].iter().map(sexp_to_ast).collect::<Option<Vec<_>>>()?)),
        "stmt" => Some(ExprAST::Stmt(l[1..].iter().map(sexp_to_ast).collect::<Option<Vec<_>>>()?)),
        "map" => {
            let mut out = Vec::new();
            for kv in &l[1..] {
                let kv = kv.as_list()?;
                out.push((sexp_to_ast(kv.get(0)?)?, sexp_to_ast(kv.get(1)?)?));
            }
            Some(ExprAST::Map(out))
        }
        "none" => Some(ExprAST::None),
        _ => Option::None,
    }
}

// ---------- handler scripts ----------
// (const V) (arg i) (err) (panic) (log TAG S) (bi OP) (bp OP) (bq OP) (bf NAME)
// (parse TEXT) (exec TEXT) (reg KIND NAME PREC TYPE ASSOC S) (lockctx) (seq S1 S2)
type Handle = Arc<dyn Fn() -> usize + Send + Sync>; // locks the context handle, returns len

#[derive(Clone)]
struct Env {
    log: Log,
    lockctx: Option<Handle>,
}

fn fresh_ctx_exec(text: &str) -> Result<Value, ()> {
    expression_engine::execute(text, expression_engine::create_context!()).map_err(|_| ())
}

fn run_script(s: &Sexp, args: &[Value], env: &Env) -> Result<Value, ()> {
    let l = s.as_list().ok_or(())?;
    let a = |i: usize| -> Result<&str, ()> { l.get(i).and_then(|x| x.as_atom()).ok_or(()) };
    match a(0)? {
        "const" => sexp_to_value(l.get(1).ok_or(())?).ok_or(()),
        "arg" => {
            let i: usize = a(1)?.parse().map_err(|_| ())?;
            Ok(args.get(i).cloned().unwrap_or(Value::None))
        }
        "err" => Err(()),
        // the same, surfacing as the engine's "should be a number" error (what `value.decimal()?` yields in a real handler)
        "errnum" => {
            ERR_AS_NUMBER.with(|f| f.set(true));
            Err(())
        }
        // the message carries the words of the usual run-time panics: a panic is a panic whatever it says
        "panic" => panic!("scripted panic (attempt to add with overflow / index out of bounds / unwrap on a None value)"),
        "log" => {
            let mut items = vec![Sexp::Atom(a(1)?.to_string())];
            items.extend(args.iter().map(value_to_sexp));
            env.log.lock().unwrap().push(Sexp::List(items).to_string());
            run_script(l.get(2).ok_or(())?, args, env)
        }
        // delegate to the built-in semantics through a fresh evaluation `p0 OP p1`
        "bi" => {
            let op = unhex(a(1)?).ok_or(())?;
            let ast = ExprAST::Binary(
                leak(op),
                Box::new(ExprAST::Reference("p0")),
                Box::new(ExprAST::Reference("p1")),
            );
            let mut ctx = Context::new();
            ctx.set_variable("p0", args.get(0).cloned().unwrap_or(Value::None));
            ctx.set_variable("p1", args.get(1).cloned().unwrap_or(Value::None));
            ast.exec(&mut ctx).map_err(|_| ())
        }
        "parse" => {
            let t = unhex(a(1)?).ok_or(())?;
            Ok(Value::Bool(parse_expression(&t).is_ok()))
        }
        "exec" => {
            let t = unhex(a(1)?).ok_or(())?;
            fresh_ctx_exec(&t)
        }
        "reg" => {
            do_reg(&l[1..], env)?;
            Ok(Value::None)
        }
        "lockctx" => match &env.lockctx {
            Some(h) => Ok(Value::from(h() as i64)),
            Option::None => Ok(Value::None),
        },
        "seq" => {
            run_script(l.get(1).ok_or(())?, args, env)?;
            run_script(l.get(2).ok_or(())?, args, env)
        }
        _ => Err(()),
    }
}

thread_local! {
    static ERR_AS_NUMBER: std::cell::Cell<bool> = std::cell::Cell::new(false);
}

fn to_engine_err() -> impl Fn(()) -> ExprErr {
    |_| {
        if ERR_AS_NUMBER.with(|f| f.replace(false)) {
            Value::None.decimal().err().unwrap()
        } else {
            script_error()
        }
    }
}

// An engine Error value can only be obtained from the engine: get one by failing an accessor.
type ExprErr = <Result<(), ()> as ErrOf>::E;
trait ErrOf {
    type E;
}
impl ErrOf for Result<(), ()> {
    type E = EngineError;
}
type EngineError = <expression_engine::Result<()> as ResErr>::E;
trait ResErr {
    type E;
}
impl<T, E> ResErr for std::result::Result<T, E> {
    type E = E;
}
fn script_error() -> EngineError {
    Value::None.bool().err().unwrap()
}

fn do_reg(f: &[Sexp], env: &Env) -> Result<(), ()> {
    let a = |i: usize| -> Result<&str, ()> { f.get(i).and_then(|x| x.as_atom()).ok_or(()) };
    let kind = a(0)?;
    let name = unhex(a(1)?).ok_or(())?;
    let prec: i32 = a(2)?.parse().map_err(|_| ())?;
    let ty = if a(3)? == "setter" { InfixOpType::SETTER } else { InfixOpType::CALC };
    let assoc = if a(4)? == "right" { InfixOpAssociativity::RIGHT } else { InfixOpAssociativity::LEFT };
    let script = f.get(5).ok_or(())?.clone();
    let env = Env { log: env.log.clone(), lockctx: Option::None };
    match kind {
        "fn" => register_function(
            &name,
            Arc::new(move |params| run_script(&script, &params, &env).map_err(to_engine_err())),
        ),
        "prefix" => register_prefix_op(
            &name,
            Arc::new(move |v| run_script(&script, &[v], &env).map_err(to_engine_err())),
        ),
        "postfix" => register_postfix_op(
            &name,
            Arc::new(move |v| run_script(&script, &[v], &env).map_err(to_engine_err())),
        ),
        "infix" => register_infix_op(
            &name,
            prec,
            ty,
            assoc,
            Arc::new(move |x, y| run_script(&script, &[x, y], &env).map_err(to_engine_err())),
        ),
        _ => return Err(()),
    }
    Ok(())
}

// ---------- contexts ----------
struct Ctx {
    ctx: Context,
    names: Vec<String>, // every name bound initially or mentioned later (for dumps)
}

fn make_ctx(spec: &Sexp, log: &Log) -> Option<Ctx> {
    // an empty context is made the way applications make one: with the crate's macro
    let mut ctx = if spec.as_list().map(|l| l.is_empty()).unwrap_or(false) { expression_engine::create_context!() } else { Context::new() };
    let handle = ctx.0.clone();
    let lock: Handle = Arc::new(move || handle.lock().unwrap().len());
    let mut names = Vec::new();
    for b in spec.as_list()? {
        let b = b.as_list()?;
        let name = unhex(b.get(0)?.as_atom()?)?;
        match b.get(1)?.as_atom()? {
            "v" => ctx.set_variable(&name, sexp_to_value(b.get(2)?)?),
            "f" => {
                let script = b.get(2)?.clone();
                let env = Env { log: log.clone(), lockctx: Some(lock.clone()) };
                ctx.set_func(
                    &name,
                    Arc::new(move |params| run_script(&script, &params, &env).map_err(to_engine_err())),
                );
            }
            _ => return Option::None,
        }
        names.push(name);
    }
    Some(Ctx { ctx, names })
}

fn dump_ctx(c: &Ctx) -> String {
    let mut names = c.names.clone();
    names.sort();
    names.dedup();
    let r = catch_unwind(AssertUnwindSafe(|| {
        let mut items = Vec::new();
        for n in &names {
            if let Some(v) = c.ctx.get_variable(n) {
                items.push(Sexp::List(vec![Sexp::Atom(hex(n)), Sexp::atom("v"), value_to_sexp(&v)]));
            } else if c.ctx.get_func(n).is_some() {
                items.push(Sexp::List(vec![Sexp::Atom(hex(n)), Sexp::atom("f")]));
            }
        }
        Sexp::List(items).to_string()
    }));
    r.unwrap_or_else(|_| "POISONED".to_string())
}

fn take_log(log: &Log) -> String {
    let mut g = match log.lock() {
        Ok(g) => g,
        Err(p) => p.into_inner(),
    };
    let s = format!("({})", g.join(" "));
    g.clear();
    s
}

fn outcome(r: std::thread::Result<expression_engine::Result<Value>>) -> String {
    match r {
        Ok(Ok(v)) => format!("OK {}", value_to_sexp(&v).to_string()),
        Ok(Err(e)) => format!("ERR {}", err_kind(&e)),
        Err(_) => "PANIC".to_string(),
    }
}

fn err_kind(e: &EngineError) -> String {
    let d = format!("{:?}", e);
    d.split(|c: char| !c.is_alphanumeric()).next().unwrap_or("").to_string()
}

// names mentioned in a program text / AST, so that the context dump shows them
fn collect_names(a: &ExprAST, out: &mut Vec<String>) {
    match a {
        ExprAST::Reference(n) => out.push(n.to_string()),
        ExprAST::Unary(_, r) => collect_names(r, out),
        ExprAST::Binary(_, l, r) => {
            collect_names(l, out);
            collect_names(r, out)
        }
        ExprAST::Postfix(l, _) => collect_names(l, out),
        ExprAST::Ternary(c, x, y) => {
            collect_names(c, out);
            collect_names(x, out);
            collect_names(y, out)
        }
        ExprAST::Function(n, args) => {
            out.push(n.to_string());
            args.iter().for_each(|x| collect_names(x, out))
        }
        ExprAST::List(xs) | ExprAST::Stmt(xs) => xs.iter().for_each(|x| collect_names(x, out)),
        ExprAST::Map(kvs) => kvs.iter().for_each(|(k, v)| {
            collect_names(k, out);
            collect_names(v, out)
        }),
        _ => {}
    }
}

// ---------- token oracle (C10) ----------
fn tiling_oracle(input: &str, toks: &[(u8, String, usize, usize)]) -> String {
    let ws = |c: char| c == ' ' || c == '\t' || c == '\r' || c == '\n';
    let mut pos = 0usize;
    for (k, text, s, e) in toks {
        if *s < pos || *e <= *s || *e > input.len() {
            return format!("bad:span:{}:{}", s, e);
        }
        if !input.is_char_boundary(*s) || !input.is_char_boundary(*e) {
            return format!("bad:boundary:{}:{}", s, e);
        }
        if !input[pos..*s].chars().all(ws) {
            return format!("bad:gap:{}:{}", pos, s);
        }
        let slice = &input[*s..*e];
        let ok = match k {
            5 => slice.len() >= 2 && &slice[1..slice.len() - 1] == text && {
                let q = slice.chars().next().unwrap();
                (q == '"' || q == '\'') && slice.ends_with(q) && !text.contains(q)
            },
            2 => true, // payload is a Decimal; checked against the model / C09
            4 => (text == "true" && (slice == "true" || slice == "True"))
                || (text == "false" && (slice == "false" || slice == "False")),
            _ => slice == text,
        };
        if !ok {
            return format!("bad:text:{}:{}", s, e);
        }
        pos = *e;
    }
    if !input[pos..].chars().all(ws) {
        return format!("bad:tail:{}", pos);
    }
    "ok".to_string()
}

// ---------- conversions (C17) ----------
fn conv(ty: &str, lit: &str) -> String {
    macro_rules! int {
        ($t:ty) => {{
            match lit.parse::<$t>() {
                Ok(n) => {
                    let v = Value::from(n);
                    let exact = match &v {
                        Value::Number(d) => d.scale() == 0 && d.mantissa() == n as i128 && (n as i128 >= 0 || d.is_sign_negative()),
                        _ => false,
                    };
                    let wide = (n as i128).unsigned_abs() >= (1u128 << 96);
                    let _ = wide;
                    format!("OK\t{}\t{}", value_to_sexp(&v).to_string(), if exact { "exact" } else { "inexact" })
                }
                Err(_) => "BADREQ".to_string(),
            }
        }};
    }
    match ty {
        "i8" => int!(i8),
        "i16" => int!(i16),
        "i32" => int!(i32),
        "i64" => int!(i64),
        "u8" => int!(u8),
        "u16" => int!(u16),
        "u32" => int!(u32),
        "u64" => int!(u64),
        "i128" => match lit.parse::<i128>() {
            Ok(n) => {
                let v = Value::from(n);
                let exact = match &v {
                    Value::Number(d) => d.scale() == 0 && d.mantissa() == n,
                    _ => false,
                };
                format!("OK\t{}\t{}", value_to_sexp(&v).to_string(), if exact { "exact" } else { "inexact" })
            }
            Err(_) => "BADREQ".to_string(),
        },
        "u128" => match lit.parse::<u128>() {
            Ok(n) => {
                let v = Value::from(n);
                let exact = match &v {
                    Value::Number(d) => d.scale() == 0 && !d.is_sign_negative() && d.mantissa().unsigned_abs() == n,
                    _ => false,
                };
                format!("OK\t{}\t{}", value_to_sexp(&v).to_string(), if exact { "exact" } else { "inexact" })
            }
            Err(_) => "BADREQ".to_string(),
        },
        // floats: literal is the hex bit pattern
        "f64" => match u64::from_str_radix(lit, 16) {
            Ok(bits) => {
                let x = f64::from_bits(bits);
                let v = Value::from(x);
                let back = v.clone().float();
                let faithful = match back {
                    Ok(y) => y == x,
                    Err(_) => false,
                };
                let class = if !x.is_finite() { "nonfinite" } else if x.abs() >= 7.9228162514264337593543950336e28 { "huge" } else { "finite" };
                format!("OK\t{}\t{}\t{}", value_to_sexp(&v).to_string(), if faithful { "faithful" } else { "unfaithful" }, class)
            }
            Err(_) => "BADREQ".to_string(),
        },
        "f32" => match u32::from_str_radix(lit, 16) {
            Ok(bits) => {
                let x = f32::from_bits(bits);
                let v = Value::from(x);
                let back = v.clone().float();
                let faithful = match back {
                    Ok(y) => (y as f32) == x,
                    Err(_) => false,
                };
                let class = if !x.is_finite() { "nonfinite" } else if x.abs() >= 7.9228162514264337593543950336e28 { "huge" } else { "finite" };
                format!("OK\t{}\t{}\t{}", value_to_sexp(&v).to_string(), if faithful { "faithful" } else { "unfaithful" }, class)
            }
            Err(_) => "BADREQ".to_string(),
        },
        _ => "BADREQ".to_string(),
    }
}

fn accessors(v: &Value) -> String {
    // decimal string bool integer list : "ok"/"err" each, plus payload for integer
    let d = match v.clone().decimal() { Ok(d) => format!("ok:{}", dec_to_sexp(&d).to_string()), Err(_) => "err".into() };
    let s = match v.clone().string() { Ok(s) => format!("ok:{}", hex(&s)), Err(_) => "err".into() };
    let b = match v.clone().bool() { Ok(b) => format!("ok:{}", b as u8), Err(_) => "err".into() };
    let i = match v.clone().integer() { Ok(i) => format!("ok:{}", i), Err(_) => "err".into() };
    let l = match v.clone().list() { Ok(l) => format!("ok:{}", value_to_sexp(&Value::List(l)).to_string()), Err(_) => "err".into() };
    format!("{}\t{}\t{}\t{}\t{}", d, s, b, i, l)
}

fn handle(line: &str, ctxs: &mut HashMap<String, Ctx>, log: &Log) -> String {
    let f: Vec<&str> = line.split('\t').collect();
    let text = |i: usize| -> Option<String> { unhex(f.get(i)?) };
    match f[0] {
        "TOK" => {
            let Some(t) = text(1) else { return "BADREQ".into() };
            match verif_hooks::tokenize(&t) {
                Ok(toks) => {
                    let oracle = tiling_oracle(&t, &toks);
                    let mut out = format!("OK\t{}\t", oracle);
                    let items: Vec<String> = toks
                        .iter()
                        .map(|(k, tx, s, e)| {
                            let payload = if *k == 2 { format!("n{}", tx.replace(':', ".")) } else { hex(tx) };
                            format!("{}:{}:{}:{}", k, payload, s, e)
                        })
                        .collect();
                    out.push_str(&items.join(" "));
                    out
                }
                Err(e) => format!("ERR {}", err_kind(&e)),
            }
        }
        "PARSE" => {
            let Some(t) = text(1) else { return "BADREQ".into() };
            match parse_expression(&t) {
                Ok(a) => format!("OK\t{}", ast_to_sexp(&a).to_string()),
                Err(e) => format!("ERR {}", err_kind(&e)),
            }
        }
        "EXPR" => {
            let Some(t) = text(1) else { return "BADREQ".into() };
            match parse_expression(&t) {
                Ok(a) => {
                    let e1 = a.expr();
                    let (re, e2) = match parse_expression(&e1) {
                        Ok(b) => (ast_to_sexp(&b).to_string(), hex(&b.expr())),
                        Err(_) => ("ERR".to_string(), "-".to_string()),
                    };
                    format!("OK\t{}\t{}\t{}\t{}", ast_to_sexp(&a).to_string(), hex(&e1), re, e2)
                }
                Err(e) => format!("ERR {}", err_kind(&e)),
            }
        }
        "EXPRAST" => {
            let Some(a) = f.get(1).and_then(|s| sexp::parse(s)).and_then(|s| sexp_to_ast(&s)) else { return "BADREQ".into() };
            let e1 = a.expr();
            let re = match parse_expression(&e1) {
                Ok(b) => ast_to_sexp(&b).to_string(),
                Err(_) => "ERR".to_string(),
            };
            format!("OK\t{}\t{}", hex(&e1), re)
        }
        "DESCR" => {
            let Some(t) = text(1) else { return "BADREQ".into() };
            match parse_expression(&t) {
                Ok(a) => format!("OK\t{}", hex(&a.describe())),
                Err(e) => format!("ERR {}", err_kind(&e)),
            }
        }
        "DESCRAST" => {
            let Some(a) = f.get(1).and_then(|s| sexp::parse(s)).and_then(|s| sexp_to_ast(&s)) else { return "BADREQ".into() };
            format!("OK\t{}", hex(&a.describe()))
        }
        "DESC" => {
            // marker descriptors: ⟦kind:name|child|child…⟧ ; name omitted for unnamed kinds
            let kind = f[1].to_string();
            let name = text(2).unwrap_or_default();
            let mut dm = verif_hooks::DescriptorManager::new();
            let mk = move |k: &str, parts: Vec<String>| format!("<{}|{}>", k, parts.join("|"));
            let tag = f.get(3).map(|s| s.to_string()).unwrap_or_else(|| kind.clone());
            match kind.as_str() {
                "unary" => { let t = tag.clone(); dm.set_unary_descriptor(name, Arc::new(move |op, r| mk(&t, vec![op, r]))) }
                "binary" => { let t = tag.clone(); dm.set_binary_descriptor(name, Arc::new(move |op, l, r| mk(&t, vec![op, l, r]))) }
                "postfix" => { let t = tag.clone(); dm.set_postfix_descriptor(name, Arc::new(move |l, op| mk(&t, vec![l, op]))) }
                "ternary" => { let t = tag.clone(); dm.set_ternary_descriptor(Arc::new(move |c, l, r| mk(&t, vec![c, l, r]))) }
                "function" => { let t = tag.clone(); dm.set_function_descriptor(name, Arc::new(move |n, mut ps| { ps.insert(0, n); mk(&t, ps) })) }
                "reference" => { let t = tag.clone(); dm.set_reference_descriptor(name, Arc::new(move |n| mk(&t, vec![n]))) }
                "list" => { let t = tag.clone(); dm.set_list_descriptor(Arc::new(move |ps| mk(&t, ps))) }
                "map" => { let t = tag.clone(); dm.set_map_descriptor(Arc::new(move |kvs| mk(&t, kvs.into_iter().map(|(k, v)| format!("{}=>{}", k, v)).collect()))) }
                "chain" => { let t = tag.clone(); dm.set_chain_descriptor(Arc::new(move |ps| mk(&t, ps))) }
                _ => return "BADREQ".into(),
            }
            "OK".into()
        }
        "REG" => {
            let items: Option<Vec<Sexp>> = (1..6)
                .map(|i| f.get(i).map(|s| Sexp::atom(s)))
                .chain(std::iter::once(f.get(6).and_then(|s| sexp::parse(s))))
                .collect();
            let Some(items) = items else { return "BADREQ".into() };
            let env = Env { log: log.clone(), lockctx: Option::None };
            match do_reg(&items, &env) {
                Ok(()) => "OK".into(),
                Err(()) => "BADREQ".into(),
            }
        }
        "CTX" => {
            let Some(spec) = f.get(2).and_then(|s| sexp::parse(s)) else { return "BADREQ".into() };
            match make_ctx(&spec, log) {
                Some(c) => {
                    ctxs.insert(f[1].to_string(), c);
                    "OK".into()
                }
                Option::None => "BADREQ".into(),
            }
        }
        "EXEC" | "EXECAST" | "EXECW" => {
            let id = f[1].to_string();
            let Some(mut c) = ctxs.remove(&id) else { return "BADREQ".into() };
            // a program given as text is evaluated through the public entry point `execute` (on a handle to the same
            // context table, so that the context can be inspected afterwards); the tree is parsed here only to be shown
            let src: Option<String> = if f[0] == "EXECAST" { Option::None } else { text(2) };
            let ast: ExprAST<'static> = if f[0] == "EXECAST" {
                match f.get(2).and_then(|s| sexp::parse(s)).and_then(|s| sexp_to_ast(&s)) {
                    Some(a) => a,
                    Option::None => {
                        ctxs.insert(id, c);
                        return "BADREQ".into();
                    }
                }
            } else {
                let Some(t) = text(2) else { return "BADREQ".into() };
                match parse_expression(leak(t)) {
                    Ok(a) => a,
                    Err(e) => {
                        let r = format!("PARSEERR {}", err_kind(&e));
                        ctxs.insert(id, c);
                        return r;
                    }
                }
            };
            let mut names = Vec::new();
            collect_names(&ast, &mut names);
            c.names.extend(names);
            let ast_s = ast_to_sexp(&ast).to_string();
            if f[0] == "EXECW" {
                // watchdog: run on a worker thread; a timeout is reported as DEADLOCK and ends the process
                let (tx, rx) = std::sync::mpsc::channel();
                let log2 = log.clone();
                std::thread::Builder::new()
                    .stack_size(8 << 20)
                    .spawn(move || {
                        let h = c.ctx.0.clone();
                        let r = catch_unwind(AssertUnwindSafe(|| match &src {
                            Some(t) => expression_engine::execute(t, std::mem::replace(&mut c.ctx, Context::new())),
                            Option::None => ast.exec(&mut c.ctx),
                        }));
                        c.ctx.0 = h;
                        let out = format!("{}\t{}\t{}", outcome(r), dump_ctx(&c), take_log(&log2));
                        let _ = tx.send((out, c));
                    })
                    .unwrap();
                let watchdog_ms: u64 = std::env::var("EE_WATCHDOG_MS").ok().and_then(|s| s.parse().ok()).unwrap_or(3000);
                match rx.recv_timeout(std::time::Duration::from_millis(watchdog_ms)) {
                    Ok((out, c)) => {
                        ctxs.insert(id, c);
                        format!("{}\t{}", ast_s, out)
                    }
                    Err(_) => {
                        println!("{}\tDEADLOCK", ast_s);
                        std::io::stdout().flush().ok();
                        std::process::exit(3);
                    }
                }
            } else {
                let h = c.ctx.0.clone();
                let r = catch_unwind(AssertUnwindSafe(|| match &src {
                    Some(t) => expression_engine::execute(t, std::mem::replace(&mut c.ctx, Context::new())),
                    Option::None => ast.exec(&mut c.ctx),
                }));
                c.ctx.0 = h;
                let out = format!("{}\t{}\t{}\t{}", ast_s, outcome(r), dump_ctx(&c), take_log(log));
                ctxs.insert(id, c);
                out
            }
        }
        "GETVAR" => {
            let Some(c) = ctxs.get(f[1]) else { return "BADREQ".into() };
            let Some(n) = text(2) else { return "BADREQ".into() };
            match catch_unwind(AssertUnwindSafe(|| c.ctx.get_variable(&n))) {
                Ok(Some(v)) => format!("OK {}", value_to_sexp(&v).to_string()),
                Ok(Option::None) => "NONE".into(),
                Err(_) => "PANIC".into(),
            }
        }
        "CONV" => conv(f[1], f[2]),
        "ACC" => {
            let Some(v) = f.get(1).and_then(|s| sexp::parse(s)).and_then(|s| sexp_to_value(&s)) else { return "BADREQ".into() };
            format!("OK\t{}", accessors(&v))
        }
        "FLT" => {
            // Value::float(): the bits of the returned f64, or err
            let Some(v) = f.get(1).and_then(|s| sexp::parse(s)).and_then(|s| sexp_to_value(&s)) else { return "BADREQ".into() };
            match v.float() { Ok(x) => format!("OK\tok:{:016x}", x.to_bits()), Err(_) => "OK\terr".into() }
        }
        "DUMPREG" => {
            let d = verif_hooks::dump_registries();
            let inf: Vec<String> = d.infix.iter().map(|(n, p, s, r)| format!("{}:{}:{}:{}", hex(n), p, if *s { "setter" } else { "calc" }, if *r { "right" } else { "left" })).collect();
            let h = |v: &Vec<String>| v.iter().map(|s| hex(s)).collect::<Vec<_>>().join(" ");
            format!("OK\t{}\t{}\t{}\t{}", inf.join(" "), h(&d.prefix), h(&d.postfix), h(&d.functions))
        }
        _ => "BADREQ".into(),
    }
}

fn main() {
    let args: Vec<String> = std::env::args().collect();
    if args.len() > 1 && args[1] == "charclass" {
        // exhaustive dump of the tokenizer's character classes as ranges
        let mut out = std::io::BufWriter::new(std::io::stdout());
        let mut start = 0u32;
        let mut cur: Option<u8> = Option::None;
        for cp in 0..=0x10FFFFu32 {
            let cls = char::from_u32(cp).map(verif_hooks::char_class);
            let cls = match cls { Some(c) => c, Option::None => 0xFF }; // surrogates
            match cur {
                Some(c) if c == cls => {}
                Some(c) => {
                    writeln!(out, "{} {} {}", start, cp - 1, c).unwrap();
                    start = cp;
                    cur = Some(cls);
                }
                Option::None => {
                    start = cp;
                    cur = Some(cls);
                }
            }
        }
        writeln!(out, "{} {} {}", start, 0x10FFFFu32, cur.unwrap()).unwrap();
        return;
    }
    if args.len() > 1 && args[1] == "sched" {
        sched::main(&args[2..]);
        return;
    }
    std::panic::set_hook(Box::new(|_| {}));
    let careful = args.iter().any(|a| a == "--flush");
    let stdin = std::io::stdin();
    let log: Log = Arc::new(Mutex::new(Vec::new()));
    let mut ctxs: HashMap<String, Ctx> = HashMap::new();
    // run on a thread with a known stack size so that deep-input behaviour is reproducible
    let stack: usize = std::env::var("EE_STACK").ok().and_then(|s| s.parse().ok()).unwrap_or(2 << 20);
    let lines: Vec<String> = stdin.lock().lines().map(|l| l.unwrap()).collect();
    let h = std::thread::Builder::new()
        .stack_size(stack)
        .spawn(move || {
            let mut res = Vec::new();
            // `ONW\t<request>`: run the (context-free) request on a second, persistent thread, so that per-thread
            // state in the crate — which the properties say does not exist — would show
            let (wtx, wrx) = std::sync::mpsc::channel::<String>();
            let (rtx, rrx) = std::sync::mpsc::channel::<String>();
            let wlog = log.clone();
            std::thread::Builder::new()
                .stack_size(stack)
                .spawn(move || {
                    let mut wctxs: HashMap<String, Ctx> = HashMap::new();
                    for req in wrx {
                        let r = match catch_unwind(AssertUnwindSafe(|| handle(&req, &mut wctxs, &wlog))) {
                            Ok(s) => s,
                            Err(_) => "PANIC".to_string(),
                        };
                        if rtx.send(r).is_err() {
                            break;
                        }
                    }
                })
                .unwrap();
            for line in lines {
                let r = if let Some(rest) = line.strip_prefix("ONW\t") {
                    wtx.send(rest.to_string()).ok();
                    rrx.recv().unwrap_or_else(|_| "PANIC".to_string())
                } else {
                    match catch_unwind(AssertUnwindSafe(|| handle(&line, &mut ctxs, &log))) {
                        Ok(s) => s,
                        Err(_) => "PANIC".to_string(),
                    }
                };
                if careful {
                    println!("{}", r);
                    std::io::stdout().flush().ok();
                } else {
                    res.push(r);
                }
            }
            res
        })
        .unwrap();
    let res = h.join().unwrap();
    let stdout = std::io::stdout();
    let mut out = std::io::BufWriter::with_capacity(1 << 16, stdout.lock());
    for r in res {
        writeln!(out, "{}", r).unwrap();
    }
    out.flush().unwrap();
}

mod sched;
